/-
  `Handler.ProcessPacket` of handlers/dhcp4_spoofer — the DISPATCH — regenerated from its Go body
  (Gen.DhcpSrv.Handler_ProcessPacket; tools/goextract/dhcpsrv*.go with the dictionary entries "ProcessPacket") and
  tied to `Model.Dhcp4Frame.processRaw`, the function the raw-history statements of Props/ComposeDhcp, ComposeDhcpWire
  and ComposeDhcpFrame (C08, C11, C12) are about.

  `frameVOf` computes what the dispatch reads of the frame from the RAW payload, in the order the Go code evaluates
  it, through the REGENERATED `IsValid` (F10, Gen.Valid.genValidDHCP4) and the REGENERATED `ParseOptions` (F14,
  Gen.LoopsOpts.genDHCP4_ParseOptions); `genProcessRaw` runs the regenerated dispatch on it, which calls the
  regenerated handlers (F19).  `processPacket_tie`: for every configuration, server state with distinct keys, instant,
  frame facts and byte string, the pipeline of regenerated bodies returns the error, writes the replies (room test
  included) and leaves the lease table of `processRaw` (state up to `touch`: the code rewrites the client's entry in
  place, the model re-inserts it at the head; `C11SrvTie.touch_getLease`: no lookup can tell).
-/
import PacketVerif.Props.C11SrvTie
import PacketVerif.Props.C08OptTie
import PacketVerif.Props.C01ValidTie
import PacketVerif.Lemmas.ComposeDhcp
import PacketVerif.Lemmas.Dhcp4Wire
namespace PV.Props.C12DispatchTie
open PV PV.Model PV.Model.Dhcp4Srv PV.Model.Dhcp4Opt PV.Model.Dhcp4Frame PV.Model.DhcpSrvGo PV.Model.DhcpDispatchGo
open PV.Gen.DhcpSrv PV.Lemmas.Dhcp4Srv PV.Lemmas.DhcpSrvTie

/-- a message nobody reads (frames that never reach a handler) -/
def msg0 : Msg := ⟨[], none, none, none, [], 0, 0, 0, false⟩

/-- `err := dhcpFrame.IsValid()` as a value -/
def validRet : Outcome Unit → Outcome (Option Err)
  | .ok () => .ok none
  | .err e => .ok (some e)
  | .panic => .panic
  | .hang => .hang

/-- what `processClientPacket` (client.go; not regenerated) returns: its syntactic checks -/
def clientRetOf (p : Bytes) : Outcome (Option Err) := do
  match ← clientClass p with
  | .rejected e => pure (some e)
  | _ => pure none

/-- **the frame as the dispatch reads it, from the raw payload**: `IsValid` first; on the client port nothing else;
    otherwise `ParseOptions` and the header reads.  `PayloadID` is `PayloadDHCP4` (the session dispatches on it). -/
def frameVOf (rx : Rx) (host : Option MAC) (sendErr : Option Err) (p : Bytes) : Outcome FrameV := do
  let base : FrameV := { pid := 10, dstPort := rx.dstPort, srcIP := .v4 rx.srcIP, host := host, cap := rx.cap,
                         sendErr := sendErr, m := msg0 }
  match ← validRet (Gen.Valid.genValidDHCP4 p) with
  | some e => pure { base with valid := some e }
  | none =>
    if rx.dstPort == 68 then do
      let r ← clientRetOf p
      pure { base with clientRet := r }
    else do
      let g ← Gen.LoopsOpts.genDHCP4_ParseOptions p
      let m ← msgOf rx p []
      pure { base with mtOpt := LoopGoOpts.mapGet g 53,
                       m := { m with cidOpt := LoopGoOpts.mapGet g 61, reqOpt := LoopGoOpts.mapGet g 50,
                                     srvOpt := LoopGoOpts.mapGet g 54 } }

/-- **`ProcessPacket` over regenerated bodies, on a raw payload**; `none` = a cursor loop ran out of fuel -/
def genProcessRaw (cfg : Dhcp4Srv.Cfg) (now fuel : Nat) (s : State) (rx : Rx) (host : Option MAC) (sendErr : Option Err)
    (p : Bytes) : Outcome (Option (State × List Reply × Option Err)) := do
  let fv ← frameVOf rx host sendErr p
  pure (Handler_ProcessPacket cfg now fuel s [] fv)

/-! ### lemmas -/

theorem clientClass_shape (p : Bytes) (h : 240 ≤ p.length) :
    ∃ c, clientClass p = .ok c ∧ ((∃ e, c = .rejected e) ∨ ∃ a b t, c = .client a b t) := by
  unfold clientClass
  obtain ⟨o, ho⟩ := Props.C03Dhcp.parse_total p
  rw [ho, Lemmas.ComposeDhcp.sl p 28 34 (by omega) (by omega)]
  simp only [Outcome.bind_ok]
  repeat (first | exact ⟨_, rfl, .inl ⟨_, rfl⟩⟩ | exact ⟨_, rfl, .inr ⟨_, _, _, rfl⟩⟩ | split)

/-- the replies written: the handler's reply if the in-place encoder found room -/
theorem replies_eq (cap : Nat) (r : Option Reply) :
    (if replyPresent cap r = true then ([] : List Reply) ++ r.toList else []) = r.toList.filter (fits cap) := by
  cases r with
  | none => simp [replyPresent]
  | some x =>
    by_cases hf : fits cap x = true
    · simp [replyPresent, hf]
    · simp [replyPresent, hf]

/-- the regenerated option parser returns, and every lookup in its map is the model's -/
theorem genParse_ok (p : Bytes) (o : Opts) (ho : parseOptions p = .ok o) :
    ∃ g, Gen.LoopsOpts.genDHCP4_ParseOptions p = .ok g ∧ ∀ c, LoopGoOpts.mapGet g c = optGet o c := by
  cases hg : Gen.LoopsOpts.genDHCP4_ParseOptions p with
  | ok g =>
    refine ⟨g, rfl, fun c => ?_⟩
    have := C08OptTie.parseOptions_tie p c
    rw [hg, ho] at this
    simpa [Lemmas.LoopGoOpts.omap] using this
  | err e => have := C08OptTie.parseOptions_tie p 0; rw [hg, ho] at this; cases this
  | panic => have := C08OptTie.parseOptions_tie p 0; rw [hg, ho] at this; cases this
  | hang => have := C08OptTie.parseOptions_tie p 0; rw [hg, ho] at this; cases this

/-- the dispatch on a frame whose payload failed `IsValid` -/
theorem pp_invalid (cfg : Dhcp4Srv.Cfg) (now fuel : Nat) (s : State) (fv : FrameV) (e : Err)
    (hp : fv.pid = 10) (hv : fv.valid = some e) :
    Handler_ProcessPacket cfg now fuel s [] fv = some (s, [], some e) := by
  unfold Handler_ProcessPacket
  simp [hp, hv]

/-- the dispatch on the client port -/
theorem pp_client (cfg : Dhcp4Srv.Cfg) (now fuel : Nat) (s : State) (fv : FrameV)
    (hp : fv.pid = 10) (hv : fv.valid = none) (h68 : fv.dstPort = 68) :
    Handler_ProcessPacket cfg now fuel s [] fv = some (s, [], fv.clientRet) := by
  unfold Handler_ProcessPacket
  simp [hp, hv, h68]

/-- the dispatch without a one-byte message type -/
theorem pp_notype (cfg : Dhcp4Srv.Cfg) (now fuel : Nat) (s : State) (fv : FrameV)
    (hp : fv.pid = 10) (hv : fv.valid = none) (h68 : fv.dstPort ≠ 68) (ht : (optBytes fv.mtOpt).length ≠ 1) :
    Handler_ProcessPacket cfg now fuel s [] fv = some (s, [], some .parseFrame) := by
  unfold Handler_ProcessPacket
  simp [hp, hv, h68, ht]

theorem send_eq (cap : Nat) (r : Option Reply) (s : State) :
    (if replyPresent cap r = true then some (s, ([] : List Reply) ++ r.toList, (none : Option Err)) else some (s, [], none))
      = some (s, r.toList.filter (fits cap), none) := by
  cases r with
  | none => simp [replyPresent]
  | some x =>
    by_cases hf : fits cap x = true
    · simp [replyPresent, hf]
    · simp [replyPresent, hf]

/-- what the handlers' results become: the state, the replies that found room, nil -/
def sent (cap : Nat) (r : State × Option Reply) : Option (State × List Reply × Option Err) :=
  some (r.1, r.2.toList.filter (fits cap), none)

/-- the dispatch on a one-byte message type, the connection accepting the write -/
theorem pp_typed (cfg : Dhcp4Srv.Cfg) (now fuel : Nat) (s : State) (fv : FrameV) (t : UInt8)
    (hp : fv.pid = 10) (hv : fv.valid = none) (h68 : fv.dstPort ≠ 68) (ht : fv.mtOpt = some [t])
    (hs : fv.sendErr = none) :
    Handler_ProcessPacket cfg now fuel s [] fv =
      if t.toNat < 1 ∨ t.toNat > 8 then some (s, [], some .parseFrame)
      else if t.toNat = 1 then (Handler_handleDiscover cfg now fuel s fv.m).bind (sent fv.cap)
      else if t.toNat = 3 then sent fv.cap (Handler_handleRequest cfg now s fv.host fv.m fv.srcIP)
      else if t.toNat = 4 then sent fv.cap (Handler_handleDecline cfg s fv.m)
      else if t.toNat = 7 then sent fv.cap (Handler_handleRelease cfg s fv.m)
      else some (s, [], none) := by
  unfold Handler_ProcessPacket
  simp only [hp, hv, ht, hs, optBytes, Option.getD_some, List.length_singleton, byteAt, List.getElem?_cons_zero,
    Option.isSome_none, Bool.false_eq_true, if_false, bne_self_eq_false, send_eq, sent]
  simp only [show (fv.dstPort == 68) = false from by simpa using h68, Bool.false_eq_true, if_false]
  by_cases h18 : t.toNat < 1 ∨ t.toNat > 8
  · have : (decide (t.toNat < 1) || decide (t.toNat > 8)) = true := by simpa using h18
    simp only [this, if_true, h18]
  · have : (decide (t.toNat < 1) || decide (t.toNat > 8)) = false := by simpa using h18
    simp only [this, Bool.false_eq_true, if_false, h18]
    by_cases h1 : t.toNat = 1
    · simp only [h1, beq_self_eq_true, if_true]
      cases Handler_handleDiscover cfg now fuel s fv.m <;> rfl
    · simp only [h1, if_false, show (t.toNat == 1) = false from by simpa using h1, Bool.false_eq_true]
      by_cases h3 : t.toNat = 3
      · simp only [h3, beq_self_eq_true, if_true]
      · simp only [h3, if_false, show (t.toNat == 3) = false from by simpa using h3, Bool.false_eq_true]
        by_cases h4 : t.toNat = 4
        · simp only [h4, beq_self_eq_true, if_true]
        · simp only [h4, if_false, show (t.toNat == 4) = false from by simpa using h4, Bool.false_eq_true]
          by_cases h7 : t.toNat = 7
          · simp only [h7, beq_self_eq_true, if_true]
          · simp only [h7, if_false, show (t.toNat == 7) = false from by simpa using h7, Bool.false_eq_true]
            simp

/-- **`ProcessPacket` regenerated = `processRaw`.**  For every configuration (subnets below 2^32, fuel ≥ the broadcast
    addresses: `allocIPOffer_tie`), every server state with distinct keys, every instant, frame facts, host pointer and
    byte string, with a connection that accepts the write: the regenerated `IsValid`, the regenerated `ParseOptions`,
    the regenerated dispatch and the regenerated handlers return the error of `processRaw`, write exactly its replies
    (those the in-place encoder had room for) and leave its lease table (up to `touch` of one client's entry). -/
theorem processPacket_tie (cfg : Dhcp4Srv.Cfg) (now fuel : Nat) (s : State) (hu : KeysUnique s.table)
    (hb : ∀ sub, (cfg.sub sub).bcast < 4294967296) (hf : ∀ sub, (cfg.sub sub).bcast ≤ fuel)
    (rx : Rx) (host : Option MAC) (p : Bytes) :
    ∃ r, processRaw cfg s now rx p = .ok r ∧
      ∃ s' c, genProcessRaw cfg now fuel s rx host none p = .ok (some (s', r.replies, r.ret)) ∧
        touch s' c = touch r.state c := by
  unfold processRaw classify genProcessRaw frameVOf
  rw [C01ValidTie.dhcp4_tie]
  rw [show vDHCP4.valid p = dhcpValid p from rfl]
  have hsafe := Lemmas.dhcpValid_safe p
  cases hv : dhcpValid p with
  | err e =>
    refine ⟨_, rfl, s, [], ?_, rfl⟩
    simp only [validRet, Outcome.bind_ok, Outcome.pure_eq]
    rw [pp_invalid cfg now fuel s _ e rfl rfl]
  | panic => rw [hv] at hsafe; cases hsafe
  | hang => rw [hv] at hsafe; cases hsafe
  | ok u =>
    cases u
    have hl := Lemmas.dhcpValid_len p hv
    simp only [validRet, Outcome.bind_ok]
    by_cases h68 : (rx.dstPort == 68) = true
    · simp only [h68, if_true]
      obtain ⟨c, hc, hshape⟩ := clientClass_shape p hl
      simp only [clientRetOf, hc, Outcome.bind_ok, Outcome.pure_eq]
      have h68n : rx.dstPort = 68 := by simpa using h68
      rcases hshape with ⟨e, rfl⟩ | ⟨a, b, t, rfl⟩
      · refine ⟨_, rfl, s, [], ?_, rfl⟩
        simp only [Outcome.bind_ok]
        rw [pp_client cfg now fuel s _ rfl rfl h68n]
      · refine ⟨_, rfl, s, [], ?_, rfl⟩
        simp only [Outcome.bind_ok]
        rw [pp_client cfg now fuel s _ rfl rfl h68n]
    · simp only [h68, Bool.false_eq_true, if_false]
      have h68' : rx.dstPort ≠ 68 := by simpa using h68
      obtain ⟨o, ho⟩ := Props.C03Dhcp.parse_total p
      obtain ⟨g, hg, hget⟩ := genParse_ok p o ho
      have hm0 := Lemmas.Dhcp4Wire.msgOf_ref rx p [] hl
      have hm := Lemmas.Dhcp4Wire.msgOf_ref rx p o hl
      simp only [ho, hg, hm0, hget, Outcome.bind_ok, Outcome.pure_eq]
      have hmeq : ({ Lemmas.Dhcp4Wire.msgRef rx p [] with cidOpt := optGet o 61, reqOpt := optGet o 50, srvOpt := optGet o 54 } : Msg)
          = Lemmas.Dhcp4Wire.msgRef rx p o := rfl
      rw [hmeq]
      generalize hM : Lemmas.Dhcp4Wire.msgRef rx p o = m at hm
      have e18 : ∀ t : UInt8, (t < 1 ∨ t > 8) ↔ (t.toNat < 1 ∨ t.toNat > 8) := by
        intro t; simp [UInt8.lt_iff_toNat_lt]
      have ne_nat : ∀ (t k : UInt8) (n : Nat), k.toNat = n → ¬ t = k → ¬ t.toNat = n :=
        fun t k n hk h h' => h (UInt8.toNat_inj.mp (h'.trans hk.symm))
      rcases h53 : optGet o 53 with _ | b
      · refine ⟨_, rfl, s, [], ?_, rfl⟩
        rw [pp_notype cfg now fuel s _ rfl rfl h68' (by simp [optBytes])]
      · rcases b with _ | ⟨t, _ | ⟨t2, l⟩⟩
        · refine ⟨_, rfl, s, [], ?_, rfl⟩
          rw [pp_notype cfg now fuel s _ rfl rfl h68' (by simp [optBytes])]
        · simp only [hm, Outcome.bind_ok]
          rw [pp_typed cfg now fuel s _ t rfl rfl h68' rfl rfl]
          by_cases h18 : t < 1 ∨ t > 8
          · rw [if_pos h18, if_pos ((e18 t).1 h18)]
            exact ⟨_, rfl, s, [], rfl, rfl⟩
          · rw [if_neg h18, if_neg (mt (e18 t).2 h18)]
            by_cases h1 : t = 1
            · subst h1
              obtain ⟨s', r, hd, ht, hr⟩ := C11SrvTie.handleDiscover_tie cfg now fuel s hu m hb hf
              refine ⟨_, rfl, s', clientId m, ?_, ht⟩
              simp only [show ((1 : UInt8).toNat = 1) from rfl, if_true, hd, Option.bind, sent, hr, handleMsg]
            · rw [if_neg (ne_nat t 1 1 rfl h1)]
              simp only [show (t == 1) = false from by simp [h1], Bool.false_eq_true, if_false]
              by_cases h3 : t = 3
              · subst h3
                obtain ⟨ht, hr⟩ := C11SrvTie.handleRequest_tie cfg now s hu host m
                have hsrc : m.srcIP = rx.srcIP := by rw [← hM]; rfl
                refine ⟨_, rfl, (Handler_handleRequest cfg now s host m (AddrV.v4 rx.srcIP)).1, clientId m, ?_, ?_⟩
                · simp only [show ((3 : UInt8).toNat = 3) from rfl, if_true, sent, handleMsg, ← hr, hsrc]
                · simp only [handleMsg, ← hsrc]; exact ht
              · rw [if_neg (ne_nat t 3 3 rfl h3)]
                simp only [show (t == 3) = false from by simp [h3], Bool.false_eq_true, if_false]
                by_cases h4 : t = 4
                · subst h4
                  obtain ⟨ht, hr⟩ := C11SrvTie.handleDecline_tie cfg s m
                  refine ⟨_, rfl, (Handler_handleDecline cfg s m).1, clientId m, ?_, ?_⟩
                  · simp only [show ((4 : UInt8).toNat = 4) from rfl, if_true, sent, handleMsg, ← hr]
                  · simp only [handleMsg]; exact ht
                · rw [if_neg (ne_nat t 4 4 rfl h4)]
                  simp only [show (t == 4) = false from by simp [h4], Bool.false_eq_true, if_false]
                  by_cases h7 : t = 7
                  · subst h7
                    obtain ⟨ht, hr⟩ := C11SrvTie.handleRelease_tie cfg s m
                    refine ⟨_, rfl, (Handler_handleRelease cfg s m).1, clientId m, ?_, ?_⟩
                    · simp only [show ((7 : UInt8).toNat = 7) from rfl, if_true, sent, handleMsg, ← hr]
                    · simp only [handleMsg]; exact ht
                  · rw [if_neg (ne_nat t 7 7 rfl h7)]
                    simp only [show (t == 7) = false from by simp [h7], Bool.false_eq_true, if_false]
                    exact ⟨_, rfl, s, [], rfl, rfl⟩
        · refine ⟨_, rfl, s, [], ?_, rfl⟩
          rw [pp_notype cfg now fuel s _ rfl rfl h68' (by simp [optBytes])]

/-- the same as a step of the raw histories of Props/ComposeDhcp (`Dhcp4Frame.stepRaw`, the `rx` event): the step has
    exactly one outcome, its replies are the replies the regenerated pipeline writes, its state is the pipeline's up
    to `touch` -/
theorem rx_step_tie (cfg : Dhcp4Srv.Cfg) (now fuel : Nat) (s : State) (hu : KeysUnique s.table)
    (hb : ∀ sub, (cfg.sub sub).bcast < 4294967296) (hf : ∀ sub, (cfg.sub sub).bcast ≤ fuel)
    (rx : Rx) (host : Option MAC) (p : Bytes) :
    ∃ st rep ret s' c, stepRaw cfg s (.rx now rx p) = [(st, rep)] ∧
      genProcessRaw cfg now fuel s rx host none p = .ok (some (s', rep, ret)) ∧ touch s' c = touch st c := by
  obtain ⟨r, hr, s', c, hg, ht⟩ := processPacket_tie cfg now fuel s hu hb hf rx host p
  refine ⟨r.state, r.replies, r.ret, s', c, ?_, hg, ht⟩
  simp only [stepRaw, hr]

/-! ### the regenerated pipeline runs (non-vacuity) -/

private def n1 : Subnet := { lan := 256, bits := 24, gw := 257, dns := 257, server := 258, first := 257, dur := 60 }
private def n2 : Subnet := { lan := 512, bits := 24, gw := 513, dns := 513, server := 258, first := 513, dur := 60 }
private def cfg0 : Dhcp4Srv.Cfg := { mode := .primary, host := 258, router := 257, net1 := n1, net2 := n2 }
/-- a DISCOVER: BOOTREQUEST, xid 9.9.9.9, chaddr 01:02:03:04:05:06, cookie, option 53 = 1, end -/
private def discoverBytes : Bytes :=
  [1, 1, 6, 0, 9, 9, 9, 9] ++ List.replicate 20 0 ++ [1, 2, 3, 4, 5, 6] ++ List.replicate 202 0 ++ [99, 130, 83, 99] ++
    [53, 1, 1, 255]

/- a truncated payload is rejected by the regenerated `IsValid`, nothing else is evaluated -/
example : genProcessRaw cfg0 0 600 (init cfg0) ⟨0, 67, 600⟩ none none [1, 2, 3] =
    .ok (some (init cfg0, [], some .frameLen)) := by decide

/- a DISCOVER with 600 bytes of room is offered .3 (one reply written); with 250 bytes of room the state changes all
   the same but nothing is written -/
set_option maxRecDepth 100000 in
example : (genProcessRaw cfg0 0 600 (init cfg0) ⟨0, 67, 600⟩ none none discoverBytes).bind
      (fun r => .ok (r.map (fun x => (x.2.1.map (·.yiaddr), x.2.2, x.1.table.map (·.2.state))))) =
    .ok (some ([259], none, [LState.discover])) := by decide
set_option maxRecDepth 100000 in
example : (genProcessRaw cfg0 0 600 (init cfg0) ⟨0, 67, 250⟩ none none discoverBytes).bind
      (fun r => .ok (r.map (fun x => (x.2.1.map (·.yiaddr), x.2.2, x.1.table.map (·.2.state))))) =
    .ok (some ([], none, [LState.discover])) := by decide

end PV.Props.C12DispatchTie
