/-
  C06 — Online/offline notifications report every transition exactly once.
  The caller's discipline (Notify right after every Parse, channel drained) is `Model.Tables.packet`
  / `step6` / `run6`; the consumer's knowledge is `Spec.View`; lemmas in `Lemmas/TablesNotif.lean`.
-/
import PacketVerif.Lemmas.TablesQuiet
import PacketVerif.Lemmas.TablesEx
namespace PV.Props.C06
open PV PV.Model.Tables PV.Spec PV.Lemmas.Tables

/-- **nothing is lost** (one step).  If every host without a pending announcement (`dirty = false`)
    is known to the consumer exactly as tracked (same owner, same online flag), the same holds after
    any API call once the consumer has applied the notifications that call sent – so every change of
    a tracked (MAC, IP, online) triple is either announced in the step that makes it or leaves the
    host marked pending.  Holds for EVERY call, also outside the Notify-after-Parse discipline. -/
theorem no_loss_step (c : Cfg) (s : Sess) (V : View) (op : Op) (hi : Inv s) (hj : CurIP4 s) (h : Synced s V) :
    Synced (Model.Tables.step c s op).1 (V.applyAll (Model.Tables.step c s op).2.notifs) :=
  synced_step hi hj h c op

/-- the same for one received frame handled as the caller is told to: Parse, (name learned), Notify -/
theorem no_loss_packet (c : Cfg) (s : Sess) (V : View) (ev : FrameEv) (now : Int) (manuf : String)
    (upd : Option (NameKind × NameEntry)) (hi : Inv s) (hj : CurIP4 s) (h : Synced s V) :
    Synced (packet c s ev now manuf upd).1 (V.applyAll (packet c s ev now manuf upd).2) :=
  synced_packet hi hj h c ev now manuf upd

/-- **nothing is lost** (all histories).  Starting from `NewSession` with a consumer that knows
    nothing, after any history of frames (each followed by Notify), DHCP updates, purges and other
    calls, a consumer that applied every notification knows every tracked address that has no
    pending announcement exactly as the tables have it. -/
theorem no_loss (c : Cfg) (hc : c.hostMAC ≠ c.routerMAC) (now : Int) (mh mr : String) (ops : List Op6) :
    Synced (run6 c (Model.Tables.init c now mh mr) ops).1
      (View.applyAll (fun _ => none) (run6 c (Model.Tables.init c now mh mr) ops).2) :=
  (run6_facts c ops _ _ (Lemmas.Tables.inv_init c now mh mr) ((init_facts c now mh mr).2 hc)
    (synced_init c now mh mr)).2.2

/-- after Notify the frame's host has no announcement pending: whatever was pending for it has
    been sent (so the deferred announcement of a host is delivered by its next frame) -/
theorem notify_clears_pending (s : Sess) (hi : Inv s) (hid : Nat) (flag : Bool) (x : HostRec)
    (hx : hostById (notifyHost s hid flag).1 hid = some x) : x.dirty = false := by
  unfold notifyHost at hx
  cases hb : hostById s hid with
  | none => simp only [hb] at hx; cases hx
  | some h0 =>
    simp only [hb] at hx
    split at hx
    · rename_i hd
      rw [hb] at hx; cases hx
      simpa using hd
    · generalize (if flag = true ∧ h0.ip.is4 = true then _ else _ : List Nat) = offl at hx
      cases hb1 : hostById (makeOfflineAll s offl).1 hid with
      | none => simp only [hb1] at hx; cases hx
      | some x1 =>
        simp only [hb1] at hx
        rw [updHost_eq, hostById_mapH _ (by intro y; split <;> rfl), hb1] at hx
        simp only [Option.map_some, Option.some.injEq] at hx
        obtain ⟨_, _, hid1⟩ := hostById_some hb1
        subst hx
        simp [hid1]

/-- **repeat traffic is silent**: a frame from an address that is tracked online for that MAC with
    nothing pending produces no notification -/
theorem repeat_traffic_silent (c : Cfg) (s : Sess) (ev : FrameEv) (now : Int) (manuf : String) (mac : MAC) (ip : IP)
    (h0 : HostRec) (hi : Inv s) (he : hostEvent c ev = some (mac, ip)) (hf : findHost s ip = some h0)
    (hmac : h0.mac = mac) (hon : h0.online = true) (hcl : h0.dirty = false) :
    (packet c s ev now manuf none).2 = [] :=
  packet_repeat_silent hi c ev now manuf he hf hmac hon hcl

/-- **purge announces exactly the transitions of the reference model**: one offline notification
    per address that aged out (in table order), nothing else -/
theorem notifs_exact_purge (c : Cfg) (s : Sess) (now : Int) (hi : Inv s) :
    (purge c s now).2.map evOf = Spec.transitions c (s.hosts.map (·.1)) (abs s) (.purge now) :=
  purge_events hi c now

/-- **a frame announces exactly the transitions of the reference model** (first sighting, return
    from offline, re-binding, IP change): up to the order of the offline notifications, which all
    come before the online one (`notifs_offline_first`).  `hq`: no offline host has an announcement
    pending – the quiescent state a disciplined history is in between steps (`quiescent_reachable`). -/
theorem notifs_exact_packet (c : Cfg) (s : Sess) (ev : FrameEv) (now : Int) (manuf : String) (mac : MAC) (ip : IP)
    (keys : List IP) (hi : Inv s) (hj : CurIP4 s)
    (hq : Quiet s)
    (he : hostEvent c ev = some (mac, ip)) (hnew : repeatOf (abs s) mac ip = false)
    (hk1 : keys.Nodup) (hk2 : ip ∈ keys) (hk3 : ∀ p ∈ s.hosts, p.1 ∈ keys) :
    ((packet c s ev now manuf none).2.map evOf).Perm (Spec.transitions c keys (abs s) (.frame ev now manuf)) :=
  packet_events_new hi hj hq c ev now manuf he hnew keys hk1 hk2 hk3

/-- the repeat-traffic half of exactness: nothing sent, nothing predicted -/
theorem notifs_exact_repeat (c : Cfg) (s : Sess) (ev : FrameEv) (now : Int) (manuf : String) (mac : MAC) (ip : IP)
    (h0 : HostRec) (keys : List IP) (hi : Inv s) (he : hostEvent c ev = some (mac, ip))
    (hf : findHost s ip = some h0) (hmac : h0.mac = mac) (hon : h0.online = true) (hcl : h0.dirty = false) :
    (packet c s ev now manuf none).2.map evOf = Spec.transitions c keys (abs s) (.frame ev now manuf) :=
  packet_events_repeat hi c ev now manuf he hf hmac hon hcl keys

/-- offline notifications of superseded addresses come before the online notification of the new
    address: what Notify sends for a pending host is (offline …) ++ [the host itself] -/
theorem notifs_offline_first (t : Sess) (hid : Nat) (x : HostRec) (flag : Bool)
    (hb : hostById t hid = some x) (hd : x.dirty = true) :
    (notifyHost t hid flag).2.map evOf =
      (makeOfflineAll t (offlOf t hid x flag)).2.map evOf ++ [{ mac := x.mac, ip := x.ip, online := x.online }] ∧
    ∀ e ∈ (makeOfflineAll t (offlOf t hid x flag)).2.map evOf, e.online = false := by
  refine ⟨notifyHost_events hb hd flag, ?_⟩
  intro e he
  rw [makeOfflineAll_events] at he
  simp only [List.mem_filterMap, Option.map_eq_some_iff] at he
  obtain ⟨_, _, _, _, rfl⟩ := he
  rfl

/-- the steps of a disciplined history: received frames are always handled as Parse + Notify
    (`packet`), names are learned for the frame's own host; bare Parse / Notify / name updates are
    not used on their own -/
def Disciplined : Op6 → Prop
  | .packet .. => True
  | .api (.frame ..) => False
  | .api (.notify ..) => False
  | .api (.updateName ..) => False
  | .api _ => True

/-- **the quiescent state is an invariant of disciplined histories**: between steps a pending
    announcement only ever sits on an online host (a never-announced NewSession host, a learned
    name); this is hypothesis `hq` of `notifs_exact_packet` -/
theorem quiescent_invariant (c : Cfg) (s : Sess) (op : Op6) (hi : Inv s) (hj : CurIP4 s) (hq : Quiet s)
    (hop : Disciplined op) : Quiet (step6 c s op).1 := by
  apply quiet_step6 hi hj hq c op
  cases op with
  | packet => trivial
  | api op => cases op <;> exact hop

/-- … and it holds right after NewSession and hence after every disciplined history, together with
    the other hypotheses of `notifs_exact_packet` -/
theorem quiescent_reachable (c : Cfg) (hc : c.hostMAC ≠ c.routerMAC) (now : Int) (mh mr : String) (ops : List Op6)
    (hops : ∀ op ∈ ops, Disciplined op) :
    Inv (run6 c (Model.Tables.init c now mh mr) ops).1 ∧ CurIP4 (run6 c (Model.Tables.init c now mh mr) ops).1 ∧
    Quiet (run6 c (Model.Tables.init c now mh mr) ops).1 := by
  have hq0 : Quiet (Model.Tables.init c now mh mr) := by
    intro k y hy _
    have h1 : abs (Model.Tables.init c now mh mr) k = some (absE y) := by simp [abs, hy]
    rw [(init_facts c now mh mr).1] at h1
    unfold Spec.init at h1
    split at h1
    · have := congrArg (Option.map AEntry.online) h1; simpa [absE] using this.symm
    · split at h1
      · have := congrArg (Option.map AEntry.online) h1; simpa [absE] using this.symm
      · cases h1
  have key : ∀ (ops : List Op6) (s : Sess), (∀ op ∈ ops, Disciplined op) → Inv s → CurIP4 s → Quiet s →
      Inv (run6 c s ops).1 ∧ CurIP4 (run6 c s ops).1 ∧ Quiet (run6 c s ops).1 := by
    intro ops
    induction ops with
    | nil => intro s _ a b d; exact ⟨a, b, d⟩
    | cons op rest ih =>
      intro s hall a b d
      have hab : Inv (step6 c s op).1 ∧ CurIP4 (step6 c s op).1 := by
        cases op with
        | packet ev now manuf upd => exact packet_facts a b c ev now manuf upd
        | api o => exact ⟨Lemmas.Tables.inv_step a c o, (step_facts a b c o).2⟩
      obtain ⟨a', b'⟩ := hab
      exact ih _ (fun o ho => hall o (List.mem_cons_of_mem _ ho)) a' b'
        (quiescent_invariant c s op a b d (hall op (List.mem_cons_self ..)))
  exact key ops _ hops (Lemmas.Tables.inv_init c now mh mr) ((init_facts c now mh mr).2 hc) hq0

/-- API calls that are not Notify / DHCPv4Update / purge never send anything -/
theorem silent_calls (c : Cfg) (s : Sess) (op : Op)
    (h : match op with
         | .notify .. => False
         | .dhcpUpdate .. => False
         | .purge .. => False
         | _ => True) : (Model.Tables.step c s op).2.notifs = [] := by
  cases op <;> simp only at h <;> simp only [Model.Tables.step]
  · split
    · rfl
    · split <;> rfl
  · split <;> rfl
  · split <;> rfl


/-- **fields equal the tracked state**: every notification sent by any API call reports a tracked
    host exactly as the tables hold it when the call returns: address, owner and online flag of the
    host; manufacturer, the five names and the router flag of its MAC entry -/
theorem notification_fields_eq_state (c : Cfg) (s : Sess) (op : Op) (hi : Inv s) :
    ∀ n ∈ (Model.Tables.step c s op).2.notifs, Reported (Model.Tables.step c s op).1 n :=
  reported_step hi c op

theorem notification_fields_eq_state_packet (c : Cfg) (s : Sess) (ev : FrameEv) (now : Int) (manuf : String)
    (upd : Option (NameKind × NameEntry)) (hi : Inv s) :
    ∀ n ∈ (packet c s ev now manuf upd).2, Reported (packet c s ev now manuf upd).1 n :=
  reported_packet hi c ev now manuf upd

/-- **no duplicates (1)**: a single call never sends two notifications for the same address -/
theorem at_most_once_per_step (c : Cfg) (s : Sess) (op : Op) (hi : Inv s) :
    ((Model.Tables.step c s op).2.notifs.map (·.ip)).Nodup :=
  step_ips_nodup hi c op

theorem at_most_once_per_packet (c : Cfg) (s : Sess) (ev : FrameEv) (now : Int) (manuf : String)
    (upd : Option (NameKind × NameEntry)) (hi : Inv s) : ((packet c s ev now manuf upd).2.map (·.ip)).Nodup :=
  packet_ips_nodup hi c ev now manuf upd

/-- **no duplicates (2)**: Notify only announces hosts that had an announcement pending (a state
    change or a learned name not yet reported); together with `notify_clears_pending` and
    `repeat_traffic_silent` nothing is announced twice -/
theorem notify_only_pending (s : Sess) (hid : Nat) (flag : Bool) (hi : Inv s) :
    ∀ n ∈ (notifyHost s hid flag).2, ∃ x, findHost s n.ip = some x ∧ x.dirty = true ∧ x.mac = n.mac :=
  notifyHost_only_pending hi hid flag

/-- a learned name that differs marks the host pending (so the next Notify of one of its frames
    sends exactly one further notification), an unchanged name does not -/
theorem name_change_marks_pending (s : Sess) (hid : Nat) (k : NameKind) (n : NameEntry) (h : HostRec)
    (hb : hostById s hid = some h) (ip : IP) (hf : findHost s ip = some h) :
    ∃ x, findHost (updateName s hid k n) ip = some x ∧
      x.dirty = (h.dirty || ((h.names.get k).merge n).2) ∧ x.online = h.online ∧ x.mac = h.mac := by
  obtain ⟨_, _, hid'⟩ := hostById_some hb
  unfold updateName
  simp only [hb]
  have key : ∀ t : Sess, (∀ k', findHost t k' = findHost (updHost s hid fun x =>
      { x with names := x.names.set k ((h.names.get k).merge n).1, dirty := x.dirty || ((h.names.get k).merge n).2 }) k') →
      ∃ x, findHost t ip = some x ∧ x.dirty = (h.dirty || ((h.names.get k).merge n).2) ∧ x.online = h.online ∧ x.mac = h.mac := by
    intro t ht
    rw [ht, findHost_updHost, hf]
    simp [hid']
  split
  · exact key _ (fun _ => rfl)
  · exact key _ (fun _ => rfl)

/-! ### non-vacuity -/
open PV.Lemmas.TablesEx in
/-- first frame: online(.50); repeat frame: silent; IP change: offline(.50) before online(.51);
    re-binding: online(.51, m2); purge: the router and .51 age out -/
example : (run6 cfg0 s0 hist6).2.map evOf =
    [⟨m1, ipA, true⟩, ⟨m1, ipA, false⟩, ⟨m1, ipB, true⟩, ⟨m2, ipB, true⟩,
     ⟨cfg0.routerMAC, cfg0.routerIP4, false⟩, ⟨m2, ipB, false⟩] := by decide

end PV.Props.C06
