/-
  C19 over SEVERAL sessions and with the uint16 identifier counter wrapping.

  `icmpTable` is a package-level variable of the library: all sessions of a process share the one table and the
  one identifier counter.  Model/PingMulti.lean puts sessions, `Session.Close` and the timer of every call around
  the process-global machine of Model/Ping.lean; the theorems below hold for EVERY schedule of that machine — any
  number of sessions, calls made on any of them, echo replies parsed by any of them, Close steps anywhere.

  What the code really does, and what is therefore stated:
    * `echoNotify` does not know the session: an echo reply completes the call that holds its identifier whichever
      session parsed it (`echo_effect_session_independent`, `cross_session_reply_completes`);
    * `Session.Close` does not touch the table or any waiter (`close_changes_nothing`); a call pending across a Close —
      of another session or of its own — still returns nil iff its own reply is parsed before it unregisters, and
      ErrTimeout otherwise and only after its deadline (`ping_nil_iff_multi`, `timeout_only_after_deadline`);
    * identifiers are allocated by `id := icmpTable.id; icmpTable.id++` on a uint16: after 65535 comes 0, identifier 0
      is an identifier like any other.  The iff-theorem needs no bound on the counter, only `NoCollide`: a registering
      call is not given an identifier that is still held by a pending call (`ping_nil_iff_anyid`; `NoWrap` implies it:
      `noWrap_implies_noCollide`).  When it IS still held (65536 registrations while one call is pending) the code
      overwrites the older waiter's entry: `collision_overwrites`.
-/
import PacketVerif.Lemmas.PingMulti
namespace PV.Props.C19Multi
open PV PV.Model.Ping PV.Model.PingMulti PV.Lemmas.Ping PV.Lemmas.PingMulti

/-- **Result of a finished call, for every identifier value** (0 and 65535 included, the counter wrapping as often
    as it likes): on every trace without an identifier collision a finished call returned `nil` iff its request was
    sent and an echo reply carrying its own identifier was parsed between its registration and its unregistration;
    `ErrTimeout` iff sent and no such reply; the send error iff the send failed. -/
theorem ping_nil_iff_anyid (id0 : Nat) (tr : List Event) (s : State)
    (hr : run (init id0) tr = some s) (hn : NoCollide (init id0) tr) (p : Nat) (hd : (s.th p).pc = .done) :
    ((s.th p).ret = .nil ↔ ((s.th p).sent = true ∧ (s.th p).seen = true)) ∧
    ((s.th p).ret = .timeout ↔ ((s.th p).sent = true ∧ (s.th p).seen = false)) ∧
    ((s.th p).ret = .sendErr ↔ (s.th p).sent = false) :=
  (invC_run (invC_init id0) hn hr).doneRet p hd

/-- the hypothesis of Props/C19 (`NoWrap`: fewer registrations than the counter has room for) is a special case -/
theorem noWrap_implies_noCollide (id0 : Nat) (tr : List Event) (h : NoWrap (init id0) tr) : NoCollide (init id0) tr :=
  noCollide_of_noWrap (inv_init id0) h

/-- **Several sessions, Close steps anywhere.**  On every schedule of the multi-session machine (calls on any
    session, replies parsed by any session, any number of `Session.Close` steps of any session interleaved, the
    timers firing whenever they do) without identifier collision, a finished call returned `nil` iff its request
    was sent and an echo reply carrying its own identifier was parsed — by whichever session — between its
    registration and its unregistration, `ErrTimeout` iff sent and no such reply, the send error iff the send failed. -/
theorem ping_nil_iff_multi (id0 : Nat) (tr : List MEvent) (s : MState)
    (hr : mrun (minit id0) tr = some s) (hn : NoCollide (init id0) (erase tr)) (p : Nat)
    (hd : (s.base.th p).pc = .done) :
    ((s.base.th p).ret = .nil ↔ ((s.base.th p).sent = true ∧ (s.base.th p).seen = true)) ∧
    ((s.base.th p).ret = .timeout ↔ ((s.base.th p).sent = true ∧ (s.base.th p).seen = false)) ∧
    ((s.base.th p).ret = .sendErr ↔ (s.base.th p).sent = false) :=
  ping_nil_iff_anyid id0 (erase tr) s.base (mrun_base hr) hn p hd

/-- **`Session.Close` never completes and never cancels a waiter**: a Close step of any session, in any state,
    leaves the table, the identifier counter and the whole record of every call (program counter, received flag,
    channel, result) exactly as they were. -/
theorem close_changes_nothing (s s' : MState) (k : Nat) (h : mstep s (.close k) = some s') :
    s'.base = s.base ∧ s'.due = s.due :=
  mstep_close h

/-- a Close is always possible and is the only step that marks a session closed -/
theorem close_enabled (s : MState) (k : Nat) : ∃ s', mstep s (.close k) = some s' ∧ s'.closed k = true := by
  exact ⟨_, rfl, by simp⟩

/-- **ErrTimeout only after the deadline**: on every schedule, a call that returned ErrTimeout did so after the
    wall clock passed its deadline event — no Close, no foreign reply, nothing else makes a call give up early. -/
theorem timeout_only_after_deadline (id0 : Nat) (tr : List MEvent) (s : MState)
    (hr : mrun (minit id0) tr = some s) (p : Nat) (hd : (s.base.th p).pc = .done) (ht : (s.base.th p).ret = .timeout) :
    s.due p = true :=
  (invD_run (invD_init id0) hr).done p hd ht

/-- **the session that parses the reply does not matter**: `echoNotify` is a package-level function on the
    package-level table — a step `on k e` acts on table and calls as `e` does, for every session `k` -/
theorem echo_effect_session_independent (s : MState) (k k' : Nat) (i : Nat) :
    (mstep s (.on k (.echo i))).map (·.base) = (mstep s (.on k' (.echo i))).map (·.base) := by
  simp only [mstep, timerOk]
  cases step s.base (.echo i) <;> rfl

/-- **Foreign replies never complete a call** — in every reachable state of the multi-session machine, whatever
    the identifier values (no hypothesis on the counter), an echo reply parsed by any session whose identifier
    differs from the identifier of call `p` leaves `p`'s record unchanged. -/
theorem foreign_never_completes_multi (id0 : Nat) (tr : List MEvent) (s s' : MState)
    (hr : mrun (minit id0) tr = some s) (k i p : Nat) (hne : (s.base.th p).id ≠ i)
    (hs : mstep s (.on k (.echo i)) = some s') : s'.base.th p = s.base.th p := by
  have hI := invW_run (invW_init id0) (mrun_base hr)
  have hb := (mstep_on hs).1
  have hm : markSeen s.base.th i p = s.base.th p := by
    unfold markSeen; split
    · rename_i h; exact absurd h.2 hne
    · rfl
  simp only [step] at hb
  split at hb
  · injection hb with hb; rw [← hb]; exact hm
  · split at hb
    · injection hb with hb; rw [← hb]; exact hm
    · rename_i q hg; injection hb with hb
      have hq := hI.entry i q (tget_some hg)
      have : p ≠ q := by intro h; subst h; exact hne hq.2.1
      rw [← hb]
      simp only [upd_other _ _ _ _ this]; exact hm

/-- concurrent calls — on whatever sessions — hold distinct identifiers (no identifier collision) -/
theorem ids_distinct_multi (id0 : Nat) (tr : List MEvent) (s : MState)
    (hr : mrun (minit id0) tr = some s) (hn : NoCollide (init id0) (erase tr)) (p q : Nat)
    (hp : (s.base.th p).active = true) (hq : (s.base.th q).active = true) (hpq : p ≠ q) :
    (s.base.th p).id ≠ (s.base.th q).id :=
  fun he => hpq ((invC_run (invC_init id0) hn (mrun_base hr)).distinct p q hp hq he)

/-- no waiter is left behind and no channel is closed twice, on every multi-session schedule (wrap or not) -/
theorem no_waiter_left_multi (id0 : Nat) (tr : List MEvent) (s : MState) (hr : mrun (minit id0) tr = some s) :
    (∀ i q, (i, q) ∈ s.base.table → (s.base.th q).active = true) ∧ (∀ p, (s.base.th p).closes ≤ 1) := by
  have hI := invW_run (invW_init id0) (mrun_base hr)
  exact ⟨fun i q h => (hI.entry i q h).1, hI.closes_le⟩

/-! ### non-vacuity and the boundary cases -/

def res (s : Option MState) (p : Nat) : Option (Ret × Nat) := s.map (fun s => ((s.base.th p).ret, (s.base.th p).id))

/-- **a reply parsed by session 1 completes the call made on session 0** -/
theorem cross_session_reply_completes :
    res (mrun (minit 5) [.on 0 (.reg 0), .on 0 (.sendOk 0), .on 1 (.echo 5), .on 0 (.wake 0), .on 0 (.unreg 0)]) 0
      = some (.nil, 5) := by decide

/-- a call pending while ANOTHER session is closed, and while its OWN session is closed: its reply still completes it -/
example : res (mrun (minit 5) [.on 0 (.reg 0), .on 0 (.sendOk 0), .close 1, .on 0 (.echo 5), .on 0 (.wake 0), .on 0 (.unreg 0)]) 0
    = some (.nil, 5) := by decide
example : res (mrun (minit 5) [.on 1 (.reg 0), .on 1 (.sendOk 0), .close 1, .on 0 (.echo 5), .on 1 (.wake 0), .on 1 (.unreg 0)]) 0
    = some (.nil, 5) := by decide
/-- after a Close the call can neither wake (no reply yet) nor take the timer branch (deadline not reached) -/
example : mrun (minit 5) [.on 0 (.reg 0), .on 0 (.sendOk 0), .close 1, .on 0 (.wake 0)] = none := by decide
example : (mrun (minit 5) [.on 0 (.reg 0), .on 0 (.sendOk 0), .close 1, .on 0 (.timeout 0)]).isNone = true := by decide
example : res (mrun (minit 5) [.on 0 (.reg 0), .on 0 (.sendOk 0), .close 1, .deadline 0, .on 0 (.timeout 0), .on 0 (.unreg 0)]) 0
    = some (.timeout, 5) := by decide

/-- **the counter wraps 65535 → 0 and identifier 0 is completed by its own reply** (and only by it) -/
example : res (mrun (minit 65535) [.on 0 (.reg 0), .on 0 (.reg 1), .on 0 (.sendOk 0), .on 0 (.sendOk 1),
      .on 0 (.echo 0), .on 0 (.wake 1), .on 0 (.unreg 1)]) 1 = some (.nil, 0) := by decide
example : res (mrun (minit 65535) [.on 0 (.reg 0), .on 0 (.reg 1), .on 0 (.sendOk 0), .on 0 (.sendOk 1),
      .on 0 (.echo 0), .on 0 (.echo 65535), .on 0 (.wake 0), .on 0 (.unreg 0)]) 0 = some (.nil, 65535) := by decide
/-- … on a trace that satisfies `NoCollide` although the counter wraps -/
example : NoCollide (init 65535) [.reg 0, .reg 1] := by
  refine ⟨fun p _ q hq => by simp [init, Thread.active] at hq, ?_⟩
  simp only [step, init, if_true]
  refine ⟨fun p _ q hq => ?_, by simp [step, upd, NoCollide]⟩
  by_cases h : q = 0
  · subst h; simp [upd, idMod]
  · simp [upd, h, Thread.active] at hq

/-- **collision**: the counter set so that call 1 is given the identifier call 0 still holds (in the code: 65536
    registrations while call 0 is pending).  `table[id] = &msg` overwrites call 0's entry: the reply completes call 1,
    call 0 gives up with ErrTimeout although a reply with its identifier was parsed while it was registered — the
    reason for the `NoCollide` hypothesis. -/
theorem collision_overwrites :
    ((mrun (minit 7) [.on 0 (.reg 0), .on 0 (.sendOk 0)]).bind (fun s =>
      mrun { s with base := { s.base with nextId := 7 } }
        [.on 0 (.reg 1), .on 0 (.sendOk 1), .on 0 (.echo 7), .on 0 (.wake 1), .on 0 (.unreg 1),
         .deadline 0, .on 0 (.timeout 0), .on 0 (.unreg 0)])).map
      (fun s => ((s.base.th 0).ret, (s.base.th 0).seen, (s.base.th 1).ret, s.base.table)) =
    some (.timeout, true, .nil, []) := by decide

end PV.Props.C19Multi
