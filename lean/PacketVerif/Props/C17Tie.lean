/-
  C17 / C08 tie (F11) — the BODIES of the library's own DNS decoder (layer_dns.go), translated from the Go AST into Lean
  source on every run (tools/goextract/loops_dns.go → Gen/LoopsDns.lean: the label loop and the pointer recursion of
  `decodeName` as fuel recursion, `*buffer` as an in/out value, `error` results as `Outcome.err`), are equal to the
  hand-written functions of Model/DnsName.lean / Model/DnsRR.lean that the theorems of Props/C17.lean and
  Props/C08Dns.lean are about: same value, same error class, same panic, and never `.hang` — the fuel the translator
  hands in (`dnsLoopFuels`) is validated here, not trusted.
-/
import PacketVerif.Lemmas.DnsLoops
namespace PV.Props.C17Tie
open PV PV.Model PV.Model.LoopGo PV.Model.LoopGoDns PV.Gen.LoopsDns PV.Lemmas.DnsLoops

/-- **decodeName tie, buffer included.**  For every message, every Go `int` offset, every caller buffer and every
    recursion level the function regenerated from the body of `decodeName` returns what the model's `decodeSeg`
    returns (with the model's fixed fuel): the segment is appended to the caller's buffer, the returned name is the
    segment without its leading dot, the end index is the model's. -/
theorem decodeName_seg_tie (data : Bytes) (offset : Int) (buffer : Bytes) (level : Nat) :
    genDecodeName data offset buffer (level : Int) =
      if level > maxRecursionLevel then .err .parseFrame
      else if offset ≥ data.length then .err .parseFrame
      else if offset < 0 then .err .parseFrame
      else liftSeg buffer (decodeSeg nameFuel data offset.toNat level) := by
  unfold genDecodeName
  by_cases hl : level > maxRecursionLevel
  · have : (level : Int) > 255 := by unfold maxRecursionLevel at hl; omega
    have e : ((255 : Int) - (level : Int)).toNat + 2 = 1 + 1 := by omega
    rw [e, genDecodeName_rec]
    simp [hl, this]
  have hl' : level ≤ 255 := by unfold maxRecursionLevel at hl; omega
  by_cases hneg : offset < 0
  · have hI : ¬ ((level : Int) > 255) := by omega
    have e : ((255 : Int) - (level : Int)).toNat + 2 = (((255 : Int) - (level : Int)).toNat + 1) + 1 := by omega
    rw [e, genDecodeName_rec]
    simp only [hl, hI, hneg, if_false, if_true]
  · obtain ⟨o, rfl⟩ : ∃ o : Nat, offset = (o : Int) := ⟨offset.toNat, by omega⟩
    rw [rec_tie, decodeSeg_fuel _ nameFuel data o level (by omega) (by omega) (by unfold nameFuel; omega) (by unfold nameFuel; omega)]
    simp only [hl, hneg, if_false, Int.toNat_natCast]
    split
    · next h =>
      have : o ≥ data.length := by omega
      unfold nameFuel
      rw [decodeSeg]
      simp [hl, this, liftSeg]
    · rfl

/-- **decodeName tie.**  Seen as the callers see it (name, end index), the regenerated `decodeName` is `Model.decodeName`
    — the function `decodeName_sound`, `decodeName_eq_spec`, `decodeName_safe` are about. -/
theorem decodeName_tie (data : Bytes) (offset : Int) (buffer : Bytes) (level : Nat) :
    omap (fun r => (r.2.1, r.2.2.toNat)) (genDecodeName data offset buffer (level : Int)) = Model.decodeName data offset level := by
  rw [decodeName_seg_tie]
  unfold Model.decodeName
  split
  · rfl
  split
  · rfl
  split
  · rfl
  cases decodeSeg nameFuel data offset.toNat level with
  | ok v => obtain ⟨seg, e⟩ := v; simp [liftSeg, omap]
  | err e => rfl
  | panic => rfl
  | hang => rfl

/-- the end index the regenerated `decodeName` returns is an index (not negative) -/
theorem decodeName_end_nonneg (data : Bytes) (offset : Int) (buffer : Bytes) (level : Nat) (b n : Bytes) (e : Int)
    (h : genDecodeName data offset buffer (level : Int) = .ok (b, n, e)) : 0 ≤ e := by
  rw [decodeName_seg_tie] at h
  split at h
  · cases h
  split at h
  · cases h
  split at h
  · cases h
  cases hd : decodeSeg nameFuel data offset.toNat level with
  | ok v =>
    obtain ⟨seg, e'⟩ := v
    rw [hd] at h
    simp only [liftSeg, Outcome.ok.injEq, Prod.mk.injEq] at h
    omega
  | err e => rw [hd] at h; cases h
  | panic => rw [hd] at h; cases h
  | hang => rw [hd] at h; cases h

/-- non-vacuity: `3www0` followed by a pointer to it; the pointer name decodes to "www" and 3 bytes are appended after
    the caller's buffer contents -/
example : genDecodeName [3, 119, 119, 119, 0, 0xc0, 0] 5 [7] 1 = .ok ([7, 46, 119, 119, 119], [119, 119, 119], 7) := by decide

/-- non-vacuity: a pointer that does not point backwards is refused, a truncated label is refused, an offset outside
    the message is refused — in the regenerated code as in the model -/
example : genDecodeName [0xc0, 0] 0 [] 1 = .err .parseFrame := by decide
example : genDecodeName [3, 119] 0 [] 1 = .err .parseFrame := by decide
example : genDecodeName [0] (-1) [] 1 = .err .parseFrame := by decide

/-- the model's view of a decoded question -/
def qView (r : GQuestion × Int) : Question × Nat :=
  ({ name := r.1.Name, qtype := r.1.Type'.toNat, qclass := r.1.Class.toNat }, r.2.toNat)

/-- `binary.BigEndian.Uint16(p[n:n+2])` inside the message, as generated and as modelled -/
theorem rdU_ok (p : Bytes) (i j : Int) (n : Nat) (hi : i = n) (hj : j = n + 2) (h : n + 2 ≤ p.length) :
    (sliceI p i j >>= beU16) = .ok ((p[n]'(by omega)).toUInt16 <<< 8 ||| (p[n + 1]'(by omega)).toUInt16)
    ∧ rd16 p n = .ok (be16 (p[n]'(by omega)) (p[n + 1]'(by omega))) := by
  rw [sliceI_nat p _ _ n (n + 2) hi (by omega)]
  unfold rd16
  rw [PV.Lemmas.Dns.slice2 h]
  exact ⟨rfl, rfl⟩

theorem u16_ne_one (a b : UInt8) : ((a.toUInt16 <<< 8 ||| b.toUInt16) ≠ 1) ↔ be16 a b ≠ 1 := by
  have e : be16 a b = (a.toUInt16 <<< 8 ||| b.toUInt16).toNat := by rw [be16_toNat]; rfl
  rw [e]
  constructor
  · intro h h2; apply h; exact UInt16.toNat_inj.mp (by simpa using h2)
  · intro h h2; apply h; rw [h2]; rfl

/-- **DecodeQuestion tie.**  The regenerated `DecodeQuestion` (header check, QDCOUNT = 1, the `index+5` guard, the
    regenerated `decodeName`, the `endq+4` guard, type and class) is `Model.decodeQuestion` for every payload, every
    index and every caller buffer. -/
theorem decodeQuestion_tie (p : Bytes) (index : Int) (buffer : Bytes) :
    omap qView (genDecodeQuestion p index buffer) = Model.decodeQuestion p index := by
  unfold genDecodeQuestion genDNS_IsValid genDNS_QDCount Model.decodeQuestion
  by_cases h12 : p.length < 12
  · have : ¬ ((p.length : Int) ≥ 12) := by omega
    simp [h12, this, omap]
  have h12I : (p.length : Int) ≥ 12 := by omega
  simp only [h12, h12I, if_true, if_false, Outcome.bind_ok, Outcome.pure_eq]
  obtain ⟨hq1, hq2⟩ := rdU_ok p 4 6 4 rfl rfl (by omega)
  have hq1' : (do let t1 ← sliceI p 4 6; beU16 t1) = (sliceI p 4 6 >>= beU16) := rfl
  rw [hq1', hq1, hq2]
  generalize p[4]'(by omega) = a
  generalize p[4 + 1]'(by omega) = b
  simp only [Outcome.bind_ok]
  by_cases hqd : be16 a b ≠ 1
  · simp [(u16_ne_one a b).mpr hqd, hqd, omap]
  have hqd' : ¬ ((a.toUInt16 <<< 8 ||| b.toUInt16) ≠ 1) := fun h => hqd ((u16_ne_one a b).mp h)
  simp only [hqd, hqd', if_false]
  split
  · rfl
  have hdn := decodeName_tie p index buffer 1
  revert hdn
  cases hg : genDecodeName p index buffer ((1 : Nat) : Int) with
  | err e => intro hdn; simp only [omap] at hdn; rw [← hdn]; simp [omap]
  | panic => intro hdn; simp only [omap] at hdn; rw [← hdn]; simp [omap]
  | hang => intro hdn; simp only [omap] at hdn; rw [← hdn]; simp [omap]
  | ok v =>
    obtain ⟨buf', name, endq⟩ := v
    intro hdn
    simp only [omap] at hdn
    rw [← hdn]
    have hnn := decodeName_end_nonneg p index buffer 1 buf' name endq hg
    obtain ⟨e, rfl⟩ : ∃ e : Nat, endq = (e : Int) := ⟨endq.toNat, by omega⟩
    simp only [Outcome.bind_ok, Int.toNat_natCast]
    by_cases hend : e + 4 > p.length
    · have : (e : Int) + 4 > (p.length : Int) := by omega
      simp [hend, this, omap]
    have hendI : ¬ ((e : Int) + 4 > (p.length : Int)) := by omega
    simp only [hend, hendI, if_false]
    obtain ⟨ht1, ht2⟩ := rdU_ok p (e : Int) ((e : Int) + 2) e rfl rfl (by omega)
    obtain ⟨hc1, hc2⟩ := rdU_ok p ((e : Int) + 2) ((e : Int) + 4) (e + 2) (by omega) (by omega) (by omega)
    rw [ht2, hc2]
    have g1 : ∀ (k : UInt16 → Outcome (GQuestion × Int)),
        (do let t2 ← sliceI p (e : Int) ((e : Int) + 2); let t3 ← beU16 t2; k t3) = (sliceI p (e : Int) ((e : Int) + 2) >>= beU16) >>= k := by
      intro k; cases sliceI p (e : Int) ((e : Int) + 2) <;> rfl
    have g2 : ∀ (k : UInt16 → Outcome (GQuestion × Int)),
        (do let t4 ← sliceI p ((e : Int) + 2) ((e : Int) + 4); let t5 ← beU16 t4; k t5) = (sliceI p ((e : Int) + 2) ((e : Int) + 4) >>= beU16) >>= k := by
      intro k; cases sliceI p ((e : Int) + 2) ((e : Int) + 4) <;> rfl
    rw [g1, ht1]
    simp only [Outcome.bind_ok]
    rw [g2, hc1]
    simp only [omap, qView, be16_toNat, be16, Outcome.bind_ok]
    congr 2

/-- non-vacuity: a one-question message for "a" type 1 class 1 decodes; QDCOUNT 2 is refused; a short header is refused -/
example : omap qView (genDecodeQuestion [0, 0, 0, 0, 0, 1, 0, 0, 0, 0, 0, 0, 1, 97, 0, 0, 1, 0, 1] 12 []) =
    .ok ({ name := [97], qtype := 1, qclass := 1 }, 19) := by decide
example : genDecodeQuestion [0, 0, 0, 0, 0, 2, 0, 0, 0, 0, 0, 0, 1, 97, 0, 0, 1, 0, 1] 12 [] = .err .parseFrame := by decide
example : genDecodeQuestion [0, 0, 0] 12 [] = .err .frameLen := by decide

/-- **DNS.IsValid** as regenerated by this translator (F10's `genValidDNS` is the same statement): 12 header bytes -/
theorem isValid_tie (p : Bytes) : genDNS_IsValid p = if p.length < 12 then .err .frameLen else .ok () := by
  unfold genDNS_IsValid
  by_cases h : p.length < 12
  · have : ¬ ((p.length : Int) ≥ 12) := by omega
    simp [h, this]
  · have : (p.length : Int) ≥ 12 := by omega
    simp [h, this]

/-- **QDCount / ANCount**: the regenerated getters are the model's `rd16 p 4` / `rd16 p 6` (panic on a short header included) -/
theorem qdcount_tie (p : Bytes) : omap UInt16.toNat (genDNS_QDCount p) = rd16 p 4 := by
  unfold genDNS_QDCount
  by_cases h : 4 + 2 ≤ p.length
  · obtain ⟨h1, h2⟩ := rdU_ok p 4 6 4 rfl rfl h
    have e : (do let t1 ← sliceI p 4 6; let t2 ← beU16 t1; pure t2) = (sliceI p 4 6 >>= beU16) := by
      cases sliceI p 4 6 <;> try rfl
    rw [e, h1, h2]
    simp only [omap, be16_toNat, be16]
  · have e1 : sliceI p 4 6 = .panic := by
      have : ¬ (((6 : Int)) ≤ (p.length : Int)) := by omega
      simp [sliceI, this]
    have e2 : rd16 p 4 = .panic := by
      have : ¬ (6 ≤ p.length) := by omega
      simp [rd16, slice, this]
    rw [e1, e2]; rfl

theorem ancount_tie (p : Bytes) : omap UInt16.toNat (genDNS_ANCount p) = rd16 p 6 := by
  unfold genDNS_ANCount
  by_cases h : 6 + 2 ≤ p.length
  · obtain ⟨h1, h2⟩ := rdU_ok p 6 8 6 rfl rfl h
    have e : (do let t1 ← sliceI p 6 8; let t2 ← beU16 t1; pure t2) = (sliceI p 6 8 >>= beU16) := by
      cases sliceI p 6 8 <;> try rfl
    rw [e, h1, h2]
    simp only [omap, be16_toNat, be16]
  · have e1 : sliceI p 6 8 = .panic := by
      have : ¬ (((8 : Int)) ≤ (p.length : Int)) := by omega
      simp [sliceI, this]
    have e2 : rd16 p 6 = .panic := by
      have : ¬ (8 ≤ p.length) := by omega
      simp [rd16, slice, this]
    rw [e1, e2]; rfl

/-- **encodeName tie.**  The regenerated `encodeName` (the `for i := range name` loop with its two stores, the empty-name
    case, the final length octet and terminator) is `Model.encodeName` for every dotted name, every caller buffer and
    every offset: same bytes written, same returned offset, the same index-out-of-range panics when the buffer is too
    small (`encodeName_no_panic` of C08 states when that cannot happen). -/
theorem encodeName_tie (name data : Bytes) (offset : Nat) :
    genEncodeName name data (offset : Int) = omap encView (Model.encodeName name data offset) := by
  unfold genEncodeName Model.encodeName
  have h := encLoop_eq offset name [] (name.length + 1) data 0 (by simp) (by omega)
  simp only [List.nil_append, List.length_nil] at h
  have h0 : ((0 : Nat) : Int) = (0 : Int) := rfl
  rw [h0] at h
  show (genEncodeName_loop1 name (offset : Int) (name.length + 1) data 0 0 >>= _) = _
  rw [h]
  cases hl : encodeNameLoop name 0 0 data offset with
  | ok v =>
    obtain ⟨d, l⟩ := v
    have hle := encLoop_l_le name 0 0 data offset d l (by omega) hl
    simp only [omap, encView, Outcome.bind_ok]
    by_cases hn : name.length = 0
    · have : ((name.length : Nat) : Int) = 0 := by omega
      simp only [hn, if_true, beq_self_eq_true]
      rw [setI_nat d _ offset _ rfl]
      cases setIdx d offset 0 <;> simp
    · have : ¬ (((name.length : Nat) : Int) = 0) := by omega
      have hb : (name.length == 0) = false := by simpa using hn
      simp only [this, hb, if_false, Bool.false_eq_true]
      rw [setI_nat d _ (offset + name.length - l) _ (by omega), ofNat_mod256]
      cases setIdx d (offset + name.length - l) (UInt8.ofNat l) with
      | ok d1 =>
        simp only [Outcome.bind_ok]
        rw [setI_nat d1 _ (offset + name.length + 1) _ (by omega)]
        cases setIdx d1 (offset + name.length + 1) 0 with
        | ok d2 => simp
        | err e => rfl
        | panic => rfl
        | hang => rfl
      | err e => rfl
      | panic => rfl
      | hang => rfl
  | err e => rfl
  | panic => rfl
  | hang => rfl

/-- non-vacuity: "a.bc" into an 8-byte buffer at offset 1; a buffer that is too small panics -/
example : genEncodeName [97, 46, 98, 99] [9, 9, 9, 9, 9, 9, 9, 9] 1 = .ok ([9, 1, 97, 2, 98, 99, 0, 9], 7) := by decide
example : genEncodeName [97, 46, 98, 99] [9, 9, 9] 1 = .panic := by decide

/-- every candidate of layer_dns.go is translated … -/
theorem translated_accounted : dnsLoopsTranslated =
    [("packet.decodeName", "genDecodeName"), ("packet.(DNS).IsValid", "genDNS_IsValid"), ("packet.(DNS).QDCount", "genDNS_QDCount"),
     ("packet.DecodeQuestion", "genDecodeQuestion"), ("packet.(*DNSEntry).decodeRRs", "genDNSEntry_decodeRRs"),
     ("packet.(DNS).ANCount", "genDNS_ANCount"), ("packet.(*DNSEntry).DecodeAnswers", "genDNSEntry_DecodeAnswers"),
     ("packet.encodeName", "genEncodeName"), ("packet.EncodeDNSQuery", "genEncodeDNSQuery"), ("packet.encode", "genEncode"),
     ("packet.NewDNSEntry", "genNewDNSEntry")] := by decide

/-- … none of layer_dns.go is refused; the byte-level helpers and the Process* handlers of handlers/dns_naming offered to
    this translator (builder M) are refused, each with its first offending construct in `dnsLoopsUntranslated`
    ([]string / NameEntry results, string concatenation, `i = i + 2`, the handler receiver): they stay with the
    correspondence run; ProcessDNS / DNSFind are translated by loops_naming.go (Props/C17HandlerTie) -/
theorem untranslated_accounted : dnsLoopsUntranslated.map (·.1) =
    ["dns_naming.encodeNBNSName", "dns_naming.decodeNBNSName", "dns_naming.parseNodeNameArray",
     "dns_naming.processNBNSNodeStatusResponse", "dns_naming.(*DNSHandler).ProcessNBNS", "dns_naming.(*DNSHandler).ProcessMDNS",
     "dns_naming.processSSDPNotify", "dns_naming.processSSDPSearchRequest", "dns_naming.processUserAgent",
     "dns_naming.processSSDPResponse", "dns_naming.(*DNSHandler).ProcessSSDP"] := by decide

/-- the fuel the translator hands to the loops and to the pointer recursion: validated by the ties above (a smaller
    measure would make the generated function `.hang` where the model returns) -/
theorem fuels_accounted : dnsLoopFuels =
    [("genDecodeName_loop1", "((data.length : Int) - index).toNat + 1"),
     ("genDecodeName_rec", "((255 : Int) - level).toNat + 2"),
     ("genDNSEntry_decodeRRs_loop1", "(count - i).toNat + 1"),
     ("genEncodeName_loop1", "name.length + 1")] := by decide

/-- the assumptions of the translation (design_notes/bG.md reviews each) -/
theorem assumptions_accounted : dnsLoopAssumptions.map (·.1) =
    ["appendValue", "capEqLen", "errValuesDropped", "intNoOverflow", "logsDropped", "nilIsEmpty", "noAlias", "ptrInOut", "recvState"] := by decide

/-- the standard-library functions on the translated paths and what stands for each -/
theorem externs_accounted : dnsLoopExterns =
    ["net.IP.To4 → LoopGoDns.ipTo4", "net.ParseIP → parameter parseIP (nil = [])",
     "netip.AddrFromSlice → LoopGoDns.addrFromSlice", "strings.TrimSuffix → LoopGoDns.trimSuffix"] := by decide

end PV.Props.C17Tie
