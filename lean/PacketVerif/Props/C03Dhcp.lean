/-
  DHCPv4 option layer (part of C03 / C08): `validateOptions` / `ParseOptions` return on every byte
  string (no panic, no hang), the encoder writes the subnet mask first, and options written the
  way `AppendOptions` writes them parse back to the values written.
-/
import PacketVerif.Model.Dhcp4Opt
import PacketVerif.Lemmas.Dhcp4OptPerm
namespace PV.Props.C03Dhcp
open PV PV.Model.Dhcp4Opt

theorem idx_ok {b : Bytes} {i : Nat} (h : i < b.length) : idx b i = .ok b[i] := by
  unfold idx; simp [h]

theorem sliceFrom_ok {b : Bytes} {n : Nat} (h : n ≤ b.length) : sliceFrom b n = .ok (b.drop n) := by
  unfold sliceFrom; simp [h]

theorem slice_ok {b : Bytes} {lo hi : Nat} (h1 : lo ≤ hi) (h2 : hi ≤ b.length) :
    slice b lo hi = .ok ((b.take hi).drop lo) := by
  unfold slice; simp [h1, h2]

/-- with fuel above the remaining length the validation loop returns (value or error) -/
theorem validateLoop_safe : ∀ (fuel : Nat) (opts : Bytes), opts.length < fuel → (validateLoop fuel opts).safe = true
  | 0, opts, h => by omega
  | fuel + 1, opts, h => by
    unfold validateLoop
    by_cases h2 : opts.length < 2
    · simp [h2, Outcome.safe]
    · simp only [h2, if_false]
      rw [idx_ok (by omega)]
      simp only [Outcome.bind_ok]
      split
      · simp [Outcome.safe]
      · split
        · rw [sliceFrom_ok (by omega)]
          simp only [Outcome.bind_ok]
          exact validateLoop_safe fuel _ (by simp; omega)
        · rw [idx_ok (by omega)]
          simp only [Outcome.bind_ok]
          split
          · simp [Outcome.safe]
          · rw [sliceFrom_ok (by omega)]
            simp only [Outcome.bind_ok]
            exact validateLoop_safe fuel _ (by simp; omega)

/-- **`validateOptions` never panics and never hangs, whatever the packet bytes** -/
theorem validate_safe (p : Bytes) : (validateOptions p).safe = true := by
  unfold validateOptions
  simp only []
  split
  · simp [Outcome.safe]
  · exact validateLoop_safe _ _ (by omega)

theorem parseLoop_ok : ∀ (fuel : Nat) (opts : Bytes) (acc : Opts), opts.length < fuel → ∃ o, parseLoop fuel opts acc = .ok o
  | 0, opts, acc, h => by omega
  | fuel + 1, opts, acc, h => by
    unfold parseLoop
    by_cases h2 : opts.length < 2
    · simp [h2]
    · simp only [h2, if_false]
      rw [idx_ok (by omega)]
      simp only [Outcome.bind_ok]
      split
      · exact ⟨_, rfl⟩
      · split
        · rw [sliceFrom_ok (by omega)]
          simp only [Outcome.bind_ok]
          exact parseLoop_ok fuel _ _ (by simp; omega)
        · rw [idx_ok (by omega)]
          simp only [Outcome.bind_ok]
          split
          · exact ⟨_, rfl⟩
          · rw [slice_ok (by omega) (by omega), sliceFrom_ok (by omega)]
            simp only [Outcome.bind_ok]
            exact parseLoop_ok fuel _ _ (by simp; omega)

/-- **`ParseOptions` returns a map for every byte string (no panic, no hang)** -/
theorem parse_total (p : Bytes) : ∃ o, parseOptions p = .ok o := by
  unfold parseOptions
  exact parseLoop_ok _ _ _ (by omega)

/-- **the subnet mask is the first option `AppendOptions` writes, whatever parameter request order the
    client sent and whatever the map iteration order** — so it precedes the router option (RFC 2132 §3.3) -/
theorem mask_before_router (opts : Opts) (order : Bytes) (tail : List UInt8) (v : Bytes)
    (h : optGet opts 1 = some v) : ∃ rest, emitSeq opts order tail = (1, v) :: rest := by
  unfold emitSeq fullOrder
  simp only [orderedPhase, h]
  exact ⟨_, rfl⟩

/-- bytes of one option -/
def tlv (e : UInt8 × Bytes) : Bytes := e.1 :: UInt8.ofNat e.2.length :: e.2

def flatten (seq : List (UInt8 × Bytes)) : Bytes := (seq.map tlv).flatten

/-- encodable option: code other than pad / end, value of at most 255 bytes -/
def WF (e : UInt8 × Bytes) : Prop := e.1 ≠ 0 ∧ e.1 ≠ 255 ∧ e.2.length ≤ 255

instance (e : UInt8 × Bytes) : Decidable (WF e) := by unfold WF; infer_instance

/-- one well-formed option at the head of the area is parsed to its value -/
theorem parseLoop_tlv (fuel : Nat) (e : UInt8 × Bytes) (rest : Bytes) (acc : Opts) (hw : WF e) :
    parseLoop (fuel + 1) (tlv e ++ rest) acc = parseLoop fuel rest (optSet acc e.1 e.2) := by
  obtain ⟨h0, h255, hl⟩ := hw
  conv => lhs; unfold parseLoop
  have hlen : (tlv e ++ rest).length = 2 + e.2.length + rest.length := by simp [tlv]; omega
  have hsz : (UInt8.ofNat e.2.length).toNat = e.2.length := by
    rw [UInt8.toNat_ofNat']; omega
  have h2 : ¬ (tlv e ++ rest).length < 2 := by omega
  simp only [h2, if_false]
  rw [idx_ok (by omega)]
  simp only [Outcome.bind_ok]
  have e0 : (tlv e ++ rest)[0]'(by omega) = e.1 := by simp [tlv]
  have e1 : (tlv e ++ rest)[1]'(by omega) = UInt8.ofNat e.2.length := by simp [tlv]
  rw [e0]
  have c255 : (e.1 == 255) = false := by simpa using h255
  have c0 : (e.1 == 0) = false := by simpa using h0
  simp only [c255, c0, Bool.false_eq_true, if_false]
  rw [idx_ok (by omega)]
  simp only [Outcome.bind_ok]
  rw [e1, hsz]
  have h3 : ¬ (tlv e ++ rest).length < 2 + e.2.length := by omega
  simp only [h3, if_false]
  rw [slice_ok (by omega) (by omega), sliceFrom_ok (by omega)]
  simp only [Outcome.bind_ok]
  have hv : ((tlv e ++ rest).take (2 + e.2.length)).drop 2 = e.2 := by
    rw [show 2 + e.2.length = e.2.length + 2 by omega]
    simp [tlv]
  have hr : (tlv e ++ rest).drop (2 + e.2.length) = rest := by
    rw [show 2 + e.2.length = e.2.length + 2 by omega]
    simp [tlv]
  rw [hv, hr]

/-- a sequence of well-formed options followed by the end option parses to the options written, in order
    (a later occurrence of a code overrides an earlier one) -/
theorem parseLoop_flatten : ∀ (seq : List (UInt8 × Bytes)) (pad : Bytes) (acc : Opts) (fuel : Nat),
    (∀ e, e ∈ seq → WF e) → seq.length < fuel →
    parseLoop fuel (flatten seq ++ 255 :: pad) acc = .ok (seq.foldl (fun a e => optSet a e.1 e.2) acc)
  | [], pad, acc, fuel, _, hf => by
    cases fuel with
    | zero => omega
    | succ f =>
      unfold parseLoop
      simp only [flatten, List.map_nil, List.flatten_nil, List.nil_append]
      by_cases h2 : (255 :: pad).length < 2
      · simp only [h2, if_true]; rfl
      · simp only [h2, if_false]
        rw [idx_ok (by simp)]
        simp
  | e :: seq, pad, acc, fuel, hw, hf => by
    cases fuel with
    | zero => omega
    | succ f =>
      have : flatten (e :: seq) ++ 255 :: pad = tlv e ++ (flatten seq ++ 255 :: pad) := by
        simp [flatten]
      rw [this, parseLoop_tlv f e _ acc (hw e (List.mem_cons_self ..))]
      rw [parseLoop_flatten seq pad _ f (fun x hx => hw x (List.mem_cons_of_mem _ hx)) (by simp at hf; omega)]
      rfl

/-- without overflow of the 1024-byte scratch buffer `AppendOptions` writes exactly the TLVs of the sequence -/
theorem writeAll_flatten : ∀ (seq : List (UInt8 × Bytes)) (buf : Bytes),
    buf.length + (flatten seq).length ≤ 1024 → writeAll seq buf = .ok (buf ++ flatten seq)
  | [], buf, _ => by simp [writeAll, flatten]
  | e :: seq, buf, h => by
    obtain ⟨c, v⟩ := e
    have hl : (flatten ((c, v) :: seq)).length = 2 + v.length + (flatten seq).length := by
      simp [flatten, tlv]; omega
    unfold writeAll emit
    have h1 : ¬ buf.length + 2 > 1024 := by omega
    simp only [h1, if_false, Outcome.bind_ok]
    have ht : v.take (1024 - (buf.length + 2)) = v := List.take_of_length_le (by omega)
    rw [ht, writeAll_flatten seq _ (by simp; omega)]
    simp [flatten, tlv]

/-- **round trip of the option area**: whenever the options written by `AppendOptions` are encodable and fit
    the scratch buffer, `ParseOptions` on a packet whose option area is what `EncodeDHCP4` produces (the written
    bytes, the end option, padding) yields the options written (last write of a code wins) -/
theorem parse_written (hdr : Bytes) (hh : hdr.length = 240) (opts : Opts) (order : Bytes) (tail : List UInt8) (pad : Bytes)
    (hw : ∀ e, e ∈ emitSeq opts order tail → WF e) (hfit : (flatten (emitSeq opts order tail)).length ≤ 1024) :
    ∃ buf, writeAll (emitSeq opts order tail) [] = .ok buf ∧
      parseOptions (hdr ++ buf ++ 255 :: pad) = .ok ((emitSeq opts order tail).foldl (fun a e => optSet a e.1 e.2) []) := by
  refine ⟨flatten (emitSeq opts order tail), ?_, ?_⟩
  · have := writeAll_flatten (emitSeq opts order tail) [] (by simpa using hfit)
    simpa using this
  · unfold parseOptions optionsOf
    have hl : (hdr ++ flatten (emitSeq opts order tail) ++ 255 :: pad).length > 240 := by simp [hh]; omega
    have hd : (hdr ++ flatten (emitSeq opts order tail) ++ 255 :: pad).drop 240 = flatten (emitSeq opts order tail) ++ 255 :: pad := by
      rw [List.append_assoc, List.drop_append, hh]; simp [hh]
    simp only [hl, if_true, hd]
    apply parseLoop_flatten _ _ _ _ hw
    have : (emitSeq opts order tail).length ≤ (flatten (emitSeq opts order tail)).length := by
      generalize emitSeq opts order tail = s
      induction s with
      | nil => simp
      | cons e s ih => simp [flatten, tlv] at ih ⊢; omega
    simp; omega

/-- non-vacuity: the server's reply options for a captured client, requested order "router, mask" -/
example : (emitSeq [(3, [10, 0, 0, 9]), (1, [255, 255, 255, 248]), (6, [1, 1, 1, 3]), (53, [2])] [3, 1] [53, 6]).map (·.1)
    = [1, 3, 53, 6] := by decide

/-! ### `AppendOptions` writes every entry of the map exactly once; full round trip -/

open PV.Lemmas.Dhcp4OptPerm in
/-- **the options `AppendOptions` writes are a permutation of the option map**: each key exactly once, with
    its value, for ANY parameter request order (repetitions, absent codes, the built-in 1 / 33 / 3 included)
    and ANY map iteration order `tail` that has no repetition and visits every key left after the ordered
    phase (codes that are not in the map may appear in `tail`: they are skipped).  The map is a Go map:
    its keys are unique. -/
theorem emitSeq_perm (opts : Opts) (order : Bytes) (tail : List UInt8)
    (hn : (opts.map (·.1)).Nodup) (ht : tail.Nodup)
    (hc : ∀ e, e ∈ (orderedPhase (fullOrder order) opts).2 → e.1 ∈ tail) :
    (emitSeq opts order tail).Perm opts :=
  Lemmas.Dhcp4OptPerm.emitSeq_perm opts order tail hn ht hc

/-- the same when `tail` is exactly what Go's `range` over the remaining map gives: a permutation of the
    keys that are left after the ordered phase -/
theorem emitSeq_perm_of_range (opts : Opts) (order : Bytes) (tail : List UInt8)
    (hn : (opts.map (·.1)).Nodup)
    (hr : tail.Perm ((orderedPhase (fullOrder order) opts).2.map (·.1))) :
    (emitSeq opts order tail).Perm opts := by
  have h2 := (Lemmas.Dhcp4OptPerm.orderedPhase_perm (fullOrder order) opts hn).2
  apply emitSeq_perm opts order tail hn (hr.nodup_iff.2 h2)
  intro e he
  exact hr.mem_iff.2 (List.mem_map.2 ⟨e, he, rfl⟩)

/-- the same when `tail` is any enumeration without repetition of a set of codes that contains the keys of the
    map (for instance all 256 codes in any order): no reference to the ordered phase -/
theorem emitSeq_perm_of_cover (opts : Opts) (order : Bytes) (tail : List UInt8)
    (hn : (opts.map (·.1)).Nodup) (ht : tail.Nodup) (hc : ∀ e, e ∈ opts → e.1 ∈ tail) :
    (emitSeq opts order tail).Perm opts :=
  emitSeq_perm opts order tail hn ht
    (fun e he => hc e (Lemmas.Dhcp4OptPerm.orderedPhase_rest_sub _ _ e he))

/-- no code is written twice -/
theorem emitSeq_keys_nodup (opts : Opts) (order : Bytes) (tail : List UInt8)
    (hn : (opts.map (·.1)).Nodup) (ht : tail.Nodup)
    (hc : ∀ e, e ∈ (orderedPhase (fullOrder order) opts).2 → e.1 ∈ tail) :
    ((emitSeq opts order tail).map (·.1)).Nodup :=
  ((emitSeq_perm opts order tail hn ht hc).map _).nodup_iff.2 hn

/-- the permutation statement with an unconstrained iteration order -/
def emitSeq_perm_unconstrained : Prop :=
  ∀ (opts : Opts) (order : Bytes) (tail : List UInt8), (opts.map (·.1)).Nodup → (emitSeq opts order tail).Perm opts

/-- the hypotheses on `tail` are needed: an iteration order that misses a remaining key drops the option, one
    that repeats a key writes it twice (the model's `tail` parameter is only meaningful as an enumeration of
    the remaining keys) -/
theorem finding_tail_must_enumerate : ¬ emitSeq_perm_unconstrained := by
  intro h
  have := (h [(6, [1])] [] [] (by decide)).length_eq
  revert this
  decide

/-- a repeated key in `tail` writes the option twice -/
theorem finding_tail_repetition : emitSeq [(6, [1])] [] [6, 6] = [(6, [1]), (6, [1])] := by decide

/-- the unique-key hypothesis is needed: on an association list with a repeated key (not a Go map) the
    first binding is written and all of them are deleted -/
theorem finding_keys_must_be_unique : emitSeq [(6, [1]), (6, [2])] [] [6] = [(6, [1])] := by decide

/-- non-vacuity of `emitSeq_perm`: the captured reply, requested order "router, mask, mask, 42" (a repetition
    and an absent code), iteration order 6 before 53 with a stray code 9 -/
example : (emitSeq [(3, [10, 0, 0, 9]), (1, [255, 255, 255, 248]), (6, [1, 1, 1, 3]), (53, [2])] [3, 1, 1, 42] [6, 9, 53]).Perm
    [(3, [10, 0, 0, 9]), (1, [255, 255, 255, 248]), (6, [1, 1, 1, 3]), (53, [2])] :=
  emitSeq_perm _ _ _ (by decide) (by decide) (by decide)

theorem flatten_length_perm {s t : List (UInt8 × Bytes)} (h : s.Perm t) : (flatten s).length = (flatten t).length := by
  induction h with
  | nil => rfl
  | cons x _ ih => simp [flatten] at ih ⊢; omega
  | swap x y l => simp [flatten]; omega
  | trans _ _ ih1 ih2 => omega

/-- size of the written option area: two bytes of code and length plus the value, per option -/
theorem flatten_length (s : List (UInt8 × Bytes)) : (flatten s).length = (s.map (fun e => 2 + e.2.length)).sum := by
  induction s with
  | nil => rfl
  | cons e s ih => simp [flatten, tlv] at ih ⊢; omega

/-- **round trip of the option area as equality of finite maps**: for a map with unique keys whose entries are
    all encodable (code other than 0 / 255, value of at most 255 bytes; the empty value is allowed) and whose
    encoding fits the 1024-byte scratch buffer, for any request order and any iteration order enumerating the
    remaining keys, `ParseOptions` of (header, written bytes, end option, padding) is the map written: a
    permutation of its entries, with unique keys, and the same lookup function -/
theorem parse_written_map (hdr : Bytes) (hh : hdr.length = 240) (opts : Opts) (order : Bytes) (tail : List UInt8) (pad : Bytes)
    (hn : (opts.map (·.1)).Nodup) (ht : tail.Nodup)
    (hc : ∀ e, e ∈ (orderedPhase (fullOrder order) opts).2 → e.1 ∈ tail)
    (hw : ∀ e, e ∈ opts → WF e) (hfit : (flatten opts).length ≤ 1024) :
    ∃ buf parsed, writeAll (emitSeq opts order tail) [] = .ok buf ∧
      parseOptions (hdr ++ buf ++ 255 :: pad) = .ok parsed ∧
      parsed.Perm opts ∧ (parsed.map (·.1)).Nodup ∧ ∀ c, optGet parsed c = optGet opts c := by
  have hp := emitSeq_perm opts order tail hn ht hc
  have hk := emitSeq_keys_nodup opts order tail hn ht hc
  obtain ⟨buf, h1, h2⟩ := parse_written hdr hh opts order tail pad
    (fun e he => hw e (hp.mem_iff.1 he)) (by rw [flatten_length_perm hp]; exact hfit)
  rw [Lemmas.Dhcp4OptPerm.foldl_optSet_reverse _ hk] at h2
  have hp2 : (emitSeq opts order tail).reverse.Perm opts := (List.reverse_perm _).trans hp
  have hn2 : ((emitSeq opts order tail).reverse.map (·.1)).Nodup := (hp2.map _).nodup_iff.2 hn
  exact ⟨buf, _, h1, h2, hp2, hn2, fun c => Lemmas.Dhcp4OptPerm.optGet_perm hp2 hn2 c⟩

theorem copyInto_length (dst src : Bytes) : (copyInto dst src).length = dst.length := by
  unfold copyInto
  simp only [List.length_append, List.length_take, List.length_drop]
  omega

/-- without overflow `AppendOptions` places exactly the TLVs of the sequence -/
theorem appendOptions_ok (cap : Nat) (opts : Opts) (order : Bytes) (tail : List UInt8)
    (hcap : 240 ≤ cap) (hfit : (flatten (emitSeq opts order tail)).length ≤ 1024)
    (hroom : 240 + (flatten (emitSeq opts order tail)).length ≤ cap) :
    appendOptions cap opts order tail =
      .ok (flatten (emitSeq opts order tail), (flatten (emitSeq opts order tail)).length) := by
  unfold appendOptions
  have h1 : ¬ cap < 240 := by omega
  simp only [h1, if_false]
  have := writeAll_flatten (emitSeq opts order tail) [] (by simpa using hfit)
  rw [this]
  simp only [Outcome.bind_ok, List.nil_append]
  rw [List.take_of_length_le (by omega)]

/-- shape of the packet `EncodeDHCP4` returns when the options fit: a 240-byte header, the placed option bytes,
    the end option, zero padding up to 300 bytes -/
theorem encodeDHCP4_shape (b : Bytes) (a : EncArgs) (tail : List UInt8) (placed : Bytes) (pos : Nat)
    (hb : 300 ≤ b.length)
    (hci : ∀ x, a.ciaddr = some x → x.length = 4) (hyi : ∀ x, a.yiaddr = some x → x.length = 4)
    (happ : appendOptions b.length (optSet a.opts 53 [a.mt]) a.order tail = .ok (placed, pos))
    (hpos : 240 + pos < b.length) :
    ∃ hdr pad, hdr.length = 240 ∧ encodeDHCP4 b a tail = .ok (hdr ++ placed ++ 255 :: pad) := by
  obtain ⟨opcode, mt, chaddr, ciaddr, yiaddr, xid, broadcast, opts, order⟩ := a
  unfold encodeDHCP4
  have h1 : ¬ b.length < 300 := by omega
  have h2 : ¬ 240 + pos ≥ b.length := by omega
  simp only [h1, if_false]
  simp only [] at happ
  rw [happ]
  simp only [Outcome.bind_ok, h2, if_false]
  have key : ∀ (h z : Bytes), h ++ placed ++ [255] ++ z = h ++ placed ++ 255 :: z := by
    intro h z; simp
  rw [key]
  refine ⟨_, _, ?_, rfl⟩
  · have c4 : ∀ x, ciaddr = some x → x.length = 4 := hci
    have y4 : ∀ x, yiaddr = some x → x.length = 4 := hyi
    cases chaddr <;> cases ciaddr <;> cases yiaddr <;> cases xid <;>
      simp only [List.length_append, List.length_cons, List.length_nil, copyInto_length, zeros,
        List.length_replicate, List.length_take, List.length_drop] <;>
      (try have := c4 _ rfl) <;> (try have := y4 _ rfl) <;> omega

/-- the room side condition is necessary: when header, written options and the end option do not fit the
    packet buffer, `EncodeDHCP4` returns nil (since fix 4da685d; before, the write of the end option was an index out
    of range, which `dhcp4.ProcessPacket` reached with a NAK encoded in place in a tight request buffer) -/
theorem encodeDHCP4_nil_without_room (b : Bytes) (a : EncArgs) (tail : List UInt8) (placed : Bytes) (pos : Nat)
    (hb : 300 ≤ b.length)
    (happ : appendOptions b.length (optSet a.opts 53 [a.mt]) a.order tail = .ok (placed, pos))
    (hpos : b.length ≤ 240 + pos) : encodeDHCP4 b a tail = .ok [] := by
  unfold encodeDHCP4
  have h1 : ¬ b.length < 300 := by omega
  have h2 : 240 + pos ≥ b.length := hpos
  simp only [h1, if_false]
  rw [happ]
  simp only [Outcome.bind_ok, h2, if_true]

/-- **full round trip `ParseOptions (EncodeDHCP4 …) = opts ∪ {53 ↦ mt}` as equality of finite maps.**
    Side conditions (unique keys and the enumeration hypothesis: see `finding_keys_must_be_unique`,
    `finding_tail_must_enumerate`; encodability: `roundtrip_needs_wf`; room: `encodeDHCP4_nil_without_room`;
    beyond 1024 bytes the scratch buffer write panics or `copy` truncates): the caller's map has unique keys;
    every entry other than a caller-supplied 53 (which is overridden) has a code other than 0 (pad) and 255
    (end) and a value of at most 255 bytes (zero-length values are fine); the encoding of the map with 53 set
    fits the 1024-byte scratch buffer and, with the 240-byte header and the end option, the packet buffer;
    the buffer has the minimum 300 bytes; ciaddr / yiaddr when given are 4 bytes; the iteration order
    enumerates the keys left after the ordered phase without repetition.  Then the encoder returns a packet,
    the parser returns a map, that map is a permutation of `optSet opts 53 [mt]` with unique keys, and its
    lookup function is: `[mt]` at 53, the caller's value everywhere else. -/
theorem encode_parse_roundtrip (b : Bytes) (a : EncArgs) (tail : List UInt8)
    (hb : 300 ≤ b.length)
    (hci : ∀ x, a.ciaddr = some x → x.length = 4) (hyi : ∀ x, a.yiaddr = some x → x.length = 4)
    (hn : (a.opts.map (·.1)).Nodup)
    (hw : ∀ e, e ∈ a.opts → e.1 ≠ 53 → WF e)
    (ht : tail.Nodup)
    (hc : ∀ e, e ∈ (orderedPhase (fullOrder a.order) (optSet a.opts 53 [a.mt])).2 → e.1 ∈ tail)
    (hfit : (flatten (optSet a.opts 53 [a.mt])).length ≤ 1024)
    (hroom : 240 + (flatten (optSet a.opts 53 [a.mt])).length < b.length) :
    ∃ pkt parsed, encodeDHCP4 b a tail = .ok pkt ∧ parseOptions pkt = .ok parsed ∧
      parsed.Perm (optSet a.opts 53 [a.mt]) ∧ (parsed.map (·.1)).Nodup ∧
      ∀ c, optGet parsed c = if c = 53 then some [a.mt] else optGet a.opts c := by
  have hnM := Lemmas.Dhcp4OptPerm.nodup_optSet hn 53 [a.mt]
  have hwM : ∀ e, e ∈ optSet a.opts 53 [a.mt] → WF e := by
    intro e he
    rcases List.mem_cons.1 he with h | h
    · rw [h]; exact ⟨by simp, by simp, by simp⟩
    · obtain ⟨h1, h2⟩ := Lemmas.Dhcp4OptPerm.mem_optDel.1 h
      exact hw e h1 h2
  have hp := emitSeq_perm _ a.order tail hnM ht hc
  have hl := flatten_length_perm hp
  have happ := appendOptions_ok b.length (optSet a.opts 53 [a.mt]) a.order tail (by omega)
    (by rw [hl]; exact hfit) (by rw [hl]; omega)
  obtain ⟨hdr, pad, hh, henc⟩ := encodeDHCP4_shape b a tail _ _ hb hci hyi happ (by rw [hl]; exact hroom)
  obtain ⟨buf, parsed, h1, h2, h3, h4, h5⟩ := parse_written_map hdr hh _ a.order tail pad hnM ht hc hwM hfit
  have hbuf : buf = flatten (emitSeq (optSet a.opts 53 [a.mt]) a.order tail) := by
    have := writeAll_flatten (emitSeq (optSet a.opts 53 [a.mt]) a.order tail) [] (by simpa [hl] using hfit)
    rw [this] at h1
    simpa using h1.symm
  refine ⟨_, parsed, henc, ?_, h3, h4, ?_⟩
  · rw [← hbuf]; exact h2
  · intro c
    rw [h5 c, Lemmas.Dhcp4OptPerm.optGet_optSet]

/-- the caller's own option 53 never survives: the message type argument overrides it -/
theorem roundtrip_overrides_53 (o : Opts) (mt : UInt8) : optGet (optSet o 53 [mt]) 53 = some [mt] := by
  rw [Lemmas.Dhcp4OptPerm.optGet_optSet]; simp

/-- lookup-function equality and permutation are the same thing on maps with unique keys -/
theorem map_eq_iff_perm {o o' : Opts} (hn : (o.map (·.1)).Nodup) (hn' : (o'.map (·.1)).Nodup) :
    o.Perm o' ↔ ∀ c, optGet o c = optGet o' c :=
  ⟨fun h c => Lemmas.Dhcp4OptPerm.optGet_perm h hn c, Lemmas.Dhcp4OptPerm.perm_of_optGet hn hn'⟩

/-- whatever the bytes, every entry the parser returns is encodable: code other than 0 / 255, at most 255 bytes -/
theorem parseLoop_wf : ∀ (fuel : Nat) (opts : Bytes) (acc o : Opts), (∀ e, e ∈ acc → WF e) →
    parseLoop fuel opts acc = .ok o → ∀ e, e ∈ o → WF e
  | 0, opts, acc, o, _, h => by simp [parseLoop] at h
  | fuel + 1, opts, acc, o, ha, h => by
    unfold parseLoop at h
    by_cases h2 : opts.length < 2
    · simp only [h2, if_true, Outcome.ok.injEq] at h
      rw [← h]; exact ha
    · simp only [h2, if_false] at h
      rw [idx_ok (by omega)] at h
      simp only [Outcome.bind_ok] at h
      split at h
      · simp only [Outcome.ok.injEq] at h
        rw [← h]; exact ha
      · split at h
        · rw [sliceFrom_ok (by omega)] at h
          simp only [Outcome.bind_ok] at h
          exact parseLoop_wf fuel _ _ o ha h
        · rw [idx_ok (by omega)] at h
          simp only [Outcome.bind_ok] at h
          split at h
          · simp only [Outcome.ok.injEq] at h
            rw [← h]; exact ha
          · rw [slice_ok (by omega) (by omega), sliceFrom_ok (by omega)] at h
            simp only [Outcome.bind_ok] at h
            refine parseLoop_wf fuel _ _ o ?_ h
            intro e he
            rcases List.mem_cons.1 he with h3 | h3
            · rw [h3]
              refine ⟨by simpa using ‹¬ (opts[0] == 0) = true›, by simpa using ‹¬ (opts[0] == 255) = true›, ?_⟩
              have := UInt8.toNat_lt opts[1]
              simp only [List.length_drop, List.length_take]
              omega
            · exact ha e (Lemmas.Dhcp4OptPerm.mem_optDel.1 h3).1

/-- **the encodability side condition of the round trip is necessary**: a map that comes back from
    `ParseOptions` (up to permutation), from any packet at all, has only encodable entries -/
theorem roundtrip_needs_wf (p : Bytes) (parsed m : Opts) (h : parseOptions p = .ok parsed) (hp : parsed.Perm m) :
    ∀ e, e ∈ m → WF e := by
  intro e he
  unfold parseOptions at h
  exact parseLoop_wf _ _ [] parsed (by intro x hx; cases hx) h e (hp.mem_iff.2 he)

/-- the parser sees only what follows the 240-byte header -/
theorem parseOptions_hdr (hdr : Bytes) (hh : hdr.length = 240) (area : Bytes) (ha : area ≠ []) :
    parseOptions (hdr ++ area) = parseLoop (area.length + 1) area [] := by
  unfold parseOptions optionsOf
  have hl : (hdr ++ area).length > 240 := by
    cases area with
    | nil => exact absurd rfl ha
    | cons x xs => simp [hh]
  have hd : (hdr ++ area).drop 240 = area := by rw [List.drop_append, hh]; simp [hh]
  simp only [hl, if_true, hd]

/-- the side condition "code ≠ 0" is needed: a pad-coded entry is not parsed back (its length byte is read as
    a code: the entry 0 ↦ [1, 7] comes back as 2 ↦ [7]) -/
theorem finding_code_0_not_round_tripped (hdr : Bytes) (hh : hdr.length = 240) :
    parseOptions (hdr ++ flatten [(0, [1, 7])] ++ [255]) = .ok [(2, [7])] := by
  rw [List.append_assoc, parseOptions_hdr hdr hh _ (by decide)]
  decide

/-- the side condition "code ≠ 255" is needed: an end-coded entry hides itself and everything written after it -/
theorem finding_code_255_not_round_tripped (hdr : Bytes) (hh : hdr.length = 240) :
    parseOptions (hdr ++ flatten [(255, [1]), (6, [1, 1, 1, 3])] ++ [255]) = .ok [] := by
  rw [List.append_assoc, parseOptions_hdr hdr hh _ (by decide)]
  decide

/-- non-vacuity of the full round trip: a 300-byte buffer, an ACK (5) with mask, router, DNS, an empty-valued
    option and a caller-supplied 53 that is overridden -/
example : ∃ pkt parsed,
    encodeDHCP4 (zeros 300) ⟨2, 5, none, none, some [10, 0, 0, 7], none, false,
      [(3, [10, 0, 0, 9]), (1, [255, 255, 255, 248]), (6, [1, 1, 1, 3]), (80, []), (53, [1])], [3, 1]⟩ [6, 80, 53] = .ok pkt ∧
    parseOptions pkt = .ok parsed ∧
    parsed.Perm (optSet [(3, [10, 0, 0, 9]), (1, [255, 255, 255, 248]), (6, [1, 1, 1, 3]), (80, []), (53, [1])] 53 [5]) ∧
    (parsed.map (·.1)).Nodup ∧
    ∀ c, optGet parsed c = if c = 53 then some [5] else
      optGet [(3, [10, 0, 0, 9]), (1, [255, 255, 255, 248]), (6, [1, 1, 1, 3]), (80, []), (53, [1])] c :=
  encode_parse_roundtrip (zeros 300) _ [6, 80, 53] (by rw [zeros, List.length_replicate]; omega) (by intro x h; cases h) (by intro x h; cases h; rfl)
    (by decide) (by decide) (by decide) (by decide) (by decide) (by rw [zeros, List.length_replicate]; decide)

/-- non-vacuity of `parse_written_map` -/
example : ∃ buf parsed, writeAll (emitSeq [(3, [10, 0, 0, 9]), (1, [255, 255, 255, 248]), (53, [2])] [3] [53]) [] = .ok buf ∧
    parseOptions (zeros 240 ++ buf ++ 255 :: []) = .ok parsed ∧
    parsed.Perm [(3, [10, 0, 0, 9]), (1, [255, 255, 255, 248]), (53, [2])] ∧ (parsed.map (·.1)).Nodup ∧
    ∀ c, optGet parsed c = optGet [(3, [10, 0, 0, 9]), (1, [255, 255, 255, 248]), (53, [2])] c :=
  parse_written_map (zeros 240) (by rw [zeros, List.length_replicate]) _ _ _ _ (by decide) (by decide) (by decide) (by decide) (by decide)

end PV.Props.C03Dhcp
