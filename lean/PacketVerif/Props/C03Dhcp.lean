/-
  DHCPv4 option layer (part of C03 / C08): `validateOptions` / `ParseOptions` return on every byte
  string (no panic, no hang), the encoder writes the subnet mask first, and options written the
  way `AppendOptions` writes them parse back to the values written.
-/
import PacketVerif.Model.Dhcp4Opt
namespace PV.Props.C03Dhcp
open PV PV.Model.Dhcp4Opt

theorem idx_ok {b : Bytes} {i : Nat} (h : i < b.length) : idx b i = .ok b[i] := by
  unfold idx; simp [h]

theorem sliceFrom_ok {b : Bytes} {n : Nat} (h : n ≤ b.length) : sliceFrom b n = .ok (b.drop n) := by
  unfold sliceFrom; simp [h]

theorem slice_ok {b : Bytes} {lo hi : Nat} (h1 : lo ≤ hi) (h2 : hi ≤ b.length) :
    slice b lo hi = .ok ((b.take hi).drop lo) := by
  unfold slice; simp [h1, h2]

/-- with fuel above the remaining length the validation loop returns (value or error) -/
theorem validateLoop_safe : ∀ (fuel : Nat) (opts : Bytes), opts.length < fuel → (validateLoop fuel opts).safe = true
  | 0, opts, h => by omega
  | fuel + 1, opts, h => by
    unfold validateLoop
    by_cases h2 : opts.length < 2
    · simp [h2, Outcome.safe]
    · simp only [h2, if_false]
      rw [idx_ok (by omega)]
      simp only [Outcome.bind_ok]
      split
      · simp [Outcome.safe]
      · split
        · rw [sliceFrom_ok (by omega)]
          simp only [Outcome.bind_ok]
          exact validateLoop_safe fuel _ (by simp; omega)
        · rw [idx_ok (by omega)]
          simp only [Outcome.bind_ok]
          split
          · simp [Outcome.safe]
          · rw [sliceFrom_ok (by omega)]
            simp only [Outcome.bind_ok]
            exact validateLoop_safe fuel _ (by simp; omega)

/-- **`validateOptions` never panics and never hangs, whatever the packet bytes** -/
theorem validate_safe (p : Bytes) : (validateOptions p).safe = true := by
  unfold validateOptions
  simp only []
  split
  · simp [Outcome.safe]
  · exact validateLoop_safe _ _ (by omega)

theorem parseLoop_ok : ∀ (fuel : Nat) (opts : Bytes) (acc : Opts), opts.length < fuel → ∃ o, parseLoop fuel opts acc = .ok o
  | 0, opts, acc, h => by omega
  | fuel + 1, opts, acc, h => by
    unfold parseLoop
    by_cases h2 : opts.length < 2
    · simp [h2]
    · simp only [h2, if_false]
      rw [idx_ok (by omega)]
      simp only [Outcome.bind_ok]
      split
      · exact ⟨_, rfl⟩
      · split
        · rw [sliceFrom_ok (by omega)]
          simp only [Outcome.bind_ok]
          exact parseLoop_ok fuel _ _ (by simp; omega)
        · rw [idx_ok (by omega)]
          simp only [Outcome.bind_ok]
          split
          · exact ⟨_, rfl⟩
          · rw [slice_ok (by omega) (by omega), sliceFrom_ok (by omega)]
            simp only [Outcome.bind_ok]
            exact parseLoop_ok fuel _ _ (by simp; omega)

/-- **`ParseOptions` returns a map for every byte string (no panic, no hang)** -/
theorem parse_total (p : Bytes) : ∃ o, parseOptions p = .ok o := by
  unfold parseOptions
  exact parseLoop_ok _ _ _ (by omega)

/-- **the subnet mask is the first option `AppendOptions` writes, whatever parameter request order the
    client sent and whatever the map iteration order** — so it precedes the router option (RFC 2132 §3.3) -/
theorem mask_before_router (opts : Opts) (order : Bytes) (tail : List UInt8) (v : Bytes)
    (h : optGet opts 1 = some v) : ∃ rest, emitSeq opts order tail = (1, v) :: rest := by
  unfold emitSeq fullOrder
  simp only [orderedPhase, h]
  exact ⟨_, rfl⟩

/-- bytes of one option -/
def tlv (e : UInt8 × Bytes) : Bytes := e.1 :: UInt8.ofNat e.2.length :: e.2

def flatten (seq : List (UInt8 × Bytes)) : Bytes := (seq.map tlv).flatten

/-- encodable option: code other than pad / end, value of at most 255 bytes -/
def WF (e : UInt8 × Bytes) : Prop := e.1 ≠ 0 ∧ e.1 ≠ 255 ∧ e.2.length ≤ 255

/-- one well-formed option at the head of the area is parsed to its value -/
theorem parseLoop_tlv (fuel : Nat) (e : UInt8 × Bytes) (rest : Bytes) (acc : Opts) (hw : WF e) :
    parseLoop (fuel + 1) (tlv e ++ rest) acc = parseLoop fuel rest (optSet acc e.1 e.2) := by
  obtain ⟨h0, h255, hl⟩ := hw
  conv => lhs; unfold parseLoop
  have hlen : (tlv e ++ rest).length = 2 + e.2.length + rest.length := by simp [tlv]; omega
  have hsz : (UInt8.ofNat e.2.length).toNat = e.2.length := by
    rw [UInt8.toNat_ofNat']; omega
  have h2 : ¬ (tlv e ++ rest).length < 2 := by omega
  simp only [h2, if_false]
  rw [idx_ok (by omega)]
  simp only [Outcome.bind_ok]
  have e0 : (tlv e ++ rest)[0]'(by omega) = e.1 := by simp [tlv]
  have e1 : (tlv e ++ rest)[1]'(by omega) = UInt8.ofNat e.2.length := by simp [tlv]
  rw [e0]
  have c255 : (e.1 == 255) = false := by simpa using h255
  have c0 : (e.1 == 0) = false := by simpa using h0
  simp only [c255, c0, Bool.false_eq_true, if_false]
  rw [idx_ok (by omega)]
  simp only [Outcome.bind_ok]
  rw [e1, hsz]
  have h3 : ¬ (tlv e ++ rest).length < 2 + e.2.length := by omega
  simp only [h3, if_false]
  rw [slice_ok (by omega) (by omega), sliceFrom_ok (by omega)]
  simp only [Outcome.bind_ok]
  have hv : ((tlv e ++ rest).take (2 + e.2.length)).drop 2 = e.2 := by
    rw [show 2 + e.2.length = e.2.length + 2 by omega]
    simp [tlv]
  have hr : (tlv e ++ rest).drop (2 + e.2.length) = rest := by
    rw [show 2 + e.2.length = e.2.length + 2 by omega]
    simp [tlv]
  rw [hv, hr]

/-- a sequence of well-formed options followed by the end option parses to the options written, in order
    (a later occurrence of a code overrides an earlier one) -/
theorem parseLoop_flatten : ∀ (seq : List (UInt8 × Bytes)) (pad : Bytes) (acc : Opts) (fuel : Nat),
    (∀ e, e ∈ seq → WF e) → seq.length < fuel →
    parseLoop fuel (flatten seq ++ 255 :: pad) acc = .ok (seq.foldl (fun a e => optSet a e.1 e.2) acc)
  | [], pad, acc, fuel, _, hf => by
    cases fuel with
    | zero => omega
    | succ f =>
      unfold parseLoop
      simp only [flatten, List.map_nil, List.flatten_nil, List.nil_append]
      by_cases h2 : (255 :: pad).length < 2
      · simp only [h2, if_true]; rfl
      · simp only [h2, if_false]
        rw [idx_ok (by simp)]
        simp
  | e :: seq, pad, acc, fuel, hw, hf => by
    cases fuel with
    | zero => omega
    | succ f =>
      have : flatten (e :: seq) ++ 255 :: pad = tlv e ++ (flatten seq ++ 255 :: pad) := by
        simp [flatten]
      rw [this, parseLoop_tlv f e _ acc (hw e (List.mem_cons_self ..))]
      rw [parseLoop_flatten seq pad _ f (fun x hx => hw x (List.mem_cons_of_mem _ hx)) (by simp at hf; omega)]
      rfl

/-- without overflow of the 1024-byte scratch buffer `AppendOptions` writes exactly the TLVs of the sequence -/
theorem writeAll_flatten : ∀ (seq : List (UInt8 × Bytes)) (buf : Bytes),
    buf.length + (flatten seq).length ≤ 1024 → writeAll seq buf = .ok (buf ++ flatten seq)
  | [], buf, _ => by simp [writeAll, flatten]
  | e :: seq, buf, h => by
    obtain ⟨c, v⟩ := e
    have hl : (flatten ((c, v) :: seq)).length = 2 + v.length + (flatten seq).length := by
      simp [flatten, tlv]; omega
    unfold writeAll emit
    have h1 : ¬ buf.length + 2 > 1024 := by omega
    simp only [h1, if_false, Outcome.bind_ok]
    have ht : v.take (1024 - (buf.length + 2)) = v := List.take_of_length_le (by omega)
    rw [ht, writeAll_flatten seq _ (by simp; omega)]
    simp [flatten, tlv]

/-- **round trip of the option area**: whenever the options written by `AppendOptions` are encodable and fit
    the scratch buffer, `ParseOptions` on a packet whose option area is what `EncodeDHCP4` produces (the written
    bytes, the end option, padding) yields the options written (last write of a code wins) -/
theorem parse_written (hdr : Bytes) (hh : hdr.length = 240) (opts : Opts) (order : Bytes) (tail : List UInt8) (pad : Bytes)
    (hw : ∀ e, e ∈ emitSeq opts order tail → WF e) (hfit : (flatten (emitSeq opts order tail)).length ≤ 1024) :
    ∃ buf, writeAll (emitSeq opts order tail) [] = .ok buf ∧
      parseOptions (hdr ++ buf ++ 255 :: pad) = .ok ((emitSeq opts order tail).foldl (fun a e => optSet a e.1 e.2) []) := by
  refine ⟨flatten (emitSeq opts order tail), ?_, ?_⟩
  · have := writeAll_flatten (emitSeq opts order tail) [] (by simpa using hfit)
    simpa using this
  · unfold parseOptions optionsOf
    have hl : (hdr ++ flatten (emitSeq opts order tail) ++ 255 :: pad).length > 240 := by simp [hh]; omega
    have hd : (hdr ++ flatten (emitSeq opts order tail) ++ 255 :: pad).drop 240 = flatten (emitSeq opts order tail) ++ 255 :: pad := by
      rw [List.append_assoc, List.drop_append, hh]; simp [hh]
    simp only [hl, if_true, hd]
    apply parseLoop_flatten _ _ _ _ hw
    have : (emitSeq opts order tail).length ≤ (flatten (emitSeq opts order tail)).length := by
      generalize emitSeq opts order tail = s
      induction s with
      | nil => simp
      | cons e s ih => simp [flatten, tlv] at ih ⊢; omega
    simp; omega

/-- non-vacuity: the server's reply options for a captured client, requested order "router, mask" -/
example : (emitSeq [(3, [10, 0, 0, 9]), (1, [255, 255, 255, 248]), (6, [1, 1, 1, 3]), (53, [2])] [3, 1] [53, 6]).map (·.1)
    = [1, 3, 53, 6] := by decide

end PV.Props.C03Dhcp
