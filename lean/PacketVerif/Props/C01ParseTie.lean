/-
  Tie B for the BODY of `(*Session).Parse` and of the `Frame` accessors (C01, C02, C16, C04) — fact family F11.
  `Gen/ParseGen.lean` is regenerated from the Go source on every run (tools/goextract/parse.go): Parse translated
  statement by statement into Lean (`Gen.genParse`, with one join-point definition `genParse_j<N>` for the statements
  after each if/switch that can fall through) — early returns, the EtherType switch with constants resolved by
  go/types, the ordered port switch, frame-field assignments as record updates of `Model.Frame`, getters as their own
  re-translated bodies, `IsValid()` as the regenerated predicates of Gen/Valid.lean (F10), the netip predicates and the
  configuration reads through `Model/Netip` and `Model.Cfg`, host creation and the echo notification as the `hostEv` /
  `echo` outputs.

  `parse_tie` proves the regenerated function EQUAL to the hand-written `Model.parse` on every configuration and every
  byte string; before it, the order of the validation calls, the offset each getter advances, the fields set before
  an early return, the host-creation predicates, the hard-coded ARP guard and the echo-reply path were tied to the Go
  source only by the correspondence run.  A statement of Parse that has no counterpart in the model is not dropped
  silently: it must have one of four shapes and every occurrence is listed, with its switch-case path, in
  `Gen.parseIgnoredStmts`, pinned by `parse_ignored_reviewed`; anything the translator does not understand lands in
  `Gen.parseUntranslated` and breaks `parse_translated_total`.
-/
import PacketVerif.Lemmas.ParseTie
import PacketVerif.Props.C01
namespace PV.Props.C01ParseTie
open PV PV.Model PV.Gen PV.Gen.Valid PV.Lemmas PV.Lemmas.ParseTie

/-- **The body of `Session.Parse`, regenerated from the Go AST, is the model** — for every configuration and every
    byte string (valid or not): same frame, same error value, same panic behaviour. -/
theorem parse_tie (cfg : Cfg) (p : Bytes) : genParse cfg p = parse cfg p := by
  unfold genParse parse
  rw [Props.C01ValidTie.ether_tie]
  simp only [vEther]
  cases hv : etherValid p with
  | err e => rfl
  | panic => rfl
  | hang => rfl
  | ok u =>
    obtain ⟨h14, hh⟩ := etherValid_ok p hv
    have hhl := etherHeaderLen_eq p h14
    have hl14 : 14 ≤ etherHeaderLenOf (Spec.u16 p 12) := by
      rcases etherHeaderLenOf_cases (Spec.u16 p 12) with h | h | h <;> omega
    generalize etherHeaderLenOf (Spec.u16 p 12) = hl at hh hhl hl14
    have hsrc := slice_ok p 6 12 (by omega) (by omega)
    have hsl := slice_len p 6 12 (by omega) (by omega)
    generalize (p.take 12).drop 6 = src at hsrc hsl
    have hdst := slice_ok p 0 6 (by omega) (by omega)
    generalize (p.take 6).drop 0 = dst at hdst
    obtain ⟨s0, hs0⟩ := idx_ok src 0 (by omega)
    have het := be16At_ok p 12 (by omega)
    generalize be16 _ _ = et at het
    simp only [uni_tie, ne_be16]
    simp only [hsrc, hdst, hhl, Outcome.bind_ok, hs0, Outcome.pure_eq, het]
    simp only [rel, Outcome.bind_ok, Outcome.pure_eq, decide_eq_true_eq]
    by_cases hg : (s0 &&& 0x01 != 0) = true
    · simp only [hg, if_true]; rfl
    simp only [hg, Bool.false_eq_true, if_false]
    by_cases hlt : et < 1536
    · simp only [hlt, if_true]; rfl
    simp only [hlt, if_false]
    simp only [beq_iff_eq]
    have hl0 : hl ≠ 0 := by omega
    simp only [genFramePayloadB, genFrameEtherB, hl0, ne_eq, not_false_eq_true, decide_true, if_true, sliceFrom_ok p hl hh,
      Outcome.bind_ok, hhl]
    by_cases h4 : et = 2048
    · simp only [h4, if_true, Props.C01ValidTie.ip4_tie]
      simp only [vIP4]
      cases hv4 : ip4Valid (p.drop hl) with
      | err e => rfl
      | panic => rfl
      | hang => rfl
      | ok u4 =>
        cases u4
        obtain ⟨h20, hi20, hile, _, _⟩ := ip4Valid_ok _ hv4
        have hihl := ip4IHL_eq (p.drop hl) (by omega)
        generalize Spec.at_ (p.drop hl) 0 % 16 * 4 = ihl at hi20 hile hihl
        rw [List.length_drop] at hile
        simp only [guard_ok, ne_ihl, ne_byte, hihl, opN, Outcome.bind_ok, Outcome.pure_eq, sliceFrom_ok p (hl + ihl) (by omega)]
        cases byteN (p.drop hl) 9 <;> try rfl
        cases slice (p.drop hl) 12 16 <;> try rfl
        cases slice (p.drop hl) 16 20 <;> try rfl
        rename_i proto sip dip
        simp only [Outcome.bind_ok, bnot_beq]
        by_cases hc : (src != cfg.hostMAC && Netip.prefixContains cfg.lanAddr cfg.lanBits sip) = true
        · simp only [hc, if_true]
          exact j1_tie cfg p _ proto (by show hl + ihl ≠ 0; omega) (by show hl + ihl ≤ _; omega)
        · simp only [hc]
          exact j1_tie cfg p _ proto (by show hl + ihl ≠ 0; omega) (by show hl + ihl ≤ _; omega)
    simp only [h4, if_false]
    by_cases h6 : et = 34525
    · simp only [h6, if_true, Props.C01ValidTie.ip6_tie]
      simp only [vIP6]
      cases hv6 : ip6Valid (p.drop hl) with
      | err e => rfl
      | panic => rfl
      | hang => rfl
      | ok u6 =>
        cases u6
        obtain ⟨h40, _⟩ := ip6Valid_ok _ hv6
        rw [List.length_drop] at h40
        simp only [guard_ok, ne_byte, ne_const, opN, Outcome.bind_ok, Outcome.pure_eq, sliceFrom_ok p (hl + 40) (by omega)]
        cases byteN (p.drop hl) 6 <;> try rfl
        cases slice (p.drop hl) 8 24 <;> try rfl
        cases slice (p.drop hl) 24 40 <;> try rfl
        rename_i proto sip dip
        simp only [Outcome.bind_ok, bnot_beq]
        by_cases hc : (src != cfg.hostMAC && (Netip.isLinkLocalUnicast sip || Netip.isGlobalUnicast sip && src != cfg.routerMAC)) = true
        · simp only [hc, if_true]
          exact j1_tie cfg p _ proto (by show hl + 40 ≠ 0; omega) (by show hl + 40 ≤ _; omega)
        · simp only [hc]
          exact j1_tie cfg p _ proto (by show hl + 40 ≠ 0; omega) (by show hl + 40 ≤ _; omega)
    simp only [h6, if_false]
    by_cases ha : et = 2054
    · simp only [ha, if_true]
      by_cases h28 : (p.drop hl).length < 28
      · simp only [orElse, h28, decide_true, Outcome.bind_ok, Outcome.pure_eq, if_true]; rfl
      · have hb := byteN_ok (p.drop hl) 4 (by omega)
        generalize ((p.drop hl)[4]'_).toNat = b at hb
        have hsip := slice_ok (p.drop hl) 14 18 (by omega) (by omega)
        generalize ((p.drop hl).take 18).drop 14 = sip at hsip
        have hsmac := slice_ok (p.drop hl) 8 14 (by omega) (by omega)
        generalize ((p.drop hl).take 14).drop 8 = smac at hsmac
        simp only [orElse, h28, decide_false, Outcome.bind_ok, Outcome.pure_eq, hb, hsip, hsmac, Bool.false_eq_true, if_false,
          bnot_beq, bne_iff_ne, ne_eq, decide_not, Bool.not_eq_true', decide_eq_false_iff_not]
        by_cases hb6 : b = 6
        · simp only [hb6, not_true_eq_false, if_false]
          by_cases hc : (src != cfg.hostMAC && Netip.prefixContains cfg.lanAddr cfg.lanBits sip) = true
          · simp only [hc, if_true]; rfl
          · simp only [hc]; rfl
        · simp only [hb6, not_false_eq_true, if_true]; rfl
    simp only [ha, if_false]
    unfold etherOnly
    simp only [beq_iff_eq]
    port_step (et = 34824)
    port_step (et = 34969)
    port_step (et = 35020)
    port_step (et = 35085)
    port_step (et = 35130)
    port_step (et = 26992)
    port_step (et = 34826)
    rfl

/-- consequence (with C01 `parse_total`): the translated Go body returns on every input — no index or slice
    expression of Parse can panic -/
theorem parse_go_total (cfg : Cfg) (p : Bytes) : ∃ r, genParse cfg p = .ok r := by
  rw [parse_tie]; exact C01.parse_total cfg p

/-- **Frame accessors** (`Ether HasIP IP4 IP6 UDP TCP Payload`, layer_frame.go): the regenerated bodies, in source
    order, are the accessor table of the model (`Frame.accessors`, the one `frame_accessors_safe` is about) -/
theorem frame_accessors_tie (fr : Frame) (p : Bytes) : genFrameAccessors fr p = fr.accessors p := by
  have view : ∀ off : Nat, (if (decide (off ≠ 0)) = true then G.eval p (.tail off) else .ok .nil) = frameView p off := by
    intro off
    by_cases h0 : off = 0
    · simp [h0, frameView]
    · simp [h0, frameView, G.eval]
  have hasip : ∀ a b : Nat, (decide (a ≠ 0) || decide (b ≠ 0)) = (a != 0 || b != 0) := by
    intro a b
    by_cases ha : a = 0 <;> by_cases hb : b = 0 <;> simp [ha, hb]
  simp only [genFrameAccessors, Frame.accessors, genFrameEther, genFrameHasIP, genFrameIP4, genFrameIP6, genFrameUDP,
    genFrameTCP, genFramePayload, view, hasip]

/-- the byte-valued rendering of each accessor that `genParse` calls (`genFrame<M>B`) denotes the bytes of the slice
    its `Val` rendering returns -/
theorem frame_accessor_bytes_tie (fr : Frame) (p : Bytes) :
    genFrameEtherB fr p = (genFrameEther fr p >>= fun v => .ok (spanBytes p v)) ∧
    genFrameIP4B fr p = (genFrameIP4 fr p >>= fun v => .ok (spanBytes p v)) ∧
    genFrameIP6B fr p = (genFrameIP6 fr p >>= fun v => .ok (spanBytes p v)) ∧
    genFrameUDPB fr p = (genFrameUDP fr p >>= fun v => .ok (spanBytes p v)) ∧
    genFrameTCPB fr p = (genFrameTCP fr p >>= fun v => .ok (spanBytes p v)) ∧
    genFramePayloadB fr p = (genFramePayload fr p >>= fun v => .ok (spanBytes p v)) := by
  have key : ∀ off : Nat, (if (decide (off ≠ 0)) = true then sliceFrom p off else .ok []) =
      ((if (decide (off ≠ 0)) = true then G.eval p (.tail off) else .ok .nil) >>= fun v => .ok (spanBytes p v)) := by
    intro off
    by_cases h0 : off = 0
    · simp [h0, spanBytes]
    · by_cases hle : off ≤ p.length
      · simp [h0, hle, sliceFrom, G.eval, spanBytes]
        exact (List.take_of_length_le (by simp)).symm
      · simp [h0, hle, sliceFrom, G.eval]
  refine ⟨?_, key _, key _, key _, key _, key _⟩
  simp [genFrameEtherB, genFrameEther, spanBytes]

/-- the bound the translator assumes for the irregular callee `Ether.HeaderLen` (it checks that `int` additions fit) -/
theorem ether_header_len_le (p : Bytes) (n : Nat) (h : etherHeaderLen p = .ok n) : n ≤ 22 := by
  unfold etherHeaderLen at h
  cases h12 : be16At p 12 with
  | ok et =>
    rw [h12] at h
    simp only [Outcome.bind_ok, Outcome.pure_eq, Outcome.ok.injEq] at h
    rcases etherHeaderLenOf_cases et with h' | h' | h' <;> omega
  | _ => rw [h12] at h; cases h

/-! ### nothing hidden -/

/-- every statement of Parse was translated (the list of refused constructs is empty) -/
theorem parse_translated_total : Gen.parseUntranslated = [] := rfl

/-- the statements of Parse that have NO counterpart in the model — the statistics counters, the IP heartbeat store,
    the session back-pointer, the online-transition flag — are exactly this reviewed list (each with the switch case
    it occurs in, in source order): nothing else was left out of `genParse` -/
theorem parse_ignored_reviewed : Gen.parseIgnoredStmts = [
  "frame.Session = h",
  "case syscall.ETH_P_IP / atomic.StoreUint32(&h.ipHeartBeat, 1)",
  "case syscall.ETH_P_IP / h.Statistics[PayloadIP4].Count++",
  "case syscall.ETH_P_IP / if frame.Session.checkOnlineTransition(frame.Host) { frame.flags = frame.markOnlineTransition() }",
  "case syscall.ETH_P_IPV6 / atomic.StoreUint32(&h.ipHeartBeat, 1)",
  "case syscall.ETH_P_IPV6 / h.Statistics[PayloadIP6].Count++",
  "case syscall.ETH_P_IPV6 / if frame.Session.checkOnlineTransition(frame.Host) { frame.flags = frame.markOnlineTransition() }",
  "case syscall.ETH_P_ARP / h.Statistics[PayloadARP].Count++",
  "case syscall.ETH_P_ARP / if frame.Session.checkOnlineTransition(frame.Host) { frame.flags = frame.markOnlineTransition() }",
  "case 0x8808 / h.Statistics[PayloadEthernetPause].Count++",
  "case 0x8899 / h.Statistics[PayloadRRCP].Count++",
  "case 0x88cc / h.Statistics[PayloadLLDP].Count++",
  "case 0x890d / h.Statistics[Payload802_11r].Count++",
  "case 0x893a / h.Statistics[PayloadIEEE1905].Count++",
  "case 0x6970 / h.Statistics[PayloadSonos].Count++",
  "case 0x880a / h.Statistics[Payload880a].Count++",
  "case syscall.IPPROTO_UDP / h.Statistics[PayloadUDP].Count++",
  "case syscall.IPPROTO_UDP / case frame.SrcAddr.Port == 443 || frame.DstAddr.Port == 443 / h.Statistics[PayloadSSL].Count++",
  "case syscall.IPPROTO_UDP / case frame.DstAddr.Port == 67 || frame.DstAddr.Port == 68 / h.Statistics[PayloadDHCP4].Count++",
  "case syscall.IPPROTO_UDP / case frame.DstAddr.Port == 546 || frame.DstAddr.Port == 547 / h.Statistics[PayloadDHCP6].Count++",
  "case syscall.IPPROTO_UDP / case frame.SrcAddr.Port == 53 || frame.DstAddr.Port == 53 / h.Statistics[PayloadDNS].Count++",
  "case syscall.IPPROTO_UDP / case frame.SrcAddr.Port == 5353 || frame.DstAddr.Port == 5353 / h.Statistics[PayloadMDNS].Count++",
  "case syscall.IPPROTO_UDP / case frame.SrcAddr.Port == 5355 || frame.DstAddr.Port == 5355 / h.Statistics[PayloadLLMNR].Count++",
  "case syscall.IPPROTO_UDP / case frame.SrcAddr.Port == 123 || frame.DstAddr.Port == 123 / h.Statistics[PayloadNTP].Count++",
  "case syscall.IPPROTO_UDP / case frame.SrcAddr.Port == 1900 || frame.DstAddr.Port == 1900 / h.Statistics[PayloadSSDP].Count++",
  "case syscall.IPPROTO_UDP / case frame.SrcAddr.Port == 3702 || frame.DstAddr.Port == 3702 / h.Statistics[PayloadWSDP].Count++",
  "case syscall.IPPROTO_UDP / case frame.DstAddr.Port == 137 || frame.DstAddr.Port == 138 / h.Statistics[PayloadNBNS].Count++",
  "case syscall.IPPROTO_UDP / case frame.DstAddr.Port == 32412 || frame.DstAddr.Port == 32414 / h.Statistics[PayloadPlex].Count++",
  "case syscall.IPPROTO_UDP / case frame.SrcAddr.Port == 10001 || frame.DstAddr.Port == 10001 / h.Statistics[PayloadUbiquiti].Count++",
  "case syscall.IPPROTO_TCP / h.Statistics[PayloadTCP].Count++",
  "case syscall.IPPROTO_ICMP / h.Statistics[PayloadICMP4].Count++",
  "case syscall.IPPROTO_ICMPV6 / h.Statistics[PayloadICMP6].Count++",
  "case syscall.IPPROTO_IGMP / h.Statistics[PayloadIGMP].Count++"] := rfl

/-- callees and effects represented by a model function / a model output -/
theorem parse_callees_accounted : Gen.parseCallees = [
  "Ether.HeaderLen = etherHeaderLen (≤ 22)",
  "echoNotify(id) = echo := some id",
  "frame.Host, _ = Session.findOrCreateHostWithLock(a) = hostEv := some (a.MAC, a.IP)",
  "netip.Addr.IsGlobalUnicast = Netip.isGlobalUnicast",
  "netip.Addr.IsLinkLocalUnicast = Netip.isLinkLocalUnicast",
  "netip.Prefix.Contains = Netip.prefixContains"] := rfl

/-- the session fields Parse reads, and the `Cfg` field each is rendered as -/
theorem parse_cfg_reads_accounted : Gen.parseCfgReads = [
  "Session.NICInfo.HomeLAN4 = (cfg.lanAddr, cfg.lanBits)",
  "Session.NICInfo.HostAddr4.MAC = cfg.hostMAC",
  "Session.NICInfo.RouterAddr4.MAC = cfg.routerMAC"] := rfl

/-! ### non-vacuity: the regenerated function computes on real frames -/

/- a UDP/DNS frame from a LAN host: DNS payload id, offsets 14/34/42, host event -/
set_option maxRecDepth 8000 in
example : genParse ⟨[2,0,0,0,0,1], [2,0,0,0,0,0x11], [192,168,0,0], 24⟩
    ([2,0,0,0,0,1, 2,0,0,0,0,5, 8,0, 0x45,0,0,30, 0,0,0,0, 64,17,0,0, 192,168,0,5, 8,8,8,8, 0x30,0x39, 0,53, 0,10, 0,0, 1,2]) =
    .ok ⟨{ pid := 12, offIP4 := 14, offUDP := 34, offPayload := 42, srcMAC := [2,0,0,0,0,5], dstMAC := [2,0,0,0,0,1],
           srcIP := [192,168,0,5], dstIP := [8,8,8,8], srcPort := 12345, dstPort := 53,
           hostEv := some ([2,0,0,0,0,5], [192,168,0,5]) }, none⟩ := by decide

/- an ICMPv4 echo reply: the echo id is notified; a truncated frame: ErrFrameLen and the zero Frame -/
set_option maxRecDepth 8000 in
example : (genParse ⟨[2,0,0,0,0,1], [], [], 0⟩
    ([2,0,0,0,0,1, 2,0,0,0,0,5, 8,0, 0x45,0,0,28, 0,0,0,0, 64,1,0,0, 10,0,0,5, 10,0,0,1, 0,0,0,0, 0x12,0x34, 0,1])).bind
      (fun r => .ok (r.frame.echo, r.frame.pid, r.err)) = .ok (some 0x1234, 6, none) := by decide
example : genParse ⟨[], [], [], 0⟩ [1,2,3] = .ok ⟨{}, some .frameLen⟩ := by decide

/- accessors of a frame with offsets 14/34/42 over a 44-byte packet -/
example : genFrameAccessors { offIP4 := 14, offUDP := 34, offPayload := 42 } (List.replicate 44 0) =
    [("Ether", .ok (.span 0 44)), ("HasIP", .ok (.b true)), ("IP4", .ok (.span 14 30)), ("IP6", .ok .nil),
     ("UDP", .ok (.span 34 10)), ("TCP", .ok .nil), ("Payload", .ok (.span 42 2))] := by decide

end PV.Props.C01ParseTie
