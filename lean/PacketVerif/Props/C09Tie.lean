/-
  Tie B for C09: the lock-order facts regenerated from the Go source on every run (every pair
  "acquires B while holding A", directly or through callees, over the whole module incl. handlers)
  instantiate the generic theorem of Props/C09.lean: all edges go strictly up the hierarchy
  `Model.Locks.rank`, no lock class is re-entered, every function releases what it takes.
  A change that nests the session lock inside a row lock, re-acquires a held lock, or returns with a
  lock held changes Gen/Facts.lean and breaks one of these proofs at build time.
-/
import PacketVerif.Gen.Facts
import PacketVerif.Lemmas.Locks
import PacketVerif.Props.C09
namespace PV.Props.C09Tie
open PV PV.Model.Locks PV.Lemmas.Locks

def edgeOk (e : String × String × String) : Bool :=
  match rank e.1, rank e.2.1 with
  | some a, some b => decide (a < b)
  | _, _ => false

/-- every lock class the code uses has a place in the hierarchy -/
theorem classes_ranked : Gen.lockClasses.all (fun c => (rank c).isSome) = true := by decide

/-- every nested acquisition in the code goes strictly up the hierarchy (in particular no re-entry) -/
theorem lockorder_ok : Gen.lockEdges.all edgeOk = true := by decide

/-- no function returns with a lock still held -/
theorem balanced : Gen.unbalanced = [] := by decide

/-- consequently every chain of nested critical sections that follows the code's acquisition edges is a
    well-formed thread program of the lock machine … -/
theorem chain_wf (ls : List Nat) (h : ls.Pairwise (· < ·)) : (⟨[], nest ls⟩ : Thread).wf := nest_wf ls h

/-- … and any number of such threads, under any schedule, never deadlock -/
theorem code_lock_protocol_deadlock_free (chains : List (List Nat)) (h : ∀ ls ∈ chains, ls.Pairwise (· < ·))
    (s : State) (hr : Reach (chains.map fun ls => ⟨[], nest ls⟩) s) : ¬ deadlocked s := by
  apply PV.Props.C09.no_deadlock_of_ranked _ s _ hr
  intro t ht
  obtain ⟨ls, hls, rfl⟩ := List.mem_map.mp ht
  exact nest_wf ls (h ls hls)

end PV.Props.C09Tie
