/-
  The DHCPv4 handler on RAW payloads (C08 for `dhcp4.ProcessPacket` as a whole; C11 / C12 over raw histories).

  `Model.Dhcp4Frame.processRaw cfg s now rx p` is `Handler.ProcessPacket` on the payload bytes `p` of a frame with
  `PayloadID == PayloadDHCP4` (IPv4 source `rx.srcIP`, UDP destination port `rx.dstPort`, payload capacity `rx.cap`):
  `DHCP4.IsValid` → direction → `ParseOptions` → option 53 → the server handler of `Model.Dhcp4Srv` on the decoded
  message → the reply encoded in place when it fits.  Every statement quantifies over EVERY byte string, every state
  and every configuration; lemmas in `Lemmas/ComposeDhcp.lean`.

  * `dhcp_process_total`: the call returns (never panic, never hang), whatever the bytes;
  * `dhcp_raw_step`: it is `step ∘ decode` when the bytes decode to a message for the server, and leaves the server
    state alone with no reply otherwise (`served_payload` says which bytes decode, and to what);
  * what the dispatcher ignores (`invalid_payload_rejected`, `bootp_without_type_rejected`, `to_client_port_is_noop`,
    `unhandled_types_ignored`) and what it does not check (`op_code_not_checked`);
  * `replies_have_room`: a reply is written only into a payload buffer it fits (fix 4da685d);
  * the C11 / C12 statements over raw histories (`ReachRaw`: any sequence of arbitrary byte strings and environment
    operations from the empty server): `raw_inv`, `raw_ack_unique`, `raw_never_reserved`, `raw_offer_not_acked`,
    `raw_ack_not_acked_elsewhere`, `raw_reply_conforms`, `raw_ack_confirms` — corollaries of the C11 / C12 theorems
    through `raw_reach` (a raw history is an abstract history of the decoded operations; its observer sees a subset
    of the acknowledgements because a reply that finds no room is not sent).
-/
import PacketVerif.Lemmas.ComposeDhcp
import PacketVerif.Props.C12
namespace PV.Props.ComposeDhcp
open PV PV.Model PV.Model.Dhcp4Srv PV.Model.Dhcp4Opt PV.Model.Dhcp4Frame PV.Spec.Ledger PV.Lemmas.ComposeDhcp
open PV.Props.C11 (Inv Reach runL)
open PV.Lemmas.Dhcp4Srv (discover_outcome decline_outcome)

/-! ### 1. totality -/

/-- **`dhcp4.ProcessPacket` returns on every payload**: for every configuration, server state, clock, frame addressing
    and BYTE STRING the model of the whole call — validation, option parsing, dispatch, the server handler, the reply's
    room test — yields a result: never a panic (index / slice out of range), never a hang (the two option loops run
    out of input before they run out of fuel). -/
theorem dhcp_process_total (cfg : Dhcp4Srv.Cfg) (s : State) (now : Nat) (rx : Rx) (p : Bytes) :
    ∃ r, processRaw cfg s now rx p = .ok r := by
  obtain ⟨d, hd⟩ := decode_ok now rx p
  cases d with
  | some op => exact ⟨_, processRaw_some cfg s hd⟩
  | none =>
    obtain ⟨ret, forged, h⟩ := processRaw_none cfg s hd
    exact ⟨_, h⟩

/-- the same, in the words of C08 -/
theorem dhcp_process_never_panics_or_hangs (cfg : Dhcp4Srv.Cfg) (s : State) (now : Nat) (rx : Rx) (p : Bytes) :
    processRaw cfg s now rx p ≠ .panic ∧ processRaw cfg s now rx p ≠ .hang ∧ (processRaw cfg s now rx p).safe = true := by
  obtain ⟨r, h⟩ := dhcp_process_total cfg s now rx p
  rw [h]
  exact ⟨(by intro h'; cases h'), (by intro h'; cases h'), rfl⟩

/-- the byte decoder alone is total -/
theorem dhcp_decode_total (now : Nat) (rx : Rx) (p : Bytes) : ∃ o, decode now rx p = .ok o :=
  decode_ok now rx p

example : ∃ r, processRaw Props.C11.cfgEx (init Props.C11.cfgEx) 0 ⟨0, 67, 0⟩ [] = .ok r ∧ r.ret = some .frameLen :=
  ⟨_, rfl, rfl⟩

/-! ### 2. `processRaw = step ∘ decode` -/

/-- **The handler on bytes is the server machine on the decoded message.**  For every payload: either the bytes decode
    to a message operation `op` (DISCOVER / REQUEST / DECLINE / RELEASE with the fields read off the bytes), and then
    the call returns nil, the new state is THE outcome of `Model.Dhcp4Srv.step` on `op` and the replies written are that
    outcome's replies that fit the request buffer; or they decode to nothing, and then the server state is unchanged
    and no reply is written. -/
theorem dhcp_raw_step (cfg : Dhcp4Srv.Cfg) (s : State) (now : Nat) (rx : Rx) (p : Bytes) :
    ∃ r, processRaw cfg s now rx p = .ok r ∧
      ((∃ op, decode now rx p = .ok (some op) ∧ isMsgOp op = true ∧ step cfg s op = [handleMsg cfg s op] ∧
          r.ret = none ∧ r.state = (handleMsg cfg s op).1 ∧ r.replies = (handleMsg cfg s op).2.filter (fits rx.cap))
        ∨ (decode now rx p = .ok none ∧ r.state = s ∧ r.replies = [])) := by
  obtain ⟨d, hd⟩ := decode_ok now rx p
  cases d with
  | some op =>
    exact ⟨_, processRaw_some cfg s hd, Or.inl ⟨op, hd, decode_isMsg hd, step_msg cfg s op (decode_isMsg hd), rfl, rfl, rfl⟩⟩
  | none =>
    obtain ⟨ret, forged, h⟩ := processRaw_none cfg s hd
    exact ⟨_, h, Or.inr ⟨hd, rfl, rfl⟩⟩

/-- **which bytes are served, and as what**: a payload reaches a server handler only if `IsValid` accepts it, the
    datagram is not addressed to the client port, and the LAST option 53 the parser reads has exactly one byte `t` ∈
    {1, 3, 4, 7}; the handler then works on hardware address = bytes 28..33, transaction id = bytes 4..7, client
    identifier / requested address / server identifier = options 61 / 50 / 54 as parsed, IP source = the datagram's. -/
theorem served_payload {now : Nat} {rx : Rx} {p : Bytes} {op : Op} (h : decode now rx p = .ok (some op)) :
    dhcpValid p = .ok () ∧ 240 ≤ p.length ∧ rx.dstPort ≠ 68 ∧
      ∃ o t m, parseOptions p = .ok o ∧ optGet o 53 = some [t] ∧
        ((t = 1 ∧ op = .discover now m) ∨ (t = 3 ∧ op = .request now m) ∨ (t = 4 ∧ op = .decline m) ∨ (t = 7 ∧ op = .release m)) ∧
        m.chaddr = (p.take 34).drop 28 ∧ m.xid = (p.take 8).drop 4 ∧ m.srcIP = rx.srcIP ∧
        m.cidOpt = optGet o 61 ∧ m.reqOpt = optGet o 50 ∧ m.srvOpt = optGet o 54 := by
  obtain ⟨hv, hp, o, t, m, ho, ht, hm, hc⟩ := classify_server (decode_some h)
  have hl := PV.Lemmas.dhcpValid_len p hv
  obtain ⟨m', hm', h1, h2, h3, h4, h5, h6⟩ := msgOf_ok rx p o hl
  rw [hm] at hm'
  cases hm'
  exact ⟨hv, hl, hp, o, t, m, ho, ht, hc, h1, h2, h3, h4, h5, h6⟩

/-! ### 3. what the dispatcher ignores, and what it does not check -/

/-- a payload `IsValid` rejects (shorter than 240 bytes, op code other than 1 / 2, hlen other than 6, fewer than two
    option bytes, an option running past the end) is answered with that error; nothing else happens -/
theorem invalid_payload_rejected (cfg : Dhcp4Srv.Cfg) (s : State) (now : Nat) (rx : Rx) (p : Bytes) (e : Err)
    (h : dhcpValid p = .err e) :
    processRaw cfg s now rx p = .ok { ret := some e, state := s, replies := [], forged := false } := by
  unfold processRaw classify
  rw [h]
  rfl

/-- BOOTP without a DHCP message type (no option 53, or one whose value is not exactly one byte) sent to the server
    port: `ErrParseFrame`, the lease table is not consulted -/
theorem bootp_without_type_rejected (cfg : Dhcp4Srv.Cfg) (s : State) (now : Nat) (rx : Rx) (p : Bytes) (o : Opts)
    (hv : dhcpValid p = .ok ()) (hp : rx.dstPort ≠ 68) (ho : parseOptions p = .ok o)
    (ht : ∀ t, optGet o 53 ≠ some [t]) :
    processRaw cfg s now rx p = .ok { ret := some .parseFrame, state := s, replies := [], forged := false } := by
  have hc : classify now rx p = .ok (.rejected .parseFrame) := by
    unfold classify
    rw [hv]
    simp only []
    rw [if_neg (by simpa using hp), ho]
    simp only [Outcome.bind_ok]   -- the match on option 53 falls to its default by `ht`
    rfl
  unfold processRaw
  rw [hc]
  rfl

/-- a datagram to the CLIENT port (server → client direction: OFFER / ACK / NAK of another server, or anything else)
    never changes the server state and is never answered, in every mode -/
theorem to_client_port_is_noop (cfg : Dhcp4Srv.Cfg) (s : State) (now : Nat) (rx : Rx) (p : Bytes) (r : Result)
    (hp : rx.dstPort = 68) (h : processRaw cfg s now rx p = .ok r) : r.state = s ∧ r.replies = [] := by
  obtain ⟨d, hd⟩ := decode_ok now rx p
  cases d with
  | some op => exact absurd hp (served_payload hd).2.2.1
  | none =>
    obtain ⟨ret, forged, h'⟩ := processRaw_none cfg s hd
    rw [h'] at h
    cases h
    exact ⟨rfl, rfl⟩

/-- the message types the switch has no handler for — OFFER (2), ACK (5), NAK (6), INFORM (8) sent to the server port,
    and every value outside 1..8 — leave the server state alone and are not answered -/
theorem unhandled_types_ignored (cfg : Dhcp4Srv.Cfg) (s : State) (now : Nat) (rx : Rx) (p : Bytes) (o : Opts) (t : UInt8)
    (r : Result) (ho : parseOptions p = .ok o) (h53 : optGet o 53 = some [t]) (ht : t ≠ 1 ∧ t ≠ 3 ∧ t ≠ 4 ∧ t ≠ 7)
    (h : processRaw cfg s now rx p = .ok r) : r.state = s ∧ r.replies = [] := by
  obtain ⟨d, hd⟩ := decode_ok now rx p
  cases d with
  | some op =>
    obtain ⟨_, _, _, o', t', m, ho', h53', hc, _⟩ := served_payload hd
    rw [ho] at ho'
    cases ho'
    rw [h53] at h53'
    cases h53'
    rcases hc with ⟨e, _⟩ | ⟨e, _⟩ | ⟨e, _⟩ | ⟨e, _⟩
    · exact absurd e ht.1
    · exact absurd e ht.2.1
    · exact absurd e ht.2.2.1
    · exact absurd e ht.2.2.2
  | none =>
    obtain ⟨ret, forged, h'⟩ := processRaw_none cfg s hd
    rw [h'] at h
    cases h
    exact ⟨rfl, rfl⟩

/-- a DISCOVER in the option area of a message whose op code says BOOTREPLY, with a wrong magic cookie, sent to port 67 -/
def replyOpDiscover : Bytes :=
  [2, 1, 6, 0, 0xa0, 0, 0, 1] ++ List.replicate 20 0 ++ [0, 2, 3, 4, 5, 1] ++ List.replicate 202 0 ++ [1, 2, 3, 4] ++ [53, 1, 1, 255]

set_option maxRecDepth 20000 in
/-- **not checked by the code** (remark, as a theorem on a witness): the BOOTP op code only has to be 1 or 2 and the
    magic cookie is never compared — a BOOTREPLY with cookie 01 02 03 04 carrying message type DISCOVER is served as a
    DISCOVER of 00:02:03:04:05:01 -/
theorem op_code_not_checked :
    (match decode 0 ⟨0, 67, 1472⟩ replyOpDiscover with
     | .ok (some (.discover _ m)) => m.chaddr == [0, 2, 3, 4, 5, 1] && m.xid == [0xa0, 0, 0, 1]
     | _ => false) = true := by
  decide

/-! ### 4. the reply is written only where it fits -/

/-- **a reply is written only into a buffer that holds it**: every reply of `processRaw` fits the request payload's
    capacity — at least 300 bytes, and header (240) + options + end marker within it.  (Before fix 4da685d the end
    marker of a reply that did not fit was written out of range: a panic of the packet loop.) -/
theorem replies_have_room (cfg : Dhcp4Srv.Cfg) (s : State) (now : Nat) (rx : Rx) (p : Bytes) (res : Result) (r : Reply)
    (h : processRaw cfg s now rx p = .ok res) (hr : r ∈ res.replies) : 300 ≤ rx.cap ∧ 240 + optsLen r.opts < rx.cap := by
  obtain ⟨d, hd⟩ := decode_ok now rx p
  cases d with
  | some op =>
    rw [processRaw_some cfg s hd] at h
    cases h
    have := (List.mem_filter.1 hr).2
    simpa [fits] using this
  | none =>
    obtain ⟨ret, forged, h'⟩ := processRaw_none cfg s hd
    rw [h'] at h
    cases h
    cases hr

/-! ### 5. C11 / C12 over raw histories -/

/-- `(s, L)` is reached from the empty server by a history of received PAYLOADS (arbitrary byte strings with
    arbitrary addressing and buffer capacity) and environment operations; `L` is the ledger of an observer of the
    frames actually written -/
def ReachRaw (cfg : Dhcp4Srv.Cfg) (s : State) (L : Ledger) : Prop :=
  ∃ evs, (∀ e, e ∈ evs → e.wf = true) ∧ (s, L) ∈ runRawL cfg (init cfg) [] evs

/-- **a raw history is an abstract history**: whatever the bytes were, the state was reached by the sequence of decoded
    operations, and the observer of the raw history knows a subset of the acknowledgements of the abstract one -/
theorem raw_reach {cfg : Dhcp4Srv.Cfg} {s : State} {L : Ledger} (h : ReachRaw cfg s L) :
    ∃ L', Reach cfg s L' ∧ ∀ b, b ∈ L → b ∈ L' := by
  obtain ⟨evs, _, h⟩ := h
  obtain ⟨L', h1, h2⟩ := runRawL_sub cfg evs (init cfg) [] [] (fun _ h => h) (s, L) h
  exact ⟨L', ⟨opsOf evs, h1⟩, h2⟩

/-- the states of a raw history are exactly the states of the abstract history of its decoded operations -/
theorem raw_run_eq (cfg : Dhcp4Srv.Cfg) (evs : List RawEv) (s : State) : runRaw cfg s evs = run cfg s (opsOf evs) :=
  runRaw_eq_run cfg evs s

/-- **the lease-table invariant holds after any sequence of arbitrary byte strings** (from any state that has it) -/
theorem raw_inv_preserved (cfg : Dhcp4Srv.Cfg) (evs : List RawEv) (s s' : State) (h : Inv cfg s)
    (hs : s' ∈ runRaw cfg s evs) : Inv cfg s' := by
  rw [raw_run_eq] at hs
  exact Props.C11.inv_reachable cfg _ s h s' hs

theorem raw_inv {cfg : Dhcp4Srv.Cfg} {s : State} {L : Ledger} (h : ReachRaw cfg s L) : Inv cfg s := by
  obtain ⟨L', hR, _⟩ := raw_reach h
  exact (Props.C11.reach_ok hR).1

/-- **C11 (a) over raw histories: no address is acknowledged to two client identifiers at once** -/
theorem raw_ack_unique {cfg : Dhcp4Srv.Cfg} {s : State} {L : Ledger} (h : ReachRaw cfg s L) : Unique L := by
  obtain ⟨L', hR, hsub⟩ := raw_reach h
  intro b1 b2 h1 h2 e
  exact Props.C11.ack_unique hR b1 b2 (hsub _ h1) (hsub _ h2) e

/-- a reply written for a payload is a reply of the abstract step on the decoded message -/
theorem raw_reply_of_step {cfg : Dhcp4Srv.Cfg} {s : State} {now : Nat} {rx : Rx} {p : Bytes} {res : Result} {r : Reply}
    (hp : processRaw cfg s now rx p = .ok res) (hr : r ∈ res.replies) :
    ∃ op m, decode now rx p = .ok (some op) ∧ Props.C11.msgOf op = some m ∧ m.chaddr = (p.take 34).drop 28 ∧
      m.xid = (p.take 8).drop 4 ∧ handleMsg cfg s op ∈ step cfg s op ∧ r ∈ (handleMsg cfg s op).2 := by
  obtain ⟨d, hd⟩ := decode_ok now rx p
  cases d with
  | some op =>
    rw [processRaw_some cfg s hd] at hp
    cases hp
    obtain ⟨m, hm, h1, h2, _⟩ := decode_msg hd
    refine ⟨op, m, hd, hm, h1, h2, ?_, (List.mem_filter.1 hr).1⟩
    rw [step_msg cfg s op (decode_isMsg hd)]
    exact List.mem_singleton.2 rfl
  | none =>
    obtain ⟨ret, forged, h'⟩ := processRaw_none cfg s hd
    rw [h'] at hp
    cases hp
    cases hr

/-- **C11 (c) over raw histories: after any sequence of arbitrary byte strings, whatever byte string comes next, no
    OFFER and no ACK carries the host's address, the router's, the network or broadcast address of, or an address
    outside, the subnet selected by the capture state of the client whose hardware address is bytes 28..33** -/
theorem raw_never_reserved {cfg : Dhcp4Srv.Cfg} {s : State} {L : Ledger} (h : ReachRaw cfg s L) (now : Nat) (rx : Rx)
    (p : Bytes) (res : Result) (r : Reply) (hp : processRaw cfg s now rx p = .ok res) (hr : r ∈ res.replies)
    (ht : r.typ ≠ .nak) :
    ¬ Reserved cfg (clientNet cfg (isCaptured s ((p.take 34).drop 28))) r.yiaddr := by
  obtain ⟨L', hR, _⟩ := raw_reach h
  obtain ⟨op, m, _, hm, hc, _, ho, hr'⟩ := raw_reply_of_step hp hr
  rw [← hc]
  exact Props.C11.never_reserved hR op m hm _ ho r hr' ht

/-- **C11 (b) over raw histories: an address is never offered while an observer of the raw history holds it
    acknowledged to a different client identifier** -/
theorem raw_offer_not_acked {cfg : Dhcp4Srv.Cfg} {s : State} {L : Ledger} (h : ReachRaw cfg s L) (now : Nat) (rx : Rx)
    (p : Bytes) (res : Result) (r : Reply) (hp : processRaw cfg s now rx p = .ok res) (hr : r ∈ res.replies)
    (ht : r.typ = .offer) :
    ∃ op m, decode now rx p = .ok (some op) ∧ Props.C11.msgOf op = some m ∧ FreeFor L (clientId m) r.yiaddr := by
  obtain ⟨L', hR, hsub⟩ := raw_reach h
  obtain ⟨op, m, hd, hm, _, _, ho, hr'⟩ := raw_reply_of_step hp hr
  refine ⟨op, m, hd, hm, ?_⟩
  intro b hb hbi
  exact Props.C11.offer_not_acked hR op m hm _ ho r hr' ht b (hsub _ hb) hbi

/-- **C11 (a') over raw histories: an ACK is never sent for an address acknowledged to a different client identifier** -/
theorem raw_ack_not_acked_elsewhere {cfg : Dhcp4Srv.Cfg} {s : State} {L : Ledger} (h : ReachRaw cfg s L) (now : Nat)
    (rx : Rx) (p : Bytes) (res : Result) (r : Reply) (hp : processRaw cfg s now rx p = .ok res) (hr : r ∈ res.replies)
    (ht : r.typ = .ack) :
    ∃ op m, decode now rx p = .ok (some op) ∧ Props.C11.msgOf op = some m ∧ FreeFor L (clientId m) r.yiaddr := by
  obtain ⟨L', hR, hsub⟩ := raw_reach h
  obtain ⟨op, m, hd, hm, _, _, ho, hr'⟩ := raw_reply_of_step hp hr
  refine ⟨op, m, hd, hm, ?_⟩
  intro b hb hbi
  exact Props.C11.ack_not_acked_elsewhere hR op m hm _ ho r hr' ht b (hsub _ hb) hbi

/-- **C12 (a) over raw histories: every OFFER / ACK written for any byte string conforms** — address inside the subnet
    selected by the capture state of the client (hardware address = bytes 28..33), that subnet's router, DNS server,
    mask, our server identifier, the lease time, the transaction id (bytes 4..7) and hardware address of the request -/
theorem raw_reply_conforms {cfg : Dhcp4Srv.Cfg} {s : State} {L : Ledger} (h : ReachRaw cfg s L) (now : Nat) (rx : Rx)
    (p : Bytes) (res : Result) (r : Reply) (hp : processRaw cfg s now rx p = .ok res) (hr : r ∈ res.replies)
    (ht : r.typ ≠ .nak) :
    ∃ m, Conforms cfg (isCaptured s ((p.take 34).drop 28)) m r ∧ m.chaddr = (p.take 34).drop 28 ∧ m.xid = (p.take 8).drop 4 := by
  obtain ⟨L', hR, _⟩ := raw_reach h
  obtain ⟨op, m, _, hm, hc, hx, ho, hr'⟩ := raw_reply_of_step hp hr
  refine ⟨m, ?_, hc, hx⟩
  rw [← hc]
  exact Props.C12.reply_conforms hR op m hm _ ho r hr' ht

/-- **C12 (b, c) over raw histories: an ACK is written only for bytes that decode to an honourable REQUEST, and it
    carries the address that REQUEST names** -/
theorem raw_ack_confirms {cfg : Dhcp4Srv.Cfg} {s : State} {L : Ledger} (h : ReachRaw cfg s L) (now : Nat) (rx : Rx)
    (p : Bytes) (res : Result) (r : Reply) (hp : processRaw cfg s now rx p = .ok res) (hr : r ∈ res.replies)
    (ht : r.typ = .ack) :
    ∃ m, decode now rx p = .ok (some (.request now m)) ∧ Props.C12.Honourable cfg s now m ∧ r.yiaddr = reqIPOf m := by
  obtain ⟨L', hR, _⟩ := raw_reach h
  obtain ⟨op, m, hd, hm, _, _, _, hr'⟩ := raw_reply_of_step hp hr
  obtain ⟨_, _, _, o, t, m', _, _, hc, _⟩ := served_payload hd
  rcases hc with ⟨_, e⟩ | ⟨_, e⟩ | ⟨_, e⟩ | ⟨_, e⟩
  · -- DISCOVER: only offers
    subst e
    exfalso
    rcases discover_outcome cfg s now m' with ⟨cur, e⟩ | ⟨s1, ip, _, _, _, e, _⟩
    · simp only [handleMsg] at hr'; rw [e] at hr'; cases hr'
    · simp only [handleMsg] at hr'; rw [e] at hr'
      simp only [List.mem_singleton] at hr'
      rw [hr'] at ht
      cases ht
  · subst e
    obtain ⟨hh, hy⟩ := Props.C12.ack_confirms hR now m' r hr' ht
    exact ⟨m', hd, hh, hy⟩
  · subst e
    exfalso
    rcases decline_outcome cfg s m' with e | e <;> simp only [handleMsg] at hr' <;> rw [e] at hr' <;> cases hr'
  · subst e
    exfalso
    simp only [handleMsg, release] at hr'
    cases hr'

/-! ### non-vacuity: a raw history that reaches an acknowledged lease -/

/-- DISCOVER of 00:02:03:04:05:01, transaction a0000001 -/
def pDiscover : Bytes :=
  [1, 1, 6, 0, 0xa0, 0, 0, 1] ++ List.replicate 20 0 ++ [0, 2, 3, 4, 5, 1] ++ List.replicate 202 0 ++ [99, 130, 83, 99] ++ [53, 1, 1, 255]

/-- REQUEST (selecting) naming 0.0.0.2 (the first free address of `cfgEx`) and our server 0.0.0.9 -/
def pRequest : Bytes :=
  [1, 1, 6, 0, 0xa0, 0, 0, 1] ++ List.replicate 20 0 ++ [0, 2, 3, 4, 5, 1] ++ List.replicate 202 0 ++ [99, 130, 83, 99]
    ++ [53, 1, 3, 50, 4, 0, 0, 0, 2, 54, 4, 0, 0, 0, 9, 255]

def rxEx : Rx := ⟨0, 67, 1472⟩

set_option maxRecDepth 20000 in
/-- the two payloads from the empty server: an OFFER, then an ACK of the offered address; the garbage and the truncated
    message in between change nothing -/
example :
    (runRawL Props.C11.cfgEx (init Props.C11.cfgEx) []
        [.rx 0 rxEx pDiscover, .rx 0 rxEx [1, 2, 3], .rx 0 rxEx (pDiscover.take 243), .rx 0 rxEx pRequest]).map
      (fun sl => (sl.1.table.map (fun e => (e.2.state, e.2.ip)), sl.2.map (fun b => b.ip)))
      = [([(.allocated, some 2)], [2])] := by
  decide

end PV.Props.ComposeDhcp
