/-
  C20 tie (F11) — the BODIES of the `fastlog.Line` renderers, translated from the Go AST into Lean source on every run
  (tools/goextract/loops.go → Gen/Loops.lean; loops as fuel recursion, `int` as `Int`, the line as
  `GLine {buf, idx : Int}`), are equal to the hand-written functions of Model/Fastlog.lean that C20's theorems are
  about: for every model line `l` (2048-byte buffer, cursor `l.idx`) and every argument,
  `gen<F> (G l) args = liftG (Model.<f> l args)` — same buffer, same cursor, same panics, never out of fuel.

  Go's `int` cursor and the model's `Nat` cursor: `l.index--` is the only statement that could separate them.  In
  `ByteArray`, `StringArray` and `IPArray` it is directly followed by `appendByte`, so at cursor 0 Go stores at index −1
  (panic) where the model's `decIdx` panics one step earlier — the same outcome (`dec_append`).  In `appendIP6` it is the
  last statement; there `ip6Loop_pos` proves that the cursor is ≥ 1 whenever the decrement is executed (the last group was
  just written with its ':'), so the ties need no hypothesis on the cursor.  `String` steps back only at cursor 2048.
-/
import PacketVerif.Lemmas.FastlogLoops
namespace PV.Props.C20Tie
open PV PV.Model.LoopGo PV.Gen.Loops PV.Model.Fastlog PV.Lemmas.LoopGo PV.Lemmas.FastlogLoops

/-- the array length of `Line.buffer` in the Go type is the model's `bufSize` -/
theorem bufSize_tie : genLineBufSize = bufSize := rfl

/-- `var hexAscii = []byte{…}` is the model's table -/
theorem hexAscii_tie : genTbl_hexAscii = hexAscii := by decide

/-- **appendByte** -/
theorem appendByte_tie (l : Line) (v : UInt8) : genLine_appendByte (G l) v = liftG (appendByte l v) :=
  Lemmas.FastlogLoops.appendByte_tie l v

/-- **printInt**: both digit loops (count, then store backwards) -/
theorem printInt_tie (l : Line) (v : UInt32) : genLine_printInt (G l) v = liftG (printInt l v) := by
  unfold genLine_printInt printInt
  by_cases h0 : v = 0
  · subst h0
    have := Lemmas.FastlogLoops.appendByte_tie l 0x30
    unfold genLine_appendByte at this
    simp only [if_true] 
    rw [← this]
    simp only [G_buf, G_idx]
    cases setI l.buf.1 (l.idx : Int) 48 <;> rfl
  · have h1 := printInt_loop1_eq (v.toNat + 1) 0 v (by omega)
    have h2 := printInt_loop2_eq (v.toNat + 1) l.buf ((l.idx : Int) + (0 + (countDigits v : Int))) v
      (l.idx + countDigits v) (by omega)
    have hc : (((l.idx + countDigits v : Nat) : Int) - 1) = (l.idx : Int) + (0 + (countDigits v : Int)) - 1 := by omega
    rw [hc] at h2
    simp only [h0, if_false, h1, Outcome.bind_ok, G_buf, G_idx]
    cases hp : printLoop l.buf (l.idx + countDigits v) v with
    | ok b' =>
      rw [hp] at h2; obtain ⟨i', h2⟩ := h2
      simp only [h2, Outcome.bind_ok, Outcome.pure_eq, liftG_ok, G]
      congr 2; omega
    | panic => rw [hp] at h2; simp only [h2]; rfl
    | err e => rw [hp] at h2; exact h2.elim
    | hang => rw [hp] at h2; exact h2.elim

/-- the common head `' ' name '='` followed by a continuation -/
theorem head_step (l : Line) (name : Bytes) (k : GLine → Outcome GLine) (k' : Line → Outcome Line)
    (h : ∀ l', k (G l') = liftG (k' l')) :
    (do let l1 ← genLine_appendByte (G l) (32 : UInt8)
        let (t1, t2) ← copyI l1.buf l1.idx (l1.buf.length : Int) name
        let l2 : GLine := { l1 with buf := t1 }
        let l3 : GLine := { l2 with idx := (l2.idx + t2) }
        let l4 ← genLine_appendByte l3 (61 : UInt8)
        k l4) = liftG (head l name >>= k') := by
  unfold head
  simp only [bind_assoc]
  rw [appendByte_tie]; apply liftG_bind; intro l1
  apply copy_step; intro l2
  simp only [G_upd]
  rw [appendByte_tie]; exact liftG_bind _ _ _ h

/-- **Uint8** (`' ' name '='` then `printInt`) -/
theorem uint8_tie (l : Line) (name : Bytes) (v : UInt8) : genLine_Uint8 (G l) name v = liftG (uint8 l name v) :=
  head_step l name _ _ (fun l' => printInt_tie l' v.toUInt32)

/-- **Uint16** -/
theorem uint16_tie (l : Line) (name : Bytes) (v : UInt16) : genLine_Uint16 (G l) name v = liftG (uint16 l name v) :=
  head_step l name _ _ (fun l' => printInt_tie l' v.toUInt32)

/-- **Uint32** -/
theorem uint32_tie (l : Line) (name : Bytes) (v : UInt32) : genLine_Uint32 (G l) name v = liftG (uint32 l name v) :=
  head_step l name _ _ (fun l' => printInt_tie l' v)

theorem genWriteHex_eq (g : GLine) (v : UInt8) :
    genLine_writeHex g v = (genLine_appendByte g (nibbleChar (v >>> 4)) >>= fun g =>
      genLine_appendByte g (nibbleChar (v &&& 15))) := by
  unfold genLine_writeHex nibbleChar
  by_cases h1 : v >>> 4 < 10 <;> by_cases h2 : v &&& 15 < 10 <;> simp [h1, h2]

/-- **writeHex** (two nibbles, `x < 10 ? x + '0' : x%10 + 'a'`) -/
theorem writeHex_tie (l : Line) (v : UInt8) : genLine_writeHex (G l) v = liftG (writeHex l v) := by
  rw [genWriteHex_eq]; unfold writeHex
  rw [appendByte_tie]; exact liftG_bind _ _ _ (fun l' => appendByte_tie l' _)

/-- **writeHexNoleadingZeros** (table lookups in `hexAscii`, high nibble only when non-zero) -/
theorem writeHexNLZ_tie (l : Line) (v : UInt8) :
    genLine_writeHexNoleadingZeros (G l) v = liftG (writeHexNLZ l v) := by
  unfold genLine_writeHexNoleadingZeros writeHexNLZ hexAt
  simp only [hexAscii_tie, idxI_natCast]
  by_cases hx : v >>> 4 = 0
  · simp only [hx, ne_eq, not_true_eq_false, if_false, bne_self_eq_false, Bool.false_eq_true, Outcome.pure_eq,
      Outcome.bind_ok]
    apply val_step; intro t
    exact appendByte_tie l t
  · have hb : ((v >>> 4) != 0) = true := by simp [hx]
    simp only [ne_eq, hx, not_false_eq_true, if_true, hb, bind_assoc]
    apply val_step; intro t
    rw [appendByte_tie]; apply liftG_bind; intro l1
    apply val_step; intro t2
    exact appendByte_tie l1 t2

/-- **MAC** (six `writeHex` separated by ':', or "nil" for any other length) -/
theorem mac_tie (l : Line) (name v : Bytes) : genLine_MAC (G l) name v = liftG (macF l name v) := by
  unfold genLine_MAC macF
  apply head_step; intro l0
  by_cases h6 : v.length = 6
  · have h6' : ((v.length : Nat) : Int) = 6 := by omega
    simp only [h6, if_true, idxI_0, idxI_1, idxI_2, idxI_3, idxI_4, idxI_5]
    apply val_step; intro t
    rw [writeHex_tie]; apply liftG_bind; intro l1
    rw [appendByte_tie]; apply liftG_bind; intro l2
    apply val_step; intro t
    rw [writeHex_tie]; apply liftG_bind; intro l3
    rw [appendByte_tie]; apply liftG_bind; intro l4
    apply val_step; intro t
    rw [writeHex_tie]; apply liftG_bind; intro l5
    rw [appendByte_tie]; apply liftG_bind; intro l6
    apply val_step; intro t
    rw [writeHex_tie]; apply liftG_bind; intro l7
    rw [appendByte_tie]; apply liftG_bind; intro l8
    apply val_step; intro t
    rw [writeHex_tie]; apply liftG_bind; intro l9
    rw [appendByte_tie]; apply liftG_bind; intro l10
    apply val_step; intro t
    exact writeHex_tie l10 t
  · have h6' : ¬ ((v.length : Nat) : Int) = 6 := by omega
    simp only [h6, h6', if_false]
    exact copy_last l0 sNil

/-- **LF** -/
theorem lf_tie (l : Line) : genLine_LF (G l) = liftG (appendByte l cLF) := appendByte_tie l _

/-- **Label** (`' '` then the text) -/
theorem label_tie (l : Line) (name : Bytes) : genLine_Label (G l) name = liftG (label l name) := by
  unfold genLine_Label label
  rw [appendByte_tie]; apply liftG_bind; intro l1
  exact copy_last l1 name

/-- **Bytes** (head then the raw bytes) -/
theorem bytes_tie (l : Line) (name v : Bytes) : genLine_Bytes (G l) name v = liftG (bytesF l name v) := by
  unfold genLine_Bytes bytesF
  apply head_step; intro l1
  exact copy_last l1 v

/-- **Bool** (head then "true" / "false") -/
theorem bool_tie (l : Line) (name : Bytes) (v : Bool) : genLine_Bool (G l) name v = liftG (boolF l name v) := by
  unfold genLine_Bool boolF
  apply head_step; intro l1
  cases v
  · exact copy_last l1 sFalse
  · exact copy_last l1 sTrue

/-- **Uint8Hex** (`0x` and two `hexAscii` lookups) -/
theorem uint8Hex_tie (l : Line) (name : Bytes) (v : UInt8) :
    genLine_Uint8Hex (G l) name v = liftG (uint8Hex l name v) := by
  unfold genLine_Uint8Hex uint8Hex hexAt
  simp only [hexAscii_tie, idxI_natCast]
  apply head_step; intro l1
  rw [appendByte_tie]; apply liftG_bind; intro l2
  rw [appendByte_tie]; apply liftG_bind; intro l3
  apply val_step; intro t
  rw [appendByte_tie]; apply liftG_bind; intro l4
  apply val_step; intro t2
  exact appendByte_tie l4 t2

/-- **Uint16Hex** (`0x` and four `hexAscii` lookups) -/
theorem uint16Hex_tie (l : Line) (name : Bytes) (v : UInt16) :
    genLine_Uint16Hex (G l) name v = liftG (uint16Hex l name v) := by
  unfold genLine_Uint16Hex uint16Hex hexAt16
  simp only [hexAscii_tie, idxI_natCast]
  apply head_step; intro l1
  rw [appendByte_tie]; apply liftG_bind; intro l2
  rw [appendByte_tie]; apply liftG_bind; intro l3
  apply val_step; intro t
  rw [appendByte_tie]; apply liftG_bind; intro l4
  apply val_step; intro t2
  rw [appendByte_tie]; apply liftG_bind; intro l5
  apply val_step; intro t3
  rw [appendByte_tie]; apply liftG_bind; intro l6
  apply val_step; intro t4
  exact appendByte_tie l6 t4

/-- **String** (head, quote, text, step back one byte when the text filled the buffer, quote) -/
theorem string_tie (l : Line) (name value : Bytes) :
    genLine_String (G l) name value = liftG (string l name value) := by
  unfold genLine_String string
  apply head_step; intro l1
  rw [appendByte_tie]; apply liftG_bind; intro l2
  apply copy_step; intro l3
  simp only [G_upd]
  have hi : (G l2).idx + ((l3.idx : Int) - (l2.idx : Int)) = (l3.idx : Int) := by simp only [G_idx]; omega
  rw [hi]
  by_cases h : l3.idx = bufSize
  · have h' : (l3.idx : Int) = 2048 := by unfold bufSize at h; omega
    have hg : ({ buf := l3.buf.1, idx := (l3.idx : Int) - 1 } : GLine) = G ⟨l3.buf, l3.idx - 1⟩ := by
      unfold bufSize at h; simp only [G]; congr 1; omega
    rw [if_pos h', if_pos h, hg]
    exact appendByte_tie _ _
  · have h' : ¬ (l3.idx : Int) = 2048 := by unfold bufSize at h; omega
    rw [if_neg h', if_neg h]
    exact appendByte_tie _ _

/-- the range loop of `ByteArray` from position `pre.length` on renders the remaining bytes -/
theorem byteArray_loop_eq : ∀ (rest pre : Bytes) (l : Line) (fuel : Nat), rest.length < fuel →
    genLine_ByteArray_loop1 (pre ++ rest) fuel (pre.length : Int) (G l) = liftG (byteArrayLoop l rest) := by
  intro rest
  induction rest with
  | nil =>
    intro pre l fuel h
    cases fuel with
    | zero => simp at h
    | succ f =>
      rw [genLine_ByteArray_loop1]
      simp [byteArrayLoop]
  | cons v rest ih =>
    intro pre l fuel h
    cases fuel with
    | zero => simp at h
    | succ f =>
      rw [genLine_ByteArray_loop1, byteArrayLoop]
      have hc : (pre.length : Int) < ((pre ++ v :: rest).length : Int) := by simp; omega
      simp only [hc, if_true, idxI_append_at, Outcome.bind_ok]
      rw [writeHex_tie]; apply liftG_bind; intro l1
      rw [appendByte_tie]; apply liftG_bind; intro l2
      have := ih (pre ++ [v]) l2 f (by simp at h; omega)
      simp only [List.append_assoc, List.singleton_append, List.length_append, List.length_singleton] at this
      rw [← this]; congr 1

theorem G_idx_upd (l l' : Line) : (G l).idx + ((l'.idx : Int) - (l.idx : Int)) = (l'.idx : Int) := by
  simp only [G_idx]; omega
theorem G_idx_upd' (l l' : Line) : (l.idx : Int) + ((l'.idx : Int) - (l.idx : Int)) = (l'.idx : Int) := by omega
theorem G_mk (l : Line) : ({ buf := l.buf.1, idx := (l.idx : Int) } : GLine) = G l := rfl

/-- `l.index--` directly followed by `appendByte`: at cursor 0 Go's index becomes −1 and the store panics; the model's
    `decIdx` panics one step earlier — the same outcome -/
theorem dec_append (l : Line) (v : UInt8) :
    genLine_appendByte { buf := (G l).buf, idx := (G l).idx - 1 } v = liftG (decIdx l >>= fun l => appendByte l v) := by
  unfold decIdx
  by_cases h : l.idx = 0
  · simp [h, genLine_appendByte, setI]
  · have hg : ({ buf := (G l).buf, idx := (G l).idx - 1 } : GLine) = G ⟨l.buf, l.idx - 1⟩ := by
      simp only [G]; congr 1; omega
    rw [if_neg h, hg]; exact appendByte_tie _ _

theorem dec_append_step (l : Line) (v : UInt8) (k : GLine → Outcome GLine) (k' : Line → Outcome Line)
    (h : ∀ l', k (G l') = liftG (k' l')) :
    (genLine_appendByte { buf := (G l).buf, idx := (G l).idx - 1 } v >>= k) =
      liftG (decIdx l >>= fun l => appendByte l v >>= k') := by
  rw [dec_append, ← bind_assoc]; exact liftG_bind _ _ _ h

theorem baBody_step (l : Line) (name value : Bytes) (tr : Bool) :
    (do let l ← genLine_appendByte (G l) (32 : UInt8)
        let (t4, t5) ← copyI l.buf l.idx (l.buf.length : Int) name
        let l : GLine := { l with buf := t4 }
        let l : GLine := { l with idx := (l.idx + t5) }
        let (t6, t7) ← copyI l.buf l.idx (l.buf.length : Int) ([61, 91] : Bytes)
        let l : GLine := { l with buf := t6 }
        let l : GLine := { l with idx := (l.idx + t7) }
        let k1 : Int := (0 : Int)
        let l ← genLine_ByteArray_loop1 value (value.length + 1) k1 l
        let l ← (do
            if ((value.length : Int) > (0 : Int)) then do
              let l : GLine := { l with idx := (l.idx - (1 : Int)) }
              pure l
            else do
              pure l)
        let l ← genLine_appendByte l (93 : UInt8)
        let l ← (do
            if (tr = true) then do
              let l : GLine := { l with idx := (2047 : Int) }
              pure l
            else do
              pure l)
        pure l) = liftG (byteArrayBody l name value tr) := by
  unfold byteArrayBody
  rw [appendByte_tie]; apply liftG_bind; intro l1
  apply copy_step; intro l2
  simp only [G_idx_upd]
  apply copy_step l2; intro l3
  simp only [G_idx_upd', G_mk]
  have hl := byteArray_loop_eq value [] l3 (value.length + 1) (by omega)
  simp only [List.nil_append, List.length_nil, Int.natCast_zero] at hl
  rw [hl]; apply liftG_bind; intro l4
  by_cases hv : value.length > 0
  · have hv' : ((value.length : Nat) : Int) > 0 := by omega
    rw [if_pos hv, if_pos hv']
    simp only [Outcome.pure_eq, Outcome.bind_ok]
    apply dec_append_step; intro l5
    cases tr <;> rfl
  · have hv' : ¬ ((value.length : Nat) : Int) > 0 := by omega
    rw [if_neg hv, if_neg hv']
    simp only [Outcome.pure_eq, Outcome.bind_ok]
    rw [appendByte_tie]; apply liftG_bind; intro l5
    cases tr <;> rfl

/-- `copy(l.buffer[cap-10:], "TRUNCATED ")` never panics; both sides produce the same buffer -/
theorem copyI_trunc (b : Buf) : ∃ b' : Buf, ∃ n : Nat,
    copyTo b (bufSize - 10) bufSize sTruncated = .ok (b', n) ∧
    copyI b.1 (2038 : Int) (b.1.length : Int) [84, 82, 85, 78, 67, 65, 84, 69, 68, 32] = .ok (b'.1, (n : Int)) := by
  refine ⟨b.splice 2038 sTruncated, 10, ?_, ?_⟩
  · simp [copyTo, bufSize, sTruncated]
  · simp [copyI, b.2, bufSize, Buf.splice, splice, sTruncated]

/-- `value[:k]` -/
theorem sliceI_prefix (v : Bytes) (k : Int) :
    sliceI v 0 k = if k < 0 ∨ k > (v.length : Int) then .panic else .ok (v.take k.toNat) := by
  unfold sliceI
  by_cases h : k < 0 ∨ k > (v.length : Int)
  · have : ¬ ((0 : Int) ≤ 0 ∧ 0 ≤ k ∧ k ≤ (v.length : Int)) := by omega
    rw [if_pos h, if_neg this]
  · have : ((0 : Int) ≤ 0 ∧ 0 ≤ k ∧ k ≤ (v.length : Int)) := by omega
    rw [if_neg h, if_pos this]; simp

/-- **ByteArray** (truncation arithmetic, the "TRUNCATED " marker at the buffer end, the hex loop, the trailing-space
    step back, `]`, cursor parked at the last byte when truncated) -/
theorem byteArray_tie (l : Line) (name value : Bytes) :
    genLine_ByteArray (G l) name value = liftG (byteArray l name value) := by
  unfold genLine_ByteArray byteArray
  dsimp only [G_idx, G_buf]
  have hb : ((bufSize : Nat) : Int) = 2048 := rfl
  rw [hb]
  generalize (2048 : Int) - (l.idx : Int) - 1 - (name.length : Int) - 2 = rem
  by_cases h1 : rem ≤ (value.length : Int) * 3
  · rw [if_pos h1, if_pos h1]
    by_cases h2 : rem < 10
    · rw [if_pos h2, if_pos h2]; rfl
    · rw [if_neg h2, if_neg h2]
      obtain ⟨b', n, hc1, hc2⟩ := copyI_trunc l.buf
      rw [hc1, hc2, sliceI_prefix]
      simp only [Outcome.bind_ok]
      by_cases h3 : (rem - 10).tdiv 3 < 0 ∨ (rem - 10).tdiv 3 > (value.length : Int)
      · rw [if_pos h3, if_pos h3]; rfl
      · rw [if_neg h3, if_neg h3]
        exact baBody_step ⟨b', l.idx⟩ name _ true
  · rw [if_neg h1, if_neg h1]
    exact baBody_step l name value false

/-! ### appendIP6 -/

/-- the short-circuit test `ip[j*2] != 0x00 || ip[j*2+1] != 0x00` as the generated code evaluates it -/
theorem groupNonZero_gen (ip : Bytes) (n : Nat) :
    (do let t3 ← idxI ip (((n : Nat) : Int) * (2 : Int))
        (if (t3 ≠ (0 : UInt8)) then pure true else (do let t4 ← idxI ip ((((n : Nat) : Int) * (2 : Int)) + (1 : Int)); pure (decide ((t4 ≠ (0 : UInt8))))) : Outcome Bool)) =
      groupNonZero ip n := by
  have h1 : ((n : Nat) : Int) * 2 = ((n * 2 : Nat) : Int) := by omega
  have h2 : ((n : Nat) : Int) * 2 + 1 = ((n * 2 + 1 : Nat) : Int) := by omega
  rw [h2, h1, idxI_natCast, idxI_natCast]
  unfold groupNonZero
  cases idx ip (n * 2) with
  | ok a =>
    simp only [Outcome.bind_ok]
    by_cases ha : a = 0
    · simp only [ha, ne_eq, not_true_eq_false, if_false, bne_self_eq_false, Bool.false_eq_true]
      cases idx ip (n * 2 + 1) with
      | ok b => by_cases hb : b = 0 <;> simp [hb]
      | _ => rfl
    · simp [ha]
  | _ => rfl

theorem gnz_step {β} (ip : Bytes) (n : Nat) (K : Bool → Outcome β) :
    (do let t3 ← idxI ip (((n : Nat) : Int) * (2 : Int))
        let c1 ← ((if (t3 ≠ (0 : UInt8)) then pure true else (do let t4 ← idxI ip ((((n : Nat) : Int) * (2 : Int)) + (1 : Int)); pure (decide ((t4 ≠ (0 : UInt8))))) : Outcome Bool))
        K c1) = (groupNonZero ip n >>= K) := by
  rw [← groupNonZero_gen, bind_assoc]

/-- inner zero-run loop (`for ; j < 8; j++`), `j = 8 - k` -/
theorem ip6_loop2_eq (ip : Bytes) (i : Nat) : ∀ (k fuel : Nat) (s e : Int), k ≤ 8 → k < fuel →
    (genLine_appendIP6_loop2 ip (i : Int) fuel s e ((8 - k : Nat) : Int) >>= fun r => pure (r.1, r.2.1)) =
      zInner (groupNonZero ip) i k s e := by
  intro k
  induction k with
  | zero =>
    intro fuel s e _ hf
    cases fuel with
    | zero => omega
    | succ f => rw [genLine_appendIP6_loop2, zInner]; simp
  | succ k ih =>
    intro fuel s e hk hf
    cases fuel with
    | zero => omega
    | succ f =>
      rw [genLine_appendIP6_loop2, zInner]
      have hj : (((8 - (k + 1) : Nat) : Int) < 8) := by omega
      rw [if_pos hj]
      rw [gnz_step, bind_assoc]
      congr 1; funext c
      cases c with
      | true => rfl
      | false =>
        have hn : ((8 - (k + 1) : Nat) : Int) + 1 = ((8 - k : Nat) : Int) := by omega
        simp only [Bool.false_eq_true, if_false, hn]
        by_cases hz : ((8 - (k + 1) : Nat) : Int) - (i : Int) > 0 ∧ ((8 - (k + 1) : Nat) : Int) - (i : Int) > e - s
        · simp only [hz, and_self, if_true, Outcome.pure_eq, Outcome.bind_ok]
          exact ih f _ _ (by omega) (by omega)
        · simp only [hz, if_false, Outcome.pure_eq, Outcome.bind_ok]
          exact ih f _ _ (by omega) (by omega)

/-- outer zero-run loop (`for i := 0; i < 8; i++`), `i = 8 - k` -/
theorem ip6_loop1_eq (ip : Bytes) : ∀ (k fuel : Nat) (s e : Int), k ≤ 8 → k < fuel →
    genLine_appendIP6_loop1 ip fuel s e ((8 - k : Nat) : Int) = zOuter (groupNonZero ip) k s e := by
  intro k
  induction k with
  | zero =>
    intro fuel s e _ hf
    cases fuel with
    | zero => omega
    | succ f => rw [genLine_appendIP6_loop1, zOuter]; simp
  | succ k ih =>
    intro fuel s e hk hf
    cases fuel with
    | zero => omega
    | succ f =>
      rw [genLine_appendIP6_loop1, zOuter]
      have hj : (((8 - (k + 1) : Nat) : Int) < 8) := by omega
      rw [if_pos hj]
      have hfuel : ((8 : Int) - ((8 - (k + 1) : Nat) : Int)).toNat + 1 = k + 1 + 1 := by omega
      have hn : ((8 - (k + 1) : Nat) : Int) + 1 = ((8 - k : Nat) : Int) := by omega
      have h2 := ip6_loop2_eq ip (8 - (k + 1)) (k + 1) (k + 1 + 1) s e hk (by omega)
      simp only [hfuel, hn]
      rw [← h2, bind_assoc]
      congr 1; funext r
      simp only [Outcome.pure_eq, Outcome.bind_ok]
      exact ih f _ _ (by omega) (by omega)

/-- one rendered group: `if ip[i*2] != 0 { NLZ(ip[i*2]); writeHex(ip[i*2+1]) } else { NLZ(ip[i*2+1]) }; ':'` -/
theorem ip6Group_step (l : Line) (ip : Bytes) (n : Nat) (K : GLine → Outcome GLine) (K' : Line → Outcome Line)
    (h : ∀ l', K (G l') = liftG (K' l')) :
    (do let l ← (do
            let t5 ← idxI ip (((n : Nat) : Int) * (2 : Int))
            if (t5 ≠ (0 : UInt8)) then do
              let t6 ← idxI ip (((n : Nat) : Int) * (2 : Int))
              let l ← genLine_writeHexNoleadingZeros (G l) t6
              let t7 ← idxI ip ((((n : Nat) : Int) * (2 : Int)) + (1 : Int))
              let l ← genLine_writeHex l t7
              pure l
            else do
              let t8 ← idxI ip ((((n : Nat) : Int) * (2 : Int)) + (1 : Int))
              let l ← genLine_writeHexNoleadingZeros (G l) t8
              pure l)
        let l ← genLine_appendByte l (58 : UInt8)
        K l) = liftG (ip6Group l ip n >>= K') := by
  have h1 : ((n : Nat) : Int) * 2 = ((n * 2 : Nat) : Int) := by omega
  have h2 : ((n : Nat) : Int) * 2 + 1 = ((n * 2 + 1 : Nat) : Int) := by omega
  rw [h2, h1, idxI_natCast, idxI_natCast]
  unfold ip6Group
  cases hx : idx ip (n * 2) with
  | ok hi =>
    simp only [Outcome.bind_ok]
    by_cases hz : hi = 0
    · subst hz
      have hb : ((0 : UInt8) != 0) = false := by decide
      simp only [ne_eq, not_true_eq_false, if_false, hb, Bool.false_eq_true, PV.Lemmas.FastlogLoops.bind_assoc]
      apply val_step; intro lo
      rw [writeHexNLZ_tie]; apply liftG_bind; intro l1
      rw [appendByte_tie]; exact liftG_bind _ _ _ h
    · have hb : (hi != 0) = true := by simp [hz]
      simp only [ne_eq, hz, not_false_eq_true, if_true, hb, PV.Lemmas.FastlogLoops.bind_assoc]
      rw [writeHexNLZ_tie]; apply liftG_bind; intro l1
      apply val_step; intro lo
      rw [writeHex_tie]; apply liftG_bind; intro l2
      rw [appendByte_tie]; exact liftG_bind _ _ _ h
  | panic => rfl
  | err e => rfl
  | hang => rfl

/-- rendering loop (`for i := 0; i < 8; i++` with the two `continue`s), `i = 8 - k` -/
theorem ip6_loop3_eq (ip : Bytes) (s e : Int) : ∀ (k fuel : Nat) (l : Line), k ≤ 8 → k < fuel →
    genLine_appendIP6_loop3 ip s e fuel (G l) ((8 - k : Nat) : Int) = liftG (ip6Loop ip s e k l) := by
  intro k
  induction k with
  | zero =>
    intro fuel l _ hf
    cases fuel with
    | zero => omega
    | succ f => rw [genLine_appendIP6_loop3, ip6Loop]; simp
  | succ k ih =>
    intro fuel l hk hf
    cases fuel with
    | zero => omega
    | succ f =>
      rw [genLine_appendIP6_loop3, ip6Loop]
      have hj : (((8 - (k + 1) : Nat) : Int) < 8) := by omega
      rw [if_pos hj]
      have hn : ((8 - (k + 1) : Nat) : Int) + 1 = ((8 - k : Nat) : Int) := by omega
      simp only [hn]
      have hrec : ∀ l', genLine_appendIP6_loop3 ip s e f (G l') ((8 - k : Nat) : Int) = liftG (ip6Loop ip s e k l') :=
        fun l' => ih f l' (by omega) (by omega)
      by_cases h1 : ((8 - (k + 1) : Nat) : Int) = s
      · rw [if_pos h1, if_pos h1]
        by_cases h0 : s = 0
        · rw [if_pos h0, if_pos h0]
          rw [appendByte_tie]; apply liftG_bind; intro l1
          rw [appendByte_tie]; exact liftG_bind _ _ _ hrec
        · rw [if_neg h0, if_neg h0]
          simp only [Outcome.pure_eq, Outcome.bind_ok]
          rw [appendByte_tie]; exact liftG_bind _ _ _ hrec
      · rw [if_neg h1, if_neg h1]
        by_cases h2 : ((8 - (k + 1) : Nat) : Int) ≥ s ∧ ((8 - (k + 1) : Nat) : Int) ≤ e
        · rw [if_pos h2, if_pos h2]; exact hrec l
        · rw [if_neg h2, if_neg h2]
          exact ip6Group_step l ip _ _ _ hrec

theorem bind_eq_ok {α β} {x : Outcome α} {f : α → Outcome β} {b : β} (h : (x >>= f) = .ok b) :
    ∃ a, x = .ok a ∧ f a = .ok b := by
  cases x with
  | ok a => exact ⟨a, rfl, h⟩
  | panic => exact absurd h (by simp)
  | err e => exact absurd h (by simp)
  | hang => exact absurd h (by simp)

theorem appendByte_pos {l l' : Line} {v : UInt8} (h : appendByte l v = .ok l') : 1 ≤ l'.idx := by
  unfold appendByte at h
  split at h
  · cases h; simp
  · cases h

theorem ip6Group_pos {l l' : Line} {ip : Bytes} {i : Nat} (h : ip6Group l ip i = .ok l') : 1 ≤ l'.idx := by
  unfold ip6Group at h
  obtain ⟨_, _, h⟩ := bind_eq_ok h
  dsimp only at h
  split at h
  · obtain ⟨_, _, h⟩ := bind_eq_ok h
    obtain ⟨_, _, h⟩ := bind_eq_ok h
    obtain ⟨_, _, h⟩ := bind_eq_ok h
    exact appendByte_pos h
  · obtain ⟨_, _, h⟩ := bind_eq_ok h
    obtain ⟨_, _, h⟩ := bind_eq_ok h
    exact appendByte_pos h

/-- **the cursor invariant behind the trailing `l.index--` of `appendIP6`**: when the last group is not elided
    (`endZ < 7`) the rendering loop has written at least one byte (the last iteration ends with `appendByte(':')`), so the
    decrement never takes the cursor below zero — Go's `int` cursor and the model's `Nat` cursor agree -/
theorem ip6Loop_pos (ip : Bytes) (s e : Int) (he : e < 7) : ∀ (k : Nat), 1 ≤ k → k ≤ 8 → ∀ (l l' : Line),
    ip6Loop ip s e k l = .ok l' → 1 ≤ l'.idx := by
  intro k
  induction k with
  | zero => intro h; omega
  | succ k ih =>
    intro _ hk l l' h
    have hlast : ∀ l1 : Line, 1 ≤ l1.idx → ip6Loop ip s e k l1 = .ok l' → 1 ≤ l'.idx := by
      intro l1 h1 hl
      cases k with
      | zero => rw [ip6Loop] at hl; cases hl; exact h1
      | succ k' => exact ih (by omega) (by omega) l1 l' hl
    rw [ip6Loop] at h
    dsimp only at h
    split at h
    · split at h
      · obtain ⟨l1, _, h⟩ := bind_eq_ok h
        obtain ⟨l2, h2, h⟩ := bind_eq_ok h
        exact hlast l2 (appendByte_pos h2) h
      · obtain ⟨l1, _, h⟩ := bind_eq_ok h
        obtain ⟨l2, h2, h⟩ := bind_eq_ok h
        exact hlast l2 (appendByte_pos h2) h
    · split at h
      · rename_i hskip
        cases k with
        | zero => omega
        | succ k' => exact ih (by omega) (by omega) l l' h
      · obtain ⟨l1, h1, h⟩ := bind_eq_ok h
        exact hlast l1 (ip6Group_pos h1) h

/-- **appendIP6** (fastlog's own RFC 5952 writer): the nested zero-run search with `break`, the rendering loop with its two
    `continue`s, and the trailing `l.index--` — for every line and every byte string -/
theorem appendIP6_tie (l : Line) (ip : Bytes) : genLine_appendIP6 (G l) ip = liftG (appendIP6 l ip) := by
  unfold genLine_appendIP6 appendIP6
  by_cases hlen : ip.length ≠ 16
  · have hlen' : ((ip.length : Nat) : Int) ≠ 16 := by omega
    rw [if_pos hlen, if_pos hlen']
    exact copy_last l sNil
  · have hlen' : ¬ ((ip.length : Nat) : Int) ≠ 16 := by omega
    rw [if_neg hlen, if_neg hlen']
    have h1 := ip6_loop1_eq ip 8 9 (-1) (-1) (by omega) (by omega)
    have hf : ((8 : Int) - (0 : Int)).toNat + 1 = 9 := by decide
    dsimp only
    rw [hf]
    have h80 : (((8 - 8 : Nat) : Nat) : Int) = (0 : Int) := by decide
    rw [h80] at h1
    rw [h1]
    apply val_step; intro se
    obtain ⟨s0, e⟩ := se
    dsimp only
    generalize hs : (if e = s0 then (99 : Int) else s0) = s
    have hs' : ((if e = s0 then pure 99 else pure s0) : Outcome Int) = .ok s := by
      rw [← hs]; split <;> rfl
    rw [hs', Outcome.bind_ok]
    have h3 := ip6_loop3_eq ip s e 8 9 l (by omega) (by omega)
    rw [h80] at h3
    rw [h3]
    cases hl : ip6Loop ip s e 8 l with
    | ok l' =>
      simp only [liftG_ok, Outcome.bind_ok]
      by_cases he : e < 7
      · have hp := ip6Loop_pos ip s e he 8 (by omega) (by omega) l l' hl
        have hne : ¬ l'.idx = 0 := by omega
        rw [if_pos he, if_pos he, decIdx, if_neg hne]
        simp only [Outcome.pure_eq, liftG_ok, G]
        congr 2; omega
      · rw [if_neg he, if_neg he]; rfl
    | panic => rfl
    | err x => rfl
    | hang => rfl

/-- every method of `*fastlog.Line` is a candidate; these are the ones the translator expresses -/
theorem translated_accounted : fastlogLoopsTranslated.map (·.1) =
    ["fastlog.(*Line).Bool", "fastlog.(*Line).ByteArray", "fastlog.(*Line).Bytes", "fastlog.(*Line).Duration",
     "fastlog.(*Line).Error", "fastlog.(*Line).IP", "fastlog.(*Line).IPArray", "fastlog.(*Line).IPSlice",
     "fastlog.(*Line).Int", "fastlog.(*Line).LF", "fastlog.(*Line).Label", "fastlog.(*Line).MAC",
     "fastlog.(*Line).Module", "fastlog.(*Line).String", "fastlog.(*Line).StringArray", "fastlog.(*Line).Uint16",
     "fastlog.(*Line).Uint16Hex", "fastlog.(*Line).Uint32", "fastlog.(*Line).Uint8", "fastlog.(*Line).Uint8Hex",
     "fastlog.(*Line).appendByte", "fastlog.(*Line).appendIP6", "fastlog.(*Line).newModule", "fastlog.(*Line).printInt",
     "fastlog.(*Line).writeHex", "fastlog.(*Line).writeHexNoleadingZeros"] := by decide

/-- … and these are refused (interface / time.Time parameters whose text the standard library produces by reflection or
    formatting, results other than the receiver, the buffer pool): they stay tied by the correspondence run only -/
theorem untranslated_accounted : fastlogLoopsUntranslated.map (·.1) =
    ["fastlog.(*Line).Sprintf", "fastlog.(*Line).Stringer", "fastlog.(*Line).Struct", "fastlog.(*Line).Time",
     "fastlog.(*Line).ToString", "fastlog.(*Line).Write"] := by decide

/-- the standard-library callees the translator replaced by the model function that mirrors them (reviewed list) -/
theorem callees_accounted : loopCallees.map (·.1) =
    ["(error).Error", "(net.IP).To4", "(net/netip.Addr).AppendTo", "(net/netip.Addr).IsValid", "(time.Duration).String",
     "strconv.AppendInt"] := by decide

/-- non-vacuity: on an empty 2048-byte line the regenerated `Uint16("p", 443)` writes ` p=443` and moves the cursor to 6 -/
example : (genLine_Uint16 (G ⟨Buf.fill 0, 0⟩) [0x70] 443) =
    liftG (uint16 ⟨Buf.fill 0, 0⟩ [0x70] 443) := uint16_tie _ _ _
/-- non-vacuity: at a full buffer the regenerated `appendByte` panics, as the model does -/
example : genLine_appendByte (G ⟨Buf.fill 0, 2048⟩) 1 = .panic := by rw [appendByte_tie]; rfl

/-- non-vacuity: the regenerated `appendIP6` of `2001:db8::1` on an empty line equals the model's rendering (and is not a panic) -/
example : genLine_appendIP6 (G ⟨Buf.fill 0, 0⟩) [0x20, 0x01, 0x0d, 0xb8, 0, 0, 0, 0, 0, 0, 0, 0, 0, 0, 0, 1] =
    liftG (appendIP6 ⟨Buf.fill 0, 0⟩ [0x20, 0x01, 0x0d, 0xb8, 0, 0, 0, 0, 0, 0, 0, 0, 0, 0, 0, 1]) := appendIP6_tie _ _
/-- non-vacuity: `ByteArray` with 20 bytes left truncates (marker at the buffer end, cursor parked at 2047) in both -/
example : genLine_ByteArray (G ⟨Buf.fill 0, 2028⟩) [0x61] [1, 2, 3, 4, 5, 6, 7, 8] =
    liftG (byteArray ⟨Buf.fill 0, 2028⟩ [0x61] [1, 2, 3, 4, 5, 6, 7, 8]) := byteArray_tie _ _ _

end PV.Props.C20Tie
