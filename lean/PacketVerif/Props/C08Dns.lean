/-
  C08 (DNS / naming share) — the DNS decoders and the naming handlers terminate without panic
  on arbitrary input.  Property theorems only; helper lemmas live in `Lemmas/Dns*.lean`,
  `Lemmas/Naming.lean`.

  `Returns x` abbreviates `x ≠ .panic ∧ x ≠ .hang`: the call came back with a value or an error.
  All statements are over *all* byte strings / offsets / counts.  The models are the code after
  the `fix:` commits listed in KNOWN_FINDINGS.txt (each of the unfixed functions panicked or spun
  on the witnesses kept in corpus/C08dns/defects.ops).
-/
import PacketVerif.Lemmas.DnsMsg
import PacketVerif.Lemmas.DnsSpec
namespace PV.Props.C08Dns
open PV PV.Model PV.Model.DnsMsg PV.Lemmas.Dns PV.Lemmas.Naming PV.Lemmas.DnsMsg

/-- **decodeName**: for every buffer, every (possibly negative) offset and every level ≥ 1 the
    call returns — no index is out of range (the label loop stays inside `data`) and neither the
    label loop (`len(data)` iterations at most) nor the recursion over compression pointers
    (at most `maxRecursionLevel` levels, the fuel `nameFuel = 257` is never exhausted) hangs. -/
theorem decodeName_total (data : Bytes) (offset : Int) (level : Nat) (h : 1 ≤ level) :
    Returns (decodeName data offset level) :=
  decodeName_safe data offset level h

/-- the label loop alone: started inside the buffer with fuel ≥ remaining bytes it neither
    panics nor runs out of fuel -/
theorem scanLabels_total (fuel : Nat) (data : Bytes) (offset index : Nat) (acc : Bytes)
    (h1 : index < data.length) (h2 : data.length - index ≤ fuel) :
    Returns (scanLabels fuel data offset index acc) :=
  scan_safe fuel data offset index acc h1 h2

/-- **DecodeQuestion** on arbitrary bytes and index -/
theorem decodeQuestion_total (p : Bytes) (index : Int) : Returns (decodeQuestion p index) :=
  decodeQuestion_returns p index

/-- **decodeRRs** for every count, entry, packet, offset (and whatever the unmodelled IPv6 text
    parser answers) -/
theorem decodeRRs_total (ip6 : Bytes → PtrIP) (count : Nat) (e : DNSEntry) (p : Bytes) (offset : Int) (u : Bool) :
    Returns (decodeRRs ip6 count e p offset u).2 :=
  decodeRRs_returns ip6 count e p offset u

/-- **DecodeAnswers** (exported) on arbitrary bytes, for every entry.  A Go `DNSEntry` whose maps
    are nil (the zero value) is the entry with four empty maps here: `decodeRRs` creates the maps
    that are nil before it writes (fix commit; before it the exported call panicked with
    "assignment to entry in nil map" on a zero entry as soon as a record was storable — the
    `dns.answers0` lines run the real call on the zero entry). -/
theorem decodeAnswers_total (ip6 : Bytes → PtrIP) (e : DNSEntry) (p : Bytes) (offset : Int) :
    Returns (decodeAnswers ip6 e p offset).2 :=
  decodeAnswers_returns ip6 e p offset

/-- **ProcessDNS** on an arbitrary UDP payload and table -/
theorem processDNS_total (ip6 : Bytes → PtrIP) (t : DNSTable) (p : Bytes) : Returns (processDNS ip6 t p).2 :=
  processDNS_returns ip6 t p

/-- **ProcessMDNS** terminates: `qd + an + ns + ar + 5` loop iterations (the header's own
    counts) always suffice, on every payload — this bound is what the theorem proves.  That the
    result is a value and not `.panic` holds by construction of `Model/DnsMsg.lean`: it models
    `dnsmessage.Parser`, a trusted external library, as total `Except`-valued functions with its
    bounds checks, and the handler's own loop has no indexing; that the real `dnsmessage` does not
    panic is an assumption (checks.json) watched by the harness on every generated input. -/
theorem mdns_terminates (payload : Bytes) (fuel : Nat) (h : mdnsBound payload ≤ fuel) :
    ∃ o, processMDNS fuel payload = .ok o :=
  processMDNS_terminates payload fuel h

/-- every iteration of the mDNS record loop that continues strictly decreases the measure
    `mu` (section changes left + records left) — the fact the fix restored: before it,
    `SkipAnswer` in the authority / additional section changed nothing. -/
theorem mdns_step_decreases (s s' : MdnsState) (h : mdnsStep s = .next s') (hi : Inv s.p)
    (h3 : 3 ≤ s.sec) (h5 : s.sec ≤ 5) : mu s'.p s'.sec < mu s.p s.sec :=
  (mdnsStep_next s s' h hi h3 h5).2.2.2.2

/-- **ProcessNBNS** terminates without panic on every payload -/
theorem nbns_terminates (payload : Bytes) (fuel : Nat) (h : nbnsBound payload ≤ fuel) :
    Returns (processNBNS fuel payload) :=
  processNBNS_terminates payload fuel h

/-- **parseNodeNameArray / processNBNSNodeStatusResponse** on arbitrary bytes -/
theorem parseNodeNameArray_total (b : Bytes) : Returns (parseNodeNameArray b) := parseNodeNameArray_returns b

theorem nbnsNodeStatus_total (b : Bytes) : Returns (nbnsNodeStatus b) := nbnsNodeStatus_returns b

/-- **decodeNBNSName** on arbitrary bytes -/
theorem decodeNBNSName_total (b : Bytes) : Returns (decodeNBNSName b) := decodeNBNSName_returns b

/-- **SSDP cache-control logic**: every header value yields an expiry.  The model writes the pair
    loop `for i := 0; i+1 < len(options); i += 2` of the fixed code as a pattern match on
    `k :: v :: rest`, so an out-of-range `options[i+1]` cannot be expressed in it: this theorem is
    totality of the model, and the index safety of the Go loop rests on the correspondence
    (`ssdp.cc` lines: every split shape of the header value, incl. the pre-fix witness
    `x=max-age`), declared in checks.json. -/
theorem ssdpExpiry_total (cc : Bytes) : ∃ v, ssdpExpirySeconds cc = .ok v := by
  unfold ssdpExpirySeconds
  simp only []
  split <;> exact ⟨_, rfl⟩

/-- the guard `o2 + l ≤ off` in the model of `unpackOPTResource`'s loop (`Model/DnsMsg.lean`, kept so
    that the recursion is structural) is never taken: after the two 16-bit reads `o2 = off + 4`. -/
theorem optLoop_guard_unreachable (msg : Bytes) (off x l o1 o2 : Nat)
    (h1 : unpackUint16 msg off = .ok (x, o1)) (h2 : unpackUint16 msg o1 = .ok (l, o2)) : ¬ (o2 + l ≤ off) := by
  have e1 : o1 = off + 2 := by
    unfold unpackUint16 at h1
    split at h1
    · cases h1
    · split at h1
      · injection h1 with h1; injection h1 with _ h1; exact h1.symm
      · cases h1
  have e2 : o2 = o1 + 2 := by
    unfold unpackUint16 at h2
    split at h2
    · cases h2
    · split at h2
      · injection h2 with h2; injection h2 with _ h2; exact h2.symm
      · cases h2
  omega

/-- **EncodeDNSQuery** does not panic for encoded names of at most 496 bytes (every caller
    passes the 34-byte NBNS name); longer names do panic (`finding`-style witness below). -/
theorem encodeDNSQuery_no_panic (id fl : Nat) (name : Bytes) (qt : Nat) (h : name.length ≤ 496) :
    ∃ b, encodeDNSQuery id fl name qt = .ok b := by
  unfold encodeDNSQuery
  have : min name.length 500 = name.length := by omega
  simp only [this]
  rw [if_neg (by omega), if_neg (by omega)]
  exact ⟨_, rfl⟩

/-- **encodeName** does not panic when the buffer has room for the name (`len(name)+2` bytes from
    `offset`), and returns the offset after the encoded name -/
theorem encodeName_no_panic (name data : Bytes) (offset : Nat) (h : offset + name.length + 2 ≤ data.length) :
    ∃ d, encodeName name data offset = .ok (d, if name.length = 0 then offset + 1 else offset + name.length + 2) :=
  encodeName_ok name data offset h

/-! ### non-vacuity: the outcomes excluded above are reachable in the model -/

/-- with too little fuel the model does report a hang (so `≠ hang` is not vacuous) -/
example : processMDNS 0 (List.replicate 12 0 ++ [0]) = .ok { ipv4 := [], ipv6 := [], err := false } ∨
          processMDNS 0 (List.replicate 12 0 ++ [0]) = .hang := by
  right; decide

example : scanLabels 0 [1, 65, 0] 0 0 [] = .hang := rfl
example : decodeSeg 0 [0] 0 1 = .hang := rfl
/-- a `panic` value exists in the model of the slice primitives: reading past the end -/
example : rd16 [1] 0 = .panic := by decide
example : encodeName [97, 46, 98] [0, 0, 0, 0] 0 = .panic := by decide
example : encodeName [97, 46, 98] [0, 0, 0, 0, 0] 0 = .ok ([1, 97, 1, 98, 0], 5) := by decide
/-- the 497-byte encoded name is outside the stated domain of `encodeDNSQuery_no_panic` and panics -/
example (name : Bytes) (h : name.length = 499) : encodeDNSQuery 1 0 name 33 = .panic := by
  unfold encodeDNSQuery
  have : min name.length 500 = 499 := by omega
  simp only [this]
  rw [if_pos (by omega)]
/-- a concrete well-formed call returns a value -/
example : decodeName [3, 119, 119, 119, 0] 0 1 = .ok ([119, 119, 119], 5) := by decide

end PV.Props.C08Dns
