/-
  C08 (NDP / ICMP / ARP share) — the handlers' parsing and dispatch terminate without panic on
  arbitrary bytes.  Statements are over ALL byte strings; `Outcome.panic` is a Go run-time panic
  (index / slice out of range), `Outcome.hang` is fuel exhaustion of a loop whose progress is not
  syntactically obvious.  Proofs in Lemmas/Ndp.lean.
-/
import PacketVerif.Lemmas.Ndp
namespace PV.Props.C08Ndp
open PV PV.Model.Ndp PV.Lemmas.Ndp

theorem safe_iff {α} (x : Outcome α) : x.safe = true ↔ (x ≠ .panic ∧ x ≠ .hang) := by
  cases x <;> simp [Outcome.safe]

/-- **`newParseOptions` is total**: for every byte string it returns options or an error – it never
    indexes out of range and the option loop ends within `len/8 + 1` iterations (every accepted
    option consumes at least 8 bytes; a zero length is rejected). -/
theorem newParseOptions_total (b : Bytes) :
    newParseOptions b ≠ .panic ∧ newParseOptions b ≠ .hang :=
  (safe_iff _).1 (newParseOptions_safe b)

/-- the same with the iteration bound explicit, for any larger fuel -/
theorem parseLoop_terminates (b : Bytes) (o : Options) (fuel : Nat) (h : b.length / 8 < fuel) :
    parseLoop fuel b o ≠ .panic ∧ parseLoop fuel b o ≠ .hang :=
  (safe_iff _).1 (parseLoop_safe fuel b o h)

/-- **every option `unmarshal`** is safe on the slice `newParseOptions` hands it: `8·len ≥ 8` bytes
    whose second byte is `len` -/
theorem unmarshal_total (opt : Bytes) (h8 : 8 ≤ opt.length)
    (hlen : ∃ lb, idx opt 1 = .ok lb ∧ opt.length = lb.toNat * 8) :
    (llaUnmarshal opt).safe = true ∧ (mtuUnmarshal opt).safe = true ∧ (prefixUnmarshal opt).safe = true ∧
    (riUnmarshal opt).safe = true ∧ (rdnssUnmarshal opt).safe = true ∧ (dnsslUnmarshal opt).safe = true :=
  ⟨lla_safe opt h8, mtu_safe opt h8, prefix_safe opt ⟨h8, hlen⟩, ri_safe opt ⟨h8, hlen⟩,
   rdnss_safe opt ⟨h8, hlen⟩, dnssl_safe opt h8⟩

/-- the DNSSL label loop ends within `len(value) - i + 1` iterations and stays in range -/
theorem dnsslLoop_total (v : Bytes) (i fuel : Nat) (acc : DnsslAcc) (hi : i ≤ v.length)
    (hf : v.length - i < fuel) : dnsslLoop v fuel i acc ≠ .panic ∧ dnsslLoop v fuel i acc ≠ .hang :=
  (safe_iff _).1 (dnsslLoop_safe v fuel i acc hi hf)

/-- **`Handler6.ProcessPacket`** (parse / dispatch incl. RA option parsing) never panics or spins,
    whatever the ICMPv6 payload, source-address class and throttle state -/
theorem icmp6_process_total (p : Bytes) (srcUnspec hostKnown processRA : Bool) :
    icmp6Dispatch p srcUnspec hostKnown processRA ≠ .panic ∧
    icmp6Dispatch p srcUnspec hostKnown processRA ≠ .hang :=
  (safe_iff _).1 (icmp6Dispatch_safe p _ _ _)

/-- **`Handler4.ProcessPacket`** incl. the embedded-IP walk of destination-unreachable messages -/
theorem icmp4_process_total (p : Bytes) : icmp4Process p ≠ .panic ∧ icmp4Process p ≠ .hang :=
  (safe_iff _).1 (icmp4Process_safe p)

/-- the embedded datagram's `Payload()` slice is in range whenever the embedded header is valid -/
theorem embedded_payload_in_range (orig : Bytes) (h : ip4Valid orig = .ok true) :
    ∃ u, ip4Payload orig = .ok u :=
  ip4Payload_ok h

/-- **`ParseHopByHopExtensions`** on arbitrary bytes: returns within `len(data) + 1` iterations -/
theorem hopByHop_total (p : Bytes) : hopByHopParse p ≠ .panic ∧ hopByHopParse p ≠ .hang :=
  (safe_iff _).1 (hopByHopParse_safe p)

/-- **`arp.ProcessPacket`** validation and classification on arbitrary payloads -/
theorem arp_process_total (b : Bytes) : arpClassify b ≠ .panic ∧ arpClassify b ≠ .hang :=
  (safe_iff _).1 (arpClassify_safe b)

/-! ### non-vacuity: the model does decode, and the formerly fatal inputs are errors now -/

example : newParseOptions [0x63, 0x00] = .err .other := by decide
example : newParseOptions [0x01, 0x00] = .err .other := by decide
example : (newParseOptions [5, 1, 0, 0, 0, 0, 5, 0xdc]).bind (fun o => .ok o.mtu) = .ok 1500 := by decide
example : (newParseOptions [1, 1, 2, 3, 4, 5, 6, 7]).bind (fun o => .ok o.slla.mac) = .ok [2, 3, 4, 5, 6, 7] := by
  decide
example : hopByHopParse [0, 1] = .err .parseFrame := by decide
example : arpClassify [] = .ok .errLen := by decide

end PV.Props.C08Ndp
