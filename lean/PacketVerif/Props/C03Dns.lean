/-
  C03, DNS query: `encodeName` + `EncodeDNSQuery` against `DecodeQuestion`, the DNS view and the
  independent RFC 1035 reference decoder (`Spec/DnsWire.lean`).  Property theorems only; lemmas
  in `Lemmas/DnsQuery.lean`.

  How the library builds a query (Model/DnsQuery.lean):
      buf := make([]byte, len(name)+2); n := encodeName(name, buf, 0)
      msg := EncodeDNSQuery(id, flags, buf[:n], qtype)
  `name` is the dotted text form without trailing dot; it is given here by its labels `ls`
  (`Spec.text ls` = the labels joined by '.', `[]` = the root, text "").

  **Valid name** = what `encodeName` needs to produce RFC 1035 wire form: every label has 1..63
  octets and contains no dot (`ValidLabels`: an empty label would be read back as the end of the
  name, a label of 64+ octets as a pointer / reserved label type, a dot inside a label splits it),
  and the wire form has at most 255 octets (`wireLen ls ≤ 255`, §3.1).  The root name is valid.
-/
import PacketVerif.Lemmas.DnsQuery
import PacketVerif.Props.C17
namespace PV.Props.C03Dns
open PV PV.Model PV.Spec PV.Lemmas.DnsQuery

/-- **`encodeName` writes RFC 1035 wire form**: for labels of 1..63 octets without dots, the octets
    `buf[:n]` it leaves in a fresh buffer are the labels, each preceded by its length octet,
    followed by the root octet — for the root name the single octet 0. -/
theorem encodeName_wire_form (ls : List Bytes) (hv : ValidLabels ls) :
    encodedName (text ls) = .ok (wireOf ls) :=
  encodedName_wire ls hv

/-- the same inside any buffer: the octets before `offset` and behind the name are untouched and
    the returned offset is behind the root octet (the name is not the root; the root writes the
    single octet 0: `encodeName_root`) -/
theorem encodeName_in_place (ls : List Bytes) (hv : ValidLabels ls) (hne : ls ≠ [])
    (pre : Bytes) (s0 : UInt8) (tail : Bytes) (hroom : (text ls).length + 1 ≤ tail.length) :
    encodeName (text ls) (pre ++ s0 :: tail) pre.length =
      .ok (pre ++ (wireLabels ls ++ 0 :: tail.drop ((text ls).length + 1)), pre.length + (text ls).length + 2) :=
  encodeName_wire ls (fun x hx => (hv x hx).2.2) (text_ne_nil hv hne) pre s0 tail hroom

theorem encodeName_root (pre : Bytes) (s0 : UInt8) (tail : Bytes) :
    encodeName [] (pre ++ s0 :: tail) pre.length = .ok (pre ++ 0 :: tail, pre.length + 1) := by
  unfold encodeName
  simp only [encodeNameLoop, List.length_nil, beq_self_eq_true, if_true]
  rw [setIdx_mid pre s0 0 tail rfl]

/-- **the 512-octet buffer of `EncodeDNSQuery`**: an encoded name of at most 496 octets leaves
    room for type and class and the message is header ++ name ++ type ++ class IN; from 497
    octets on the call panics (`PutUint16` past the buffer). -/
theorem encodeDNSQuery_bound (id flags : Nat) (en : Bytes) (qtype : Nat) :
    (en.length ≤ 496 →
      encodeDNSQuery id flags en qtype =
        .ok (put16 id ++ put16 flags ++ put16 1 ++ put16 0 ++ put16 0 ++ put16 0 ++ en ++ put16 qtype ++ put16 1)) ∧
    (497 ≤ en.length → encodeDNSQuery id flags en qtype = .panic) := by
  refine ⟨encodeDNSQuery_ok id flags en qtype, ?_⟩
  intro h
  unfold encodeDNSQuery
  simp only []
  by_cases h2 : 12 + min en.length 500 + 2 > 512
  · rw [if_pos h2]
  · rw [if_neg h2, if_pos (by omega)]

/-- **DNS query round trip.**  For every id, flags and qtype (16-bit values) and every valid name
    (labels `ls`, see the file header; the root included) the message `m` built by `encodeName` +
    `EncodeDNSQuery` — header, wire form of the name, type, class IN; `16 + wireLen ls` octets —
    1. is decoded by the library's `DecodeQuestion(m, 12)` to exactly the name supplied (the
       library's text form: labels joined by dots, "" for the root), the type supplied, class IN,
       and the end offset `len(m)`;
    2. is read by the independent reference decoder as: ID = id, flags word = flags, QDCOUNT 1,
       ANCOUNT = NSCOUNT = ARCOUNT = 0, one question holding a pointer-free reference name with the
       labels `ls` at offset 12, QTYPE = qtype, QCLASS = 1, ending at `len(m)`;
    3. is shown by the DNS view getters (`query_view` below) with the values supplied. -/
theorem dns_query_roundtrip (id flags qtype : Nat) (ls : List Bytes) (hv : ValidLabels ls) (hlen : wireLen ls ≤ 255)
    (hid : id < 65536) (hfl : flags < 65536) (hqt : qtype < 65536) :
    ∃ m, buildQuery id flags (text ls) qtype = .ok m ∧ m.length = 16 + wireLen ls ∧
      m = put16 id ++ put16 flags ++ put16 1 ++ put16 0 ++ put16 0 ++ put16 0 ++ wireOf ls ++ put16 qtype ++ put16 1 ∧
      decodeQuestion m 12 = .ok ({ name := text ls, qtype := qtype, qclass := 1 }, m.length) ∧
      u16At m 0 = some id ∧ u16At m 2 = some flags ∧ u16At m 4 = some 1 ∧
      u16At m 6 = some 0 ∧ u16At m 8 = some 0 ∧ u16At m 10 = some 0 ∧
      NameAt m 12 12 ls (12 + wireLen ls) 0 ∧
      questionAt? m 12 = some ({ name := text ls, qtype := qtype, qclass := 1 }, m.length) := by
  obtain ⟨h0, h2, h4, h6, h8, h10, hname, hdec, hq⟩ := query_reference id flags qtype ls hv hlen hid hfl hqt
  refine ⟨queryBytes id flags ls qtype, buildQuery_eq id flags ls qtype hv (by omega), queryBytes_length id flags ls qtype, rfl,
    ?_, h0, h2, h4, h6, h8, h10, hname, hq⟩
  have := PV.Props.C17.decodeQuestion_eq_spec _ _ _ hq h4 (by simp [PV.Props.C17.depthAt, hdec])
  exact this

/-- **the DNS view on the query returns the values supplied**: `TransactionID` = id; `QR`,
    `OpCode`, `AA`, `TC`, `RD`, `RA`, `Z`, `ResponseCode` = the RFC 1035 §4.1.1 fields of the flags
    word supplied; `QDCount` = 1, `ANCount` = `NSCount` = `ARCount` = 0. -/
theorem query_view (id flags qtype : Nat) (ls : List Bytes) (hv : ValidLabels ls) (hlen : wireLen ls ≤ 255)
    (hid : id < 65536) (hfl : flags < 65536) (hqt : qtype < 65536) :
    ∃ m, buildQuery id flags (text ls) qtype = .ok m ∧
      dnsGet "TransactionID" m = .ok (.n id) ∧
      dnsGet "QR" m = .ok (.b (decide (flags / 32768 % 2 = 1))) ∧
      dnsGet "OpCode" m = .ok (.n (flags / 2048 % 16)) ∧
      dnsGet "AA" m = .ok (.b (decide (flags / 1024 % 2 = 1))) ∧
      dnsGet "TC" m = .ok (.b (decide (flags / 512 % 2 = 1))) ∧
      dnsGet "RD" m = .ok (.b (decide (flags / 256 % 2 = 1))) ∧
      dnsGet "RA" m = .ok (.b (decide (flags / 128 % 2 = 1))) ∧
      dnsGet "Z" m = .ok (.n (flags / 16 % 8)) ∧
      dnsGet "ResponseCode" m = .ok (.n (flags % 16)) ∧
      dnsGet "QDCount" m = .ok (.n 1) ∧ dnsGet "ANCount" m = .ok (.n 0) ∧
      dnsGet "NSCount" m = .ok (.n 0) ∧ dnsGet "ARCount" m = .ok (.n 0) :=
  ⟨queryBytes id flags ls qtype, buildQuery_eq id flags ls qtype hv (by omega),
    query_getters id flags qtype ls hv hlen hid hfl hqt⟩

/-- **the root name, spelled out**: the query for "" is the 17-octet message header ++ [0] ++ type
    ++ class, and `DecodeQuestion` reads it back as the empty name ending at 17 = `len(m)` — the
    smallest message `DecodeQuestion` must accept (`index + 5 = len(m)`). -/
theorem dns_query_root (id flags qtype : Nat) (hid : id < 65536) (hfl : flags < 65536) (hqt : qtype < 65536) :
    buildQuery id flags [] qtype = .ok (put16 id ++ put16 flags ++ put16 1 ++ put16 0 ++ put16 0 ++ put16 0 ++ [0] ++ put16 qtype ++ put16 1) ∧
    decodeQuestion (put16 id ++ put16 flags ++ put16 1 ++ put16 0 ++ put16 0 ++ put16 0 ++ [0] ++ put16 qtype ++ put16 1) 12 =
      .ok ({ name := [], qtype := qtype, qclass := 1 }, 17) := by
  have hv : ValidLabels [] := fun l hl => by cases hl
  obtain ⟨m, h1, h2, h3, h4, _⟩ := dns_query_roundtrip id flags qtype [] hv (by decide) hid hfl hqt
  have hm : m = put16 id ++ put16 flags ++ put16 1 ++ put16 0 ++ put16 0 ++ put16 0 ++ [0] ++ put16 qtype ++ put16 1 := h3
  subst hm
  exact ⟨h1, by rw [h4]; rfl⟩

/-- a name whose labels are valid but whose wire form exceeds 256 octets (up to the 496 the buffer
    holds) is still encoded — and then refused by the name decoder of `DecodeQuestion`: a size
    bound is necessary for the round trip (the decoder tolerates one octet more than §3.1, see
    `C17.decodeName_sound`; 256 itself is outside the stated domain). -/
theorem dns_query_too_long_rejected (id flags qtype : Nat) (ls : List Bytes) (hv : ValidLabels ls)
    (hlong : 256 < wireLen ls) (hbuf : wireLen ls ≤ 496) :
    buildQuery id flags (text ls) qtype = .ok (queryBytes id flags ls qtype) ∧
    ∃ e, decodeName (queryBytes id flags ls qtype) 12 1 = .err e := by
  refine ⟨buildQuery_eq id flags ls qtype hv hbuf, ?_⟩
  have hname : NameAt (queryBytes id flags ls qtype) 12 12 ls (12 + wireLen ls) 0 := by
    rw [queryBytes_split]
    exact nameAt_wire ls hv (queryHeader id flags) _ 12
  exact PV.Props.C17.decodeName_rejects_long _ 12 ls _ 0 hname hlong

/-! ### non-vacuity -/

/-- "Ab.c" (mixed case is preserved), id 0x1234, flags 0x0100 (RD), type 28 -/
example : buildQuery 0x1234 0x0100 [65, 98, 46, 99] 28 =
    .ok [0x12, 0x34, 1, 0, 0, 1, 0, 0, 0, 0, 0, 0, 2, 65, 98, 1, 99, 0, 0, 28, 0, 1] := by decide
example : decodeQuestion [0x12, 0x34, 1, 0, 0, 1, 0, 0, 0, 0, 0, 0, 2, 65, 98, 1, 99, 0, 0, 28, 0, 1] 12 =
    .ok ({ name := [65, 98, 46, 99], qtype := 28, qclass := 1 }, 22) := by decide
example : ValidLabels [[65, 98], [99]] ∧ text [[65, 98], [99]] = [65, 98, 46, 99] ∧ wireLen [[65, 98], [99]] = 6 := by
  refine ⟨?_, rfl, rfl⟩
  intro l hl
  simp at hl
  rcases hl with rfl | rfl <;> decide
/-- the root query and the getters on it -/
example : buildQuery 7 0x8400 [] 33 = .ok [0, 7, 0x84, 0, 0, 1, 0, 0, 0, 0, 0, 0, 0, 0, 33, 0, 1] := by decide
example : decodeQuestion [0, 7, 0x84, 0, 0, 1, 0, 0, 0, 0, 0, 0, 0, 0, 33, 0, 1] 12 = .ok ({ name := [], qtype := 33, qclass := 1 }, 17) := by decide
example : dnsGet "QR" [0, 7, 0x84, 0, 0, 1, 0, 0, 0, 0, 0, 0, 0, 0, 33, 0, 1] = .ok (.b true) ∧
    dnsGet "AA" [0, 7, 0x84, 0, 0, 1, 0, 0, 0, 0, 0, 0, 0, 0, 33, 0, 1] = .ok (.b true) ∧
    dnsGet "TransactionID" [0, 7, 0x84, 0, 0, 1, 0, 0, 0, 0, 0, 0, 0, 0, 33, 0, 1] = .ok (.n 7) := by decide
/-- outside the validity predicate the round trip does fail: an empty label ends the name early -/
example : buildQuery 1 0 [97, 46, 46, 98] 1 = .ok [0, 1, 0, 0, 0, 1, 0, 0, 0, 0, 0, 0, 1, 97, 0, 1, 98, 0, 0, 1, 0, 1] := by decide
example : decodeQuestion [0, 1, 0, 0, 0, 1, 0, 0, 0, 0, 0, 0, 1, 97, 0, 1, 98, 0, 0, 1, 0, 1] 12 =
    .ok ({ name := [97], qtype := 0x0162, qclass := 0 }, 19) := by decide

end PV.Props.C03Dns
