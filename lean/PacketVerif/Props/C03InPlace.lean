/-
  C03, DHCPv4 encoded IN PLACE with aliased arguments (builder D): the result of `EncodeDHCP4` over the request buffer,
  with option values and an order list that are slices of that same buffer, is the encoding of the VALUES those
  slices held when the encoder was called.
-/
import PacketVerif.Model.Dhcp4InPlace
import PacketVerif.Lemmas.EncodeMem
namespace PV.Props.C03InPlace
open PV PV.Model PV.Model.Dhcp4Opt PV.Lemmas

/-- a write that stays inside the array and misses a window leaves the window's bytes alone -/
theorem read_poke (m : Mem) (at_ : Nat) (bs : Bytes) (off len : Nat) (hfit : at_ + bs.length ≤ m.length)
    (hdis : off + len ≤ at_ ∨ at_ + bs.length ≤ off) :
    ((poke m at_ bs).drop off).take len = (m.drop off).take len := by
  apply List.ext_getElem?
  intro i
  simp only [List.getElem?_take, List.getElem?_drop]
  split
  · rename_i hi
    simp only [poke, List.append_assoc]
    rcases hdis with h | h
    · rw [List.getElem?_append_left (by simp; omega)]
      simp only [List.getElem?_take]
      rw [if_pos (by omega)]
    · rw [List.getElem?_append_right (by simp; omega)]
      rw [List.getElem?_append_right (by simp; omega)]
      simp only [List.getElem?_drop, List.length_take]
      congr 1
      omega
  · rfl

theorem applyWrites_length (m : Mem) (ws : List (Nat × Bytes)) (hfit : ∀ w ∈ ws, w.1 + w.2.length ≤ m.length) :
    (applyWrites m ws).length = m.length := by
  induction ws generalizing m with
  | nil => rfl
  | cons w ws ih =>
    have hl : (poke m w.1 w.2).length = m.length := poke_length m w.1 w.2 (hfit w (by simp))
    simp only [applyWrites, List.foldl_cons]
    have := ih (poke m w.1 w.2) (fun w' hw' => by rw [hl]; exact hfit w' (by simp [hw']))
    simp only [applyWrites] at this
    rw [this, hl]

/-- a sequence of writes, all inside the array and all missing the window -/
theorem read_applyWrites (m : Mem) (ws : List (Nat × Bytes)) (s : Src)
    (hfit : ∀ w ∈ ws, w.1 + w.2.length ≤ m.length) (hs : s.untouched ws) :
    s.read (applyWrites m ws) = s.read m := by
  cases s with
  | lit b => rfl
  | ref off len =>
    induction ws generalizing m with
    | nil => rfl
    | cons w ws ih =>
      have hl : (poke m w.1 w.2).length = m.length := poke_length m w.1 w.2 (hfit w (by simp))
      simp only [applyWrites, List.foldl_cons]
      have h1 := ih (poke m w.1 w.2) (fun w' hw' => by rw [hl]; exact hfit w' (by simp [hw']))
        (fun w' hw' => hs w' (by simp [hw']))
      simp only [applyWrites] at h1
      rw [h1]
      exact read_poke m w.1 w.2 off len (hfit w (by simp)) (hs w (by simp))

/-- every header write lies inside the 240-byte header -/
theorem hdrWrites_in_header (a : MArgs) : ∀ w ∈ hdrWrites a, w.1 + w.2.length ≤ 240 := by
  intro w hw
  unfold hdrWrites at hw
  simp only [List.mem_append, List.mem_cons, List.not_mem_nil, or_false] at hw
  have one : ∀ (k : Nat) (bs : Bytes), k + bs.length ≤ 240 → w = (k, bs) → w.1 + w.2.length ≤ 240 := by
    intro k bs h e; subst e; exact h
  have t4 : ∀ (x : Bytes), (x.take 4).length ≤ 4 := fun x => by simp only [List.length_take]; omega
  have t16 : ∀ (x : Bytes), (x.take 16).length ≤ 16 := fun x => by simp only [List.length_take]; omega
  rcases hw with ((((((((h | h | h | h | h) | h) | h | h | h) | h) | h) | h | h) | h) | h)
  · exact one _ _ (by simp only [zeros, List.length_replicate]; omega) h
  · exact one _ _ (by simp only [List.length_cons, List.length_nil]; omega) h
  · exact one _ _ (by simp only [List.length_cons, List.length_nil]; omega) h
  · exact one _ _ (by simp only [List.length_cons, List.length_nil]; omega) h
  · exact one _ _ (by simp only [List.length_cons, List.length_nil]; omega) h
  · split at h
    · simp only [List.mem_cons, List.not_mem_nil, or_false] at h
      exact one _ _ (by have := t4 ‹Bytes›; omega) h
    · cases h
  · exact one _ _ (by simp only [List.length_cons, List.length_nil]; omega) h
  · exact one _ _ (by simp only [List.length_cons, List.length_nil]; omega) h
  · exact one _ _ (by simp only [List.length_cons, List.length_nil]; omega) h
  · split at h
    · simp only [List.mem_cons, List.not_mem_nil, or_false] at h
      exact one _ _ (by have := t4 ‹Bytes›; omega) h
    · cases h
  · split at h
    · simp only [List.mem_cons, List.not_mem_nil, or_false] at h
      exact one _ _ (by have := t4 ‹Bytes›; omega) h
    · cases h
  · exact one _ _ (by simp only [List.length_cons, List.length_nil]; omega) h
  · exact one _ _ (by simp only [List.length_cons, List.length_nil]; omega) h
  · split at h
    · simp only [List.mem_cons, List.not_mem_nil, or_false] at h
      rcases h with h | h
      · exact one _ _ (by have := t16 ‹Bytes›; omega) h
      · exact one _ _ (by simp only [List.length_cons, List.length_nil]; omega) h
    · cases h
  · split at h
    · simp only [List.mem_cons, List.not_mem_nil, or_false] at h
      exact one _ _ (by simp only [List.length_cons, List.length_nil]; omega) h
    · cases h

/-- a window of the option area (or anything behind it: offsets ≥ 240) is never touched by the header writes -/
theorem untouched_of_options_area (a : MArgs) (off len : Nat) (h : 240 ≤ off) :
    (Src.ref off len).untouched (hdrWrites a) := by
  intro w hw
  have := hdrWrites_in_header a w hw
  omega

/-- **in-place encoding with aliased arguments = encoding of the call-time values.**  For EVERY request buffer `m`
    and EVERY set of option values / order list given as windows of that buffer that no header write touches (every
    slice `ParseOptions` returns: `untouched_of_options_area`), the packet `EncodeDHCP4` produces in place is the packet
    it produces for the same arguments as VALUES (`freeze`: each window replaced by a copy of the bytes it held when
    the encoder was called) — byte for byte, the same nil / panic outcome included. -/
theorem encodeDHCP4_inplace_alias (m : Mem) (a : MArgs) (tail : List UInt8)
    (hopts : ∀ e ∈ a.opts, e.2.untouched (hdrWrites a)) (horder : a.order.untouched (hdrWrites a)) :
    encodeDHCP4Mem m a tail = encodeDHCP4Mem m (a.freeze m) tail := by
  unfold encodeDHCP4Mem
  by_cases hlen : m.length < 300
  · simp [hlen]
  · simp only [hlen, if_false]
    have hw : hdrWrites (a.freeze m) = hdrWrites a := rfl
    have hfit : ∀ w ∈ hdrWrites a, w.1 + w.2.length ≤ m.length := fun w hw' => by
      have := hdrWrites_in_header a w hw'; omega
    have ho : (a.freeze m).order.read (applyWrites m (hdrWrites a)) = a.order.read (applyWrites m (hdrWrites a)) := by
      rw [read_applyWrites m _ a.order hfit horder]; rfl
    have hv : (a.freeze m).opts.map (fun e => (e.1, e.2.read (applyWrites m (hdrWrites a))))
        = a.opts.map (fun e => (e.1, e.2.read (applyWrites m (hdrWrites a)))) := by
      simp only [MArgs.freeze, List.map_map]
      apply List.map_congr_left
      intro e he
      show (e.1, e.2.read m) = (e.1, e.2.read _)
      rw [read_applyWrites m _ e.2 hfit (hopts e he)]
    rw [hw, ho, hv]
    rfl

/-- the same against the call-time VALUES directly: reading the arguments after the header was rewritten gives what
    reading them before the call gives -/
theorem inplace_reads_call_time_values (m : Mem) (a : MArgs) (h300 : 300 ≤ m.length)
    (hopts : ∀ e ∈ a.opts, e.2.untouched (hdrWrites a)) (horder : a.order.untouched (hdrWrites a)) :
    MArgs.values (applyWrites m (hdrWrites a)) a = MArgs.values m a := by
  have hfit : ∀ w ∈ hdrWrites a, w.1 + w.2.length ≤ m.length := fun w hw' => by
    have := hdrWrites_in_header a w hw'; omega
  simp only [MArgs.values]
  congr 1
  · apply List.map_congr_left
    intro e he
    rw [read_applyWrites m _ e.2 hfit (hopts e he)]
  · exact read_applyWrites m _ a.order hfit horder

/-! ### non-vacuity -/

/-- a DISCOVER in a 300-byte buffer: options 53 = 1, 55 = [6, 3] (value at offset 245), 61 = [1, 2, 3] (value at 249) -/
def reqEx : Bytes :=
  [1, 1, 6, 0, 0xa0, 0, 0, 1] ++ List.replicate 20 0 ++ [0, 2, 3, 4, 5, 1] ++ List.replicate 10 0 ++
    [0x73, 0x6e] ++ List.replicate 190 0 ++ [99, 130, 83, 99] ++ [53, 1, 1, 55, 2, 6, 3, 61, 3, 1, 2, 3, 255] ++ List.replicate 47 0

/-- the OFFER encoded in place: client identifier echoed as the window 249..251 of the buffer, order list = the window
    245..246 (the request's option 55 as `ParseOptions` returns it), configuration values as values of their own -/
def argsEx : MArgs :=
  { opcode := 2, mt := 2, chaddr := none, ciaddr := none, yiaddr := some [0, 0, 0, 2], xid := none, broadcast := false,
    opts := [(61, .ref 249 3), (3, .lit [0, 0, 0, 1]), (6, .lit [0, 0, 0, 9]), (1, .lit [255, 255, 255, 0])],
    order := .ref 245 2 }

set_option maxRecDepth 20000 in
/-- the windows are untouched, and the option area of the result is: mask first, then DNS and router in the order the
    REQUEST listed them (6, 3 - read from the buffer that is being overwritten), then 53 and the echoed identifier -/
example : (∀ e ∈ argsEx.opts, e.2.untouched (hdrWrites argsEx)) ∧ argsEx.order.untouched (hdrWrites argsEx) ∧
    (match encodeDHCP4Mem reqEx argsEx [53, 61] with
     | .ok b => (b.length, (b.drop 240).take 27)
     | _ => (0, [])) =
      (300, [1, 4, 255, 255, 255, 0, 6, 4, 0, 0, 0, 9, 3, 4, 0, 0, 0, 1, 53, 1, 2, 61, 3, 1, 2, 3, 255]) := by
  refine ⟨fun e he => ?_, untouched_of_options_area _ _ _ (by decide), by decide⟩
  simp only [argsEx, List.mem_cons, List.not_mem_nil, or_false] at he
  rcases he with rfl | rfl | rfl | rfl
  · exact untouched_of_options_area _ _ _ (by decide)
  all_goals trivial

set_option maxRecDepth 20000 in
/-- the hypothesis is needed: an argument that is a window of the `sname` field (bytes 44..45 hold "sn"), which the
    encoder zeroes before it reads its arguments, is encoded as zeroes - not as the value it had at call time -/
example :
    (match encodeDHCP4Mem reqEx { argsEx with opts := [(12, .ref 44 2)], order := .lit [] } [53, 12],
           encodeDHCP4Mem reqEx (MArgs.freeze reqEx { argsEx with opts := [(12, .ref 44 2)], order := .lit [] }) [53, 12] with
     | .ok b, .ok b' => ((b.drop 240).take 8, (b'.drop 240).take 8)
     | _, _ => ([], [])) = ([53, 1, 2, 12, 2, 0, 0, 255], [53, 1, 2, 12, 2, 0x73, 0x6e, 255]) := by
  decide

end PV.Props.C03InPlace
