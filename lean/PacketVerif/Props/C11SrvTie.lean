/-
  F15 – the decision logic of the DHCPv4 server regenerated from the Go bodies and tied by theorem
  (obligation of C11, C12, C18).

  `Gen/DhcpSrvGen.lean` is rewritten by every `./check` from handlers/dhcp4_spoofer/{dhcp4,lease,discover,
  request,declinerelease}.go (tools/goextract/dhcpsrv*.go: a dictionary-driven heap-passing translation
  of each function body, statement by statement, into a Lean function over the MODEL's state record
  `Model.Dhcp4Srv.State`; dictionary = Model/DhcpSrvGo.lean).  Each theorem below equates one regenerated
  function with the corresponding function of Model/Dhcp4Srv.lean for ALL states and arguments; a change
  of a guard, a comparison, the order of two tests, a stored value, a loop bound or a reply in one of the
  Go bodies changes the generated text and the tie stops checking.

  * `KeysUnique s.table` (distinct keys: what a Go map guarantees; conjunct of the C11 invariant `TInv`)
    is the hypothesis wherever the code ranges over the table.
  * The message handlers are compared after `touch · (clientId m)`: the model keeps the table as an
    association list and re-inserts the client's entry at the head, the code rewrites it in place.
  * Session calls (`IsCaptured`, `FindIP`) read the oracle fields of the state; `DHCPv4Update`,
    `SetDHCPv4IPOffer`, logging, locks, side traffic and the lease-file save are listed in `dhcpSrvIgnored`
    (pinned below); `time.Now()` is the parameter `now`; the cursor loops take fuel (any fuel ≥ the
    broadcast address suffices: no hang).
-/
import PacketVerif.Lemmas.DhcpSrvTieDisc
import PacketVerif.Lemmas.DhcpSrvTieReq
namespace PV.Props.C11SrvTie
open PV PV.Model.Dhcp4Srv PV.Model.DhcpSrvGo PV.Lemmas.Dhcp4Srv PV.Lemmas.DhcpSrvTie PV.Gen.DhcpSrv

/-! ### pure predicates and allocation -/

/-- `getClientID` : option 61 unless absent or empty, else chaddr -/
theorem getClientID_tie (cfg : Cfg) (s : State) (m : Msg) : getClientID cfg s m = clientId m :=
  PV.Lemmas.DhcpSrvTie.getClientID_tie cfg s m

/-- `takenByOther` : the session tracks the address for another MAC -/
theorem takenByOther_tie (cfg : Cfg) (s : State) (c : Cid) (ip : AddrV) :
    Handler_takenByOther cfg s c ip = takenByOther s (L s c).mac (AddrV.toOpt ip) :=
  PV.Lemmas.DhcpSrvTie.takenByOther_tie cfg s c ip

/-- `inUse` (after fix abb3cf0) : a non-free lease of ANOTHER client holds the address, or takenByOther; every entry is visited -/
theorem inUse_tie (cfg : Cfg) (s : State) (hu : KeysUnique s.table) (c : Cid) (o : Option IP) :
    Handler_inUse cfg s c (AddrV.ofOpt o) = (inUse s.table c o || takenByOther s (L s c).mac o) :=
  PV.Lemmas.DhcpSrvTie.inUse_tie cfg s hu c o

/-- `available` : the seven static exclusions, then `!inUse && FindIP == nil` -/
theorem available_tie (cfg : Cfg) (s : State) (hu : KeysUnique s.table) (c : Cid) (a : IP) :
    Handler_available cfg s c (AddrV.v4 a) = available cfg s c (L s c).sub a :=
  PV.Lemmas.DhcpSrvTie.available_tie cfg s hu c a

/-- … and an address that is not IPv4 is never available -/
theorem available_not4 (cfg : Cfg) (s : State) (c : Cid) (ip : AddrV) (h : AddrV.is4 ip = false) :
    Handler_available cfg s c ip = false :=
  PV.Lemmas.DhcpSrvTie.available_not4 cfg s c ip h

/-- `allocIPOffer` : the requested address if available, else the two cursor loops = the model's `scan`s; with fuel ≥ the
    broadcast address the loops do not hang; the cursor afterwards and the stored offer are the model's; error iff exhausted -/
theorem allocIPOffer_tie (cfg : Cfg) (fuel : Nat) (s : State) (hu : KeysUnique s.table) (c : Cid) (req : AddrV)
    (hb : (cfg.sub (L s c).sub).bcast < 4294967296) (hf : (cfg.sub (L s c).sub).bcast ≤ fuel) :
    Handler_allocIPOffer cfg fuel s c req =
      some (match allocIPOffer cfg s c (L s c).sub req with
        | (some ip, cur) => (updL (setCursor s (L s c).sub cur) c (fun l => { l with offer := some ip }), false)
        | (none, cur) => (setCursor s (L s c).sub cur, true)) :=
  PV.Lemmas.DhcpSrvTie.allocIPOffer_tie cfg fuel s hu c req hb hf

/-- `findOrCreate` : the entry is kept iff it exists in the subnet selected by the capture state with the same MAC,
    else a fresh free lease replaces it under the same key; the returned pointer is the key -/
theorem findOrCreate_tie (cfg : Cfg) (s : State) (c : Cid) (mac : MAC) :
    Handler_findOrCreate cfg s c mac = (if focKeeps s c mac then s else tableSet s c (freshLease mac (selSub s mac)), c) :=
  PV.Lemmas.DhcpSrvTie.findOrCreate_tie cfg s c mac

/-- … and the lease behind the returned pointer is the model's `findOrCreate` (incl. the subnet-change branch) -/
theorem findOrCreate_lease (cfg : Cfg) (s : State) (c : Cid) (mac : MAC) :
    L (Handler_findOrCreate cfg s c mac).1 (Handler_findOrCreate cfg s c mac).2 = findOrCreate s c mac := by
  rw [(findOrCreate_fields cfg s c mac).2.2.2.2.2]
  exact has_L (findOrCreate_has cfg s c mac)

theorem delete_tie (cfg : Cfg) (s : State) (c : Cid) : Handler_delete cfg s c = { s with table := delLease s.table c } := rfl

/-- `freeLeases` : every non-free entry whose lease time is over becomes free, nothing else changes -/
theorem freeLeases_tie (cfg : Cfg) (s : State) (hu : KeysUnique s.table) (now : Nat) :
    Handler_freeLeases cfg s now = ({ s with table := freeLeases s.table now }, false) :=
  PV.Lemmas.DhcpSrvTie.freeLeases_tie cfg s hu now

/-- `MinuteTicker` = the model's `minuteTick` step -/
theorem minuteTicker_tie (cfg : Cfg) (s : State) (hu : KeysUnique s.table) (now : Nat) :
    [((Handler_MinuteTicker cfg s now).1, ([] : List Reply))] = step cfg s (.minuteTick now) :=
  PV.Lemmas.DhcpSrvTie.minuteTicker_tie cfg s hu now

/-! ### message handlers (compared after `touch · (clientId m)`) -/

/-- `handleDiscover` = the model's `discover`: no hang, same state, same OFFER (or silence when exhausted) -/
theorem handleDiscover_tie (cfg : Cfg) (now fuel : Nat) (s : State) (hu : KeysUnique s.table) (m : Msg)
    (hb : ∀ sub, (cfg.sub sub).bcast < 4294967296) (hf : ∀ sub, (cfg.sub sub).bcast ≤ fuel) :
    ∃ s' r, Handler_handleDiscover cfg now fuel s m = some (s', r)
      ∧ touch s' (clientId m) = touch (discover cfg s now m).1 (clientId m)
      ∧ r.toList = (discover cfg s now m).2 :=
  PV.Lemmas.DhcpSrvTie.handleDiscover_tie cfg now fuel s hu m hb hf

/-- `handleRequest` = the model's `request` (selecting / renewing / rebinding / init-reboot arms, NAK / silence / ACK);
    `senderIP` is the source address of the IP packet -/
theorem handleRequest_tie (cfg : Cfg) (now : Nat) (s : State) (hu : KeysUnique s.table) (host : Option MAC) (m : Msg) :
    touch (Handler_handleRequest cfg now s host m (AddrV.v4 m.srcIP)).1 (clientId m) = touch (request cfg s now m).1 (clientId m)
    ∧ (Handler_handleRequest cfg now s host m (AddrV.v4 m.srcIP)).2.toList = (request cfg s now m).2 :=
  PV.Lemmas.DhcpSrvTie.Req.handleRequest_tie cfg now s hu host m

theorem handleDecline_tie (cfg : Cfg) (s : State) (m : Msg) :
    touch (Handler_handleDecline cfg s m).1 (clientId m) = touch (decline cfg s m).1 (clientId m)
      ∧ (Handler_handleDecline cfg s m).2.toList = (decline cfg s m).2 :=
  PV.Lemmas.DhcpSrvTie.handleDecline_tie cfg s m

theorem handleRelease_tie (cfg : Cfg) (s : State) (m : Msg) :
    touch (Handler_handleRelease cfg s m).1 (clientId m) = touch (release cfg s m).1 (clientId m)
      ∧ (Handler_handleRelease cfg s m).2.toList = (release cfg s m).2 :=
  PV.Lemmas.DhcpSrvTie.handleRelease_tie cfg s m

/-- `touch` changes nothing a lookup, `inUse` of any client or the oracles can see: same entry under every key -/
theorem touch_getLease (s : State) (c k : Cid) : getLease (touch s c).table k = getLease s.table k := by
  unfold touch
  cases hg : getLease s.table c with
  | none => rfl
  | some l =>
    show getLease (setLease s.table c l) k = _
    by_cases hk : c = k
    · subst hk; rw [getLease_setLease_self, hg]
    · unfold setLease
      rw [getLease_cons]
      have : (c == k) = false := by simpa using hk
      simp only [this, Bool.false_eq_true, if_false]
      unfold getLease delLease
      rw [List.find?_filter]
      have hp : (fun (a : Cid × Lease) => decide ((a.1 != c) = true ∧ (a.1 == k) = true)) = (fun e => e.1 == k) := by
        funext e
        by_cases he : e.1 = k
        · subst he
          have : (e.1 != c) = true := by simpa [bne] using fun h => hk h.symm
          simp [this]
        · have : (e.1 == k) = false := by simpa using he
          simp [this]
      rw [hp]

/-! ### the pinned lists (plain comments on purpose: a failing `rfl` is reported at the first line of the declaration) -/

-- every listed function is translated …
theorem srv_translated_reviewed : dhcpSrvTranslated = [
  "getClientID",
  "Handler_takenByOther",
  "Handler_inUse",
  "Handler_available",
  "Handler_allocIPOffer",
  "Handler_findOrCreate",
  "Handler_delete",
  "Handler_freeLeases",
  "Handler_MinuteTicker",
  "Handler_handleDiscover",
  "Handler_handleRequest",
  "Handler_handleDecline",
  "Handler_handleRelease",
  "Handler_ProcessPacket"] := rfl

-- … including, since builder U, `ProcessPacket` (the `packet.Frame` parameter is read through the record `FrameV` of
-- Model/DhcpDispatchGo.lean; its tie to `Model.Dhcp4Frame.processRaw` is Props/C12DispatchTie): nothing is refused
theorem srv_untranslated_reviewed : dhcpSrvUntranslated = [
  ] := rfl

-- the statements without a model counterpart (logging, locks, side traffic, the lease-file save, session effects that
-- are environment ops of the model - each with the modelled statement it stands before: the model reads the session
-- oracles in the pre-state -, the unmodelled fields Name / OfferExpiry / Count), in source order
theorem srv_ignored_reviewed : dhcpSrvIgnored = [
  "Handler_allocIPOffer: log: if Logger.IsInfo() { Logger.Msg(\"offer\").IP(\"ip\", lease.IPOffer).Write() }",
  "Handler_allocIPOffer: log: if Logger.IsInfo() { Logger.Msg(\"offer\").IP(\"ip\", lease.IPOffer).Write() }",
  "Handler_findOrCreate: unmodelled: if name != \"\" && lease.Name != name { lease.Name = name }",
  "Handler_findOrCreate: log: Logger.Msg(\"client changed subnet\").ByteArray(\"clientID\", lease.ClientID). String(\"from\", …",
  "Handler_findOrCreate: unmodelled: lease.Name = name",
  "Handler_findOrCreate: log: if Logger.IsDebug() { Logger.Msg(\"new lease allocated\").Struct(lease).Write() }",
  "Handler_freeLeases: log: if Logger.IsInfo() { Logger.Msg(\"freeing lease\").Struct(lease).Write() }",
  "Handler_MinuteTicker: lock: h.Lock()",
  "Handler_MinuteTicker: lock: defer h.Unlock()",
  "Handler_handleDiscover: unmodelled: name := string(options[packet.DHCP4OptionHostName])",
  "Handler_handleDiscover: log: if Logger.IsInfo() { Logger.Msg(\"discover rcvd\").ByteArray(\"xid\", p.XId()).ByteArray(\"clie…",
  "Handler_handleDiscover: log: if true { // Always attack: new mode 4 April 21 ; // if h.mode == ModeSecondaryServer || (…",
  "Handler_handleDiscover: log: Logger.Msg(\"discover all ips allocated, failing silently\").Error(err).Write()",
  "Handler_handleDiscover: log: if lease.IPOffer == h.session.NICInfo.HostAddr4.IP || lease.IPOffer == h.session.NICInfo.R…",
  "Handler_handleDiscover: unmodelled: lease.OfferExpiry = now.Add(time.Second * 5)",
  "Handler_handleDiscover: log: if Logger.IsInfo() { Logger.Msg(\"discover options received\").Sprintf(\"options\", options).W…",
  "Handler_handleDiscover: side traffic: if h.mode == ModeSecondaryServer || (h.mode == ModeSecondaryServerNice && lease.subnet.Sta…",
  "Handler_handleDiscover: session effect (environment op of the model), before `return ret`: h.session.SetDHCPv4IPOffer(lease.Addr.MAC, lease.IPOffer, packet.NameEntry{Type: module, N…",
  "Handler_handleDiscover: log: if Logger.IsInfo() { Logger.Msg(\"discover offer OK\").ByteArray(\"xid\", p.XId()).ByteArray(\"…",
  "Handler_handleRequest: unmodelled: nameEntry := packet.NameEntry{Type: module, Name: string(options[packet.DHCP4OptionHostNam…",
  "Handler_handleRequest: log: if Logger.IsInfo() { Logger.Msg(\"request rcvd\").ByteArray(\"xid\", p.XId()).ByteArray(\"clien…",
  "Handler_handleRequest: log: if Logger.IsDebug() { Logger.Msg(\"request parameters\").ByteArray(\"xid\", p.XId()).IP(\"ciadd…",
  "Handler_handleRequest: log: Logger.Msg(\"invalid request IP\").ByteArray(\"xid\", p.XId()).String(\"optionIP\", string(optio…",
  "Handler_handleRequest: log: Logger.Msg(\"request NACK - select is for another server\").ByteArray(\"xid\", p.XId()).IP(\"se…",
  "Handler_handleRequest: session effect (environment op of the model), before `return nil`: h.session.DHCPv4Update(p.CHAddr(), reqIP, nameEntry)",
  "Handler_handleRequest: log: Logger.Msg(\"ignore select for another server\").ByteArray(\"xid\", p.XId()).IP(\"serverIP\", se…",
  "Handler_handleRequest: log: Logger.Msg(\"request NACK - select invalid parameters\").ByteArray(\"xid\", p.XId()).ByteArray…",
  "Handler_handleRequest: log: if Logger.IsInfo() { Logger.Msg(\"request ACK - select\").ByteArray(\"xid\", p.XId()).ByteArra…",
  "Handler_handleRequest: unmodelled: lease.Name = nameEntry.Name",
  "Handler_handleRequest: unmodelled: lease.Count = 0",
  "Handler_handleRequest: unmodelled: if tmp, ok := options[packet.DHCP4OptionHostName]; ok { lease.Name = string(tmp) }",
  "Handler_handleRequest: unmodelled: if Logger.IsDebug() { l := Logger.Msg(\"request ack options recv\").ByteArray(\"xid\", p.XId()…",
  "Handler_handleRequest: lease file: h.saveConfig(h.filename)",
  "Handler_handleRequest: session effect (environment op of the model), before `return ret`: h.session.DHCPv4Update(lease.Addr.MAC, lease.Addr.IP, nameEntry)",
  "Handler_handleRequest: log: Logger.Msg(\"request NACK - renew invalid or expired lease\").ByteArray(\"xid\", p.XId()).IP(\"…",
  "Handler_handleRequest: log: Logger.Msg(\"request NACK - renew address in use by another host\").ByteArray(\"xid\", p.XId()…",
  "Handler_handleRequest: log: if Logger.IsInfo() { Logger.Msg(\"request ACK - renewing\").ByteArray(\"xid\", p.XId()).IP(\"ip…",
  "Handler_handleRequest: session effect (environment op of the model), before `if lease.State == StateFree { Logger.Msg(\"client l…`: h.session.DHCPv4Update(p.CHAddr(), reqIP, nameEntry)",
  "Handler_handleRequest: log: Logger.Msg(\"client lease does not exist\").ByteArray(\"xid\", p.XId()).IP(\"ip\", reqIP).Write(…",
  "Handler_handleRequest: side traffic (goroutine): go h.forceDecline(dupBytes(clientID), h.net1.DefaultGW, dupMAC(p.CHAddr()), reqIP, dupByte…",
  "Handler_handleRequest: log: Logger.Msg(\"request NACK - rebooting\").ByteArray(\"xid\", p.XId()).IP(\"ip\", reqIP).Write()",
  "Handler_handleRequest: side traffic (goroutine): if h.mode == ModeSecondaryServer || (h.mode == ModeSecondaryServerNice && captured) { // A…",
  "Handler_handleRequest: log: if Logger.IsInfo() { if operation == rebooting { Logger.Msg(\"request ACK - rebooting\").Byt…",
  "Handler_handleRequest: log: Logger.Msg(\"error in request - ignore invalid operation\").ByteArray(\"xid\", p.XId()).Uint8(…",
  "Handler_handleDecline: log: Logger.Msg(\"decline for another server - ignore\").ByteArray(\"clientid\", clientID).IP(\"ip\",…",
  "Handler_handleDecline: log: Logger.Msg(\"decline for invalid lease - gnore\").ByteArray(\"clientid\", clientID).IP(\"ip\", r…",
  "Handler_handleDecline: log: Logger.Msg(\"decline\").ByteArray(\"clientid\", clientID).IP(\"serverIP\", serverIP).IP(\"ip\", le…",
  "Handler_handleRelease: log: Logger.Msg(\"release - discard invalid packet\").ByteArray(\"clientid\", clientID).IP(\"serverI…",
  "Handler_handleRelease: log: Logger.Msg(\"release\").ByteArray(\"clientid\", clientID).IP(\"ip\", lease.Addr.IP).MAC(\"mac\", l…",
  "Handler_ProcessPacket: log: if Logger.IsInfo() { Logger.Msg(\"dhcp client packet\").Struct(dhcpFrame).Write() }",
  "Handler_ProcessPacket: log: if Logger.IsDebug() { Logger.Msg(\"process packet\").Label(\"src\").Struct(frame.SrcAddr).Labe…",
  "Handler_ProcessPacket: log: fmt.Println(\"dhcp4 : skiping dhcp - missing message type\")",
  "Handler_ProcessPacket: log: fmt.Println(\"dhcp4 : skiping dhcp packet invalid type \", reqType)",
  "Handler_ProcessPacket: lock: h.Lock()",
  "Handler_ProcessPacket: lock: h.Unlock()",
  "Handler_ProcessPacket: unmodelled: if frame.SrcAddr.IP == packet.IPv4zero || dhcpFrame.Broadcast() { dstAddr = packet.Addr{MA…",
  "Handler_ProcessPacket: log: if Logger.IsDebug() { Logger.Msg(\"send reply to\").Struct(dstAddr).Struct(response).Write()…",
  "Handler_ProcessPacket: unmodelled: srcAddr := packet.Addr{MAC: h.session.NICInfo.HostAddr4.MAC, IP: h.session.NICInfo.HostAdd…",
  "Handler_ProcessPacket: log: Logger.Msg(\"send packet failed\").Error(err).Write()",
  "Handler_ProcessPacket: log: fmt.Println(\"dhcp4: error got dhcp offer\")",
  "Handler_ProcessPacket: log: Logger.Msg(\"message not supported\").Uint8(\"type\", uint8(reqType)).Write()"] := rfl

theorem srv_callees_accounted : dhcpSrvCallees = [
  "bytes.Equal",
  "errors.New",
  "frame.Payload",
  "handler.processClientPacket",
  "ip.AsSlice",
  "ip.Is4",
  "ip.IsUnspecified",
  "ip.IsValid",
  "ip.Less",
  "ip.Next",
  "msg.CHAddr",
  "msg.CIAddr",
  "msg.IsValid",
  "msg.ParseOptions",
  "msg.XId",
  "msgopts[packet.DHCP4OptionClientIdentifier]",
  "msgopts[packet.DHCP4OptionDHCPMessageType]",
  "msgopts[packet.DHCP4OptionRequestedIPAddress]",
  "msgopts[packet.DHCP4OptionServerIdentifier]",
  "nakPacket",
  "netip.AddrFromSlice",
  "packet.CopyBytes",
  "packet.CopyMAC",
  "packet.EncodeDHCP4",
  "packet.OptionsLeaseTime",
  "prefix.Addr",
  "prefix.Contains",
  "sendDHCP4Packet",
  "session.FindIP",
  "session.IsCaptured",
  "sub.CopyOptions",
  "time.Add",
  "time.Before",
  "time.Now"] := rfl

theorem srv_assumptions_accounted : dhcpSrvAssumptions = [
  "a *Lease is the key of its entry in Handler.table: Lease.ClientID is assigned once, on the fresh object, before the pointer is stored under string(ClientID) (checked: no other assignment in the package)",
  "netip.Addr values stored in Lease.Addr.IP / Lease.IPOffer / dhcpSubnet.nextIP are invalid or IPv4 (AddrV.toOpt / AddrV.toNat lose an IPv6 address); the configuration fields of a dhcpSubnet are IPv4",
  "range over Handler.table visits the entries in the order of the model's list (Go: unspecified)",
  "Session.FindIP of a non-IPv4 address finds nothing; only MACEntry.MAC is read through the returned *Host",
  "time.Time is a number of seconds; Before is <, Add is + (no overflow)",
  "EncodeDHCP4 / nakPacket / CopyOptions / OptionsLeaseTime are dictionary entries (encodeReply, nakReplyV, OptsV): their bodies are tied by C08/C12's encoder ties and the step correspondence, not here",
  "a for-condition loop takes fuel; the tie theorems show which fuel suffices",
  "ProcessPacket reads the frame through FrameV: IsValid / ParseOptions / the getters of the payload view are regenerated and tied elsewhere (F10, F14, F5) and enter as the fields valid / mtOpt / m; processClientPacket (client.go) and the connection's WriteTo are environment values (clientRet, sendErr); a reply value is nil iff the in-place encoder found no room (replyPresent = Dhcp4Frame.fits of cap(frame.Payload())); the destination address of the reply (broadcast flag / zero source) is an unmodelled local (tied by ComposeDhcpFrame and the dhcp.raw frames)"] := rfl

/-! ### the regenerated code runs (non-vacuity) -/

private def n1 : Subnet := { lan := 256, bits := 24, gw := 257, dns := 257, server := 258, first := 257, dur := 60 }
private def n2 : Subnet := { lan := 512, bits := 24, gw := 513, dns := 513, server := 258, first := 513, dur := 60 }
private def cfg0 : Cfg := { mode := .primary, host := 258, router := 257, net1 := n1, net2 := n2 }
private def m0 : Msg := { chaddr := [1, 2, 3, 4, 5, 6], cidOpt := none, reqOpt := none, srvOpt := none, xid := [9], ciaddr := 0, yiaddr := 0, srcIP := 0, bflag := false }

/-- first DISCOVER on the empty table: .1 is the gateway / router, .2 the host, so .3 is offered and the cursor stops at .4 -/
example : (Handler_handleDiscover cfg0 0 600 (init cfg0) m0).map (fun r => (r.1.next1, r.2.map (·.yiaddr), r.1.table.map (·.2.state)))
    = some (260, some 259, [LState.discover]) := by decide
/-- with too little fuel the translated loop reports the hang (so the fuel hypothesis of the ties is not vacuous) -/
example : Handler_handleDiscover cfg0 0 1 (init cfg0) m0 = none := by decide
/-- a REQUEST in init-reboot state for an address nobody leased is refused with a NAK -/
private def m1 : Msg := { m0 with reqOpt := some [0, 0, 1, 3] }
example : (Handler_handleRequest cfg0 0 (init cfg0) none m1 (AddrV.v4 0)).2.map (fun r => r.typ) = some RType.nak := by
  decide

end PV.Props.C11SrvTie
