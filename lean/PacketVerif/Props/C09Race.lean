/-
  C09 — data-race freedom of lockset-disciplined programs, for any number of threads, any programs and
  any interleaving (Model/Lockset.lean).  Instantiated on the Go code by the regenerated lockset facts
  in Props/C09RaceTie.lean.

  `Race s`  : two different threads are about to access the same location and one of them writes
              (two conflicting accesses enabled in the same state — not ordered by a release→acquire).
  `Follows` : every access in a thread's program is allowed by the policy for the locks held at that point.
  `Compat`  : two allowed conflicting accesses of different threads share a lock held exclusively by one.
-/
import PacketVerif.Lemmas.Lockset
namespace PV.Props.C09Race
open PV.Model.Lockset PV.Lemmas.Lockset

section
variable {L X : Type} [DecidableEq L]

/-- **Lockset theorem.**  If the policy satisfies the pairwise lockset condition and every thread follows it,
    then no state reachable under any schedule contains a data race. -/
theorem no_race_of_policy (P : Policy L X) (hP : Compat P) (s0 s : State L X)
    (hc : Consistent s0) (hf : AllFollow P s0) (hr : Reach s0 s) : ¬ Race s := by
  intro hrace
  obtain ⟨hcs, hfs⟩ := invariants_reach hr hc hf
  obtain ⟨i, j, ti, tj, x, wi, wj, hij, hi, hj, hni, hnj, hw⟩ := hrace
  have pi := allowed_of_next (hfs i ti hi) hni
  have pj := allowed_of_next (hfs j tj hj) hnj
  obtain ⟨l, ⟨he, m, hm⟩ | ⟨he, m, hm⟩⟩ := hP i j x ti.held tj.held wi wj hij pi pj hw
  · exact hcs i j ti tj hij hi hj l he m hm
  · exact hcs j i tj ti (Ne.symm hij) hj hi l he m hm

/-- **Guarded-by discipline ⇒ race freedom.**  With a guard per location — a lock (reads hold it at least
    shared, writes exclusively), a lock set (writers hold all exclusively, readers at least one), immutable, or
    owned by one thread — programs all of whose accesses respect their guard never race, from any initial
    state that respects mutual exclusion. -/
theorem no_race_of_guards (g : X → Guard L) (s0 s : State L X)
    (hc : Consistent s0) (hf : AllFollow (guardPolicy g) s0) (hr : Reach s0 s) : ¬ Race s :=
  no_race_of_policy (guardPolicy g) (guardPolicy_compat g) s0 s hc hf hr

/-- the same from the start of the programs (nobody holds a lock), for any number of threads -/
theorem no_race_from_init (g : X → Guard L) (progs : List (List (Op L X)))
    (hf : ∀ (i : Nat) (p : List (Op L X)), progs[i]? = some p → Follows (guardPolicy g) i [] p)
    (s : State L X) (hr : Reach (init progs) s) : ¬ Race s := by
  apply no_race_of_guards g (init progs) s (consistent_init progs) _ hr
  intro i t hi
  unfold init at hi
  rw [List.getElem?_map] at hi
  cases hp : progs[i]? with
  | none => rw [hp] at hi; cases hi
  | some p =>
    rw [hp] at hi
    cases Option.some.inj hi
    exact hf i p hp

/-- the discipline and mutual exclusion are invariants of every execution -/
theorem discipline_invariant (P : Policy L X) (s0 s : State L X)
    (hc : Consistent s0) (hf : AllFollow P s0) (hr : Reach s0 s) : Consistent s ∧ AllFollow P s :=
  invariants_reach hr hc hf

end

/-! ### Non-vacuity -/

/-- location 7 is guarded by lock 0 -/
def g7 : Nat → Guard Nat := fun _ => .lock 0

/-- a writer under the exclusive lock and a reader under the shared lock … -/
def goodProgs : List (List (Op Nat Nat)) :=
  [[.acq 0 .excl, .write 7, .rel 0], [.acq 0 .shared, .read 7, .rel 0], [.acq 0 .shared, .read 7, .rel 0]]

/-- … follow the discipline, hence never race (two readers under the shared lock are allowed) -/
theorem good_never_races (s : State Nat Nat) (hr : Reach (init goodProgs) s) : ¬ Race s := by
  apply no_race_from_init g7 goodProgs _ s hr
  intro i p hp
  match i, hp with
  | 0, hp => cases Option.some.inj hp; simp [Follows, guardPolicy, g7]
  | 1, hp => cases Option.some.inj hp; simp [Follows, guardPolicy, g7, holdsSome]
  | 2, hp => cases Option.some.inj hp; simp [Follows, guardPolicy, g7, holdsSome]
  | n + 3, hp => simp [goodProgs] at hp

/-- the same writer next to a writer that forgot the lock: the second program violates the discipline … -/
def badProgs : List (List (Op Nat Nat)) := [[.acq 0 .excl, .write 7, .rel 0], [.write 7]]

theorem bad_violates : ¬ Follows (guardPolicy g7) 1 [] [Op.write 7] := by
  simp [Follows, guardPolicy, g7]

/-- … and a racy state is reachable: after the first thread took the lock both are about to write 7 -/
theorem bad_races : ∃ s, Reach (init badProgs) s ∧ Race s := by
  refine ⟨[⟨[(0, .excl)], [.write 7, .rel 0]⟩, ⟨[], [.write 7]⟩], ?_, ?_⟩
  · have h : Step (init badProgs) ((init badProgs).set 0 ⟨(0, Mode.excl) :: [], [.write 7, .rel 0]⟩) :=
      Step.acq (init badProgs) 0 ⟨[], [.acq 0 .excl, .write 7, .rel 0]⟩ 0 .excl [.write 7, .rel 0] rfl rfl
        (by
          intro t ht m
          simp [init, badProgs] at ht
          rcases ht with rfl | rfl <;> simp)
    exact Reach.step (Reach.refl _) h
  · exact ⟨0, 1, _, _, 7, true, true, by decide, rfl, rfl, ⟨_, rfl⟩, ⟨_, rfl⟩, Or.inl rfl⟩

/-- a read lock does not protect a write: writer under the *shared* lock next to a reader — racy state reachable -/
theorem shared_write_races :
    ∃ s, Reach (init ([[.acq 0 .shared, .write 7, .rel 0], [.acq 0 .shared, .read 7, .rel 0]] : List (List (Op Nat Nat)))) s ∧ Race s := by
  let p0 : List (Op Nat Nat) := [.acq 0 .shared, .write 7, .rel 0]
  let p1 : List (Op Nat Nat) := [.acq 0 .shared, .read 7, .rel 0]
  let s1 : State Nat Nat := [⟨[(0, .shared)], [.write 7, .rel 0]⟩, ⟨[], p1⟩]
  let s2 : State Nat Nat := [⟨[(0, .shared)], [.write 7, .rel 0]⟩, ⟨[(0, .shared)], [.read 7, .rel 0]⟩]
  refine ⟨s2, ?_, ?_⟩
  · have h1 : Step (init [p0, p1]) s1 :=
      Step.acq (init [p0, p1]) 0 ⟨[], p0⟩ 0 .shared [.write 7, .rel 0] rfl rfl
        (by
          intro t ht
          simp [init] at ht
          rcases ht with rfl | rfl <;> simp)
    have h2 : Step s1 s2 :=
      Step.acq s1 1 ⟨[], p1⟩ 0 .shared [.read 7, .rel 0] rfl rfl
        (by
          intro t ht
          simp [s1] at ht
          rcases ht with rfl | rfl <;> simp)
    exact Reach.step (Reach.step (Reach.refl _) h1) h2
  · exact ⟨0, 1, _, _, 7, true, false, by decide, rfl, rfl, ⟨_, rfl⟩, ⟨_, rfl⟩, Or.inl rfl⟩

end PV.Props.C09Race
