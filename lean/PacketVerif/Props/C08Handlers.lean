/-
  C08 (handler bodies after classification) — `arp.ProcessPacket`, `Handler6.ProcessPacket` (+ `Handler6.Close`)
  and the ICMPv4 logger RETURN on every raw Ethernet frame and in every handler state the handlers' own
  operations can produce: no panic, no hang, the handler mutex is released, at most one frame is written.

  The model is Model/Handlers.lean: the packet loop (`Session.Parse`, drop on error, dispatch on PayloadID)
  composed with the whole body of the handler — hunt-list lookup, forged reply / probe reject through
  `reply` (encoders of Model/Encode.lean into the pooled buffer, `Conn.WriteTo`), the wake-up of the spoof
  loops (`close(ch)`), the `repeat` throttle, option parsing, `findOrCreateRouter` (map write), the router
  entry update, our own neighbour solicitation for a global target.  Every Go operation of these bodies that
  can fail at run time is an explicit `Outcome.panic` / `Outcome.hang` branch of the model (list in the
  header of Model/Handlers.lean); the examples at the end of this file show each of those branches being
  taken when the hypothesis that excludes it is dropped — the theorems are not true by construction.

  Hypotheses (all are facts the constructors establish, none is about the frame):
    `ArpEnvOK` / `H6EnvOK`   `session.Conn` is not nil (`NewSession` opens one when the caller gives none),
                             `NICInfo.HostAddr4.MAC` has 6 bytes, `HostLLA` is an IPv6 address, the pooled
                             buffer (1522 bytes in Go) has room for the frame (42 / 86 bytes)
    `st.mu = false`          the call does not start while the same goroutine holds the handler mutex
    `Inv6`                   `LANRouters` is a map and `closeChan` is closed only after `Close` — true of `new6`
                             and preserved by every operation (`icmp6_history_total`)
  Proofs in Lemmas/Handlers.lean.
-/
import PacketVerif.Lemmas.Handlers
set_option linter.unusedSimpArgs false
namespace PV.Props.C08Handlers
open PV PV.Model PV.Model.Handlers PV.Lemmas PV.Lemmas.Handlers

/-! ### ARP -/

/-- **`arp.ProcessPacket` returns for EVERY `Frame` value and every byte string** whose payload offset lies
    inside the buffer, in every handler state (any hunt list): a value or an error, never a panic or a hang;
    `arpMutex` is free again, the hunt list is untouched, at most one frame was written. -/
theorem arp_handler_total (e : ArpEnv) (he : ArpEnvOK e) (st : ArpSt) (hmu : st.mu = false) (fr : Frame)
    (p : Bytes) (hoff : fr.offPayload ≤ p.length) :
    ∃ st' r, arpProcess e st fr p = .ok (st', r) ∧ st'.mu = false ∧ st'.hunt = st.hunt ∧
      AtMostOne st.sent st'.sent :=
  arpProcess_ok e he st hmu fr p hoff

/-- **the packet loop + the ARP handler return on every raw frame** (every byte string), in every state -/
theorem arp_frame_total (e : ArpEnv) (he : ArpEnvOK e) (st : ArpSt) (hmu : st.mu = false) (p : Bytes) :
    ∃ st' d, arpFrame e st p = .ok (st', d) ∧ st'.mu = false ∧ st'.hunt = st.hunt ∧
      AtMostOne st.sent st'.sent := by
  obtain ⟨r, hp, _⟩ := parse_spec e.cfg.parse p
  unfold arpFrame
  rw [hp]
  simp only [Outcome.bind_ok]
  by_cases herr : r.err.isSome = true
  · rw [if_pos herr]; exact ⟨_, _, rfl, hmu, rfl, Or.inl rfl⟩
  rw [if_neg herr]
  by_cases hpid : r.frame.pid ≠ Pid.arp
  · rw [if_pos hpid]; exact ⟨_, _, rfl, hmu, rfl, Or.inl rfl⟩
  rw [if_neg hpid]
  have hoff := (parse_arp_off e.cfg.parse p r hp (by simpa using herr) (by simpa using hpid))
  obtain ⟨st', ret, h1, h2, h3, h4⟩ := arpProcess_ok e he st hmu r.frame p (by omega)
  rw [h1]
  exact ⟨_, _, rfl, h2, h3, h4⟩

/-- a frame that is written by the request / probe branches is the forged reply, byte for byte: Ethernet
    destination and ARP target = the asking host, ARP sender = our MAC with the address asked for -/
theorem arp_reply_bytes (e : ArpEnv) (he : ArpEnvOK e) (st : ArpSt) (dst sip tip : Bytes)
    (h1 : dst.length = 6) (h2 : sip.length = 4) (h3 : tip.length = 4) (hup : e.conn = .up) :
    ∃ st', arpReply e st dst e.cfg.parse.hostMAC sip dst tip = .ok (st', true) ∧
      st'.sent = st.sent ++ [dst ++ e.cfg.parse.hostMAC ++ [8, 6] ++ [0, 1, 8, 0, 6, 4, 0, 2] ++
        e.cfg.parse.hostMAC ++ sip ++ dst ++ tip] := by
  unfold arpReply
  rw [sendARP_frame e.pool e.cfg.parse.hostMAC dst 2 e.cfg.parse.hostMAC sip dst tip he.host h1 he.host h2 h1 h3
    (by omega) he.pool, hup]
  exact ⟨_, rfl, rfl⟩

/-- histories: any interleaving of received frames and hunt-list changes (StartHunt / StopHunt, abstracted
    as an arbitrary new list) -/
inductive ArpOp where
  | frame (p : Bytes)
  | setHunt (l : List Bytes)

def arpRun (e : ArpEnv) : ArpSt → List ArpOp → Outcome ArpSt
  | st, [] => .ok st
  | st, .frame p :: ops => do let (st, _) ← arpFrame e st p; arpRun e st ops
  | st, .setHunt l :: ops => arpRun e { st with hunt := l } ops

/-- **every history of frames returns** -/
theorem arp_history_total (e : ArpEnv) (he : ArpEnvOK e) (ops : List ArpOp) :
    ∀ st : ArpSt, st.mu = false → ∃ st', arpRun e st ops = .ok st' ∧ st'.mu = false := by
  induction ops with
  | nil => intro st h; exact ⟨st, rfl, h⟩
  | cons op ops ih =>
    intro st h
    cases op with
    | frame p =>
      obtain ⟨st', d, h1, h2, _, _⟩ := arp_frame_total e he st h p
      simp only [arpRun, h1, Outcome.bind_ok]
      exact ih st' h2
    | setHunt l => exact ih { st with hunt := l } h

/-! ### ICMPv6 -/

/-- **`Handler6.ProcessPacket` returns for EVERY `Frame` value and every byte string** satisfying Parse's
    postcondition `FrameOK6`, in every handler state satisfying `Inv6` (any hunt list, router table, default
    router, `repeat` counter, open or closed): never a panic or a hang; the handler mutex is free again; hunt
    list, `closed`, the channel state and the map are left as they were; at most one frame was written. -/
theorem icmp6_handler_total (e : H6Env) (he : H6EnvOK e) (st : H6St) (hmu : st.mu = false) (hinv : Inv6 st)
    (fr : Frame) (p : Bytes) (hf : FrameOK6 fr p) :
    ∃ st' r, h6Process e st fr p = .ok (st', r) ∧ st'.mu = false ∧ Keeps6 st st' ∧
      AtMostOne st.sent st'.sent :=
  h6Process_ok e he st hmu hinv fr p hf

theorem keeps_inv (st st' : H6St) (h : Keeps6 st st') (hinv : Inv6 st) : Inv6 st' := by
  obtain ⟨_, h2, h3, h4⟩ := h
  exact ⟨h4.trans hinv.1, fun hc => by rw [h2]; exact hinv.2 (h3 ▸ hc)⟩

/-- **the packet loop + the ICMPv6 handler return on every raw frame** (every byte string) -/
theorem icmp6_frame_total (e : H6Env) (he : H6EnvOK e) (st : H6St) (hmu : st.mu = false) (hinv : Inv6 st)
    (p : Bytes) :
    ∃ st' d, h6Frame e st p = .ok (st', d) ∧ st'.mu = false ∧ Inv6 st' ∧ Keeps6 st st' ∧
      AtMostOne st.sent st'.sent := by
  obtain ⟨r, hp, _⟩ := parse_spec e.cfg p
  unfold h6Frame
  rw [hp]
  simp only [Outcome.bind_ok]
  by_cases herr : r.err.isSome = true
  · rw [if_pos herr]; exact ⟨_, _, rfl, hmu, hinv, ⟨rfl, rfl, rfl, rfl⟩, Or.inl rfl⟩
  rw [if_neg herr]
  by_cases hpid : r.frame.pid ≠ Pid.icmp6
  · rw [if_pos hpid]; exact ⟨_, _, rfl, hmu, hinv, ⟨rfl, rfl, rfl, rfl⟩, Or.inl rfl⟩
  rw [if_neg hpid]
  have hf := parse_frameOK6 e.cfg p r hp (by simpa using herr) (by simpa using hpid)
  obtain ⟨st', ret, h1, h2, h3, h4⟩ := h6Process_ok e he st hmu hinv r.frame p hf
  rw [h1]
  exact ⟨_, _, rfl, h2, keeps_inv st st' h3 hinv, h3, h4⟩

/-- `Close` returns in every state of the invariant and keeps it (a second `Close` is a no-op) -/
theorem close6_total (st : H6St) (hmu : st.mu = false) (hinv : Inv6 st) :
    ∃ st', close6 st = .ok st' ∧ st'.mu = false ∧ Inv6 st' ∧ st'.base.closed = true :=
  close6_ok st hmu hinv

/-- what `New6` builds satisfies the invariant -/
theorem inv6_new : Inv6 new6 ∧ new6.mu = false := ⟨⟨rfl, fun h => by cases h⟩, rfl⟩

/-- histories of a `Handler6`: received frames, `Close`, hunt-list changes (StartHunt / StopHunt abstracted as
    an arbitrary new list), and changes of the process-global `repeat` by other handlers -/
inductive H6Op where
  | frame (p : Bytes)
  | close
  | setHunt (l : List Bytes)
  | envRepeat (v : Int)

def h6Run (e : H6Env) : H6St → List H6Op → Outcome H6St
  | st, [] => .ok st
  | st, .frame p :: ops => do let (st, _) ← h6Frame e st p; h6Run e st ops
  | st, .close :: ops => do let st ← close6 st; h6Run e st ops
  | st, .setHunt l :: ops => h6Run e { st with base := { st.base with hunt := l } } ops
  | st, .envRepeat v :: ops => h6Run e { st with base := { st.base with rep := v } } ops

/-- **every history of a handler built by `New6` returns**: whatever frames arrive, before or after `Close`,
    with whatever hosts hunted — in particular a router advertisement after `Close` does not close
    `closeChan` a second time, and `LANRouters` is never a nil map -/
theorem icmp6_history_total (e : H6Env) (he : H6EnvOK e) (ops : List H6Op) :
    ∀ st : H6St, st.mu = false → Inv6 st → ∃ st', h6Run e st ops = .ok st' ∧ st'.mu = false ∧ Inv6 st' := by
  induction ops with
  | nil => intro st h hi; exact ⟨st, rfl, h, hi⟩
  | cons op ops ih =>
    intro st h hi
    cases op with
    | frame p =>
      obtain ⟨st', d, h1, h2, h3, _, _⟩ := icmp6_frame_total e he st h hi p
      simp only [h6Run, h1, Outcome.bind_ok]
      exact ih st' h2 h3
    | close =>
      obtain ⟨st', h1, h2, h3, _⟩ := close6_total st h hi
      simp only [h6Run, h1, Outcome.bind_ok]
      exact ih st' h2 h3
    | setHunt l => exact ih _ h hi
    | envRepeat v => exact ih _ h hi

/-! ### ICMPv4 (logger) -/

/-- **the packet loop + `Handler4.ProcessPacket` return on every raw frame** (the handler has no state and
    sends nothing; its embedded-IP walk is `Props/C08Ndp.icmp4_process_total`) -/
theorem icmp4_frame_total (c : Model.Cfg) (p : Bytes) : h4Frame c p ≠ .panic ∧ h4Frame c p ≠ .hang := by
  suffices hs : (h4Frame c p).safe = true by
    cases hx : h4Frame c p <;> simp_all [Outcome.safe]
  obtain ⟨r, hp, _⟩ := parse_spec c p
  unfold h4Frame
  rw [hp]
  simp only [Outcome.bind_ok]
  by_cases herr : r.err.isSome = true
  · rw [if_pos herr]; rfl
  rw [if_neg herr]
  by_cases hpid : r.frame.pid ≠ Pid.icmp4
  · rw [if_pos hpid]; rfl
  rw [if_neg hpid]
  obtain ⟨f, err⟩ := r
  cases err with
  | some x => simp at herr
  | none =>
    have hoff := (frame_offsets_le c p f hp).2.2.2.2
    unfold h4Process
    have hpid' : f.pid = Pid.icmp4 := by simpa using hpid
    simp only [hpid', ne_eq, not_true_eq_false, if_false]
    rw [sliceFrom_ok p _ hoff]
    simp only [Outcome.bind_ok]
    have hs := Ndp.icmp4Process_safe (p.drop f.offPayload)
    cases hc : Model.Ndp.icmp4Process (p.drop f.offPayload) with
    | ok cl => rfl
    | err x => rfl
    | panic => rw [hc] at hs; cases hs
    | hang => rw [hc] at hs; cases hs

/-! ### the bodies against the existing frame-level models (Model/ArpFrame, Model/Icmp6Frame) -/

section Refinement
open PV.Lemmas.Ndp PV.Lemmas.Compose PV.Lemmas.ComposeArp PV.Lemmas.ComposeIcmp6
open PV.Spec (at_ u16 field)

/-- the event of the hunt machine (Model/ArpHunt.lean) calls for a packet, in the handler state with hunt list `hunt` -/
def wants (hunt : List Bytes) : ArpHunt.Event → Prop
  | .rxRequest _ smac toRouter => smac ∈ hunt ∧ toRouter = true
  | .rxProbe _ offer tip inLan => ArpHunt.probeRejects offer tip inLan = true
  | _ => False

/-- **the body agrees with the frame-level event model**: whenever `arpFrame` writes a frame, the existing composition
    `ArpFrame.arpEventOf` (Props/ComposeArp proves it equal to the reference reading of the bytes) yields an event of
    the hunt machine that calls for one: a request for the router's address whose ARP sender is hunted, or a probe the
    probe-reject rule answers -/
theorem arp_frame_agrees_with_event (e : ArpEnv) (st : ArpSt) (hmu : st.mu = false) (p : Bytes)
    (st' : ArpSt) (d : Disp) (h : arpFrame e st p = .ok (st', d)) (hs : st'.sent ≠ st.sent) :
    ∃ ev, ArpFrame.arpEventOf e.cfg e.offer p = .ok (some ev) ∧ wants st.hunt ev := by
  obtain ⟨r, hp, _⟩ := parse_spec e.cfg.parse p
  unfold arpFrame at h
  unfold ArpFrame.arpEventOf
  rw [hp] at h ⊢
  simp only [Outcome.bind_ok] at h ⊢
  by_cases herr : r.err.isSome = true
  · rw [if_pos herr] at h; cases h; exact absurd rfl hs
  rw [if_neg herr] at h ⊢
  by_cases hpid : r.frame.pid ≠ Pid.arp
  · rw [if_pos hpid] at h; cases h; exact absurd rfl hs
  rw [if_neg hpid] at h ⊢
  have hoff := (parse_arp_off e.cfg.parse p r hp (by simpa using herr) (by simpa using hpid))
  unfold arpProcess at h
  rw [if_neg hpid, sliceFrom_ok p _ (by omega)] at h
  rw [sliceFrom_ok p _ (by omega)]
  simp only [Outcome.bind_ok] at h ⊢
  obtain ⟨c, hc⟩ := arpClassify_ok (p.drop r.frame.offPayload)
  rw [hc] at h ⊢
  simp only [Outcome.bind_ok, Outcome.pure_eq] at h ⊢
  cases c with
  | request smac sip tip =>
    obtain ⟨l1, l2, l3⟩ := request_lengths _ _ _ _ hc
    simp only [lock, hmu, Bool.false_eq_true, if_false, Outcome.bind_ok] at h
    by_cases hh : smac ∈ st.hunt ∧ tip = e.cfg.routerIP
    · exact ⟨_, rfl, hh.1, by simp [hh.2]⟩
    · rw [if_neg hh] at h
      simp only [unlock, if_true, Outcome.bind_ok, Outcome.pure_eq] at h
      cases h; exact absurd rfl hs
  | probe smac tip =>
    simp only [] at h
    cases ho : e.offer smac with
    | none => rw [ho] at h; cases h; exact absurd rfl hs
    | some o =>
      rw [ho] at h
      simp only [] at h
      by_cases hh : o ≠ tip ∧ Netip.prefixContains e.cfg.parse.lanAddr e.cfg.parse.lanBits tip = true
      · refine ⟨_, rfl, ?_⟩
        simp only [wants, ArpFrame.eventOfClass, ho, ArpHunt.probeRejects, hh.2, Bool.and_true]
        simpa using hh.1
      · rw [if_neg hh] at h; cases h; exact absurd rfl hs
  | _ => cases h; exact absurd rfl hs


open PV.Model.Icmp6Hunt PV.Model.Icmp6Frame in
/-- **the body refines the frame-level model of C14**: the hunt-machine part of the handler state after `h6Frame` is
    the state `Icmp6Frame.processFrame` computes (Props/ComposeIcmp6, Props/C14 `ra_learned_exact` say what that is) -/
theorem icmp6_frame_refines_processFrame (e : H6Env) (st : H6St) (p : Bytes) (st' : H6St) (d : Disp)
    (h : h6Frame e st p = .ok (st', d)) :
    ∃ x, processFrame e.cfg st.base p = .ok (st'.base, x) := by
  obtain ⟨r, hp, hd⟩ := parse_spec e.cfg p
  obtain ⟨hiff, hpay⟩ := decIcmp6 e.cfg p
  rw [← hd] at hiff hpay
  unfold h6Frame at h
  unfold processFrame raInOf
  rw [hp] at h ⊢
  simp only [Outcome.bind_ok] at h ⊢
  by_cases herr : r.err.isSome = true
  · rw [if_pos herr] at h ⊢; cases h; exact ⟨_, rfl⟩
  rw [if_neg herr] at h ⊢
  by_cases hpid : r.frame.pid ≠ Pid.icmp6
  · rw [if_pos hpid] at h ⊢; cases h; exact ⟨_, rfl⟩
  rw [if_neg hpid] at h ⊢
  unfold h6Process at h
  by_cases h0 : r.frame.offIP6 = 0
  · rw [if_pos h0] at h ⊢; cases h; exact ⟨_, rfl⟩
  rw [if_neg h0] at h ⊢
  have hg : icmp6Gate p = true := hiff.1 ⟨Decidable.not_not.1 hpid, Bool.eq_false_iff.2 herr, h0⟩
  have hf := parse_frameOK6 e.cfg p r hp (by simpa using herr) (by simpa using hpid) h0
  rw [sliceFrom_ok p _ (by omega), sliceFrom_ok p _ hf.2.1] at h
  rw [sliceFrom_ok p _ hf.2.1]
  simp only [Outcome.bind_ok] at h ⊢
  by_cases h8 : (p.drop r.frame.offPayload).length < 8
  · rw [if_pos h8] at h ⊢; cases h; exact ⟨_, rfl⟩
  rw [if_neg h8, idx_eq_ok (by omega)] at h
  rw [if_neg h8, idx_eq_ok (by omega)]
  simp only [Outcome.bind_ok] at h ⊢
  by_cases ht : (p.drop r.frame.offPayload)[0]'(by omega) = 134
  · -- router advertisement
    rw [if_pos ht] at h
    rw [if_neg (by simp [ht])]
    simp only [Outcome.pure_eq, Outcome.bind_ok]
    unfold h6RA at h
    unfold processRA
    by_cases h16 : (p.drop r.frame.offPayload).length < 16
    · rw [if_pos h16] at h ⊢; cases h; exact ⟨_, rfl⟩
    rw [if_neg h16] at h
    simp only [if_neg h16]
    cases hl : lock st.mu with
    | err x => rw [hl] at h; cases h
    | panic => rw [hl] at h; cases h
    | hang => rw [hl] at h; cases h
    | ok mu1 =>
      rw [hl] at h
      simp only [Outcome.bind_ok] at h
      -- the wake-up section leaves `base` alone
      generalize hw : (if 0 < st.base.hunt.length ∧ st.base.closed = false then
          (if st.chanClosed = true then Outcome.panic
           else Outcome.ok { st with mu := mu1, wakes := st.wakes + 1 })
         else Outcome.ok ({ st with mu := mu1 } : H6St)) = w at h
      have hwb : ∀ s1, w = .ok s1 → s1.base = st.base := by
        intro s1 hs1
        rw [← hw] at hs1
        split at hs1
        · split at hs1
          · cases hs1
          · cases hs1; rfl
        · cases hs1; rfl
      cases w with
      | err x => cases h
      | panic => cases h
      | hang => cases h
      | ok s1 =>
        have hb1 := hwb s1 rfl
        simp only [Outcome.bind_ok] at h
        cases hu : unlock s1.mu with
        | err x => rw [hu] at h; cases h
        | panic => rw [hu] at h; cases h
        | hang => rw [hu] at h; cases h
        | ok mu2 =>
          rw [hu] at h
          simp only [Outcome.bind_ok, hb1] at h
          by_cases hrep : (st.base.rep + 1) % 4 ≠ 0
          · rw [if_pos hrep] at h; rw [if_pos hrep]
            cases h; exact ⟨_, rfl⟩
          rw [if_neg hrep] at h; rw [if_neg hrep]
          unfold raBody
          by_cases hh : r.frame.hostEv.isNone = true
          · rw [if_pos hh] at h
            have : r.frame.hostEv.isSome = false := by
              cases hx : r.frame.hostEv with
              | none => rfl
              | some v => rw [hx] at hh; cases hh
            simp only [this, if_true]
            cases h; exact ⟨_, rfl⟩
          rw [if_neg hh] at h
          have hk : r.frame.hostEv.isSome = true := by
            cases hx : r.frame.hostEv with
            | none => rw [hx] at hh; exact absurd rfl hh
            | some v => rfl
          simp only [hk, Bool.true_eq_false, if_false]
          cases ho : Ndp.raOptions (p.drop r.frame.offPayload) with
          | err x => rw [ho] at h; cases h; exact ⟨_, rfl⟩
          | panic => rw [ho] at h; cases h
          | hang => rw [ho] at h; cases h
          | ok o =>
            rw [ho] at h
            simp only [] at h ⊢
            rw [slice_eq_ok (by omega) (by omega)] at h
            simp only [Outcome.bind_ok] at h
            cases hl2 : lock mu2 with
            | err x => rw [hl2] at h; cases h
            | panic => rw [hl2] at h; cases h
            | hang => rw [hl2] at h; cases h
            | ok mu3 =>
              rw [hl2] at h
              simp only [Outcome.bind_ok] at h
              split at h
              · cases h
              · cases hh2 : Ndp.raHeader (p.drop r.frame.offPayload) with
                | err x => rw [hh2] at h; cases h
                | panic => rw [hh2] at h; cases h
                | hang => rw [hh2] at h; cases h
                | ok hdr =>
                  rw [hh2] at h
                  simp only [Outcome.bind_ok] at h
                  cases hu2 : unlock mu3 with
                  | err x => rw [hu2] at h; cases h
                  | panic => rw [hu2] at h; cases h
                  | hang => rw [hu2] at h; cases h
                  | ok mu4 =>
                    rw [hu2] at h
                    simp only [Outcome.bind_ok, Outcome.pure_eq] at h
                    cases h
                    rw [srcMAC_of_gate e.cfg p r hp hg]
                    exact ⟨_, rfl⟩
  · -- every other type: the state is not touched
    rw [if_neg ht] at h
    rw [if_pos (by simpa using ht)]
    simp only [Outcome.pure_eq]
    obtain ⟨c, hc⟩ := icmp6Dispatch_ok (p.drop r.frame.offPayload) (r.frame.srcIP.all (· == 0)) r.frame.hostEv.isSome
    rw [hc] at h
    simp only [Outcome.bind_ok] at h
    cases c with
    | nsGlobal =>
      simp only [] at h
      have h24 := nsGlobal_len _ _ _ hc
      rw [slice_eq_ok (by omega) h24, slice_eq_ok (by omega) (by omega),
        slice_eq_ok (by omega) (by rw [List.length_drop]; omega)] at h
      simp only [Outcome.bind_ok] at h
      split at h
      · cases hwt : writeTo e.conn st.sent _ with
        | ok v => rw [hwt] at h; simp only [Outcome.bind_ok, Outcome.pure_eq] at h; cases h; exact ⟨_, rfl⟩
        | err x => rw [hwt] at h; cases h
        | panic => rw [hwt] at h; cases h
        | hang => rw [hwt] at h; cases h
      · cases h; exact ⟨_, rfl⟩
      · cases h
      · cases h
    | _ => cases h; exact ⟨_, rfl⟩


end Refinement

/-! ### non-vacuity: the handlers do act, and every excluded failure is a branch the model takes -/

def wHost : Bytes := [2, 0, 0, 0, 0, 1]
def wArpEnv (c : Conn) (host : Bytes) (room : Nat) : ArpEnv :=
  { cfg := { parse := ⟨host, [2, 0, 0, 0, 0, 0x11], [192, 168, 0, 0], 24⟩, routerIP := [192, 168, 0, 11] },
    conn := c, pool := List.replicate room 0, offer := fun _ => none }
/-- 02:aa:00:00:00:07 (192.168.0.50) asks who has the router's address 192.168.0.11 -/
def wReq : Bytes := [0xff, 0xff, 0xff, 0xff, 0xff, 0xff, 2, 0xaa, 0, 0, 0, 7, 8, 6, 0, 1, 8, 0, 6, 4, 0, 1,
  2, 0xaa, 0, 0, 0, 7, 192, 168, 0, 50, 0, 0, 0, 0, 0, 0, 192, 168, 0, 11]
def wArpSt : ArpSt := { hunt := [[2, 0xaa, 0, 0, 0, 7]] }

/-- the hunted host gets the forged reply "192.168.0.11 is at 02:00:00:00:00:01" -/
example : arpFrame (wArpEnv .up wHost 42) wArpSt wReq =
    .ok ({ wArpSt with sent := [[2, 0xaa, 0, 0, 0, 7, 2, 0, 0, 0, 0, 1, 8, 6, 0, 1, 8, 0, 6, 4, 0, 2,
      2, 0, 0, 0, 0, 1, 192, 168, 0, 11, 2, 0xaa, 0, 0, 0, 7, 192, 168, 0, 50]] }, .ret none) := by decide
/-- a host that is not hunted gets nothing -/
example : arpFrame (wArpEnv .up wHost 42) {} wReq = .ok ({}, .ret none) := by decide
/-- `ArpEnvOK.conn` is needed: a nil `Conn` is a nil dereference inside `reply` -/
example : arpFrame (wArpEnv .nil wHost 42) wArpSt wReq = .panic := by decide
/-- `ArpEnvOK.host` is needed: `EncodeARP` slices `srcAddr.MAC[:6]` -/
example : arpFrame (wArpEnv .up [] 42) wArpSt wReq = .panic := by decide
/-- `ArpEnvOK.pool` is needed: the encoders re-slice the pooled buffer -/
example : arpFrame (wArpEnv .up wHost 30) wArpSt wReq = .panic := by decide
/-- `st.mu = false` is needed: the request branch takes the non-reentrant `arpMutex` -/
example : arpFrame (wArpEnv .up wHost 42) { wArpSt with mu := true } wReq = .hang := by decide

def wEnv6 (c : Conn) : H6Env :=
  { cfg := ⟨wHost, [2, 0, 0, 0, 0, 0x11], [192, 168, 0, 0], 24⟩,
    hostLLA := [0xfe, 0x80, 0, 0, 0, 0, 0, 0, 0, 0, 0, 0, 0, 0, 0, 1], conn := c, pool := List.replicate 86 0 }
/-- router advertisement of fe80::11 (02:00:00:00:00:11) to ff02::1 -/
def wRA : Bytes := [0x33, 0x33, 0, 0, 0, 1, 2, 0, 0, 0, 0, 0x11, 0x86, 0xdd,
  0x60, 0, 0, 0, 0, 16, 58, 255, 0xfe, 0x80, 0, 0, 0, 0, 0, 0, 0, 0, 0, 0, 0, 0, 0, 0x11,
  0xff, 2, 0, 0, 0, 0, 0, 0, 0, 0, 0, 0, 0, 0, 0, 1,
  134, 0, 0, 0, 64, 0, 0, 30, 0, 0, 0, 0, 0, 0, 0, 0]
/-- neighbour solicitation of fe80::7 for the global address 2001:db8::5 -/
def wNS : Bytes := [0x33, 0x33, 0xff, 0, 0, 5, 2, 0xaa, 0, 0, 0, 7, 0x86, 0xdd,
  0x60, 0, 0, 0, 0, 24, 58, 255, 0xfe, 0x80, 0, 0, 0, 0, 0, 0, 0, 0, 0, 0, 0, 0, 0, 7,
  0xff, 2, 0, 0, 0, 0, 0, 0, 0, 0, 0, 1, 0xff, 0, 0, 5,
  135, 0, 0, 0, 0, 0, 0, 0, 0x20, 1, 0x0d, 0xb8, 0, 0, 0, 0, 0, 0, 0, 0, 0, 0, 0, 5]
def wSt6 : H6St := { base := { hunt := [[2, 0xaa, 0, 0, 0, 7]] } }

/-- what the examples look at: disposition, frames written, wake-ups, routers learned, mutex -/
def proj6 : Outcome (H6St × Disp) → Outcome (Disp × Nat × Nat × Nat × Bool)
  | .ok (st, d) => .ok (d, st.sent.length, st.wakes, st.base.routers.length, st.mu)
  | .err e => .err e | .panic => .panic | .hang => .hang

set_option maxRecDepth 40000 in
/-- the advertisement (throttle open: `repeat` = -1) wakes the spoof loops and is learned -/
example : proj6 (h6Frame (wEnv6 .up) wSt6 wRA) = .ok (.ret none, 0, 1, 1, false) := by decide
set_option maxRecDepth 40000 in
/-- `Inv6` is needed (1): `close(ch)` of a closed channel — the state the handler was in before
    `fix: icmp6 ProcessPacket closed closeChan again when a router advertisement arrived after Close` -/
example : proj6 (h6Frame (wEnv6 .up) { wSt6 with chanClosed := true } wRA) = .panic := by decide
set_option maxRecDepth 40000 in
/-- `Inv6` is needed (2): `findOrCreateRouter` writes the map -/
example : proj6 (h6Frame (wEnv6 .up) { wSt6 with lanNil := true } wRA) = .panic := by decide
set_option maxRecDepth 40000 in
example : proj6 (h6Frame (wEnv6 .up) { wSt6 with mu := true } wRA) = .hang := by decide
set_option maxRecDepth 40000 in
/-- after `Close` the advertisement is still learned, without a wake-up and without a second `close` -/
example : proj6 ((close6 wSt6).bind fun st => h6Frame (wEnv6 .up) st wRA) = .ok (.ret none, 0, 0, 1, false) := by
  decide
set_option maxRecDepth 40000 in
/-- a solicitation for a global target makes the handler send its own solicitation -/
example : proj6 (h6Frame (wEnv6 .up) wSt6 wNS) = .ok (.ret none, 1, 0, 0, false) := by decide
set_option maxRecDepth 40000 in
/-- `H6EnvOK.conn` is needed -/
example : proj6 (h6Frame (wEnv6 .nil) wSt6 wNS) = .panic := by decide

end PV.Props.C08Handlers
