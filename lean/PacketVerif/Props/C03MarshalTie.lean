/-
  F22: the allocating NDP encoders regenerated from the Go bodies (Gen/LoopsMarshal.lean) are the closed forms of
  Model/NdpMarshal.lean, for every input.
-/
import PacketVerif.Gen.LoopsMarshal
import PacketVerif.Model.NdpMarshal
namespace PV.Props.C03MarshalTie
open PV PV.Model.LoopGo PV.Model.LoopGoOpts PV.Model.LoopGoMarshal PV.Gen.LoopsMarshal PV.Model.NdpMarshal

theorem setI_0 (a v : UInt8) (r : Bytes) : setI (a :: r) 0 v = .ok (v :: r) := by
  unfold setI
  have : (0 : Int) ≤ 0 ∧ (0 : Int) < ((a :: r).length : Int) := by simp [List.length_cons]
  rw [if_pos this]; rfl

theorem setI_1 (a b v : UInt8) (r : Bytes) : setI (a :: b :: r) 1 v = .ok (a :: v :: r) := by
  unfold setI
  have : (0 : Int) ≤ 1 ∧ (1 : Int) < ((a :: b :: r).length : Int) := by simp; omega
  rw [if_pos this]; rfl

theorem copyI_tail2 (a b : UInt8) (value : Bytes) :
    copyI (a :: b :: List.replicate value.length 0) 2 ((a :: b :: List.replicate value.length (0 : UInt8)).length : Int) value
      = .ok (a :: b :: value, (value.length : Int)) := by
  unfold copyI
  have c : (0 : Int) ≤ 2 ∧ (2 : Int) ≤ ((a :: b :: List.replicate value.length (0 : UInt8)).length : Int) ∧
      ((a :: b :: List.replicate value.length (0 : UInt8)).length : Int) ≤ ((a :: b :: List.replicate value.length (0 : UInt8)).length : Int) := by
    simp; omega
  rw [if_pos c]
  have l : (((a :: b :: List.replicate value.length (0 : UInt8)).length : Int) - 2).toNat = value.length := by simp; omega
  rw [l]
  simp
  omega

theorem rawOption_tie (r : G_RawOption) : genRawOption_marshal r = rawOptMarshal r.Type' r.Length r.Value := by
  unfold genRawOption_marshal rawOptMarshal
  by_cases h : 2 + r.Value.length = (r.Length * 8).toNat
  · have hi : ¬ ((2 : Int) + (r.Value.length : Int) ≠ (((r.Length * (8 : UInt8)).toNat : Nat) : Int)) := by omega
    have hn : (((r.Length * (8 : UInt8)).toNat : Nat) : Int) = ((r.Value.length + 2 : Nat) : Int) := by omega
    rw [if_neg hi, if_pos h, hn]
    unfold makeBytes
    rw [if_pos (by omega)]
    simp only [Int.toNat_natCast, List.replicate_succ, Outcome.bind_ok, setI_0, setI_1, copyI_tail2]
    rfl
  · have hi : ((2 : Int) + (r.Value.length : Int) ≠ (((r.Length * (8 : UInt8)).toNat : Nat) : Int)) := by omega
    rw [if_pos hi, if_neg h]

theorem lla_tie (lla : G_LinkLayerAddress) : genLinkLayerAddress_marshal lla = llaMarshal lla.Direction lla.MAC := by
  unfold genLinkLayerAddress_marshal llaMarshal genLinkLayerAddress_Code
  by_cases hd : lla.Direction = 1 ∨ lla.Direction = 2
  · have hn : ¬ (lla.Direction ≠ 1 ∧ lla.Direction ≠ 2) := by omega
    rw [if_neg hn, if_pos hd]
    by_cases hm : lla.MAC.length = 6
    · have hi : ¬ ((lla.MAC.length : Int) ≠ 6) := by omega
      rw [if_neg hi, if_pos hm]
      simp only [rawOption_tie, rawOptMarshal]
      rcases hd with h | h <;> rw [h] <;> simp [hm, intToUInt8] <;> rfl
    · have hi : ((lla.MAC.length : Int) ≠ 6) := by omega
      rw [if_pos hi, if_neg hm]
  · have hn : (lla.Direction ≠ 1 ∧ lla.Direction ≠ 2) := by omega
    rw [if_pos hn, if_neg hd]

theorem mtu_tie (m : UInt32) : genMTU_marshal m = mtuMarshal m := by
  unfold genMTU_marshal mtuMarshal genMTU_Code
  simp [makeBytes, putBE32I, pokeAt, rawOption_tie, rawOptMarshal, be32Bytes, List.replicate]

/-! ### `(*RecursiveDNSServer).marshal`: the loop that copies each server into its 16-byte slot -/

theorem copy_slot (P s : Bytes) (m : Nat) :
    copyI (P ++ List.replicate (16 * (m + 1)) 0) (P.length : Int) ((P.length : Int) + 16) s =
      .ok ((P ++ pad16 s) ++ List.replicate (16 * m) 0, ((s.take 16).length : Int)) := by
  unfold copyI
  have c : (0 : Int) ≤ (P.length : Int) ∧ (P.length : Int) ≤ (P.length : Int) + 16 ∧
      (P.length : Int) + 16 ≤ ((P ++ List.replicate (16 * (m + 1)) (0 : UInt8)).length : Int) := by
    simp only [List.length_append, List.length_replicate]; omega
  rw [if_pos c]
  have e1 : ((P.length : Int) + 16 - (P.length : Int)).toNat = 16 := by omega
  simp only [e1, Int.toNat_natCast, List.take_left', Outcome.ok.injEq, Prod.mk.injEq, and_true]
  have hk : (s.take 16).length ≤ 16 := by simp; omega
  rw [List.drop_append, List.drop_of_length_le (by omega : P.length ≤ P.length + (s.take 16).length)]
  simp only [Nat.add_sub_cancel_left, List.drop_replicate, List.nil_append]
  have : 16 * (m + 1) - (s.take 16).length = (16 - (s.take 16).length) + 16 * m := by omega
  rw [this, ← List.replicate_append_replicate]
  simp [pad16, List.append_assoc]

theorem rdnssLoop_eq (r : G_RecursiveDNSServer) (ty len : UInt8) :
    ∀ (fuel i : Nat) (P : Bytes), i ≤ r.Servers.length → r.Servers.length - i < fuel → P.length = 6 + 16 * i →
      genRecursiveDNSServer_marshal_loop1 r fuel
          { Type' := ty, Length := len, Value := P ++ List.replicate (16 * (r.Servers.length - i)) 0 } (i : Int) =
        .ok { Type' := ty, Length := len, Value := P ++ ((r.Servers.drop i).map pad16).flatten } := by
  intro fuel
  induction fuel with
  | zero => intro i P _ h; omega
  | succ n ih =>
    intro i P hi hf hP
    unfold genRecursiveDNSServer_marshal_loop1
    by_cases hlt : i < r.Servers.length
    · have hc : (i : Int) < (r.Servers.length : Int) := by omega
      rw [if_pos hc]
      have hidx : listIdxI r.Servers (i : Int) = .ok r.Servers[i] := by
        unfold listIdxI; simp [hlt]
      have hm : r.Servers.length - i = (r.Servers.length - (i + 1)) + 1 := by omega
      have hlo : ((6 : Int) + ((i : Int) * 16)) = (P.length : Int) := by omega
      have hhi : ((22 : Int) + ((i : Int) * 16)) = (P.length : Int) + 16 := by omega
      simp only [hidx, Outcome.bind_ok, hlo, hhi]
      rw [hm, copy_slot]
      simp only [Outcome.bind_ok]
      have := ih (i + 1) (P ++ pad16 r.Servers[i]) (by omega) (by omega) (by simp [pad16_length, hP]; omega)
      rw [show ((i : Int) + 1) = ((i + 1 : Nat) : Int) by omega, this]
      rw [List.drop_eq_getElem_cons hlt, List.map_cons, List.flatten_cons, List.append_assoc]
    · have hc : ¬ (i : Int) < (r.Servers.length : Int) := by omega
      have hd : r.Servers.drop i = [] := List.drop_eq_nil_of_le (by omega)
      have hz : r.Servers.length - i = 0 := by omega
      rw [if_neg hc, hd, hz]
      simp

theorem putBE32I_hdr (R : Bytes) (v : UInt32) :
    putBE32I ([0, 0, 0, 0, 0, 0] ++ R) 2 6 v = .ok ([0, 0] ++ be32Bytes v ++ R) := by
  unfold putBE32I pokeAt
  have c : (0 : Int) ≤ 2 ∧ (2 : Int) ≤ 6 ∧ (6 : Int) ≤ ((([0, 0, 0, 0, 0, 0] : Bytes) ++ R).length : Int) := by
    simp only [List.length_append, List.length_cons, List.length_nil]; omega
  rw [if_pos c, if_pos (by omega)]
  simp [be32Bytes]

theorem u8_twice (n : Nat) : intToUInt8 ((n : Int) * 2) = UInt8.ofNat (2 * n) := by
  unfold intToUInt8
  apply UInt8.toNat_inj.mp
  simp only [UInt8.toNat_ofNat']
  omega

theorem rdnss_tie (r : G_RecursiveDNSServer) :
    genRecursiveDNSServer_marshal r = rdnssMarshal (durSecondsU32 r.Lifetime) r.Servers := by
  unfold genRecursiveDNSServer_marshal rdnssMarshal genRecursiveDNSServer_Code
  by_cases h0 : r.Servers.length = 0
  · have he : r.Servers = [] := List.eq_nil_of_length_eq_zero h0
    simp [he]
  · have hn : ¬ ((r.Servers.length : Nat) : Int) = 0 := by omega
    have hne : r.Servers ≠ [] := fun h => h0 (by simp [h])
    simp only [hn, if_false, hne]
    have hmk : makeBytes ((6 : Int) + ((r.Servers.length : Int) * 16)) =
        .ok (([0, 0, 0, 0, 0, 0] : Bytes) ++ List.replicate (16 * r.Servers.length) 0) := by
      unfold makeBytes
      rw [if_pos (by omega)]
      have : ((6 : Int) + ((r.Servers.length : Int) * 16)).toNat = 6 + 16 * r.Servers.length := by omega
      rw [this, ← List.replicate_append_replicate]
      rfl
    simp only [hmk, Outcome.pure_eq, Outcome.bind_ok, putBE32I_hdr, u8_twice]
    have hl := rdnssLoop_eq r 25 (1 + UInt8.ofNat (2 * r.Servers.length)) (r.Servers.length + 1) 0
      ([0, 0] ++ be32Bytes (durSecondsU32 r.Lifetime)) (by omega) (by omega) (by simp [be32Bytes])
    simp only [Nat.sub_zero, Int.natCast_zero, List.drop_zero] at hl
    have hf : (((r.Servers.length : Int) - 0).toNat + 1) = r.Servers.length + 1 := by omega
    rw [hf, hl]
    simp only [Outcome.bind_ok, rawOption_tie]

theorem slots_length (servers : List Bytes) : ((servers.map pad16).flatten).length = 16 * servers.length := by
  induction servers with
  | nil => rfl
  | cons s r ih => simp only [List.map_cons, List.flatten_cons, List.length_append, pad16_length, ih, List.length_cons]; omega

/-- up to 15 servers the option is emitted: type 25, length 1 + 2n, reserved, lifetime, the 16-byte slots -/
theorem rdnss_ok (life : UInt32) (servers : List Bytes) (h1 : servers ≠ []) (h2 : servers.length ≤ 15) :
    rdnssMarshal life servers =
      .ok (25 :: (1 + UInt8.ofNat (2 * servers.length)) :: ([0, 0] ++ be32Bytes life ++ (servers.map pad16).flatten)) := by
  unfold rdnssMarshal rawOptMarshal
  rw [if_neg h1, if_pos]
  have e8 : (8 : UInt8).toNat = 8 := rfl
  have e1 : (1 : UInt8).toNat = 1 := rfl
  simp only [List.length_append, List.length_cons, List.length_nil, be32Bytes, slots_length, UInt8.toNat_mul, UInt8.toNat_add,
    UInt8.toNat_ofNat', e8, e1]
  omega

/-- from 16 servers on (RFC 8106 allows 127) the option is REFUSED: `int(r.Length * 8)` in `(*RawOption).marshal` is a
    uint8 product, so no option longer than 248 bytes can be encoded; the caller gets io.ErrUnexpectedEOF, nothing is sent -/
theorem rdnss_too_many (life : UInt32) (servers : List Bytes) (h : 16 ≤ servers.length) :
    rdnssMarshal life servers = .err .other := by
  unfold rdnssMarshal rawOptMarshal
  have h1 : servers ≠ [] := fun e => by simp [e] at h
  rw [if_neg h1, if_neg]
  have e8 : (8 : UInt8).toNat = 8 := rfl
  have e1 : (1 : UInt8).toNat = 1 := rfl
  simp only [List.length_append, List.length_cons, List.length_nil, be32Bytes, slots_length, UInt8.toNat_mul, UInt8.toNat_add,
    UInt8.toNat_ofNat', e8, e1]
  omega

/-- one option of the list: the dispatch of `o.marshal()` -/
abbrev optEnc (e1 : G_DNSSearchList → Outcome Bytes) (o : I_Option) : Outcome Bytes :=
  genOption_marshal e1 o

theorem idxL_nat {α : Type} (xs : List α) (k : Nat) (h : k < xs.length) : idxL xs (k : Int) = .ok xs[k] := by
  unfold idxL
  simp [h]

theorem optionsLoop_eq (e1 : G_DNSSearchList → Outcome Bytes) (options : List I_Option) :
    ∀ (fuel k : Nat) (b : Bytes), k ≤ options.length → options.length - k < fuel →
      genmarshalOptions_loop1 e1 options fuel (k : Int) b =
        (do let r ← optionsMarshal ((options.drop k).map (optEnc e1)); pure (b ++ r)) := by
  intro fuel
  induction fuel with
  | zero => intro k b _ h; omega
  | succ n ih =>
    intro k b hk hf
    unfold genmarshalOptions_loop1
    by_cases hlt : k < options.length
    · have hi : (k : Int) < (options.length : Int) := by omega
      rw [if_pos hi, idxL_nat _ _ hlt]
      have hd : options.drop k = options[k] :: options.drop (k + 1) := by
        exact List.drop_eq_getElem_cons hlt
      rw [hd]
      simp only [Outcome.bind_ok, List.map_cons, optionsMarshal, optEnc]
      cases genOption_marshal e1 options[k] with
      | ok ob =>
        simp only [Outcome.bind_ok]
        have := ih (k + 1) (b ++ ob) (by omega) (by omega)
        rw [show ((k : Int) + 1) = ((k + 1 : Nat) : Int) by omega, this]
        cases optionsMarshal (List.map (optEnc e1) (List.drop (k + 1) options)) <;> simp
      | err e => rfl
      | panic => rfl
      | hang => rfl
    · have hi : ¬ (k : Int) < (options.length : Int) := by omega
      have hd : options.drop k = [] := List.drop_eq_nil_of_le (by omega)
      rw [if_neg hi, hd]
      simp [optionsMarshal]

theorem marshalOptions_tie (e1 : G_DNSSearchList → Outcome Bytes) (options : List I_Option) :
    genmarshalOptions e1 options = optionsMarshal (options.map (optEnc e1)) := by
  unfold genmarshalOptions
  have := optionsLoop_eq e1 options (options.length + 1) 0 [] (by omega) (by omega)
  simp only [Int.natCast_zero] at this
  simp only [this, List.drop_zero, List.nil_append]
  cases optionsMarshal (List.map (optEnc e1) options) <;> rfl

theorem rs_tie (e1 : G_DNSSearchList → Outcome Bytes) (rs : G_RouterSolicitation) :
    genRouterSolicitation_marshal e1 rs = rsMarshal (rs.Options.map (optEnc e1)) := by
  unfold genRouterSolicitation_marshal rsMarshal genRouterSolicitation_Type
  rw [marshalOptions_tie]
  cases optionsMarshal (List.map (optEnc e1) rs.Options) <;> simp [makeBytes, intToUInt8, List.replicate]

theorem idxI_1 (a b : UInt8) (r : Bytes) : idxI (a :: b :: r) 1 = .ok b := by
  unfold idxI
  simp [idx]

theorem checkPreference_ok (p : Int) (h : p = 0 ∨ p = 1 ∨ p = 3) : gencheckPreference p = .ok () := by
  unfold gencheckPreference
  rcases h with h | h | h <;> subst h <;> rfl

theorem checkPreference_err (p : Int) (h : ¬ (p = 0 ∨ p = 1 ∨ p = 3)) : gencheckPreference p = .err .other := by
  unfold gencheckPreference
  have : ¬ (((p = (3 : Int)) ∨ (p = (0 : Int))) ∨ (p = (1 : Int))) := by omega
  rw [if_neg this]
  by_cases h2 : p = 2 <;> simp [h2]

/-- the valid-preference part of `ra_tie`, preference 0 (16 flag combinations) -/
theorem ra_tie_p0 (e1 : G_DNSSearchList → Outcome Bytes) (ra : G_RouterAdvertisement)
    (h : ra.RouterSelectionPreference = 0) :
    genRouterAdvertisement_marshal e1 ra =
      raMarshal ra.CurrentHopLimit ra.ManagedConfiguration ra.OtherConfiguration ra.MobileIPv6HomeAgent
        0 ra.NeighborDiscoveryProxy (durSecondsU16 ra.RouterLifetime)
        (intToUInt32 (Int.tdiv ra.ReachableTime 1000000)) (intToUInt32 (Int.tdiv ra.RetransmitTimer 1000000))
        (ra.Options.map (optEnc e1)) := by
  unfold genRouterAdvertisement_marshal raMarshal genRouterAdvertisement_Type
  rw [h, checkPreference_ok _ (by omega), if_pos (by omega), marshalOptions_tie]
  generalize optionsMarshal (List.map (optEnc e1) ra.Options) = X
  cases ra.ManagedConfiguration <;> cases ra.OtherConfiguration <;> cases ra.MobileIPv6HomeAgent <;>
  cases ra.NeighborDiscoveryProxy <;>
  simp [makeBytes, List.replicate, setI_0, setI_1, idxI_1, putBE16I, putBE32I, pokeAt, intToUInt8, raFlags, be32Bytes]

/-- the valid-preference part of `ra_tie`, preference 1 (16 flag combinations) -/
theorem ra_tie_p1 (e1 : G_DNSSearchList → Outcome Bytes) (ra : G_RouterAdvertisement)
    (h : ra.RouterSelectionPreference = 1) :
    genRouterAdvertisement_marshal e1 ra =
      raMarshal ra.CurrentHopLimit ra.ManagedConfiguration ra.OtherConfiguration ra.MobileIPv6HomeAgent
        1 ra.NeighborDiscoveryProxy (durSecondsU16 ra.RouterLifetime)
        (intToUInt32 (Int.tdiv ra.ReachableTime 1000000)) (intToUInt32 (Int.tdiv ra.RetransmitTimer 1000000))
        (ra.Options.map (optEnc e1)) := by
  unfold genRouterAdvertisement_marshal raMarshal genRouterAdvertisement_Type
  rw [h, checkPreference_ok _ (by omega), if_pos (by omega), marshalOptions_tie]
  generalize optionsMarshal (List.map (optEnc e1) ra.Options) = X
  cases ra.ManagedConfiguration <;> cases ra.OtherConfiguration <;> cases ra.MobileIPv6HomeAgent <;>
  cases ra.NeighborDiscoveryProxy <;>
  simp [makeBytes, List.replicate, setI_0, setI_1, idxI_1, putBE16I, putBE32I, pokeAt, intToUInt8, raFlags, be32Bytes]

/-- the valid-preference part of `ra_tie`, preference 3 (16 flag combinations) -/
theorem ra_tie_p3 (e1 : G_DNSSearchList → Outcome Bytes) (ra : G_RouterAdvertisement)
    (h : ra.RouterSelectionPreference = 3) :
    genRouterAdvertisement_marshal e1 ra =
      raMarshal ra.CurrentHopLimit ra.ManagedConfiguration ra.OtherConfiguration ra.MobileIPv6HomeAgent
        3 ra.NeighborDiscoveryProxy (durSecondsU16 ra.RouterLifetime)
        (intToUInt32 (Int.tdiv ra.ReachableTime 1000000)) (intToUInt32 (Int.tdiv ra.RetransmitTimer 1000000))
        (ra.Options.map (optEnc e1)) := by
  unfold genRouterAdvertisement_marshal raMarshal genRouterAdvertisement_Type
  rw [h, checkPreference_ok _ (by omega), if_pos (by omega), marshalOptions_tie]
  generalize optionsMarshal (List.map (optEnc e1) ra.Options) = X
  cases ra.ManagedConfiguration <;> cases ra.OtherConfiguration <;> cases ra.MobileIPv6HomeAgent <;>
  cases ra.NeighborDiscoveryProxy <;>
  simp [makeBytes, List.replicate, setI_0, setI_1, idxI_1, putBE16I, putBE32I, pokeAt, intToUInt8, raFlags, be32Bytes]

theorem ra_tie (e1 : G_DNSSearchList → Outcome Bytes) (ra : G_RouterAdvertisement) :
    genRouterAdvertisement_marshal e1 ra =
      raMarshal ra.CurrentHopLimit ra.ManagedConfiguration ra.OtherConfiguration ra.MobileIPv6HomeAgent
        ra.RouterSelectionPreference ra.NeighborDiscoveryProxy (durSecondsU16 ra.RouterLifetime)
        (intToUInt32 (Int.tdiv ra.ReachableTime 1000000)) (intToUInt32 (Int.tdiv ra.RetransmitTimer 1000000))
        (ra.Options.map (optEnc e1)) := by
  by_cases hp : ra.RouterSelectionPreference = 0 ∨ ra.RouterSelectionPreference = 1 ∨ ra.RouterSelectionPreference = 3
  · rcases hp with h | h | h
    · rw [ra_tie_p0 e1 ra h, h]
    · rw [ra_tie_p1 e1 ra h, h]
    · rw [ra_tie_p3 e1 ra h, h]
  · unfold genRouterAdvertisement_marshal raMarshal
    rw [checkPreference_err _ hp, if_neg hp]
    rfl

/-! ### `(*PrefixInformation).marshal` -/

theorem copy_tail16 (H s : Bytes) (hH : H.length = 14) :
    copyI (H ++ List.replicate 16 0) 14 30 s = .ok (H ++ pad16 s, ((s.take 16).length : Int)) := by
  have := copy_slot H s 0
  simp only [hH, Nat.zero_add, Nat.mul_one, Nat.mul_zero, List.replicate_zero, List.append_nil] at this
  exact this

theorem copy_tail16c (a0 a1 a2 a3 a4 a5 a6 a7 a8 a9 a10 a11 a12 a13 : UInt8) (s : Bytes) :
    copyI (a0 :: a1 :: a2 :: a3 :: a4 :: a5 :: a6 :: a7 :: a8 :: a9 :: a10 :: a11 :: a12 :: a13 ::
        [0, 0, 0, 0, 0, 0, 0, 0, 0, 0, 0, 0, 0, 0, 0, 0]) 14 30 s =
      .ok (a0 :: a1 :: a2 :: a3 :: a4 :: a5 :: a6 :: a7 :: a8 :: a9 :: a10 :: a11 :: a12 :: a13 :: pad16 s,
        ((s.take 16).length : Int)) :=
  copy_tail16 [a0, a1, a2, a3, a4, a5, a6, a7, a8, a9, a10, a11, a12, a13] s rfl

theorem make30 : makeBytes 30 = .ok ((0 : UInt8) :: 0 :: 0 :: 0 :: 0 :: 0 :: 0 :: 0 :: 0 :: 0 :: 0 :: 0 :: 0 :: 0 :: List.replicate 16 0) := by
  unfold makeBytes
  rfl

theorem pi_tie (v : G_PrefixInformation) :
    genPrefixInformation_marshal v = prefixInfoMarshal v.PrefixLength v.OnLink v.AutonomousAddressConfiguration
      (durSecondsU32 v.ValidLifetime) (durSecondsU32 v.PreferredLifetime) v.Prefix
      (ipEqual v.Prefix (ipMask v.Prefix (cidrMask (v.PrefixLength.toNat : Int) 128))) := by
  unfold genPrefixInformation_marshal prefixInfoMarshal genPrefixInformation_Code
  cases hm : ipEqual v.Prefix (ipMask v.Prefix (cidrMask (v.PrefixLength.toNat : Int) 128))
  · simp [hm]
  · cases v.OnLink <;> cases v.AutonomousAddressConfiguration <;>
    simp [hm, make30, setI_0, setI_1, idxI_1, putBE32I, pokeAt, copy_tail16c, rawOption_tie, rawOptMarshal, pad16_length, be32Bytes]

/-! ### `(*RouteInformation).marshal` -/

theorem copy_tailm (H s : Bytes) (m : Nat) :
    copyI (H ++ List.replicate m 0) (H.length : Int) ((H.length : Int) + (m : Int)) s =
      .ok (H ++ padTo m s, ((s.take m).length : Int)) := by
  unfold copyI
  have c : (0 : Int) ≤ (H.length : Int) ∧ (H.length : Int) ≤ (H.length : Int) + (m : Int) ∧
      (H.length : Int) + (m : Int) ≤ ((H ++ List.replicate m (0 : UInt8)).length : Int) := by
    simp only [List.length_append, List.length_replicate]; omega
  rw [if_pos c]
  have e1 : ((H.length : Int) + (m : Int) - (H.length : Int)).toNat = m := by omega
  simp only [e1, Int.toNat_natCast, List.take_left', Outcome.ok.injEq, Prod.mk.injEq, and_true]
  rw [List.drop_append, List.drop_of_length_le (by omega : H.length ≤ H.length + (s.take m).length)]
  simp only [Nat.add_sub_cancel_left, List.drop_replicate, List.nil_append, padTo]

theorem copy6_0 (a0 a1 a2 a3 a4 a5 : UInt8) (s : Bytes) :
    copyI [a0, a1, a2, a3, a4, a5] 6 6 s = .ok ([a0, a1, a2, a3, a4, a5], 0) := by
  have := copy_tailm [a0, a1, a2, a3, a4, a5] s 0
  simpa [padTo] using this

theorem copy6_8 (a0 a1 a2 a3 a4 a5 : UInt8) (s : Bytes) :
    copyI [a0, a1, a2, a3, a4, a5, 0, 0, 0, 0, 0, 0, 0, 0] 6 14 s =
      .ok (a0 :: a1 :: a2 :: a3 :: a4 :: a5 :: padTo 8 s, ((s.take 8).length : Int)) :=
  copy_tailm [a0, a1, a2, a3, a4, a5] s 8

theorem copy6_16 (a0 a1 a2 a3 a4 a5 : UInt8) (s : Bytes) :
    copyI [a0, a1, a2, a3, a4, a5, 0, 0, 0, 0, 0, 0, 0, 0, 0, 0, 0, 0, 0, 0, 0, 0] 6 22 s =
      .ok (a0 :: a1 :: a2 :: a3 :: a4 :: a5 :: padTo 16 s, ((s.take 16).length : Int)) :=
  copy_tailm [a0, a1, a2, a3, a4, a5] s 16

theorem padTo_length (m : Nat) (s : Bytes) : (padTo m s).length = m := by
  simp [padTo]; omega

theorem u8_eq_zero (p : UInt8) : p = 0 ↔ p.toNat = 0 := by
  constructor
  · intro h; simp [h]
  · intro h; exact UInt8.toNat_inj.mp (by simpa using h)

theorem ri_tie (v : G_RouteInformation) :
    genRouteInformation_marshal v = routeInfoMarshal v.PrefixLength (intToUInt8 v.Preference) (durSecondsU32 v.RouteLifetime)
      v.Prefix (ipEqual v.Prefix (ipMask v.Prefix (cidrMask (v.PrefixLength.toNat : Int) 128))) := by
  unfold genRouteInformation_marshal routeInfoMarshal genRouteInformation_Code
  have i0 : intToUInt8 0 = 0 := rfl
  have i1 : intToUInt8 1 = 1 := rfl
  have i2 : intToUInt8 2 = 2 := rfl
  have z3 : (0 : UInt8) <<< (3 : UInt8) = 0 := rfl
  dsimp only
  generalize ipEqual v.Prefix (ipMask v.Prefix (cidrMask (v.PrefixLength.toNat : Int) 128)) = mk
  cases mk
  · simp
  · generalize hq : intToUInt8 v.Preference = q
    have hc : v.PrefixLength.toNat = 0 ∨ (0 < v.PrefixLength.toNat ∧ v.PrefixLength.toNat < 65) ∨
        (64 < v.PrefixLength.toNat ∧ v.PrefixLength.toNat < 129) ∨ 129 ≤ v.PrefixLength.toNat := by omega
    rcases hc with h | h | h | h
    · have e : v.PrefixLength = 0 := (u8_eq_zero _).mpr h
      by_cases hp : q = 0 <;>
      simp [e, hp, i0, z3, makeBytes, List.replicate, setI_0, setI_1, idxI_1, putBE32I, pokeAt, copy6_0, rawOption_tie,
        rawOptMarshal, be32Bytes]
    · have e : ¬ v.PrefixLength = 0 := fun x => by rw [(u8_eq_zero _).mp x] at h; omega
      have a : v.PrefixLength > 0 ∧ v.PrefixLength < 65 := by
        constructor <;> (apply UInt8.lt_iff_toNat_lt.mpr; simp; omega)
      have a' : v.PrefixLength < 65 := a.2
      by_cases hp : q = 0 <;>
      simp [e, a, hp, i1, z3, makeBytes, List.replicate, setI_0, setI_1, idxI_1, putBE32I, pokeAt, copy6_8,
        rawOption_tie, rawOptMarshal, be32Bytes, padTo_length]
    · have e : ¬ v.PrefixLength = 0 := fun x => by rw [(u8_eq_zero _).mp x] at h; omega
      have a : ¬ (v.PrefixLength > 0 ∧ v.PrefixLength < 65) := fun x => by
        have := UInt8.lt_iff_toNat_lt.mp x.2; simp at this; omega
      have a' : ¬ v.PrefixLength < 65 := fun x => by
        have := UInt8.lt_iff_toNat_lt.mp x; simp at this; omega
      have b : v.PrefixLength > 64 ∧ v.PrefixLength < 129 := by
        constructor <;> (apply UInt8.lt_iff_toNat_lt.mpr; simp; omega)
      have b' : v.PrefixLength < 129 := b.2
      by_cases hp : q = 0 <;>
      simp [e, a', b, hp, i2, z3, makeBytes, List.replicate, setI_0, setI_1, idxI_1, putBE32I, pokeAt, copy6_16,
        rawOption_tie, rawOptMarshal, be32Bytes, padTo_length]
    · have e : ¬ v.PrefixLength = 0 := fun x => by rw [(u8_eq_zero _).mp x] at h; omega
      have a : ¬ (v.PrefixLength > 0 ∧ v.PrefixLength < 65) := fun x => by
        have := UInt8.lt_iff_toNat_lt.mp x.2; simp at this; omega
      have a' : ¬ v.PrefixLength < 65 := fun x => by
        have := UInt8.lt_iff_toNat_lt.mp x; simp at this; omega
      have b : ¬ (v.PrefixLength > 64 ∧ v.PrefixLength < 129) := fun x => by
        have := UInt8.lt_iff_toNat_lt.mp x.2; simp at this; omega
      have b' : ¬ v.PrefixLength < 129 := fun x => by
        have := UInt8.lt_iff_toNat_lt.mp x; simp at this; omega
      simp [e, a', b']

/-! ### `o.marshal()`: which encoder each dynamic type reaches -/

theorem option_dispatch (e1 : G_DNSSearchList → Outcome Bytes) :
    optEnc e1 .nil_ = .panic ∧
    (∀ v, optEnc e1 (.LinkLayerAddress v) = llaMarshal v.Direction v.MAC) ∧
    (∀ v, optEnc e1 (.MTU v) = mtuMarshal v) ∧
    (∀ v, optEnc e1 (.RawOption v) = rawOptMarshal v.Type' v.Length v.Value) ∧
    (∀ v, optEnc e1 (.DNSSearchList v) = e1 v) ∧
    (∀ v, optEnc e1 (.PrefixInformation v) = prefixInfoMarshal v.PrefixLength v.OnLink v.AutonomousAddressConfiguration
      (durSecondsU32 v.ValidLifetime) (durSecondsU32 v.PreferredLifetime) v.Prefix
      (ipEqual v.Prefix (ipMask v.Prefix (cidrMask (v.PrefixLength.toNat : Int) 128)))) ∧
    (∀ v, optEnc e1 (.RecursiveDNSServer v) = rdnssMarshal (durSecondsU32 v.Lifetime) v.Servers) ∧
    (∀ v, optEnc e1 (.RouteInformation v) = routeInfoMarshal v.PrefixLength (intToUInt8 v.Preference)
      (durSecondsU32 v.RouteLifetime) v.Prefix (ipEqual v.Prefix (ipMask v.Prefix (cidrMask (v.PrefixLength.toNat : Int) 128)))) :=
  ⟨rfl, fun v => lla_tie v, fun v => mtu_tie v, fun v => rawOption_tie v, fun _ => rfl, fun v => pi_tie v, fun v => rdnss_tie v, fun v => ri_tie v⟩

/-- the message `ICMP6SendRouterSolicitation` builds (one source link-layer address option with the NIC's MAC): for
    every 6-byte MAC it is the 16-byte router solicitation of RFC 4861 4.1 -/
theorem rs_with_source_lla (e1 : G_DNSSearchList → Outcome Bytes) (src mac : Bytes) (h : mac.length = 6) :
    genRouterSolicitation_marshal e1 { SourceLLA := src, Options := [.LinkLayerAddress { Direction := 1, MAC := mac }] } =
      .ok ([133, 0, 0, 0, 0, 0, 0, 0, 1, 1] ++ mac) := by
  rw [rs_tie]
  simp [rsMarshal, optionsMarshal, (option_dispatch e1).2.1, llaMarshal, h]

/-- a MAC of another length makes the solicitation fail with an error: nothing is sent -/
theorem rs_bad_mac (e1 : G_DNSSearchList → Outcome Bytes) (src mac : Bytes) (h : mac.length ≠ 6) :
    genRouterSolicitation_marshal e1 { SourceLLA := src, Options := [.LinkLayerAddress { Direction := 1, MAC := mac }] } =
      .err .other := by
  rw [rs_tie]
  simp [rsMarshal, optionsMarshal, (option_dispatch e1).2.1, llaMarshal, h]

/-- non-vacuity: a router advertisement with hop limit 64, lifetime 1800 s, an MTU option and a source LLA -/
example : genRouterAdvertisement_marshal (fun _ => .err .other)
    { CurrentHopLimit := 64, ManagedConfiguration := false, OtherConfiguration := false, MobileIPv6HomeAgent := false,
      RouterSelectionPreference := 0, NeighborDiscoveryProxy := false, RouterLifetime := 1800000000000, ReachableTime := 0,
      RetransmitTimer := 0, Options := [I_Option.MTU 1500, I_Option.LinkLayerAddress { Direction := 1, MAC := [2, 0, 0, 0, 0, 1] }] } =
    .ok [134, 0, 0, 0, 64, 0, 7, 8, 0, 0, 0, 0, 0, 0, 0, 0, 5, 1, 0, 0, 0, 0, 5, 220, 1, 1, 2, 0, 0, 0, 0, 1] := by decide

/-! ### the lists the translator emits are the reviewed ones -/

theorem translated_accounted : marshalTranslated.map (·.1) =
    ["packet.(*RawOption).marshal", "packet.(*LinkLayerAddress).Code", "packet.(*LinkLayerAddress).marshal", "packet.(*MTU).Code",
     "packet.(*MTU).marshal", "packet.(*PrefixInformation).Code", "packet.(*PrefixInformation).marshal",
     "packet.(*RouteInformation).Code", "packet.(*RouteInformation).marshal", "packet.(*RecursiveDNSServer).Code", "packet.(*RecursiveDNSServer).marshal", "packet.(*DNSSearchList).Code", "packet.(Option).marshal", "packet.marshalOptions",
     "packet.(*RouterSolicitation).Type", "packet.(*RouterSolicitation).marshal", "packet.(*RouterAdvertisement).Type",
     "packet.checkPreference", "packet.(*RouterAdvertisement).marshal"] := by decide

theorem untranslated_accounted : marshalUntranslated.map (·.1) =
    ["packet.(*DNSSearchList).marshal"] := by decide

/-- the external callee is exactly the one untranslated option encoder, taken by the dispatch and passed down -/
theorem externals_accounted : (marshalExternals.map (fun e => e.2.2.1)).eraseDups =
    ["packet.(*DNSSearchList).marshal"] := by decide

theorem assumptions_accounted : marshalAssumptions.map (·.1) =
    ["capEqLen", "durSeconds", "errDropsResults", "externMarshalPure", "intNoOverflow", "netIPDict", "noAlias", "recvNonNil", "stdStringTotal"] := by
  decide

theorem errs_accounted : marshalErrs.all (fun e => e.2 == Err.other) = true := by decide

theorem fuels_accounted : marshalFuels.map (·.1) = ["genRecursiveDNSServer_marshal_loop1", "genmarshalOptions_loop1"] := by decide

theorem nil_sites_accounted : marshalNilSites = [] := by decide

end PV.Props.C03MarshalTie
