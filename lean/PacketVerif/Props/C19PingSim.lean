/-
  F19 — whole executions of the regenerated ping code are executions of Model/Ping.lean (obligation of C19, C09).

  Go side (`Lemmas/PingSim.G`): the heap and one residual program per call; a step is the next lock section / read of a
  call, the return of its transmitting call, a channel of its select becoming ready (`wakeup` only once closed), or
  `echoNotify(id)`.  The calls start as the REGENERATED `Session_ping` / `Session_Ping6` (`genInit`), `echoNotify`
  is the regenerated one (`echoNotify_ref`).  `ping_whole_execution`: every such execution, of any length and any
  interleaving, is matched by a run of the model with the same table, counter and entry states, every call being where
  the model's program counter says; `returned_value`: what a finished call returned is what the model recorded - so the
  theorems of Props/C19 and Props/C19Multi about `ret` are theorems about the value the Go function returns.
-/
import PacketVerif.Gen.PingGen
import PacketVerif.Lemmas.PingSim
import PacketVerif.Props.C19PingTie
namespace PV.Props.C19PingSim
open PV PV.Model PV.Model.Ping PV.Model.PingGo PV.Gen.Ping PV.Lemmas.PingSim PV.Lemmas.Ping

/-- the regenerated `echoNotify` is the function the Go-side machine uses -/
theorem echoNotify_ref : echoNotify = echoNotifyRef := by
  funext st id
  simp only [echoNotify, echoNotifyRef]
  split
  · rfl
  · cases tget st.table id <;> rfl

/-- the pool of regenerated programs: call p runs `Session_Ping6` or `Session_ping` with its arguments -/
def genInit (a : Nat → Args) (id0 : Nat) : G :=
  ⟨Ping.init id0, fun p => if (a p).v6 then Session_Ping6 p (a p).src (a p).dst (a p).timeout
                           else Session_ping p (a p).src (a p).dst (a p).timeout⟩

theorem genInit_eq (a : Nat → Args) (id0 : Nat) : genInit a id0 = ginit a id0 := by
  simp only [genInit, ginit, C19PingTie.ping_tie, C19PingTie.Ping6_tie]
  congr 1; funext p
  cases (a p).v6 <;> simp

/-- every execution of the regenerated code is an execution of the model -/
theorem ping_whole_execution (a : Nat → Args) (id0 : Nat) (es : List GEv) (g' : G)
    (h : grun (genInit a id0) es = some g') :
    ∃ evs s', run (Ping.init id0) evs = some s' ∧ Sim a g' s' ∧ InvW s' := by
  rw [genInit_eq] at h
  exact sim_run (sim_init a id0) (invW_init id0) es h

/-- what a finished call returned is what the model recorded for it -/
theorem returned_value {a : Nat → Args} {g : G} {s : State} (hs : Sim a g s) {p : Nat} {r : Option Err}
    (h : g.pr p = .done r) : (s.th p).pc = .done ∧ RetRel (s.th p).ret r := by
  have hat := hs.at_ p
  rw [h] at hat
  generalize hk : Prog.done r = k at hat
  cases hat with
  | init _ => simp [pingProg] at hk
  | send _ => simp [sendProg] at hk
  | cleanup e _ => simp [cleanupProg] at hk
  | wait _ => simp [waitProg] at hk
  | unreg _ => simp [unregProg] at hk
  | rd _ _ => cases hk
  | done r' hpc hret => cases hk; exact ⟨hpc, hret⟩

/-- nil is returned only with the model's `nil`, `ErrTimeout`... : the three classes -/
theorem returned_classes {a : Nat → Args} {g : G} {s : State} (hs : Sim a g s) {p : Nat} {r : Option Err}
    (h : g.pr p = .done r) :
    (r = none ↔ (s.th p).ret = .nil) ∧ ((s.th p).ret = .timeout → r = some .timeout) ∧
    ((s.th p).ret = .sendErr → r.isSome) := by
  obtain ⟨_, hr⟩ := returned_value hs h
  cases hret : (s.th p).ret <;> simp only [hret, RetRel] at hr
  · simp [hr]
  · simp [hr]
  · refine ⟨⟨fun h0 => ?_, fun h0 => ?_⟩, fun h0 => ?_, fun _ => hr⟩
    · simp [h0] at hr
    · cases h0
    · cases h0

/-- non-vacuity: the regenerated pool runs a call to completion (register, send, reply, wake, unregister, read) -/
theorem whole_execution_example :
    let a : Nat → Args := fun _ => ⟨false, {}, {}, 0⟩
    ((grun (genInit a 1) [.tau 0, .ret 0 none, .echo 1, .fire 0 (.wakeup 0), .tau 0, .tau 0]).map
      fun g => ((g.pr 0).result, g.st.table, g.st.nextId)) = some (some none, [], 2) := by rfl

end PV.Props.C19PingSim
