/-
  C20 — Log formatting is faithful and stays within its buffer.
  Property theorems only; helper lemmas live in `Lemmas/Fastlog.lean`.

  Reading of the statement:
  * "fits the line buffer": the text of the line *and the newline `Write()` appends* fit the
    2048-byte buffer, i.e. `cursor + length of the text + 1 ≤ 2048`.  (`Write()` overwrites the
    last character of a 2048-byte line, and `appendIP6` uses the byte after the text as scratch,
    so a line of exactly 2048 bytes is not emitted intact by the code in any case.)
  * `Wrote r l t`: the call `r` succeeded (no panic), advanced the cursor of `l` by `t.length` and
    the text of the line (`buffer[:index]`, what `ToString`/`Write` emit) became `l.text ++ t`.
  * text that does not fit `String`/`Msg`/`Label`/`IP` is outside the statement (the model and the
    correspondence cover it; no theorem claims anything about it).
-/
import PacketVerif.Lemmas.Fastlog
namespace PV.Props.C20
open PV PV.Fastlog PV.Model.Fastlog PV.Spec.Render PV.Spec.Rfc5952 PV.Lemmas.Fastlog

/-! ### integers -/

/-- **`printInt` = reference decimal, for every `uint32` value**: with room for the digits the call
    does not panic and writes exactly the positional decimal numeral. -/
theorem printInt_eq_decimal (l : Line) (v : UInt32) (h : l.idx + (decimal v.toNat).length ≤ bufSize) :
    Wrote (printInt l v) l (decimal v.toNat) := by
  have := printInt_emit l [] v (by simpa using h)
  rw [emit_nil' l _ h] at this
  exact wrote_of_emit (SameText.refl l) h (by simpa using this)

/-- the reference numeral reads back to the number and has no leading zero: `decimal` is the
    decimal numeral (sanity of the reference itself; it is also compared with `strconv` on every run) -/
theorem decimal_sound (n : Nat) :
    (decimal n).foldl (fun a d => a * 10 + (d.toNat - 48)) 0 = n ∧
      (decimal n).all (fun d => 48 ≤ d.toNat ∧ d.toNat ≤ 57) = true ∧
      (n ≠ 0 → (decimal n).head? ≠ some 0x30) := by
  have hd : ∀ k, k < 10 → (digit k).toNat = 48 + k := by decide
  induction n using Nat.strongRecOn with
  | _ n ih =>
    by_cases h : n < 10
    · rw [decimal_lt10 n h]
      refine ⟨by simp [hd n h], by simp [hd n h]; omega, fun hn => ?_⟩
      simp only [List.head?_cons, ne_eq, Option.some.injEq]
      intro h0
      have := congrArg UInt8.toNat h0
      rw [hd n h] at this
      have : (0x30 : UInt8).toNat = 48 := rfl
      omega
    · obtain ⟨i1, i2, i3⟩ := ih (n / 10) (by omega)
      have hm : n % 10 < 10 := Nat.mod_lt _ (by decide)
      rw [decimal_ge10 n h]
      refine ⟨?_, ?_, fun _ => ?_⟩
      · rw [List.foldl_append, i1]; simp [hd _ hm]; omega
      · rw [List.all_append, i2]; simp [hd _ hm]; omega
      · have hne : n / 10 ≠ 0 := by omega
        have := i3 hne
        cases hdec : decimal (n / 10) with
        | nil => have := decimal_length (n / 10); rw [hdec] at this; have := width_pos (n / 10); simp at *; omega
        | cons a t => rw [hdec] at this; simpa using this

/-- `Uint8`, `Uint16`, `Uint32`, `Int`: ` name=` followed by the reference decimal, for all values -/
theorem uint_int_fields (l : Line) (name : Bytes) :
    (∀ v : UInt8, l.idx + (renderField (.u8 name v)).length ≤ bufSize → Wrote (uint8 l name v) l (renderField (.u8 name v))) ∧
    (∀ v : UInt16, l.idx + (renderField (.u16 name v)).length ≤ bufSize → Wrote (uint16 l name v) l (renderField (.u16 name v))) ∧
    (∀ v : UInt32, l.idx + (renderField (.u32 name v)).length ≤ bufSize → Wrote (uint32 l name v) l (renderField (.u32 name v))) ∧
    (∀ v : Int, l.idx + (renderField (.int name v)).length ≤ bufSize → Wrote (intF l name v) l (renderField (.int name v))) := by
  refine ⟨fun v h => ?_, fun v h => ?_, fun v h => ?_, fun v h => ?_⟩
  · have := uint8_emit l [] name v (by simpa using h)
    rw [emit_nil' l _ h] at this
    exact wrote_of_emit (SameText.refl l) h (by simpa using this)
  · have := uint16_emit l [] name v (by simpa using h)
    rw [emit_nil' l _ h] at this
    exact wrote_of_emit (SameText.refl l) h (by simpa using this)
  · have := uint32_emit l [] name v (by simpa using h)
    rw [emit_nil' l _ h] at this
    exact wrote_of_emit (SameText.refl l) h (by simpa using this)
  · have := intF_emit l [] name v (by simpa using h)
    rw [emit_nil' l _ h] at this
    exact wrote_of_emit (SameText.refl l) h (by simpa using this)

/-! ### hexadecimal, MAC, bool -/

/-- **`writeHex`, `Uint8Hex`, `Uint16Hex` = fixed-width lower-case hex, for all 256 / 65536 values** -/
theorem hex_eq_reference (l : Line) (name : Bytes) :
    (∀ v : UInt8, l.idx + 2 ≤ bufSize → Wrote (writeHex l v) l (hex8 v.toNat)) ∧
    (∀ v : UInt8, l.idx + (renderField (.x8 name v)).length ≤ bufSize → Wrote (uint8Hex l name v) l (renderField (.x8 name v))) ∧
    (∀ v : UInt16, l.idx + (renderField (.x16 name v)).length ≤ bufSize → Wrote (uint16Hex l name v) l (renderField (.x16 name v))) := by
  refine ⟨fun v h => ?_, fun v h => ?_, fun v h => ?_⟩
  · have hl : (hex8 v.toNat).length = 2 := by rw [hex8_eq _ (UInt8.toNat_lt v)]; rfl
    have := writeHex_emit l [] v (by simpa using h)
    rw [emit_nil l (by omega)] at this
    exact wrote_of_emit (SameText.refl l) (by omega) (by simpa using this)
  · have := uint8Hex_emit l [] name v (by simpa using h)
    rw [emit_nil' l _ h] at this
    exact wrote_of_emit (SameText.refl l) h (by simpa using this)
  · have := uint16Hex_emit l [] name v (by simpa using h)
    rw [emit_nil' l _ h] at this
    exact wrote_of_emit (SameText.refl l) h (by simpa using this)

/-- **MAC** (six octets → colon-separated two-digit hex, anything else → `nil`) and **Bool** -/
theorem mac_bool_eq_reference (l : Line) (name : Bytes) :
    (∀ m : Bytes, l.idx + (renderField (.mac name m)).length ≤ bufSize → Wrote (macF l name m) l (renderField (.mac name m))) ∧
    (∀ b : Bool, l.idx + (renderField (.bool name b)).length ≤ bufSize → Wrote (boolF l name b) l (renderField (.bool name b))) := by
  refine ⟨fun v h => ?_, fun v h => ?_⟩
  · have := macF_emit l [] name v (by simpa using h)
    rw [emit_nil' l _ h] at this
    exact wrote_of_emit (SameText.refl l) h (by simpa using this)
  · have := boolF_emit l [] name v (by simpa using h)
    rw [emit_nil' l _ h] at this
    exact wrote_of_emit (SameText.refl l) h (by simpa using this)

/-! ### IP addresses -/

/-- **`appendIP6` = RFC 5952 for all 2¹²⁸ addresses** (fastlog's own writer, used by `IPSlice` and
    `IPArray`): longest run of ≥ 2 zero fields compressed, leftmost on a tie, no leading zeros, lower
    case.  Room needed: the text and one scratch byte. -/
theorem appendIP6_eq_rfc5952 (l : Line) (ip : Bytes) (hip : ip.length = 16)
    (h : l.idx + (rfc5952 ip).length + 1 ≤ bufSize) :
    Wrote (appendIP6 l ip) l (rfc5952 ip) := by
  obtain ⟨l', hs, he⟩ := appendIP6_good l [] ip hip (by simpa using h)
  rw [emit_nil l (by omega)] at he
  exact wrote_of_emit hs (by omega) (by simpa using he)

/-- **what `IP()` appends (the net/netip text) is the reference text for every zone-less address**:
    dotted decimal for IPv4, RFC 5952 for IPv6, `::ffff:a.b.c.d` for IPv4-mapped IPv6 -/
theorem netip_text_eq_reference (a : Bytes) (h : a.length = 4 ∨ a.length = 16) : netipText a = addrText a :=
  netipText_eq a h

/-- **`IP` and `IPSlice` fields** (IPv4, IPv6, IPv4-mapped, nil / invalid → `nil`) -/
theorem ip_fields_eq_reference (l : Line) (name : Bytes) :
    (∀ a : Bytes, l.idx + (renderField (.ip name a)).length ≤ bufSize → Wrote (ipF l name a) l (renderField (.ip name a))) ∧
    (∀ a : Option Bytes, l.idx + (renderField (.ipSlice name a)).length + 1 ≤ bufSize →
      Wrote (ipSlice l name a) l (renderField (.ipSlice name a))) := by
  refine ⟨fun v h => ?_, fun v h => ?_⟩
  · have := ipF_emit l [] name v (by simpa using h)
    rw [emit_nil' l _ h] at this
    exact wrote_of_emit (SameText.refl l) h (by simpa using this)
  · obtain ⟨l', hs, he⟩ := ipSlice_good l [] name v (by simpa using h)
    rw [emit_nil l (by omega)] at he
    exact wrote_of_emit hs (by omega) (by simpa using he)

/-! ### a whole line -/

/-- **every appender renders its value as the reference does** (one field, every kind of field).
    `slack f` is 1 (the newline's place) for all fields but `IPArray` (41: its guard reserves room
    for a full IPv6 element). -/
theorem field_eq_reference (f : Field) (l : Line)
    (h : l.idx + (renderField f).length + slack f ≤ bufSize) : Wrote (apply l f) l (renderField f) := by
  have h1 : 1 ≤ slack f := by unfold slack; split <;> omega
  obtain ⟨l', hs, he⟩ := apply_good f l [] (by simpa using h)
  rw [emit_nil l (by omega)] at he
  exact wrote_of_emit hs (by omega) (by simpa using he)

theorem lineSlack_pos (fs : List Field) : 1 ≤ lineSlack fs := by
  cases fs with
  | nil => exact Nat.le_refl _
  | cons f t => have := (lineSlack_cons f t).1; have : 1 ≤ slack f := by unfold slack; split <;> omega
                omega

/-- **a line equals its prefix followed by the concatenation of its reference-rendered fields
    whenever it fits**: for any line state `l` and any sequence of fields (scalars and arrays) -/
theorem line_eq_concat (fs : List Field) (l : Line)
    (h : l.idx + (renderFields fs).length + lineSlack fs ≤ bufSize) : Wrote (applyAll l fs) l (renderFields fs) := by
  have := lineSlack_pos fs
  obtain ⟨l', hs, he⟩ := applyAll_good fs l [] (by simpa using h)
  rw [emit_nil l (by omega)] at he
  exact wrote_of_emit hs (by omega) (by simpa using he)

/-- … in particular for a line started with `New(module).Msg(msg)` on any pool buffer: the text
    is `module:` column, the quoted message, then the fields; `ToString()` returns it and
    `Write()` emits it followed by a newline. -/
theorem logger_line_eq_concat (b0 : Buf) (module m : Bytes) (fs : List Field)
    (h : (linePrefix module m).length + (renderFields fs).length + lineSlack fs ≤ bufSize) :
    ∃ l, (msg b0 module m >>= fun l0 => applyAll l0 fs) = .ok l ∧
      l.text = linePrefix module m ++ renderFields fs ∧
      Model.Fastlog.toString l = .ok (linePrefix module m ++ renderFields fs) ∧
      write l = .ok (linePrefix module m ++ renderFields fs ++ [0x0a]) := by
  have := lineSlack_pos fs
  rw [msg_emit b0 module m (by omega)]
  obtain ⟨l', hs, he⟩ := applyAll_good fs ⟨b0, 0⟩ (linePrefix module m) (by simpa using h)
  have hfit : (⟨b0, 0⟩ : Line).idx + (linePrefix module m ++ renderFields fs).length ≤ bufSize := by
    simp only [List.length_append]; omega
  obtain ⟨l2, e2, i2, t2⟩ := wrote_of_emit hs hfit he
  have t2' : l2.text = linePrefix module m ++ renderFields fs := by simpa [Line.text] using t2
  have i2' : l2.idx = (linePrefix module m).length + (renderFields fs).length := by
    simpa [List.length_append] using i2
  refine ⟨l2, by simpa using e2, t2', ?_, ?_⟩
  · unfold Model.Fastlog.toString; rw [if_pos (by omega), t2']
  · unfold write
    simp only [show ¬ l2.idx ≥ bufSize by omega, if_false, show l2.idx < bufSize by omega, if_true]
    congr 1
    rw [← t2']
    simp only [Line.text, Buf.set]
    have hlen : l2.idx < l2.buf.1.length := by rw [l2.buf.2]; omega
    rw [List.take_add_one, List.take_set_of_le (Nat.le_refl _)]
    simp [hlen, cLF]

/-- **views**: `Addr.FastLog`, `ARP.FastLog` (any ARP of ≥ 28 bytes) and `IP4.FastLog` (any header
    of ≥ 20 bytes) never panic when their text fits, and write exactly the reference rendering of
    their fields (MAC, netip addresses, decimal and hex integers). -/
theorem view_fastlog_faithful (l : Line) :
    (∀ (mac ip : Bytes) (port : UInt16),
      l.idx + (renderFields (addrFields mac ip port)).length + 1 ≤ bufSize →
        Wrote (applyAll l (addrFields mac ip port)) l (renderFields (addrFields mac ip port))) ∧
    (∀ b : Bytes, 28 ≤ b.length → ∃ fs, arpFields b = .ok fs ∧
      (l.idx + (renderFields fs).length + 1 ≤ bufSize → Wrote (applyAll l fs) l (renderFields fs))) ∧
    (∀ p : Bytes, 20 ≤ p.length → ∃ fs, ip4Fields p = .ok fs ∧
      (l.idx + (renderFields fs).length + 1 ≤ bufSize → Wrote (applyAll l fs) l (renderFields fs))) := by
  refine ⟨fun mac ip port h => ?_, fun b hb => ?_, fun p hp => ?_⟩
  · exact line_eq_concat _ l (by rw [addrFields_slack]; exact h)
  · obtain ⟨fs, e, sl⟩ := arpFields_ok b hb
    exact ⟨fs, e, fun h => line_eq_concat fs l (by rw [sl]; exact h)⟩
  · obtain ⟨fs, e, sl⟩ := ip4Fields_ok p hp
    exact ⟨fs, e, fun h => line_eq_concat fs l (by rw [sl]; exact h)⟩

/-! ### arrays are truncated inside the buffer -/

/-- **ByteArray, StringArray and IPArray never panic and never move the cursor outside the
    buffer, for every line state and every array** (however long; no room condition is needed:
    the guards of the repaired code are sufficient).  A line whose cursor is already beyond the
    buffer (only `IP()` with a text that does not fit produces one) is left unchanged. -/
theorem arrays_never_overflow (l : Line) (name : Bytes) :
    (∀ v : Bytes, ∃ l', byteArray l name v = .ok l' ∧ (l.idx ≤ bufSize → l'.idx ≤ bufSize)) ∧
    (∀ v : List Bytes, ∃ l', stringArray l name v = .ok l' ∧ (l.idx ≤ bufSize → l'.idx ≤ bufSize)) ∧
    (∀ v : List (Option Bytes), ∃ l', ipArray l name v = .ok l' ∧ (l.idx ≤ bufSize → l'.idx ≤ bufSize)) := by
  refine ⟨fun v => byteArray_safe l name v, fun v => ?_, fun v => ?_⟩
  · obtain ⟨l', e, h, _⟩ := stringArray_safe l name v; exact ⟨l', e, h⟩
  · obtain ⟨l', e, h, _⟩ := ipArray_safe l name v; exact ⟨l', e, h⟩

/-- **arrays that fit are rendered in full**: `[aa bb]`, `["a", "b",]`, `[1.2.3.4, ::1,]`
    (elements of `IPArray` as `IPSlice` renders them) -/
theorem arrays_eq_reference_when_fit (l : Line) (name : Bytes) :
    (∀ v : Bytes, l.idx + (renderField (.byteArray name v)).length + 1 ≤ bufSize →
      Wrote (byteArray l name v) l (renderField (.byteArray name v))) ∧
    (∀ v : List Bytes, l.idx + (renderField (.stringArray name v)).length + 1 ≤ bufSize →
      Wrote (stringArray l name v) l (renderField (.stringArray name v))) ∧
    (∀ v : List (Option Bytes), l.idx + (renderField (.ipArray name v)).length + 41 ≤ bufSize →
      Wrote (ipArray l name v) l (renderField (.ipArray name v))) := by
  refine ⟨fun v h => ?_, fun v h => ?_, fun v h => ?_⟩
  · exact field_eq_reference (.byteArray name v) l h
  · exact field_eq_reference (.stringArray name v) l h
  · exact field_eq_reference (.ipArray name v) l h

/-- the exact room the array appenders use (derived from the code): an element of `StringArray`
    is written iff `index + len(v) + 4 ≤ 2048`, an element of `IPArray` iff `index + 41 ≤ 2048`
    (39 bytes of the longest IPv6 text, its scratch colon overwritten by `", "`), `ByteArray`
    writes `(2048 - index - len(name) - 13) / 3` bytes and the marker when the array is longer, and
    is skipped when fewer than `len(name) + 13` bytes remain.  The longest IPv6 text is 39 bytes: -/
theorem ipv6_text_at_most_39 (ip : Bytes) (hip : ip.length = 16) : (rfc5952 ip).length ≤ 39 :=
  rfc5952_length ip hip

/-- a truncated `ByteArray` ends the line at index 2047 (room for the newline) -/
theorem byteArray_truncated_cursor (l : Line) (name value : Bytes)
    (hroom : l.idx + name.length + 13 ≤ bufSize) (hlong : bufSize - l.idx - name.length - 3 ≤ 3 * value.length) :
    ∃ l', byteArray l name value = .ok l' ∧ l'.idx = bufSize - 1 := by
  unfold byteArray
  simp only []
  have hb : (bufSize : Int) = 2048 := rfl
  have hbn : bufSize = 2048 := rfl
  rw [if_pos (by omega), if_neg (by omega)]
  unfold copyTo
  rw [if_pos (by constructor <;> simp [bufSize])]
  simp only [Outcome.bind_ok]
  have hnn : (0 : Int) ≤ (bufSize : Int) - l.idx - 1 - name.length - 2 - 10 := by omega
  rw [Int.tdiv_eq_ediv_of_nonneg hnn, if_neg (by omega)]
  have hlen : (value.take (((bufSize : Int) - l.idx - 1 - name.length - 2 - 10) / 3).toNat).length =
      (((bufSize : Int) - l.idx - 1 - name.length - 2 - 10) / 3).toNat := by
    rw [List.length_take]; omega
  obtain ⟨l', e', i'⟩ := byteArrayBody_ok ⟨_, l.idx⟩ name
    (value.take (((bufSize : Int) - l.idx - 1 - name.length - 2 - 10) / 3).toNat) true
    (by rw [hlen]; simp only []; split <;> omega)
  exact ⟨l', e', by rw [i']; rfl⟩

/-! ### durations -/

/-- **the `time.Duration.String` text `Duration()` copies is the reference duration text**
    (`0s`, `1.5µs`, `2m3.000001s`, `-1h0m0s`, …) for every duration -/
theorem duration_eq_reference (d : Int) : durationText d = Spec.Render.duration d := durationText_eq d

/-! ### non-vacuity -/

example : rfc5952 [0x20, 0x01, 0x0d, 0xb8, 0, 0, 0, 0, 0, 0, 0, 0, 0, 0, 0, 1] =
    [0x32, 0x30, 0x30, 0x31, 0x3a, 0x64, 0x62, 0x38, 0x3a, 0x3a, 0x31] := by decide
/-- exactly two zero fields are compressed, the first of two equal runs wins -/
example : rfc5952 [0, 1, 0, 0, 0, 0, 0, 2, 0, 0, 0, 0, 0, 5, 0, 6] =
    [0x31, 0x3a, 0x3a, 0x32, 0x3a, 0x30, 0x3a, 0x30, 0x3a, 0x35, 0x3a, 0x36] := by decide
example : rfc5952 (List.replicate 16 0) = [0x3a, 0x3a] := by decide
/-- the hypotheses of `line_eq_concat` are satisfiable and the conclusion is a concrete text -/
example : ∃ l', applyAll ⟨Buf.fill 0, 0⟩ [.bool [0x62] true, .lf] = .ok l' ∧
    l'.text = [0x20, 0x62, 0x3d, 0x74, 0x72, 0x75, 0x65, 0x0a] := by
  obtain ⟨l', e, _, t⟩ := line_eq_concat [.bool [0x62] true, .lf] ⟨Buf.fill 0, 0⟩ (by decide)
  exact ⟨l', e, by simpa [Line.text, renderFields, renderField, named, boolText] using t⟩

end PV.Props.C20
