/-
  Abstract lock machine for C09: threads execute straight-line programs of `acq l` / `rel l` over
  lock *classes* (one lock per class: a conservative merge of all instances of e.g. `MACEntry.Row`).
  Read locks are abstracted as exclusive acquisitions (Go's writer-preferring `RWMutex` makes a
  second read acquisition by the same goroutine unsafe anyway, so re-entrancy is forbidden for both).

  `rank` is the lock hierarchy of the library (hosttable.go:22-24 "lock the engine first then row
  lock"): the regenerated acquisition edges of the Go code (Gen.lockEdges) must be strictly
  increasing in it — that instantiation is the tie theorem in Props/C09Tie.lean.
-/
import PacketVerif.Basic
namespace PV.Model.Locks

abbrev Lock := Nat   -- a lock is identified with its rank

inductive Op where
  | acq (l : Lock)
  | rel (l : Lock)
  deriving DecidableEq, Repr

structure Thread where
  held : List Lock
  prog : List Op
  deriving DecidableEq, Repr

abbrev State := List Thread

/-- the program acquires only locks of rank strictly above everything currently held (no re-entry),
    releases only what it holds, and holds nothing when it ends -/
def respects : List Lock → List Op → Prop
  | held, [] => held = []          -- balanced: everything is released at the end
  | held, .acq l :: rest => (∀ h ∈ held, h < l) ∧ respects (l :: held) rest
  | held, .rel l :: rest => l ∈ held ∧ respects (held.erase l) rest

def Thread.wf (t : Thread) : Prop := respects t.held t.prog

/-- a lock is free when no thread holds it -/
def free (s : State) (l : Lock) : Prop := ∀ t ∈ s, l ∉ t.held

/-- one step of thread `i` -/
inductive Step : State → State → Prop where
  | acq (s : State) (i : Nat) (t : Thread) (l : Lock) (rest : List Op) :
      s[i]? = some t → t.prog = .acq l :: rest → free s l →
      Step s (s.set i ⟨l :: t.held, rest⟩)
  | rel (s : State) (i : Nat) (t : Thread) (l : Lock) (rest : List Op) :
      s[i]? = some t → t.prog = .rel l :: rest →
      Step s (s.set i ⟨t.held.erase l, rest⟩)

inductive Reach : State → State → Prop where
  | refl (s : State) : Reach s s
  | step {s t u : State} : Reach s t → Step t u → Reach s u

/-- thread is blocked: its next operation is an acquire of a lock that is not free -/
def blockedOn (s : State) (t : Thread) (l : Lock) : Prop :=
  ∃ rest, t.prog = .acq l :: rest ∧ ¬ free s l

def finished (t : Thread) : Prop := t.prog = []

/-- deadlock: some thread is unfinished and every unfinished thread is blocked -/
def deadlocked (s : State) : Prop :=
  (∃ t ∈ s, ¬ finished t) ∧ ∀ t ∈ s, ¬ finished t → ∃ l, blockedOn s t l

/-- lock hierarchy of the library, by class name (Gen.lockClasses) -/
def rank (c : String) : Option Nat :=
  if c == "dhcp4_spoofer.Handler.Mutex" then some 10
  else if c == "arp_spoofer.Handler.arpMutex" then some 11
  else if c == "icmp_spoofer.Handler6.Mutex" then some 12
  else if c == "dns_naming.DNSHandler.mutex" then some 13
  else if c == "packet.Session.mutex" then some 20
  else if c == "packet.MACEntry.Row" then some 30
  else if c == "packet.icmpTable" then some 40
  else none

end PV.Model.Locks
