/-
  C10 — a provenance machine for the retention discipline.

  A value-semantics model cannot say "this field still points into the caller's buffer".  This machine can: a retained
  reference is either private memory of the library (`Ref.heap v`, it HOLDS the bytes v) or a window into the caller's
  n-th receive buffer (`Ref.view n off len`, it holds nothing: what it denotes is read through the store `buf n ↦ Bytes`
  at the time of the read).  The state is the collection of retained (class, reference) pairs — a class is a place that
  outlives the call that wrote it: a field of a long-lived record, a map / slice / channel held by one, the arguments of a
  goroutine, a package variable.  One operation is "the caller hands packet n to the library": any number of executions of
  *retention sites*, each storing into its class a reference whose origin is what the site table says about the site's
  right-hand side:
     heap      a copy / an allocation / a value type            → some `Ref.heap v` (v arbitrary: a copy of anything)
     pkt       (a slice of / a struct carrying) the packet      → some `Ref.view n off len` of THIS packet's buffer
     cls c     read from class c                                → anything derivable (re-sliced, converted) from a reference
                                                                  retained in class c, or a zero value when there is none
     unknown   the translator did not understand the expression → anything at all
  After the call returns the caller may overwrite buffer n (and any earlier buffer): the store changes, the retained
  collection does not.  Records may also be dropped at any time (`forget`).
  The site table of the real code is regenerated from the Go source on every run (tools/goextract/prov.go → Gen.provSites).
-/
import PacketVerif.Basic
namespace PV.Prov

/-- where the value stored by a retention site comes from -/
inductive Src where
  | heap
  | pkt
  | cls (c : Nat)
  | unknown
  deriving DecidableEq, Repr

/-- one store into a class -/
structure Site where
  name : String
  cls  : Nat
  rhs  : List Src
  deriving Repr

/-- a retained reference -/
inductive Ref where
  | heap (v : Bytes)
  | view (n off len : Nat)
  deriving DecidableEq, Repr

def Ref.isHeap : Ref → Bool
  | .heap _ => true
  | .view .. => false

/-- the caller's buffers: `σ n` are the bytes currently in buffer n -/
abbrev Store := Nat → Bytes

/-- the bytes a reference denotes NOW -/
def Ref.deref (σ : Store) : Ref → Bytes
  | .heap v => v
  | .view n off len => ((σ n).drop off).take len

/-- r' can be obtained from r by re-slicing / converting / wrapping: it points into the same memory -/
def Ref.derivable : Ref → Ref → Bool
  | .heap _, .heap _ => true
  | .view n _ _, .view m _ _ => n == m
  | _, _ => false

abbrev Retained := List (Nat × Ref)

/-- one execution of a retention site: site `site` of the table stores `ref`, obtained from the `src`-th source of its
    right-hand side (for a `cls` source: from the `pick`-th retained pair) -/
structure Exec where
  site : Nat
  src  : Nat
  pick : Nat
  ref  : Ref
  deriving Repr

/-- may source `src`, evaluated while packet n is processed in state s, yield the reference r ? -/
def admissible (s : Retained) (n : Nat) (src : Src) (pick : Nat) (r : Ref) : Bool :=
  match src with
  | .heap => r.isHeap
  | .pkt =>
    match r with
    | .view m _ _ => m == n
    | .heap _ => false
  | .cls c =>
    match s[pick]? with
    | some (c', r0) => c' == c && r0.derivable r
    | none => r.isHeap
  | .unknown => true

def exec (table : List Site) (n : Nat) (s : Retained) (e : Exec) : Retained :=
  match table[e.site]? with
  | none => s
  | some site =>
    match site.rhs[e.src]? with
    | none => s
    | some src => if admissible s n src e.pick e.ref then (site.cls, e.ref) :: s else s

inductive Op where
  /-- the caller hands over buffer n; the library executes these sites; the call returns -/
  | packet (n : Nat) (execs : List Exec)
  /-- a record is deleted / a field overwritten: the k-th retained pair disappears -/
  | forget (k : Nat)
  deriving Repr

def step (table : List Site) (s : Retained) : Op → Retained
  | .packet n es => es.foldl (exec table n) s
  | .forget k => s.eraseIdx k

def run (table : List Site) (s : Retained) (ops : List Op) : Retained :=
  ops.foldl (step table) s

/-! ### taint of classes -/

/-- a set of classes, as its characteristic function -/
abbrev ClassSet := Nat → Bool

/-- the set of classes given by the bits of m (bit c set = class c is in the set) -/
def maskSet (m : Nat) : ClassSet := fun c => Nat.testBit m c

/-- the mask of a list of class ids -/
def maskOf : List Nat → Nat
  | [] => 0
  | c :: cs => (1 <<< c) ||| maskOf cs

/-- a source that may yield a reference into a packet buffer, given the set T of classes that may hold one -/
def Src.tainted (T : ClassSet) : Src → Bool
  | .heap => false
  | .pkt => true
  | .cls c => T c
  | .unknown => true

def anyTainted (T : ClassSet) : List Src → Bool
  | [] => false
  | x :: xs => x.tainted T || anyTainted T xs

/-- T is closed under the table: a site with a tainted source stores into a class of T -/
def closedB (T : ClassSet) : List Site → Bool
  | [] => true
  | s :: ss => (!anyTainted T s.rhs || T s.cls) && closedB T ss

/-- what an observer of the retained state of the classes outside T sees, given the present contents of the buffers -/
def observe (T : ClassSet) (σ : Store) : Retained → List (Nat × Bytes)
  | [] => []
  | (c, r) :: s => if T c then observe T σ s else (c, r.deref σ) :: observe T σ s

/-! ### the same machine with the caller's buffers made explicit -/

inductive OpS where
  /-- the caller fills buffer n with `data` and hands it over -/
  | lib (n : Nat) (data : Bytes) (execs : List Exec)
  | forget (k : Nat)
  /-- the caller reuses buffer n (between two calls) -/
  | overwrite (n : Nat) (data : Bytes)

def setBuf (σ : Store) (n : Nat) (data : Bytes) : Store := fun m => if m = n then data else σ m

def stepS (table : List Site) (st : Store × Retained) : OpS → Store × Retained
  | .lib n data es => (setBuf st.1 n data, step table st.2 (.packet n es))
  | .forget k => (st.1, step table st.2 (.forget k))
  | .overwrite n data => (setBuf st.1 n data, st.2)

def runS (table : List Site) (st : Store × Retained) (ops : List OpS) : Store × Retained :=
  ops.foldl (stepS table) st

/-- the history with the caller's overwrites removed (private immutable buffers) -/
def noOverwrite : List OpS → List OpS
  | [] => []
  | .overwrite _ _ :: ops => noOverwrite ops
  | op :: ops => op :: noOverwrite ops

end PV.Prov
