/-
  Model of the in-place encoders (layer_ethernet.go, layer_ip4.go, layer_ip6.go, layer_arp.go,
  layer_icmp.go) and of the send paths composed from them.

  Memory model: one backing array `mem : Bytes` (a pooled `[EthMaxSize]byte`, or any buffer) and
  slices `Sl = (off, len)` into it whose capacity reaches the end of the array
  (`cap = mem.length - off`) — true of every slice these functions create, because they only
  re-slice with `p[a:]`, `p[:b]`, `p[a:b]`.  Go semantics kept explicit:
    * `p[i] = v` panics unless `i < len(p)`;  `p[a:b]` panics unless `a ≤ b ≤ cap(p)`;
    * `copy(dst, src)` copies `min(len dst, len src)` bytes and never panics;
    * the previous contents of the buffer (pool garbage) are whatever `mem` held.
-/
import PacketVerif.Basic
import PacketVerif.Model.Checksum
namespace PV.Model

structure Sl where
  off : Nat
  len : Nat
  deriving Repr, DecidableEq

abbrev Mem := Bytes

def Sl.cap (m : Mem) (s : Sl) : Nat := m.length - s.off

/-- the bytes a slice denotes -/
def Sl.bytes (m : Mem) (s : Sl) : Bytes := (m.drop s.off).take s.len

/-- overwrite `bs` at absolute offset `at_` (caller guarantees it fits) -/
def poke (m : Mem) (at_ : Nat) (bs : Bytes) : Mem := m.take at_ ++ bs ++ m.drop (at_ + bs.length)

/-- `p[a:b]` -/
def Sl.reslice (m : Mem) (s : Sl) (a b : Nat) : Outcome Sl :=
  if a ≤ b ∧ b ≤ s.cap m ∧ s.off ≤ m.length then .ok ⟨s.off + a, b - a⟩ else .panic

/-- `p[a:]` (upper bound = len) -/
def Sl.from_ (m : Mem) (s : Sl) (a : Nat) : Outcome Sl := s.reslice m a s.len

/-- `copy(p[a:b], src)` : the re-slice may panic, the copy is clipped -/
def Sl.copyAt (m : Mem) (s : Sl) (a b : Nat) (src : Bytes) : Outcome Mem := do
  let d ← s.reslice m a b
  pure (poke m d.off (src.take d.len))

/-- `p[i] = v` -/
def Sl.put8 (m : Mem) (s : Sl) (i : Nat) (v : UInt8) : Outcome Mem :=
  if i < s.len ∧ s.off + i < m.length then .ok (poke m (s.off + i) [v]) else .panic

def hi8 (v : Nat) : UInt8 := UInt8.ofNat (v / 256)
def lo8 (v : Nat) : UInt8 := UInt8.ofNat v

/-- `binary.BigEndian.PutUint16(p[a:a+2], v)` (v already reduced mod 2^16 by the Go conversion) -/
def Sl.put16 (m : Mem) (s : Sl) (a : Nat) (v : Nat) : Outcome Mem :=
  s.copyAt m a (a + 2) [hi8 (v % 65536), lo8 (v % 65536)]

def Sl.get8 (m : Mem) (s : Sl) (i : Nat) : Outcome UInt8 :=
  if i < s.len then idx m (s.off + i) else .panic

/-- fresh pooled buffer with arbitrary previous contents `g` (`g.length` = capacity) -/
def whole (g : Mem) : Sl := ⟨0, g.length⟩

/-! ### Ethernet -/

/-- `EncodeEther(b, hType, srcMAC, dstMAC)` -/
def encodeEther (m : Mem) (b : Sl) (hType : Nat) (src dst : Bytes) : Outcome (Mem × Sl) :=
  if b.cap m < 14 then .panic else do
    let e ← b.reslice m 0 14
    let m ← e.copyAt m 0 6 dst
    let m ← e.copyAt m 6 12 src
    let m ← e.put16 m 12 hType
    pure (m, e)

def etherHdrLen (m : Mem) (p : Sl) : Outcome Nat := do
  let a ← p.get8 m 12; let b ← p.get8 m 13
  let et := be16 a b
  pure (if et == 0x8100 then 18 else if et == 0x88a8 then 22 else 14)

/-- `Ether.Payload()`; `none` = nil -/
def etherPayloadSl (m : Mem) (p : Sl) : Outcome (Option Sl) := do
  let n ← etherHdrLen m p
  if p.len > n then do let s ← p.from_ m n; pure (some s)
  else if p.len == n then do let s ← p.reslice m n (p.cap m); pure (some s)
  else pure none

/-- `Ether.SetPayload(payload)` = `p[:HeaderLen+len(payload)]` -/
def etherSetPayload (m : Mem) (p : Sl) (payloadLen : Nat) : Outcome Sl := do
  let n ← etherHdrLen m p
  p.reslice m 0 (n + payloadLen)

/-- `Ether.AppendPayload(payload)` on a freshly encoded 14-byte header: returns the resulting frame
    length.  `copy(p.Payload()[:cap(payload)], payload)` re-slices the room to the *capacity of the
    argument* (panics when that exceeds the room even if the length fits); frames are zero-padded to 60. -/
def etherAppendPayloadLen (g : Mem) (etherType payloadLen payloadCap : Nat) : Outcome Nat := do
  let (m, e) ← encodeEther g (whole g) etherType [0,0,0,0,0,0] [0,0,0,0,0,0]
  if payloadLen + 14 > e.cap m then .err .payloadTooBig else do
  let room ← etherPayloadSl m e
  -- `p.Payload()[:cap(payload)]` : nil[:0] is legal, nil[:n] panics
  let _ ← (match room with
    | none => if payloadCap == 0 then Outcome.ok (⟨0, 0⟩ : Sl) else .panic
    | some room => room.reslice m 0 payloadCap)
  let t ← e.reslice m 0 (14 + payloadLen)
  if t.len < 60 then do let t ← t.reslice m 0 60; pure t.len else pure t.len

/-! ### IPv4 / UDP -/

/-- IPv4 argument as the encoders see it: `src.Is4()` else 0.0.0.0 -/
def as4 (ip : Bytes) : Bytes := if ip.length == 4 then ip else [0, 0, 0, 0]

/-- `EncodeIP4(p, ttl, src, dst)` -/
def encodeIP4 (m : Mem) (p : Sl) (ttl : UInt8) (src dst : Bytes) : Outcome (Mem × Sl) := do
  let m ← p.put8 m 0 0x45
  let m ← p.put8 m 1 0xc0
  let m ← p.put16 m 2 20
  let m ← p.put16 m 4 0
  let m ← p.put16 m 6 0
  let m ← p.put8 m 8 ttl
  let m ← p.put8 m 9 0
  let m ← p.put16 m 10 0
  let m ← p.copyAt m 12 16 (as4 src)
  let m ← p.copyAt m 16 20 (as4 dst)
  let h ← p.reslice m 0 20
  pure (m, h)

def ip4IHLSl (m : Mem) (p : Sl) : Outcome Nat := do let b ← p.get8 m 0; pure ((b.toNat &&& 0x0f) <<< 2)
def ip4TotalLenSl (m : Mem) (p : Sl) : Outcome Nat := do let a ← p.get8 m 2; let b ← p.get8 m 3; pure (be16 a b)

/-- `IP4.Payload()` = `p[IHL:TotalLen]` -/
def ip4PayloadSl (m : Mem) (p : Sl) : Outcome Sl := do
  let i ← ip4IHLSl m p; let t ← ip4TotalLenSl m p
  p.reslice m i t

/-- `IP4.CalculateChecksum()` on a slice -/
def ip4CksumSl (m : Mem) (p : Sl) : Outcome UInt16 := do
  let a ← p.reslice m 0 10
  let b ← p.reslice m 12 20
  pure (checksum (a.bytes m ++ b.bytes m))

def putCks (m : Mem) (p : Sl) (k : Nat) (cs : UInt16) : Outcome Mem := do
  let m ← p.put8 m (k + 1) (cs >>> 8).toUInt8
  p.put8 m k cs.toUInt8

/-- `IP4.SetPayload(b, protocol)` (only `len(b)` matters) -/
def ip4SetPayload (m : Mem) (p : Sl) (payloadLen : Nat) (proto : UInt8) : Outcome (Mem × Sl) := do
  let m ← p.put8 m 9 proto
  let tl := (20 + payloadLen) % 65536
  let m ← p.put16 m 2 tl
  let cs ← ip4CksumSl m p
  let m ← putCks m p 10 cs
  let r ← p.reslice m 0 tl
  pure (m, r)

/-- `IP4.AppendPayload(b, protocol)` -/
def ip4AppendPayload (m : Mem) (p : Sl) (b : Bytes) (proto : UInt8) : Outcome (Mem × Sl) :=
  if p.cap m - p.len < b.length then .err .payloadTooBig else do
    let p ← p.reslice m 0 (p.len + b.length)
    let tl := (20 + b.length) % 65536
    let m ← p.put16 m 2 tl
    let pay ← ip4PayloadSl m p
    let m := poke m pay.off (b.take pay.len)
    let m ← p.put8 m 9 proto
    let cs ← ip4CksumSl m p
    let m ← putCks m p 10 cs
    pure (m, p)

/-- `EncodeUDP(p, srcPort, dstPort)`; `none` = nil result -/
def encodeUDP (m : Mem) (p : Sl) (sp dp : Nat) : Outcome (Mem × Option Sl) :=
  if p.cap m < 8 then .ok (m, none) else do
    let u ← p.reslice m 0 8
    let m ← u.put16 m 0 sp
    let m ← u.put16 m 2 dp
    let m ← u.put16 m 4 0
    let m ← u.put16 m 6 0
    pure (m, some u)

/-- `UDP.AppendPayload(b)` -/
def udpAppendPayload (m : Mem) (p : Sl) (b : Bytes) : Outcome (Mem × Sl) :=
  if p.cap m - p.len < b.length then .err .payloadTooBig else do
    let p ← p.reslice m 0 (p.len + b.length)
    let pay ← p.from_ m 8
    let m := poke m pay.off (b.take pay.len)
    let m ← p.put16 m 4 ((8 + b.length % 65536) % 65536)
    let m ← p.put16 m 6 0
    pure (m, p)

/-- `UDP.SetPayload(b)` -/
def udpSetPayload (m : Mem) (p : Sl) (payloadLen : Nat) : Outcome (Mem × Sl) := do
  let m ← p.put16 m 4 ((8 + payloadLen % 65536) % 65536)
  let m ← p.put16 m 6 0
  let r ← p.reslice m 0 (p.len + payloadLen)
  pure (m, r)

/-! ### IPv6 -/

/-- `netip.Addr.As16()` of the argument: v4 → v4-mapped, zero Addr → all zero -/
def as16 (ip : Bytes) : Bytes :=
  if ip.length == 16 then ip
  else if ip.length == 4 then [0,0,0,0,0,0,0,0,0,0,0xff,0xff] ++ ip
  else List.replicate 16 0

/-- `EncodeIP6(p, hopLimit, src, dst)` for a buffer with room (`cap ≥ 40`; otherwise the code allocates) -/
def encodeIP6 (m : Mem) (p : Sl) (hop : UInt8) (src dst : Bytes) : Outcome (Mem × Sl) := do
  let p ← p.reslice m 0 40
  let m ← p.put8 m 0 0x60
  let m ← p.put8 m 1 0
  let m ← p.put8 m 2 0
  let m ← p.put8 m 3 0
  let m ← p.put16 m 4 0
  let m ← p.put8 m 6 59
  let m ← p.put8 m 7 hop
  let m ← p.copyAt m 8 24 (as16 src)
  let m ← p.copyAt m 24 40 (as16 dst)
  pure (m, p)

/-- `IP6.AppendPayload(b, nextHeader)` (b non-nil) -/
def ip6AppendPayload (m : Mem) (p : Sl) (b : Bytes) (nh : UInt8) : Outcome (Mem × Sl) :=
  if p.cap m - p.len < b.length then .err .payloadTooBig else do
    let p ← p.reslice m 0 (p.len + b.length)
    let pay ← p.from_ m 40
    let m := poke m pay.off (b.take pay.len)
    let m ← p.put16 m 4 (b.length % 65536)
    let m ← p.put8 m 6 nh
    pure (m, p)

/-- `IP6.SetPayload(b, nextHeader)` -/
def ip6SetPayload (m : Mem) (p : Sl) (payloadLen : Nat) (nh : UInt8) : Outcome (Mem × Sl) := do
  let m ← p.put16 m 4 (payloadLen % 65536)
  let m ← p.put8 m 6 nh
  let r ← p.reslice m 0 (p.len + payloadLen)
  pure (m, r)

/-! ### ARP -/

/-- `copy(dst, mac[:6])` : slicing a MAC shorter than 6 (capacity assumed = length) panics -/
def mac6 (mac : Bytes) : Outcome Bytes := if mac.length ≥ 6 then .ok (mac.take 6) else .panic

/-- `EncodeARP(b, operation, srcAddr, dstAddr)`; IPs by `AsSlice()` (zero Addr ⇒ nothing copied) -/
def encodeARP (m : Mem) (b : Sl) (op : Nat) (smac sip tmac tip : Bytes) : Outcome (Mem × Sl) :=
  if b.cap m < 28 then .panic else do
    let a ← b.reslice m 0 28
    let m ← a.put16 m 0 1
    let m ← a.put16 m 2 0x0800
    let m ← a.put8 m 4 6
    let m ← a.put8 m 5 4
    let m ← a.put16 m 6 op
    let sm ← mac6 smac
    let m ← a.copyAt m 8 14 sm
    let m ← a.copyAt m 14 18 sip
    let tm ← mac6 tmac
    let m ← a.copyAt m 18 24 tm
    let m ← a.copyAt m 24 28 tip
    pure (m, a)

/-! ### ICMP -/

/-- `EncodeICMPEcho(b, t, code, id, seq, data)` into a fresh exact-size buffer (as the callers do) -/
def encodeICMPEcho (t code : UInt8) (id seq : Nat) (data : Bytes) : Bytes :=
  [t, code, 0, 0, hi8 (id % 65536), lo8 (id % 65536), hi8 (seq % 65536), lo8 (seq % 65536)] ++ data

/-- `ICMP6NeighborAdvertisementMarshal(router, solicited, override, targetAddr)` -/
def naMarshal (router solicited override : Bool) (targetIP targetMAC : Bytes) : Bytes :=
  let flags : UInt8 := (if router then 0x80 else 0) ||| (if solicited then 0x40 else 0) ||| (if override then 0x20 else 0)
  let mac := (targetMAC.take 6) ++ List.replicate (6 - min 6 targetMAC.length) 0
  [136, 0, 0, 0, flags, 0, 0, 0] ++ as16 targetIP ++ [2, 1] ++ mac

/-- `ICMP6NeighborSolicitationMarshal(targetAddr, sourceLLA)` (after fix 4b254a6: option type 1);
    `copy(b[8:], targetAddr.AsSlice())` copies 4 bytes for an IPv4 target and nothing for a zero Addr -/
def nsMarshal (targetIP sourceLLA : Bytes) : Bytes :=
  let tgt := (targetIP ++ List.replicate 16 0).take 16
  let mac := (sourceLLA.take 6) ++ List.replicate (6 - min 6 sourceLLA.length) 0
  [135, 0, 0, 0, 0, 0, 0, 0] ++ tgt ++ [1, 1] ++ mac

/-! ### send paths (whole frames as written to the connection) -/

/-- arp_spoofer `RequestRaw` / `reply` : EncodeEther + EncodeARP(ether.Payload()) + SetPayload -/
def sendARP (g : Mem) (hostMAC dst : Bytes) (op : Nat) (smac sip tmac tip : Bytes) : Outcome Bytes := do
  let (m, e) ← encodeEther g (whole g) 0x0806 hostMAC dst
  match ← etherPayloadSl m e with
  | none => .panic
  | some pay => do
    let (m, a) ← encodeARP m pay op smac sip tmac tip
    let f ← etherSetPayload m e a.len
    pure (f.bytes m)

/-- `Session.arpRequest` (after fix 29c1a70) : 42-byte slice of the pool buffer, fields written in place -/
def sessionArpRequest (g : Mem) (hostMAC dst smac sip tmac tip : Bytes) : Outcome Bytes := do
  let b ← (whole g).reslice g 0 42
  let (m, e) ← encodeEther g b 0x0806 hostMAC dst
  match ← etherPayloadSl m e with
  | none => .panic
  | some arp => do
    let m ← arp.put16 m 0 1
    let m ← arp.put16 m 2 0x0800
    let m ← arp.put8 m 4 6
    let m ← arp.put8 m 5 4
    let m ← arp.put16 m 6 1
    let sm ← mac6 smac
    let m ← arp.copyAt m 8 14 sm
    let m ← arp.copyAt m 14 18 sip
    let tm ← mac6 tmac
    let m ← arp.copyAt m 18 24 tm
    let m ← arp.copyAt m 24 28 tip
    let f ← e.reslice m 0 42
    pure (f.bytes m)

/-- the common UDP/IPv4 composition (sendDHCP4Packet, sendNBNS, SendSSDPSearch, sendMDNS v4):
    EncodeEther, EncodeIP4(ether.Payload()), EncodeUDP(ip4.Payload()), udp.AppendPayload,
    ip4.SetPayload(udp), ether.SetPayload(ip4) -/
def sendUDP4 (g : Mem) (srcMAC dstMAC : Bytes) (ttl : UInt8) (sip dip : Bytes) (sp dp : Nat) (payload : Bytes) :
    Outcome Bytes := do
  let (m, e) ← encodeEther g (whole g) 0x0800 srcMAC dstMAC
  match ← etherPayloadSl m e with
  | none => .panic
  | some pay => do
    let (m, ip) ← encodeIP4 m pay ttl sip dip
    let ipay ← ip4PayloadSl m ip
    match ← encodeUDP m ipay sp dp with
    | (_, none) => if payload.length > 0 then .err .payloadTooBig else .panic  -- nil UDP slice
    | (m, some u) => do
      let (m, u) ← udpAppendPayload m u payload
      let (m, ip) ← ip4SetPayload m ip u.len 17
      let f ← etherSetPayload m e ip.len
      pure (f.bytes m)

/-- plain Ethernet/IPv6/UDP composition with the library encoders (no checksum: `EncodeUDP` writes 0) -/
def composeUDP6 (g : Mem) (srcMAC dstMAC : Bytes) (hop : UInt8) (sip dip : Bytes) (sp dp : Nat) (payload : Bytes) :
    Outcome Bytes := do
  let (m, e) ← encodeEther g (whole g) 0x86dd srcMAC dstMAC
  match ← etherPayloadSl m e with
  | none => .panic
  | some pay => do
    let (m, ip) ← encodeIP6 m pay hop sip dip
    let ipay ← ip.from_ m 40
    match ← encodeUDP m ipay sp dp with
    | (_, none) => if payload.length > 0 then .err .payloadTooBig else .panic
    | (m, some u) => do
      let (m, u) ← udpAppendPayload m u payload
      let (m, ip) ← ip6SetPayload m ip u.len 17
      let f ← etherSetPayload m e ip.len
      pure (f.bytes m)

/-- Ethernet/IPv4 + ICMP message through `IP4.AppendPayload` (no ICMP checksum: that is the send path's job) -/
def composeICMP4 (g : Mem) (srcMAC dstMAC : Bytes) (ttl : UInt8) (sip dip msg : Bytes) : Outcome Bytes := do
  let (m, e) ← encodeEther g (whole g) 0x0800 srcMAC dstMAC
  match ← etherPayloadSl m e with
  | none => .panic
  | some pay => do
    let (m, ip) ← encodeIP4 m pay ttl sip dip
    let (m, ip) ← ip4AppendPayload m ip msg 1
    let f ← etherSetPayload m e ip.len
    pure (f.bytes m)

def composeICMP6 (g : Mem) (srcMAC dstMAC : Bytes) (hop : UInt8) (sip dip msg : Bytes) : Outcome Bytes := do
  let (m, e) ← encodeEther g (whole g) 0x86dd srcMAC dstMAC
  match ← etherPayloadSl m e with
  | none => .panic
  | some pay => do
    let (m, ip) ← encodeIP6 m pay hop sip dip
    let (m, ip) ← ip6AppendPayload m ip msg 58
    let f ← etherSetPayload m e ip.len
    pure (f.bytes m)

/-- sendMDNS IPv6 branch -/
def sendUDP6 (g : Mem) (srcMAC dstMAC : Bytes) (hop : UInt8) (sip dip : Bytes) (sp dp : Nat) (payload : Bytes) :
    Outcome Bytes := do
  let (m, e) ← encodeEther g (whole g) 0x86dd srcMAC dstMAC
  match ← etherPayloadSl m e with
  | none => .panic
  | some pay => do
    let (m, ip) ← encodeIP6 m pay hop sip dip
    let ipay ← ip.from_ m 40
    match ← encodeUDP m ipay sp dp with
    | (_, none) => if payload.length > 0 then .err .payloadTooBig else .panic  -- nil UDP slice
    | (m, some u) => do
      let (m, u) ← udpAppendPayload m u payload
      let (m, ip) ← ip6SetPayload m ip u.len 17
      -- UDP checksum over the IPv6 pseudo header (after fix bfa880d); 0 is transmitted as 0xffff
      let src ← ip.reslice m 8 24
      let dst ← ip.reslice m 24 40
      let n := u.len
      let psh := src.bytes m ++ dst.bytes m ++
        [UInt8.ofNat (n / 16777216), UInt8.ofNat (n / 65536), UInt8.ofNat (n / 256), UInt8.ofNat n, 0, 0, 0, 17] ++ u.bytes m
      let cs := checksum psh
      let cs := if cs == 0 then 0xffff else cs
      let m ← putCks m u 6 cs
      let f ← etherSetPayload m e ip.len
      pure (f.bytes m)

/-- `icmp4SendPacket(srcAddr, dstAddr, p)` : checksum stored into the caller's message first -/
def sendICMP4 (g : Mem) (hostMAC dstMAC sip dip : Bytes) (msg : Bytes) : Outcome Bytes :=
  if msg.length < 4 then .panic else do
  let (m, e) ← encodeEther g (whole g) 0x0800 hostMAC dstMAC
  match ← etherPayloadSl m e with
  | none => .panic
  | some pay => do
    let (m, ip) ← encodeIP4 m pay 50 sip dip
    let msg := putChecksum msg 2 (checksum msg)
    let (m, ip) ← ip4AppendPayload m ip msg 1
    let f ← etherSetPayload m e ip.len
    pure (f.bytes m)

def isLLUorLLM (ip : Bytes) : Bool :=
  -- IsLinkLocalUnicast || IsLinkLocalMulticast (netip), see Model/Netip
  let a := if ip.length == 16 && (ip.take 10).all (· == 0) && ip[10]? == some 0xff && ip[11]? == some 0xff then ip.drop 12 else ip
  if a.length == 4 then (a[0]? == some 169 && a[1]? == some 254) || (a[0]? == some 224 && a[1]? == some 0 && a[2]? == some 0)
  else if a.length == 16 then
    (a[0]? == some 0xfe && ((a[1]?.getD 0).toNat / 64 == 2)) || (a[0]? == some 0xff && ((a[1]?.getD 0).toNat % 16 == 2))
  else false

/-- `icmp6SendPacket(srcAddr, dstAddr, b)` -/
def sendICMP6 (g : Mem) (hostMAC dstMAC sip dip : Bytes) (msg : Bytes) : Outcome Bytes :=
  if msg.length < 4 then .panic else do
  let hop : UInt8 := if isLLUorLLM dip then 255 else 64
  let (m, e) ← encodeEther g (whole g) 0x86dd hostMAC dstMAC
  match ← etherPayloadSl m e with
  | none => .panic
  | some pay => do
    let (m, ip) ← encodeIP6 m pay hop sip dip
    -- `ip6, _ = ip6.AppendPayload(b, …)`: the error is dropped, ip6 becomes nil and `ip6.Src()` panics
    let (m, ip) ← (match ip6AppendPayload m ip msg 58 with
      | .err _ => Outcome.panic
      | r => r)
    let f ← etherSetPayload m e ip.len
    -- pseudo header from the addresses *as stored in the header* + message as passed
    let src ← ip.reslice m 8 24
    let dst ← ip.reslice m 24 40
    let cs := checksum (icmp6Pseudo (src.bytes m) (dst.bytes m) msg)
    let icmp ← ip.from_ m 40
    let m ← putCks m icmp 2 cs
    pure (f.bytes m)

end PV.Model
