/-
  Run-time vocabulary of `Gen/DhcpFileGen.lean` (tools/goextract/dhcpfile.go): the fixed dictionary the
  regenerated bodies of `newSubnet`, `configChanged`, `loadConfig`, `loadByteArray`, `saveConfig` and `Config.New`
  (handlers/dhcp4_spoofer) are written in.  Trusted (listed in checks.json): each entry says which Go construct it
  stands for.  `netip.Addr` / `netip.Prefix` are the file model's `FAddr` / `FPrefix` (an IPv4 address is its 32-bit
  number, as in Model/Dhcp4Srv); an IPv6 value keeps only what the code can observe of it here (`IsUnspecified`).
-/
import PacketVerif.Model.Dhcp4Restart
namespace PV.Model.DhcpFileGo
open PV PV.Model.Dhcp4Srv PV.Model.Dhcp4File

/-- `dhcpSubnet`: the embedded `SubnetConfig`, `broadcast`, `options` (map as association list), `nextIP` -/
structure GSubnet where
  cfg : SubRec
  broadcast : FAddr
  options : List (Nat × Bytes)
  nextIP : FAddr
  deriving DecidableEq, Repr

/-- Go zero values -/
def zeroSubRec : SubRec :=
  { lan := .invalid, gw := .invalid, server := .invalid, dns := .invalid, first := .invalid, dur := 0, stage := 0 }
def zeroSubnet : GSubnet := { cfg := zeroSubRec, broadcast := .invalid, options := [], nextIP := .invalid }

/-- a `Lease` VALUE (loop variable of `loadByteArray`): the exported fields as the YAML decoder filled them and the
    unexported `subnet` pointer — represented by WHICH of the handler's two subnets it points to (`none` = nil) -/
structure GLease where
  r : LeaseRec
  sub : Option SubId
  deriving DecidableEq, Repr

def zeroLeaseRec : LeaseRec := { cid := [], state := 0, mac := [], ip := .invalid, offer := none, xid := [], expiry := 0 }
def zeroLease : GLease := { r := zeroLeaseRec, sub := none }

/-- `Config` -/
structure GConfig where
  mode : Int
  netfilterIP : FPrefix
  dns : FAddr
  filename : String
  deriving DecidableEq, Repr

/-- what `Config.New` reads of `session.NICInfo` -/
structure GNic where
  homeLAN4 : FPrefix
  router : FAddr
  host : FAddr
  deriving DecidableEq, Repr

/-- `Handler` (fields `session`, `closeChan`, `closed`, the mutex are not represented: stores to them are listed as ignored) -/
structure GHandler where
  mode : Int
  filename : String
  table : Option Table
  net1 : Option GSubnet
  net2 : Option GSubnet
  deriving DecidableEq, Repr

def zeroHandler : GHandler := { mode := 0, filename := "", table := none, net1 := none, net2 := none }

/-- file-system calls as effects, in program order -/
inductive FsOp where
  | writeFile (name : String) (data : Bytes)     -- ioutil.WriteFile(name, data, perm): create or TRUNCATE, write, close
  | rename (old new : String)                    -- os.Rename
  | remove (name : String)                       -- os.Remove
  deriving DecidableEq, Repr

/-- parameters of the translated functions: the session's capture predicate, the YAML codec, the hash, the file system
    as seen by `ioutil.ReadFile`, and which of the file-system calls fail (by position in the effect list) -/
structure Env where
  captured : MAC → Bool
  dec : Bytes → Option FileRec
  enc : FileRec → Option Bytes
  hash : Hash
  readFile : String → Option Bytes
  ioFails : Nat → Bool

/-- `return …, <non-nil error>` -/
def failErr {α} : Outcome α := .err .other
/-- dereference of a pointer that may be nil -/
def deref {α} : Option α → Outcome α
  | some a => .ok a
  | none => .panic
/-- value stored when a `*dhcpSubnet` is copied into `Lease.subnet`: nil stays nil, otherwise which subnet it is -/
def ptrTag {α} (p : Option α) (t : SubId) : Option SubId := p.map (fun _ => t)
/-- a call `x, …, err = f(…)` whose error is inspected later: the results (zero values on error) and `err != nil` -/
def try3 {α β γ} : Outcome (Option α × Option β × Option γ) → Outcome (Option α × Option β × Option γ × Bool)
  | .ok (a, b, c) => .ok (a, b, c, false)
  | .err _ => .ok (none, none, none, true)
  | .panic => .panic
  | .hang => .hang

/-! ### net/netip -/
def prefixIsValid : FPrefix → Bool
  | .invalid => false
  | _ => true
def prefixAddr : FPrefix → FAddr
  | .v4 a _ => .v4 a
  | .v6 => .v6 false
  | .invalid => .invalid
def prefixBits : FPrefix → Int
  | .v4 _ b => b
  | .v6 => 128
  | .invalid => -1
def prefixMasked : FPrefix → FPrefix
  | .v4 a b => .v4 (a / psize b * psize b) b
  | p => p
def prefixContains : FPrefix → FAddr → Bool
  | .v4 a b, .v4 ip => pcontains a b ip
  | _, _ => false
def prefixFrom : FAddr → Int → FPrefix
  | .v4 a, b => if 0 ≤ b ∧ b ≤ 32 then .v4 a b.toNat else .invalid
  | .v6 _, _ => .v6
  | .invalid, _ => .invalid
def addrIs4 : FAddr → Bool
  | .v4 _ => true
  | _ => false
def addrIsValid : FAddr → Bool
  | .invalid => false
  | _ => true
def addrIsUnspecified : FAddr → Bool
  | .v4 ip => ip == 0
  | .v6 u => u
  | .invalid => false
def addrNext : FAddr → FAddr
  | .v4 ip => if ip + 1 < 4294967296 then .v4 (ip + 1) else .invalid
  | .v6 _ => .v6 false
  | .invalid => .invalid
/-- `Addr.As4()` panics unless the address is IPv4 -/
def addrAs4 : FAddr → Outcome Bytes
  | .v4 ip => .ok (ip4Bytes ip)
  | _ => .panic
def addrFrom4 : Bytes → FAddr
  | [a, b, c, d] => .v4 (be32 a b c d)
  | _ => .invalid
def addrAsSlice : FAddr → Bytes
  | .v4 ip => ip4Bytes ip
  | .v6 _ => List.replicate 16 0
  | .invalid => []
/-- `net.CIDRMask(ones, bits)`: nil unless `bits` is 32 (or 128, not needed) and `0 ≤ ones ≤ bits` -/
def cidrMask (ones bits : Int) : Bytes :=
  if bits = 32 ∧ 0 ≤ ones ∧ ones ≤ 32 then maskBytes ones.toNat else []
/-- `packet.DNSv4CloudFlareFamily1` -/
def familyDNSAddr : FAddr := .v4 familyDNS

/-! ### arrays, slices, maps -/
/-- `for i := range a` over an array / slice -/
def indices (a : Bytes) : List Nat := List.range a.length
def idxN (a : Bytes) (i : Nat) : Outcome UInt8 := idx a i
def setN (a : Bytes) (i : Nat) (v : UInt8) : Outcome Bytes := if i < a.length then .ok (a.set i v) else .panic
/-- ranging over a slice that may be nil -/
def sliceElems {α} : Option (List α) → List α
  | some l => l
  | none => []
/-- `append(s, x)` on a slice that may be nil -/
def sliceAppend {α} (s : Option (List α)) (x : α) : Option (List α) := some (sliceElems s ++ [x])
/-- `m[k] = v` on the option map -/
def optSet (o : List (Nat × Bytes)) (k : Nat) (v : Bytes) : List (Nat × Bytes) := o.filter (fun e => e.1 != k) ++ [(k, v)]
/-- ranging over the lease map (`map[string]*Lease`): the model's table in list order (assumption, listed) -/
def mapElems (t : Option Table) : List (Cid × Lease) := sliceElems t

/-- the lease states as the integers of the file -/
def stateOfInt (n : Int) : LState := if n = 2 then .allocated else if n = 1 then .discover else .free
/-- `l = v; tt[string(v.ClientID)] = &l`: the table entry of a `Lease` value.  A lease whose `subnet` pointer is nil is not
    a state of the model (its first use dereferences nil): the store itself is reported as the panic. -/
def storeLease (t : Table) (k : Bytes) (l : GLease) : Outcome Table :=
  match l.sub with
  | none => .panic
  | some sub =>
    .ok (setLease t k { state := stateOfInt l.r.state, mac := l.r.mac,
                        ip := (match l.r.ip with | .v4 ip => some ip | _ => none),
                        offer := l.r.offer, xid := l.r.xid, sub := sub, expiry := l.r.expiry })
/-- `*v` for a `*Lease` of the table, as the record handed to the YAML encoder -/
def leaseValue (e : Cid × Lease) : LeaseRec := leaseRecOf e
def entryState (e : Cid × Lease) : Int :=
  match e.2.state with
  | .allocated => 2
  | .discover => 1
  | .free => 0

/-- `openLeaseFile` (not translated: byte-level, `Model.Dhcp4File.openFile`): the YAML to load, or the error -/
def openLeaseFile (h : Hash) (source : Bytes) : Outcome Bytes :=
  match openFile h source with
  | .legacy y => .ok y
  | .verified b => .ok b
  | .damaged => failErr
/-- `yaml.Unmarshal(source, &table)` -/
def yamlUnmarshal (env : Env) (source : Bytes) : Outcome FileRec :=
  match env.dec source with
  | some r => .ok r
  | none => failErr
/-- `yaml.Marshal(&table)`: the stream and `err != nil` -/
def yamlMarshal (env : Env) (r : FileRec) : Bytes × Bool :=
  match env.enc r with
  | some b => (b, false)
  | none => ([], true)
/-- `ioutil.ReadFile(fname)` -/
def readFile (env : Env) (fname : String) : Outcome Bytes :=
  match env.readFile fname with
  | some b => .ok b
  | none => failErr
/-- `sealLeaseFile` (not translated: `Model.Dhcp4File.sealFile`) -/
def sealLeaseFile (env : Env) (body : Bytes) : Bytes := sealFile env.hash body
/-- a file-system call: appended to the effect list; its error is the environment's verdict for that position -/
def fsCall (env : Env) (fs : List FsOp) (op : FsOp) : List FsOp × Bool := (fs ++ [op], env.ioFails fs.length)

/-- `(*dhcpSubnet).appendRouteOptions` (not translated; hand-written from the Go body): options 31, 33 and 121 -/
def maskOnes (m : Bytes) : Nat := m.foldl (fun n b => n + (List.range 8).countP (fun i => b.toNat / 2 ^ i % 2 == 1)) 0
def appendRouteOptions (n : GSubnet) (ip : FAddr) (mask : Bytes) (routeTo : FAddr) : GSubnet :=
  let ones := maskOnes mask
  let octets := (ones + 7) / 8
  let o := optSet n.options 31 [0]
  let o := optSet o 33 (addrAsSlice ip ++ addrAsSlice routeTo)
  let o := optSet o 121 (UInt8.ofNat ones :: (mask.take octets ++ addrAsSlice routeTo))
  { n with options := o }

end PV.Model.DhcpFileGo
