/-
  Several sessions, one `icmpTable` (layer_icmp.go: `var icmpTable` is a PACKAGE-LEVEL variable, shared by every
  `Session` of the process), `Session.Close` steps, and the timer of every call.

  The machine of Model/Ping.lean is the process-global part: the table, the identifier counter and the
  calls.  What a session adds:

    on k e      a step `e` of the ping machine taken on / by session `k`:
                  reg / sendOk / sendErr / …  : the call was made on session k (`h.Ping…`), its request goes out
                                               on k's connection;
                  echo id                     : `k.Parse(frame)` met an echo reply carrying `id` and called the
                                               package-level `echoNotify(id)`;
                `echoNotify` does not look at the session: the effect of `on k e` on table and calls is the
                effect of `e` whatever `k` is.  In particular a reply parsed by session B completes a call made
                on session A when it carries A's identifier (stated in Props/C19Multi `cross_session_reply_completes`).
    close k     `Session.Close()` of session k (session.go): sets `h.closed` (a second Close returns at once),
                closes closeChan, the notification channel and the connection, sleeps one second.  It does not
                touch icmpTable, no waiter's channel, no call's record.
    deadline p  the wall clock has reached the moment the timer `time.After(timeout)` of call p can fire.
                `timeout p` (the select taking the timer branch) is enabled only afterwards.  The harness places
                `d<p>` in the observed log before the first event whose time stamp is at least (time the request of
                p was written) + (effective timeout) - 2 ms: a call that returns ErrTimeout earlier than that has
                no explanation in this machine, whatever else happened (a Close of another session, …).

  Identifier allocation is the code's `id := icmpTable.id; icmpTable.id++` on a uint16: `nextId` wraps from
  65535 to 0 (Model/Ping `step (.reg p)`, `(nextId + 1) % 65536`), identifier 0 is allocated like any other and
  `table[id] = &msg` OVERWRITES an entry that is still pending under the same identifier (`tset`).
-/
import PacketVerif.Model.Ping
namespace PV.Model.PingMulti
open PV PV.Model.Ping

structure MState where
  base : State
  sessOf : Nat → Nat      -- history: the session a call was made on
  closed : Nat → Bool     -- `h.closed` of every session
  due : Nat → Bool        -- the timer of call p has fired

inductive MEvent where
  | on (k : Nat) (e : Event)
  | close (k : Nat)
  | deadline (p : Nat)
  deriving DecidableEq, Repr, Inhabited

def minit (id0 : Nat) : MState :=
  { base := init id0, sessOf := fun _ => 0, closed := fun _ => false, due := fun _ => false }

/-- the session recorded for a call: set by its `reg` -/
def sessAfter (f : Nat → Nat) (k : Nat) : Event → Nat → Nat
  | .reg p => fun q => if q = p then k else f q
  | _ => f

/-- the timer branch of the select needs the timer to have fired -/
def timerOk (due : Nat → Bool) : Event → Bool
  | .timeout p => due p
  | _ => true

def mstep (s : MState) : MEvent → Option MState
  | .on k e =>
    if timerOk s.due e then
      match step s.base e with
      | some b => some { s with base := b, sessOf := sessAfter s.sessOf k e }
      | none => none
    else none
  | .close k => some { s with closed := fun j => if j = k then true else s.closed j }
  | .deadline p => some { s with due := fun q => if q = p then true else s.due q }

def mrun (s : MState) : List MEvent → Option MState
  | [] => some s
  | e :: es => match mstep s e with
    | some s' => mrun s' es
    | none => none

/-- the steps of the process-global ping machine inside a multi-session schedule -/
def erase : List MEvent → List Event
  | [] => []
  | .on _ e :: es => e :: erase es
  | _ :: es => erase es

/-- **no identifier collision**: whenever a call registers, the identifier it is given (the counter value,
    any value 0 … 65535) is not held by a call that is still registered.  This is what remains of the old
    `NoWrap` hypothesis: the counter may wrap as often as it likes. -/
def NoCollide (s : State) : List Event → Prop
  | [] => True
  | e :: es => (∀ p, e = .reg p → ∀ q, (s.th q).active = true → (s.th q).id ≠ s.nextId) ∧
      match step s e with
      | some s' => NoCollide s' es
      | none => True

end PV.Model.PingMulti
