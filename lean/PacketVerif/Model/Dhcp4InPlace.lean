/-
  `EncodeDHCP4` IN PLACE with ALIASED arguments (builder D): the memory-level model of layer_dhcp4.go `EncodeDHCP4` +
  `AppendOptions` called the way handlers/dhcp4_spoofer and the documentation call it — the destination is the request
  buffer, and the option values and the order list may be slices INTO that buffer (`ParseOptions` returns such slices;
  `order = options[55]`; `getClientID` returns `p.CHAddr()` = p[28:34] when the request has no client identifier).

  One backing array `m : Mem` (`Model/Encode`): the destination `b[:cap(b)]` IS the array (`cap = m.length`); a byte
  slice argument is `Src`: a value of its own (`lit`) or a window `ref off len` of the array, READ AT THE MOMENT THE GO
  CODE READS IT.  The statements of the Go function, in order:

      zeroes(p[34:236]); p[0] = opcode; p[1] = 1; p[2] = 6; p[3] = 0; xid != nil: copy(p[4:8], xid); secs = 0; flags = 0;
      cookie; ciaddr.Is4(): copy(p[12:16], …); yiaddr.Is4(): copy(p[16:20], …); siaddr = 0; giaddr = 0;
      chaddr != nil: copy(p[28:44], chaddr), p[2] = len(chaddr); SetBroadcast (p[10] is 0 by then)        -- `hdrWrites`
      options[53] = []byte{mt}                                                                            -- a fresh value
      AppendOptions: order = append([]byte{1}, order...) …         -- READS the order list (now: after the header writes)
                     the two loops copy every value into the 1024-byte scratch buffer                     -- READ the values
                     copy(p[240:cap(p)], buffer[:pos])                                  -- the FIRST write to the option area
      n >= len(p): nil;  p[n] = End;  pad to 300;  return p[:n]

  `encodeDHCP4Mem` executes exactly this on the array.  What the value-level model `Dhcp4Opt.encodeDHCP4` (and the
  round-trip theorems of Props/C03Dhcp about it) assume — that the arguments are VALUES — is the theorem
  `Props.C03InPlace.encodeDHCP4_inplace_alias`: every read of an argument window that no header write touches returns
  the bytes the window held when the encoder was called; this is exactly why `AppendOptions` goes through a temporary
  buffer and why the header writes must stay inside the 240-byte header.
-/
import PacketVerif.Model.Dhcp4Opt
import PacketVerif.Model.Encode
namespace PV.Model.Dhcp4Opt
open PV PV.Model

/-- a `[]byte` argument: a value of its own, or the window `[off, off+len)` of the destination's backing array -/
inductive Src where
  | lit (b : Bytes)
  | ref (off len : Nat)
  deriving Repr, DecidableEq

/-- the bytes the argument denotes in memory `m` -/
def Src.read (m : Mem) : Src → Bytes
  | .lit b => b
  | .ref off len => (m.drop off).take len

/-- the argument as the value it has in `m` -/
def Src.freeze (m : Mem) (s : Src) : Src := .lit (s.read m)

structure MArgs where
  opcode : UInt8
  mt : UInt8
  chaddr : Option Bytes
  ciaddr : Option Bytes     -- `Is4()`: the four bytes, else keep
  yiaddr : Option Bytes
  xid : Option Bytes
  broadcast : Bool
  opts : List (UInt8 × Src)
  order : Src

/-- the arguments with every slice replaced by its value at call time -/
def MArgs.freeze (m : Mem) (a : MArgs) : MArgs :=
  { a with opts := a.opts.map (fun e => (e.1, e.2.freeze m)), order := a.order.freeze m }

/-- the writes of `EncodeDHCP4` before `AppendOptions` runs, in program order: (absolute offset, bytes) -/
def hdrWrites (a : MArgs) : List (Nat × Bytes) :=
  [(34, zeros 202), (0, [a.opcode]), (1, [1]), (2, [6]), (3, [0])]
  ++ (match a.xid with | some x => [(4, x.take 4)] | none => [])
  ++ [(8, [0, 0]), (10, [0, 0]), (236, [99, 130, 83, 99])]
  ++ (match a.ciaddr with | some x => [(12, x.take 4)] | none => [])
  ++ (match a.yiaddr with | some x => [(16, x.take 4)] | none => [])
  ++ [(20, [0, 0, 0, 0]), (24, [0, 0, 0, 0])]
  ++ (match a.chaddr with | some c => [(28, c.take 16), (2, [UInt8.ofNat c.length])] | none => [])
  ++ (if a.broadcast then [(10, [128])] else [])

def applyWrites (m : Mem) (ws : List (Nat × Bytes)) : Mem := ws.foldl (fun m w => poke m w.1 w.2) m

/-- **`EncodeDHCP4(b, …)` on the backing array `m`** (`cap(b) = m.length`); `.ok []` is the nil return -/
def encodeDHCP4Mem (m : Mem) (a : MArgs) (tail : List UInt8) : Outcome Bytes :=
  if m.length < 300 then .ok []
  else
    let m1 := applyWrites m (hdrWrites a)
    -- options[53] = {mt}; AppendOptions reads the order list and every value from the array as it is NOW
    let optsV : Opts := optSet (a.opts.map (fun e => (e.1, e.2.read m1))) 53 [a.mt]
    do
      let (placed, pos) ← appendOptions m1.length optsV (a.order.read m1) tail
      let n := 240 + pos
      if n ≥ m1.length then .ok []
      else
        let m2 := poke m1 240 placed                       -- copy(p[240:cap(p)], buffer[:pos])
        let m3 := poke m2 n [255]                          -- p[n] = End
        let m4 := poke m3 (n + 1) (zeros (300 - (n + 1)))  -- pad to 300
        .ok (m4.take (max (n + 1) 300))

/-- an argument no header write touches -/
def Src.untouched (ws : List (Nat × Bytes)) : Src → Prop
  | .lit _ => True
  | .ref off len => ∀ w ∈ ws, off + len ≤ w.1 ∨ w.1 + w.2.length ≤ off

/-- the value-level arguments (`Dhcp4Opt.EncArgs`) of memory-level arguments read in `m` -/
def MArgs.values (m : Mem) (a : MArgs) : EncArgs :=
  { opcode := a.opcode, mt := a.mt, chaddr := a.chaddr, ciaddr := a.ciaddr, yiaddr := a.yiaddr, xid := a.xid,
    broadcast := a.broadcast, opts := a.opts.map (fun e => (e.1, e.2.read m)), order := a.order.read m }

end PV.Model.Dhcp4Opt
