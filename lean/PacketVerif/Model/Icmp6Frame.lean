/-
  The ICMPv6 handler on RAW frames: the packet loop of the library (examples/arpspoofer: `frame, err :=
  s.Parse(buf)`; on an error the frame is dropped; `frame.PayloadID == PayloadICMP6` →
  `icmp6Spoofer.ProcessPacket(frame)`) composed with the part of `Handler6.ProcessPacket`
  (handlers/icmp_spoofer/icmp6.go) that decides whether the frame is handled as a router advertisement:

      ip6Frame := pkt.IP6(); ip6Frame == nil → ErrParseFrame    (fix: ICMPv6 carried by IPv4)
      icmp6Frame := ICMP(pkt.Payload()); IsValid: len ≥ 8
      switch icmp6Frame.Type(): 134 → router advertisement branch (`Model.Icmp6Hunt.processRA`:
          length ≥ 16, wake-up, `repeat` throttle, `pkt.Host != nil`, options, findOrCreateRouter);
      every other type (neighbour solicitation / advertisement, router solicitation, echo, MLD, redirect,
      destination unreachable, unknown) leaves the handler state alone.

  `raInOf` builds the `RaIn` the hunt machine consumes from the frame bytes: Ethernet source
  (`pkt.Ether().Src()`), IPv6 source (`ip6Frame.Src()`), `pkt.Host != nil` (Parse found or created the
  sender in the host table – its discovery rule, `Frame.hostEv`), the ICMPv6 message.
-/
import PacketVerif.Model.Parse
import PacketVerif.Model.Icmp6Hunt
namespace PV.Model.Icmp6Frame
open PV PV.Model PV.Model.Icmp6Hunt

def raInOf (c : Model.Cfg) (p : Bytes) : Outcome (Option RaIn) := do
  let r ← parse c p
  if r.err.isSome then pure none                      -- the loop drops frames Parse rejects
  else if r.frame.pid ≠ Pid.icmp6 then pure none       -- not dispatched to the ICMPv6 handler
  else if r.frame.offIP6 = 0 then pure none            -- pkt.IP6() == nil → ErrParseFrame
  else do
    let pay ← sliceFrom p r.frame.offPayload           -- pkt.Payload()
    if pay.length < 8 then pure none                   -- icmp6Frame.IsValid
    else do
      let t ← idx pay 0
      if t ≠ 134 then pure none
      else pure (some { etherSrc := r.frame.srcMAC, ipSrc := r.frame.srcIP,
                        hostKnown := r.frame.hostEv.isSome, payload := pay })

/-- `Handler6.ProcessPacket` after Parse and dispatch, on the handler state: the router-advertisement
    branch for the frames of `raInOf`, nothing for every other frame.  `none` = the frame was not
    handled as a router advertisement; `some ok` = the RA branch returned nil / an error. -/
def processFrame (c : Model.Cfg) (s : State) (p : Bytes) : Outcome (State × Option Bool) := do
  let r ← raInOf c p
  match r with
  | some ra => do
    let (s', ok) ← processRA s ra
    pure (s', some ok)
  | none => pure (s, none)

/-- the machine event of a received frame -/
def frameEvent (c : Model.Cfg) (p : Bytes) : Event :=
  match raInOf c p with
  | .ok (some r) => .ra r
  | _ => .rxOther

inductive RawEv where
  | ev (e : Event)
  | frame (p : Bytes)

def isRx : Event → Bool
  | .ra _ => true
  | .rxOther => true
  | _ => false

/-- a raw history: received packets appear only as frames (bytes), never as abstract events -/
def RawEv.wf : RawEv → Bool
  | .ev e => !isRx e
  | .frame _ => true

def evOf (c : Model.Cfg) : RawEv → Event
  | .ev e => e
  | .frame p => frameEvent c p

def runRaw (c : Model.Cfg) (s : State) (ops : List RawEv) : Option (State × List Out) :=
  run s (ops.map (evOf c))

end PV.Model.Icmp6Frame
