/-
  Run-time vocabulary of the regenerated session life cycle (Gen/SessLifeGen.lean, written by
  tools/goextract/sesslife.go from session.go: `Session.Close`, the two goroutines `NewSession` starts, and the
  tail of `NewSession` that creates the host and router entries).

  The heap is the state of the model (`Model.SessionLife.Life`); the fields that are not Go state (`cl`, `winner`,
  `minute`, `monitor`: program counters and a history variable) are never touched by regenerated code.
  `Close` is a `CProg`: the statements between `h.mutex.Lock()` and `h.mutex.Unlock()` are one `atomic` node, every
  statement after it one `eff` node, in the Go order.  A goroutine `for { select { … } }` is one function per
  `case`, returning the new state and whether the loop goes round again or the goroutine returns.
  Core Lean only.
-/
import PacketVerif.Model.SessionLife
import PacketVerif.Model.TablesGo
namespace PV.Model.SessionLifeGo
open PV PV.Model PV.Model.SessionLife

/-- the statements of `Close` after its lock section -/
inductive Eff where
  | closeCloseChan          -- `close(h.closeChan)`
  | closeC                  -- `close(h.C)`
  | connClose               -- `h.Conn.Close()`
  | sleep (ns : Int)        -- `time.Sleep(d)`
  deriving DecidableEq, Repr

inductive CProg where
  | done
  | atomic (f : Life → Life × CProg)
  | eff (e : Eff) (k : CProg)

inductive LoopCtl where
  | again | ret
  deriving DecidableEq, Repr

/-- a channel a goroutine's `select` waits for -/
inductive LChan where
  | ticker (d : String)     -- `ticker.C` of `time.NewTicker(d)` (d = the Go expression, or its value in ns when constant)
  | closeChan
  deriving DecidableEq, Repr

/-- the effect of one statement on the Go state (`close` of a closed channel panics) -/
def Eff.run : Eff → Life → R
  | .closeCloseChan, s => if s.chClosed then .panic else .next { s with chClosed := true }
  | .closeC, s => if s.cClosed then .panic else .next { s with cClosed := true }
  | .connClose, s => .next { s with connClosed := s.connClosed + 1 }
  | .sleep _, s => .next s

/-- `syscall.Kill(os.Getpid(), syscall.SIGTERM)` -/
def sigterm (s : Life) : Life := { s with killed := s.killed + 1 }
/-- `go h.purge(t)` -/
def spawnPurge (s : Life) (t : Int) : Life := { s with purges := s.purges ++ [t] }

/-! ### reference program of `Close` (hand-written; `Session_Close = closeProg` is the tie) -/

/-- what is left of a `Close` call that passed the mark, by the model's program counter -/
def closeAt : Nat → CProg
  | 1 => .eff .closeCloseChan (.eff .closeC (.eff .connClose (.eff (.sleep 1000000000) .done)))
  | 2 => .eff .closeC (.eff .connClose (.eff (.sleep 1000000000) .done))
  | 3 => .eff .connClose (.eff (.sleep 1000000000) .done)
  | 4 => .eff (.sleep 1000000000) .done
  | _ => .done

def closeProg : CProg :=
  .atomic fun st => if st.closed then (st, .done) else ({ st with closed := true }, closeAt 1)

end PV.Model.SessionLifeGo
