/-
  Loops of the L2 helpers that C08 must show terminating: `LLDP.GetPDU` (layer_ethernet.go) walks the
  TLV chain with `pos = pos + l + 2`; `Process8023Frame` (layer_802_3.go) is loop-free and only calls
  the LLC/SNAP views after their `IsValid`.
-/
import PacketVerif.Model.Views
namespace PV.Model

/-- `LLDP.GetPDU(pduType)` ; fuel bounds the `for` loop (hang = fuel exhausted) -/
def lldpGetPDU (p : Bytes) (ty : Nat) : (fuel : Nat) → (pos : Nat) → Outcome Val
  | fuel, pos =>
    match lldpGetTLV p pos with
    | .err _ => .ok .nil
    | .panic => .panic
    | .hang => .hang
    | .ok (t, l, v) =>
      if t == ty || t == 0 then .ok v
      else match fuel with
        | 0 => .hang
        | fuel + 1 => lldpGetPDU p ty fuel (pos + l + 2)

/-- `Process8023Frame` up to logging: the validation outcome -/
def process8023 (payload : Bytes) : Outcome Unit :=
  match llcValid payload with
  | .err e => .err e
  | .panic => .panic
  | .hang => .hang
  | .ok () => do
    let d ← byteN payload 0; let s ← byteN payload 1; let c ← byteN payload 2
    if d == 0x42 ∧ s == 0x42 then .ok ()
    else if d == 0xaa ∧ s == 0xaa ∧ c == 0x03 then lenAtLeast payload 9
    else .ok ()

end PV.Model
