/-
  The DHCPv4 handler on RAW payloads: `Handler.ProcessPacket` (handlers/dhcp4_spoofer/dhcp4.go) as ONE function from
  the bytes of the UDP payload (plus the three facts of the frame the handler reads besides them) to a step of the
  server machine `Model.Dhcp4Srv`:

      dhcpFrame := packet.DHCP4(frame.Payload()); dhcpFrame.IsValid()        → `Model.dhcpValid` (Model/Views, tied to the
                                                                                Go body by C01ValidTie)
      frame.DstAddr.Port == 68 → processClientPacket (client.go)             → `clientClass`: never touches the lease
                                                                                table; may forge a DECLINE
      options := dhcpFrame.ParseOptions()                                    → `Model.Dhcp4Opt.parseOptions`
      t := options[53]; len(t) != 1 → ErrParseFrame; t < 1 || t > 8 → ErrParseFrame
      switch t: 1 handleDiscover | 3 handleRequest | 4 handleDecline | 7 handleRelease | 2, 5, 6, 8: nothing
                                                                              → `Model.Dhcp4Srv.discover/request/decline/release`
      on the `Msg` read off the bytes (`msgOf`): chaddr p[28:34], xid p[4:8], ciaddr p[12:16], yiaddr p[16:20], options
      61 / 50 / 54 as the parser left them (last occurrence wins), IP source of the datagram.
      response != nil → sendDHCP4Packet.  The reply is encoded IN PLACE in the request payload
      (`EncodeDHCP4(p, …)`): it exists only when the payload's capacity is at least 300 bytes and header, options and
      end marker fit it (`fits`; fix 4da685d — before, the end marker was written out of range).

  What the code does NOT check (modelled as it is): the BOOTP op code is only required to be 1 or 2 — a BOOTREPLY sent
  to port 67 with message type DISCOVER is served; the magic cookie is never compared; htype is ignored; giaddr is
  ignored; a BOOTP message without option 53 is an error (never served); INFORM (8) and the server→client types sent to
  port 67 are ignored with a nil return.

  `Rx`: the IPv4 source address of the datagram (`frame.SrcAddr.IP`), the UDP destination port (`frame.DstAddr.Port`)
  and `cap(frame.Payload())`.  Everything is total: slices and indices are the panicking primitives of `Basic`.
-/
import PacketVerif.Model.Views
import PacketVerif.Model.Dhcp4Opt
import PacketVerif.Model.Dhcp4Srv
namespace PV.Model.Dhcp4Frame
open PV PV.Model PV.Model.Dhcp4Srv PV.Model.Dhcp4Opt

/-- what the handler reads of the frame besides the payload bytes -/
structure Rx where
  srcIP : IP        -- frame.SrcAddr.IP (IPv4 datagram)
  dstPort : Nat     -- frame.DstAddr.Port
  cap : Nat         -- cap(frame.Payload()): the room the in-place reply has
  deriving DecidableEq, Repr

/-- the `Msg` the server handlers read off the payload and its parsed options (`p` has passed `IsValid`: ≥ 240 bytes) -/
def msgOf (rx : Rx) (p : Bytes) (o : Opts) : Outcome Msg := do
  let chaddr ← slice p 28 34                         -- p.CHAddr()
  let xid ← slice p 4 8                              -- p.XId()
  let c0 ← idx p 12; let c1 ← idx p 13; let c2 ← idx p 14; let c3 ← idx p 15     -- p.CIAddr()
  let y0 ← idx p 16; let y1 ← idx p 17; let y2 ← idx p 18; let y3 ← idx p 19     -- yiaddr bytes left in the buffer
  let f ← idx p 10                                   -- p.Broadcast()
  pure { chaddr := chaddr, cidOpt := optGet o 61, reqOpt := optGet o 50, srvOpt := optGet o 54, xid := xid,
         ciaddr := be32 c0 c1 c2 c3, yiaddr := be32 y0 y1 y2 y3, srcIP := rx.srcIP, bflag := f.toNat / 128 == 1 }

/-- `netip.AddrFromSlice(b)` then `!IsValid() || IsUnspecified()` (processClientPacket's test of the server identifier) -/
def srvUnusable (b : Bytes) : Bool :=
  if b.length == 4 ∨ b.length == 16 then b.all (· == 0) else true

/-- what `ProcessPacket` does with a payload, before any state is consulted -/
inductive Class where
  /-- the call returns this error and nothing else happens -/
  | rejected (e : Err)
  /-- server → client direction (destination port 68), past the syntactic checks of `processClientPacket`: hardware
      address, server identifier (`AddrV` of option 54: a usable IPv4 or IPv6 address), message type -/
  | client (chaddr : MAC) (srv : AddrV) (mt : UInt8)
  /-- client → server direction, message types the switch has no handler for (OFFER, ACK, NAK, INFORM): nil -/
  | ignored (mt : UInt8)
  /-- client → server direction: the handler of the message type runs on the decoded message -/
  | server (op : Op)
  deriving Repr

/-- `processClientPacket` up to the point where it consults the handler (IsValid is repeated there: same verdict) -/
def clientClass (p : Bytes) : Outcome Class := do
  let o ← parseOptions p
  match optGet o 53 with
  | some [t] =>
    -- serverIP := IPv4zero; if option 54 present: AddrFromSlice
    let unusable := match optGet o 54 with
      | some b => srvUnusable b
      | none => true
    if unusable then pure (.rejected .parseFrame)
    else do
      let chaddr ← slice p 28 34
      pure (.client chaddr (addrFromSlice (optBytes (optGet o 54))) t)
  | _ => pure (.rejected .parseFrame)

/-- the dispatch of `ProcessPacket` on the payload of a frame with `PayloadID == PayloadDHCP4` -/
def classify (now : Nat) (rx : Rx) (p : Bytes) : Outcome Class :=
  match dhcpValid p with
  | .err e => .ok (.rejected e)
  | .panic => .panic
  | .hang => .hang
  | .ok () =>
    if rx.dstPort == 68 then clientClass p
    else do
      let o ← parseOptions p
      match optGet o 53 with
      | some [t] =>
        if t < 1 ∨ t > 8 then pure (.rejected .parseFrame)
        else do
          let m ← msgOf rx p o
          if t == 1 then pure (.server (.discover now m))
          else if t == 3 then pure (.server (.request now m))
          else if t == 4 then pure (.server (.decline m))
          else if t == 7 then pure (.server (.release m))
          else pure (.ignored t)
      | _ => pure (.rejected .parseFrame)

/-- the server operation a payload decodes to; `none`: the lease table is not consulted -/
def decode (now : Nat) (rx : Rx) (p : Bytes) : Outcome (Option Op) := do
  match ← classify now rx p with
  | .server op => pure (some op)
  | _ => pure none

/-- the four message handlers (the deterministic part of `step`) -/
def handleMsg (cfg : Cfg) (s : State) : Op → State × List Reply
  | .discover now m => discover cfg s now m
  | .request now m => request cfg s now m
  | .decline m => decline cfg s m
  | .release m => release cfg s m
  | _ => (s, [])

def isMsgOp : Op → Bool
  | .discover .. => true | .request .. => true | .decline .. => true | .release .. => true
  | _ => false

/-- bytes of the option area `AppendOptions` writes for a reply -/
def optsLen (opts : List (Nat × Bytes)) : Nat := (opts.map (fun e => 2 + e.2.length)).sum

/-- `EncodeDHCP4` in the request buffer returns a packet: at least 300 bytes of capacity, and header, options and the
    end marker fit (`n := 240 + pos; n >= len(p) → nil`) -/
def fits (cap : Nat) (r : Reply) : Bool := decide (300 ≤ cap) && decide (240 + optsLen r.opts < cap)

/-- `processClientPacket` after the syntactic checks: an OFFER of another DHCP server, not for one of our storm
    addresses, is answered with a forged DECLINE to that server when the handler attacks the client -/
def clientForges (cfg : Cfg) (s : State) (chaddr : MAC) (srv : AddrV) (mt : UInt8) : Bool :=
  chaddr.take 4 != [0xff, 0xee, 0xdd, 0xcc] && srv != .v4 cfg.net1.server && srv != .v4 cfg.net2.server
    && mt == 2 && attacks cfg s chaddr

/-- what one call of `ProcessPacket` amounts to -/
structure Result where
  ret : Option Err          -- returned error (`none` = nil)
  state : State
  replies : List Reply      -- BOOTREPLY frames written
  forged : Bool             -- client direction: a forged DECLINE is sent to the other server
  deriving Repr

/-- **`Handler.ProcessPacket` on a raw payload** -/
def processRaw (cfg : Cfg) (s : State) (now : Nat) (rx : Rx) (p : Bytes) : Outcome Result := do
  match ← classify now rx p with
  | .rejected e => pure { ret := some e, state := s, replies := [], forged := false }
  | .client chaddr srv mt => pure { ret := none, state := s, replies := [], forged := clientForges cfg s chaddr srv mt }
  | .ignored _ => pure { ret := none, state := s, replies := [], forged := false }
  | .server op =>
    let o := handleMsg cfg s op
    pure { ret := none, state := o.1, replies := o.2.filter (fits rx.cap), forged := false }

/-! ### raw histories -/

/-- an event of a raw history: a received payload (arbitrary bytes), or an operation of the environment (capture /
    release of a client, minute tick, the session learning or forgetting a host) -/
inductive RawEv where
  | rx (now : Nat) (rx : Rx) (payload : Bytes)
  | env (op : Op)
  deriving Repr

/-- received messages appear only as bytes -/
def RawEv.wf : RawEv → Bool
  | .rx .. => true
  | .env op => !isMsgOp op

/-- the abstract operation of an event (`none`: the server state is left alone) -/
def opOf : RawEv → Option Op
  | .rx now rx p =>
    match decode now rx p with
    | .ok o => o
    | _ => none
  | .env op => some op

/-- one event on the state: admissible (post-state, replies written) -/
def stepRaw (cfg : Cfg) (s : State) : RawEv → List (State × List Reply)
  | .rx now rx p =>
    match processRaw cfg s now rx p with
    | .ok r => [(r.state, r.replies)]
    | _ => []
  | .env op => step cfg s op

/-- all states reachable by a raw history -/
def runRaw (cfg : Cfg) : State → List RawEv → List State
  | s, [] => [s]
  | s, e :: es => (stepRaw cfg s e).flatMap (fun o => runRaw cfg o.1 es)

end PV.Model.Dhcp4Frame
