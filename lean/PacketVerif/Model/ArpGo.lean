/-
  Run-time vocabulary of the regenerated ARP spoofing handler (Gen/ArpGen.lean, written by
  tools/goextract/arph.go from handlers/arp_spoofer/{arp.go, spoof.go}).

  The heap of a `*Handler` is the record `HSt`: the hunt list (a Go map `string(MAC) → Addr`, kept as an
  association list: a fresh key is consed at the head, `delete` erases the entry), the `closed` flag, the
  state of `closeChan`, the frames written to `session.Conn` (with the MAC of the `*Addr` handed to
  `WriteTo`) and the goroutines started by `go h.spoofLoop(addr)`.  What the handler reads of the session
  is `Env` (NICInfo, Conn, the buffer the pool hands out, `DHCPv4IPOffer`).

  `Addr` values are flattened into (MAC, IP); a `netip.Addr` is its bytes (`[]` = the zero Addr), a
  `net.HardwareAddr` its bytes (nil and empty are not distinguished: listed in `arpAssumptions`).
  Encoders are the model functions of Model/Encode.lean that F7 (Props/C03EncTie) ties to the Go bodies.
  Core Lean only.
-/
import PacketVerif.Model.Handlers
namespace PV.Model.ArpGo
open PV PV.Model

structure Env extends Handlers.ArpEnv where
  hostIP : Bytes                                  -- NICInfo.HostAddr4.IP

abbrev HuntMap := List (Bytes × (Bytes × Bytes))  -- string(MAC) ↦ Addr{MAC, IP}

structure HSt where
  hunt : HuntMap := []
  closed : Bool := false
  chClosed : Bool := false                        -- closeChan is closed
  sent : List (Bytes × Bytes) := []               -- (frame, MAC of the WriteTo address), oldest first
  spawned : List (Bytes × Bytes) := []            -- `go h.spoofLoop(addr)`, oldest first
  deriving DecidableEq, Repr

/-- how one pass through the body of `spoofLoop`'s `for` ends -/
inductive LoopCtl where
  | ret          -- `return`: the goroutine ends
  | wait         -- blocked in the final `select` (closeChan / ticker); the next pass starts when it fires
  | again        -- fell off the end of the body without waiting
  deriving DecidableEq, Repr

/-! ### the map -/

/-- `v, ok := m[k]` (zero value and false when absent) -/
def mapLookup (h : HuntMap) (k : Bytes) : Bytes × Bytes × Bool :=
  match h.find? (fun x => x.1 == k) with
  | some x => (x.2.1, x.2.2, true)
  | none => ([], [], false)

/-- `m[k] = v` -/
def mapSet (h : HuntMap) (k : Bytes) (vm vi : Bytes) : HuntMap :=
  if h.any (fun x => x.1 == k) then h.map (fun x => if x.1 == k then (k, (vm, vi)) else x) else (k, (vm, vi)) :: h

/-- `delete(m, k)` -/
def mapDel (h : HuntMap) (k : Bytes) : HuntMap := h.eraseP (fun x => x.1 == k)

/-- the values in the order `range m` visits them (any order in Go; only first-match loops use it) -/
def mapVals (h : HuntMap) : List (Bytes × Bytes) := h.map (·.2)

def keys (h : HuntMap) : List Bytes := h.map (·.1)

/-! ### effects -/

/-- `close(h.closeChan)` -/
def chanClose (st : HSt) : Outcome HSt := if st.chClosed then .panic else .ok { st with chClosed := true }

/-- `go h.spoofLoop(addr)` -/
def spawn (st : HSt) (mac ip : Bytes) : HSt := { st with spawned := st.spawned ++ [(mac, ip)] }

/-- `_, err = h.session.Conn.WriteTo(frame, &packet.Addr{MAC: dst})` -/
def connWriteTo (e : Env) (st : HSt) (f : Bytes) (dst : Bytes) : Outcome (HSt × Option Err) :=
  match e.conn with
  | .nil => .panic
  | .failing => .ok (st, some .other)
  | .up => .ok ({ st with sent := st.sent ++ [(f, dst)] }, none)

/-! ### frames and views -/

/-- `frame.Payload()` -/
def framePayload (fr : Frame) (p : Bytes) : Outcome Bytes := sliceFrom p fr.offPayload

/-- `ARP.IsValid()` (layer_arp.go; its body is regenerated and tied by F10, Gen/Valid.lean) -/
def arpIsValid (b : Bytes) : Outcome (Option Err) :=
  if b.length < 28 then .ok (some .frameLen)
  else do
    let ht ← (slice b 0 2) >>= Ndp.u16be
    if ht ≠ 1 then pure (some .parseFrame) else do
    let pt ← (slice b 2 4) >>= Ndp.u16be
    if pt ≠ 0x0800 then pure (some .parseProtocol) else do
    let hl ← idx b 4
    if hl ≠ 6 then pure (some .invalidLen) else do
    let pl ← idx b 5
    if pl ≠ 4 then pure (some .invalidLen) else pure none

def arpOperation (b : Bytes) : Outcome Nat := (slice b 6 8) >>= Ndp.u16be
def arpSrcMAC (b : Bytes) : Outcome Bytes := slice b 8 14
def arpSrcIP (b : Bytes) : Outcome Bytes := slice b 14 18
def arpDstMAC (b : Bytes) : Outcome Bytes := slice b 18 24
def arpDstIP (b : Bytes) : Outcome Bytes := slice b 24 28

/-- `netip.Addr.Is4` -/
def ipIs4 (ip : Bytes) : Bool := ip.length == 4
/-- `netip.Addr.IsLinkLocalUnicast` (IPv4 addresses) -/
def ipIsLinkLocalUnicast (ip : Bytes) : Bool := Ndp.isLinkLocal4 ip
/-- `mac == nil` -/
def macIsNil (mac : Bytes) : Bool := mac.isEmpty

def ipv4zero : Bytes := [0, 0, 0, 0]
def ip4Broadcast : Bytes := [255, 255, 255, 255]
def ethernetBroadcast : Bytes := [0xff, 0xff, 0xff, 0xff, 0xff, 0xff]
def ethernetZero : Bytes := [0, 0, 0, 0, 0, 0]

/-- `h.session.DHCPv4IPOffer(mac)` (the zero Addr when there is none) -/
def dhcpOffer (e : Env) (mac : Bytes) : Bytes :=
  match e.offer mac with
  | some o => o
  | none => []

/-- `h.session.NICInfo.HomeLAN4.Contains(ip)` -/
def lanContains (e : Env) (ip : Bytes) : Bool := Netip.prefixContains e.cfg.parse.lanAddr e.cfg.parse.lanBits ip

/-- `packet.EtherBufferPool.Get()`: the pooled array, any contents -/
def poolGet (e : Env) : Mem := e.pool

/-- the nil slice in the single-array memory model: capacity 0 -/
def nilSl (m : Mem) : Sl := ⟨m.length, 0⟩

/-- `ether.Payload()` as an argument of an encoder (nil = the empty slice without capacity) -/
def etherPayloadArg (m : Mem) (p : Sl) : Outcome Sl := do
  match ← etherPayloadSl m p with
  | some s => pure s
  | none => pure (nilSl m)

/-- `ether.SetPayload(arp)`; the error result is always nil (Gen.Enc.Ether_SetPayload, F7) -/
def etherSetPayloadE (m : Mem) (p : Sl) (payload : Sl) : Outcome (Sl × Option Err) := do
  let r ← etherSetPayload m p payload.len
  pure (r, none)

end PV.Model.ArpGo
