/-
  Run-time vocabulary of the regenerated ICMPv6 / NDP spoofing handler (Gen/Icmp6Gen.lean, written by
  tools/goextract/icmp6h.go from handlers/icmp_spoofer/{icmp6.go, icmp6spoof.go, icmp6radv.go} and the send
  helpers of layer_icmp6_ndp.go / layer_icmp.go).  Imported by the generated file only; the tie theorems of
  Props/C14Icmp6Tie.lean eliminate it against `Model.Handlers.h6Process` / `close6`, `Model.Icmp6Hunt.step`,
  `Model.Icmp6Na.loopNA` and `Model.sendICMP6`.

  Go-side state `G6`: the model's handler state `Handlers.H6St` for everything except the router table, which
  is kept as Go keeps it - one `Router` struct per key, FIELD BY FIELD (`GRouter`: Prefixes, RDNSS, MTU and
  enableRADVS are separate fields here although the model's `Icmp6Hunt.Router` derives / ignores them).
  `abs` maps it onto the model state.  A `*Router` is its key in `LANRouters` (assumption, listed by the
  translator: an entry is stored under `Addr.IP` and under no other key).
-/
import PacketVerif.Model.Handlers
import PacketVerif.Model.Icmp6Na
import PacketVerif.Model.Netip
namespace PV.Model.Icmp6Go
open PV PV.Model PV.Model.Ndp PV.Model.Handlers PV.Model.Icmp6Hunt

/-- map over the value of an `Outcome` -/
def omap {α β} (f : α → β) (x : Outcome α) : Outcome β := x >>= fun a => .ok (f a)

/-- `packet.Addr` (Port is not used by these functions) -/
structure GAddr where
  mac : Bytes := []
  ip : Bytes := []
  deriving DecidableEq, Repr, Inhabited

/-- Go `struct Router` (icmp6radv.go), field by field; zero value = Go's zero value -/
structure GRouter where
  addr : GAddr := {}
  enableRADVS : Bool := false
  managedFlag : Bool := false
  otherCondigFlag : Bool := false
  preference : Nat := 0
  mtu : Nat := 0
  reacheableTime : Nat := 0
  retransTimer : Nat := 0
  curHopLimit : Nat := 0
  defaultLifetime : Nat := 0          -- time.Duration (nanoseconds)
  prefixes : List PrefixInfo := []
  rdnss : Option Rdnss := none
  options : Options := {}
  deriving DecidableEq, Repr, Inhabited

structure G6 where
  st : H6St := {}                            -- huntList, closed, Router, `repeat`, loops, mutex, channel, frames sent
  routers : List (Bytes × GRouter) := []     -- LANRouters

inductive Stage where
  | noChange | normal | hunt | redirected
  deriving DecidableEq, Repr, Inhabited

/-! ### abstraction onto the model state -/

def absRouter (r : GRouter) : Icmp6Hunt.Router :=
  { mac := r.addr.mac, ip := r.addr.ip,
    hdr := { curHopLimit := r.curHopLimit, managed := r.managedFlag, other := r.otherCondigFlag,
             preference := r.preference, lifetime := r.defaultLifetime / 1000000000,
             reachable := r.reacheableTime, retrans := r.retransTimer },
    -- the model keeps `Router.Prefixes` as `options.prefixes`: the abstraction reads that component from the Go field
    options := { r.options with prefixes := r.prefixes } }

def absRouters (l : List (Bytes × GRouter)) : List (Bytes × Icmp6Hunt.Router) := l.map (fun e => (e.1, absRouter e.2))

def abs (g : G6) : H6St := { g.st with base := { g.st.base with routers := absRouters g.routers } }

/-! ### handler fields -/

def setBase (g : G6) (f : Icmp6Hunt.State → Icmp6Hunt.State) : G6 := { g with st := { g.st with base := f g.st.base } }

def closed (g : G6) : Bool := g.st.base.closed
def setClosed (g : G6) (v : Bool) : G6 := setBase g (fun b => { b with closed := v })
/-- `h.Router` (nil = none) -/
def defRouter (g : G6) : Option Bytes := g.st.base.defaultRouter
def setDefRouter (g : G6) (k : Bytes) : G6 := setBase g (fun b => { b with defaultRouter := some k })
/-- package variable `repeat` -/
def rep (g : G6) : Int := g.st.base.rep
def setRep (g : G6) (v : Int) : G6 := setBase g (fun b => { b with rep := v })

/-- Go `%` on ints truncates towards zero -/
def goMod (a b : Int) : Int := Int.tmod a b

/-! ### LANRouters -/

/-- `r, found := h.LANRouters[ip]` : the pointer (= key) when found -/
def routerFind (g : G6) (ip : Bytes) : Option Bytes := (g.routers.find? (fun e => e.1 = ip)).map (·.1)

/-- `*r` -/
def R (g : G6) (k : Bytes) : GRouter := ((g.routers.find? (fun e => e.1 = k)).map (·.2)).getD {}

def updRouter (g : G6) (k : Bytes) (f : GRouter → GRouter) : G6 :=
  { g with routers := g.routers.map (fun e => if e.1 = k then (e.1, f e.2) else e) }

/-- `h.LANRouters[k] = &r` for a freshly allocated `r`; a nil map panics -/
def mapSet (g : G6) (k : Bytes) (r : GRouter) : Outcome G6 :=
  if g.st.lanNil then .panic
  else if g.routers.any (fun e => e.1 = k) then
    .ok { g with routers := g.routers.map (fun e => if e.1 = k then (e.1, r) else e) }
  else .ok { g with routers := g.routers ++ [(k, r)] }

/-- `range h.LANRouters` visits the entries in list order (assumption, listed) -/
def routerVals (g : G6) : List GRouter := g.routers.map (·.2)

/-! ### huntList (packet.AddrList; its methods are dictionary entries) -/

def huntLen (g : G6) : Int := g.st.base.hunt.length
def huntIndex (g : G6) (mac : Bytes) : Int := if mac ∈ g.st.base.hunt then (g.st.base.hunt.idxOf mac : Nat) else -1
def huntAdd (g : G6) (a : GAddr) : G6 :=
  if a.mac ∈ g.st.base.hunt then g else setBase g (fun b => { b with hunt := b.hunt ++ [a.mac] })
def huntDel (g : G6) (a : GAddr) : G6 := setBase g (fun b => { b with hunt := b.hunt.erase a.mac })

/-! ### channel, goroutine -/

/-- `ch := h.closeChan; h.closeChan = make(chan bool); close(ch)` : the spoof loops waiting on the old
    channel wake up; closing a closed channel panics -/
def wakeLoops (g : G6) : Outcome G6 :=
  if g.st.chanClosed then .panic else .ok { g with st := { g.st with wakes := g.st.wakes + 1 } }

/-- `close(h.closeChan)` -/
def closeChan (g : G6) : Outcome G6 :=
  if g.st.chanClosed then .panic else .ok { g with st := { g.st with chanClosed := true } }

/-- `go h.spoofLoop(addr)` : the model's thread-creation effect -/
def spawnLoop (g : G6) (a : GAddr) : G6 :=
  setBase g (fun b => { b with nloops := b.nloops + 1, started := a.mac :: b.started,
                               loops := updLoop b.loops b.nloops { mac := a.mac, pc := .check } })

/-! ### views (dictionary: Go method = model function) -/

/-- `pkt.IP6()` -/
def frameIP6 (fr : Frame) (p : Bytes) : Outcome (Option Bytes) :=
  if fr.offIP6 = 0 then .ok none else omap some (sliceFrom p fr.offIP6)
/-- `pkt.Payload()` (nil = empty) -/
def framePayload (fr : Frame) (p : Bytes) : Outcome Bytes :=
  if fr.offPayload = 0 then .ok [] else sliceFrom p fr.offPayload
def etherSrc (p : Bytes) : Outcome Bytes := slice p 6 12
def etherDst (p : Bytes) : Outcome Bytes := slice p 0 6
/-- `ip6Frame.Src()` / `.Dst()` on a possibly nil view -/
def ip6Src (v : Option Bytes) : Outcome Bytes := match v with | none => .panic | some b => slice b 8 24
def ip6Dst (v : Option Bytes) : Outcome Bytes := match v with | none => .panic | some b => slice b 24 40

def lenValid (n : Nat) (p : Bytes) : Option Err := if p.length ≥ n then none else some .frameLen
def icmpIsValid := lenValid 8
def naIsValid := lenValid 24
def nsIsValid := lenValid 24
def raIsValid := lenValid 16
def echoIsValid := lenValid 8
def redirectIsValid := lenValid 40
def rsIsValid (p : Bytes) : Option Err :=
  if p.length < 8 then some .frameLen else if p[0]? ≠ some 133 then some .parseFrame else none
def icmpType (p : Bytes) : Outcome Nat := omap (·.toNat) (idx p 0)
def naOverride (p : Bytes) : Outcome Bool := omap (fun f => (f &&& 0x20) ≠ 0) (idx p 4)
def naSolicited (p : Bytes) : Outcome Bool := omap (fun f => (f &&& 0x40) ≠ 0) (idx p 4)
def nsTarget (p : Bytes) : Outcome Bytes := slice p 8 24
def raManaged (p : Bytes) : Outcome Bool := omap (·.managed) (raHeader p)
def raOther (p : Bytes) : Outcome Bool := omap (·.other) (raHeader p)
def raPreference (p : Bytes) : Outcome Nat := omap (·.preference) (raHeader p)
def raCurHopLimit (p : Bytes) : Outcome Nat := omap (·.curHopLimit) (raHeader p)
def raLifetime (p : Bytes) : Outcome Nat := omap (·.lifetime) (raHeader p)
def raReachable (p : Bytes) : Outcome Nat := omap (·.reachable) (raHeader p)
def raRetrans (p : Bytes) : Outcome Nat := omap (·.retrans) (raHeader p)
/-- the model abstracts the error of the option parser to "an error" -/
def optErr (_ : Err) : Err := .other

/-! ### loops -/

/-- `for _, x := range xs { body }` without break / continue / return: the carried state threads through -/
def forEach {α σ : Type} : List α → σ → (σ → α → Outcome σ) → Outcome σ
  | [], st, _ => .ok st
  | x :: xs, st, f => f st x >>= fun st' => forEach xs st' f

/-! ### the encoders of Model/Encode.lean as `icmp6SendPacket` calls them -/

/-- `ICMP6NeighborAdvertisementMarshal(router, solicited, override, targetAddr)` -/
def naMarshalA (router solicited override : Bool) (t : GAddr) : Bytes := naMarshal router solicited override t.ip t.mac

/-- `EncodeIP6(ether.Payload(), …)`: a nil payload view has no capacity for the header -/
def encodeIP6N (m : Mem) (pay : Option Sl) (hop : UInt8) (src dst : Bytes) : Outcome (Mem × Sl) :=
  match pay with
  | none => .panic
  | some pay => encodeIP6 m pay hop src dst

/-- `ip6, _ = ip6.AppendPayload(b, nh)`: on an error ip6 becomes nil and the `ip6.Src()` that follows panics -/
def ip6AppendPayloadN (m : Mem) (ip : Sl) (b : Bytes) (nh : UInt8) : Outcome (Mem × Sl) :=
  match ip6AppendPayload m ip b nh with
  | .err _ => .panic
  | r => r

/-! ### a local byte buffer (`psh := make([]byte, n)`) -/

/-- `copy(buf[lo:hi], src)` -/
def copyInto (buf : Bytes) (lo hi : Nat) (src : Bytes) : Outcome Bytes :=
  if lo ≤ hi ∧ hi ≤ buf.length then
    let k := min (hi - lo) src.length
    .ok (buf.take lo ++ src.take k ++ buf.drop (lo + k))
  else .panic
/-- `copy(buf[lo:], src)` -/
def copyFrom (buf : Bytes) (lo : Nat) (src : Bytes) : Outcome Bytes := copyInto buf lo buf.length src
/-- `binary.BigEndian.PutUint32(buf[lo:hi], uint32(v))` -/
def put32Into (buf : Bytes) (lo hi : Nat) (v : Nat) : Outcome Bytes :=
  if lo ≤ hi ∧ hi ≤ buf.length ∧ 4 ≤ hi - lo then
    .ok (buf.take lo ++ [UInt8.ofNat (v / 16777216), UInt8.ofNat (v / 65536), UInt8.ofNat (v / 256), UInt8.ofNat v] ++ buf.drop (lo + 4))
  else .panic
/-- `buf[i] = v` -/
def setAt (buf : Bytes) (i : Nat) (v : UInt8) : Outcome Bytes :=
  if i < buf.length then .ok (buf.take i ++ [v] ++ buf.drop (i + 1)) else .panic

/-! ### transmission -/

/-- `h.Conn.WriteTo(ether, &dstAddr)` on the handler state -/
def connWrite (e : H6Env) (g : G6) (f : Bytes) : Outcome (G6 × Option Err) :=
  omap (fun r => ({ g with st := { g.st with sent := r.1 } }, if r.2 then none else some Err.other)) (writeTo e.conn g.st.sent f)

end PV.Model.Icmp6Go
