/-
  The frame the ICMPv6 spoof loop writes for one router of its batch (handlers/icmp_spoofer/icmp6spoof.go):

      hostAddr   := Addr{MAC: HostAddr4.MAC, IP: HostLLA}            (unused by the send)
      targetAddr := Addr{MAC: HostAddr4.MAC, IP: routerAddr.IP}
      fakeRouter := Addr{MAC: HostAddr4.MAC, IP: routerAddr.IP}
      session.ICMP6SendNeighborAdvertisement(fakeRouter, dstAddr, targetAddr)
        = icmp6SendPacket(fakeRouter, dstAddr, ICMP6NeighborAdvertisementMarshal(false, false, true, targetAddr))

  `dstAddr` = the address StartHunt accepted (MAC of the host; its link-local address, or
  `IP6AllNodesMulticast` ff02::1 when StartHunt was given no address).  Built from the encoders of
  `Model/Encode.lean` (`naMarshal`, `sendICMP6`), which C03/C07 tie to the Go bodies.
-/
import PacketVerif.Model.Encode
namespace PV.Model.Icmp6Na
open PV PV.Model

def allNodes : Bytes := [0xff, 0x02, 0, 0, 0, 0, 0, 0, 0, 0, 0, 0, 0, 0, 0, 0x01]

/-- `dstAddr.IP` of the loop: `if !dstAddr.IP.IsValid() { dstAddr.IP = IP6AllNodesMulticast }` -/
def loopDstIP (lla : Option Bytes) : Bytes := lla.getD allNodes

/-- the neighbour advertisement for learned router `routerIP` to the hunted host (`dstMAC`, `dstIP`);
    `g` = contents of the pooled buffer -/
def loopNA (g : Mem) (hostMAC dstMAC routerIP dstIP : Bytes) : Outcome Bytes :=
  sendICMP6 g hostMAC dstMAC routerIP dstIP (naMarshal false false true routerIP hostMAC)

end PV.Model.Icmp6Na
