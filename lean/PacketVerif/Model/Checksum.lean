/-
  Model of `packet.Checksum`, `IP4.CalculateChecksum` (layer_ip4.go:124-145) and of the
  checksum insertion done by `IP4.SetPayload/AppendPayload`, `ICMP.SetChecksum`
  (layer_icmp.go:40) and the ICMPv6 pseudo header of `icmp6SendPacket` (layer_icmp.go:481-495).
  The accumulator is a Go `uint32` (wrapping), exactly as in the code.
-/
import PacketVerif.Basic
namespace PV.Model

/-- the `for i := 0; i < len(b)-1; i += 2 { s += uint32(b[i+1])<<8 | uint32(b[i]) }` loop
    followed by the odd-tail addition -/
def cksumAcc : Bytes → UInt32 → UInt32
  | a :: b :: rest, s => cksumAcc rest (s + ((b.toUInt32 <<< 8) ||| a.toUInt32))
  | [a], s => s + a.toUInt32
  | [], s => s

/-- `func Checksum(b []byte) uint16` -/
def checksum (b : Bytes) : UInt16 :=
  let s := cksumAcc b 0
  let s := (s >>> 16) + (s &&& 0xffff)
  let s := s + (s >>> 16)
  ~~~ s.toUInt16

/-- `IP4.CalculateChecksum` on a header of at least 20 bytes (shorter ⇒ Go panics) -/
def ip4CalculateChecksum (p : Bytes) : Outcome UInt16 :=
  if p.length < 20 then .panic
  else .ok (checksum (p.take 10 ++ (p.drop 12).take 8))

/-- store a library checksum value the way the library does: `p[k+1] = cs>>8; p[k] = cs` -/
def putChecksum (p : Bytes) (k : Nat) (cs : UInt16) : Bytes :=
  (p.set k cs.toUInt8).set (k+1) (cs >>> 8).toUInt8

/-- the 40-byte IPv6 pseudo header built in `icmp6SendPacket`, followed by the message -/
def icmp6Pseudo (src dst : Bytes) (msg : Bytes) : Bytes :=
  let n := msg.length
  src ++ dst ++ [UInt8.ofNat (n / 16777216), UInt8.ofNat (n / 65536), UInt8.ofNat (n / 256), UInt8.ofNat n]
    ++ [0, 0, 0, 58] ++ msg

end PV.Model
