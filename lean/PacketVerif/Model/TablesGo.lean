/-
  Run-time vocabulary of the regenerated table operations (`Gen/TablesGen.lean`, written by
  tools/goextract/tables.go from hosttable.go / mactable.go / session.go / notification.go /
  layer_frame.go).  The translator turns every Go statement into Lean over the MODEL's state record
  `Model.Tables.Sess` with the fixed dictionary below; nothing here mentions a model *operation*.

  * a `*Host` / `*MACEntry` value is the allocation id (`Nat`); a pointer that can be nil is
    `Option Nat`; `H s p` / `M s p` is the object behind it in heap `s`;
  * `HostTable.Table` is `s.hosts` (key ↦ record of the pointed-to object), `MACTable.Table` is
    `s.macs` (records in slice order; parametric slice operations act on it directly; ranging over
    it yields `m.id`), `MACEntry.HostList` is `hostList` (ids in slice order);
  * an object that `&T{…}` allocated and that no table holds yet is a local record until the
    statement that stores the pointer into a table;
  * a Go run-time panic (explicit `panic`, slice bounds) is `none` of the `Option` result;
  * the notification channel is the output list `out`; `ChanEnv` says whether the session is closed
    and how full the channel is (constant during one call: the reader's side is not modelled).
-/
import PacketVerif.Model.Tables
namespace PV.Model.TablesGo
open PV PV.Model.Tables

/-- `*p` for `p : *Host`.  An id that no table holds reads as the zero record: the translated
    functions test their pointer parameters on entry, states with dangling ids inside the tables are
    excluded by the C05 invariant. -/
def H (s : Sess) (p : Nat) : HostRec := (hostById s p).getD default
/-- `*p` for `p : *MACEntry` -/
def M (s : Sess) (p : Nat) : MacRec := (macById s p).getD default

/-- `v, ok := h.HostTable.Table[ip]` (absent ⇒ nil, false) -/
def tableGet (s : Sess) (ip : IP) : Option Nat := (findHost s ip).map (·.id)
/-- `h.HostTable.Table[ip] = p` for a freshly allocated object `r` -/
def tableSet (s : Sess) (ip : IP) (r : HostRec) : Sess :=
  { s with hosts := s.hosts.filter (fun p => p.1 != ip) ++ [(ip, r)] }
/-- `delete(h.HostTable.Table, ip)` -/
def tableDel (s : Sess) (ip : IP) : Sess := { s with hosts := s.hosts.filter (fun p => p.1 != ip) }
/-- `len(h.HostTable.Table)` -/
def tableLen (s : Sess) : Int := s.hosts.length
/-- the pointers `range h.HostTable.Table` yields (map order is unspecified in Go; the model's list order) -/
def tableVals (s : Sess) : List Nat := s.hosts.map (·.2.id)
/-- the pointers in `MACTable.Table`, in slice order -/
def macPtrs (s : Sess) : List Nat := s.macs.map (·.id)
/-- `&T{…}`: the allocation counter moves on -/
def alloc (s : Sess) : Sess := { s with nextId := s.nextId + 1 }
def setMacs (s : Sess) (l : List MacRec) : Sess := { s with macs := l }

/-- `x[:n]` (Go: panics unless `0 ≤ n ≤ cap`; cap = len assumed) -/
def sliceTo {α} (l : List α) (n : Int) : Option (List α) :=
  if 0 ≤ n ∧ n ≤ l.length then some (l.take n.toNat) else none
/-- `copy(x[a:], x[b:])` on one slice (memmove semantics); panics unless `0 ≤ a, b ≤ len` -/
def copyWithin {α} (l : List α) (a b : Int) : Option (List α) :=
  if 0 ≤ a ∧ a ≤ l.length ∧ 0 ≤ b ∧ b ≤ l.length then
    let src := l.drop b.toNat
    let n := min (l.length - a.toNat) src.length
    some (l.take a.toNat ++ src.take n ++ l.drop (a.toNat + n))
  else none

/-- `for i, v := range l` -/
def indexed {α} : List α → Int → List (Int × α)
  | [], _ => []
  | a :: r, i => (i, a) :: indexed r (i + 1)

/-- what one execution of a loop body ends with -/
inductive Ctl (σ ρ : Type) where
  | next (st : σ)     -- end of body or `continue`
  | brk (st : σ)      -- `break`
  | ret (r : ρ)       -- `return` (or a panic) inside the loop

/-- `for … range l { body }; k` – `st` holds the variables the body assigns -/
def forRange {α σ ρ} (l : List α) (st : σ) (body : σ → α → Ctl σ ρ) (k : σ → ρ) : ρ :=
  match l with
  | [] => k st
  | a :: rest =>
    match body st a with
    | .next st' => forRange rest st' body k
    | .brk st' => k st'
    | .ret r => r

structure ChanEnv where
  closed : Bool      -- `h.closed`
  len : Int          -- `len(h.C)`
  cap : Int          -- `cap(h.C)`

/-- the fields of a `Frame` value the table code reads or writes -/
structure GoFrame where
  host : Option Nat      -- `frame.Host`
  payloadID : Int        -- `frame.PayloadID`
  srcMAC : MAC           -- `frame.SrcAddr.MAC`
  srcIP : IP             -- `frame.SrcAddr.IP`
  flags : Nat            -- `frame.flags`

end PV.Model.TablesGo
