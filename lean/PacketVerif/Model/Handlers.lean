/-
  The handler bodies AFTER classification, on raw frames: `arp_spoofer.Handler.ProcessPacket`
  (handlers/arp_spoofer/arp.go:286-397 with `reply`, arp.go:201-215), `icmp_spoofer.Handler6.ProcessPacket`
  (handlers/icmp_spoofer/icmp6.go:102-314 with `findOrCreateRouter`, icmp6radv.go:47-58, and
  `Session.ICMP6SendNeighbourSolicitation` / `icmp6SendPacket`, layer_icmp6_ndp.go:300-308, layer_icmp.go:464-505),
  `Handler6.Close` (icmp6.go:69-78) and `icmp_spoofer.Handler4.ProcessPacket` (icmp4_logger.go:35-122),
  each composed with the library's packet loop (`Session.Parse`; error => frame dropped; dispatch on PayloadID).

  `Model/ArpFrame.lean` and `Model/Icmp6Frame.lean` map a frame to the EVENT of the hunt machines; what the
  handler does with the event was a plain value there (total by construction).  Here every Go operation of the
  bodies that can fail at run time is an explicit branch:

    mutex          `Lock()` of the held, non-reentrant mutex never returns        -> Outcome.hang
                   `Unlock()` of a free mutex ("sync: unlock of unlocked mutex")  -> Outcome.panic
    channel        `close(ch)` of a closed channel                                -> Outcome.panic   (chanClosed)
    map            `h.LANRouters[ip] = router` on a nil map                       -> Outcome.panic   (lanNil)
    interface      `h.session.Conn.WriteTo` on a nil `Conn`                       -> Outcome.panic   (Conn.nil)
    slices         `frame.Payload()`, `pkt.IP6()`, `pkt.Ether().Dst()`, `ip6Frame.Dst()`, every field read of the
                   views (`idx` / `slice` / `sliceFrom`), the encoders writing into the pooled buffer
                   (`sendARP`, `sendICMP6` of Model/Encode.lean: `b[:28]` beyond the capacity, `MAC[:6]` of a
                   shorter MAC, the dropped `AppendPayload` error followed by a nil dereference)  -> Outcome.panic

  Not modelled: the fastlog / fmt.Printf lines (C19 / C20 treat the loggers), `netip` value methods (total).
  Core Lean only (linked into the driver).
-/
import PacketVerif.Model.ArpFrame
import PacketVerif.Model.Icmp6Frame
import PacketVerif.Model.Encode
namespace PV.Model.Handlers
open PV PV.Model

/-- `session.Conn` (a `net.PacketConn` interface value) as the handlers use it -/
inductive Conn where
  | nil          -- nil interface: the method call dereferences nil
  | failing      -- `WriteTo` returns an error
  | up           -- `WriteTo` succeeds
  deriving DecidableEq, Repr, Inhabited

/-- `mu.Lock()`: `held` is the state of the mutex before the call -/
def lock (held : Bool) : Outcome Bool := if held then .hang else .ok true

/-- `mu.Unlock()` -/
def unlock (held : Bool) : Outcome Bool := if held then .ok false else .panic

/-- `Conn.WriteTo(frame, …)`: the frames written so far, with this one appended when the write succeeds.
    The returned flag is `err == nil`. -/
def writeTo (c : Conn) (sent : List Bytes) (f : Bytes) : Outcome (List Bytes × Bool) :=
  match c with
  | .nil => .panic
  | .failing => .ok (sent, false)
  | .up => .ok (sent ++ [f], true)

/-- how the packet loop disposed of a frame -/
inductive Disp where
  | dropped                    -- `Session.Parse` returned an error
  | notMine                    -- PayloadID belongs to another handler
  | ret (e : Option Err)       -- `ProcessPacket` returned this error (`none` = nil)
  deriving DecidableEq, Repr

/-! ## ARP -/

/-- what `arp.ProcessPacket` reads of the session -/
structure ArpEnv where
  cfg : ArpFrame.Cfg                 -- NICInfo: HostAddr4.MAC, RouterAddr4.MAC, HomeLAN4, RouterAddr4.IP
  conn : Conn
  pool : Mem                         -- the buffer `EtherBufferPool.Get()` hands out (EthMaxSize bytes, any contents)
  offer : Bytes → Option Bytes       -- session.DHCPv4IPOffer

structure ArpSt where
  hunt : List Bytes := []            -- keys of huntList
  mu : Bool := false                 -- arpMutex is held
  sent : List Bytes := []            -- frames written to the connection so far
  deriving DecidableEq, Repr

/-- the error `ARP.IsValid` returns for the classes of `Ndp.arpClassify` that are validation failures -/
def arpRet : Ndp.ArpClass → Option Err
  | .errLen => some .frameLen
  | .errHType => some .parseFrame
  | .errProto => some .parseProtocol
  | .errHLen | .errPLen => some .invalidLen
  | _ => none

/-- `Handler.Reply` → `reply` (arp.go:190-215): the frame is built in the pooled buffer and written; the
    returned flag is `err == nil` (both callers only log the error) -/
def arpReply (e : ArpEnv) (st : ArpSt) (dst smac sip tmac tip : Bytes) : Outcome (ArpSt × Bool) :=
  match sendARP e.pool e.cfg.parse.hostMAC dst 2 smac sip tmac tip with
  | .ok f => do
    let (sent, ok) ← writeTo e.conn st.sent f
    pure ({ st with sent := sent }, ok)
  | .err _ => .ok (st, false)        -- `ether.SetPayload` error: returned before the write
  | .panic => .panic
  | .hang => .hang

/-- `arp.ProcessPacket(frame)` (arp.go:286-397); `p` = the bytes of `frame.ether` -/
def arpProcess (e : ArpEnv) (st : ArpSt) (fr : Frame) (p : Bytes) : Outcome (ArpSt × Option Err) :=
  if fr.pid ≠ Pid.arp then .ok (st, some .parseFrame)
  else do
    let b ← sliceFrom p fr.offPayload                     -- frame.Payload()
    let cl ← Ndp.arpClassify b                             -- IsValid, link-local skip, operation switch
    match cl with
    | .request smac sip tip => do
      let mu ← lock st.mu                                  -- h.arpMutex.Lock()
      let st := { st with mu := mu }
      if smac ∈ st.hunt ∧ tip = e.cfg.routerIP then do
        -- Reply(SrcMAC, {HostAddr4.MAC, DstIP}, {SrcMAC, SrcIP}); the error is logged
        let (st, _) ← arpReply e st smac e.cfg.parse.hostMAC tip smac sip
        let mu ← unlock st.mu
        pure ({ st with mu := mu }, none)
      else do
        let mu ← unlock st.mu
        pure ({ st with mu := mu }, none)
    | .probe smac tip =>
      match e.offer smac with
      | some o =>
        if o ≠ tip ∧ Netip.prefixContains e.cfg.parse.lanAddr e.cfg.parse.lanBits tip = true then do
          -- Reply(SrcMAC, {HostAddr4.MAC, DstIP}, {SrcMAC, IP4Broadcast}); the result is dropped
          let (st, _) ← arpReply e st smac e.cfg.parse.hostMAC tip smac [255, 255, 255, 255]
          pure (st, none)
        else pure (st, none)
      | none => pure (st, none)
    | c => pure (st, arpRet c)

/-- the packet loop + the ARP handler on one raw frame -/
def arpFrame (e : ArpEnv) (st : ArpSt) (p : Bytes) : Outcome (ArpSt × Disp) := do
  let r ← parse e.cfg.parse p
  if r.err.isSome then pure (st, .dropped)
  else if r.frame.pid ≠ Pid.arp then pure (st, .notMine)
  else do
    let (st, ret) ← arpProcess e st r.frame p
    pure (st, .ret ret)

/-! ## ICMPv6 -/

structure H6Env where
  cfg : Model.Cfg                    -- NICInfo: HostAddr4.MAC, RouterAddr4.MAC, HomeLAN4
  hostLLA : Bytes                    -- NICInfo.HostLLA.Addr() (16 bytes; [] = the zero Addr)
  conn : Conn
  pool : Mem

structure H6St where
  base : Icmp6Hunt.State := {}       -- huntList, closed, LANRouters, Router, `repeat` (Model/Icmp6Hunt.lean)
  mu : Bool := false                 -- Handler6.Mutex is held
  lanNil : Bool := false             -- h.LANRouters == nil (a Handler6 not built by New6)
  chanClosed : Bool := false         -- the channel h.closeChan refers to is closed
  wakes : Nat := 0                   -- closeChan generations closed by ProcessPacket: wake-ups of the spoof loops
  sent : List Bytes := []

/-- what `New6` builds -/
def new6 : H6St := {}

/-- `Handler6.Close()` (icmp6.go:69-78) -/
def close6 (st : H6St) : Outcome H6St := do
  let mu ← lock st.mu
  if st.base.closed then do
    let mu ← unlock mu
    pure { st with mu := mu }
  else if st.chanClosed then .panic                         -- close(h.closeChan) of a closed channel
  else do
    let mu ← unlock mu
    pure { st with base := { st.base with closed := true }, chanClosed := true, mu := mu }

/-- the error the classes of `Ndp.icmp6Dispatch` return -/
def icmp6Ret : Ndp.Icmp6Class → Option Err
  | .errShort | .naErrLen | .nsErrLen | .raErrLen | .redirectErr => some .frameLen
  | .naErrNoLLA => some .invalidMAC
  | .raNoHost | .raErrOpt => some .other
  | .unknown => some .parseFrame
  | _ => none

/-- the router-advertisement case (icmp6.go:181-238); `pay` = the ICMPv6 message, at least 8 bytes, type 134 -/
def h6RA (st : H6St) (fr : Frame) (p pay : Bytes) : Outcome (H6St × Option Err) :=
  if pay.length < 16 then .ok (st, some .frameLen)            -- frame.IsValid
  else do
    -- wake-up of the spoof loops (190-196)
    let mu ← lock st.mu
    let st := { st with mu := mu }
    let st ← (if 0 < st.base.hunt.length ∧ st.base.closed = false then
                (if st.chanClosed then Outcome.panic        -- close(ch) of a closed channel
                 else Outcome.ok { st with wakes := st.wakes + 1 })   -- fresh channel installed, the old one closed
              else Outcome.ok st)
    let mu ← unlock st.mu
    let st := { st with mu := mu }
    -- repeat++ ; every fourth advertisement is looked at
    let rep := st.base.rep + 1
    let st := { st with base := { st.base with rep := rep } }
    if rep % 4 ≠ 0 then pure (st, none)
    else if fr.hostEv.isNone then pure (st, some .other)      -- pkt.Host == nil
    else
      match Ndp.raOptions pay with
      | .err _ => pure (st, some .other)
      | .panic => .panic
      | .hang => .hang
      | .ok o => do
        let esrc ← slice p 6 12                               -- pkt.Ether().Src()
        let mu ← lock st.mu
        -- findOrCreateRouter: a miss writes the nil map
        if (st.base.routers.find? (fun x => x.1 = fr.srcIP)).isNone ∧ st.lanNil then .panic
        else do
          let hdr ← Ndp.raHeader pay                          -- the field reads of 222-228
          let base := Icmp6Hunt.learn st.base
            { etherSrc := esrc, ipSrc := fr.srcIP, hostKnown := true, payload := pay } hdr o
          let mu ← unlock mu
          pure ({ st with base := base, mu := mu }, none)

/-- `Handler6.ProcessPacket(pkt)` (icmp6.go:102-314); `p` = the bytes of `pkt.ether` -/
def h6Process (e : H6Env) (st : H6St) (fr : Frame) (p : Bytes) : Outcome (H6St × Option Err) :=
  if fr.offIP6 = 0 then .ok (st, some .parseFrame)            -- pkt.IP6() == nil
  else do
    let ip6 ← sliceFrom p fr.offIP6                           -- pkt.IP6()
    let pay ← sliceFrom p fr.offPayload                       -- pkt.Payload()
    if pay.length < 8 then pure (st, some .frameLen)          -- icmp6Frame.IsValid
    else do
      let t ← idx pay 0
      if t = 134 then h6RA st fr p pay
      else do
        let cl ← Ndp.icmp6Dispatch pay (fr.srcIP.all (· == 0)) fr.hostEv.isSome false
        match cl with
        | .nsGlobal => do
          -- our own solicitation for the global target (174-178); the result of the send is dropped
          let tgt ← slice pay 8 24                            -- frame.TargetAddress()
          let dmac ← slice p 0 6                              -- pkt.Ether().Dst()
          let dip ← slice ip6 24 40                           -- ip6Frame.Dst()
          match sendICMP6 e.pool e.cfg.hostMAC dmac e.hostLLA dip (nsMarshal tgt e.cfg.hostMAC) with
          | .ok f => do
            let (sent, _) ← writeTo e.conn st.sent f
            pure ({ st with sent := sent }, none)
          | .err _ => pure (st, none)
          | .panic => .panic
          | .hang => .hang
        | c => pure (st, icmp6Ret c)

/-- the packet loop + the ICMPv6 handler on one raw frame -/
def h6Frame (e : H6Env) (st : H6St) (p : Bytes) : Outcome (H6St × Disp) := do
  let r ← parse e.cfg p
  if r.err.isSome then pure (st, .dropped)
  else if r.frame.pid ≠ Pid.icmp6 then pure (st, .notMine)
  else do
    let (st, ret) ← h6Process e st r.frame p
    pure (st, .ret ret)

/-! ## ICMPv4 (logger) -/

def icmp4Ret : Ndp.Icmp4Class → Option Err
  | .errShort | .unreachBadUDP => some .frameLen
  | .unreachShort | .unreachBadIP | .unreachBadTCP => some .parseFrame
  | _ => none

/-- `Handler4.ProcessPacket(frame)` (icmp4_logger.go:35-122): no state, nothing is sent -/
def h4Process (fr : Frame) (p : Bytes) : Outcome (Option Err) :=
  if fr.pid ≠ Pid.icmp4 then .ok (some .parseProtocol)
  else do
    let pay ← sliceFrom p fr.offPayload
    let cl ← Ndp.icmp4Process pay
    pure (icmp4Ret cl)

def h4Frame (c : Model.Cfg) (p : Bytes) : Outcome Disp := do
  let r ← parse c p
  if r.err.isSome then pure .dropped
  else if r.frame.pid ≠ Pid.icmp4 then pure .notMine
  else do
    let ret ← h4Process r.frame p
    pure (.ret ret)

end PV.Model.Handlers
