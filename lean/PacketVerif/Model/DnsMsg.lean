/-
  Model of the section-cursor protocol of `golang.org/x/net/dns/dnsmessage.Parser`
  (x/net v0.34.0, dns/dnsmessage/message.go) and of the two handlers that drive it:
  `DNSHandler.ProcessMDNS` (handlers/dns_naming/mdns.go) and `DNSHandler.ProcessNBNS`
  (nbns.go), both after their `fix:` commits (section-aware skip with error return; NBNS skips
  what it does not decode).

  The parser state is the Go struct verbatim: `{section, off, index, resHeaderValid,
  resHeaderOffset, resHeaderType, resHeaderLength}` + the header counts.  Every method returns
  the new state together with its result, because several methods mutate the state before
  failing.  dnsmessage itself is a trusted external library: its functions are modelled as
  total functions returning `Except` (its bounds checks are modelled, so no panic value is
  needed; the harness watches the real library for panics).
-/
import PacketVerif.Model.Naming
import PacketVerif.Model.DnsRR
namespace PV.Model.DnsMsg
open PV PV.Model

/-- the three error identities the handlers distinguish -/
inductive PErr where
  | sectionDone | notStarted | other
  deriving DecidableEq, Repr

abbrev R (α : Type) := Except PErr α

/-! ### primitive unpackers -/

def unpackUint16 (msg : Bytes) (off : Nat) : R (Nat × Nat) :=
  if off + 2 > msg.length then .error .other
  else
    match msg[off]?, msg[off + 1]? with
    | some a, some b => .ok (be16 a b, off + 2)
    | _, _ => .error .other

def skipUint16 (msg : Bytes) (off : Nat) : R Nat :=
  if off + 2 > msg.length then .error .other else .ok (off + 2)

def unpackUint32 (msg : Bytes) (off : Nat) : R (Nat × Nat) :=
  if off + 4 > msg.length then .error .other
  else
    match msg[off]?, msg[off + 1]?, msg[off + 2]?, msg[off + 3]? with
    | some a, some b, some c, some d => .ok (be32 a b c d, off + 4)
    | _, _, _, _ => .error .other

def skipUint32 (msg : Bytes) (off : Nat) : R Nat :=
  if off + 4 > msg.length then .error .other else .ok (off + 4)

/-- `Name.unpack` loop.  `ptr` = pointers followed so far (at most 10), `fpe` = offset after the
    first pointer (where the next field starts), `name` = text assembled so far (each label
    followed by a dot).  Labels containing '.' are rejected (golang/go#56246). -/
def unpackNameLoop (msg : Bytes) (currOff ptr : Nat) (fpe : Option Nat) (name : Bytes) : R (Bytes × Nat) :=
  match h : msg[currOff]? with
  | none => .error .other                                           -- errBaseLen
  | some c =>
    if c &&& 0xC0 == 0x00 then
      if c == 0 then
        let name' := if name.isEmpty then [46] else name
        if name'.length > 254 then .error .other                    -- errNameTooLong
        else .ok (name', match fpe with | some x => x | none => currOff + 1)
      else
        let endOff := currOff + 1 + c.toNat
        if endOff > msg.length then .error .other                   -- errCalcLen
        else
          let seg := (msg.drop (currOff + 1)).take c.toNat
          if seg.any (· == 46) then .error .other                   -- errInvalidName
          else unpackNameLoop msg endOff ptr fpe (name ++ seg ++ [46])
    else if c &&& 0xC0 == 0xC0 then
      match msg[currOff + 1]? with
      | none => .error .other                                       -- errInvalidPtr
      | some c1 =>
        if hp : ptr + 1 > 10 then .error .other                     -- errTooManyPtr
        else
          unpackNameLoop msg ((c ^^^ 0xC0).toNat * 256 + c1.toNat) (ptr + 1)
            (match fpe with | some x => some x | none => some (currOff + 2)) name
    else .error .other                                              -- errReserved
termination_by (10 - ptr, msg.length - currOff)
decreasing_by
  · have := (List.getElem?_eq_some_iff.mp h).1
    exact Prod.Lex.right _ (by omega)
  · exact Prod.Lex.left _ _ (by omega)

/-- `(*Name).unpack(msg, off)` → (text with trailing dot, offset of the next field) -/
def unpackName (msg : Bytes) (off : Nat) : R (Bytes × Nat) := unpackNameLoop msg off 0 none []

/-- `skipName(msg, off)`: walks labels, stops after the first pointer, does not follow it -/
def skipName (msg : Bytes) (off : Nat) : R Nat :=
  match h : msg[off]? with
  | none => .error .other
  | some c =>
    if c &&& 0xC0 == 0x00 then
      if c == 0 then .ok (off + 1)
      else
        let newOff := off + 1 + c.toNat
        if newOff > msg.length then .error .other else skipName msg newOff
    else if c &&& 0xC0 == 0xC0 then .ok (off + 2)
    else .error .other
termination_by msg.length - off
decreasing_by
  have := (List.getElem?_eq_some_iff.mp h).1
  omega

structure RHeader where
  name : Bytes
  rtype : Nat
  rclass : Nat
  ttl : Nat
  length : Nat
  deriving DecidableEq, Repr

/-- `(*ResourceHeader).unpack(msg, off)` -/
def unpackRHeader (msg : Bytes) (off : Nat) : R (RHeader × Nat) := do
  let (nm, o1) ← unpackName msg off
  let (t, o2) ← unpackUint16 msg o1
  let (c, o3) ← unpackUint16 msg o2
  let (ttl, o4) ← unpackUint32 msg o3
  let (l, o5) ← unpackUint16 msg o4
  pure ({ name := nm, rtype := t, rclass := c, ttl := ttl, length := l }, o5)

/-- package-level `skipResource(msg, off)` -/
def skipResourceAt (msg : Bytes) (off : Nat) : R Nat := do
  let o1 ← skipName msg off
  let o2 ← skipUint16 msg o1
  let o3 ← skipUint16 msg o2
  let o4 ← skipUint32 msg o3
  let (l, o5) ← unpackUint16 msg o4
  if o5 + l > msg.length then .error .other else pure (o5 + l)

/-! ### resource bodies (only what the handlers look at is kept) -/

def unpackBytesN (n : Nat) (msg : Bytes) (off : Nat) : R Bytes :=
  if off + n > msg.length then .error .other else .ok ((msg.drop off).take n)

def unpackA (msg : Bytes) (off _len : Nat) : R Bytes := unpackBytesN 4 msg off
def unpackAAAA (msg : Bytes) (off _len : Nat) : R Bytes := unpackBytesN 16 msg off
def unpackUnknown (msg : Bytes) (off len : Nat) : R Bytes := unpackBytesN len msg off

def unpackPTR (msg : Bytes) (off _len : Nat) : R Unit := do
  let _ ← unpackName msg off
  pure ()

def unpackSRV (msg : Bytes) (off _len : Nat) : R Unit := do
  let (_, o1) ← unpackUint16 msg off
  let (_, o2) ← unpackUint16 msg o1
  let (_, o3) ← unpackUint16 msg o2
  let _ ← unpackName msg o3
  pure ()

/-- `unpackText(msg, off)` -/
def unpackText (msg : Bytes) (off : Nat) : R (Bytes × Nat) :=
  match msg[off]? with
  | none => .error .other
  | some l =>
    let endOff := off + 1 + l.toNat
    if endOff > msg.length then .error .other else .ok ((msg.drop (off + 1)).take l.toNat, endOff)

/-- `unpackTXTResource(msg, off, length)`: `for n := uint16(0); n < length; { … n += len(t)+1 }` -/
def unpackTXTLoop (msg : Bytes) (off length n : Nat) : R (List Bytes) :=
  if hn : n < length then
    match unpackText msg off with
    | .error e => .error e
    | .ok (t, off') =>
      if length - n < t.length + 1 then .error .other
      else
        match unpackTXTLoop msg off' length (n + (t.length + 1)) with
        | .ok ts => .ok (t :: ts)
        | .error e => .error e
  else .ok []
termination_by length - n

def unpackTXT (msg : Bytes) (off len : Nat) : R (List Bytes) := unpackTXTLoop msg off len 0

/-- `unpackOPTResource(msg, off, length)`: `for oldOff := off; off < oldOff+int(length); { code; l; data }` -/
def unpackOPTLoop (msg : Bytes) (off stop : Nat) : R Unit :=
  if h : off < stop then
    match unpackUint16 msg off with
    | .error e => .error e
    | .ok (_, o1) =>
      match unpackUint16 msg o1 with
      | .error e => .error e
      | .ok (l, o2) =>
        if msg.length - o2 < l then .error .other
        else if o2 + l ≤ off then .error .other        -- unreachable (o2 = off + 4); keeps the recursion structural
        else unpackOPTLoop msg (o2 + l) stop
  else .ok ()
termination_by stop - off

def unpackOPT (msg : Bytes) (off len : Nat) : R Unit := unpackOPTLoop msg off (off + len)

/-! ### the Parser -/

/-- section numbers as in the Go `section` type -/
def secQuestions : Nat := 2
def secAnswers : Nat := 3
def secAuthorities : Nat := 4
def secAdditionals : Nat := 5

structure Parser where
  msg : Bytes
  qd : Nat
  an : Nat
  ns : Nat
  ar : Nat
  sect : Nat
  off : Nat
  index : Nat
  resHeaderValid : Bool
  resHeaderOffset : Nat
  resHeaderType : Nat
  resHeaderLength : Nat
  deriving DecidableEq, Repr

/-- `header.count(sec)` -/
def Parser.count (p : Parser) (sec : Nat) : Nat :=
  if sec = 2 then p.qd else if sec = 3 then p.an else if sec = 4 then p.ns else if sec = 5 then p.ar else 0

structure MsgHeader where
  id : Nat
  response : Bool
  deriving DecidableEq, Repr

/-- `p.Start(msg)` -/
def start (msg : Bytes) : R (Parser × MsgHeader) := do
  let (id, o1) ← unpackUint16 msg 0
  let (bits, o2) ← unpackUint16 msg o1
  let (qd, o3) ← unpackUint16 msg o2
  let (an, o4) ← unpackUint16 msg o3
  let (ns, o5) ← unpackUint16 msg o4
  let (ar, o6) ← unpackUint16 msg o5
  pure ({ msg := msg, qd := qd, an := an, ns := ns, ar := ar, sect := secQuestions, off := o6, index := 0,
          resHeaderValid := false, resHeaderOffset := 0, resHeaderType := 0, resHeaderLength := 0 },
        { id := id, response := bits / 32768 % 2 == 1 })

/-- `p.checkAdvance(sec)` -/
def checkAdvance (p : Parser) (sec : Nat) : Parser × Option PErr :=
  if p.sect < sec then (p, some .notStarted)
  else if p.sect > sec then (p, some .sectionDone)
  else
    let p1 := { p with resHeaderValid := false }
    if p1.index = p1.count sec then ({ p1 with index := 0, sect := p1.sect + 1 }, some .sectionDone)
    else (p1, none)

/-- `p.resourceHeader(sec)` -/
def resourceHeader (p : Parser) (sec : Nat) : Parser × R RHeader :=
  let p0 := if p.resHeaderValid then { p with off := p.resHeaderOffset } else p
  match checkAdvance p0 sec with
  | (p1, some e) => (p1, .error e)
  | (p1, none) =>
    match unpackRHeader p1.msg p1.off with
    | .error e => (p1, .error e)
    | .ok (hdr, off) =>
      ({ p1 with resHeaderValid := true, resHeaderOffset := p1.off, resHeaderType := hdr.rtype,
                 resHeaderLength := hdr.length, off := off }, .ok hdr)

/-- `p.skipResource(sec)` (SkipAnswer / SkipAuthority / SkipAdditional) -/
def skipResource (p : Parser) (sec : Nat) : Parser × Option PErr :=
  if p.resHeaderValid ∧ p.sect = sec then
    let newOff := p.off + p.resHeaderLength
    if newOff > p.msg.length then (p, some .other)
    else ({ p with off := newOff, resHeaderValid := false, index := p.index + 1 }, none)
  else
    match checkAdvance p sec with
    | (p1, some e) => (p1, some e)
    | (p1, none) =>
      match skipResourceAt p1.msg p1.off with
      | .error e => (p1, some e)
      | .ok off => ({ p1 with off := off, index := p1.index + 1 }, none)

/-- the typed `…Resource()` methods: need a pending header of the right type; on success the
    cursor moves by RDLENGTH and the record is counted; on failure nothing changes. -/
def typedResource {α : Type} (p : Parser) (typeOk : Nat → Bool) (unpack : Bytes → Nat → Nat → R α) : Parser × R α :=
  if !p.resHeaderValid || !typeOk p.resHeaderType then (p, .error .notStarted)
  else
    match unpack p.msg p.off p.resHeaderLength with
    | .error e => (p, .error e)
    | .ok r => ({ p with off := p.off + p.resHeaderLength, resHeaderValid := false, index := p.index + 1 }, .ok r)

/-- `p.Question()` -/
def question (p : Parser) : Parser × R Bytes :=
  match checkAdvance p secQuestions with
  | (p1, some e) => (p1, .error e)
  | (p1, none) =>
    match (do
      let (nm, o1) ← unpackName p1.msg p1.off
      let (_, o2) ← unpackUint16 p1.msg o1
      let (_, o3) ← unpackUint16 p1.msg o2
      pure (nm, o3) : R (Bytes × Nat)) with
    | .error e => (p1, .error e)
    | .ok (nm, off) => ({ p1 with off := off, index := p1.index + 1 }, .ok nm)

/-- `p.SkipQuestion()` -/
def skipQuestion (p : Parser) : Parser × Option PErr :=
  match checkAdvance p secQuestions with
  | (p1, some e) => (p1, some e)
  | (p1, none) =>
    match (do
      let o1 ← skipName p1.msg p1.off
      let o2 ← skipUint16 p1.msg o1
      skipUint16 p1.msg o2 : R Nat) with
    | .error e => (p1, some e)
    | .ok off => ({ p1 with off := off, index := p1.index + 1 }, none)

/-- `p.AllQuestions()`: `for { q, err := p.Question(); if err == ErrSectionDone { return qs, nil } … }` -/
def allQuestions : (fuel : Nat) → Parser → List Bytes → Outcome (Parser × Option (List Bytes))
  | 0, _, _ => .hang
  | fuel + 1, p, qs =>
    match question p with
    | (p1, .error .sectionDone) => .ok (p1, some qs)
    | (p1, .error _) => .ok (p1, none)
    | (p1, .ok q) => allQuestions fuel p1 (qs ++ [q])

/-- `p.SkipAllQuestions()`; `some _` = error -/
def skipAllQuestions : (fuel : Nat) → Parser → Outcome (Parser × Option PErr)
  | 0, _ => .hang
  | fuel + 1, p =>
    match skipQuestion p with
    | (p1, some .sectionDone) => .ok (p1, none)
    | (p1, some e) => .ok (p1, some e)
    | (p1, none) => skipAllQuestions fuel p1

/-! ### ProcessMDNS -/

structure IPName where
  name : Bytes
  ip : Bytes
  model : Bytes
  manufacturer : Bytes
  deriving DecidableEq, Repr

structure MdnsOut where
  ipv4 : List IPName
  ipv6 : List IPName
  err : Bool
  deriving DecidableEq, Repr

def contains (s sub : Bytes) : Bool :=
  match s with
  | [] => sub.isEmpty
  | _ :: rest => sub.isPrefixOf s || contains rest sub

def sLocal : Bytes := [46, 108, 111, 99, 97, 108, 46]                                  -- ".local."
def sTcpLocal : Bytes := [95, 116, 99, 112, 46, 108, 111, 99, 97, 108, 46]              -- "_tcp.local."
def sUdpLocal : Bytes := [95, 117, 100, 112, 46, 108, 111, 99, 97, 108, 46]             -- "_udp.local."
def sSleepProxy : Bytes := [115, 108, 101, 101, 112, 45, 112, 114, 111, 120, 121]       -- "sleep-proxy"
def sApple : Bytes := [65, 112, 112, 108, 101]                                          -- "Apple"

/-- the `for _, q := range questions` loop of the query branch -/
def queryNames : List Bytes → (name manuf : Bytes) → Bytes × Bytes
  | [], name, manuf => (name, manuf)
  | q :: rest, name, manuf =>
    let name' := if !hasSuffix q sTcpLocal && !hasSuffix q sUdpLocal && hasSuffix q sLocal then trimSuffix q sLocal else name
    let manuf' := if contains q sSleepProxy then sApple else manuf
    queryNames rest name' manuf'

/-- end of the additional section: copy the model into every entry -/
def finalize (model : Bytes) (v4 v6 : List IPName) : MdnsOut :=
  if model ≠ [] then
    { ipv4 := v4.map (fun e => { e with model := model }), ipv6 := v6.map (fun e => { e with model := model }), err := false }
  else { ipv4 := v4, ipv6 := v6, err := false }

/-- loop state of `ProcessMDNS`: the parser, the `section` variable (3 answer, 4 authority,
    5 additional), the model string and the two result lists -/
structure MdnsState where
  p : Parser
  sec : Nat
  model : Bytes
  v4 : List IPName
  v6 : List IPName

inductive MdnsStep where
  | done (o : MdnsOut)
  | next (s : MdnsState)

/-- `if err := skip(); err != nil { return ipv4, ipv6, err }; continue` (fix commit: the skip of
    the section being walked, error returned) -/
def skipOr (s : MdnsState) (p1 : Parser) : MdnsStep :=
  match skipResource p1 s.sec with
  | (p2, none) => .next { s with p := p2 }
  | (_, some _) => .done { ipv4 := s.v4, ipv6 := s.v6, err := true }

/-- the resource types whose body the handler parses and then ignores: on a body error the
    record is skipped -/
def parseOrSkip {α : Type} (s : MdnsState) (p1 : Parser) (t : Nat) (unpack : Bytes → Nat → Nat → R α)
    (k : α → MdnsState → MdnsState) : MdnsStep :=
  match typedResource p1 (· == t) unpack with
  | (p2, .ok a) => .next (k a { s with p := p2 })
  | (_, .error _) => skipOr s p1

/-- one iteration of the `for { … }` record loop of `ProcessMDNS` -/
def mdnsStep (s : MdnsState) : MdnsStep :=
  match resourceHeader s.p s.sec with
  | (p1, .error .sectionDone) =>
    if s.sec ≥ secAdditionals then .done (finalize s.model s.v4 s.v6)
    else .next { s with p := p1, sec := s.sec + 1 }
  | (_, .error _) => .done { ipv4 := s.v4, ipv6 := s.v6, err := true }
  | (p1, .ok hdr) =>
    let entry (a : Bytes) : IPName := { name := trimSuffix hdr.name sLocal, ip := a, model := [], manufacturer := [] }
    if hdr.rtype = 1 then
      match typedResource p1 (· == 1) unpackA with
      | (p2, .ok a) => .next { s with p := p2, v4 := s.v4 ++ [entry a] }
      | (_, .error _) => .done { ipv4 := s.v4, ipv6 := s.v6, err := true }
    else if hdr.rtype = 28 then
      match typedResource p1 (· == 28) unpackAAAA with
      | (p2, .ok a) => .next { s with p := p2, v6 := s.v6 ++ [entry a] }
      | (_, .error _) => .done { ipv4 := s.v4, ipv6 := s.v6, err := true }
    else if hdr.rtype = 12 then parseOrSkip s p1 12 unpackPTR (fun _ st => st)
    else if hdr.rtype = 33 then parseOrSkip s p1 33 unpackSRV (fun _ st => st)
    else if hdr.rtype = 16 then
      parseOrSkip s p1 16 unpackTXT (fun txt st => let m := parseTXT txt; { st with model := if m ≠ [] then m else st.model })
    else if hdr.rtype = 41 then parseOrSkip s p1 41 unpackOPT (fun _ st => st)
    else skipOr s p1

/-- the record loop of `ProcessMDNS`: one `mdnsStep` per unit of fuel;
    `mdns_terminates` shows `an + ns + ar + 4` iterations always suffice. -/
def mdnsLoop : (fuel : Nat) → MdnsState → Outcome MdnsOut
  | 0, _ => .hang
  | fuel + 1, s =>
    match mdnsStep s with
    | .done o => .ok o
    | .next s' => mdnsLoop fuel s'

/-- `h.ProcessMDNS(frame)` with `frame.Payload() = payload` and an empty response cache
    (the harness resets the (mac,id) cache before every call). -/
def processMDNS (fuel : Nat) (payload : Bytes) : Outcome MdnsOut :=
  match start payload with
  | .error _ => .ok { ipv4 := [], ipv6 := [], err := true }
  | .ok (p, hdr) =>
    if !hdr.response then
      match allQuestions fuel p [] with
      | .ok (_, some qs) =>
        let (name, manuf) := queryNames qs [] []
        if name ≠ [] ∨ manuf ≠ [] then
          .ok { ipv4 := [{ name := name, ip := [], model := [], manufacturer := manuf }], ipv6 := [], err := false }
        else .ok { ipv4 := [], ipv6 := [], err := false }
      | .ok (_, none) => .ok { ipv4 := [], ipv6 := [], err := false }
      | .err e => .err e | .panic => .panic | .hang => .hang
    else
      match skipAllQuestions fuel p with
      | .ok (_, some _) => .ok { ipv4 := [], ipv6 := [], err := true }
      | .ok (p1, none) => mdnsLoop fuel { p := p1, sec := secAnswers, model := [], v4 := [], v6 := [] }
      | .err e => .err e | .panic => .panic | .hang => .hang

/-- iterations that always suffice: every record of the three sections, three section
    changes, one spare; the question loops need `qd + 1`. -/
def mdnsBound (payload : Bytes) : Nat :=
  match start payload with
  | .ok (p, _) => p.qd + p.an + p.ns + p.ar + 5
  | .error _ => 1

/-! ### ProcessNBNS -/

structure NbnsOut where
  type : Bytes
  name : Bytes
  err : Bool
  deriving DecidableEq, Repr

def sNbns : Bytes := [110, 98, 110, 115]

inductive NbnsStep where
  | done (o : Outcome NbnsOut)
  | next (p : Parser)

/-- one iteration of the `for { h, err := p.AnswerHeader() … }` loop of `ProcessNBNS` (fixed code) -/
def nbnsStep (p : Parser) : NbnsStep :=
  match resourceHeader p secAnswers with
  | (_, .error .sectionDone) => .done (.ok { type := sNbns, name := [], err := false })
  | (_, .error _) => .done (.ok { type := sNbns, name := [], err := true })
  | (p1, .ok hdr) =>
    if hdr.rtype = 0x21 then
      match typedResource p1 (fun _ => true) unpackUnknown with
      | (_, .error _) => .done (.ok { type := sNbns, name := [], err := true })
      | (p2, .ok data) =>
        match nbnsNodeStatus data with
        | .ok (n :: _) => .done (.ok { type := sNbns, name := n, err := false })
        | .panic => .done .panic
        | .hang => .done .hang
        | _ => .next p2
    else
      match skipResource p1 secAnswers with
      | (p2, none) => .next p2
      | (_, some _) => .done (.ok { type := sNbns, name := [], err := true })

def nbnsLoop : (fuel : Nat) → Parser → Outcome NbnsOut
  | 0, _ => .hang
  | fuel + 1, p =>
    match nbnsStep p with
    | .done o => o
    | .next p' => nbnsLoop fuel p'

/-- `h.ProcessNBNS(host, ether, payload)` -/
def processNBNS (fuel : Nat) (payload : Bytes) : Outcome NbnsOut :=
  if payload.length < 12 then .ok { type := [], name := [], err := true }
  else
    match start payload with
    | .error _ => .ok { type := [], name := [], err := true }
    | .ok (p, hdr) =>
      if !hdr.response then .ok { type := [], name := [], err := false }
      else
        match skipAllQuestions fuel p with
        | .ok (_, some _) => .ok { type := [], name := [], err := true }
        | .ok (p1, none) => nbnsLoop fuel p1
        | .err e => .err e | .panic => .panic | .hang => .hang

def nbnsBound (payload : Bytes) : Nat :=
  match start payload with
  | .ok (p, _) => p.qd + p.an + p.ns + p.ar + 5
  | .error _ => 1

end PV.Model.DnsMsg
