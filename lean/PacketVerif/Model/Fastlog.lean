/-
  Executable model of `fastlog.Line` (fastlog/logging.go, after the `fix:` commits listed in
  KNOWN_FINDINGS.txt): a fixed 2048-byte buffer and a write cursor, and every field appender.

  * `buffer[i] = v` with `i ≥ 2048` and `buffer[lo:hi]` with bad bounds are Go run-time panics:
    `Outcome.panic`.
  * `copy(dst, src)` copies `min(len dst, len src)` bytes and returns that number.
  * `IP()` appends through `netip.Addr.AppendTo(buffer[index:index])`: the text is produced by the
    standard library (`netipText` mirrors net/netip of go1.23, validated by the correspondence
    run); when it does not fit, `append` reallocates, the text is NOT in the line buffer and
    `index` ends beyond 2048 (every later access panics) – the buffer content is then
    unobservable and the model leaves it unchanged.
  * `Int()` formats with `strconv.AppendInt`, `Duration()` with `time.Duration.String`
    (`fmtInt64`, `durationText` mirror them); `Time`, `Sprintf`, `Error`, `Stringer` copy a text the
    standard library produced (an input of the model).
  * `index--` is only executed after at least one successful write of the same call, so the
    cursor never becomes negative; the model keeps it in `Nat` and treats a decrement at 0 as
    `panic` (unreachable, and conservative for every "no panic" theorem).
-/
import PacketVerif.Basic
import PacketVerif.Model.FastlogField
namespace PV.Model.Fastlog
open PV PV.Fastlog

/-- `const bufSize = 2048` -/
def bufSize : Nat := 2048

/-- `[bufSize]byte` -/
abbrev Buf := { b : Bytes // b.length = bufSize }

/-- `b[i:i+len s]` replaced by `s` when that range lies inside `b` (callers truncate first) -/
def splice (b : Bytes) (i : Nat) (s : Bytes) : Bytes :=
  if i + s.length ≤ b.length then b.take i ++ (s ++ b.drop (i + s.length)) else b

theorem splice_length (b : Bytes) (i : Nat) (s : Bytes) : (splice b i s).length = b.length := by
  unfold splice
  split
  · simp only [List.length_append, List.length_take, List.length_drop]; omega
  · rfl

def Buf.set (b : Buf) (i : Nat) (v : UInt8) : Buf := ⟨b.1.set i v, by simp [b.2]⟩
def Buf.splice (b : Buf) (i : Nat) (s : Bytes) : Buf := ⟨Fastlog.splice b.1 i s, by rw [splice_length]; exact b.2⟩
def Buf.fill (v : UInt8) : Buf := ⟨List.replicate bufSize v, by simp⟩

/-- `type Line struct { buffer [bufSize]byte; index int }` -/
structure Line where
  buf : Buf
  idx : Nat

/-- text of the line so far: `buffer[:index]` (what `ToString` returns) -/
def Line.text (l : Line) : Bytes := l.buf.1.take l.idx

/-! ### primitives -/

/-- `l.buffer[l.index] = value; l.index++` -/
def appendByte (l : Line) (v : UInt8) : Outcome Line :=
  if l.idx < bufSize then .ok ⟨l.buf.set l.idx v, l.idx + 1⟩ else .panic

/-- `copy(buffer[lo:hi], s)`: panics on bad slice bounds, returns the new buffer and the count -/
def copyTo (b : Buf) (lo hi : Nat) (s : Bytes) : Outcome (Buf × Nat) :=
  if lo ≤ hi ∧ hi ≤ bufSize then .ok (b.splice lo (s.take (hi - lo)), min s.length (hi - lo)) else .panic

/-- `l.index = l.index + copy(l.buffer[l.index:], s)` -/
def copyIn (l : Line) (s : Bytes) : Outcome Line := do
  let (b, n) ← copyTo l.buf l.idx bufSize s
  pure ⟨b, l.idx + n⟩

/-- `l.index--` (see the header: never reached with `index = 0`) -/
def decIdx (l : Line) : Outcome Line :=
  if l.idx = 0 then .panic else .ok ⟨l.buf, l.idx - 1⟩

/-! ### byte constants -/
def cSP : UInt8 := 0x20
def cQUOTE : UInt8 := 0x22
def cEQ : UInt8 := 0x3d
def cLB : UInt8 := 0x5b
def cRB : UInt8 := 0x5d
def cCOMMA : UInt8 := 0x2c
def cCOLON : UInt8 := 0x3a
def cDOT : UInt8 := 0x2e
def cLF : UInt8 := 0x0a
def sNil : Bytes := [0x6e, 0x69, 0x6c]
def sTrue : Bytes := [0x74, 0x72, 0x75, 0x65]
def sFalse : Bytes := [0x66, 0x61, 0x6c, 0x73, 0x65]
/-- `"      :"` -/
def sModule : Bytes := [0x20, 0x20, 0x20, 0x20, 0x20, 0x20, 0x3a]
/-- `" error=["` -/
def sError : Bytes := [0x20, 0x65, 0x72, 0x72, 0x6f, 0x72, 0x3d, 0x5b]
/-- `"=["` -/
def sEqLB : Bytes := [0x3d, 0x5b]
/-- `"TRUNCATED "` -/
def sTruncated : Bytes := [0x54, 0x52, 0x55, 0x4e, 0x43, 0x41, 0x54, 0x45, 0x44, 0x20]
/-- `"::ffff:"` -/
def sMapped : Bytes := [0x3a, 0x3a, 0x66, 0x66, 0x66, 0x66, 0x3a]

/-- `var hexAscii = []byte{'0', … 'f'}` -/
def hexAscii : Bytes :=
  [0x30, 0x31, 0x32, 0x33, 0x34, 0x35, 0x36, 0x37, 0x38, 0x39, 0x61, 0x62, 0x63, 0x64, 0x65, 0x66]

/-! ### Logger.Msg / Module -/

/-- `newLogger`: `copy(l.module[:], "      :"); if module != "" { copy(l.module[:6], module) }` -/
def loggerModule (module : Bytes) : Bytes :=
  if module = [] then sModule else splice sModule 0 (module.take 6)

/-- the `if msg != "" { … }` tail shared by `Msg` and `newModule` -/
def appendMsg (l : Line) (msg : Bytes) : Outcome Line :=
  if msg = [] then pure l else do
    let l ← appendByte l cSP
    let l ← appendByte l cQUOTE
    let l ← copyIn l msg
    appendByte l cQUOTE

/-- `Logger.Msg` on a pool buffer with content `b0` -/
def msg (b0 : Buf) (module m : Bytes) : Outcome Line := do
  let (b, _) ← copyTo b0 0 7 (loggerModule module)
  appendMsg ⟨b, 7⟩ m

def newModule (l : Line) (module m : Bytes) : Outcome Line := do
  let l ← if module = [] then pure l else do
    let (b, _) ← copyTo l.buf l.idx bufSize sModule
    let (b, _) ← copyTo b l.idx (l.idx + 6) module
    pure ⟨b, l.idx + 7⟩
  appendMsg l m

def moduleF (l : Line) (name m : Bytes) : Outcome Line := do
  let l ← appendByte l cLF
  newModule l name m

/-! ### ToString / Write (observation points) -/

/-- `string(l.buffer[:l.index])` -/
def toString (l : Line) : Outcome Bytes :=
  if l.idx ≤ bufSize then .ok l.text else .panic

/-- bytes handed to `DefaultIOWriter.Write` -/
def write (l : Line) : Outcome Bytes := do
  let l : Line := if l.idx ≥ bufSize then ⟨l.buf, l.idx - 1⟩ else l
  if l.idx < bufSize then .ok ((l.buf.set l.idx cLF).1.take (l.idx + 1)) else .panic

/-! ### name prefix -/

/-- `' ' name '='` – the common head of most appenders -/
def head (l : Line) (name : Bytes) : Outcome Line := do
  let l ← appendByte l cSP
  let l ← copyIn l name
  appendByte l cEQ

/-! ### String, Label, Bytes, Error, Bool, Stringer, texts -/

def string (l : Line) (name value : Bytes) : Outcome Line := do
  let l ← head l name
  let l ← appendByte l cQUOTE
  let l ← copyIn l value
  let l : Line := if l.idx = bufSize then ⟨l.buf, l.idx - 1⟩ else l
  appendByte l cQUOTE

def label (l : Line) (name : Bytes) : Outcome Line := do
  let l ← appendByte l cSP
  copyIn l name

def bytesF (l : Line) (name value : Bytes) : Outcome Line := do
  let l ← head l name
  copyIn l value

def errorF (l : Line) (text : Bytes) : Outcome Line := do
  let l ← copyIn l sError
  let l ← copyIn l text
  appendByte l cRB

def boolF (l : Line) (name : Bytes) (v : Bool) : Outcome Line := do
  let l ← head l name
  if v then copyIn l sTrue else copyIn l sFalse

/-- `Duration`/`Time`/`Sprintf`: head then a copied standard-library text -/
def nameText (l : Line) (name text : Bytes) : Outcome Line := do
  let l ← head l name
  copyIn l text

/-! ### integers -/

/-- `for n > 0 { i++; n /= 10 }` -/
def countDigits (n : UInt32) : Nat :=
  if h : n = 0 then 0 else countDigits (n / 10) + 1
termination_by n.toNat
decreasing_by
  have : n.toNat ≠ 0 := fun h0 => h (UInt32.toNat_inj.mp (by simpa using h0))
  rw [UInt32.toNat_div]; exact Nat.div_lt_self (by omega) (by decide)

/-- `for v > 0 { l.buffer[i] = byte(v%10) + '0'; i--; v /= 10 }` with `e = i + 1` -/
def printLoop (b : Buf) (e : Nat) (v : UInt32) : Outcome Buf :=
  if h : v = 0 then .ok b
  else if e = 0 ∨ e > bufSize then .panic
  else printLoop (b.set (e - 1) ((v % 10).toUInt8 + 0x30)) (e - 1) (v / 10)
termination_by v.toNat
decreasing_by
  have : v.toNat ≠ 0 := fun h0 => h (UInt32.toNat_inj.mp (by simpa using h0))
  rw [UInt32.toNat_div]; exact Nat.div_lt_self (by omega) (by decide)

def printInt (l : Line) (v : UInt32) : Outcome Line :=
  if v = 0 then appendByte l 0x30
  else do
    let e := l.idx + countDigits v
    let b ← printLoop l.buf e v
    pure ⟨b, e⟩

def uint8 (l : Line) (name : Bytes) (v : UInt8) : Outcome Line := do
  let l ← head l name
  printInt l v.toUInt32

def uint16 (l : Line) (name : Bytes) (v : UInt16) : Outcome Line := do
  let l ← head l name
  printInt l v.toUInt32

def uint32 (l : Line) (name : Bytes) (v : UInt32) : Outcome Line := do
  let l ← head l name
  printInt l v

/-- digits of `n`, least significant peeled first, prepended to `acc`
    (`strconv.formatBits` / `time.fmtInt` without the two-digit table optimisation) -/
def peelDigits (n : Nat) (acc : Bytes) : Bytes :=
  if h : n < 10 then UInt8.ofNat (48 + n) :: acc
  else peelDigits (n / 10) (UInt8.ofNat (48 + n % 10) :: acc)
termination_by n
decreasing_by omega

/-- `strconv.AppendInt(nil, v, 10)` -/
def fmtInt64 (v : Int) : Bytes :=
  if v < 0 then 0x2d :: peelDigits v.natAbs [] else peelDigits v.natAbs []

def intF (l : Line) (name : Bytes) (v : Int) : Outcome Line := do
  let l ← head l name
  copyIn l (fmtInt64 v)

def hexAt (x : UInt8) : Outcome UInt8 := idx hexAscii x.toNat

def uint8Hex (l : Line) (name : Bytes) (v : UInt8) : Outcome Line := do
  let l ← head l name
  let l ← appendByte l 0x30
  let l ← appendByte l 0x78
  let l ← appendByte l (← hexAt ((v >>> 4) &&& 0x0f))
  appendByte l (← hexAt (v &&& 0x0f))

def hexAt16 (x : UInt16) : Outcome UInt8 := idx hexAscii x.toNat

def uint16Hex (l : Line) (name : Bytes) (v : UInt16) : Outcome Line := do
  let l ← head l name
  let l ← appendByte l 0x30
  let l ← appendByte l 0x78
  let l ← appendByte l (← hexAt16 ((v >>> 12) &&& 0x0f))
  let l ← appendByte l (← hexAt16 ((v >>> 8) &&& 0x0f))
  let l ← appendByte l (← hexAt16 ((v >>> 4) &&& 0x0f))
  appendByte l (← hexAt16 (v &&& 0x0f))

/-! ### hex helpers, MAC -/

/-- `if x < 10 { x + '0' } else { x%10 + 'a' }` -/
def nibbleChar (x : UInt8) : UInt8 := if x < 10 then x + 0x30 else x % 10 + 0x61

def writeHex (l : Line) (v : UInt8) : Outcome Line := do
  let l ← appendByte l (nibbleChar (v >>> 4))
  appendByte l (nibbleChar (v &&& 0x0f))

def writeHexNLZ (l : Line) (v : UInt8) : Outcome Line := do
  let x := v >>> 4
  let l ← if x != 0 then appendByte l (← hexAt x) else pure l
  appendByte l (← hexAt (v &&& 0x0f))

def macF (l : Line) (name : Bytes) (v : Bytes) : Outcome Line := do
  let l ← head l name
  if v.length = 6 then do
    let l ← writeHex l (← idx v 0)
    let l ← appendByte l cCOLON
    let l ← writeHex l (← idx v 1)
    let l ← appendByte l cCOLON
    let l ← writeHex l (← idx v 2)
    let l ← appendByte l cCOLON
    let l ← writeHex l (← idx v 3)
    let l ← appendByte l cCOLON
    let l ← writeHex l (← idx v 4)
    let l ← appendByte l cCOLON
    writeHex l (← idx v 5)
  else copyIn l sNil

/-! ### appendIP6 (fastlog's own RFC 5952 writer, used by IPSlice and IPArray) -/

/-- `ip[j*2] != 0x00 || ip[j*2+1] != 0x00` (short-circuit `||`) -/
def groupNonZero (ip : Bytes) (j : Nat) : Outcome Bool := do
  let a ← idx ip (j * 2)
  if a != 0 then pure true else do
    let b ← idx ip (j * 2 + 1)
    pure (b != 0)

/-- inner loop `for ; j < 8; j++ { if nonzero(j) { break }; if zeros := j - i; zeros > 0 &&
    zeros > endZ-startZ { startZ = i; endZ = j } }`; `rd j` reads whether group `j` is non-zero.
    The loop counter is carried as `k = 8 - j` (iterations left), which makes the recursion
    structural. -/
def zInner (rd : Nat → Outcome Bool) (i : Nat) : (k : Nat) → (s e : Int) → Outcome (Int × Int)
  | 0, s, e => pure (s, e)
  | k + 1, s, e =>
    let j := 8 - (k + 1)
    do
    if (← rd j) then pure (s, e)
    else
      let zeros : Int := (j : Int) - (i : Int)
      if zeros > 0 ∧ zeros > e - s then zInner rd i k i j else zInner rd i k s e

/-- outer loop `for i := 0; i < 8; i++ { j := i; … }`, `k = 8 - i` -/
def zOuter (rd : Nat → Outcome Bool) : (k : Nat) → (s e : Int) → Outcome (Int × Int)
  | 0, s, e => pure (s, e)
  | k + 1, s, e =>
    let i := 8 - (k + 1)
    do
    let (s, e) ← zInner rd i (k + 1) s e
    zOuter rd k s e

/-- one non-elided group: `if ip[i*2] != 0 { NLZ(hi); writeHex(lo) } else { NLZ(lo) }; ':'` -/
def ip6Group (l : Line) (ip : Bytes) (i : Nat) : Outcome Line := do
  let hi ← idx ip (i * 2)
  let l ← if hi != 0 then do
      let l ← writeHexNLZ l hi
      writeHex l (← idx ip (i * 2 + 1))
    else writeHexNLZ l (← idx ip (i * 2 + 1))
  appendByte l cCOLON

/-- second loop of `appendIP6` (`k = 8 - i` iterations left) -/
def ip6Loop (ip : Bytes) (s e : Int) : (k : Nat) → (l : Line) → Outcome Line
  | 0, l => pure l
  | k + 1, l =>
    let i := 8 - (k + 1)
    if (i : Int) = s then do
      let l ← if s = 0 then appendByte l cCOLON else pure l
      let l ← appendByte l cCOLON
      ip6Loop ip s e k l
    else if (i : Int) ≥ s ∧ (i : Int) ≤ e then ip6Loop ip s e k l
    else do
      let l ← ip6Group l ip i
      ip6Loop ip s e k l

def appendIP6 (l : Line) (ip : Bytes) : Outcome Line :=
  if ip.length ≠ 16 then copyIn l sNil
  else do
    let (s, e) ← zOuter (groupNonZero ip) 8 (-1) (-1)
    let s : Int := if e = s then 99 else s
    let l ← ip6Loop ip s e 8 l
    if e < 7 then decIdx l else pure l

/-! ### IPSlice (net.IP) -/

/-- `net.IP.To4` -/
def to4 (ip : Bytes) : Option Bytes :=
  if ip.length = 4 then some ip
  else if ip.length = 16 ∧ (ip.take 10).all (· == 0) ∧ ip[10]? = some 0xff ∧ ip[11]? = some 0xff then
    some (ip.drop 12)
  else none

/-- `byteAscii[b]`: the 256-entry table holds the decimal text of its index -/
def byteAscii (b : UInt8) : Bytes := peelDigits b.toNat []

/-- `byteAscii[ip[0]] '.' byteAscii[ip[1]] '.' byteAscii[ip[2]] '.' byteAscii[ip[3]]` -/
def dotted4 (l : Line) (ip : Bytes) : Outcome Line := do
  let l ← copyIn l (byteAscii (← idx ip 0))
  let l ← appendByte l cDOT
  let l ← copyIn l (byteAscii (← idx ip 1))
  let l ← appendByte l cDOT
  let l ← copyIn l (byteAscii (← idx ip 2))
  let l ← appendByte l cDOT
  copyIn l (byteAscii (← idx ip 3))

/-- `if ip := value.To4(); ip != nil { dotted } else { l.appendIP6(value) }` (the shape shared by
    `IPSlice` and `IPArray`) -/
def ipAny (l : Line) (ip : Bytes) : Outcome Line :=
  match to4 ip with
  | some ip4 => dotted4 l ip4
  | none => appendIP6 l ip

def ipSlice (l : Line) (name : Bytes) (v : Option Bytes) : Outcome Line := do
  let l ← head l name
  match v with
  | none => copyIn l sNil
  | some ip => ipAny l ip

/-! ### IP (netip.Addr) – text produced by net/netip -/

/-- `appendDecimal` -/
def netipDecimal (x : UInt8) : Bytes :=
  (if x ≥ 100 then [UInt8.ofNat (48 + x.toNat / 100)] else []) ++
  (if x ≥ 10 then [UInt8.ofNat (48 + x.toNat / 10 % 10)] else []) ++
  [UInt8.ofNat (48 + x.toNat % 10)]

def netipDigit (n : Nat) : UInt8 := if n < 10 then UInt8.ofNat (48 + n) else UInt8.ofNat (87 + n)

/-- `appendHex` -/
def netipHex (x : Nat) : Bytes :=
  (if x ≥ 0x1000 then [netipDigit (x / 4096)] else []) ++
  (if x ≥ 0x100 then [netipDigit (x / 256 % 16)] else []) ++
  (if x ≥ 0x10 then [netipDigit (x / 16 % 16)] else []) ++
  [netipDigit (x % 16)]

/-- `appendTo4` -/
def netipText4 : Bytes → Bytes
  | [a, b, c, d] => netipDecimal a ++ [cDOT] ++ netipDecimal b ++ [cDOT] ++ netipDecimal c ++ [cDOT] ++ netipDecimal d
  | _ => []

/-- the 8 groups `v6u16(0..7)` of a 16-byte address -/
def groups16 : Bytes → List Nat
  | hi :: lo :: rest => (hi.toNat * 256 + lo.toNat) :: groups16 rest
  | _ => []

/-- `for j < 8 && ip.v6u16(j) == 0 { j++ }` on the remaining groups: number of leading zeros -/
def netipRun : List Nat → Nat
  | 0 :: t => netipRun t + 1
  | _ => 0

/-- first loop of `appendTo6`: `(zeroStart, zeroEnd)`, `(255,255)` when none; `g` = groups from `i` on -/
def netipZeros (g : List Nat) (i : Nat) (zs ze : Nat) : Nat × Nat :=
  match g with
  | [] => (zs, ze)
  | x :: t =>
    let l := netipRun (x :: t)
    if l ≥ 2 ∧ l > ze - zs then netipZeros t (i + 1) i (i + l) else netipZeros t (i + 1) zs ze

/-- second loop of `appendTo6`, `g` = groups from `i` on.  Go writes `"::"` at `i == zeroStart` and
    jumps with `i = zeroEnd`; here the fields `zeroStart ≤ i < zeroEnd` are skipped one by one and
    the field at `zeroEnd` gets no separator (the `"::"` was just written) -/
def netipLoop : List Nat → (i zs ze : Nat) → Bytes
  | [], _, _, _ => []
  | x :: t, i, zs, ze =>
    if i = zs then [cCOLON, cCOLON] ++ netipLoop t (i + 1) zs ze
    else if zs < i ∧ i < ze then netipLoop t (i + 1) zs ze
    else (if i > 0 ∧ i ≠ ze then [cCOLON] else []) ++ netipHex x ++ netipLoop t (i + 1) zs ze

/-- `Is4In6` -/
def is4In6 (a : Bytes) : Bool := a.length = 16 ∧ (a.take 10).all (· == 0) ∧ a[10]? = some 0xff ∧ a[11]? = some 0xff

/-- `netip.Addr.AppendTo(nil)` for a zone-less address given by its 4 or 16 bytes -/
def netipText (a : Bytes) : Bytes :=
  if a.length = 4 then netipText4 a
  else if is4In6 a then sMapped ++ netipText4 (a.drop 12)
  else
    let g := groups16 a
    let (zs, ze) := netipZeros g 0 255 255
    netipLoop g 0 zs ze

def ipF (l : Line) (name : Bytes) (a : Bytes) : Outcome Line := do
  let l ← head l name
  if a.length = 4 ∨ a.length = 16 then
    -- `b := value.AppendTo(l.buffer[l.index:l.index]); l.index += len(b)`
    if l.idx ≤ bufSize then
      let t := netipText a
      if l.idx + t.length ≤ bufSize then pure ⟨l.buf.splice l.idx t, l.idx + t.length⟩
      else pure ⟨l.buf, l.idx + t.length⟩
    else .panic
  else copyIn l sNil

/-! ### arrays -/

def stringArrayLoop (l : Line) : List Bytes → Outcome Line
  | [] => pure l
  | v :: rest =>
    if l.idx + v.length + 4 > bufSize then pure l
    else do
      let l ← appendByte l cQUOTE
      let l ← copyIn l v
      let l ← appendByte l cQUOTE
      let l ← appendByte l cCOMMA
      let l ← appendByte l cSP
      stringArrayLoop l rest

def stringArray (l : Line) (name : Bytes) (value : List Bytes) : Outcome Line :=
  if l.idx + name.length + 4 > bufSize then pure l
  else do
    let l ← head l name
    let l ← appendByte l cLB
    if value.length = 0 then appendByte l cRB
    else do
      let l ← stringArrayLoop l value
      let l ← decIdx l
      appendByte l cRB

/-- one element of `IPArray`: `if v != nil { if ip := v.To4(); ip != nil { … } else { l.appendIP6(v) } }` -/
def ipElem (l : Line) (v : Option Bytes) : Outcome Line :=
  match v with
  | none => pure l
  | some ip => ipAny l ip

def ipArrayLoop (l : Line) : List (Option Bytes) → Outcome Line
  | [] => pure l
  | v :: rest =>
    if l.idx + 39 + 2 > bufSize then pure l
    else do
      let l ← ipElem l v
      let l ← appendByte l cCOMMA
      let l ← appendByte l cSP
      ipArrayLoop l rest

def ipArray (l : Line) (name : Bytes) (value : List (Option Bytes)) : Outcome Line :=
  if l.idx + name.length + 4 > bufSize then pure l
  else do
    let l ← head l name
    let l ← appendByte l cLB
    if value.length = 0 then appendByte l cRB
    else do
      let l ← ipArrayLoop l value
      let l ← decIdx l
      appendByte l cRB

def byteArrayLoop (l : Line) : Bytes → Outcome Line
  | [] => pure l
  | v :: rest => do
    let l ← writeHex l v
    let l ← appendByte l cSP
    byteArrayLoop l rest

/-- the part of `ByteArray` after the truncation decision -/
def byteArrayBody (l : Line) (name value : Bytes) (truncated : Bool) : Outcome Line := do
  let l ← appendByte l cSP
  let l ← copyIn l name
  let l ← copyIn l sEqLB
  let l ← byteArrayLoop l value
  let l ← if value.length > 0 then decIdx l else pure l
  let l ← appendByte l cRB
  if truncated then pure ⟨l.buf, bufSize - 1⟩ else pure l

def byteArray (l : Line) (name value : Bytes) : Outcome Line :=
  let rem : Int := (bufSize : Int) - l.idx - 1 - name.length - 2
  if rem ≤ (value.length : Int) * 3 then
    if rem < 10 then pure l
    else do
      let (b, _) ← copyTo l.buf (bufSize - 10) bufSize sTruncated
      let k : Int := Int.tdiv (rem - 10) 3
      -- `value = value[:rem/3]`
      if k < 0 ∨ k > value.length then .panic
      else byteArrayBody ⟨b, l.idx⟩ name (value.take k.toNat) true
  else byteArrayBody l name value false

/-! ### Duration text (time.Duration.String) -/

/-- `fmtFrac`: prepends the fraction digits of `v` (precision `prec`, trailing zeros omitted,
    with the decimal point) to `acc`; returns the text and `v / 10^prec` -/
def fmtFrac (acc : Bytes) (v : Nat) (prec : Nat) (print : Bool) : Bytes × Nat :=
  match prec with
  | 0 => (if print then cDOT :: acc else acc, v)
  | p + 1 =>
    let digit := v % 10
    let print := print || digit != 0
    fmtFrac (if print then UInt8.ofNat (48 + digit) :: acc else acc) (v / 10) p print

/-- `time.Duration.format` for the magnitude `u` (nanoseconds), without the sign -/
def durationBody (u : Nat) : Bytes :=
  if u < 1000000000 then
    if u = 0 then [0x30, 0x73]
    else if u < 1000 then
      let (a, v) := fmtFrac [0x6e, 0x73] u 0 false
      peelDigits v a
    else if u < 1000000 then
      let (a, v) := fmtFrac [0xc2, 0xb5, 0x73] u 3 false
      peelDigits v a
    else
      let (a, v) := fmtFrac [0x6d, 0x73] u 6 false
      peelDigits v a
  else
    let (a, v) := fmtFrac [0x73] u 9 false
    let a := peelDigits (v % 60) a
    let m := v / 60
    if m > 0 then
      let a := peelDigits (m % 60) (0x6d :: a)
      let h := m / 60
      if h > 0 then peelDigits h (0x68 :: a) else a
    else a

/-- `time.Duration.String()` for `d` nanoseconds -/
def durationText (d : Int) : Bytes :=
  if d < 0 then 0x2d :: durationBody d.natAbs else durationBody d.natAbs

/-! ### dispatcher -/

def apply (l : Line) : Field → Outcome Line
  | .str n v => string l n v
  | .label n => label l n
  | .bool n v => boolF l n v
  | .int n v => intF l n v
  | .u8 n v => uint8 l n v
  | .u16 n v => uint16 l n v
  | .u32 n v => uint32 l n v
  | .x8 n v => uint8Hex l n v
  | .x16 n v => uint16Hex l n v
  | .mac n v => macF l n v
  | .ip n a => ipF l n a
  | .ipSlice n a => ipSlice l n a
  | .byteArray n v => byteArray l n v
  | .stringArray n v => stringArray l n v
  | .ipArray n v => ipArray l n v
  | .duration n d => nameText l n (durationText d)
  | .nameText n t => nameText l n t
  | .error t => errorF l t
  | .bytes n v => bytesF l n v
  | .stringer t => label l t
  | .module n m => moduleF l n m
  | .lf => appendByte l cLF
  | .printInt v => printInt l v
  | .writeHex v => writeHex l v
  | .writeHexNLZ v => writeHexNLZ l v
  | .appendIP6 ip => appendIP6 l ip
  | .appendByte v => appendByte l v
  | .newModule n m => newModule l n m

def applyAll (l : Line) : List Field → Outcome Line
  | [] => pure l
  | f :: fs => do
    let l ← apply l f
    applyAll l fs

/-! ### views: `FastLog` methods of package packet composed from the appenders -/

def nMac : Bytes := [0x6d, 0x61, 0x63]
def nIp : Bytes := [0x69, 0x70]
def nPort : Bytes := [0x70, 0x6f, 0x72, 0x74]

/-- `Addr.FastLog` (addr.go:27-34): `MAC("mac")`, `IP("ip")`, `Uint16("port")` when non-zero -/
def addrFields (mac ip : Bytes) (port : UInt16) : List Field :=
  [.mac nMac mac, .ip nIp ip] ++ (if port != 0 then [.u16 nPort port] else [])

/-- `binary.BigEndian.Uint16(b[lo:lo+2])` -/
def be16At (b : Bytes) (lo : Nat) : Outcome UInt16 := do
  let s ← slice b lo (lo + 2)
  let x ← idx s 0
  let y ← idx s 1
  pure ((x.toUInt16 <<< 8) ||| y.toUInt16)

/-- `ARP.FastLog` (layer_arp.go:56-63) -/
def arpFields (b : Bytes) : Outcome (List Field) := do
  let op ← be16At b 6
  let smac ← slice b 8 14
  let sip ← slice b 14 18
  let dmac ← slice b 18 24
  let dip ← slice b 24 28
  pure [.u16 [0x6f, 0x70, 0x65, 0x72, 0x61, 0x74, 0x69, 0x6f, 0x6e] op,
        .mac [0x73, 0x72, 0x63, 0x4d, 0x41, 0x43] smac, .ip [0x73, 0x72, 0x63, 0x49, 0x50] sip,
        .mac [0x64, 0x73, 0x74, 0x4d, 0x41, 0x43] dmac, .ip [0x64, 0x73, 0x74, 0x49, 0x50] dip]

/-- `IP4.FastLog` (layer_ip4.go:51-64); the accessors are read in the order the method calls them -/
def ip4Fields (p : Bytes) : Outcome (List Field) := do
  let b0 ← idx p 0
  let src ← slice p 12 16
  let dst ← slice p 16 20
  let proto ← idx p 9
  let ttl ← idx p 8
  let tos ← idx p 1
  let b6 ← idx p 6
  let b7 ← idx p 7
  -- `Fragment()` (after fix 3284261): `((uint16(p[6]) & 0b00011111) << 8) | uint16(p[7])`
  let frag : UInt16 := ((b6.toUInt16 &&& 0x1f) <<< 8) ||| b7.toUInt16
  let tl ← be16At p 2
  pure ([.int [0x76, 0x65, 0x72, 0x73, 0x69, 0x6f, 0x6e] (b0 >>> 4).toNat,
         .ip [0x73, 0x72, 0x63] src, .ip [0x64, 0x73, 0x74] dst,
         .u8 [0x70, 0x72, 0x6f, 0x74, 0x6f] proto,
         .int [0x74, 0x74, 0x6c] ttl.toNat, .int [0x74, 0x6f, 0x73] tos.toNat,
         .x8 [0x66, 0x6c, 0x61, 0x67, 0x73] (b6 &&& 0xe0)] ++
        (if frag != 0 then [.int [0x66, 0x72, 0x61, 0x67, 0x6d, 0x65, 0x6e, 0x74] frag.toNat] else []) ++
        [.int [0x74, 0x6f, 0x74, 0x61, 0x6c, 0x6c, 0x65, 0x6e] tl.toNat])

end PV.Model.Fastlog
