/-
  Primitives for the regenerated DNS decoder (Gen/LoopsDns.lean, written by tools/goextract/loops_dns.go), on top of
  Model/LoopGo.lean: big-endian reads of `encoding/binary`, Go maps as optional association lists (nil map = `none`;
  a store into a nil map panics, a store to a present key overwrites in place, to an absent key appends), and the
  small standard-library functions on the decoder's path that are modelled rather than translated
  (`strings.TrimSuffix`, `net.IP.To4`, `netip.AddrFromSlice`).  They join the trusted base of the DNS ties.
-/
import PacketVerif.Model.LoopGo
namespace PV.Model.LoopGoDns
open PV PV.Model.LoopGo

/-- `binary.BigEndian.Uint16(b)`: panics when `len(b) < 2` -/
def beU16 (b : Bytes) : Outcome UInt16 :=
  match b with
  | hi :: lo :: _ => .ok ((hi.toUInt16 <<< 8) ||| lo.toUInt16)
  | _ => .panic

/-- `binary.BigEndian.Uint32(b)`: panics when `len(b) < 4` -/
def beU32 (b : Bytes) : Outcome UInt32 :=
  match b with
  | a :: b :: c :: d :: _ =>
    .ok ((a.toUInt32 <<< 24) ||| (b.toUInt32 <<< 16) ||| (c.toUInt32 <<< 8) ||| d.toUInt32)
  | _ => .panic

/-- `binary.BigEndian.PutUint16(b, v)` on a slice value `b` (the caller stores the result back): panics when `len(b) < 2` -/
def putU16 (b : Bytes) (v : UInt16) : Outcome Bytes :=
  match b with
  | _ :: _ :: rest => .ok ((v >>> 8).toUInt8 :: v.toUInt8 :: rest)
  | _ => .panic

/-- a Go map: `none` = nil map, `some l` = the entries in insertion order -/
abbrev GMap (κ ν : Type) := Option (List (κ × ν))

/-- `_, found := m[k]` (reading a nil map finds nothing) -/
def mapHas {κ ν} [DecidableEq κ] (m : GMap κ ν) (k : κ) : Bool :=
  match m with
  | none => false
  | some l => l.any (fun kv => kv.1 = k)

/-- `m[k]` as an optional value -/
def mapGet? {κ ν} [DecidableEq κ] (m : GMap κ ν) (k : κ) : Option ν :=
  match m with
  | none => none
  | some l => (l.find? (fun kv => kv.1 = k)).map (·.2)

/-- `m[k] = v`: panics on a nil map; an existing key is overwritten, a new key is appended -/
def mapSet {κ ν} [DecidableEq κ] (m : GMap κ ν) (k : κ) (v : ν) : Outcome (GMap κ ν) :=
  match m with
  | none => .panic
  | some l =>
    if l.any (fun kv => kv.1 = k) then .ok (some (l.map (fun kv => if kv.1 = k then (k, v) else kv)))
    else .ok (some (l ++ [(k, v)]))

/-- `make(map[K]V)` -/
def mapMake {κ ν} : GMap κ ν := some []

/-- `strings.HasSuffix` -/
def hasSuffix (s suf : Bytes) : Bool := suf.length ≤ s.length && s.drop (s.length - suf.length) == suf

/-- `strings.TrimSuffix(s, suf)` -/
def trimSuffix (s suf : Bytes) : Bytes := if hasSuffix s suf then s.take (s.length - suf.length) else s

/-- `netip.Addr` as its bytes: 4 = IPv4, 16 = IPv6, `[]` = the zero Addr (the view of Model/Netip.lean) -/
abbrev GAddr := Bytes

/-- `netip.AddrFromSlice(b)`: an address for 4 and 16 byte slices, the zero Addr and `false` otherwise -/
def addrFromSlice (b : Bytes) : GAddr × Bool :=
  if b.length = 4 ∨ b.length = 16 then (b, true) else ([], false)

/-- the 12-byte prefix of an IPv4-mapped IPv6 address -/
def v4InV6Prefix : Bytes := [0, 0, 0, 0, 0, 0, 0, 0, 0, 0, 0xff, 0xff]

/-- `net.IP.To4()`: a 4-byte slice is returned as is, a 16-byte IPv4-mapped address gives its last four bytes,
    anything else gives nil -/
def ipTo4 (ip : Bytes) : Bytes :=
  if ip.length = 4 then ip
  else if ip.length = 16 ∧ ip.take 12 = v4InV6Prefix then ip.drop 12
  else []

/-! #### a pointer receiver whose state survives an error return

`OutcomeS σ α` is a computation of the generated code over a pointer receiver `*σ`: it is given the state the receiver
points to and returns the state it leaves there **next to** the outcome — also when the outcome is an error or a panic
(Go mutates through the pointer; what was stored before a `return …, err` stays stored).  The generated body keeps the
receiver in a local (`e`) as before and writes it through (`putRecv e`) at every store; `Outcome` computations are lifted
(they do not touch the receiver). -/

def OutcomeS (σ α : Type) : Type := σ → σ × Outcome α

namespace OutcomeS
variable {σ α β : Type}

@[inline] def bind (x : OutcomeS σ α) (f : α → OutcomeS σ β) : OutcomeS σ β := fun s =>
  match x s with
  | (s', .ok a) => f a s'
  | (s', .err e) => (s', .err e)
  | (s', .panic) => (s', .panic)
  | (s', .hang) => (s', .hang)

instance : Monad (OutcomeS σ) where
  pure a := fun s => (s, .ok a)
  bind := OutcomeS.bind

/-- an `Outcome` computation leaves the receiver alone -/
@[inline] def lift (o : Outcome α) : OutcomeS σ α := fun s => (s, o)

instance : MonadLift Outcome (OutcomeS σ) where
  monadLift := OutcomeS.lift

/-- fuel exhausted -/
def hang : OutcomeS σ α := lift .hang

/-- run on the receiver's state -/
@[inline] def run (x : OutcomeS σ α) (s : σ) : σ × Outcome α := x s

@[simp] theorem run_pure (a : α) (s : σ) : (pure a : OutcomeS σ α).run s = (s, .ok a) := rfl
@[simp] theorem run_lift (o : Outcome α) (s : σ) : (lift o : OutcomeS σ α).run s = (s, o) := rfl
@[simp] theorem run_monadLift (o : Outcome α) (s : σ) : (monadLift o : OutcomeS σ α).run s = (s, o) := rfl
@[simp] theorem run_liftM (o : Outcome α) (s : σ) : (liftM o : OutcomeS σ α).run s = (s, o) := rfl
@[simp] theorem run_hang (s : σ) : (hang : OutcomeS σ α).run s = (s, .hang) := rfl
theorem run_bind (x : OutcomeS σ α) (f : α → OutcomeS σ β) (s : σ) :
    (x >>= f).run s = match x.run s with
      | (s', .ok a) => (f a).run s'
      | (s', .err e) => (s', .err e)
      | (s', .panic) => (s', .panic)
      | (s', .hang) => (s', .hang) := rfl
@[simp] theorem run_bind_lift (o : Outcome α) (f : α → OutcomeS σ β) (s : σ) :
    ((monadLift o : OutcomeS σ α) >>= f).run s = match o with
      | .ok a => (f a).run s
      | .err e => (s, .err e)
      | .panic => (s, .panic)
      | .hang => (s, .hang) := by
  cases o <;> rfl
end OutcomeS

/-- the store through the pointer receiver: `*e = s` -/
@[inline] def putRecv {σ : Type} (s : σ) : OutcomeS σ Unit := fun _ => (s, .ok ())

@[simp] theorem OutcomeS.run_bind_putRecv {σ β : Type} (s' : σ) (f : Unit → OutcomeS σ β) (s : σ) :
    (putRecv s' >>= f).run s = (f ()).run s' := rfl

/-! #### handler glue (Gen/LoopsNaming.lean) -/

/-- `v := m[k]` (the zero value `d` when absent) -/
def mapGetD {κ ν : Type} [DecidableEq κ] (m : GMap κ ν) (k : κ) (d : ν) : ν := (mapGet? m k).getD d

/-- the value stored under `k`, if any, replaced by `f` of it (keys and order unchanged) -/
def mapAdjust {κ ν : Type} [DecidableEq κ] (m : GMap κ ν) (k : κ) (f : ν → ν) : GMap κ ν :=
  m.map (fun l => l.map (fun kv => if kv.1 = k then (kv.1, f kv.2) else kv))

/-- the receiver as it is now -/
@[inline] def getRecv {σ : Type} : OutcomeS σ σ := fun s => (s, .ok s)

/-- a pointer-receiver method `x` run on a LOCAL struct `e` inside a computation over the receiver `σ`: the local's final
    state `e'` — also when the method fails — is handed to `wb`, which writes it to wherever the local's reference
    fields are shared (the identity when they are not); the results are the local's final state and the method's -/
def onLocal {σ τ α : Type} (e : τ) (wb : τ → σ → σ) (x : OutcomeS τ α) : OutcomeS σ (τ × α) := fun s =>
  match x e with
  | (e', .ok a) => (wb e' s, .ok (e', a))
  | (e', .err er) => (wb e' s, .err er)
  | (e', .panic) => (wb e' s, .panic)
  | (e', .hang) => (wb e' s, .hang)

end PV.Model.LoopGoDns
