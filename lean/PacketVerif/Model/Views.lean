/-
  Model of the zero-copy *view types* of package packet (`type X []byte` + `IsValid` + getters):
  Ether, IP4, IP6, UDP, TCP, ARP, ICMP, ICMPEcho, ICMP4Redirect, ICMP6 RS/RA/NA/NS/Redirect,
  DHCP4, DNS, LLC, SNAP, RRCP, LLDP, IEEE1905, EthernetPause, HopByHopExtensionHeader.

  A view is modelled by the bytes within its length (`cap = len`, the tight case in which every
  out-of-range access of the Go code panics).  Getters are *data*:
    * regular getters are entries of a table built from a tiny expression language (`NE`, `G`)
      whose bounds requirement `need` is computed structurally, so it cannot be mis-stated;
    * irregular getters (data-dependent bounds) are functions returning `Outcome Val`.
  `Val.span off len` means "the sub-slice view[off : off+len]" – aliasing is part of the value.
-/
import PacketVerif.Basic
import PacketVerif.Model.Netip
namespace PV.Model

/-- value returned by a getter, in the canonical form compared with the implementation -/
inductive Val where
  | n (v : Nat)
  | b (v : Bool)
  | span (off len : Nat)      -- aliases view[off : off+len]
  | spanCap (off : Nat)       -- aliases view[off : cap]  (only `Ether.Payload` on an empty payload)
  | nil                       -- nil slice
  | copy (bs : Bytes)         -- freshly allocated / non-aliasing bytes
  | ip (bs : Bytes)           -- netip.Addr by value
  | s (str : String)
  | spans (l : List (Nat × Nat))
  deriving DecidableEq, Repr

def Val.toString : Val → String
  | .n v => s!"n {v}"
  | .b v => s!"b {v}"
  | .span o l => s!"span {o} {l}"
  | .spanCap o => s!"span {o} 0"   -- in the tight case (cap = len) p[n:cap] is the empty slice at n
  | .nil => "nil"
  | .copy bs => s!"copy {toHex bs}"
  | .ip bs => s!"ip {toHex bs}"
  | .s str => s!"s {str}"
  | .spans l => "spans " ++ ",".intercalate (l.map fun (o, k) => s!"{o}:{k}")

/-- the value stays inside a view of `len` bytes -/
def Val.inside (len : Nat) : Val → Prop
  | .span o l => o + l ≤ len
  | .spanCap o => o ≤ len
  | .spans l => ∀ p ∈ l, p.1 + p.2 ≤ len
  | _ => True

/-! ### numeric expressions over the bytes of a view -/
inductive NE where
  | byte (k : Nat)
  | const (n : Nat)
  | and (a b : NE)
  | or (a b : NE)
  | shl (a : NE) (n : Nat)
  | shr (a : NE) (n : Nat)
  | add (a b : NE)
  | mul (a b : NE)
  deriving Repr, DecidableEq

def NE.need : NE → Nat
  | .byte k => k + 1
  | .const _ => 0
  | .and a b | .or a b | .add a b | .mul a b => max a.need b.need
  | .shl a _ | .shr a _ => a.need

def NE.eval (p : Bytes) : NE → Outcome Nat
  | .byte k => do let v ← idx p k; pure v.toNat
  | .const n => pure n
  | .and a b => do let x ← a.eval p; let y ← b.eval p; pure (x &&& y)
  | .or a b => do let x ← a.eval p; let y ← b.eval p; pure (x ||| y)
  | .shl a n => do let x ← a.eval p; pure (x <<< n)
  | .shr a n => do let x ← a.eval p; pure (x >>> n)
  | .add a b => do let x ← a.eval p; let y ← b.eval p; pure (x + y)
  | .mul a b => do let x ← a.eval p; let y ← b.eval p; pure (x * y)

/-- `binary.BigEndian.Uint16(p[k:k+2])` / `Uint32` -/
def NE.be16 (k : Nat) : NE := .or (.shl (.byte k) 8) (.byte (k+1))
def NE.be32 (k : Nat) : NE :=
  .or (.or (.or (.shl (.byte k) 24) (.shl (.byte (k+1)) 16)) (.shl (.byte (k+2)) 8)) (.byte (k+3))

/-- regular getter shapes -/
inductive G where
  | num (e : NE)                 -- integer-valued getter
  | flag (e : NE)                -- `e != 0`
  | eq (e : NE) (c : Nat)        -- `e == c`
  | span (lo hi : Nat)           -- p[lo:hi]
  | tail (lo : Nat)              -- p[lo:]
  | ip (k len : Nat)             -- netip.AddrFromN(p[k:k+len])
  deriving Repr, DecidableEq

def G.need : G → Nat
  | .num e | .flag e | .eq e _ => e.need
  | .span _ hi => hi
  | .tail lo => lo
  | .ip k len => k + len

def G.eval (p : Bytes) : G → Outcome Val
  | .num e => do let v ← e.eval p; pure (.n v)
  | .flag e => do let v ← e.eval p; pure (.b (v != 0))
  | .eq e c => do let v ← e.eval p; pure (.b (v == c))
  | .span lo hi => if lo ≤ hi ∧ hi ≤ p.length then .ok (.span lo (hi - lo)) else .panic
  | .tail lo => if lo ≤ p.length then .ok (.span lo (p.length - lo)) else .panic
  | .ip k len => do let s ← slice p k (k + len); pure (.ip s)

/-- well-formed table entry: spans are ordered -/
def G.wf : G → Bool
  | .span lo hi => decide (lo ≤ hi)
  | _ => true

/-! ### the views -/

structure View where
  name : String
  valid : Bytes → Outcome Unit
  minLen : Nat                                   -- length guaranteed by `valid = ok`
  fixed : List (String × G)                      -- regular getters
  dyn : List (String × (Bytes → Outcome Val))    -- irregular getters

def byteN (p : Bytes) (k : Nat) : Outcome Nat := do let v ← idx p k; pure v.toNat
def be16At (p : Bytes) (k : Nat) : Outcome Nat := do
  let a ← idx p k; let b ← idx p (k+1); pure (be16 a b)

def lenAtLeast (p : Bytes) (n : Nat) (e : Err := .frameLen) : Outcome Unit :=
  if p.length ≥ n then .ok () else .err e

/-! #### Ether (layer_ethernet.go) -/
def etherHeaderLenOf (et : Nat) : Nat :=
  if et == 0x8100 then 18 else if et == 0x88a8 then 22 else 14

def etherHeaderLen (p : Bytes) : Outcome Nat := do
  let et ← be16At p 12; pure (etherHeaderLenOf et)

/-- `Ether.IsValid` (after fix f4f36dc: the VLAN-extended header must fit) -/
def etherValid (p : Bytes) : Outcome Unit :=
  if p.length ≥ 14 then do
    let n ← etherHeaderLen p
    if p.length ≥ n then .ok () else .err .frameLen
  else .err .frameLen

/-- `Ether.Payload()`: p[n:] | p[n:cap] when len == n | nil -/
def etherPayload (p : Bytes) : Outcome Val := do
  let n ← etherHeaderLen p
  if p.length > n then pure (.span n (p.length - n))
  else if p.length == n then pure (.spanCap n)
  else pure .nil

/-- `Ether.SrcIP()/DstIP()` (after fix: length-checked) ; `off` = 12 / 16 for v4, 8 / 24 for v6 -/
def etherIP (o4 o6 : Nat) (p : Bytes) : Outcome Val := do
  let et ← be16At p 12
  if et == 0x0800 then
    if p.length ≥ 14 + 20 then do let s ← slice p (14 + o4) (14 + o4 + 4); pure (.ip s) else pure (.ip [])
  else if et == 0x86dd then
    if p.length ≥ 14 + 40 then do let s ← slice p (14 + o6) (14 + o6 + 16); pure (.ip s) else pure (.ip [])
  else pure (.ip [])

def vEther : View := {
  name := "Ether", valid := etherValid, minLen := 14,
  fixed := [("Dst", .span 0 6), ("Src", .span 6 12), ("EtherType", .num (.be16 12))],
  dyn := [("HeaderLen", fun p => do let n ← etherHeaderLen p; pure (.n n)),
          ("Payload", etherPayload), ("SrcIP", etherIP 12 8), ("DstIP", etherIP 16 24)] }

/-! #### IP4 (layer_ip4.go) -/
def ip4IHL (p : Bytes) : Outcome Nat := do let b ← byteN p 0; pure ((b &&& 0x0f) <<< 2)
def ip4TotalLen (p : Bytes) : Outcome Nat := be16At p 2

/-- `IP4.IsValid` (after fix 3db3fa4) -/
def ip4Valid (p : Bytes) : Outcome Unit :=
  if p.length ≥ 20 then do
    let ihl ← ip4IHL p
    let tl ← ip4TotalLen p
    if ihl ≥ 20 ∧ p.length ≥ ihl ∧ p.length ≥ tl ∧ tl ≥ ihl then .ok () else .err .frameLen
  else .err .frameLen

def ip4Payload (p : Bytes) : Outcome Val := do
  let ihl ← ip4IHL p
  let tl ← ip4TotalLen p
  if ihl ≤ tl ∧ tl ≤ p.length then pure (.span ihl (tl - ihl)) else .panic

def vIP4 : View := {
  name := "IP4", valid := ip4Valid, minLen := 20,
  fixed := [
    ("IHL", .num (.shl (.and (.byte 0) (.const 0x0f)) 2)),
    ("Version", .num (.shr (.byte 0) 4)),
    ("Protocol", .num (.byte 9)),
    ("TOS", .num (.byte 1)),
    ("ID", .num (.be16 4)),
    ("Flags", .num (.and (.byte 6) (.const 0xe0))),
    ("FlagDontFragment", .flag (.and (.byte 6) (.const 0x40))),
    ("FlagMoreFragments", .flag (.and (.byte 6) (.const 0x20))),
    ("Fragment", .num (.or (.shl (.and (.byte 6) (.const 0x1f)) 8) (.byte 7))),
    ("TTL", .num (.byte 8)),
    ("Checksum", .num (.be16 10)),
    ("Src", .ip 12 4), ("Dst", .ip 16 4),
    ("TotalLen", .num (.be16 2))],
  dyn := [("Payload", ip4Payload)] }

/-! #### UDP, TCP -/
def vUDP : View := {
  name := "UDP", valid := fun p => lenAtLeast p 8, minLen := 8,
  fixed := [("SrcPort", .num (.be16 0)), ("DstPort", .num (.be16 2)), ("Len", .num (.be16 4)),
            ("Checksum", .num (.be16 6)), ("Payload", .tail 8), ("HeaderLen", .num (.const 8))],
  dyn := [] }

def tcpHeaderLen (p : Bytes) : Outcome Nat := do let b ← byteN p 12; pure ((b >>> 4) * 4)

/-- `TCP.IsValid` (after fix fa10a3f) -/
def tcpValid (p : Bytes) : Outcome Unit :=
  if p.length ≥ 20 then do
    let h ← tcpHeaderLen p
    if h ≥ 20 ∧ p.length ≥ h then .ok () else .err .frameLen
  else .err .frameLen

def tcpPayload (p : Bytes) : Outcome Val := do
  let h ← tcpHeaderLen p
  if h ≤ p.length then pure (.span h (p.length - h)) else .panic

def vTCP : View := {
  name := "TCP", valid := tcpValid, minLen := 20,
  fixed := [("SrcPort", .num (.be16 0)), ("DstPort", .num (.be16 2)), ("Seq", .num (.be32 4)),
            ("Ack", .num (.be32 8)), ("HeaderLen", .num (.mul (.shr (.byte 12) 4) (.const 4))),
            ("NS", .flag (.and (.byte 12) (.const 0x01))),
            ("FIN", .flag (.and (.byte 13) (.const 0x01))), ("SYN", .flag (.and (.byte 13) (.const 0x02))),
            ("RST", .flag (.and (.byte 13) (.const 0x04))), ("PSH", .flag (.and (.byte 13) (.const 0x08))),
            ("ACK", .flag (.and (.byte 13) (.const 0x10))), ("URG", .flag (.and (.byte 13) (.const 0x20))),
            ("ECE", .flag (.and (.byte 13) (.const 0x40))), ("CWR", .flag (.and (.byte 13) (.const 0x80))),
            ("Window", .num (.be16 14)), ("Checksum", .num (.be16 16)), ("Urgent", .num (.be16 18))],
  dyn := [("Payload", tcpPayload)] }

/-! #### IP6 -/
def ip6Valid (p : Bytes) : Outcome Unit :=
  if p.length ≥ 40 then do
    let pl ← be16At p 4
    if pl + 40 == p.length then .ok () else .err .frameLen
  else .err .frameLen

def vIP6 : View := {
  name := "IP6", valid := ip6Valid, minLen := 40,
  fixed := [("Version", .num (.shr (.byte 0) 4)),
            ("TrafficClass", .num (.or (.shl (.and (.byte 0) (.const 0x0f)) 4) (.shr (.byte 1) 4))),
            ("FlowLabel", .num (.or (.or (.shl (.and (.byte 1) (.const 0x0f)) 16) (.shl (.byte 2) 8)) (.byte 3))),
            ("PayloadLen", .num (.be16 4)), ("NextHeader", .num (.byte 6)), ("HopLimit", .num (.byte 7)),
            ("Src", .ip 8 16), ("Dst", .ip 24 16), ("Payload", .tail 40), ("HeaderLen", .num (.const 40))],
  dyn := [] }

/-! #### ARP -/
def arpValid (p : Bytes) : Outcome Unit :=
  if p.length < 28 then .err .frameLen else do
    let ht ← be16At p 0
    if ht != 1 then .err .parseFrame else do
    let pr ← be16At p 2
    if pr != 0x0800 then .err .parseProtocol else do
    let hl ← byteN p 4
    if hl != 6 then .err .invalidLen else do
    let pl ← byteN p 5
    if pl != 4 then .err .invalidLen else .ok ()

def vARP : View := {
  name := "ARP", valid := arpValid, minLen := 28,
  fixed := [("HType", .num (.be16 0)), ("Proto", .num (.be16 2)), ("HLen", .num (.byte 4)), ("PLen", .num (.byte 5)),
            ("Operation", .num (.be16 6)), ("SrcMAC", .span 8 14), ("SrcIP", .ip 14 4),
            ("DstMAC", .span 18 24), ("DstIP", .ip 24 4)],
  dyn := [] }

/-! #### ICMP family (layer_icmp.go) -/
def icmpPayload (p : Bytes) : Outcome Val :=
  if p.length > 8 then pure (.span 8 (p.length - 8)) else pure (.copy [])

def vICMP : View := {
  name := "ICMP", valid := fun p => lenAtLeast p 8, minLen := 8,
  fixed := [("Type", .num (.byte 0)), ("Code", .num (.byte 1)), ("Checksum", .num (.be16 2)),
            ("RestOfHeader", .span 4 8)],
  dyn := [("Payload", icmpPayload)] }

def echoData (p : Bytes) : Outcome Val :=
  if p.length > 8 then pure (.span 8 (p.length - 8)) else pure .nil

def vICMPEcho : View := {
  name := "ICMPEcho", valid := fun p => lenAtLeast p 8, minLen := 8,
  fixed := [("Type", .num (.byte 0)), ("Code", .num (.byte 1)), ("Checksum", .num (.be16 2)),
            ("EchoID", .num (.be16 4)), ("EchoSeq", .num (.be16 6))],
  dyn := [("EchoData", echoData)] }

def redirValid (p : Bytes) : Outcome Unit :=
  if p.length < 8 then .err .frameLen else do
    let n ← byteN p 4; let sz ← byteN p 5
    if p.length < 8 + n * sz * 4 then .err .frameLen else do
    let t ← byteN p 0
    if t != 137 then .err .parseFrame
    else if sz != 4 ∧ sz != 10 then .err .parseFrame else .ok ()

/-- `ICMP4Redirect.Addrs()` as it is: entries start at `i*size*4` (the 8-byte header is not skipped –
    a position defect recorded under C02, harmless for memory safety) -/
def redirAddrs (p : Bytes) : Outcome Val := do
  let n ← byteN p 4; let sz ← byteN p 5
  let rec go (i : Nat) (fuel : Nat) (acc : List (Nat × Nat)) : Outcome (List (Nat × Nat)) :=
    match fuel with
    | 0 => pure acc.reverse
    | fuel + 1 =>
      let pos := i * sz * 4
      let w := if sz == 4 then 4 else 16
      if pos + w ≤ p.length then go (i + 1) fuel ((pos, w) :: acc) else .panic
  let l ← go 0 n []
  pure (.spans l)

def vICMP4Redirect : View := {
  name := "ICMP4Redirect", valid := redirValid, minLen := 8,
  fixed := [("Type", .num (.byte 0)), ("Code", .num (.byte 1)), ("Checksum", .num (.be16 2)),
            ("NumAddrs", .num (.byte 4)), ("AddrSize", .num (.byte 5)), ("Lifetime", .num (.be16 6))],
  dyn := [("Addrs", redirAddrs)] }

def rsValid (p : Bytes) : Outcome Unit :=
  if p.length < 8 then .err .frameLen else do
    let t ← byteN p 0
    if t != 133 then .err .parseFrame else .ok ()

def optLLA (minLen tOff t l lo hi : Nat) (p : Bytes) : Outcome Val :=
  if p.length ≥ minLen then do
    let a ← byteN p tOff; let b ← byteN p (tOff + 1)
    if a == t ∧ b == l then do let _ ← slice p lo hi; pure (.span lo (hi - lo)) else pure .nil
  else pure .nil

def vRS : View := {
  name := "ICMP6RouterSolicitation", valid := rsValid, minLen := 8,
  fixed := [("Type", .num (.byte 0)), ("Code", .num (.byte 1)), ("Checksum", .num (.be16 2))],
  dyn := [("SourceLLA", optLLA 26 8 1 3 10 26)] }

def vRA : View := {
  name := "ICMP6RouterAdvertisement", valid := fun p => lenAtLeast p 16, minLen := 16,
  fixed := [("Type", .num (.byte 0)), ("Code", .num (.byte 1)), ("Checksum", .num (.be16 2)),
            ("CurrentHopLimit", .num (.byte 4)),
            ("ManagedConfiguration", .flag (.and (.byte 5) (.const 0x80))),
            ("OtherConfiguration", .flag (.and (.byte 5) (.const 0x40))),
            ("HomeAgent", .flag (.and (.byte 5) (.const 0x20))),
            ("Preference", .num (.shr (.and (.byte 5) (.const 0x18)) 3)),
            ("ProxyFlag", .flag (.and (.byte 5) (.const 0x04))),
            ("Flags", .num (.byte 5)), ("Lifetime", .num (.be16 6)),
            ("ReachableTime", .num (.be32 8)), ("RetransmitTimer", .num (.be32 12))],
  dyn := [] }

def vNA : View := {
  name := "ICMP6NeighborAdvertisement", valid := fun p => lenAtLeast p 24, minLen := 24,
  fixed := [("Type", .num (.byte 0)), ("Code", .num (.byte 1)), ("Checksum", .num (.be16 2)),
            ("Router", .flag (.and (.byte 4) (.const 0x80))), ("Solicited", .flag (.and (.byte 4) (.const 0x40))),
            ("Override", .flag (.and (.byte 4) (.const 0x20))), ("TargetAddress", .ip 8 16)],
  dyn := [("TargetLLA", optLLA 32 24 2 1 26 32)] }

def vNS : View := {
  name := "ICMP6NeighborSolicitation", valid := fun p => lenAtLeast p 24, minLen := 24,
  fixed := [("Type", .num (.byte 0)), ("Code", .num (.byte 1)), ("Checksum", .num (.be16 2)),
            ("TargetAddress", .ip 8 16)],
  dyn := [("SourceLLA", optLLA 32 24 1 1 26 32)] }

def vRedirect6 : View := {
  name := "ICMP6Redirect", valid := fun p => lenAtLeast p 40, minLen := 40,
  fixed := [("Type", .num (.byte 0)), ("Code", .num (.byte 1)), ("Checksum", .num (.be16 2)),
            ("TargetAddress", .span 8 24), ("DstAddress", .span 24 40)],
  dyn := [("TargetLinkLayerAddr", optLLA 48 40 2 1 42 48)] }

/-! #### DHCP4 (layer_dhcp4.go) -/

/-- `DHCP4.validateOptions` on the option area (`len(p) > 240 ? p[240:] : nil`) -/
def dhcpValidateOpts : (fuel : Nat) → Bytes → Outcome Unit
  | 0, _ => .ok ()
  | fuel + 1, opts =>
    match opts with
    | c :: rest@(sz :: rest2) =>
      if c == 255 then .ok ()
      else if c == 0 then dhcpValidateOpts fuel rest
      else if opts.length < 2 + sz.toNat then .err .parseFrame
      else dhcpValidateOpts fuel (rest2.drop sz.toNat)
    | _ => .ok ()

def dhcpValid (p : Bytes) : Outcome Unit :=
  if p.length < 240 then .err .frameLen else do
    let op ← byteN p 0
    if op != 1 ∧ op != 2 then .err .parseFrame else do
    let hl ← byteN p 2
    if hl != 6 then .err .invalidMAC else
    let opts := p.drop 240
    if opts.length < 2 then .err .parseFrame else dhcpValidateOpts opts.length opts

/-- `trimNull(p[lo:hi])` : prefix up to the first NUL -/
def trimNullSpan (lo hi : Nat) (p : Bytes) : Outcome Val := do
  let s ← slice p lo hi
  pure (.span lo (s.takeWhile (· != 0)).length)

def dhcpOptions (p : Bytes) : Outcome Val :=
  if p.length > 240 then pure (.span 240 (p.length - 240)) else pure .nil

def vDHCP4 : View := {
  name := "DHCP4", valid := dhcpValid, minLen := 240,
  fixed := [("OpCode", .num (.byte 0)), ("HType", .num (.byte 1)), ("HLen", .num (.byte 2)), ("Hops", .num (.byte 3)),
            ("XId", .span 4 8), ("Secs", .num (.be16 8)), ("Flags", .num (.be16 10)),
            ("CIAddr", .ip 12 4), ("YIAddr", .ip 16 4), ("SIAddr", .ip 20 4), ("GIAddr", .ip 24 4),
            ("CHAddr", .span 28 34), ("Cookie", .span 236 240),
            ("Broadcast", .eq (.and (.be16 10) (.const 0x8000)) 0x8000)],
  dyn := [("SName", trimNullSpan 44 108), ("File", trimNullSpan 108 236), ("Options", dhcpOptions)] }

/-! #### DNS header (layer_dns.go) -/
def vDNS : View := {
  name := "DNS", valid := fun p => lenAtLeast p 12, minLen := 12,
  fixed := [("TransactionID", .num (.be16 0)), ("QR", .flag (.and (.byte 2) (.const 0x80))),
            ("OpCode", .num (.and (.shr (.byte 2) 3) (.const 0x0f))),
            ("AA", .flag (.and (.byte 2) (.const 0x04))), ("TC", .flag (.and (.byte 2) (.const 0x02))),
            ("RD", .flag (.and (.byte 2) (.const 0x01))), ("RA", .flag (.and (.byte 3) (.const 0x80))),
            ("Z", .num (.and (.shr (.byte 3) 4) (.const 0x07))), ("ResponseCode", .num (.and (.byte 3) (.const 0x0f))),
            ("QDCount", .num (.be16 4)), ("ANCount", .num (.be16 6)), ("NSCount", .num (.be16 8)),
            ("ARCount", .num (.be16 10))],
  dyn := [] }

/-! #### 802.3 LLC / SNAP (layer_802_3.go) -/
def llcType (p : Bytes) : Outcome String := do
  let d ← byteN p 0; let s ← byteN p 1; let c ← byteN p 2
  if c == 0x03 ∧ d == 0xaa ∧ s == 0xaa then pure "snap"
  else if c &&& 0x3 == 0x03 then pure "u"
  else if c &&& 0x01 == 0x01 then pure "s"
  else pure "i"

/-- `LLC.IsValid` (after fix b433e2b) -/
def llcValid (p : Bytes) : Outcome Unit :=
  if p.length < 3 then .err .frameLen else do
    let t ← llcType p
    if t != "u" ∧ p.length < 4 then .err .frameLen else .ok ()

def llcPayload (p : Bytes) : Outcome Val := do
  let t ← llcType p
  if t == "u" then (if 3 ≤ p.length then pure (.span 3 (p.length - 3)) else .panic)
  else (if 4 ≤ p.length then pure (.span 4 (p.length - 4)) else .panic)

def vLLC : View := {
  name := "LLC", valid := llcValid, minLen := 3,
  fixed := [("DSAP", .num (.byte 0)), ("SSAP", .num (.byte 1)), ("Control", .num (.byte 2))],
  dyn := [("Type", fun p => do let t ← llcType p; pure (.s t)), ("Payload", llcPayload)] }

def vSNAP : View := {
  name := "SNAP", valid := fun p => lenAtLeast p 9, minLen := 9,
  fixed := [("DSAP", .num (.byte 0)), ("SSAP", .num (.byte 1)), ("Control", .num (.byte 2)),
            ("OrganisationID", .span 3 6), ("EtherType", .num (.be16 6)), ("Payload", .tail 8)],
  dyn := [] }

/-! #### RRCP, IEEE1905, EthernetPause, LLDP, HopByHop -/
def vRRCP : View := {
  name := "RRCP", valid := fun p => lenAtLeast p 16, minLen := 16,
  fixed := [("Protocol", .num (.byte 0)), ("Reply", .eq (.and (.byte 1) (.const 0x80)) 0x80),
            ("OpCode", .num (.and (.byte 1) (.const 0x7f))), ("AuthKey", .num (.be16 2)),
            ("RegisterAddr", .num (.be16 4)), ("RegisterData", .num (.be16 6)),
            ("SixBytes", .span 1 7), ("Zeros", .tail 7)],
  dyn := [] }

def vIEEE1905 : View := {
  name := "IEEE1905", valid := fun p => lenAtLeast p 8, minLen := 8,
  fixed := [("Version", .num (.byte 0)), ("Reserved", .num (.byte 1)), ("Type", .num (.be16 2)), ("ID", .num (.be16 4)),
            ("FragmentID", .num (.byte 6)), ("Flags", .num (.byte 7)), ("TLV", .tail 8)],
  dyn := [] }

def pauseValid (p : Bytes) : Outcome Unit :=
  if p.length < 46 then .err .frameLen else do
    let op ← be16At p 0
    if op != 1 then .err .parseFrame else .ok ()

def vPause : View := {
  name := "EthernetPause", valid := pauseValid, minLen := 46,
  fixed := [("Opcode", .num (.be16 0)), ("Duration", .num (.be16 2)), ("Reserved", .tail 4)],
  dyn := [] }

/-- `LLDP.getTLV(n)` (after fix 225185e): (type, length, value span) | parse error | panic -/
def lldpGetTLV (p : Bytes) (n : Nat) : Outcome (Nat × Nat × Val) :=
  if p.length ≤ n + 2 then .err .parseFrame else do
    let a ← byteN p n; let b ← byteN p (n + 1)
    let t := a >>> 1
    let l := ((a &&& 0x01) <<< 8) + b
    if t == 0 ∧ l == 0 then pure (t, l, .nil)
    else if p.length > n + 2 + l + 2 then
      (if n + 2 + l ≤ p.length then pure (t, l, .span (n + 2) l) else .panic)
    else .err .parseFrame

/-- a getter that ignores the error return (`_, _, v, _ := p.getTLV(..)`): error ⇒ nil value -/
def lldpValue (p : Bytes) (n : Nat) : Outcome Val :=
  match lldpGetTLV p n with
  | .ok (_, _, v) => .ok v
  | .err _ => .ok .nil
  | .panic => .panic
  | .hang => .hang

def valLen : Val → Nat
  | .span _ l => l
  | _ => 0

def lldpPortID (p : Bytes) : Outcome Val := do
  let c ← lldpValue p 0
  lldpValue p (valLen c + 2)

def vLLDP : View := {
  name := "LLDP", valid := fun p => lenAtLeast p 6, minLen := 6,
  fixed := [],
  dyn := [("ChassisID", fun p => lldpValue p 0), ("PortID", lldpPortID)] }

def hbhLen (p : Bytes) : Outcome Nat := do let b ← byteN p 1; pure (b * 8 + 8)

/-- `HopByHopExtensionHeader.IsValid() bool` : `ok` = true, `err` = false -/
def hbhValid (p : Bytes) : Outcome Unit :=
  if p.length < 2 then .err .frameLen else do
    let l ← hbhLen p
    if p.length < l + 2 then .err .frameLen else .ok ()

def hbhData (p : Bytes) : Outcome Val := do
  let l ← hbhLen p
  if 2 ≤ l ∧ l ≤ p.length then pure (.span 2 (l - 2)) else .panic

def vHopByHop : View := {
  name := "HopByHopExtensionHeader", valid := hbhValid, minLen := 2,
  fixed := [("NextHeader", .num (.byte 0)), ("Len", .num (.add (.mul (.byte 1) (.const 8)) (.const 8)))],
  dyn := [("Data", hbhData)] }

def allViews : List View :=
  [vEther, vIP4, vUDP, vTCP, vIP6, vARP, vICMP, vICMPEcho, vICMP4Redirect, vRS, vRA, vNA, vNS, vRedirect6,
   vDHCP4, vDNS, vLLC, vSNAP, vRRCP, vIEEE1905, vPause, vLLDP, vHopByHop]

def View.getter (v : View) (name : String) : Option (Bytes → Outcome Val) :=
  match v.fixed.find? (·.1 == name) with
  | some (_, g) => some (fun p => g.eval p)
  | none => (v.dyn.find? (·.1 == name)).map (·.2)

def View.getterNames (v : View) : List String := v.fixed.map (·.1) ++ v.dyn.map (·.1)

end PV.Model
