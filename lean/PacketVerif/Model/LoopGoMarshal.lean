/-
  Primitives for the regenerated NDP marshal code (Gen/LoopsMarshal.lean, written by tools/goextract/loops.go in its
  extended mode + loops_marshal.go): what Model/LoopGo.lean and Model/LoopGoOpts.lean have, plus big-endian stores and
  Go's `uintN(d.Seconds())` of a `time.Duration`.
-/
import PacketVerif.Model.LoopGoOpts
namespace PV.Model.LoopGoMarshal
open PV PV.Model.LoopGo PV.Model.LoopGoOpts

/-- the bytes `lo … lo+n-1` of `b` replaced by `bs` (`bs.length = n`, `lo + n ≤ b.length`) -/
def pokeAt (b : Bytes) (lo : Nat) (bs : Bytes) : Bytes := b.take lo ++ (bs ++ b.drop (lo + bs.length))

/-- `binary.BigEndian.PutUint16(b[lo:hi], v)`: the slice expression panics unless `0 ≤ lo ≤ hi ≤ len(b)`, PutUint16
    panics when `hi - lo < 2`; writes two bytes at `lo` -/
def putBE16I (b : Bytes) (lo hi : Int) (v : UInt16) : Outcome Bytes :=
  if 0 ≤ lo ∧ lo ≤ hi ∧ hi ≤ (b.length : Int) then
    if 2 ≤ hi - lo then .ok (pokeAt b lo.toNat [(v >>> 8).toUInt8, v.toUInt8]) else .panic
  else .panic

/-- `binary.BigEndian.PutUint32(b[lo:hi], v)`: as `putBE16I`, four bytes -/
def putBE32I (b : Bytes) (lo hi : Int) (v : UInt32) : Outcome Bytes :=
  if 0 ≤ lo ∧ lo ≤ hi ∧ hi ≤ (b.length : Int) then
    if 4 ≤ hi - lo then .ok (pokeAt b lo.toNat [(v >>> 24).toUInt8, (v >>> 16).toUInt8, (v >>> 8).toUInt8, v.toUInt8]) else .panic
  else .panic

/-- Go's `uintN(d.Seconds())` for a `time.Duration` d (nanoseconds): `(d / 10^9) mod 2^N`.  Exact when `0 ≤ d`,
    `d / 10^9 < 2^N` and (d is a whole number of seconds or `d < 2^24 s`); see assumption `durSeconds` of the translator -/
def durSecondsU8 (d : Int) : UInt8 := intToUInt8 (Int.tdiv d 1000000000)
def durSecondsU16 (d : Int) : UInt16 := intToUInt16 (Int.tdiv d 1000000000)
def durSecondsU32 (d : Int) : UInt32 := intToUInt32 (Int.tdiv d 1000000000)

/-! ### package net (written from the Go 1.23 source; assumption `netIPDict` of the translator) -/

/-- `net.CIDRMask(ones, bits)`: nil unless `bits` is 32 or 128 and `0 ≤ ones ≤ bits`; byte i has its `min 8 (ones − 8i)`
    high bits set -/
def cidrMask (ones bits : Int) : Bytes :=
  if (bits = 32 ∨ bits = 128) ∧ 0 ≤ ones ∧ ones ≤ bits then
    (List.range (bits.toNat / 8)).map (fun i =>
      let n := ones.toNat - 8 * i
      if 8 ≤ n then (0xff : UInt8) else ~~~ ((0xff : UInt8) >>> UInt8.ofNat n))
  else []

def v4InV6Prefix : Bytes := [0, 0, 0, 0, 0, 0, 0, 0, 0, 0, 0xff, 0xff]

/-- `net.IP.Mask`: a 16-byte mask with 12 leading 0xff applies to a 4-byte address and a 4-byte mask to an IPv4-mapped
    address; nil when the lengths then differ -/
def ipMask (ip mask : Bytes) : Bytes :=
  let mask := if mask.length = 16 ∧ ip.length = 4 ∧ (mask.take 12).all (· == 0xff) then mask.drop 12 else mask
  let ip := if mask.length = 4 ∧ ip.length = 16 ∧ ip.take 12 == v4InV6Prefix then ip.drop 12 else ip
  if ip.length = mask.length then List.zipWith (· &&& ·) ip mask else []

/-- `net.IP.Equal`: equal bytes, or an IPv4 address and its IPv4-mapped form -/
def ipEqual (a b : Bytes) : Bool :=
  if a.length = b.length then a == b
  else if a.length = 4 ∧ b.length = 16 then b.take 12 == v4InV6Prefix && a == b.drop 12
  else if a.length = 16 ∧ b.length = 4 then a.take 12 == v4InV6Prefix && a.drop 12 == b
  else false

end PV.Model.LoopGoMarshal
