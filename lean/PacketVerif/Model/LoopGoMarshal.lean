/-
  Primitives for the regenerated NDP marshal code (Gen/LoopsMarshal.lean, written by tools/goextract/loops.go in its
  extended mode + loops_marshal.go): what Model/LoopGo.lean and Model/LoopGoOpts.lean have, plus big-endian stores and
  Go's `uintN(d.Seconds())` of a `time.Duration`.
-/
import PacketVerif.Model.LoopGoOpts
namespace PV.Model.LoopGoMarshal
open PV PV.Model.LoopGo PV.Model.LoopGoOpts

/-- the bytes `lo … lo+n-1` of `b` replaced by `bs` (`bs.length = n`, `lo + n ≤ b.length`) -/
def pokeAt (b : Bytes) (lo : Nat) (bs : Bytes) : Bytes := b.take lo ++ (bs ++ b.drop (lo + bs.length))

/-- `binary.BigEndian.PutUint16(b[lo:hi], v)`: the slice expression panics unless `0 ≤ lo ≤ hi ≤ len(b)`, PutUint16
    panics when `hi - lo < 2`; writes two bytes at `lo` -/
def putBE16I (b : Bytes) (lo hi : Int) (v : UInt16) : Outcome Bytes :=
  if 0 ≤ lo ∧ lo ≤ hi ∧ hi ≤ (b.length : Int) then
    if 2 ≤ hi - lo then .ok (pokeAt b lo.toNat [(v >>> 8).toUInt8, v.toUInt8]) else .panic
  else .panic

/-- `binary.BigEndian.PutUint32(b[lo:hi], v)`: as `putBE16I`, four bytes -/
def putBE32I (b : Bytes) (lo hi : Int) (v : UInt32) : Outcome Bytes :=
  if 0 ≤ lo ∧ lo ≤ hi ∧ hi ≤ (b.length : Int) then
    if 4 ≤ hi - lo then .ok (pokeAt b lo.toNat [(v >>> 24).toUInt8, (v >>> 16).toUInt8, (v >>> 8).toUInt8, v.toUInt8]) else .panic
  else .panic

/-- Go's `uintN(d.Seconds())` for a `time.Duration` d (nanoseconds): `(d / 10^9) mod 2^N`.  Exact when `0 ≤ d`,
    `d / 10^9 < 2^N` and (d is a whole number of seconds or `d < 2^24 s`); see assumption `durSeconds` of the translator -/
def durSecondsU8 (d : Int) : UInt8 := intToUInt8 (Int.tdiv d 1000000000)
def durSecondsU16 (d : Int) : UInt16 := intToUInt16 (Int.tdiv d 1000000000)
def durSecondsU32 (d : Int) : UInt32 := intToUInt32 (Int.tdiv d 1000000000)

end PV.Model.LoopGoMarshal
