/-
  The FRAMES the dhcp4 handler writes for one received frame (builder D): the reply frame of `ProcessPacket`
  (`Model.Dhcp4Frame.replyFrame`, Model/Dhcp4ReplyBytes) as a function of the REQUEST FRAME as received, and the forged
  DECLINE of the client direction (handlers/dhcp4_spoofer/client.go):

      processClientPacket: … only an OFFER of another server, not for one of our storm addresses, in an attacking mode:
        forceDecline(clientID, serverIP, req.CHAddr(), req.YIAddr(), req.XId())
          clientID = dup, chAddr = dup, xid = dup, ciAddr = IPv4zero
          opts = {61: clientID, 54: serverIP.AsSlice(), 56: "netfilter decline", 50: clientIP.AsSlice()}
          go sendDeclineReleasePacket(DHCP4Decline, …):
            b := EtherBufferPool.Get()                                       -- pool garbage `g1`
            p := EncodeDHCP4(b[0:], BootRequest, Decline, chAddr, ciAddr, IPv4zero, xid, false, opts, nil)
            src = {HostAddr4.MAC, HostAddr4.IP, 68}; dst = {RouterAddr4.MAC, RouterAddr4.IP, 67}
            sendDHCP4Packet(conn, src, dst, p)                                -- second pool buffer `g2`

  `getClientID` = option 61 when present and not empty, else chaddr; `serverIP` = `netip.AddrFromSlice` of option 54
  (4 or 16 bytes, `AsSlice` gives the same bytes back); `clientIP` = the OFFER's yiaddr (bytes 16..19).
-/
import PacketVerif.Model.Dhcp4ReplyBytes
namespace PV.Model.Dhcp4Frame
open PV PV.Model PV.Model.Dhcp4Srv PV.Model.Dhcp4Opt

/-- "netfilter decline" -/
def declineText : Bytes :=
  [0x6e, 0x65, 0x74, 0x66, 0x69, 0x6c, 0x74, 0x65, 0x72, 0x20, 0x64, 0x65, 0x63, 0x6c, 0x69, 0x6e, 0x65]

/-- `getClientID(req, options)` on the bytes -/
def clientIdBytes (p : Bytes) (o : Opts) : Bytes :=
  match optGet o 61 with
  | some (b :: bs) => b :: bs
  | _ => (p.drop 28).take 6

/-- the arguments of the `EncodeDHCP4` call of `sendDeclineReleasePacket` for the OFFER `p` (options `o` as parsed) -/
def declineArgs (p : Bytes) (o : Opts) : EncArgs :=
  { opcode := 1, mt := 4, chaddr := some ((p.drop 28).take 6), ciaddr := some [0, 0, 0, 0], yiaddr := some [0, 0, 0, 0],
    xid := some ((p.drop 4).take 4), broadcast := false,
    opts := [(61, clientIdBytes p o), (54, optBytes (optGet o 54)), (56, declineText), (50, (p.drop 16).take 4)],
    order := [] }

/-- the forged DECLINE message, encoded in a pool buffer `g1` (`tail`: Go's map iteration order) -/
def declineMsg (g1 : Mem) (p : Bytes) (o : Opts) (tail : List UInt8) : Outcome Bytes :=
  encodeDHCP4 g1 (declineArgs p o) tail

/-- **the frame of the forged DECLINE**: UDP 68 → 67 from the host's NIC to the router, built in pool buffer `g2` -/
def declineFrame (g2 : Mem) (hostMAC : Bytes) (hostIP : IP) (routerMAC : Bytes) (routerIP : IP) (msg : Bytes) :
    Outcome Bytes :=
  sendUDP4 g2 hostMAC routerMAC 50 (ip4Bytes hostIP) (ip4Bytes routerIP) 68 67 msg

end PV.Model.Dhcp4Frame
