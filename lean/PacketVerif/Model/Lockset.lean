/-
  Lockset machine for the race half of C09.  Threads execute straight-line programs of
  `acq l m` / `rel l` / `read x` / `write x` over lock names `L` (reader/writer locks: `m` is shared or
  exclusive; a plain mutex is only ever taken exclusively) and abstract memory locations `X`.
  Every operation is one atomic step of an interleaving (sequentially consistent) semantics:

    * `acq l excl`   is enabled when no thread holds `l` in any mode,
    * `acq l shared` is enabled when no thread holds `l` exclusively
      (Go's writer preference only removes schedules: it matters for deadlock — Model/Locks.lean —, not here),
    * `rel`, `read`, `write` are always enabled.

  **Data race** (the standard definition for lock-synchronised programs): a state in which two different
  threads are both about to access the same location and at least one of the two accesses is a write —
  two conflicting accesses that are simultaneously enabled, i.e. not ordered by any release→acquire of a
  common lock.  `Race` below.

  A *locking policy* `P i x held w` says with which held set thread `i` may perform a read (`w = false`)
  or write (`w = true`) of `x`; `Follows P i held prog` is the static discipline "every access in `prog`
  is allowed by `P` for the set held at that point".  `Compat P` is the pairwise lockset condition: any
  two allowed conflicting accesses of different threads share a lock that at least one of them holds
  exclusively.  The guard table of the library (`Guard`, `guardPolicy`) is an instance.
  The theorem (Props/C09Race.lean): `Compat P` and `Follows` for every thread ⇒ no reachable state is a race.
-/
import PacketVerif.Basic
namespace PV.Model.Lockset

inductive Mode where
  | shared
  | excl
  deriving DecidableEq, Repr

inductive Op (L X : Type) where
  | acq (l : L) (m : Mode)
  | rel (l : L)
  | read (x : X)
  | write (x : X)
  deriving DecidableEq, Repr

structure Thread (L X : Type) where
  held : List (L × Mode)
  prog : List (Op L X)

abbrev State (L X : Type) := List (Thread L X)

section
variable {L X : Type} [DecidableEq L]

/-- when may a lock be taken in mode `m` -/
def canAcq (s : State L X) (l : L) : Mode → Prop
  | .excl => ∀ t ∈ s, ∀ m, (l, m) ∉ t.held
  | .shared => ∀ t ∈ s, (l, Mode.excl) ∉ t.held

/-- release drops the most recent holding of `l` (nothing if `l` is not held) -/
def release (l : L) : List (L × Mode) → List (L × Mode)
  | [] => []
  | (l', m) :: hs => if l' = l then hs else (l', m) :: release l hs

/-- one step of thread `i` -/
inductive Step : State L X → State L X → Prop where
  | acq (s : State L X) (i : Nat) (t : Thread L X) (l : L) (m : Mode) (rest : List (Op L X)) :
      s[i]? = some t → t.prog = .acq l m :: rest → canAcq s l m →
      Step s (s.set i ⟨(l, m) :: t.held, rest⟩)
  | rel (s : State L X) (i : Nat) (t : Thread L X) (l : L) (rest : List (Op L X)) :
      s[i]? = some t → t.prog = .rel l :: rest →
      Step s (s.set i ⟨release l t.held, rest⟩)
  | read (s : State L X) (i : Nat) (t : Thread L X) (x : X) (rest : List (Op L X)) :
      s[i]? = some t → t.prog = .read x :: rest →
      Step s (s.set i ⟨t.held, rest⟩)
  | write (s : State L X) (i : Nat) (t : Thread L X) (x : X) (rest : List (Op L X)) :
      s[i]? = some t → t.prog = .write x :: rest →
      Step s (s.set i ⟨t.held, rest⟩)

inductive Reach : State L X → State L X → Prop where
  | refl (s : State L X) : Reach s s
  | step {s t u : State L X} : Reach s t → Step t u → Reach s u

/-- the next operation of `t` is an access of `x` (`w = true`: a write) -/
def nextAccess (t : Thread L X) (x : X) : Bool → Prop
  | true => ∃ rest, t.prog = .write x :: rest
  | false => ∃ rest, t.prog = .read x :: rest

/-- **data race**: two different threads are about to access the same location, at least one writes -/
def Race (s : State L X) : Prop :=
  ∃ (i j : Nat) (ti tj : Thread L X) (x : X) (wi wj : Bool),
    i ≠ j ∧ s[i]? = some ti ∧ s[j]? = some tj ∧ nextAccess ti x wi ∧ nextAccess tj x wj ∧
    (wi = true ∨ wj = true)

/-- mutual exclusion: a lock held exclusively by one thread is held by no other thread -/
def Consistent (s : State L X) : Prop :=
  ∀ (i j : Nat) (ti tj : Thread L X), i ≠ j → s[i]? = some ti → s[j]? = some tj →
    ∀ l, (l, Mode.excl) ∈ ti.held → ∀ m, (l, m) ∉ tj.held

/-- a locking policy: may thread `i` access `x` (write iff `w`) while holding `held` -/
abbrev Policy (L X : Type) := Nat → X → List (L × Mode) → Bool → Prop

/-- the static discipline: every access of the program is allowed by the policy for the locks held there -/
def Follows (P : Policy L X) (i : Nat) : List (L × Mode) → List (Op L X) → Prop
  | _, [] => True
  | h, .acq l m :: rest => Follows P i ((l, m) :: h) rest
  | h, .rel l :: rest => Follows P i (release l h) rest
  | h, .read x :: rest => P i x h false ∧ Follows P i h rest
  | h, .write x :: rest => P i x h true ∧ Follows P i h rest

def AllFollow (P : Policy L X) (s : State L X) : Prop :=
  ∀ (i : Nat) (t : Thread L X), s[i]? = some t → Follows P i t.held t.prog

/-- the two held sets share a lock that one of them holds exclusively -/
def CommonExcl (h1 h2 : List (L × Mode)) : Prop :=
  ∃ l, ((l, Mode.excl) ∈ h1 ∧ ∃ m, (l, m) ∈ h2) ∨ ((l, Mode.excl) ∈ h2 ∧ ∃ m, (l, m) ∈ h1)

/-- the pairwise lockset condition -/
def Compat (P : Policy L X) : Prop :=
  ∀ (i j : Nat) (x : X) (h1 h2 : List (L × Mode)) (w1 w2 : Bool),
    i ≠ j → P i x h1 w1 → P j x h2 w2 → (w1 = true ∨ w2 = true) → CommonExcl h1 h2

/-- how a location is protected -/
inductive Guard (L : Type) where
  /-- guarded-by: reads hold `l` in some mode, writes hold it exclusively -/
  | lock (l : L)
  /-- writers hold *every* lock of the list exclusively, readers hold at least one of them -/
  | writeAllReadAny (ls : List L)
  /-- never written once shared -/
  | immutable
  /-- touched by one thread only -/
  | owner (i : Nat)
  deriving Repr

def holdsSome (h : List (L × Mode)) (l : L) : Prop := (l, Mode.shared) ∈ h ∨ (l, Mode.excl) ∈ h

instance (h : List (L × Mode)) (l : L) : Decidable (holdsSome h l) := by unfold holdsSome; exact inferInstance

/-- the policy of a guard table -/
def guardPolicy (g : X → Guard L) : Policy L X := fun i x h w =>
  match g x with
  | .lock l => if w then (l, Mode.excl) ∈ h else holdsSome h l
  | .writeAllReadAny ls => if w then (ls ≠ [] ∧ ∀ l ∈ ls, (l, Mode.excl) ∈ h) else ∃ l ∈ ls, holdsSome h l
  | .immutable => w = false
  | .owner k => i = k

/-- initial state: nobody holds anything -/
def init (progs : List (List (Op L X))) : State L X := progs.map fun p => ⟨[], p⟩

end
end PV.Model.Lockset
