/-
  Evaluation-order combinators for the regenerated validity predicates (Gen/Valid.lean, written by
  tools/goextract/valid.go): a Go condition that calls getters can panic, so it is evaluated in the
  `Outcome` monad with Go's short-circuit rule — the right operand of `&&` / `||` is evaluated only when the
  left one does not decide the result.  Props/C01ValidTie.lean eliminates these against the hand-written
  predicates of Model/Views.lean.
-/
import PacketVerif.Model.Views
namespace PV.Model

/-- `a && b` -/
def andThen (a b : Outcome Bool) : Outcome Bool := do if (← a) then b else pure false
/-- `a || b` -/
def orElse (a b : Outcome Bool) : Outcome Bool := do if (← a) then pure true else b
/-- `!a` -/
def notB (a : Outcome Bool) : Outcome Bool := do pure (!(← a))
/-- comparison of two evaluated operands (left first) -/
def rel {α : Type} (r : α → α → Bool) (a b : Outcome α) : Outcome Bool := do let x ← a; let y ← b; pure (r x y)
/-- binary integer operator on two evaluated operands (left first) -/
def opN (f : Nat → Nat → Nat) (a b : Outcome Nat) : Outcome Nat := do let x ← a; let y ← b; pure (f x y)

/-- `DHCP4.validateOptions()` as `DHCP4.IsValid` uses it: the option area is `p[240:]` (nil when `len(p) ≤ 240`),
    an area shorter than two bytes is rejected, otherwise the option walk of Model/Views -/
def dhcpValidateOptions (p : Bytes) : Outcome Unit :=
  let opts := p.drop 240
  if opts.length < 2 then .err .parseFrame else dhcpValidateOpts opts.length opts

end PV.Model
