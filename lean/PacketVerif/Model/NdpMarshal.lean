/-
  The allocating encoders of the NDP options and of the router solicitation / router advertisement messages
  (layer_icmp6_options.go `(*RawOption).marshal`, `(*LinkLayerAddress).marshal`, `(*MTU).marshal`, `marshalOptions`;
  layer_icmp6_ndp.go `(*RouterSolicitation).marshal`, `(*RouterAdvertisement).marshal`) written as closed forms: what
  the byte string IS, not how the Go code fills a buffer.  Props/C03MarshalTie.lean proves the functions regenerated
  from the Go bodies (Gen/LoopsMarshal.lean) equal to these for every input.
-/
import PacketVerif.Basic
namespace PV.Model.NdpMarshal
open PV

/-- `(*RawOption).marshal`: type, length (units of 8 bytes), value; the length must be accurate.  `r.Length * 8` is a
    uint8 product (wraps) -/
def rawOptMarshal (ty len : UInt8) (value : Bytes) : Outcome Bytes :=
  if 2 + value.length = (len * 8).toNat then .ok (ty :: len :: value) else .err .other

/-- `(*LinkLayerAddress).marshal`: direction 1 (source) or 2 (target), a 6-byte address -/
def llaMarshal (dir : Int) (mac : Bytes) : Outcome Bytes :=
  if dir = 1 ∨ dir = 2 then
    if mac.length = 6 then .ok ([UInt8.ofNat dir.toNat, 1] ++ mac) else .err .other
  else .err .other

/-- a 32-bit value, big endian -/
def be32Bytes (v : UInt32) : Bytes := [(v >>> 24).toUInt8, (v >>> 16).toUInt8, (v >>> 8).toUInt8, v.toUInt8]

/-- `(*MTU).marshal`: option 5, length 1, two reserved bytes, the MTU -/
def mtuMarshal (mtu : UInt32) : Outcome Bytes := .ok ([5, 1, 0, 0] ++ be32Bytes mtu)

/-- a server address in its 16-byte slot: `copy(raw.Value[start:end], server)` copies at most 16 bytes, the rest of the
    slot keeps the zeros of `make` -/
def pad16 (s : Bytes) : Bytes := s.take 16 ++ List.replicate (16 - (s.take 16).length) 0

theorem pad16_length (s : Bytes) : (pad16 s).length = 16 := by
  simp [pad16]; omega

/-- `(*RecursiveDNSServer).marshal`: option 25, length `1 + 2n` (uint8 arithmetic), two reserved bytes, the lifetime in
    seconds, the servers in 16-byte slots; no server is an error.  From 16 servers on the uint8 length wraps and
    `(*RawOption).marshal` refuses (`rawOptMarshal`). -/
def rdnssMarshal (lifeS : UInt32) (servers : List Bytes) : Outcome Bytes :=
  if servers = [] then .err .other
  else rawOptMarshal 25 (1 + UInt8.ofNat (2 * servers.length)) ([0, 0] ++ be32Bytes lifeS ++ (servers.map pad16).flatten)

/-- `(*PrefixInformation).marshal`: option 3, length 4, prefix length, the L and A flags, valid and preferred lifetime
    (s), 4 reserved bytes, the prefix in a 16-byte slot; refused unless the prefix equals itself masked to its length
    (`maskOk` = `prefix.Equal(prefix.Mask(net.CIDRMask(plen, 128)))`) -/
def prefixInfoMarshal (plen : UInt8) (onLink auto : Bool) (validS prefS : UInt32) (pfx : Bytes) (maskOk : Bool) : Outcome Bytes :=
  if maskOk then
    .ok ([3, 4, plen, (if onLink then (128 : UInt8) else 0) ||| (if auto then (64 : UInt8) else 0)] ++ be32Bytes validS ++
      be32Bytes prefS ++ [0, 0, 0, 0] ++ pad16 pfx)
  else .err .other

/-- a prefix in a slot of `m` bytes: `copy(raw.Value[6:], prefix)` copies at most `m` bytes, the rest stays zero -/
def padTo (m : Nat) (s : Bytes) : Bytes := s.take m ++ List.replicate (m - (s.take m).length) 0

/-- `(*RouteInformation).marshal` (RFC 4191 2.3): option 24; the prefix takes 0, 8 or 16 bytes for a prefix length of 0,
    1..64, 65..128 (a longer one is refused), length = that many 8-byte units + 1; prefix length, preference in bits 3-4,
    route lifetime (s), the prefix clipped / zero-padded to its slot; refused unless the prefix equals itself masked -/
def routeInfoMarshal (plen prf : UInt8) (lifeS : UInt32) (pfx : Bytes) (maskOk : Bool) : Outcome Bytes :=
  if maskOk then
    if plen = 0 then .ok ([24, 1, plen, prf <<< 3] ++ be32Bytes lifeS)
    else if plen < 65 then .ok ([24, 2, plen, prf <<< 3] ++ be32Bytes lifeS ++ padTo 8 pfx)
    else if plen < 129 then .ok ([24, 3, plen, prf <<< 3] ++ be32Bytes lifeS ++ padTo 16 pfx)
    else .err .other
  else .err .other

/-- `marshalOptions`: the encodings in order; the first option that fails (error or panic) decides -/
def optionsMarshal : List (Outcome Bytes) → Outcome Bytes
  | [] => .ok []
  | o :: rest => do
    let b ← o
    let r ← optionsMarshal rest
    pure (b ++ r)

/-- `(*RouterSolicitation).marshal`: ICMPv6 type 133, code 0, checksum 0 (filled in by the sender), 4 reserved bytes,
    the options -/
def rsMarshal (opts : List (Outcome Bytes)) : Outcome Bytes := do
  let ob ← optionsMarshal opts
  pure ([133, 0, 0, 0, 0, 0, 0, 0] ++ ob)

/-- the flag byte of a router advertisement (RFC 4861 4.2, RFC 4191 2.2, RFC 4389 4.1.3.3) -/
def raFlags (managed other homeAgent : Bool) (prf : UInt8) (proxy : Bool) : UInt8 :=
  (if managed then (128 : UInt8) else 0) ||| (if other then (64 : UInt8) else 0) ||| (if homeAgent then (32 : UInt8) else 0) |||
  (prf <<< 3) ||| (if proxy then (4 : UInt8) else 0)

/-- `(*RouterAdvertisement).marshal`: a reserved / unknown preference is refused before anything else; then ICMPv6 type
    134, code 0, checksum 0, hop limit, flags, router lifetime (s, 16 bit), reachable time and retransmission timer
    (ms, 32 bit), the options.  `lifeS`, `reachMs`, `retransMs` are the values after Go's conversions. -/
def raMarshal (hop : UInt8) (managed other homeAgent : Bool) (prf : Int) (proxy : Bool) (lifeS : UInt16)
    (reachMs retransMs : UInt32) (opts : List (Outcome Bytes)) : Outcome Bytes :=
  if prf = 0 ∨ prf = 1 ∨ prf = 3 then do
    let ob ← optionsMarshal opts
    pure ([134, 0, 0, 0, hop, raFlags managed other homeAgent (UInt8.ofNat prf.toNat) proxy, (lifeS >>> 8).toUInt8, lifeS.toUInt8]
      ++ be32Bytes reachMs ++ be32Bytes retransMs ++ ob)
  else .err .other

end PV.Model.NdpMarshal
