/-
  Atomicity machine for C09 (critical-section shapes).

  Shared state is partitioned by *guard* (`G`: a lock class; `Store G D := G → D` is the data each guard protects).
  An *operation* (one API call, one ProcessPacket, one loop iteration …) is a list of *critical sections*; a section
  names its guard and has a body of micro-steps `L × D → L × D`, each of which reads and writes the thread's local state
  (`L`: what the operation has read so far — the *decision* it carries from one section into the next) and the data of
  that guard only.  The *read set / write set* of a section is thus "the data of its guard", and a section is
  `ReadOnly` when its body leaves that data as it found it.

  The interleaved machine (`Step`) is fine grained: a thread acquires the guard of its next section (enabled only when
  no thread owns it), performs the micro-steps one at a time, releases; between any two of these steps any other
  thread may take steps — on other guards also in the middle of this thread's section, on the same guard only between
  this thread's sections.  Any number of threads (`Nat → Thread`), any programs, any schedule.

  The sequential reference (`serial`) runs whole operations one after the other (`runOp`: all sections back to back).

  Disciplines (per operation):
    * `SingleSection`     : at most one critical section;
    * `ValidatedReentry`  : several sections, all but the last read-only, and the last one `LocalIndep`: what it leaves
                            in the store does not depend on the local state the earlier sections produced — it re-reads
                            under its lock everything its writes depend on (double-checked insert, re-lookup under the
                            write lock);
    * `Disciplined`       : the common generalisation used by the proof.
  Props/C09Atomic.lean proves that disciplined programs are serializable and that check-then-act in two sections is not.

  Ghost state: `hist` (the operations in the order of their commit points — the acquisition of their last section) is a
  history variable; no step reads it.
-/
import PacketVerif.Basic
namespace PV.Model.Atomic

abbrev Micro (L D : Type) := L × D → L × D

structure Sec (G L D : Type) where
  g : G
  body : List (Micro L D)

structure Op (G L D : Type) where
  secs : List (Sec G L D)

abbrev Store (G D : Type) := G → D

section
variable {G L D : Type} [DecidableEq G]

def runMicros : List (Micro L D) → L × D → L × D
  | [], x => x
  | m :: ms, x => runMicros ms (m x)

def upd {V : Type} (st : G → V) (g : G) (d : V) : G → V := fun h => if h = g then d else st h

/-- the sections of one operation run back to back (no other thread in between) -/
def runSecs : List (Sec G L D) → L → Store G D → L × Store G D
  | [], l, st => (l, st)
  | s :: r, l, st => runSecs r (runMicros s.body (l, st s.g)).1 (upd st s.g (runMicros s.body (l, st s.g)).2)

/-- one whole operation as a single atomic step, started with the initial local state `l0` -/
def runOp (l0 : L) (op : Op G L D) (st : Store G D) : Store G D := (runSecs op.secs l0 st).2

/-- the sequential reference: operations one after the other -/
def serial (l0 : L) : List (Op G L D) → Store G D → Store G D
  | [], st => st
  | op :: r, st => serial l0 r (runOp l0 op st)

/-- a section that leaves the data of its guard as it found it -/
def ReadOnly (s : Sec G L D) : Prop := ∀ l d, (runMicros s.body (l, d)).2 = d

/-- what the section leaves in the store does not depend on the local state it is entered with -/
def LocalIndep (s : Sec G L D) : Prop := ∀ l l' d, (runMicros s.body (l, d)).2 = (runMicros s.body (l', d)).2

def SingleSection (op : Op G L D) : Prop := op.secs.length ≤ 1

def ValidatedReentry (op : Op G L D) : Prop :=
  2 ≤ op.secs.length ∧ (∀ s ∈ op.secs.dropLast, ReadOnly s) ∧ (∀ s, op.secs.getLast? = some s → LocalIndep s)

/-- every section but the last is read-only, and if there is more than one section the last one is local-independent -/
def Disciplined (op : Op G L D) : Prop :=
  (∀ s ∈ op.secs.dropLast, ReadOnly s) ∧ (2 ≤ op.secs.length → ∀ s, op.secs.getLast? = some s → LocalIndep s)

structure Thread (G L D : Type) where
  loc : L
  /-- the section the thread is inside of, with the micro-steps still to run -/
  cur : Option (Sec G L D × List (Micro L D))
  /-- the sections of the current operation still to be entered -/
  rest : List (Sec G L D)
  curOp : Op G L D
  /-- the operations still to be started -/
  ops : List (Op G L D)

structure State (G L D : Type) where
  store : Store G D
  owner : G → Option Nat
  th : Nat → Thread G L D
  hist : List (Nat × Op G L D)

def setTh (th : Nat → Thread G L D) (i : Nat) (t : Thread G L D) : Nat → Thread G L D :=
  fun j => if j = i then t else th j

/-- one step of thread `i` -/
inductive Step (l0 : L) : State G L D → State G L D → Prop where
  /-- start the next operation by entering its first section -/
  | acqFirst (σ : State G L D) (i : Nat) (op : Op G L D) (ops' : List (Op G L D)) (s : Sec G L D) (r : List (Sec G L D)) :
      (σ.th i).cur = none → (σ.th i).rest = [] → (σ.th i).ops = op :: ops' → op.secs = s :: r → σ.owner s.g = none →
      Step l0 σ { store := σ.store, owner := upd σ.owner s.g (some i),
                  th := setTh σ.th i { loc := l0, cur := some (s, s.body), rest := r, curOp := op, ops := ops' },
                  hist := if r = [] then σ.hist ++ [(i, op)] else σ.hist }
  /-- an operation without any critical section -/
  | skip (σ : State G L D) (i : Nat) (op : Op G L D) (ops' : List (Op G L D)) :
      (σ.th i).cur = none → (σ.th i).rest = [] → (σ.th i).ops = op :: ops' → op.secs = [] →
      Step l0 σ { σ with th := setTh σ.th i { (σ.th i) with ops := ops' }, hist := σ.hist ++ [(i, op)] }
  /-- enter the next section of the current operation -/
  | acqNext (σ : State G L D) (i : Nat) (s : Sec G L D) (r : List (Sec G L D)) :
      (σ.th i).cur = none → (σ.th i).rest = s :: r → σ.owner s.g = none →
      Step l0 σ { store := σ.store, owner := upd σ.owner s.g (some i),
                  th := setTh σ.th i { (σ.th i) with cur := some (s, s.body), rest := r },
                  hist := if r = [] then σ.hist ++ [(i, (σ.th i).curOp)] else σ.hist }
  /-- one micro-step inside the section -/
  | micro (σ : State G L D) (i : Nat) (s : Sec G L D) (m : Micro L D) (ms : List (Micro L D)) :
      (σ.th i).cur = some (s, m :: ms) →
      Step l0 σ { σ with store := upd σ.store s.g (m ((σ.th i).loc, σ.store s.g)).2,
                         th := setTh σ.th i { (σ.th i) with loc := (m ((σ.th i).loc, σ.store s.g)).1, cur := some (s, ms) } }
  /-- leave the section -/
  | rel (σ : State G L D) (i : Nat) (s : Sec G L D) :
      (σ.th i).cur = some (s, []) →
      Step l0 σ { σ with owner := upd σ.owner s.g none, th := setTh σ.th i { (σ.th i) with cur := none } }

inductive Reach (l0 : L) (σ0 : State G L D) : State G L D → Prop where
  | refl : Reach l0 σ0 σ0
  | step {σ σ'} : Reach l0 σ0 σ → Step l0 σ σ' → Reach l0 σ0 σ'

/-- the empty operation every thread "has finished" initially -/
def nop : Op G L D := { secs := [] }

def init (l0 : L) (st : Store G D) (progs : Nat → List (Op G L D)) : State G L D :=
  { store := st, owner := fun _ => none,
    th := fun i => { loc := l0, cur := none, rest := [], curOp := nop, ops := progs i }, hist := [] }

/-- the store with every section that is in progress run to its end -/
def abs (σ : State G L D) : Store G D := fun g =>
  match σ.owner g with
  | none => σ.store g
  | some i =>
    match (σ.th i).cur with
    | some (_, ms) => (runMicros ms ((σ.th i).loc, σ.store g)).2
    | none => σ.store g

/-- no thread is inside a critical section -/
def Quiescent (σ : State G L D) : Prop := ∀ g, σ.owner g = none

/-- the operations of thread `i` that have not reached their commit point -/
def pending (t : Thread G L D) : List (Op G L D) := (if t.rest = [] then [] else [t.curOp]) ++ t.ops

end
end PV.Model.Atomic
