/-
  Run-time vocabulary of the regenerated DHCPv4 server functions (`Gen/DhcpSrvGen.lean`, written by
  tools/goextract/dhcpsrv.go from handlers/dhcp4_spoofer/{lease,discover,request,declinerelease,dhcp4}.go).
  The translator turns every Go statement into Lean over the MODEL's state record
  `Model.Dhcp4Srv.State` with the fixed dictionary below (its Go side is the table `dhcpDict` of
  tools/goextract/dhcpsrv_dict.go); nothing here mentions a model *operation* (findOrCreate, inUse,
  available, allocIPOffer, discover, request … are not used).

  * a `*Lease` value is the KEY of the lease in `Handler.table` (`Cid`; `Lease.ClientID` is written
    once, before the pointer is stored under that key); a pointer that can be nil (`h.table[k]`)
    is `Option Cid`; `L s p` is the object behind it; a field store rewrites the entry in place;
  * an object that `&Lease{}` allocated is a local record (+ its key) until the statement that
    stores the pointer into the table;
  * a `*dhcpSubnet` value is `SubId` (`h.net1` / `h.net2`); its configuration fields are read from
    `cfg`, its cursor `nextIP` is `cursor s` / `setCursor s`;
  * `netip.Addr` is `AddrV` (invalid / IPv4 / some IPv6 address); the lease fields hold
    `Option IP` and the cursor holds `IP`: `AddrV.ofOpt`, `AddrV.toOpt`, `AddrV.toNat` convert
    (assumption, listed: no IPv6 address is ever stored in a lease or a cursor);
  * `*packet.Host` as returned by `Session.FindIP` is `Option MAC` (the only field read through it
    is `MACEntry.MAC`); `Session.IsCaptured` / `FindIP` read the two oracle fields of the state;
  * a `for cond { … }` loop takes fuel; running out of it is `none` of the `Option` result (hang);
  * time is `Nat` (seconds), `time.Now()` the parameter `now`.
-/
import PacketVerif.Model.Dhcp4Srv
namespace PV.Model.DhcpSrvGo
open PV PV.Model.Dhcp4Srv

/-- `&Lease{}`: Go's zero value -/
def zeroLease : Lease :=
  { state := .free, mac := [], ip := none, offer := none, xid := [], sub := .net1, expiry := 0 }

/-- `*p` for `p : *Lease`; a key the table does not hold reads as the zero record -/
def L (s : State) (p : Cid) : Lease := (getLease s.table p).getD zeroLease

/-- `h.table[k]` (absent ⇒ nil) -/
def tableFind (s : State) (k : Cid) : Option Cid := if (getLease s.table k).isSome then some k else none
/-- `h.table[k] = p` for the freshly allocated object `r` -/
def tableSet (s : State) (k : Cid) (r : Lease) : State := { s with table := setLease s.table k r }
/-- `delete(h.table, k)` -/
def tableDel (s : State) (k : Cid) : State := { s with table := delLease s.table k }
/-- the pointers `range h.table` yields (map order is unspecified in Go; the model's list order) -/
def tableKeys (s : State) : List Cid := s.table.map (·.1)
/-- `p.F = v` through a published pointer: the entry is rewritten in place -/
def updL (s : State) (p : Cid) (f : Lease → Lease) : State :=
  { s with table := s.table.map (fun e => if e.1 == p then (e.1, f e.2) else e) }

/-! ### netip.Addr -/

def AddrV.ofOpt : Option IP → AddrV
  | some a => .v4 a
  | none => .invalid
def AddrV.toOpt : AddrV → Option IP
  | .v4 a => some a
  | _ => none
def AddrV.toNat : AddrV → IP
  | .v4 a => a
  | _ => 0
def AddrV.is4 : AddrV → Bool
  | .v4 _ => true
  | _ => false
/-- `IsUnspecified` (0.0.0.0; `::` is not distinguished from the other IPv6 addresses) -/
def AddrV.isUnspec : AddrV → Bool
  | .v4 a => a == 0
  | _ => false
/-- `a.Less(b)` : invalid < IPv4 < IPv6 -/
def AddrV.less : AddrV → AddrV → Bool
  | .v4 a, .v4 b => decide (a < b)
  | .invalid, .invalid => false
  | .invalid, _ => true
  | .v4 _, .v6 => true
  | _, _ => false
/-- `a.Next()` -/
def AddrV.next : AddrV → AddrV
  | .v4 a => if a + 1 < 4294967296 then .v4 (a + 1) else .invalid
  | _ => .invalid

/-- `subnet.LAN.Contains(ip)` -/
def subContains (n : Subnet) : AddrV → Bool
  | .v4 a => n.contains a
  | _ => false

/-- `h.session.FindIP(ip)` : the MAC of the host the session tracks under `ip` -/
def sessFind (s : State) : AddrV → Option MAC
  | .v4 a => sessionKnows s a
  | _ => none

/-! ### replies -/

/-- a `packet.DHCP4Options` value under construction: the subnet whose `CopyOptions()` it is and the
    lease time stored under option 51, if any -/
abbrev OptsV := SubId × Option Nat

/-- `replyOpts` with option 51 as stored -/
def optsList (cfg : Cfg) (o : OptsV) (t : Nat) : List (Nat × Bytes) :=
  let n := cfg.sub o.1
  let base : List (Nat × Bytes) := [(1, maskBytes n.bits), (3, ip4Bytes n.gw), (6, ip4Bytes n.dns)]
  let route : List (Nat × Bytes) :=
    match o.1 with
    | .net1 => []
    | .net2 => [(31, [0]), (33, ip4Bytes cfg.net1.gw ++ ip4Bytes cfg.net2.gw)]
  let lt : List (Nat × Bytes) := match o.2 with | some d => [(51, ip4Bytes d)] | none => []
  let tail : List (Nat × Bytes) := [(53, [UInt8.ofNat t]), (54, ip4Bytes n.server)]
  let cls : List (Nat × Bytes) :=
    match o.1 with
    | .net1 => []
    | .net2 => [(121, 0 :: ip4Bytes cfg.net2.gw)]
  base ++ route ++ lt ++ tail ++ cls

/-- `packet.EncodeDHCP4(p, BootReply, typ, nil, netip.Addr{}, yiaddr, nil, false, opts, prl)` as decoded by the
    correspondence harness (chaddr, ciaddr, xid kept; yiaddr kept when the address is invalid) -/
def encodeReply (cfg : Cfg) (m : Msg) (typ : RType) (yi : AddrV) (o : OptsV) : Reply :=
  { typ := typ, yiaddr := (AddrV.toOpt yi).getD m.yiaddr, ciaddr := m.ciaddr, xid := m.xid, chaddr := m.chaddr,
    opts := optsList cfg o (if typ = .offer then 2 else 5), bcast := m.srcIP == 0 }

/-- `nakPacket(p, server.AsSlice(), clientID)` -/
def nakReplyV (m : Msg) (server : AddrV) (c : Cid) : Reply := nakReply m (AddrV.toNat server) c

/-! ### loops -/

/-- what one execution of a loop body ends with -/
inductive Ctl (σ ρ : Type) where
  | next (st : σ)     -- end of body or `continue`
  | brk (st : σ)      -- `break`
  | ret (r : ρ)       -- `return` inside the loop

/-- `for … range l { body }; k` – `st` holds the variables the body assigns -/
def forRange {α σ ρ} (l : List α) (st : σ) (body : σ → α → Ctl σ ρ) (k : σ → ρ) : ρ :=
  match l with
  | [] => k st
  | a :: rest =>
    match body st a with
    | .next st' => forRange rest st' body k
    | .brk st' => k st'
    | .ret r => r

/-- `for cond { body }; k` with fuel: `none` = the fuel ran out (the loop may not terminate) -/
def whileLoop {σ ρ} (fuel : Nat) (st : σ) (cond : σ → Bool) (body : σ → Ctl σ (Option ρ)) (k : σ → Option ρ) : Option ρ :=
  if cond st then
    match fuel with
    | 0 => none
    | f + 1 =>
      match body st with
      | .next st' => whileLoop f st' cond body k
      | .brk st' => k st'
      | .ret r => r
  else k st

end PV.Model.DhcpSrvGo
