/-
  Model of `DecodeQuestion`, `DNSEntry.DecodeAnswers` / `decodeRRs` (layer_dns.go) and of
  `DNSHandler.ProcessDNS` / `DNSFind` (handlers/dns_naming/dns.go, dnstable.go), after the
  `fix:` commits (header validity, record bounds checks, CNAME owner copy).

  Go maps are association lists in insertion order (the code only ever inserts a key that is
  absent – "first wins" – so insertion order is the only freedom, and the driver prints
  records sorted by key).
-/
import PacketVerif.Model.DnsName
namespace PV.Model
open PV

/-- `binary.BigEndian.Uint16(p[i:i+2])` – the slice expression panics when `i+2 > len(p)` -/
def rd16 (p : Bytes) (i : Nat) : Outcome Nat :=
  match slice p i (i + 2) with
  | .ok [a, b] => .ok (be16 a b)
  | .ok _ => .panic
  | .err e => .err e | .panic => .panic | .hang => .hang

def rd32 (p : Bytes) (i : Nat) : Outcome Nat :=
  match slice p i (i + 4) with
  | .ok [a, b, c, d] => .ok (be32 a b c d)
  | .ok _ => .panic
  | .err e => .err e | .panic => .panic | .hang => .hang

structure Question where
  name : Bytes
  qtype : Nat
  qclass : Nat
  deriving DecidableEq, Repr

/-- `DecodeQuestion(p, index, buffer)` → (question, offset after it). -/
def decodeQuestion (p : Bytes) (index : Int) : Outcome (Question × Nat) :=
  if p.length < 12 then .err .frameLen                       -- p.IsValid()  (fix commit)
  else
    match rd16 p 4 with                                       -- p.QDCount()
    | .ok qd =>
      if qd ≠ 1 then .err .parseFrame
      else if index + 5 > p.length then .err .parseFrame             -- fix commit (was index+6)
      else
        match decodeName p index 1 with
        | .ok (name, endq) =>
          if endq + 4 > p.length then .err .parseFrame        -- fix commit
          else
            match rd16 p endq, rd16 p (endq + 2) with
            | .ok t, .ok c => .ok ({ name := name, qtype := t, qclass := c }, endq + 4)
            | .panic, _ => .panic
            | _, .panic => .panic
            | .err e, _ => .err e
            | _, .err e => .err e
            | _, _ => .hang
        | .err e => .err e | .panic => .panic | .hang => .hang
    | .err e => .err e | .panic => .panic | .hang => .hang

structure IPRec where
  name : Bytes
  ip : Bytes
  ttl : Nat
  deriving DecidableEq, Repr

structure NameRec where
  name : Bytes
  cname : Bytes
  ttl : Nat
  deriving DecidableEq, Repr

/-- `packet.DNSEntry`; each map is an association list (key: IP4Records/IP6Records by `ip`,
    CNameRecords by `name`, PTRRecords by `name`). -/
structure DNSEntry where
  name : Bytes
  ip4 : List IPRec
  ip6 : List IPRec
  cname : List NameRec
  ptr : List IPRec
  deriving DecidableEq, Repr

def DNSEntry.empty (name : Bytes) : DNSEntry := { name := name, ip4 := [], ip6 := [], cname := [], ptr := [] }

/-! #### the textual IPv4 parser reached through `net.ParseIP` (netip.parseIPv4Fields) -/

def isDigit (c : UInt8) : Bool := 48 ≤ c && c ≤ 57

/-- state of `parseIPv4Fields`: fields done, current value, digits in the current field -/
def ip4Fields : (s : Bytes) → (prevDot first : Bool) → (fields : List Nat) → (val digLen : Nat) → Option (List Nat)
  | [], _, _, fields, val, _ => if fields.length = 3 then some (fields ++ [val]) else none
  | c :: rest, prevDot, first, fields, val, digLen =>
    if isDigit c then
      if digLen = 1 ∧ val = 0 then none                      -- leading zero
      else
        let v := val * 10 + (c.toNat - 48)
        if v > 255 then none else ip4Fields rest false false fields v (digLen + 1)
    else if c == 46 then
      -- ".1.2.3", "1.2.3." and "1..2.3" are errors
      if first ∨ rest.isEmpty ∨ prevDot then none
      else if fields.length = 3 then none
      else ip4Fields rest true false (fields ++ [val]) 0 0
    else none

/-- dotted-quad parser; `none` = `net.ParseIP` returns nil -/
def parseIP4Text (s : Bytes) : Option (List Nat) := ip4Fields s false true [] 0 0

/-- what `net.ParseIP(s)` followed by `To4()` yields for the PTR owner name -/
inductive PtrIP where
  | invalid               -- ParseIP returned nil → record ignored (fix commit; was the error "invalid PTR IP")
  | v6                    -- parsed, To4() == nil → record ignored
  | v4 (a b c d : Nat)
  deriving DecidableEq, Repr

/-- first of '.', ':' or '%' decides the parser (netip.ParseAddr) -/
def firstSpecial : Bytes → Option UInt8
  | [] => none
  | c :: rest => if c == 46 ∨ c == 58 ∨ c == 37 then some c else firstSpecial rest

/-- `net.ParseIP` + `To4`.  Strings whose first special character is ':' go to the IPv6
    text parser, which is *not* modelled: `ip6` is an arbitrary function (theorems quantify
    over it; the driver instantiates it with `invalid` and the harness does not compare
    those cases). -/
def parsePtrIP (ip6 : Bytes → PtrIP) (s : Bytes) : PtrIP :=
  match firstSpecial s with
  | some 46 =>
    match parseIP4Text s with
    | some [a, b, c, d] => .v4 a b c d
    | _ => .invalid
  | some 58 => ip6 s
  | _ => .invalid

def hasSuffix (s suf : Bytes) : Bool := suf.length ≤ s.length && s.drop (s.length - suf.length) == suf

/-- `strings.TrimSuffix` -/
def trimSuffix (s suf : Bytes) : Bytes := if hasSuffix s suf then s.take (s.length - suf.length) else s

/-- ".in-addr.arpa" -/
def inAddrArpa : Bytes := [46, 105, 110, 45, 97, 100, 100, 114, 46, 97, 114, 112, 97]

def hasIP (l : List IPRec) (ip : Bytes) : Bool := l.any (fun r => r.ip == ip)
def hasIPName (l : List IPRec) (n : Bytes) : Bool := l.any (fun r => r.name == n)
def hasCName (l : List NameRec) (n : Bytes) : Bool := l.any (fun r => r.name == n)

/-- one iteration of the `for i := 0; i < count; i++` loop of `decodeRRs`:
    returns the new entry, the new offset and whether a record was added. -/
def decodeRR (ip6 : Bytes → PtrIP) (e : DNSEntry) (p : Bytes) (offset : Int) : Outcome (DNSEntry × Nat × Bool) :=
  match decodeName p offset 1 with
  | .ok (name, endq) =>
    if endq + 10 > p.length then .err .invalidLen                                   -- fix commit
    else
      match rd16 p endq, rd32 p (endq + 4), rd16 p (endq + 8) with
      | .ok t, .ok ttl, .ok dataLen =>
        let offset' := endq + 10 + dataLen
        if offset' > p.length then .err .invalidLen
        else if t = 1 then
          if dataLen ≠ 4 then .err .invalidLen
          else
            match slice p (endq + 10) (endq + 10 + 4) with
            | .ok ip =>
              if hasIP e.ip4 ip then .ok (e, offset', false)
              else .ok ({ e with ip4 := e.ip4 ++ [{ name := name, ip := ip, ttl := ttl }] }, offset', true)
            | .err er => .err er | .panic => .panic | .hang => .hang
        else if t = 28 then
          if dataLen ≠ 16 then .err .invalidLen
          else
            match slice p (endq + 10) (endq + 10 + 16) with
            | .ok ip =>
              if hasIP e.ip6 ip then .ok (e, offset', false)
              else .ok ({ e with ip6 := e.ip6 ++ [{ name := name, ip := ip, ttl := ttl }] }, offset', true)
            | .err er => .err er | .panic => .panic | .hang => .hang
        else if t = 5 then
          match decodeName p (endq + 10 : Nat) 1 with
          | .ok (cname, _) =>
            if hasCName e.cname name then .ok (e, offset', false)
            else .ok ({ e with cname := e.cname ++ [{ name := name, cname := cname, ttl := ttl }] }, offset', true)
          | .err er => .err er | .panic => .panic | .hang => .hang
        else if t = 15 then .ok (e, offset', false)
        else if t = 12 then
          match parsePtrIP ip6 (trimSuffix name inAddrArpa) with
          | .invalid => .ok (e, offset', false)          -- fix commit: not an IPv4 reverse name → skipped
          | .v6 => .ok (e, offset', false)
          | .v4 a b c d =>
            match decodeName p (endq + 10 : Nat) 1 with
            | .ok (pn, _) =>
              if hasIPName e.ptr pn then .ok (e, offset', false)
              else
                let r : IPRec := { name := pn, ip := [UInt8.ofNat d, UInt8.ofNat c, UInt8.ofNat b, UInt8.ofNat a], ttl := ttl }
                .ok ({ e with ptr := e.ptr ++ [r] }, offset', true)
            | .err er => .err er | .panic => .panic | .hang => .hang
        else .ok (e, offset', false)
      | .panic, _, _ => .panic
      | _, .panic, _ => .panic
      | _, _, .panic => .panic
      | .err er, _, _ => .err er
      | _, .err er, _ => .err er
      | _, _, .err er => .err er
      | _, _, _ => .hang
  | .err er => .err er | .panic => .panic | .hang => .hang

/-- `e.decodeRRs(count, p, offset, buffer)` → (entry as mutated so far, (returned offset, updated)).
    The maps of `e` are mutated in place, so records added before a later record fails stay
    in the entry: the entry is returned next to the outcome. -/
def decodeRRs (ip6 : Bytes → PtrIP) : (count : Nat) → (e : DNSEntry) → (p : Bytes) → (offset : Int) → (updated : Bool) →
    DNSEntry × Outcome (Int × Bool)
  | 0, e, _, offset, updated => (e, .ok (offset, updated))
  | n + 1, e, p, offset, updated =>
    match decodeRR ip6 e p offset with
    | .ok (e', off', u) => decodeRRs ip6 n e' p off' (updated || u)
    | .err er => (e, .err er) | .panic => (e, .panic) | .hang => (e, .hang)

/-- `e.DecodeAnswers(p, offset, buffer)` -/
def decodeAnswers (ip6 : Bytes → PtrIP) (e : DNSEntry) (p : Bytes) (offset : Int) : DNSEntry × Outcome (Int × Bool) :=
  if p.length < 12 then (e, .err .frameLen)                   -- p.IsValid()  (fix commit)
  else
    match rd16 p 6 with                                        -- p.ANCount()
    | .ok an => decodeRRs ip6 an e p offset false
    | .err er => (e, .err er) | .panic => (e, .panic) | .hang => (e, .hang)

/-! #### ProcessDNS on the UDP payload -/

abbrev DNSTable := List (Bytes × DNSEntry)

def DNSTable.find (t : DNSTable) (name : Bytes) : Option DNSEntry :=
  match t.find? (fun kv => kv.1 == name) with
  | some kv => some kv.2
  | none => none

def DNSTable.put (t : DNSTable) (name : Bytes) (e : DNSEntry) : DNSTable :=
  if t.any (fun kv => kv.1 == name) then t.map (fun kv => if kv.1 == name then (name, e) else kv)
  else t ++ [(name, e)]

/-- `h.ProcessDNS(frame)` with `frame.Payload() = p`: new table and the returned entry
    (`none` = the zero `DNSEntry{}` returned when nothing changed).
    The entry looked up in the table shares its inner maps with the table, so records decoded
    before a failing record are visible in the table even though the call returns an error;
    a fresh entry (name not in the table) is stored only when `updated`. -/
def processDNS (ip6 : Bytes → PtrIP) (t : DNSTable) (p : Bytes) : DNSTable × Outcome (Option DNSEntry) :=
  if p.length < 12 then (t, .err .frameLen)
  else
    match decodeQuestion p 12 with
    | .ok (q, index) =>
      let found := t.find q.name
      let e := match found with
        | some e => e
        | none => DNSEntry.empty q.name
      let (e', r) := decodeAnswers ip6 e p index
      let t' := if found.isSome then t.put e'.name e' else t
      match r with
      | .ok (_, updated) =>
        if updated then (t.put e'.name e', .ok (some e')) else (t', .ok none)
      | .err er => (t', .err er)
      | .panic => (t', .panic)
      | .hang => (t', .hang)
    | .err er => (t, .err er)
    | .panic => (t, .panic)
    | .hang => (t, .hang)

end PV.Model
