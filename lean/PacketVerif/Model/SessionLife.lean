/-
  Life cycle of a `packet.Session` (session.go): `NewSession`, `Close`, the minute loop, the NIC monitor, the
  `purge` goroutines the minute loop starts, and `sendNotification` (notification.go) as far as it touches the
  channel `C` and the `closed` flag.

  State: the `closed` flag, the two channels (`closeChan`, `C`: open / closed, what was sent on `C`), the
  goroutines (alive or ended), the host / MAC tables (`Model.Tables.Sess`), one program counter per call of `Close`.

  Atomic steps = what the Go code makes atomic:
    closeMark p   `h.mutex.Lock(); if h.closed { Unlock; return }; h.closed = true; h.mutex.Unlock()`  (one lock section)
    closeStep p   the next statement of the call that passed the mark: `close(h.closeChan)`, `close(h.C)`,
                  `h.Conn.Close()`, `time.Sleep(time.Second)` + return.  `close` of a closed channel is a Go panic.
    minuteTick t  `case <-ticker.C:` of the minute loop: `go h.purge(time.Now())`
    minuteExit    `case <-h.closeChan:` of the minute loop (enabled when closeChan is closed): the goroutine returns
    monitorTick   `case <-ticker.C:` of the NIC monitor: SIGTERM when no IP packet was parsed since the last tick
    monitorExit   `case <-session.closeChan:` of the NIC monitor
    purgeRun      a started `purge(now)` does its table work (`Model.Tables.purge`); the notifications it wants to send
                  are handed to `sendNotification` one at a time
    tableOp op    any other table operation of the session's life (frames, API calls), `Model.Tables.step`
    sendOne       ONE `sendNotification`: `RLock; if closed return; select { case C <- n: default: }` - atomic with
                  respect to `closeMark` (the session mutex); a send on a closed channel is a Go panic
    recv          the application receives one buffered notification from `C`
    parseIP       `Parse` of an IP frame: `atomic.StoreUint32(&h.ipHeartBeat, 1)`

  `winner` is a history variable (never read by a transition).
  Not modelled: socketconn.go (what `Conn.Close` does to the socket and to a blocked `ReadFrom`), the OS probing of
  nic.go (`GetNICInfo`), wall-clock time (when a ticker fires; how long `Close` sleeps), what the SIGTERM does.
-/
import PacketVerif.Model.Tables
namespace PV.Model.SessionLife
open PV PV.Model PV.Model.Tables

/-- `cap(h.C)` (NewSession: `make(chan Notification, 128)`) -/
def cCap : Nat := 128

structure Life where
  tables : Sess
  closed : Bool := false         -- h.closed
  chClosed : Bool := false       -- closeChan is closed
  cClosed : Bool := false        -- C is closed
  connClosed : Nat := 0          -- calls of Conn.Close
  cl : Nat → Nat := fun _ => 0   -- per call of Close: 0 entry, 1 marked, 2 closeChan closed, 3 C closed, 4 Conn closed,
                                 -- 5 returned after the sleep, 6 returned early
  winner : Option Nat := none    -- history: the call that set `closed`
  out : List Notif := []         -- everything sent on C, oldest first
  inC : Nat := 0                 -- buffered in C, not yet received
  pend : List Notif := []        -- notifications still to be handed to sendNotification
  minute : Bool := true          -- the minute loop goroutine is alive
  monitor : Bool := true         -- the NIC monitor goroutine is alive
  purges : List Int := []        -- `go h.purge(now)` started and not yet run
  beat : Nat := 0                -- ipHeartBeat
  killed : Nat := 0              -- SIGTERMs sent to the process

inductive Ev where
  | closeMark (p : Nat) | closeStep (p : Nat)
  | minuteTick (now : Int) | minuteExit | monitorTick | monitorExit
  | purgeRun | tableOp (op : Op) | sendOne | recv | parseIP

/-- result of a step -/
inductive R where
  | next (s : Life)
  | panic          -- a Go run-time panic (close of a closed channel, send on a closed channel)
  | off            -- the step is not enabled in this state

def setCl (s : Life) (p n : Nat) : Life := { s with cl := fun q => if q = p then n else s.cl q }

/-- `NewSession`: both goroutines started, channels open, the two table entries of `Model.Tables.init` -/
def newSession (c : Cfg) (now : Int) (mh mr : String) : Life := { tables := Tables.init c now mh mr }

def step (c : Cfg) (s : Life) : Ev → R
  | .closeMark p =>
    if s.cl p ≠ 0 then .off
    else if s.closed then .next (setCl s p 6)
    else .next { setCl s p 1 with closed := true, winner := some p }
  | .closeStep p =>
    if s.cl p = 1 then (if s.chClosed then .panic else .next { setCl s p 2 with chClosed := true })
    else if s.cl p = 2 then (if s.cClosed then .panic else .next { setCl s p 3 with cClosed := true })
    else if s.cl p = 3 then .next { setCl s p 4 with connClosed := s.connClosed + 1 }
    else if s.cl p = 4 then .next (setCl s p 5)
    else .off
  | .minuteTick now => if s.minute then .next { s with purges := s.purges ++ [now] } else .off
  | .minuteExit => if s.minute ∧ s.chClosed then .next { s with minute := false } else .off
  | .monitorTick =>
    if s.monitor then .next { s with killed := if s.beat = 0 then s.killed + 1 else s.killed, beat := 0 } else .off
  | .monitorExit => if s.monitor ∧ s.chClosed then .next { s with monitor := false } else .off
  | .purgeRun =>
    match s.purges with
    | [] => .off
    | now :: rest =>
      let r := purge c s.tables now
      .next { s with tables := r.1, pend := s.pend ++ r.2, purges := rest }
  | .tableOp op =>
    let r := Tables.step c s.tables op
    .next { s with tables := r.1, pend := s.pend ++ r.2.notifs }
  | .sendOne =>
    match s.pend with
    | [] => .off
    | n :: rest =>
      if s.closed then .next { s with pend := rest }
      else if s.cClosed then .panic
      else if s.inC < cCap then .next { s with pend := rest, out := s.out ++ [n], inC := s.inC + 1 }
      else .next { s with pend := rest }
  | .recv => if 0 < s.inC then .next { s with inC := s.inC - 1 } else .off
  | .parseIP => .next { s with beat := 1 }

/-- a history; steps that are not enabled are skipped (so every list of events is a schedule) -/
def run (c : Cfg) : Life → List Ev → R
  | s, [] => .next s
  | s, e :: es =>
    match step c s e with
    | .next s' => run c s' es
    | .off => run c s es
    | .panic => .panic

end PV.Model.SessionLife
