/-
  Primitives for the regenerated loop bodies (Gen/Loops.lean, written by tools/goextract/loops.go):
  Go `int` values are `Int` (see the `intNoOverflow` assumption of the translator), so an index or a slice
  bound can be negative and is then a run-time panic exactly as in Go.  Slices are seen through the
  length-only view of `PacketVerif/Basic.lean` (cap = len).
-/
import PacketVerif.Basic
namespace PV.Model.LoopGo
open PV

/-- `b[i]` with a Go `int` index: panics when `i < 0` or `i ≥ len(b)` -/
def idxI (b : Bytes) (i : Int) : Outcome UInt8 :=
  if 0 ≤ i then idx b i.toNat else .panic

/-- `b[i] = v` on a local slice / array: panics when `i < 0` or `i ≥ len(b)` -/
def setI (b : Bytes) (i : Int) (v : UInt8) : Outcome Bytes :=
  if 0 ≤ i ∧ i < (b.length : Int) then .ok (b.set i.toNat v) else .panic

/-- `b[lo:hi]` (cap = len): panics unless `0 ≤ lo ≤ hi ≤ len(b)` -/
def sliceI (b : Bytes) (lo hi : Int) : Outcome Bytes :=
  if 0 ≤ lo ∧ lo ≤ hi ∧ hi ≤ (b.length : Int) then .ok ((b.take hi.toNat).drop lo.toNat) else .panic

/-- `copy(dst[lo:hi], src)`: the slice expression panics unless `0 ≤ lo ≤ hi ≤ len(dst)`; then
    `min (hi-lo) (len src)` bytes are copied; returns the new `dst` and the count -/
def copyI (dst : Bytes) (lo hi : Int) (src : Bytes) : Outcome (Bytes × Int) :=
  if 0 ≤ lo ∧ lo ≤ hi ∧ hi ≤ (dst.length : Int) then
    let s := src.take (hi - lo).toNat
    .ok (dst.take lo.toNat ++ (s ++ dst.drop (lo.toNat + s.length)), (s.length : Int))
  else .panic

/-- `make([]byte, n)` -/
def makeBytes (n : Int) : Outcome Bytes :=
  if 0 ≤ n then .ok (List.replicate n.toNat 0) else .panic

/-- `xs[i]` on a `[]string` / `[]net.IP` value or table with a Go `int` index -/
def idxL {α : Type} (xs : List α) (i : Int) : Outcome α :=
  if 0 ≤ i then (match xs[i.toNat]? with | some x => .ok x | none => .panic) else .panic

/-- a nil-able byte slice (`net.IP` compared with `nil` in the function) read as a value: `nil` has length 0 -/
def nilBytes : Option Bytes → Bytes
  | none => []
  | some b => b

/-- `append(dst[lo:hi], text...)` for an ARRAY `dst` (the slice's capacity reaches the end of the array; this is what
    `netip.Addr.AppendTo(l.buffer[i:i])` does with the address text): the slice expression panics unless
    `0 ≤ lo ≤ hi ≤ len(dst)`; the text is written in place when it fits, otherwise the run time allocates a new backing
    array and `dst` is unchanged.  Returns the new `dst` and the appended slice VALUE -/
def appendAtI (dst : Bytes) (lo hi : Int) (text : Bytes) : Outcome (Bytes × Bytes) :=
  if 0 ≤ lo ∧ lo ≤ hi ∧ hi ≤ (dst.length : Int) then
    let pre := (dst.take hi.toNat).drop lo.toNat
    if hi.toNat + text.length ≤ dst.length then
      .ok (dst.take hi.toNat ++ (text ++ dst.drop (hi.toNat + text.length)), pre ++ text)
    else .ok (dst, pre ++ text)
  else .panic

/-- `fastlog.Line`: `buffer [bufSize]byte; index int` as the generated code sees it -/
structure GLine where
  buf : Bytes
  idx : Int

end PV.Model.LoopGo
