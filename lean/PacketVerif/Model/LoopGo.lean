/-
  Primitives for the regenerated loop bodies (Gen/Loops.lean, written by tools/goextract/loops.go):
  Go `int` values are `Int` (see the `intNoOverflow` assumption of the translator), so an index or a slice
  bound can be negative and is then a run-time panic exactly as in Go.  Slices are seen through the
  length-only view of `PacketVerif/Basic.lean` (cap = len).
-/
import PacketVerif.Basic
namespace PV.Model.LoopGo
open PV

/-- `b[i]` with a Go `int` index: panics when `i < 0` or `i ≥ len(b)` -/
def idxI (b : Bytes) (i : Int) : Outcome UInt8 :=
  if 0 ≤ i then idx b i.toNat else .panic

/-- `b[i] = v` on a local slice / array: panics when `i < 0` or `i ≥ len(b)` -/
def setI (b : Bytes) (i : Int) (v : UInt8) : Outcome Bytes :=
  if 0 ≤ i ∧ i < (b.length : Int) then .ok (b.set i.toNat v) else .panic

/-- `b[lo:hi]` (cap = len): panics unless `0 ≤ lo ≤ hi ≤ len(b)` -/
def sliceI (b : Bytes) (lo hi : Int) : Outcome Bytes :=
  if 0 ≤ lo ∧ lo ≤ hi ∧ hi ≤ (b.length : Int) then .ok ((b.take hi.toNat).drop lo.toNat) else .panic

/-- `copy(dst[lo:hi], src)`: the slice expression panics unless `0 ≤ lo ≤ hi ≤ len(dst)`; then
    `min (hi-lo) (len src)` bytes are copied; returns the new `dst` and the count -/
def copyI (dst : Bytes) (lo hi : Int) (src : Bytes) : Outcome (Bytes × Int) :=
  if 0 ≤ lo ∧ lo ≤ hi ∧ hi ≤ (dst.length : Int) then
    let s := src.take (hi - lo).toNat
    .ok (dst.take lo.toNat ++ (s ++ dst.drop (lo.toNat + s.length)), (s.length : Int))
  else .panic

/-- `make([]byte, n)` -/
def makeBytes (n : Int) : Outcome Bytes :=
  if 0 ≤ n then .ok (List.replicate n.toNat 0) else .panic

/-- `fastlog.Line`: `buffer [bufSize]byte; index int` as the generated code sees it -/
structure GLine where
  buf : Bytes
  idx : Int

end PV.Model.LoopGo
