/-
  Model of the DHCPv4 server in handlers/dhcp4_spoofer (lease.go, discover.go, request.go,
  declinerelease.go, dhcp4.go, subnet_lease.go) as a state machine.

  * lease table keyed by client id (`Handler.table`), two subnets with their allocation
    cursor (`dhcpSubnet.nextIP`), the operating mode;
  * the two session oracles the server consults: `hosts` (= `Session.FindIP`) and `captured`
    (= `Session.IsCaptured`).  They belong to the session (C04 model); here they are changed
    only by the environment ops `hostSeen/hostGone/capture/releaseCapture`, so that every
    real execution (where the handler's own `DHCPv4Update` calls and the packet parser also
    touch the session) is an interleaving of model ops.
    `hosts` is the session as the handler finds it when the message arrives (after `Session.Parse` of the frame);
    the one place where the handler itself changes the session before deciding — `DHCPv4Update` at the top of the
    rebooting / rebinding branch — comes AFTER the `takenByOther` test in the code (fix 1742c73), so every test of
    the model reads the pre-state `hosts`.
  * naming after that fix: the library's `inUse(lease, ip)` is `inUse t c ip || takenByOther s mac ip` here
    (`inUse` below is its lease-table half), the library's `takenByOther` is `takenByOther` here.
  * `step` returns the LIST of admissible outcomes (singleton wherever the Go code is
    deterministic; the code no longer depends on map iteration order after the `inUse` fix,
    `freeLeases` visits every entry).
  Time is a `Nat` (seconds on the harness's canonical clock); `netip.Addr{}` (invalid) is `none`.
-/
import PacketVerif.Basic
namespace PV.Model.Dhcp4Srv
open PV

abbrev IP := Nat
abbrev MAC := Bytes
abbrev Cid := Bytes

inductive LState where
  | free | discover | allocated
  deriving DecidableEq, Repr

inductive SubId where
  | net1 | net2
  deriving DecidableEq, Repr

inductive Mode where
  | primary | secondary | nice
  deriving DecidableEq, Repr

/-- `dhcpSubnet` configuration part (`LAN` is the masked prefix). -/
structure Subnet where
  lan : IP
  bits : Nat
  gw : IP
  dns : IP
  server : IP
  first : IP
  dur : Nat
  deriving DecidableEq, Repr

def Subnet.size (s : Subnet) : Nat := 2 ^ (32 - s.bits)
/-- `LAN.Contains(ip)` : same prefix. -/
def Subnet.contains (s : Subnet) (ip : IP) : Bool := ip / s.size == s.lan / s.size
/-- `dhcpSubnet.broadcast` : LAN address with all host bits set. -/
def Subnet.bcast (s : Subnet) : IP := s.lan / s.size * s.size + (s.size - 1)

structure Cfg where
  mode : Mode
  host : IP
  router : IP
  net1 : Subnet
  net2 : Subnet
  deriving DecidableEq, Repr

/-! ### `Config.New`: where the two subnets come from -/

/-- what `Config.New` builds the handler from: the operating mode, the NIC information of the session (host and
    router address, home LAN prefix) and the configuration (netfilter prefix `NetfilterIP` — its ADDRESS is our address
    on the netfilter subnet —, the DNS server for clients that are not captured; `none` = not configured) -/
structure NewCfg where
  mode : Mode
  host : IP
  router : IP
  homeLan : IP
  homeBits : Nat
  nfAddr : IP
  nfBits : Nat
  dns : Option IP
  deriving DecidableEq, Repr

/-- `packet.DNSv4CloudFlareFamily1` = 1.1.1.3 -/
def familyDNS : IP := 16843011

/-- `newSubnet` on a configuration without FirstIP and Duration: masked prefix, first address after the network
    address, four hours -/
def mkSubnet (lan : IP) (bits : Nat) (gw dns server : IP) : Subnet :=
  let l := lan / 2 ^ (32 - bits) * 2 ^ (32 - bits)
  { lan := l, bits := bits, gw := gw, dns := dns, server := server, first := l + 1, dur := 14400 }

/-- the two validations of the netfilter prefix in `Config.New`: its address lies in the home LAN and (fix ebe424c) its
    prefix is not shorter than the home prefix, i.e. the netfilter LAN is a subnet of the home LAN -/
def NewCfg.accepted (n : NewCfg) : Bool :=
  n.nfAddr / 2 ^ (32 - n.homeBits) == n.homeLan / 2 ^ (32 - n.homeBits) && decide (n.homeBits ≤ n.nfBits)

/-- the configuration `Config.New` constructs (empty lease file or reset): home subnet = home LAN with the REAL router as
    gateway and the configured DNS server (the router when none is configured); netfilter subnet = the netfilter prefix
    with OUR netfilter address as gateway and the family DNS server; we are the DHCP server of both -/
def mkCfg (n : NewCfg) : Cfg :=
  { mode := n.mode, host := n.host, router := n.router,
    net1 := mkSubnet n.homeLan n.homeBits n.router (n.dns.getD n.router) n.host,
    net2 := mkSubnet n.nfAddr n.nfBits n.nfAddr familyDNS n.host }

def Cfg.sub (cfg : Cfg) : SubId → Subnet
  | .net1 => cfg.net1
  | .net2 => cfg.net2

structure Lease where
  state : LState
  mac : MAC
  ip : Option IP       -- Addr.IP
  offer : Option IP    -- IPOffer
  xid : Bytes
  sub : SubId
  expiry : Nat         -- DHCPExpiry
  deriving DecidableEq, Repr

abbrev Table := List (Cid × Lease)

structure State where
  table : Table
  next1 : IP
  next2 : IP
  hosts : List (IP × MAC)
  captured : List MAC
  deriving DecidableEq, Repr

/-- fields of a client message the server looks at (all arbitrary) -/
structure Msg where
  chaddr : MAC
  cidOpt : Option Bytes    -- option 61 (present, possibly empty) or absent
  reqOpt : Option Bytes    -- option 50 raw value
  srvOpt : Option Bytes    -- option 54 raw value
  xid : Bytes
  ciaddr : IP
  yiaddr : IP              -- kept in the reply buffer when the reply address is invalid
  srcIP : IP               -- source address of the IP packet
  bflag : Bool             -- broadcast flag (read after the buffer was rewritten: ignored)
  deriving Repr

inductive Op where
  | discover (now : Nat) (m : Msg)
  | request (now : Nat) (m : Msg)
  | decline (m : Msg)
  | release (m : Msg)
  | capture (mac : MAC)
  | releaseCapture (mac : MAC)
  | minuteTick (now : Nat)
  | hostSeen (ip : IP) (mac : MAC)
  | hostGone (ip : IP)
  deriving Repr

inductive RType where
  | offer | ack | nak
  deriving DecidableEq, Repr

/-- a server reply as put on the wire (decoded fields; option map sorted by code) -/
structure Reply where
  typ : RType
  yiaddr : IP
  ciaddr : IP
  xid : Bytes
  chaddr : MAC
  opts : List (Nat × Bytes)
  bcast : Bool
  deriving DecidableEq, Repr

/-! ### netip / option helpers -/

/-- `netip.AddrFromSlice` as far as the server can tell the results apart -/
inductive AddrV where
  | invalid | v4 (ip : IP) | v6
  deriving DecidableEq, Repr

def ipOfBytes (a b c d : UInt8) : IP := be32 a b c d

def addrFromSlice (b : Bytes) : AddrV :=
  match b with
  | [a, b, c, d] => .v4 (ipOfBytes a b c d)
  | _ => if b.length = 16 then .v6 else .invalid

def ip4Bytes (ip : IP) : Bytes :=
  [UInt8.ofNat (ip / 16777216), UInt8.ofNat (ip / 65536), UInt8.ofNat (ip / 256), UInt8.ofNat ip]

/-- `options[code]` of an absent option is the nil slice -/
def optBytes (o : Option Bytes) : Bytes := o.getD []

/-- handleRequest: option present and a 4-byte address, else 0.0.0.0 -/
def reqAddr (o : Option Bytes) : IP :=
  match o with
  | some b => match addrFromSlice b with
    | .v4 ip => ip
    | _ => 0
  | none => 0

/-- `getClientID` -/
def clientId (m : Msg) : Cid :=
  match m.cidOpt with
  | some c => if c.isEmpty then m.chaddr else c
  | none => m.chaddr

/-! ### lease table -/

def getLease (t : Table) (c : Cid) : Option Lease := (t.find? (fun e => e.1 == c)).map (·.2)
def delLease (t : Table) (c : Cid) : Table := t.filter (fun e => e.1 != c)
def setLease (t : Table) (c : Cid) (l : Lease) : Table := (c, l) :: delLease t c

def isCaptured (s : State) (mac : MAC) : Bool := s.captured.contains mac
def sessionKnows (s : State) (ip : IP) : Option MAC := (s.hosts.find? (fun e => e.1 == ip)).map (·.2)

def selSub (s : State) (mac : MAC) : SubId := if isCaptured s mac then .net2 else .net1

def freshLease (mac : MAC) (sub : SubId) : Lease :=
  { state := .free, mac := mac, ip := none, offer := none, xid := [], sub := sub, expiry := 0 }

/-- `findOrCreate` : the existing lease when it is in the subnet selected by the capture state and
    has the same MAC, else a fresh free lease (which replaces the old one). -/
def findOrCreate (s : State) (c : Cid) (mac : MAC) : Lease :=
  match getLease s.table c with
  | some l => if l.sub = selSub s mac ∧ l.mac = mac then l else freshLease mac (selSub s mac)
  | none => freshLease mac (selSub s mac)

/-- `inUse` : ip is the address of a non-free lease of another client -/
def inUse (t : Table) (c : Cid) (ip : Option IP) : Bool :=
  t.any (fun e => e.1 != c && e.2.state != .free && e.2.ip == ip)

/-- `takenByOther` : the session tracks the address for a MAC other than the lease's
    (`FindIP` of the invalid address finds nothing) -/
def takenByOther (s : State) (mac : MAC) (ip : Option IP) : Bool :=
  match ip with
  | some a =>
    match sessionKnows s a with
    | some m => m != mac
    | none => false
  | none => false

/-- static part of `available` -/
def usable (cfg : Cfg) (sub : SubId) (ip : IP) : Bool :=
  let n := cfg.sub sub
  n.contains ip && ip != n.lan && ip != n.bcast && ip != n.gw && ip != cfg.host && ip != cfg.router

def available (cfg : Cfg) (s : State) (c : Cid) (sub : SubId) (ip : IP) : Bool :=
  usable cfg sub ip && !inUse s.table c (some ip) && (sessionKnows s ip).isNone

/-- the cursor loop `for nextIP.Less(broadcast) { if available(nextIP) {ip = nextIP; nextIP++; break}; nextIP++ }`
    with `k` = number of addresses left before the broadcast address: (found, cursor afterwards) -/
def scanAux (av : IP → Bool) (n : IP) : Nat → Option IP × IP
  | 0 => (none, n)
  | k + 1 => if av n then (some n, n + 1) else scanAux av (n + 1) k

def scan (av : IP → Bool) (n bcast : IP) : Option IP × IP := scanAux av n (bcast - n)

def cursor (s : State) : SubId → IP
  | .net1 => s.next1
  | .net2 => s.next2

def setCursor (s : State) (sub : SubId) (n : IP) : State :=
  match sub with
  | .net1 => { s with next1 := n }
  | .net2 => { s with next2 := n }

/-- `allocIPOffer` : requested address if available, else scan from the cursor, else from FirstIP.
    Result: offered address (none = exhausted) and the cursor afterwards. -/
def allocIPOffer (cfg : Cfg) (s : State) (c : Cid) (sub : SubId) (req : AddrV) : Option IP × IP :=
  let av := available cfg s c sub
  let n := cfg.sub sub
  let scans : Option IP × IP :=
    match scan av (cursor s sub) n.bcast with
    | (some ip, cur) => (some ip, cur)
    | (none, _) => scan av n.first n.bcast
  match req with
  | .v4 ip => if av ip then (some ip, cursor s sub) else scans
  | _ => scans

/-! ### reply construction -/

def maskBytes (bits : Nat) : Bytes := ip4Bytes (4294967296 - 2 ^ (32 - bits))

/-- `subnet.CopyOptions()` + lease time + message type, sorted by option code -/
def replyOpts (cfg : Cfg) (sub : SubId) (t : Nat) : List (Nat × Bytes) :=
  let n := cfg.sub sub
  let base : List (Nat × Bytes) := [(1, maskBytes n.bits), (3, ip4Bytes n.gw), (6, ip4Bytes n.dns)]
  let route : List (Nat × Bytes) :=
    match sub with
    | .net1 => []
    | .net2 => [(31, [0]), (33, ip4Bytes cfg.net1.gw ++ ip4Bytes cfg.net2.gw)]
  let tail : List (Nat × Bytes) := [(51, ip4Bytes n.dur), (53, [UInt8.ofNat t]), (54, ip4Bytes n.server)]
  let cls : List (Nat × Bytes) :=
    match sub with
    | .net1 => []
    | .net2 => [(121, 0 :: ip4Bytes cfg.net2.gw)]
  base ++ route ++ tail ++ cls

def mkReply (cfg : Cfg) (m : Msg) (typ : RType) (l : Lease) (addr : Option IP) : Reply :=
  { typ := typ, yiaddr := addr.getD m.yiaddr, ciaddr := m.ciaddr, xid := m.xid, chaddr := m.chaddr,
    opts := replyOpts cfg l.sub (if typ = .offer then 2 else 5), bcast := m.srcIP == 0 }

/-- `nakPacket` -/
def nakReply (m : Msg) (server : IP) (c : Cid) : Reply :=
  { typ := .nak, yiaddr := 0, ciaddr := 0, xid := m.xid, chaddr := m.chaddr,
    opts := [(53, [6]), (54, ip4Bytes server), (61, c)], bcast := m.srcIP == 0 }

/-! ### handlers -/

def attacks (cfg : Cfg) (s : State) (mac : MAC) : Bool :=
  cfg.mode == .secondary || (cfg.mode == .nice && isCaptured s mac)

/-- `handleDiscover` -/
def discover (cfg : Cfg) (s : State) (now : Nat) (m : Msg) : State × List Reply :=
  let c := clientId m
  let l0 := findOrCreate s c m.chaddr
  let la : Lease :=
    match l0.state with
    | .allocated => { l0 with offer := if l0.expiry < now then none else l0.ip }
    | .discover => if l0.xid != m.xid then { l0 with offer := none } else l0
    | .free => l0
  let l1 : Lease :=
    if inUse s.table c la.offer || takenByOther s la.mac la.offer then { la with offer := none } else la
  let fin (s : State) (l : Lease) : State × List Reply :=
    let l' := { l with state := .discover, xid := m.xid }
    ({ s with table := setLease s.table c l' }, [mkReply cfg m .offer l' l'.offer])
  match l1.offer with
  | some _ => fin s l1
  | none =>
    match allocIPOffer cfg s c l1.sub (addrFromSlice (optBytes m.reqOpt)) with
    | (some ip, cur) => fin (setCursor s l1.sub cur) { l1 with offer := some ip }
    | (none, cur) => ({ setCursor s l1.sub cur with table := delLease s.table c }, [])

inductive ReqKind where
  | selecting | renewing | rebinding | rebooting
  deriving DecidableEq, Repr

/-- the ACK tail of `handleRequest` -/
def ackLease (cfg : Cfg) (s : State) (now : Nat) (m : Msg) (c : Cid) (l : Lease) : State × List Reply :=
  let l1 : Lease := if l.state = .discover then { l with ip := l.offer, offer := none } else l
  let l2 : Lease := { l1 with state := .allocated, expiry := now + (cfg.sub l.sub).dur }
  ({ s with table := setLease s.table c l2 }, [mkReply cfg m .ack l2 l2.ip])

/-- what `handleRequest` decides after `findOrCreate` : NAK with a server id, silence, or ACK;
    `nak`/`silent` carry the lease as it is left in the table -/
inductive Verdict where
  | nak (server : IP) (l : Lease)
  | silent (l : Lease)
  | ack
  deriving Repr

def reqKind (m : Msg) : ReqKind :=
  let reqOpt := reqAddr m.reqOpt
  if reqAddr m.srvOpt != 0 then .selecting
  else if reqOpt == 0 && m.srcIP != 4294967295 then .renewing
  else if reqOpt == 0 && m.srcIP == 4294967295 then .rebinding
  else .rebooting

def reqIPOf (m : Msg) : IP :=
  if reqKind m = .renewing ∨ reqKind m = .rebinding then m.ciaddr else reqAddr m.reqOpt

/-- selecting for another server: "Keep state discover in case we get a second request, free all other states" -/
def otherServer (l : Lease) : Lease :=
  if l.state != .discover then { l with state := .free, ip := none } else l

/-- the NAK test of the selecting branch (first disjunct: the `StateFree` fix) -/
def selBad (s : State) (m : Msg) (l : Lease) : Bool :=
  l.state == .free || l.mac != m.chaddr
    || (l.state == .discover && (l.xid != m.xid || l.offer != some (reqIPOf m) || inUse s.table (clientId m) l.offer
          || takenByOther s l.mac l.offer))
    || (l.state == .allocated && (l.ip != some (reqIPOf m) || takenByOther s l.mac l.ip))

/-- the NAK test of the renewing branch -/
def renewBad (s : State) (now : Nat) (m : Msg) (l : Lease) : Bool :=
  l.state != .allocated || l.ip != some (reqIPOf m) || l.mac != m.chaddr || decide (l.expiry < now)
    || takenByOther s l.mac l.ip

/-- the NAK test of the rebooting / rebinding branch (`taken` is computed from the session as it is
    BEFORE `DHCPv4Update` records the requested address for the requester) -/
def rebootBad (s : State) (subnet : Subnet) (m : Msg) (l : Lease) : Bool :=
  l.state != .allocated || l.ip != some (reqIPOf m) || l.mac != m.chaddr
    || !(match l.ip with | some ip => subnet.contains ip | none => false)
    || takenByOther s l.mac (some (reqIPOf m))

/-- the main switch of `handleRequest` (order of the tests as in the code) -/
def verdict (cfg : Cfg) (s : State) (now : Nat) (m : Msg) (l : Lease) : Verdict :=
  let subnet := cfg.sub (selSub s m.chaddr)
  match reqKind m with
  | .selecting =>
    if reqAddr m.srvOpt != subnet.server then
      if attacks cfg s m.chaddr then .nak subnet.server (otherServer l) else .silent (otherServer l)
    else if selBad s m l then .nak subnet.server l
    else .ack
  | .renewing =>
    if renewBad s now m l then .nak subnet.server l else .ack
  | _ =>
    if l.state == .free && attacks cfg s m.chaddr then .nak cfg.net1.gw l
    else if rebootBad s subnet m l then .nak subnet.server l
    else .ack

def Verdict.kept : Verdict → Option Lease
  | .nak _ l => some l
  | .silent l => some l
  | .ack => none

/-- `handleRequest` -/
def request (cfg : Cfg) (s : State) (now : Nat) (m : Msg) : State × List Reply :=
  let c := clientId m
  if reqIPOf m == 0 then (s, [])
  else
    let l := findOrCreate s c m.chaddr
    match verdict cfg s now m l with
    | .nak server l' => ({ s with table := setLease s.table c l' }, [nakReply m server c])
    | .silent l' => ({ s with table := setLease s.table c l' }, [])
    | .ack => ackLease cfg s now m c l

/-- `lease.Addr.IP == reqIP` for the raw requested-address option of a DECLINE -/
def sameAddr (req : AddrV) (ip : Option IP) : Bool :=
  match req, ip with
  | .invalid, none => true
  | .v4 a, some b => a == b
  | _, _ => false

/-- `handleDecline` -/
def decline (cfg : Cfg) (s : State) (m : Msg) : State × List Reply :=
  let c := clientId m
  let l := findOrCreate s c m.chaddr
  if addrFromSlice (optBytes m.srvOpt) != .v4 (cfg.sub l.sub).server then
    ({ s with table := setLease s.table c l }, [])
  else if !sameAddr (addrFromSlice (optBytes m.reqOpt)) l.ip || l.mac != m.chaddr then
    ({ s with table := setLease s.table c l }, [])
  else ({ s with table := setLease s.table c { l with state := .free, ip := none, offer := none } }, [])

/-- `handleRelease` : only the effect of `findOrCreate` -/
def release (_cfg : Cfg) (s : State) (m : Msg) : State × List Reply :=
  let c := clientId m
  ({ s with table := setLease s.table c (findOrCreate s c m.chaddr) }, [])

/-- `freeLeases` -/
def freeLeases (t : Table) (now : Nat) : Table :=
  t.map (fun e => if e.2.state != .free && e.2.expiry < now then (e.1, { e.2 with state := .free }) else e)

/-- one operation; list of admissible (post-state, replies) -/
def step (cfg : Cfg) (s : State) : Op → List (State × List Reply)
  | .discover now m => [discover cfg s now m]
  | .request now m => [request cfg s now m]
  | .decline m => [decline cfg s m]
  | .release m => [release cfg s m]
  | .capture mac => [({ s with captured := mac :: s.captured }, [])]
  | .releaseCapture mac => [({ s with captured := s.captured.filter (· != mac) }, [])]
  | .minuteTick now => [({ s with table := freeLeases s.table now }, [])]
  | .hostSeen ip mac => [({ s with hosts := (ip, mac) :: s.hosts.filter (fun e => e.1 != ip) }, [])]
  | .hostGone ip => [({ s with hosts := s.hosts.filter (fun e => e.1 != ip) }, [])]

/-- all states reachable by an op sequence, with the replies of the last op -/
def run (cfg : Cfg) : State → List Op → List State
  | s, [] => [s]
  | s, op :: ops => (step cfg s op).flatMap (fun o => run cfg o.1 ops)

def init (cfg : Cfg) : State :=
  { table := [], next1 := cfg.net1.first, next2 := cfg.net2.first, hosts := [], captured := [] }

end PV.Model.Dhcp4Srv
