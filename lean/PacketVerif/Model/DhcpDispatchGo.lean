/-
  Run-time vocabulary of the regenerated `Handler.ProcessPacket` of handlers/dhcp4_spoofer (the dispatch; translator
  tools/goextract/dhcpsrv*.go, dictionary entries marked "ProcessPacket" in dhcpsrv_dict.go).

  `FrameV` is what the dispatch reads of the `packet.Frame` it is given.  Three fields are plain frame fields
  (`PayloadID`, `DstAddr.Port`, `SrcAddr.IP`, `Host`); the others are the values of calls on the payload view
  `dhcpFrame := packet.DHCP4(frame.Payload())` whose bodies are regenerated and tied ELSEWHERE, or that are outside the
  regenerated code:
    valid      `dhcpFrame.IsValid()`                    (F10: Gen.Valid.genValidDHCP4, C01ValidTie.dhcp4_tie)
    mtOpt      `dhcpFrame.ParseOptions()[53]`           (F14: Gen.LoopsOpts.genDHCP4_ParseOptions, C08OptTie.parseOptions_tie)
    m          the message as the handlers read it: header getters + options 61 / 50 / 54 (`Dhcp4Frame.msgOf`)
    cap        `cap(frame.Payload())`: the room the in-place reply has
    clientRet  what `processClientPacket` (client.go, not regenerated) returns
    sendErr    what the connection's `WriteTo` returns
  `Props/C12DispatchTie.frameVOf` computes them from the raw payload in the order the Go code evaluates them.
-/
import PacketVerif.Model.DhcpSrvGo
import PacketVerif.Model.Dhcp4Frame
namespace PV.Model.DhcpDispatchGo
open PV PV.Model PV.Model.Dhcp4Srv PV.Model.DhcpSrvGo

structure FrameV where
  pid : Nat := 0
  dstPort : Nat := 0
  srcIP : AddrV := .invalid
  host : Option MAC := none
  valid : Option Err := none
  mtOpt : Option Bytes := none
  m : Msg
  cap : Nat := 0
  clientRet : Option Err := none
  sendErr : Option Err := none

/-- `b[i]` as a number; 256 (no byte) outside the slice — the dispatch indexes under `len(t) == 1` only, and the tie
    shows the value outside is never looked at -/
def byteAt (b : Bytes) (i : Nat) : Nat :=
  match b[i]? with
  | some x => x.toNat
  | none => 256

/-- `response != nil`: a handler's reply value is a packet iff the in-place encoder found room for it in the request
    buffer (`EncodeDHCP4(p, …)` returns nil otherwise: fix 4da685d) -/
def replyPresent (cap : Nat) (r : Option Reply) : Bool :=
  match r with
  | some r => Dhcp4Frame.fits cap r
  | none => false

end PV.Model.DhcpDispatchGo
