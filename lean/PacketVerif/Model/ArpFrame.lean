/-
  The ARP handler on RAW frames: the packet loop of the library (examples/arpspoofer: `frame, err :=
  s.Parse(buf)`; on an error the frame is dropped; `frame.PayloadID == PayloadARP` →
  `arpSpoofer.ProcessPacket(frame)`) composed with the classification part of
  `arp_spoofer.ProcessPacket` (handlers/arp_spoofer/arp.go):

      PayloadID != PayloadARP → ErrParseFrame          ARP(frame.Payload()).IsValid() → error
      sender or target protocol address link-local → nil
      operation 2 → reply;  operation 1 → announcement (sender IP = target IP) | probe (sender IP zero)
                                          | request;   other operations → nil ("invalid operation")
      request: `_, hunting := huntList[arp.SrcMAC()]`; `hunting && arp.DstIP() == RouterAddr4.IP` → forged reply
      probe:   `offer := session.DHCPv4IPOffer(arp.SrcMAC()); offer.Is4() && offer != arp.DstIP()` and
               `HomeLAN4.Contains(arp.DstIP())` → probe-reject reply

  `arpEventOf` maps the frame bytes to the event of the hunt machine (Model/ArpHunt.lean) that the
  handler's decision is, built from `Model.parse` and `Model.Ndp.arpClassify`; `none` = the frame never
  reaches a decision (dropped by the loop / rejected by the handler's validation / ignored).
-/
import PacketVerif.Model.Parse
import PacketVerif.Model.Ndp
import PacketVerif.Model.ArpHunt
namespace PV.Model.ArpFrame
open PV PV.Model

structure Cfg where
  parse : Model.Cfg      -- NICInfo.HostAddr4.MAC, RouterAddr4.MAC, HomeLAN4
  routerIP : Bytes       -- NICInfo.RouterAddr4.IP (4 bytes)
  deriving Repr, DecidableEq

/-- the event an `ArpClass` of the handler's classification is; `esrc` = `frame.SrcAddr.MAC`,
    `offer` = `session.DHCPv4IPOffer` (`none`: no IPv4 offer outstanding) -/
def eventOfClass (c : Cfg) (offer : Bytes → Option Bytes) (esrc : Bytes) : Ndp.ArpClass → Option ArpHunt.Event
  | .request smac _ tip => some (.rxRequest esrc smac (tip == c.routerIP))
  | .probe smac tip => some (.rxProbe smac (offer smac) tip (Netip.prefixContains c.parse.lanAddr c.parse.lanBits tip))
  | .announcement => some .rxOther
  | .reply => some .rxOther
  | _ => none

def arpEventOf (c : Cfg) (offer : Bytes → Option Bytes) (p : Bytes) : Outcome (Option ArpHunt.Event) := do
  let r ← parse c.parse p
  if r.err.isSome then pure none                    -- the loop drops frames Parse rejects
  else if r.frame.pid ≠ Pid.arp then pure none       -- not dispatched to the ARP handler (ErrParseFrame)
  else do
    let b ← sliceFrom p r.frame.offPayload           -- frame.Payload()
    let cl ← Ndp.arpClassify b
    pure (eventOfClass c offer r.frame.srcMAC cl)

/-- the machine event of a received frame; a frame without decision is the no-op event -/
def arpEvent (c : Cfg) (offer : Bytes → Option Bytes) (p : Bytes) : ArpHunt.Event :=
  match arpEventOf c offer p with
  | .ok (some e) => e
  | _ => .rxOther

/-- histories over raw frames: API calls / loop steps of the hunt machine, and received frames (with the
    DHCP offer table of the session at that moment) -/
inductive RawEv where
  | ev (e : ArpHunt.Event)
  | frame (offer : Bytes → Option Bytes) (p : Bytes)

/-- the events of the machine that stand for a received packet -/
def isRx : ArpHunt.Event → Bool
  | .rxRequest _ _ _ => true
  | .rxProbe _ _ _ _ => true
  | .rxOther => true
  | _ => false

/-- a raw history: received packets appear only as frames (bytes), never as abstract events -/
def RawEv.wf : RawEv → Bool
  | .ev e => !isRx e
  | .frame _ _ => true

def evOf (c : Cfg) : RawEv → ArpHunt.Event
  | .ev e => e
  | .frame offer p => arpEvent c offer p

def runRaw (c : Cfg) (s : ArpHunt.State) (ops : List RawEv) : Option (ArpHunt.State × List ArpHunt.Out) :=
  ArpHunt.run s (ops.map (evOf c))

end PV.Model.ArpFrame
