/-
  The BYTES of a DHCPv4 server reply: how `handleDiscover` / `handleRequest` / `nakPacket` (handlers/dhcp4_spoofer
  discover.go, request.go) call `packet.EncodeDHCP4` IN PLACE over the request payload, as a function of the abstract
  `Dhcp4Srv.Reply`, the request payload and its capacity.

      OFFER : EncodeDHCP4(p, BootReply, Offer, nil, netip.Addr{}, lease.IPOffer, nil, false, opts, options[55])
      ACK   : EncodeDHCP4(p, BootReply, ACK,   nil, netip.Addr{}, lease.Addr.IP, nil, false, opts, options[55])
      NAK   : EncodeDHCP4(p, BootReply, NAK,   nil, IPv4zero,     IPv4zero,      nil, false, {54, 61}, nil)

  chaddr = nil and xid = nil KEEP the request's bytes 28..33 and 4..7; the invalid `netip.Addr{}` keeps ciaddr (bytes
  12..15); yiaddr is written (an invalid lease address would keep bytes 16..19, which is what `mkReply` records as
  `yiaddr` then: writing those four bytes is the same); the order argument is the request's parameter request list
  (option 55 as parsed, nil for a NAK); the option map is the reply's (`opts` of the subnet + lease time; the
  message type is set by the encoder).  `tail` is the iteration order of the Go map over the options left after the
  ordered phase (`Model.Dhcp4Opt.emitSeq`).  The buffer the encoder works on is the payload's backing array up to its
  capacity: the request bytes followed by `spare` (whatever the receive buffer holds behind the payload — the
  theorems show the reply does not depend on it).
-/
import PacketVerif.Model.Dhcp4Frame
import PacketVerif.Model.Encode
namespace PV.Model.Dhcp4Frame
open PV PV.Model PV.Model.Dhcp4Srv PV.Model.Dhcp4Opt

/-- DHCP message type of a reply (RFC 2132 §9.6) -/
def mtOf : RType → UInt8
  | .offer => 2
  | .ack => 5
  | .nak => 6

/-- the option map handed to the encoder -/
def wireOpts (r : Reply) : Opts := r.opts.map (fun e => (UInt8.ofNat e.1, e.2))

/-- the arguments of the `EncodeDHCP4` call that writes reply `r`; `prl` = the request's option 55 as parsed -/
def replyArgs (r : Reply) (prl : Option Bytes) : EncArgs :=
  { opcode := 2, mt := mtOf r.typ, chaddr := none,
    ciaddr := if r.typ = .nak then some (ip4Bytes r.ciaddr) else none,
    yiaddr := some (ip4Bytes r.yiaddr), xid := none, broadcast := false,
    opts := wireOpts r, order := if r.typ = .nak then [] else optBytes prl }

/-- **the bytes the handler writes for reply `r`** over request payload `p` received in a buffer with `spare` behind
    it; `.ok []` = the encoder returned nil (no reply is sent) -/
def replyBytes (p spare : Bytes) (prl : Option Bytes) (r : Reply) (tail : List UInt8) : Outcome Bytes :=
  encodeDHCP4 (p ++ spare) (replyArgs r prl) tail

/-- the reply frames of one call on the wire: every reply of `processRaw` encoded over the request (`tails`: one map
    iteration order per reply) -/
def replyFrames (p spare : Bytes) (o : Opts) (rs : List Reply) (tails : List (List UInt8)) : List (Outcome Bytes) :=
  (rs.zip tails).map (fun rt => replyBytes p spare (optGet o 55) rt.1 rt.2)

/-! ### the frame around the reply: `sendDHCP4Packet` as `ProcessPacket` calls it

      if frame.SrcAddr.IP == IPv4zero || dhcpFrame.Broadcast()     -- Broadcast() is read AFTER the buffer was rewritten
          dst = {EthBroadcast, 255.255.255.255, 68}                 -- (flags cleared): only the zero source selects it
      else dst = {frame.SrcAddr.MAC, frame.SrcAddr.IP, 68}
      src = {NICInfo.HostAddr4.MAC, NICInfo.HostAddr4.IP, 67}
      sendDHCP4Packet(conn, src, dst, response)                     -- `Model.Encode.sendUDP4`, TTL 50 -/

def ethBroadcast : Bytes := [0xff, 0xff, 0xff, 0xff, 0xff, 0xff]

/-- destination (MAC, IPv4 address) of a reply to a request whose frame had Ethernet source `srcMAC` -/
def replyDest (srcMAC : Bytes) (rx : Rx) (r : Reply) : Bytes × Bytes :=
  if r.bcast then (ethBroadcast, [255, 255, 255, 255]) else (srcMAC, ip4Bytes rx.srcIP)

/-- **the frame written for a reply**: `msg` (the encoded DHCP message) in UDP 67 → 68 / IPv4 / Ethernet from the host's
    NIC (`hostMAC`, `hostIP`), built in a pool buffer `g` -/
def replyFrame (g : Mem) (hostMAC : Bytes) (hostIP : IP) (srcMAC : Bytes) (rx : Rx) (r : Reply) (msg : Bytes) :
    Outcome Bytes :=
  sendUDP4 g hostMAC (replyDest srcMAC rx r).1 50 (ip4Bytes hostIP) (replyDest srcMAC rx r).2 67 68 msg

end PV.Model.Dhcp4Frame
