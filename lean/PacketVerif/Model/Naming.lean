/-
  Model of the name-merge algebra (`NameEntry.Merge` in mactable.go, `Host.Update*Name` in
  hosttable.go) and of the small naming decoders of handlers/dns_naming: NBNS
  (`decodeNBNSName`, `parseNodeNameArray`, `processNBNSNodeStatusResponse`), the SSDP
  cache-control post-parse logic and mDNS `parseTXT`, after the `fix:` commits
  (parseNodeNameArray stride, SSDP pairs).
-/
import PacketVerif.Basic
namespace PV.Model
open PV

/-! ### NameEntry.Merge -/

/-- `packet.NameEntry`; strings are byte strings, `expire` is the `time.Time` as integer ns
    (0 = the zero `time.Time{}`). -/
structure NameEntry where
  type : Bytes
  name : Bytes
  model : Bytes
  manufacturer : Bytes
  os : Bytes
  expire : Int
  deriving DecidableEq, Repr

def NameEntry.zero : NameEntry := { type := [], name := [], model := [], manufacturer := [], os := [], expire := 0 }

/-- one attribute step of `Merge`: `if new != "" && cur != new { cur = new; modified = true }` -/
def mergeAttr (cur new : Bytes) : Bytes × Bool :=
  if new ≠ [] ∧ cur ≠ new then (new, true) else (cur, false)

/-- `func (e NameEntry) Merge(nameEntry NameEntry) (newEntry NameEntry, modified bool)` -/
def NameEntry.merge (e n : NameEntry) : NameEntry × Bool :=
  let (name, m1) := mergeAttr e.name n.name
  let (model, m2) := mergeAttr e.model n.model
  let (os, m3) := mergeAttr e.os n.os
  let (manuf, m4) := mergeAttr e.manufacturer n.manufacturer
  let modified := m1 || m2 || m3 || m4
  let expire := if modified ∧ n.expire ≠ 0 then n.expire else e.expire
  ({ type := n.type, name := name, model := model, manufacturer := manuf, os := os, expire := expire }, modified)

/-! ### Host.Update*Name -/

/-- the five naming sources -/
inductive Source where
  | dhcp4 | llmnr | mdns | ssdp | nbns
  deriving DecidableEq, Repr

/-- the five per-source name slots that both `Host` and `MACEntry` carry -/
structure Names where
  dhcp4 : NameEntry
  llmnr : NameEntry
  mdns : NameEntry
  ssdp : NameEntry
  nbns : NameEntry
  deriving DecidableEq, Repr

def Names.get (ns : Names) : Source → NameEntry
  | .dhcp4 => ns.dhcp4 | .llmnr => ns.llmnr | .mdns => ns.mdns | .ssdp => ns.ssdp | .nbns => ns.nbns

def Names.set (ns : Names) (s : Source) (e : NameEntry) : Names :=
  match s with
  | .dhcp4 => { ns with dhcp4 := e } | .llmnr => { ns with llmnr := e } | .mdns => { ns with mdns := e }
  | .ssdp => { ns with ssdp := e } | .nbns => { ns with nbns := e }

/-- the part of `Host` (+ its `MACEntry`) that `Update*Name` reads and writes -/
structure HostNames where
  host : Names
  mac : Names
  dirty : Bool
  deriving DecidableEq, Repr

/-- `host.UpdateXName(name)` (X = the source):
    ```go
    host.XName, notify = host.XName.Merge(name)
    if notify { host.dirty = true; host.MACEntry.XName, _ = host.MACEntry.XName.Merge(host.XName) }
    ``` -/
def HostNames.update (h : HostNames) (s : Source) (n : NameEntry) : HostNames :=
  let (e, notify) := (h.host.get s).merge n
  let host := h.host.set s e
  if notify then { host := host, mac := h.mac.set s ((h.mac.get s).merge e).1, dirty := true }
  else { h with host := host }

/-! ### NBNS -/

/-- UTF-8 encoding of a code point below 256 (`string(character)` with a byte-valued rune) -/
def utf8Byte (c : UInt8) : Bytes :=
  if c < 128 then [c] else [(0xC0 : UInt8) ||| (c >>> 6), (0x80 : UInt8) ||| (c &&& 0x3f)]

/-- `strings.TrimRight(s, " ")` / `bytes.TrimRight(b, cutset)` for a one-byte cutset -/
def trimRight (s : Bytes) (c : UInt8) : Bytes := (s.reverse.dropWhile (· == c)).reverse

/-- the half-ASCII pair loop of `decodeNBNSName` over `buf[1:]` (16 pairs) -/
def nbnsPairs : (n : Nat) → (buf : Bytes) → (i : Nat) → Outcome Bytes
  | 0, _, _ => .ok []
  | n + 1, buf, i =>
    match idx buf i, idx buf (i + 1) with
    | .ok a, .ok b =>
      match nbnsPairs n buf (i + 2) with
      | .ok rest => .ok (utf8Byte (((a - 65) <<< 4) ||| (b - 65)) ++ rest)
      | .err e => .err e | .panic => .panic | .hang => .hang
    | .panic, _ => .panic
    | _, .panic => .panic
    | .err e, _ => .err e
    | _, .err e => .err e
    | _, _ => .hang

/-- `decodeNBNSName(buf)` → (n, name) -/
def decodeNBNSName (buf : Bytes) : Outcome (Nat × Bytes) :=
  if buf.length < 34 then .err .invalidLen
  else
    match idx buf (buf.length - 1), idx buf 0 with
    | .ok last, .ok first =>
      if last ≠ 0 then .err .parseFrame
      else if first ≠ 0x20 then .err .parseFrame
      else
        match sliceFrom buf 1 with
        | .ok b1 =>
          match nbnsPairs 16 b1 0 with
          | .ok name => .ok (b1.length, trimRight name 32)
          | .err e => .err e | .panic => .panic | .hang => .hang
        | .err e => .err e | .panic => .panic | .hang => .hang
    | .panic, _ => .panic
    | _, .panic => .panic
    | .err e, _ => .err e
    | _, .err e => .err e
    | _, _ => .hang

/-- the `for i := 0; i < n; i++` loop of `parseNodeNameArray` over `b[1:]` (fixed code:
    18-byte stride, each entry's own name) -/
def nodeNames : (count : Nat) → (b : Bytes) → (i : Nat) → Outcome (List Bytes)
  | 0, _, _ => .ok []
  | c + 1, b, i =>
    let index := 18 * i
    match slice b (index + 16) (index + 18) with
    | .ok [f0, _] =>
      if f0 &&& 0x80 == 0 then
        match slice b index (index + 16) with
        | .ok nm =>
          match nodeNames c b (i + 1) with
          | .ok rest => .ok (trimRight (trimRight nm 0) 32 :: rest)
          | .err e => .err e | .panic => .panic | .hang => .hang
        | .err e => .err e | .panic => .panic | .hang => .hang
      else nodeNames c b (i + 1)
    | .ok _ => .panic
    | .err e => .err e | .panic => .panic | .hang => .hang

/-- `parseNodeNameArray(b)` -/
def parseNodeNameArray (b : Bytes) : Outcome (List Bytes) :=
  match b with
  | [] => .err .frameLen
  | n :: rest =>
    if rest.length < n.toNat * 18 then .err .frameLen
    else nodeNames n.toNat rest 0

/-- `processNBNSNodeStatusResponse(b)` -/
def nbnsNodeStatus (b : Bytes) : Outcome (List Bytes) :=
  if b.length < 3 then .err .invalidLen else parseNodeNameArray b

/-! ### SSDP: the cache-control logic of `processSSDPNotify` after `http.ReadRequest` -/

/-- `strings.Split(s, "=")` -/
def splitOn (sep : UInt8) : Bytes → List Bytes
  | [] => [[]]
  | c :: rest =>
    if c == sep then [] :: splitOn sep rest
    else
      match splitOn sep rest with
      | [] => [[c]]
      | h :: t => (c :: h) :: t

/-- `strings.ToLower` restricted to ASCII (the harness feeds ASCII header values) -/
def toLowerAscii (s : Bytes) : Bytes := s.map (fun c => if 65 ≤ c ∧ c ≤ 90 then c + 32 else c)

/-- "max-age" -/
def maxAge : Bytes := [109, 97, 120, 45, 97, 103, 101]

/-- the pair loop `for i := 0; i+1 < len(options); i += 2` (fixed code): index of the value
    following the first key equal to "max-age" -/
def findMaxAge : List Bytes → Option Bytes
  | k :: v :: rest => if toLowerAscii k == maxAge then some v else findMaxAge rest
  | _ => none

/-- `strconv.Atoi` for what matters here: optional sign, 1..9 decimal digits (longer digit
    strings are outside the modelled domain → `none`, reported as such by the driver);
    anything else is a syntax error → 0 (the code ignores the error). -/
def atoiSmall (s : Bytes) : Option Int :=
  let (neg, ds) := match s with
    | 45 :: r => (true, r)
    | 43 :: r => (false, r)
    | r => (false, r)
  if ds.isEmpty then some 0
  else if ds.all (fun c => 48 ≤ c && c ≤ 57) then
    if ds.length > 9 then none
    else
      let v : Nat := ds.foldl (fun acc c => acc * 10 + (c.toNat - 48)) 0
      some (if neg then - (v : Int) else v)
  else some 0

/-- seconds added to `now` for the expiry of an `ssdp:alive` NOTIFY with the given
    CACHE-CONTROL value: `max-age` seconds when positive, else `defaultExpiryTime` (300 s).
    `none`: digit string longer than the modelled Atoi domain. -/
def ssdpExpirySeconds (cacheControl : Bytes) : Outcome (Option Int) :=
  let options := splitOn 61 cacheControl
  let seconds : Option Int :=
    if options.length % 2 == 0 then
      match findMaxAge options with
      | some v => atoiSmall v
      | none => some 0
    else some 0
  match seconds with
  | some s => .ok (some (if s > 0 then s else 300))
  | none => .ok none

/-! ### mDNS parseTXT -/

def isModelKey (k : Bytes) : Bool :=
  k == [109, 111, 100, 101, 108] || k == [116, 121] || k == [68, 118, 84, 121] || k == [109, 100]

/-- the `for _, v := range txt` loop of `parseTXT` -/
def parseTXTLoop : List Bytes → Bytes
  | [] => []
  | v :: rest =>
    match splitOn 61 v with
    | k :: val :: _ => if isModelKey k then val else parseTXTLoop rest
    | _ => parseTXTLoop rest

/-- `parseTXT(txt)` : model name from the TXT strings ("model", "ty", "DvTy", "md" keys) -/
def parseTXT (txt : List Bytes) : Bytes :=
  if txt.length ≤ 2 then [] else parseTXTLoop txt

end PV.Model
