/-
  The mDNS side of the naming handler as a state machine over message HISTORIES
  (handlers/dns_naming/mdns.go: `ProcessMDNS`, `getMDNSCache`, `putMDNSCache`, `type cache`).

  State   : `h.mdnsCache`, a map from the 8-octet key (source MAC, transaction id) to the expiry of the entry
            (the cached ipv4 / ipv6 lists are written and never read back: a hit returns `nil, nil, nil`).
  Step    : `ProcessMDNS(frame)` for one (source MAC, payload) at a virtual time `now` (the code reads
            `time.Now()`; unit here: milliseconds).

      dnsHeader, err := p.Start(payload)             error → return the error, cache untouched
      if !dnsHeader.Response { … return }            QUERY branch: the cache is neither consulted nor filled
      if _, found := h.getMDNSCache(mac, id); found  duplicate RESPONSE → return nil, nil, nil
          getMDNSCache: entry present and `expiry.After(now)` → found;
                        entry present and expired          → deleted, not found;     absent → not found
      … SkipAllQuestions, the record loop …          any error → return it, NOTHING is cached
      end of the additional section                  `putMDNSCache(mac, id, …)`: expiry := now + 5 minutes
                                                     (overwrites), return the lists

  Everything outside the cache is `Model.DnsMsg.processMDNS` (the single-message function, which is the code run
  on an empty cache): the step calls it, so every theorem about one message carries over to every message of a
  history that is not suppressed (Props/C17Hist).  In the response branch the only return without error is the
  one at the end of the additional section (`Lemmas/MdnsHist.mdnsLoop_ok_noerr_is_finalize`), so "the call put the
  entry" is "the result carries no error".
-/
import PacketVerif.Model.DnsMsg
namespace PV.Model.MdnsHist
open PV PV.Model.DnsMsg

/-- `time.Minute * 5`, in milliseconds -/
def ttl : Nat := 300000

/-- `key := make([]byte, 6+2); copy(key, mac); key[6] = byte(id >> 8); key[7] = byte(id)` -/
def mkKey (mac : Bytes) (id : Nat) : Bytes :=
  mac.take 6 ++ List.replicate (6 - (mac.take 6).length) 0 ++ [UInt8.ofNat (id / 256), UInt8.ofNat (id % 256)]

/-- key ↦ expiry; keys kept distinct by `cput` -/
abbrev Cache := List (Bytes × Nat)

/-- `delete(h.mdnsCache, key)` -/
def cdel (c : Cache) (k : Bytes) : Cache := c.filter (fun e => e.1 ≠ k)
/-- `h.mdnsCache[key]` -/
def cfind (c : Cache) (k : Bytes) : Option Nat := (c.find? (fun e => e.1 = k)).map (·.2)

/-- `getMDNSCache`: (cache afterwards, found) -/
def cget (c : Cache) (k : Bytes) (now : Nat) : Cache × Bool :=
  match cfind c k with
  | some exp => if now < exp then (c, true) else (cdel c k, false)
  | none => (c, false)

/-- `putMDNSCache` -/
def cput (c : Cache) (k : Bytes) (now : Nat) : Cache := (k, now + ttl) :: cdel c k

/-- what `ProcessMDNS` returns for a duplicate response: `nil, nil, nil` -/
def dupOut : MdnsOut := { ipv4 := [], ipv6 := [], err := false }

/-- what one call did, besides its result -/
inductive Kind where
  | bad        -- the header did not parse
  | query      -- QR = 0
  | dup        -- response found in the cache, suppressed
  | cached     -- response processed to the end of the additional section, entry put
  | failed     -- response processed, stopped by an error (or a model-level panic / hang), nothing put
  deriving DecidableEq, Repr, Inhabited

structure StepOut where
  cache : Cache
  kind : Kind
  out : Outcome MdnsOut

/-- `h.ProcessMDNS(frame)` with `frame.SrcAddr.MAC = mac`, `frame.Payload() = payload`, at time `now` -/
def stepMsg (c : Cache) (now : Nat) (mac payload : Bytes) : StepOut :=
  let single := processMDNS (mdnsBound payload) payload
  match start payload with
  | .error _ => { cache := c, kind := .bad, out := single }
  | .ok (_, hdr) =>
    if !hdr.response then { cache := c, kind := .query, out := single }
    else
      let k := mkKey mac hdr.id
      match cget c k now with
      | (c1, true) => { cache := c1, kind := .dup, out := .ok dupOut }
      | (c1, false) =>
        match single with
        | .ok o => if o.err then { cache := c1, kind := .failed, out := single }
                   else { cache := cput c1 k now, kind := .cached, out := single }
        | r => { cache := c1, kind := .failed, out := r }

/-- one message of a history: arrival time, source MAC, UDP payload -/
structure Msg where
  now : Nat
  mac : Bytes
  payload : Bytes

/-- the handler run over a history from a given cache: the per-message results (in order) and the final cache -/
def runFrom (c : Cache) : List Msg → List StepOut × Cache
  | [] => ([], c)
  | m :: ms =>
    let r := stepMsg c m.now m.mac m.payload
    let (rs, c') := runFrom r.cache ms
    (r :: rs, c')

def run (h : List Msg) : List StepOut × Cache := runFrom [] h

/-- the key a message is filed under (`none`: header unreadable) and whether it is a response -/
def keyOf (m : Msg) : Option (Bytes × Bool) :=
  match start m.payload with
  | .error _ => none
  | .ok (_, hdr) => some (mkKey m.mac hdr.id, hdr.response)

end PV.Model.MdnsHist
