/-
  `DNSHandler.ProcessSSDP` (handlers/dns_naming/ssdp.go:219-236) with `processSSDPNotify` (45-107),
  `processSSDPSearchRequest` (123-140), `processUserAgent` (142-161) and `processSSDPResponse` (164-178): the
  dispatch on the payload prefix and everything the three functions do AROUND `http.ReadRequest` /
  `http.ReadResponse`.  The two net/http parsers are PARAMETERS of the model (`Http`): they return an error or an
  abstract parsed message (method / status, the header lookup `Header.Get`, whether `Body` is nil); nothing is
  assumed about which message they return for which bytes.

  Explicit failure branches: `resp.Body.Close()` on a nil `Body` (net/http documents `Body` as never nil; the
  model does not build that in), and the pair loop over `strings.Split(cacheControl, "=")` written with the
  indices of the Go code (`options[i]`, `options[i+1]`: out of range → panic; the loop takes fuel).
  Not modelled: the debug log lines.  Core Lean only.
-/
import PacketVerif.Model.Naming
namespace PV.Model.Ssdp
open PV PV.Model

/-- what `http.ReadRequest` returns -/
structure Req where
  method : Bytes
  get : Bytes → Bytes            -- req.Header.Get(key): "" when absent

/-- what `http.ReadResponse` returns -/
structure Resp where
  status : Nat
  get : Bytes → Bytes
  bodyNil : Bool                 -- resp.Body == nil

structure Http where
  readRequest : Bytes → Option Req       -- none = error
  readResponse : Bytes → Option Resp

/-- the fields of the returned `NameEntry` the functions set, the expiry as seconds from `time.Now()`
    (`none` = zero time; `some none` = a `max-age` digit string outside the modelled `Atoi` domain), the location -/
structure Out where
  type : Bytes := []
  model : Bytes := []
  manuf : Bytes := []
  os : Bytes := []
  expire : Option (Option Int) := none
  location : Bytes := []
  deriving DecidableEq, Repr

/-! string constants of ssdp.go as bytes -/
/-- `NTS` -/
def kNTS : Bytes := [78, 84, 83]
/-- `ssdp:alive` -/
def kAlive : Bytes := [115, 115, 100, 112, 58, 97, 108, 105, 118, 101]
/-- `ssdp:byebye` -/
def kByebye : Bytes := [115, 115, 100, 112, 58, 98, 121, 101, 98, 121, 101]
/-- `NOTIFY` -/
def kNOTIFY : Bytes := [78, 79, 84, 73, 70, 89]
/-- `LOCATION` -/
def kLOCATION : Bytes := [76, 79, 67, 65, 84, 73, 79, 78]
/-- `CACHE-CONTROL` -/
def kCACHE : Bytes := [67, 65, 67, 72, 69, 45, 67, 79, 78, 84, 82, 79, 76]
/-- `MAN` -/
def kMAN : Bytes := [77, 65, 78]
/-- `"ssdp:discover"` -/
def kDiscover : Bytes := [34, 115, 115, 100, 112, 58, 100, 105, 115, 99, 111, 118, 101, 114, 34]
/-- `USER-AGENT` -/
def kUA : Bytes := [85, 83, 69, 82, 45, 65, 71, 69, 78, 84]
/-- `ssdp` -/
def kSsdp : Bytes := [115, 115, 100, 112]
/-- `iPhone` -/
def kIPhone : Bytes := [105, 80, 104, 111, 110, 101]
/-- `iPad` -/
def kIPad : Bytes := [105, 80, 97, 100]
/-- `Apple, Inc.` -/
def kApple : Bytes := [65, 112, 112, 108, 101, 44, 32, 73, 110, 99, 46]
/-- `Windows` -/
def kWindows : Bytes := [87, 105, 110, 100, 111, 119, 115]
/-- `Linux` -/
def kLinux : Bytes := [76, 105, 110, 117, 120]
/-- `iOS` -/
def kIOS : Bytes := [105, 79, 83]
/-- `NOTIFY ` -/
def kNotifySp : Bytes := [78, 79, 84, 73, 70, 89, 32]
/-- `M-SEARCH ` -/
def kMSearchSp : Bytes := [77, 45, 83, 69, 65, 82, 67, 72, 32]

def isPrefix : Bytes → Bytes → Bool
  | [], _ => true
  | _ :: _, [] => false
  | a :: as, b :: bs => a == b && isPrefix as bs

/-- `strings.Contains(s, sub)` -/
def contains (s sub : Bytes) : Bool :=
  match s with
  | [] => sub.isEmpty
  | _ :: rest => isPrefix sub s || contains rest sub

/-- `l[i]` -/
def at_ (l : List Bytes) (i : Nat) : Outcome Bytes :=
  match l[i]? with
  | some v => .ok v
  | none => .panic

/-- `for i := 0; i+1 < len(options); i += 2 { if ToLower(options[i]) == "max-age" { seconds, _ = Atoi(options[i+1]); break } }`
    – the value found (`none`: no key matched) -/
def pairLoop (options : List Bytes) : Nat → Nat → Outcome (Option Bytes)
  | 0, _ => .hang
  | fuel + 1, i =>
    if i + 1 < options.length then do
      let k ← at_ options i
      if toLowerAscii k == maxAge then do
        let v ← at_ options (i + 1)
        pure (some v)
      else pairLoop options fuel (i + 2)
    else pure none

/-- seconds of the expiry of an `ssdp:alive` NOTIFY (lines 66-84) -/
def aliveSeconds (cacheControl : Bytes) : Outcome (Option Int) := do
  let options := splitOn 61 cacheControl
  let seconds : Option Int ←
    (if options.length % 2 == 0 then do
      let v ← pairLoop options (options.length + 1) 0
      match v with
      | some v => pure (atoiSmall v)
      | none => pure (some 0)
    else pure (some 0))
  match seconds with
  | some s => pure (some (if s > 0 then s else 300))
  | none => pure none

def processNotify (h : Http) (raw : Bytes) : Outcome Out :=
  match h.readRequest raw with
  | none => .err .other
  | some req =>
    let nts := req.get kNTS
    if nts = kAlive then
      if req.method ≠ kNOTIFY then .err .parseFrame
      else do
        let location := req.get kLOCATION
        let secs ← aliveSeconds (req.get kCACHE)
        pure { expire := some secs, location := location }
    else if nts = kByebye then .ok {}
    else .err .parseFrame

/-- `processUserAgent` -/
def userAgent (ua : Bytes) : Out :=
  let o : Out := { type := kSsdp }
  let o := if contains ua kIPhone then { o with model := kIPhone, manuf := kApple }
           else if contains ua kIPad then { o with model := kIPad, manuf := kApple }
           else o
  if contains ua kWindows then { o with os := kWindows }
  else if contains ua kLinux then { o with os := kLinux }
  else if contains ua kIOS then { o with os := kIOS }
  else o

def processSearch (h : Http) (raw : Bytes) : Outcome Out :=
  match h.readRequest raw with
  | none => .err .other
  | some req =>
    if req.get kMAN ≠ kDiscover then .err .parseFrame
    else .ok { userAgent (req.get kUA) with expire := some (some 300) }

def processResponse (h : Http) (raw : Bytes) : Outcome Out :=
  match h.readResponse raw with
  | none => .err .other
  | some resp =>
    -- `defer resp.Body.Close()` runs on every return below
    if resp.bodyNil then .panic
    else if resp.status ≠ 200 then .err .parseFrame
    else .ok { location := resp.get kLOCATION }

/-- `ProcessSSDP(host, ether, payload)` -/
def processSSDP (h : Http) (payload : Bytes) : Outcome Out :=
  if isPrefix kNotifySp payload then processNotify h payload
  else if isPrefix kMSearchSp payload then processSearch h payload
  else processResponse h payload

end PV.Model.Ssdp
