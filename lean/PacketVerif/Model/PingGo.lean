/-
  Run-time vocabulary of the regenerated ping code (Gen/PingGen.lean, written by tools/goextract/pingh.go
  from layer_icmp.go: `echoNotify`, `Session.Ping`, `Session.Ping6`, `Session.ping`,
  `Session.ICMP4SendEchoRequest`, `Session.ICMP6SendEchoRequest`).

  The heap is the state of the model itself (`Model.Ping.State`): the package-level `icmpTable` is
  `table` / `nextId`; the `icmpEntry` of a call (`msg`, a local whose address is stored in the table) is the
  record of that call's thread `p` (`recv` = `msg.msgRecv`, `closes` = how often `close(msg.wakeup)` ran), so
  `&msg` is the thread number `p` and a `*icmpEntry` read from the table is a thread number.

  A function that blocks (`ping`, `Ping6`) is translated into a value of `Prog`: the statements between
  `icmpTable.Lock()` and `icmpTable.Unlock()` are ONE `atomic` node (a function of the state), the call that
  transmits is a `call` node whose continuation receives the returned error, the `select` is a `select` node
  with the list of channels it waits for, a read of `msg` outside a lock section is a `read` node.  The order
  of the nodes is the order of the Go statements: moving the registration behind the send, dropping the
  cleanup section, waiting for another channel changes the value and the ties of Props/C19PingTie stop checking.

  `Addr` values are (MAC, IP) as byte lists (`[]` = nil / the zero netip.Addr).  Core Lean only.
-/
import PacketVerif.Model.Ping
import PacketVerif.Model.Encode
namespace PV.Model.PingGo
open PV PV.Model PV.Model.Ping

/-- `packet.Addr` (the port is not read by these functions) -/
structure GAddr where
  mac : Bytes := []
  ip : Bytes := []
  deriving DecidableEq, Repr, Inhabited

/-- the channels a `select` of the ping code can wait for -/
inductive Chan where
  | wakeup (p : Nat)        -- `msg.wakeup` of call p
  | after (d : Int)         -- `time.After(d)`, d in ns
  deriving DecidableEq, Repr

/-- the blocking calls of the ping code -/
inductive Callee where
  | echo4 (src dst : GAddr) (id seq : Nat)      -- `h.ICMP4SendEchoRequest(src, dst, id, seq)`
  | echo6 (src dst : GAddr) (id seq : Nat)      -- `h.ICMP6SendEchoRequest(src, dst, id, seq)`
  deriving DecidableEq, Repr

/-- one call of a blocking function, cut at its scheduling points -/
inductive Prog where
  | done (r : Option Err)
  | atomic (f : State → State × Prog)           -- `icmpTable.Lock() … icmpTable.Unlock()`
  | read (f : State → Prog)                     -- a read of `msg` outside a lock section
  | call (c : Callee) (k : Option Err → Prog)
  | select (chans : List Chan) (k : Prog)

/-! ### the table and the entry -/

/-- `len(icmpTable.table)` -/
def tlen (t : List (Nat × Nat)) : Int := t.length
/-- `icmpTable.id++` on a uint16 -/
def u16succ (n : Nat) : Nat := (n + 1) % 65536
/-- `entry.msgRecv = b` -/
def setRecv (s : State) (q : Nat) (b : Bool) : State := { s with th := upd s.th q { s.th q with recv := b } }
/-- `close(entry.wakeup)`: the model counts the closes (a second one is a Go panic; `Props/C19` shows it never happens) -/
def chanClose (s : State) (q : Nat) : State := { s with th := upd s.th q { s.th q with closes := (s.th q).closes + 1 } }

/-! ### the send side -/

inductive Conn where | nil | failing | up
  deriving DecidableEq, Repr

/-- what the send functions read of the session -/
structure SEnv where
  hostMAC : Bytes          -- `h.NICInfo.HostAddr4.MAC`
  pool : Mem               -- the array `EtherBufferPool.Get()` hands out (any contents)
  conn : Conn              -- `h.Conn`

def ipIs4 (ip : Bytes) : Bool := ip.length == 4
def ipIs6 (ip : Bytes) : Bool := ip.length == 16

/-- `make([]byte, n)` -/
def makeBytes (n : Nat) : Bytes := List.replicate n 0

/-- `EncodeICMPEcho(p, t, code, id, seq, data)` into `p` (returns p[:8+len(data)]); panics when p is too short.
    The body of EncodeICMPEcho is regenerated and tied by F7 (`Props/C03EncTie`) to `Model.encodeICMPEcho`. -/
def encodeICMPEchoInto (p : Bytes) (t code : Nat) (id seq : Nat) (data : Bytes) : Outcome Bytes :=
  if p.length < 8 + data.length then .panic
  else .ok (encodeICMPEcho (UInt8.ofNat t) (UInt8.ofNat code) id seq data ++ p.drop (8 + data.length))

/-- `[]byte(s)` -/
def strBytes (s : String) : Bytes := s.toUTF8.toList

/-- `h.Conn.WriteTo(frame, &dstAddr)` after the frame was built -/
def connWrite (e : SEnv) (sent : List Bytes) (f : Bytes) : Outcome (List Bytes × Option Err) :=
  match e.conn with
  | .nil => .panic
  | .failing => .ok (sent, some .other)
  | .up => .ok (sent ++ [f], none)

/-! dictionary of the regenerated `icmp4SendPacket` (encoders writing into the pooled array: Model/Encode.lean, tied to their Go
    bodies by F7, `Props/C03EncTie`) -/

/-- `ether.Payload()` handed to an encoder: a nil slice makes the encoder panic (it writes `b[0]`) -/
def etherPayloadNN (m : Mem) (p : Sl) : Outcome Sl := do
  match ← etherPayloadSl m p with
  | some s => pure s
  | none => .panic

/-- `ICMP(p).SetChecksum(cs)`: `p[3] = uint8(cs >> 8); p[2] = uint8(cs)` -/
def icmpSetChecksum (p : Bytes) (cs : UInt16) : Outcome Bytes :=
  if p.length < 4 then .panic else .ok (putChecksum p 2 cs)

/-- `ip4, err = ip4.AppendPayload(b, proto)` with the error as a value -/
def ip4AppendPayloadE (m : Mem) (p : Sl) (b : Bytes) (proto : UInt8) : Outcome (Mem × Sl × Option Err) :=
  match ip4AppendPayload m p b proto with
  | .ok r => .ok (r.1, r.2, none)
  | .err x => .ok (m, p, some x)
  | .panic => .panic
  | .hang => .hang

/-- `ether, err = ether.SetPayload(payload)`; the error result is always nil (Gen.Enc.Ether_SetPayload, F7) -/
def etherSetPayloadE (m : Mem) (p payload : Sl) : Outcome (Sl × Option Err) := do
  let r ← etherSetPayload m p payload.len
  pure (r, none)

/-- a Go `error` result is `Outcome.err` inside the encoders of Model/Encode and a returned value in the regenerated
    send functions: the ties compare modulo this -/
def errAsValue {α} (sent : α) : Outcome (α × Option Err) → Outcome (α × Option Err)
  | .err x => .ok (sent, some x)
  | r => r

theorem pure_ok {α} (a : α) : (pure a : Outcome α) = .ok a := rfl

/-- reference for `h.icmp4SendPacket(src, dst, p)`: `Model.sendICMP4` (also validated by the `send icmp4` correspondence lines of
    C07) + the write; the regenerated `Session_icmp4SendPacket` is tied to it by `Props/C19PingTie.icmp4SendPacket_tie` -/
def icmp4SendPacket (e : SEnv) (sent : List Bytes) (src dst : GAddr) (p : Bytes) : Outcome (List Bytes × Option Err) :=
  match sendICMP4 e.pool e.hostMAC dst.mac src.ip dst.ip p with
  | .ok f => connWrite e sent f
  | .err x => .ok (sent, some x)
  | .panic => .panic
  | .hang => .hang

/-- `h.icmp6SendPacket(src, dst, p)` = `Model.sendICMP6` (its Go body is regenerated and tied by F15,
    `Props/C14Icmp6Tie.icmp6SendPacket_tie`) + the write -/
def icmp6SendPacket (e : SEnv) (sent : List Bytes) (src dst : GAddr) (p : Bytes) : Outcome (List Bytes × Option Err) :=
  match sendICMP6 e.pool e.hostMAC dst.mac src.ip dst.ip p with
  | .ok f => connWrite e sent f
  | .err x => .ok (sent, some x)
  | .panic => .panic
  | .hang => .hang

/-! ### reference programs (hand-written; the ties say the regenerated ones are these) -/

/-- last lock section + the read of `msg.msgRecv` -/
def unregProg (p id : Nat) : Prog :=
  .atomic fun st => ({ st with table := tdel st.table id },
    .read fun st => if !(st.th p).recv then .done (some .timeout) else .done none)

def waitProg (p id : Nat) (t : Int) : Prog := .select [.wakeup p, .after t] (unregProg p id)

def cleanupProg (id : Nat) (err : Option Err) : Prog :=
  .atomic fun st => ({ st with table := tdel st.table id }, .done err)

def echoCallee (v6 : Bool) (src dst : GAddr) (id seq : Nat) : Callee :=
  if v6 then .echo6 src dst id seq else .echo4 src dst id seq

def sendProg (v6 : Bool) (p : Nat) (src dst : GAddr) (t : Int) (id : Nat) : Prog :=
  .call (echoCallee v6 src dst id 1) fun err => if err.isSome then cleanupProg id err else waitProg p id t

def regSection (p : Nat) (st : State) : State × Nat :=
  ({ st with nextId := u16succ st.nextId, table := tset st.table st.nextId p }, st.nextId)

/-- `ping` (v6 = false) / `Ping6` (v6 = true) of call `p` -/
def pingProg (v6 : Bool) (p : Nat) (src dst : GAddr) (timeout : Int) : Prog :=
  .atomic fun st => ((regSection p st).1, sendProg v6 p src dst (effTimeout timeout) (regSection p st).2)

/-! ### small-step reading of a `Prog` (what thread p does next) -/

/-- what the environment decides at a scheduling point -/
inductive Act where
  | tau                       -- run the next lock section / read
  | ret (err : Option Err)    -- the blocking call returned
  | fire (c : Chan)           -- a channel of the select became ready
  deriving DecidableEq, Repr

def Prog.step (pr : Prog) (s : State) : Act → Option (State × Prog)
  | .tau => match pr with
    | .atomic f => some (f s)
    | .read f => some (s, f s)
    | _ => none
  | .ret err => match pr with
    | .call _ k => some (s, k err)
    | _ => none
  | .fire c => match pr with
    | .select chans k => if c ∈ chans then some (s, k) else none
    | _ => none

/-- `step`, staying put when the action is not enabled -/
def Prog.stepD (pr : Prog) (s : State) (a : Act) : State × Prog := (pr.step s a).getD (s, pr)

/-- run `tau` steps while the program is at a lock section or a read (at most `n`) -/
def Prog.taus : Nat → Prog → State → State × Prog
  | 0, pr, s => (s, pr)
  | n + 1, pr, s => match pr with
    | .atomic f => Prog.taus n (f s).2 (f s).1
    | .read f => Prog.taus n (f s) s
    | _ => (s, pr)

def Prog.result : Prog → Option (Option Err)
  | .done r => some r
  | _ => none

/-- bookkeeping of the model that is not Go state: program counter / identifier / history / result of thread p -/
def ctl (s : State) (p : Nat) (f : Thread → Thread) : State := { s with th := upd s.th p (f (s.th p)) }

def retOf : Option Err → Ret
  | none => .nil
  | some .timeout => .timeout
  | some _ => .sendErr

end PV.Model.PingGo
