/-
  How a DNS query is built with the library's two encoders (layer_dns.go):

    buf := make([]byte, len(name)+2)
    n := encodeName(name, buf, 0)
    msg := EncodeDNSQuery(id, flags, buf[:n], qtype)

  `name` is the dotted text form without trailing dot ("" = the root).  Core Lean only (linked
  into the driver: `dns.rt` lines).
-/
import PacketVerif.Model.DnsName
namespace PV.Model
open PV

/-- `buf[:n]` after `encodeName(name, buf, 0)` on a fresh buffer of `len(name)+2` octets -/
def encodedName (name : Bytes) : Outcome Bytes :=
  match encodeName name (List.replicate (name.length + 2) 0) 0 with
  | .ok (d, n) => .ok (d.take n)
  | .err e => .err e | .panic => .panic | .hang => .hang

/-- the whole query message -/
def buildQuery (id flags : Nat) (name : Bytes) (qtype : Nat) : Outcome Bytes :=
  match encodedName name with
  | .ok en => encodeDNSQuery id flags en qtype
  | .err e => .err e | .panic => .panic | .hang => .hang

end PV.Model
