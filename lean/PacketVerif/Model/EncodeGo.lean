/-
  Go library calls that occur in the encoder bodies and have no counterpart among the primitives of
  Model/Encode.lean.  Imported by the regenerated Gen/Encoders.lean (tools/goextract/encoders.go) only; the
  tie theorems of Props/C03EncTie.lean eliminate them against the hand-written model functions.
  A `netip.Addr` is represented, as everywhere in the models, by its bytes: 4 (IPv4), 16 (IPv6), 0 (zero Addr).
-/
import PacketVerif.Model.Encode
import PacketVerif.Model.Netip
namespace PV.Model

/-- `netip.Addr.As4()`: the 4 bytes of an IPv4 address, the last 4 of a v4-mapped IPv6 address; panics on
    the zero Addr and on any other IPv6 address -/
def goAs4 (a : Bytes) : Outcome Bytes :=
  if a.length == 4 then .ok a else if Netip.is4in6 a then .ok (a.drop 12) else .panic

/-- `binary.BigEndian.PutUint16(p[a:], v)`: the window is `p[a:len(p)]` (panics unless `a ≤ len`), and
    PutUint16 itself panics unless the window holds two bytes (`_ = b[1]`) -/
def Sl.put16From (m : Mem) (s : Sl) (a : Nat) (v : Nat) : Outcome Mem := do
  let d ← s.from_ m a
  if d.len < 2 then .panic else pure (poke m d.off [hi8 (v % 65536), lo8 (v % 65536)])

/-- placeholder for a branch the single-array memory model cannot express (the encoder allocates a fresh
    buffer with `make`); every tie theorem excludes the branch by an explicit hypothesis, and the condition is
    listed in `Gen.Enc.encoderAssumptions` -/
def unmodelled {α : Type} : Outcome α := .hang

end PV.Model
