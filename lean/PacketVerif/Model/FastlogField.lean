/-
  Abstract syntax of what a caller asks `fastlog` to log: one constructor per exported field
  appender of `fastlog.Line` (fastlog/logging.go) plus the unexported helpers the harness reaches
  through the export overlay.  Shared vocabulary of `Model/Fastlog.lean` (how the code renders it
  into the 2048-byte buffer) and `Spec/Render.lean` (the reference text); contains no behaviour.
-/
import PacketVerif.Basic
namespace PV.Fastlog
open PV

inductive Field where
  /-- `String(name, value)` -/
  | str (name value : Bytes)
  /-- `Label(name)` -/
  | label (name : Bytes)
  /-- `Bool(name, value)` -/
  | bool (name : Bytes) (v : Bool)
  /-- `Int(name, value)`; Go `int` (64-bit) -/
  | int (name : Bytes) (v : Int)
  | u8 (name : Bytes) (v : UInt8)
  | u16 (name : Bytes) (v : UInt16)
  | u32 (name : Bytes) (v : UInt32)
  /-- `Uint8Hex`, `Uint16Hex` -/
  | x8 (name : Bytes) (v : UInt8)
  | x16 (name : Bytes) (v : UInt16)
  /-- `MAC(name, value)`; `value` is a `net.HardwareAddr` of any length -/
  | mac (name : Bytes) (v : Bytes)
  /-- `IP(name, value)`; `netip.Addr` without zone: 0 bytes = the invalid (zero) Addr,
      4 bytes = `AddrFrom4`, 16 bytes = `AddrFrom16` -/
  | ip (name : Bytes) (a : Bytes)
  /-- `IPSlice(name, value)`; `net.IP`, `none` = nil slice -/
  | ipSlice (name : Bytes) (a : Option Bytes)
  /-- `ByteArray(name, value)` -/
  | byteArray (name : Bytes) (v : Bytes)
  /-- `StringArray(name, value)` -/
  | stringArray (name : Bytes) (v : List Bytes)
  /-- `IPArray(name, value)`; elements are `net.IP` (`none` = nil) -/
  | ipArray (name : Bytes) (v : List (Option Bytes))
  /-- `Duration(name, d)`; nanoseconds (Go `int64`) -/
  | duration (name : Bytes) (ns : Int)
  /-- `Time(name, t)`, `Sprintf(name, v)`: the standard library produced `text`
      (`t.AppendFormat(.., time.StampMilli)`, `fmt.Sprintf("%+v", v)`); fastlog only copies it -/
  | nameText (name : Bytes) (text : Bytes)
  /-- `Error(err)` with `err.Error() = text` -/
  | error (text : Bytes)
  /-- `Bytes(name, value)` -/
  | bytes (name value : Bytes)
  /-- `Stringer(v)` with `v.String() = text` (same code shape as `Label`) -/
  | stringer (text : Bytes)
  /-- `Module(name, msg)` -/
  | module (name msg : Bytes)
  /-- `LF()` -/
  | lf
  /-- unexported helpers, reached through the overlay -/
  | printInt (v : UInt32)
  | writeHex (v : UInt8)
  | writeHexNLZ (v : UInt8)
  | appendIP6 (ip : Bytes)
  | appendByte (v : UInt8)
  | newModule (name msg : Bytes)

end PV.Fastlog
