/-
  Model of the ARP spoofer (handlers/arp_spoofer/spoof.go, arp.go) as a small-step transition system:
  handler state + one program counter per `spoofLoop` goroutine; one atomic step per `arpMutex`
  section and one per frame written.

  Code modelled: after `fix: arp spoofLoop looks up its own hunt entry by MAC …`, after the `closed`
  flag moved under `arpMutex`, and after `fix: arp_spoofer wrote its forged packets after releasing
  arpMutex`: the hunt-list lookup and the packet it calls for (the loop's forged announcement, its
  restoring request, the immediate forged reply of ProcessPacket) are ONE critical section.
  `State.holder` is the thread that holds `arpMutex` across its frame; every transition that takes
  the mutex is enabled only while `holder = none`.

    startHunt mac v4    StartHunt(addr): `addr.MAC == nil || !addr.IP.Is4()` → ErrInvalidIP; under the
                        mutex: MAC already in the list → nothing, else insert and `go spoofLoop(addr)`
    stopHunt mac ip     StopHunt(addr): delete(huntList, addr.MAC) under the mutex – the list is keyed by MAC;
                        addr.IP (the host may have changed address since StartHunt, or share it with
                        another hunted MAC) plays no role
    close               Close(): under the mutex closed = true; close(closeChan)
    check i             loop i: Lock(); targetAddr, hunting := huntList[MAC]; closed := h.closed;
                        hunting ∧ ¬closed → pc := forge, the mutex stays held (holder := loop i);
                        ¬hunting ∧ ¬closed → pc := restore, the mutex stays held;
                        closed → Unlock, return
    restore i           loop i writes the restoring ARP request (router's real MAC and IP) to its target,
                        Unlock, return
    forge i             loop i writes the forged announcement (router IP at our MAC) to its target, Unlock,
                        waits in its `select`
    wake i              the `select` returns (6 s ticker, or closeChan)
    rxRequest esrc smac toRouter
                        ProcessPacket, ARP request with Ethernet source esrc and ARP sender hardware address
                        smac (they differ when a bridge relays the request): Lock();
                        `_, hunting := huntList[arp.SrcMAC()]` – keyed on the ARP sender, not on esrc;
                        if hunting ∧ target IP = router IP the mutex stays held for the forged reply to smac
                        (holder := rx smac), else Unlock
    reply smac          that reply is written, Unlock
    rxProbe …           ProcessPacket, ARP probe: probe-reject reply iff the probing MAC holds a DHCP
                        offer different from the probed address and the probed address is in the home LAN
                        (the mutex is not involved)
    rxOther             announcements, replies, link-local and invalid packets: nothing is sent

  Wall-clock time is not modelled: `wake` is enabled whenever a loop waits.
  Assumption: writes to the connection succeed (on a write error the loop returns without restoring).
-/
import PacketVerif.Basic
namespace PV.Model.ArpHunt
open PV

inductive Pc where
  | check
  | restore
  | forge
  | wait
  | done
  deriving DecidableEq, Repr, Inhabited

structure Loop where
  mac : Bytes := []
  pc : Pc := .done
  deriving DecidableEq, Repr, Inhabited

/-- who holds `arpMutex` across the frame it is about to write -/
inductive Holder where
  | loop (i : Nat)          -- spoofLoop i, between its lookup and its announcement / restoring request
  | rx (smac : Bytes)       -- ProcessPacket, between its lookup and the forged reply to smac
  deriving DecidableEq, Repr

structure State where
  hunt : List Bytes := []          -- keys of huntList (MAC → Addr)
  closed : Bool := false
  holder : Option Holder := none
  nloops : Nat := 0
  loops : Nat → Loop := fun _ => {}
  /-- history variable: MACs for which a StartHunt was accepted -/
  started : List Bytes := []

inductive Event where
  | startHunt (mac : Bytes) (validV4 : Bool)
  | stopHunt (mac : Bytes) (ip : Bytes)
  | close
  | check (i : Nat) | restore (i : Nat) | forge (i : Nat) | wake (i : Nat)
  | rxRequest (esrc : Bytes) (smac : Bytes) (toRouter : Bool)
  | reply (smac : Bytes)
  | rxProbe (smac : Bytes) (offer : Option Bytes) (tip : Bytes) (tipInLan : Bool)
  | rxOther
  deriving DecidableEq, Repr

inductive Out where
  | none
  | startErr | startOk
  | forged (dst : Bytes)        -- announcement "router IP is at our MAC" to dst (loop)
  | restoring (dst : Bytes)     -- request carrying the router's real MAC and IP to dst
  | spoofReply (dst : Bytes)    -- immediate forged reply to a hunted host asking for the router
  | probeReject (dst : Bytes) (ip : Bytes)
  deriving DecidableEq, Repr

def updLoop (f : Nat → Loop) (i : Nat) (l : Loop) : Nat → Loop := fun j => if j = i then l else f j

def setPc (s : State) (i : Nat) (pc : Pc) : State :=
  { s with loops := updLoop s.loops i { s.loops i with pc := pc } }

/-- the probe-reject rule of `ProcessPacket` -/
def probeRejects (offer : Option Bytes) (tip : Bytes) (tipInLan : Bool) : Bool :=
  match offer with
  | some o => o ≠ tip && tipInLan
  | none => false

/-- `arpMutex` is free -/
abbrev free (s : State) : Prop := s.holder = none

def step (s : State) : Event → Option (State × Out)
  | .startHunt mac validV4 =>
    if ¬ validV4 then some (s, .startErr)
    else if ¬ free s then none
    else if mac ∈ s.hunt then some (s, .startOk)
    else some ({ s with hunt := mac :: s.hunt, nloops := s.nloops + 1, started := mac :: s.started,
                        loops := updLoop s.loops s.nloops { mac := mac, pc := .check } }, .startOk)
  | .stopHunt mac _ => if free s then some ({ s with hunt := s.hunt.erase mac }, .none) else none
  | .close => if free s then some ({ s with closed := true }, .none) else none
  | .check i =>
    if (s.loops i).pc = .check ∧ free s then
      if s.closed then some (setPc s i .done, .none)
      else if (s.loops i).mac ∈ s.hunt then some ({ setPc s i .forge with holder := some (.loop i) }, .none)
      else some ({ setPc s i .restore with holder := some (.loop i) }, .none)
    else none
  | .restore i =>
    if (s.loops i).pc = .restore then some ({ setPc s i .done with holder := none }, .restoring (s.loops i).mac)
    else none
  | .forge i =>
    if (s.loops i).pc = .forge then some ({ setPc s i .wait with holder := none }, .forged (s.loops i).mac)
    else none
  | .wake i =>
    if (s.loops i).pc = .wait then some (setPc s i .check, .none) else none
  | .rxRequest _ smac toRouter =>
    if free s then
      (if smac ∈ s.hunt ∧ toRouter then some ({ s with holder := some (.rx smac) }, .none) else some (s, .none))
    else none
  | .reply smac =>
    if s.holder = some (.rx smac) then some ({ s with holder := none }, .spoofReply smac) else none
  | .rxProbe smac offer tip inLan =>
    if probeRejects offer tip inLan then some (s, .probeReject smac tip) else some (s, .none)
  | .rxOther => some (s, .none)

def run (s : State) : List Event → Option (State × List Out)
  | [] => some (s, [])
  | e :: es =>
    match step s e with
    | none => none
    | some (s', o) =>
      match run s' es with
      | none => none
      | some (s'', os) => some (s'', o :: os)

/-- the output is a forged ARP packet (loop announcement or immediate reply) to `mac` -/
def forgedTo (mac : Bytes) : Out → Bool
  | .forged m => m = mac
  | .spoofReply m => m = mac
  | _ => false

/-- number of forged packets to `mac` in an output list -/
def forgedCount (mac : Bytes) : List Out → Nat
  | [] => 0
  | o :: rest => (if forgedTo mac o then 1 else 0) + forgedCount mac rest

end PV.Model.ArpHunt
