/-
  Model of the ARP spoofer (handlers/arp_spoofer/spoof.go, arp.go) as a small-step transition system:
  handler state + one program counter per `spoofLoop` goroutine + the replies `ProcessPacket` has
  decided to send; one atomic step per `arpMutex` section, per unsynchronised read of `h.closed`, and
  per frame written.

  Code modelled: after `fix: arp spoofLoop looks up its own hunt entry by MAC …` (before the fix the
  loop used `findHuntByIP(addr.IP)` on a list keyed by MAC, so with two hunted MACs sharing one IPv4
  the loop of a stopped MAC found the other entry, kept running and never restored its target).

    startHunt mac v4    StartHunt(addr): `addr.MAC == nil || !addr.IP.Is4()` → ErrInvalidIP; under the
                        mutex: MAC already in the list → nothing, else insert and `go spoofLoop(addr)`
    stopHunt mac ip     StopHunt(addr): delete(huntList, addr.MAC) under the mutex – the list is keyed by MAC;
                        addr.IP (the host may have changed address since StartHunt, or share it with
                        another hunted MAC) plays no role
    close               Close(): closed = true; close(closeChan)
    check i             loop i: Lock(); targetAddr, hunting := huntList[MAC]; Unlock()
    gate i              loop i evaluates `!hunting || h.closed` (reads `closed`)
    exitRead i          loop i evaluates `!h.closed` before the restoring request (reads `closed` again)
    restore i           loop i writes the restoring ARP request (router's real MAC and IP) to its target
    forge i             loop i writes the forged announcement (router IP at our MAC) to its target
    wake i              the `select` returns (6 s ticker, or closeChan)
    rxRequest esrc smac toRouter
                        ProcessPacket, ARP request with Ethernet source esrc and ARP sender hardware address
                        smac (they differ when a bridge relays the request): under the mutex
                        `_, hunting := huntList[arp.SrcMAC()]` – keyed on the ARP sender, not on esrc;
                        if hunting ∧ target IP = router IP a forged reply to smac is decided
    reply smac          that reply is written (after the mutex was released)
    rxProbe …           ProcessPacket, ARP probe: probe-reject reply iff the probing MAC holds a DHCP
                        offer different from the probed address and the probed address is in the home LAN
    rxOther             announcements, replies, link-local and invalid packets: nothing is sent

  Wall-clock time is not modelled: `wake` is enabled whenever a loop waits.
-/
import PacketVerif.Basic
namespace PV.Model.ArpHunt
open PV

inductive Pc where
  | check
  | gate (hunting : Bool)
  | exitRead
  | restore
  | forge
  | wait
  | done
  deriving DecidableEq, Repr, Inhabited

structure Loop where
  mac : Bytes := []
  pc : Pc := .done
  deriving DecidableEq, Repr, Inhabited

structure State where
  hunt : List Bytes := []          -- keys of huntList (MAC → Addr)
  closed : Bool := false
  replies : List Bytes := []       -- forged replies decided by ProcessPacket, not yet written
  nloops : Nat := 0
  loops : Nat → Loop := fun _ => {}
  /-- history variable: MACs for which a StartHunt was accepted -/
  started : List Bytes := []

inductive Event where
  | startHunt (mac : Bytes) (validV4 : Bool)
  | stopHunt (mac : Bytes) (ip : Bytes)
  | close
  | check (i : Nat) | gate (i : Nat) | exitRead (i : Nat) | restore (i : Nat) | forge (i : Nat) | wake (i : Nat)
  | rxRequest (esrc : Bytes) (smac : Bytes) (toRouter : Bool)
  | reply (smac : Bytes)
  | rxProbe (smac : Bytes) (offer : Option Bytes) (tip : Bytes) (tipInLan : Bool)
  | rxOther
  deriving DecidableEq, Repr

inductive Out where
  | none
  | startErr | startOk
  | forged (dst : Bytes)        -- announcement "router IP is at our MAC" to dst (loop)
  | restoring (dst : Bytes)     -- request carrying the router's real MAC and IP to dst
  | spoofReply (dst : Bytes)    -- immediate forged reply to a hunted host asking for the router
  | probeReject (dst : Bytes) (ip : Bytes)
  deriving DecidableEq, Repr

def updLoop (f : Nat → Loop) (i : Nat) (l : Loop) : Nat → Loop := fun j => if j = i then l else f j

def setPc (s : State) (i : Nat) (pc : Pc) : State :=
  { s with loops := updLoop s.loops i { s.loops i with pc := pc } }

/-- the probe-reject rule of `ProcessPacket` -/
def probeRejects (offer : Option Bytes) (tip : Bytes) (tipInLan : Bool) : Bool :=
  match offer with
  | some o => o ≠ tip && tipInLan
  | none => false

def step (s : State) : Event → Option (State × Out)
  | .startHunt mac validV4 =>
    if ¬ validV4 then some (s, .startErr)
    else if mac ∈ s.hunt then some (s, .startOk)
    else some ({ s with hunt := mac :: s.hunt, nloops := s.nloops + 1, started := mac :: s.started,
                        loops := updLoop s.loops s.nloops { mac := mac, pc := .check } }, .startOk)
  | .stopHunt mac _ => some ({ s with hunt := s.hunt.erase mac }, .none)
  | .close => some ({ s with closed := true }, .none)
  | .check i =>
    if (s.loops i).pc = .check then some (setPc s i (.gate (decide ((s.loops i).mac ∈ s.hunt))), .none) else none
  | .gate i =>
    match (s.loops i).pc with
    | .gate h => if ¬ h ∨ s.closed then some (setPc s i .exitRead, .none) else some (setPc s i .forge, .none)
    | _ => none
  | .exitRead i =>
    if (s.loops i).pc = .exitRead then
      (if ¬ s.closed then some (setPc s i .restore, .none) else some (setPc s i .done, .none))
    else none
  | .restore i =>
    if (s.loops i).pc = .restore then some (setPc s i .done, .restoring (s.loops i).mac) else none
  | .forge i =>
    if (s.loops i).pc = .forge then some (setPc s i .wait, .forged (s.loops i).mac) else none
  | .wake i =>
    if (s.loops i).pc = .wait then some (setPc s i .check, .none) else none
  | .rxRequest _ smac toRouter =>
    if smac ∈ s.hunt ∧ toRouter then some ({ s with replies := smac :: s.replies }, .none) else some (s, .none)
  | .reply smac =>
    if smac ∈ s.replies then some ({ s with replies := s.replies.erase smac }, .spoofReply smac) else none
  | .rxProbe smac offer tip inLan =>
    if probeRejects offer tip inLan then some (s, .probeReject smac tip) else some (s, .none)
  | .rxOther => some (s, .none)

def run (s : State) : List Event → Option (State × List Out)
  | [] => some (s, [])
  | e :: es =>
    match step s e with
    | none => none
    | some (s', o) =>
      match run s' es with
      | none => none
      | some (s'', os) => some (s'', o :: os)

end PV.Model.ArpHunt
