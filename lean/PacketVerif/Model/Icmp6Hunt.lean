/-
  Model of the ICMPv6 spoofer (handlers/icmp_spoofer/icmp6spoof.go, icmp6.go, icmp6radv.go; AddrList in
  addr.go) as a small-step transition system: global handler state + one program counter per
  `spoofLoop` goroutine; one atomic step per `h.Lock()…h.Unlock()` section, one per frame written.

  Code modelled: after `fix: icmp6 ProcessPacket closed closeChan again when a router advertisement
  arrived after Close` (Close and the wake-up now run under the handler mutex) and after
  `fix: icmp6 spoofLoop wrote its neighbour advertisements after releasing the handler mutex`: the
  check of an iteration and all the advertisements of that iteration are ONE critical section of the
  handler mutex.  `State.holder` is the loop that holds the mutex across its batch; every transition
  that takes the mutex is enabled only while `holder = none`.

    startHunt mac cls   StartHunt(addr): IPv4 → ErrInvalidIP; IPv6 that is not link-local unicast → no
                        change; otherwise under the lock: already in the list → nothing, else append and
                        `go spoofLoop(addr)` (new loop thread at pc `check`)
    stopHunt mac eff    StopHunt(addr): `eff = false` (a valid address that is not link-local unicast)
                        → nothing; else huntList.Del(addr) under the lock
    close               Close()
    check i             loop i: Lock(); if mac ∉ huntList ∨ closed → Unlock, return;
                        if Router ≠ nil → copy the LANRouters addresses, pc := send list, the mutex stays
                        held (holder := i; an empty list: Unlock, pc := wait)
                        else Unlock, pc := wait
    send i r            loop i writes ONE neighbour advertisement (dst = its target, target address = r,
                        any not yet advertised router of the copied list – Go map iteration order) –
                        with the mutex held; after the last one of the batch: Unlock (holder := none)
    wake i              the `select` of loop i returns (timer 2–2.8 s, or closeChan closed by Close / RA)
    ra …                ProcessPacket on a router advertisement: `repeat++`, every 4th is processed,
                        options parsed, router found or created (first one becomes `h.Router`), fields stored
    envRepeat v         `repeat` is a process-global variable: another handler of the process changed it
    rxOther             ProcessPacket on anything that is not a router advertisement (neighbour solicitation /
                        advertisement, echo, MLD, redirect, unknown types, frames refused by the validation):
                        the handler state is not touched

  Wall-clock time is not modelled: `wake` is enabled whenever a loop waits.
-/
import PacketVerif.Model.Ndp
namespace PV.Model.Icmp6Hunt
open PV PV.Model.Ndp

/-- class of `addr.IP` as the filters of StartHunt / StopHunt see it -/
inductive IpClass where
  | none        -- zero netip.Addr (not valid)
  | v4          -- Is4()
  | lla         -- Is6() ∧ IsLinkLocalUnicast()
  | other6      -- Is6(), not link-local unicast
  deriving DecidableEq, Repr, Inhabited

inductive Pc where
  | check
  | send (pending : List Bytes)   -- router addresses still to be advertised in this iteration
  | wait
  | done
  deriving DecidableEq, Repr, Inhabited

structure Loop where
  mac : Bytes := []
  pc : Pc := .done
  deriving DecidableEq, Repr, Inhabited

structure Router where
  mac : Bytes
  ip : Bytes
  hdr : RaHeader
  options : Options     -- Router.Options; Router.Prefixes = options.prefixes
  deriving DecidableEq, Repr

structure State where
  hunt : List Bytes := []                  -- huntList (AddrList): MACs in list order
  closed : Bool := false
  routers : List (Bytes × Router) := []     -- LANRouters, keyed by source address
  defaultRouter : Option Bytes := none      -- h.Router (address of)
  rep : Int := -1                           -- package variable `repeat`
  nloops : Nat := 0
  loops : Nat → Loop := fun _ => {}
  /-- the loop that holds the handler mutex across its batch of advertisements (`none`: the mutex is
      free between two atomic steps) -/
  holder : Option Nat := none
  /-- history variable (never read by a transition): MACs for which a StartHunt was accepted -/
  started : List Bytes := []

inductive StartResult where
  | errInvalidIP | noChange | hunt
  deriving DecidableEq, Repr

/-- one received router advertisement as `ProcessPacket` sees it -/
structure RaIn where
  etherSrc : Bytes
  ipSrc : Bytes
  hostKnown : Bool      -- pkt.Host != nil
  payload : Bytes       -- ICMPv6 message
  deriving DecidableEq, Repr

inductive Event where
  | startHunt (mac : Bytes) (cls : IpClass)
  | stopHunt (mac : Bytes) (eff : Bool)
  | close
  | check (i : Nat)
  | send (i : Nat) (r : Bytes)
  | wake (i : Nat)
  | ra (r : RaIn)
  | envRepeat (v : Int)
  | rxOther
  deriving DecidableEq, Repr

/-- what a step makes observable -/
inductive Out where
  | none
  | start (r : StartResult)
  | na (dstMac : Bytes) (routerIp : Bytes)      -- forged neighbour advertisement written
  | raResult (ok : Bool)                        -- ProcessPacket returned nil / an error
  deriving DecidableEq, Repr

def updLoop (f : Nat → Loop) (i : Nat) (l : Loop) : Nat → Loop := fun j => if j = i then l else f j

/-- `mac := options.SourceLLA.MAC; if mac == nil || len(mac) != 6 { mac = pkt.Ether().Src() }` -/
def raMac (o : Options) (etherSrc : Bytes) : Bytes :=
  if o.slla.mac.length = 6 then o.slla.mac else etherSrc

/-- `findOrCreateRouter` + the field assignments of the RA case -/
def learn (s : State) (r : RaIn) (hdr : RaHeader) (o : Options) : State :=
  match s.routers.find? (fun e => e.1 = r.ipSrc) with
  | some (_, old) =>
    { s with routers := s.routers.map (fun e =>
        if e.1 = r.ipSrc then (e.1, { old with hdr := hdr, options := o }) else e) }
  | none =>
    { s with routers := s.routers ++ [(r.ipSrc, { mac := raMac o r.etherSrc, ip := r.ipSrc, hdr := hdr, options := o })],
             defaultRouter := some r.ipSrc }

/-- the part of the RA case after the `repeat` throttle: host check, options, router update -/
def raBody (s1 : State) (r : RaIn) : Outcome (State × Bool) :=
  if r.hostKnown = false then .ok (s1, false)
  else
    match raOptions r.payload with
    | .err _ => .ok (s1, false)
    | .panic => .panic
    | .hang => .hang
    | .ok o =>
      match raHeader r.payload with
      | .ok hdr => .ok (learn s1 r hdr o, true)
      | .err _ => .ok (s1, false)
      | .panic => .panic
      | .hang => .hang

/-- the RA case of `Handler6.ProcessPacket` (the payload passed `icmp6Frame.IsValid`: ≥ 8 bytes, type 134) -/
def processRA (s : State) (r : RaIn) : Outcome (State × Bool) :=
  if r.payload.length < 16 then .ok (s, false)
  else if (s.rep + 1) % 4 ≠ 0 then .ok ({ s with rep := s.rep + 1 }, true)
  else raBody { s with rep := s.rep + 1 } r

/-- `Handler6.Mutex` is free: no loop is in the middle of its batch -/
abbrev free (s : State) : Prop := s.holder = none

def step (s : State) : Event → Option (State × Out)
  | .startHunt mac cls =>
    if cls = .v4 then some (s, .start .errInvalidIP)
    else if cls = .other6 then some (s, .start .noChange)
    else if ¬ free s then none        -- h.Lock() waits for the batch in flight
    else if mac ∈ s.hunt then some (s, .start .hunt)
    else some ({ s with hunt := s.hunt ++ [mac], nloops := s.nloops + 1, started := mac :: s.started,
                        loops := updLoop s.loops s.nloops { mac := mac, pc := .check } }, .start .hunt)
  | .stopHunt mac eff =>
    if eff then
      if free s then some ({ s with hunt := s.hunt.erase mac }, .none) else none
    else some (s, .none)
  | .close => if free s then some ({ s with closed := true }, .none) else none
  | .check i =>
    if (s.loops i).pc = .check ∧ free s then
      if (s.loops i).mac ∉ s.hunt ∨ s.closed then
        some ({ s with loops := updLoop s.loops i { s.loops i with pc := .done } }, .none)
      else if s.defaultRouter.isSome then
        match s.routers.map (·.1) with
        | [] => some ({ s with loops := updLoop s.loops i { s.loops i with pc := .wait } }, .none)
        | l => some ({ s with loops := updLoop s.loops i { s.loops i with pc := .send l }, holder := some i }, .none)
      else some ({ s with loops := updLoop s.loops i { s.loops i with pc := .wait } }, .none)
    else none
  | .send i r =>
    match (s.loops i).pc with
    | .send p =>
      if r ∈ p then
        if (p.erase r).isEmpty then
          some ({ s with loops := updLoop s.loops i { s.loops i with pc := .wait }, holder := none },
                .na (s.loops i).mac r)
        else
          some ({ s with loops := updLoop s.loops i { s.loops i with pc := .send (p.erase r) } },
                .na (s.loops i).mac r)
      else none
    | _ => none
  | .wake i =>
    if (s.loops i).pc = .wait then
      some ({ s with loops := updLoop s.loops i { s.loops i with pc := .check } }, .none)
    else none
  | .ra r =>
    -- a message shorter than the fixed part is refused before the mutex is touched
    if ¬ free s ∧ 16 ≤ r.payload.length then none
    else
      match processRA s r with
      | .ok (s', ok) => some (s', .raResult ok)
      | _ => none
  | .envRepeat v => some ({ s with rep := v }, .none)
  | .rxOther => some (s, .none)

/-- run a trace, collecting the outputs -/
def run (s : State) : List Event → Option (State × List Out)
  | [] => some (s, [])
  | e :: es =>
    match step s e with
    | none => none
    | some (s', o) =>
      match run s' es with
      | none => none
      | some (s'', os) => some (s'', o :: os)

/-- number of forged advertisements to `mac` in an output list -/
def naCount (mac : Bytes) : List Out → Nat
  | [] => 0
  | .na m _ :: rest => (if m = mac then 1 else 0) + naCount mac rest
  | _ :: rest => naCount mac rest

end PV.Model.Icmp6Hunt
