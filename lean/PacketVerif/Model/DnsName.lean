/-
  Model of the DNS name codec of package `packet` (layer_dns.go): `decodeName` (labels,
  compression pointers, recursion bound, every bounds check as the code has it),
  `encodeName` and `EncodeDNSQuery`.

  The code modelled is the code after the `fix:` commits
    * "decodeName rejects names longer than 255 bytes assembled through compression pointers"
    * "decodeName rejects compression pointers that do not point before the name being decoded".
  Core Lean only (linked into the driver).
-/
import PacketVerif.Basic
namespace PV.Model
open PV

/-- `const maxRecursionLevel = 255` -/
def maxRecursionLevel : Nat := 255

/-- How the label loop of `decodeName` stopped: at the terminating zero octet, or at a
    compression pointer (`data[index] & 0xc0 == 0xc0`).  `acc` is what was appended to
    `*buffer` so far (each label preceded by a dot), `index` the position of the stopping octet. -/
inductive Scan where
  | done (acc : Bytes) (index : Nat)
  | ptr (acc : Bytes) (index : Nat)
  deriving DecidableEq, Repr

/-- The `for data[index] != 0x00 { switch data[index] & 0xc0 … }` loop of `decodeName` up to the
    point where it leaves the label case.  `fuel` bounds the number of iterations (each one
    consumes at least two bytes; `scanLabels_no_hang` shows `len(data)` suffices).
    Every index expression of the Go code is an `idx`/`slice` (→ `panic` when out of range):

    ```go
    for data[index] != 0x00 {
      switch data[index] & 0xc0 {
      default:
        index2 := index + int(data[index]) + 1
        if index2-offset > 255 { return ErrParseFrame }
        else if index2 < index+1 || index2 > len(data) { return ErrParseFrame }
        *buffer = append(*buffer, '.'); *buffer = append(*buffer, data[index+1:index2]...)
        index = index2
      case 0xc0: … break loop
      case 0x40, 0x80: return fmt.Errorf(…)
      }
      if index >= len(data) { return ErrParseFrame }
    }
    ``` -/
def scanLabels : (fuel : Nat) → (data : Bytes) → (offset index : Nat) → (acc : Bytes) → Outcome Scan
  | 0, _, _, _, _ => .hang
  | fuel + 1, data, offset, index, acc =>
    match idx data index with
    | .ok b =>
      if b == 0 then .ok (.done acc index)
      else if b &&& 0xc0 == 0xc0 then .ok (.ptr acc index)
      else if b &&& 0xc0 == 0x40 then .err .other
      else if b &&& 0xc0 == 0x80 then .err .other
      else
        let index2 := index + b.toNat + 1
        if index2 - offset > 255 then .err .parseFrame
        else if index2 > data.length then .err .parseFrame
        else
          match slice data (index + 1) index2 with
          | .ok lab =>
            if index2 ≥ data.length then .err .parseFrame
            else scanLabels fuel data offset index2 (acc ++ (46 :: lab))
          | .err e => .err e
          | .panic => .panic
          | .hang => .hang
    | .err e => .err e
    | .panic => .panic
    | .hang => .hang

/-- the tail of `decodeName`:
    ```go
    if len(*buffer)-start > 255 { return nil, 0, ErrParseFrame }      // fix commit
    if len(*buffer) <= start { return (*buffer)[start:], index + 1, nil }
    return (*buffer)[start+1:], index + 1, nil
    ```
    The model returns the *appended segment* (the caller of a recursive call only uses the
    buffer); `nameOf` strips the leading dot. -/
def finishName (seg : Bytes) (index : Nat) : Outcome (Bytes × Nat) :=
  if seg.length > 255 then .err .parseFrame else .ok (seg, index + 1)

/-- 14-bit pointer target `binary.BigEndian.Uint16(data[index:index+2]) & 0x3fff` -/
def ptrTarget (hi lo : UInt8) : Nat := (hi &&& 0x3f).toNat * 256 + lo.toNat

/-- What `decodeName` does once the label loop has stopped: at the zero octet the tail of the
    function; at a pointer the `case 0xc0:` arm

    ```go
    if index+2 > len(data) { return ErrParseFrame }
    offsetp := int(binary.BigEndian.Uint16(data[index:index+2]) & 0x3fff)
    if offsetp >= offset { return ErrParseFrame }            // fix commit (was: offsetp > len(data))
    _, _, err := decodeName(data, offsetp, buffer, level+1)
    if err != nil { return err }
    index++; break loop
    ```
    `recur offsetp` is the recursive call. -/
def afterScan (data : Bytes) (offset : Nat) (recur : Nat → Outcome (Bytes × Nat)) : Outcome Scan → Outcome (Bytes × Nat)
  | .ok (.done acc index) => finishName acc index
  | .ok (.ptr acc index) =>
    if index + 2 > data.length then .err .parseFrame
    else
      match slice data index (index + 2) with
      | .ok [hi, lo] =>
        let offsetp := ptrTarget hi lo
        if offsetp ≥ offset then .err .parseFrame
        else
          match recur offsetp with
          | .ok (seg, _) => finishName (acc ++ seg) (index + 1)
          | .err e => .err e
          | .panic => .panic
          | .hang => .hang
      | .ok _ => .panic
      | .err e => .err e
      | .panic => .panic
      | .hang => .hang
  | .err e => .err e
  | .panic => .panic
  | .hang => .hang

/-- `decodeName(data, offset, buffer, level)` for `offset ≥ 0`; result = (bytes appended to
    `*buffer`, returned end index).  `fuel` bounds the recursion over compression pointers;
    the code's own `level > maxRecursionLevel` test makes `257 - level` sufficient
    (`decodeSeg_no_hang`). -/
def decodeSeg : (fuel : Nat) → (data : Bytes) → (offset level : Nat) → Outcome (Bytes × Nat)
  | 0, _, _, _ => .hang
  | fuel + 1, data, offset, level =>
    if level > maxRecursionLevel then .err .parseFrame
    else if offset ≥ data.length then .err .parseFrame
    else
      match idx data offset with
      | .ok b0 =>
        if b0 == 0 then .ok ([], offset + 1)
        else afterScan data offset (fun offsetp => decodeSeg fuel data offsetp (level + 1))
               (scanLabels data.length data offset offset [])
      | .err e => .err e
      | .panic => .panic
      | .hang => .hang

/-- `(*buffer)[start+1:]` (or `[start:]` when nothing was appended) -/
def nameOf (seg : Bytes) : Bytes := seg.drop 1

/-- fuel that always suffices for `decodeSeg` started at `level ≥ 1` -/
def nameFuel : Nat := 257

/-- `decodeName(data, offset, &buffer, level)` as called from outside (`offset` is a Go `int`):
    returns the decoded name (without leading dot) and the index after the name. -/
def decodeName (data : Bytes) (offset : Int) (level : Nat) : Outcome (Bytes × Nat) :=
  if level > maxRecursionLevel then .err .parseFrame
  else if offset ≥ data.length then .err .parseFrame
  else if offset < 0 then .err .parseFrame
  else
    match decodeSeg nameFuel data offset.toNat level with
    | .ok (seg, e) => .ok (nameOf seg, e)
    | .err e => .err e
    | .panic => .panic
    | .hang => .hang

/-! ### encodeName / EncodeDNSQuery -/

/-- `data[i] = v` on a slice of fixed length – panics when out of range -/
def setIdx (data : Bytes) (i : Nat) (v : UInt8) : Outcome Bytes :=
  if i < data.length then .ok (data.set i v) else .panic

/-- the `for i := range name` loop of `encodeName`; `i` is the loop index, `l` the running label length -/
def encodeNameLoop : (name : Bytes) → (i l : Nat) → (data : Bytes) → (offset : Nat) → Outcome (Bytes × Nat)
  | [], _, l, data, _ => .ok (data, l)
  | c :: rest, i, l, data, offset =>
    if c == 46 then
      match setIdx data (offset + i - l) (UInt8.ofNat l) with
      | .ok d => encodeNameLoop rest (i + 1) 0 d offset
      | .err e => .err e | .panic => .panic | .hang => .hang
    else
      match setIdx data (offset + i + 1) c with
      | .ok d => encodeNameLoop rest (i + 1) (l + 1) d offset
      | .err e => .err e | .panic => .panic | .hang => .hang

/-- `encodeName(name, data, offset)` : writes the wire form of the dotted name into `data`
    (a slice of fixed length) and returns the buffer and the offset after the name. -/
def encodeName (name data : Bytes) (offset : Nat) : Outcome (Bytes × Nat) :=
  match encodeNameLoop name 0 0 data offset with
  | .ok (d, l) =>
    if name.length == 0 then
      match setIdx d offset 0 with
      | .ok d' => .ok (d', offset + 1)
      | .err e => .err e | .panic => .panic | .hang => .hang
    else
      match setIdx d (offset + name.length - l) (UInt8.ofNat l) with
      | .ok d1 =>
        match setIdx d1 (offset + name.length + 1) 0 with
        | .ok d2 => .ok (d2, offset + name.length + 2)
        | .err e => .err e | .panic => .panic | .hang => .hang
      | .err e => .err e | .panic => .panic | .hang => .hang
  | .err e => .err e | .panic => .panic | .hang => .hang

def put16 (v : Nat) : Bytes := [UInt8.ofNat (v / 256), UInt8.ofNat v]

/-- `EncodeDNSQuery(tranID, flags, encodedName, questionType)`: 512-byte buffer, header with
    QDCOUNT=1, `n := copy(b[12:], encodedName)`, type and class IN after the name,
    result `b[:16+n]`.  `binary.BigEndian.PutUint16(b[12+n:], …)` panics when fewer than two
    bytes remain. -/
def encodeDNSQuery (tranID flags : Nat) (encodedName : Bytes) (qtype : Nat) : Outcome Bytes :=
  let n := min encodedName.length 500
  if 12 + n + 2 > 512 then .panic
  else if 14 + n + 2 > 512 then .panic
  else .ok (put16 tranID ++ put16 flags ++ put16 1 ++ put16 0 ++ put16 0 ++ put16 0
            ++ encodedName.take n ++ put16 qtype ++ put16 1)

end PV.Model
