/-
  Model of `Session.Ping` / `Ping6` / `ping` / `echoNotify` / `icmpTable` (layer_icmp.go) and of the
  echo-reply dispatch in `Session.Parse` (layer_frame.go) as a small-step transition system.

  Global state   : the process-wide `icmpTable` (map id → *icmpEntry, next id).
  Threads        : one per call of Ping/Ping6, with a program counter; the `icmpEntry` (`msg`) of the
                   call lives in the thread record, the table maps an id to the thread owning the entry
                   (Go: pointer to that call's `msg`).
  Atomic steps   : one per `icmpTable.Lock()…Unlock()` section, one per frame send, one per `select`
                   outcome.  `timeout` is enabled whenever the thread waits (wall-clock time is not
                   modelled: `time.After` may fire at any moment).

      reg      icmpTable.Lock(); id := icmpTable.id; icmpTable.id++; icmpTable.table[id] = &msg; Unlock()
      sendOk   ICMP4/6SendEchoRequest returned nil (frame written)
      sendErr  ICMP4/6SendEchoRequest returned an error (e.g. ErrInvalidIP, write error)
      cleanup  (code after `fix: ping removes its waiter when the send fails`)
               Lock(); delete(table, id); Unlock(); return err
      wake     `case <-msg.wakeup` (only possible once the channel is closed)
      timeout  `case <-time.After(timeout)`
      unreg    Lock(); delete(table, id); Unlock(); return nil / ErrTimeout according to msg.msgRecv
      echo id  echoNotify(id) called by Parse for a valid ICMPv4/ICMPv6 echo reply
      other    any other parsed frame (no call of echoNotify)

  `sent` and `seen` are history variables (never read by a transition): `sent` = the echo request was
  written; `seen` = an echo reply carrying this call's identifier was parsed after the call registered
  and before it unregistered.
-/
import PacketVerif.Basic
namespace PV.Model.Ping
open PV

inductive Pc where
  | init | send | cleanup | wait | unreg | done
  deriving DecidableEq, Repr, Inhabited

inductive Ret where
  | none | nil | timeout | sendErr
  deriving DecidableEq, Repr, Inhabited

structure Thread where
  pc : Pc := .init
  id : Nat := 0
  recv : Bool := false      -- msg.msgRecv
  closes : Nat := 0         -- how many times close(msg.wakeup) ran (a second close is a Go panic)
  ret : Ret := .none
  sent : Bool := false      -- history
  seen : Bool := false      -- history
  deriving DecidableEq, Repr, Inhabited

structure State where
  table : List (Nat × Nat)  -- (id, owning thread); keys kept distinct by `tset`
  nextId : Nat
  th : Nat → Thread

inductive Event where
  | reg (p : Nat) | sendOk (p : Nat) | sendErr (p : Nat) | cleanup (p : Nat)
  | wake (p : Nat) | timeout (p : Nat) | unreg (p : Nat)
  | echo (id : Nat) | other
  deriving DecidableEq, Repr, Inhabited

def idMod : Nat := 65536

/-- registered and not yet unregistered -/
def Thread.active (t : Thread) : Bool :=
  t.pc == .send || t.pc == .cleanup || t.pc == .wait || t.pc == .unreg

def upd (f : Nat → Thread) (p : Nat) (t : Thread) : Nat → Thread :=
  fun q => if q = p then t else f q

/-- `delete(table, id)` -/
def tdel (t : List (Nat × Nat)) (id : Nat) : List (Nat × Nat) := t.filter (fun e => e.1 ≠ id)
/-- `table[id] = &msg` -/
def tset (t : List (Nat × Nat)) (id p : Nat) : List (Nat × Nat) := (id, p) :: tdel t id
/-- `table[id]` -/
def tget (t : List (Nat × Nat)) (id : Nat) : Option Nat := (t.find? (fun e => e.1 = id)).map (·.2)

/-- history update of `echo id`: every registered, not yet unregistered call whose identifier is `id`
    has now seen its reply -/
def markSeen (th : Nat → Thread) (id : Nat) : Nat → Thread :=
  fun p => if (th p).active ∧ (th p).id = id then { th p with seen := true } else th p

def init (id0 : Nat) : State := { table := [], nextId := id0, th := fun _ => {} }

def step (s : State) : Event → Option State
  | .reg p =>
    if (s.th p).pc = .init then
      some { table := tset s.table s.nextId p, nextId := (s.nextId + 1) % idMod,
             th := upd s.th p { s.th p with pc := .send, id := s.nextId } }
    else none
  | .sendOk p =>
    if (s.th p).pc = .send then some { s with th := upd s.th p { s.th p with pc := .wait, sent := true } }
    else none
  | .sendErr p =>
    if (s.th p).pc = .send then some { s with th := upd s.th p { s.th p with pc := .cleanup } }
    else none
  | .cleanup p =>
    if (s.th p).pc = .cleanup then
      some { s with table := tdel s.table (s.th p).id,
                    th := upd s.th p { s.th p with pc := .done, ret := .sendErr } }
    else none
  | .wake p =>
    if (s.th p).pc = .wait ∧ 0 < (s.th p).closes then
      some { s with th := upd s.th p { s.th p with pc := .unreg } }
    else none
  | .timeout p =>
    if (s.th p).pc = .wait then some { s with th := upd s.th p { s.th p with pc := .unreg } }
    else none
  | .unreg p =>
    if (s.th p).pc = .unreg then
      some { s with table := tdel s.table (s.th p).id,
                    th := upd s.th p { s.th p with pc := .done,
                                                   ret := if (s.th p).recv then .nil else .timeout } }
    else none
  | .echo id =>
    let th1 := markSeen s.th id
    if s.table.isEmpty then some { s with th := th1 }
    else match tget s.table id with
      | none => some { s with th := th1 }
      | some q => some { s with table := tdel s.table id,
                                th := upd th1 q { th1 q with recv := true, closes := (th1 q).closes + 1 } }
  | .other => some s

def run (s : State) : List Event → Option State
  | [] => some s
  | e :: es => match step s e with
    | some s' => run s' es
    | none => none

/-- the identifier counter does not wrap around during the trace -/
def NoWrap (s : State) : List Event → Prop
  | [] => True
  | e :: es => (∀ p, e = .reg p → s.nextId + 1 < idMod) ∧
      match step s e with
      | some s' => NoWrap s' es
      | none => True

/-! ### what `Parse` hands to `echoNotify` (layer_frame.go: `icmpFrame.IsValid`, type test, `echo.IsValid`,
    `echo.EchoID()`) -/

/-- `v6 = false`: IPv4 protocol 1, echo reply type 0; `v6 = true`: next header 58, echo reply type 129.
    Result: `some id` when echoNotify(id) is called. -/
def classify (v6 : Bool) (icmp : Bytes) : Option Nat :=
  if icmp.length < 8 then none
  else match icmp with
    | t :: _ :: _ :: _ :: i1 :: i0 :: _ =>
      if t = (if v6 then 129 else 0) then some (be16 i1 i0) else none
    | _ => none

/-- the clamp at the head of `Ping6` / `ping` (`if timeout <= 0 || timeout > time.Second*10 { timeout = time.Second * 2 }`),
    in nanoseconds: "the timeout" of the property is this effective value -/
def effTimeout (t : Int) : Int :=
  if t ≤ 0 ∨ t > 10000000000 then 2000000000 else t

end PV.Model.Ping
