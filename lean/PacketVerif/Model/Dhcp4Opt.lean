/-
  Model of the DHCPv4 option layer of layer_dhcp4.go: `validateOptions`, `ParseOptions`,
  `AppendOptions`, `EncodeDHCP4`.  Byte strings are values (the in-place reuse of the request
  buffer is not modelled: `AppendOptions` copies the option values into a scratch buffer before it
  writes, and after the mask-first fix `order` is a fresh slice).  Index / slice operations are the
  panicking primitives of `Basic`; the two option loops take fuel and a theorem shows that
  `len + 1` is always enough.
-/
import PacketVerif.Basic
namespace PV.Model.Dhcp4Opt
open PV

/-- option map as association list (keys unique: a Go map) -/
abbrev Opts := List (UInt8 × Bytes)

def optGet (o : Opts) (c : UInt8) : Option Bytes := (o.find? (fun e => e.1 == c)).map (·.2)
def optDel (o : Opts) (c : UInt8) : Opts := o.filter (fun e => e.1 != c)
def optSet (o : Opts) (c : UInt8) (v : Bytes) : Opts := (c, v) :: optDel o c

/-- `p.Options()` -/
def optionsOf (p : Bytes) : Bytes := if p.length > 240 then p.drop 240 else []

/-- the loop of `validateOptions` -/
def validateLoop : Nat → Bytes → Outcome Unit
  | 0, _ => .hang
  | fuel + 1, opts =>
    if opts.length < 2 then .ok ()
    else do
      let c ← idx opts 0
      if c == 255 then .ok ()
      else if c == 0 then do
        let rest ← sliceFrom opts 1
        validateLoop fuel rest
      else do
        let sz ← idx opts 1
        if opts.length < 2 + sz.toNat then .err .parseFrame
        else do
          let rest ← sliceFrom opts (2 + sz.toNat)
          validateLoop fuel rest

/-- `validateOptions` -/
def validateOptions (p : Bytes) : Outcome Unit :=
  let opts := optionsOf p
  if opts.length < 2 then .err .parseFrame else validateLoop (opts.length + 1) opts

/-- the loop of `ParseOptions` -/
def parseLoop : Nat → Bytes → Opts → Outcome Opts
  | 0, _, _ => .hang
  | fuel + 1, opts, acc =>
    if opts.length < 2 then .ok acc
    else do
      let c ← idx opts 0
      if c == 255 then .ok acc
      else if c == 0 then do
        let rest ← sliceFrom opts 1
        parseLoop fuel rest acc
      else do
        let sz ← idx opts 1
        if opts.length < 2 + sz.toNat then .ok acc
        else do
          let v ← slice opts 2 (2 + sz.toNat)
          let rest ← sliceFrom opts (2 + sz.toNat)
          parseLoop fuel rest (optSet acc c v)

/-- `ParseOptions` -/
def parseOptions (p : Bytes) : Outcome Opts :=
  let opts := optionsOf p
  parseLoop (opts.length + 1) opts []

/-! ### AppendOptions -/

/-- first phase: the codes of `order` that are present, each once (the option is deleted after it is written) -/
def orderedPhase : List UInt8 → Opts → List (UInt8 × Bytes) × Opts
  | [], o => ([], o)
  | c :: cs, o =>
    match optGet o c with
    | some v => let r := orderedPhase cs (optDel o c); ((c, v) :: r.1, r.2)
    | none => orderedPhase cs o

/-- second phase: the remaining options in map iteration order `tail` (a permutation of the remaining keys) -/
def tailPhase (tail : List UInt8) (o : Opts) : List (UInt8 × Bytes) :=
  tail.filterMap (fun c => (optGet o c).map (fun v => (c, v)))

/-- effective order: subnet mask first (fix), the caller's order, then mask / static route / router -/
def fullOrder (order : Bytes) : List UInt8 := 1 :: (order ++ [1, 33, 3])

/-- the sequence of (code, value) written by `AppendOptions` -/
def emitSeq (opts : Opts) (order : Bytes) (tail : List UInt8) : List (UInt8 × Bytes) :=
  let r := orderedPhase (fullOrder order) opts
  r.1 ++ tailPhase tail r.2

/-- one option written into the 1024-byte scratch buffer at `pos = buf.length` -/
def emit (buf : Bytes) (code : UInt8) (v : Bytes) : Outcome Bytes :=
  if buf.length + 2 > 1024 then .panic      -- buffer[pos] / buffer[pos+1] out of range
  else .ok (buf ++ [code, UInt8.ofNat v.length] ++ v.take (1024 - (buf.length + 2)))   -- copy() truncates silently

def writeAll : List (UInt8 × Bytes) → Bytes → Outcome Bytes
  | [], buf => .ok buf
  | (c, v) :: rest, buf => do
    let b ← emit buf c v
    writeAll rest b

/-- `AppendOptions` for a packet of capacity `cap`: bytes placed at p[240:] and the returned count -/
def appendOptions (cap : Nat) (opts : Opts) (order : Bytes) (tail : List UInt8) : Outcome (Bytes × Nat) :=
  if cap < 240 then .ok ([], 0)
  else do
    let buf ← writeAll (emitSeq opts order tail) []
    .ok (buf.take (cap - 240), buf.length)

/-! ### EncodeDHCP4 -/

/-- `copy(dst, src)` on a destination of fixed length -/
def copyInto (dst src : Bytes) : Bytes := src.take dst.length ++ dst.drop src.length

def zeros (n : Nat) : Bytes := List.replicate n 0

structure EncArgs where
  opcode : UInt8
  mt : UInt8
  chaddr : Option Bytes     -- nil keeps the first 6 bytes of the existing hardware address
  ciaddr : Option Bytes     -- `Is4()` : 4 bytes, else keep
  yiaddr : Option Bytes
  xid : Option Bytes
  broadcast : Bool
  opts : Opts
  order : Bytes

/-- `EncodeDHCP4` over an existing buffer `b` with `cap(b) = b.length` (content = what the request left there):
    `.ok []` is the nil return -/
def encodeDHCP4 (b : Bytes) (a : EncArgs) (tail : List UInt8) : Outcome Bytes :=
  if b.length < 300 then .ok []
  else
    let xid := match a.xid with | some x => copyInto ((b.drop 4).take 4) x | none => (b.drop 4).take 4
    let ci := match a.ciaddr with | some x => x | none => (b.drop 12).take 4
    let yi := match a.yiaddr with | some x => x | none => (b.drop 16).take 4
    let hlen : UInt8 := match a.chaddr with | some m => UInt8.ofNat m.length | none => 6
    let ch := match a.chaddr with
      | some m => copyInto ((b.drop 28).take 6 ++ zeros 10) m
      | none => (b.drop 28).take 6 ++ zeros 10
    let hdr := [a.opcode, 1, hlen, 0] ++ xid ++ [0, 0] ++ [if a.broadcast then 128 else 0, 0] ++ ci ++ yi ++ zeros 8 ++ ch
      ++ zeros 192 ++ [99, 130, 83, 99]
    do
      let (placed, pos) ← appendOptions b.length (optSet a.opts 53 [a.mt]) a.order tail
      let n := 240 + pos
      if n ≥ b.length then .ok []          -- no room for the end option: nil (fix 4da685d; before: p[n] = End out of range)
      else
        let body := hdr ++ placed ++ [255]
        .ok (body ++ zeros (300 - body.length))

end PV.Model.Dhcp4Opt
