/-
  Model of the NDP option parser (layer_icmp6_options.go: `newParseOptions` and every option
  `unmarshal`), of the RA / NA / NS views used by the ICMPv6 handler (layer_icmp.go), of the
  parse / dispatch part of `icmp6.ProcessPacket` (handlers/icmp_spoofer/icmp6.go), of
  `Handler4.ProcessPacket` incl. the embedded-IP walk (icmp4_logger.go), of
  `HopByHopExtensionHeader.ParseHopByHopExtensions` (layer_ip6.go) and of the classification done by
  `arp.ProcessPacket` (handlers/arp_spoofer/arp.go).

  The code modelled is the code AFTER the commits
    fix: newParseOptions rejects NDP options with length zero …
    fix: ignored invalid RDNSS / route information options no longer modify the parsed NDP options
    fix: NDP option length arithmetic no longer wraps at 256 bytes …
    fix: NDP MTU option was read from the reserved field …
    fix: ParseHopByHopExtensions validates the header before slicing it
  Every Go index / slice expression is written with `idx` / `slice` / `sliceFrom`, i.e. an
  out-of-range access is the explicit value `panic`; loops whose progress is not syntactically
  obvious take fuel and return `hang` when it runs out (Props/C08Ndp.lean shows neither is reachable).
-/
import PacketVerif.Basic
namespace PV.Model.Ndp
open PV

/-! ### option values -/

structure LLA where
  dir : Nat := 0
  mac : Bytes := []
  deriving DecidableEq, Repr, Inhabited

structure PrefixInfo where
  plen : Nat
  onLink : Bool
  auto : Bool
  valid : Nat          -- seconds
  preferred : Nat      -- seconds
  pfx : Bytes       -- 16 bytes masked to plen bits; [] (Go nil) when plen > 128
  deriving DecidableEq, Repr, Inhabited

structure RouteInfo where
  plen : Nat := 0
  pref : Nat := 0
  lifetime : Nat := 0
  pfx : Bytes := []
  deriving DecidableEq, Repr, Inhabited

structure Rdnss where
  lifetime : Nat := 0
  servers : List Bytes := []
  deriving DecidableEq, Repr, Inhabited

structure Dnssl where
  lifetime : Nat := 0
  names : List Bytes := []   -- labels joined with '.'
  /-- a label contains the Punycode marker "xn--": `puny.ToUnicode` (third party) decides what the
      names are; the model leaves them unspecified -/
  puny : Bool := false
  deriving DecidableEq, Repr, Inhabited

/-- `packet.NewOptions` (`FirstPrefix` is always `Prefixes[0].Prefix`) -/
structure Options where
  mtu : Nat := 0
  prefixes : List PrefixInfo := []
  rdnss : Rdnss := {}
  slla : LLA := {}
  tlla : LLA := {}
  dnssl : Dnssl := {}
  ri : RouteInfo := {}
  deriving DecidableEq, Repr, Inhabited

def Options.firstPrefix (o : Options) : Bytes :=
  match o.prefixes with
  | [] => []
  | p :: _ => p.pfx

/-- `binary.BigEndian.Uint32(s)` – panics when `len(s) < 4` -/
def u32be (s : Bytes) : Outcome Nat :=
  match s with
  | a :: b :: c :: d :: _ => .ok (be32 a b c d)
  | _ => .panic

/-- `binary.BigEndian.Uint16(s)` -/
def u16be (s : Bytes) : Outcome Nat :=
  match s with
  | a :: b :: _ => .ok (be16 a b)
  | _ => .panic

/-! ### the individual `unmarshal`s; `.err` = the Go function returned an error -/

/-- `(*LinkLayerAddress).unmarshal` -/
def llaUnmarshal (b : Bytes) : Outcome LLA := do
  let t ← idx b 0
  let l ← idx b 1
  if l ≠ 1 then .err .other
  else if t ≠ 1 ∧ t ≠ 2 then .err .other
  else do
    let mac ← sliceFrom b 2
    pure { dir := t.toNat, mac := mac }

/-- `(*MTU).unmarshal` -/
def mtuUnmarshal (b : Bytes) : Outcome Nat := do
  let l1 ← idx b 1
  if ((l1.toNat : Int) * 8 - 2) ≠ 6 then .err .other
  else do
    let s ← slice b 4 8
    u32be s

/-- one byte of `net.CIDRMask(ones, 128)` at byte position `i` -/
def maskByte (ones i : Nat) : UInt8 :=
  if ones ≥ 8 * (i + 1) then 0xff
  else if ones ≤ 8 * i then 0
  else ~~~ ((0xff : UInt8) >>> UInt8.ofNat (ones - 8 * i))

/-- `net.IP(a).Mask(net.CIDRMask(ones, 128))` for a 16-byte `a`; Go returns nil when `ones > 128` -/
def maskPrefix (a : Bytes) (ones : Nat) : Bytes :=
  if ones > 128 then []
  else (List.range a.length).zipWith (fun i x => x &&& maskByte ones i) a

/-- `(*PrefixInformation).unmarshal` -/
def prefixUnmarshal (b : Bytes) : Outcome PrefixInfo := do
  let l1 ← idx b 1
  if l1 ≠ 4 then .err .other
  else do
    let value ← sliceFrom b 2
    let f ← idx value 1
    let v ← (slice value 2 6) >>= u32be
    let p ← (slice value 6 10) >>= u32be
    let a ← slice value 14 30
    -- netip.AddrFromSlice of a 16-byte slice always succeeds and Is6
    let pl ← idx value 0
    pure { plen := pl.toNat, onLink := (f &&& 0x80) ≠ 0, auto := (f &&& 0x40) ≠ 0,
           valid := v, preferred := p, pfx := maskPrefix a pl.toNat }

/-- the length / prefix-length consistency `switch` of `(*RouteInformation).unmarshal` -/
def riLenOk (l pl : Nat) : Bool :=
  if pl = 0 then decide (1 ≤ l ∧ l ≤ 3)
  else if pl < 65 then decide (l = 2 ∨ l = 3)
  else if pl < 129 then decide (l = 3)
  else false

/-- `(*RouteInformation).unmarshal` -/
def riUnmarshal (b : Bytes) : Outcome RouteInfo := do
  let l ← idx b 1
  let pl ← idx b 2
  if riLenOk l.toNat pl.toNat = false then .err .other
  else do
    let lt ← (slice b 4 8) >>= u32be
    let f ← idx b 3
    let pr := ((f &&& 0x18) >>> 3).toNat
    if pr = 2 then .err .other      -- checkPreference: reserved
    else do
      let p ← slice b 8 (8 + pl.toNat / 8)
      pure { plen := pl.toNat, pref := pr, lifetime := lt, pfx := p }

/-- the server loop of `(*RecursiveDNSServer).unmarshal` -/
def rdnssServers (value : Bytes) : Nat → Nat → Outcome (List Bytes)
  | 0, _ => .ok []
  | n + 1, i => do
    let s ← slice value (6 + 16 * i) (6 + 16 + 16 * i)
    let rest ← rdnssServers value n (i + 1)
    pure (s :: rest)

/-- `(*RecursiveDNSServer).unmarshal` -/
def rdnssUnmarshal (b : Bytes) : Outcome Rdnss := do
  let value ← sliceFrom b 2
  let lt ← (slice value 2 6) >>= u32be
  let l1 ← idx b 1
  let dividend := (l1.toNat - 1) * 8      -- l1 ≥ 1 here (zero-length options are rejected before)
  if dividend % 2 ≠ 0 then .err .other
  else
    let count := dividend / 16
    if count = 0 then .err .other
    else do
      let srv ← rdnssServers value count 0
      pure { lifetime := lt, servers := srv }

def isASCII (l : Bytes) : Bool := l.all (fun c => c < 0x80)

/-- "xn--" occurs somewhere in the label -/
def hasPuny : Bytes → Bool
  | [] => false
  | c :: rest => (c :: rest).take 4 == [0x78, 0x6e, 0x2d, 0x2d] || hasPuny rest

def joinDots : List Bytes → Bytes
  | [] => []
  | [l] => l
  | l :: rest => l ++ 0x2e :: joinDots rest

structure DnsslAcc where
  labels : List Bytes := []
  domains : List Bytes := []
  puny : Bool := false

/-- the label loop of `(*DNSSearchList).unmarshal` over `raw.Value`, index `i` -/
def dnsslLoop (v : Bytes) : Nat → Nat → DnsslAcc → Outcome DnsslAcc
  | 0, _, _ => .hang
  | fuel + 1, i, acc => do
    let rest ← sliceFrom v i
    if rest.length < 2 then .err .other
    else do
      let lenB ← idx v i
      let length := lenB.toNat
      if (length : Int) ≥ (rest.length : Int) - 1 then .err .other
      else if length = 0 then pure acc
      else do
        let i := i + 1
        let label ← slice v i (i + length)
        if ¬ isASCII label then .err .other
        else if label.isEmpty ∨ label.contains 0x2e ∨ label.contains 0x20 then .err .other
        else do
          let acc := { acc with labels := acc.labels ++ [label], puny := acc.puny || hasPuny label }
          let i := i + length
          let c ← idx v i
          if c = 0 then do
            let i := i + 1
            let acc := { acc with domains := acc.domains ++ [joinDots acc.labels], labels := [] }
            let rest2 ← sliceFrom v i
            if rest2.length = 0 then pure acc
            else if rest2.length = 1 then do
              let z ← idx v i
              if z = 0 then pure acc else dnsslLoop v fuel i acc
            else dnsslLoop v fuel i acc
          else dnsslLoop v fuel i acc

/-- `(*DNSSearchList).unmarshal` (with `(*RawOption).unmarshal` inlined) -/
def dnsslUnmarshal (b : Bytes) : Outcome Dnssl :=
  if b.length < 2 then .err .other
  else do
    let l1 ← idx b 1
    let value ← sliceFrom b 2
    if ((l1.toNat : Int) * 8 - 2) ≠ (value.length : Int) then .err .other
    else do
      let lt ← (slice value 2 6) >>= u32be
      let acc ← dnsslLoop value (value.length + 1) 6 {}
      if acc.domains.isEmpty then .err .other
      else pure { lifetime := lt, names := acc.domains, puny := acc.puny }

/-- what the `switch t` of `newParseOptions` does with one option of `l = 8·len` bytes -/
def applyOption (t : UInt8) (opt : Bytes) (o : Options) : Outcome Options :=
  if t = 1 then do let a ← llaUnmarshal opt; pure { o with slla := a }
  else if t = 2 then do let a ← llaUnmarshal opt; pure { o with tlla := a }
  else if t = 5 then
    match mtuUnmarshal opt with
    | .ok m => .ok { o with mtu := m }
    | .err _ => .ok o                         -- "ignore invalid MTU option"
    | .panic => .panic
    | .hang => .hang
  else if t = 3 then do
    let p ← prefixUnmarshal opt
    pure { o with prefixes := o.prefixes ++ [p] }
  else if t = 24 then
    match riUnmarshal opt with
    | .ok r => .ok { o with ri := r }
    | .err _ => .ok o
    | .panic => .panic
    | .hang => .hang
  else if t = 25 then
    match rdnssUnmarshal opt with
    | .ok r => .ok { o with rdnss := { lifetime := r.lifetime, servers := o.rdnss.servers ++ r.servers } }
    | .err _ => .ok o
    | .panic => .panic
    | .hang => .hang
  else if t = 31 then
    match dnsslUnmarshal opt with
    | .ok d => .ok { o with dnssl := d }
    | .err _ => .ok o
    | .panic => .panic
    | .hang => .hang
  else .ok o                                   -- "invalid option - ignoring"

/-- the `for i := 0; len(b[i:]) != 0;` loop of `newParseOptions`; `b` is `b[i:]` -/
def parseLoop : Nat → Bytes → Options → Outcome Options
  | 0, _, _ => .hang
  | fuel + 1, b, o =>
    if b.length = 0 then .ok o
    else if b.length < 2 then .err .other
    else do
      let t ← idx b 0
      let lb ← idx b 1
      let l := lb.toNat * 8
      if l = 0 ∨ l > b.length then .err .other
      else do
        let opt ← slice b 0 l
        let o' ← applyOption t opt o
        let rest ← sliceFrom b l
        parseLoop fuel rest o'

/-- `newParseOptions(b)`: at most `len(b)/8` options -/
def newParseOptions (b : Bytes) : Outcome Options := parseLoop (b.length / 8 + 1) b {}

/-! ### views (layer_icmp.go) -/

/-- `ICMP6RouterAdvertisement.Options()` -/
def raOptions (p : Bytes) : Outcome Options :=
  if p.length ≤ 16 then .ok {} else do
    let o ← sliceFrom p 16
    newParseOptions o

/-- header fields of a router advertisement as `ProcessPacket` reads them (after `IsValid`: len ≥ 16) -/
structure RaHeader where
  curHopLimit : Nat
  managed : Bool
  other : Bool
  preference : Nat
  lifetime : Nat        -- seconds
  reachable : Nat
  retrans : Nat
  deriving DecidableEq, Repr, Inhabited

def raHeader (p : Bytes) : Outcome RaHeader := do
  let h ← idx p 4
  let f ← idx p 5
  let lt ← (slice p 6 8) >>= u16be
  let re ← (slice p 8 12) >>= u32be
  let rt ← (slice p 12 16) >>= u32be
  pure { curHopLimit := h.toNat, managed := (f &&& 0x80) ≠ 0, other := (f &&& 0x40) ≠ 0,
         preference := ((f &&& 0x18) >>> 3).toNat, lifetime := lt, reachable := re, retrans := rt }

/-- `ICMP6NeighborAdvertisement.TargetLLA()` (nil = none) -/
def naTargetLLA (p : Bytes) : Outcome (Option Bytes) :=
  if p.length < 32 then .ok none else do
    let a ← idx p 24
    let b ← idx p 25
    if a ≠ 2 ∨ b ≠ 1 then .ok none else do
      let m ← slice p 26 32
      pure (some m)

/-! ### `Handler6.ProcessPacket`: parse / dispatch part (what is returned, which branch) -/

inductive Icmp6Class where
  | errShort        -- icmp6Frame.IsValid failed
  | na | naErrLen | naErrNoLLA
  | ns | nsErrLen | nsDad | nsGlobal
  | ra (o : Options) | raErrLen | raNoHost | raErrOpt | raSkipped
  | rs | echoReply | echoRequest | mld | redirect | redirectErr | unreachable
  | unknown
  deriving DecidableEq, Repr

/-- `netip.Addr.IsGlobalUnicast` (go 1.23) for the 16-byte address built by `AddrFromSlice`:
    not unspecified, loopback, multicast or link-local unicast; for an IPv4-mapped address the last
    three tests are made on the unmapped IPv4 address. -/
def isGlobalUnicast16 (a : Bytes) : Bool :=
  match a with
  | [a0, a1, a2, a3, a4, a5, a6, a7, a8, a9, a10, a11, a12, a13, a14, a15] =>
    let hi0 := a0 == 0 && a1 == 0 && a2 == 0 && a3 == 0 && a4 == 0 && a5 == 0 && a6 == 0 && a7 == 0
    if hi0 && a8 == 0 && a9 == 0 && a10 == 0xff && a11 == 0xff then
      !(a12 == 127) && !(a12 &&& 0xf0 == 0xe0) && !(a12 == 169 && a13 == 254)
    else
      let lo0 := a8 == 0 && a9 == 0 && a10 == 0 && a11 == 0 && a12 == 0 && a13 == 0 && a14 == 0
      !(hi0 && lo0 && a15 == 0) && !(hi0 && lo0 && a15 == 1) && !(a0 == 0xff) &&
        !(a0 == 0xfe && a1 &&& 0xc0 == 0x80)
  | _ => false

/-- dispatch of `Handler6.ProcessPacket` on the ICMPv6 payload `p`.
    `srcUnspec`: IPv6 source is `::`; `hostKnown`: `pkt.Host != nil`; `processRA`: the process-global
    `repeat` throttle lets this RA through. -/
def icmp6Dispatch (p : Bytes) (srcUnspec hostKnown processRA : Bool) : Outcome Icmp6Class :=
  if p.length < 8 then .ok .errShort
  else do
    let t ← idx p 0
    if t = 136 then
      if p.length < 24 then .ok .naErrLen else do
        let f ← idx p 4
        if (f &&& 0x20) ≠ 0 ∧ ¬ ((f &&& 0x40) ≠ 0) then do
          let lla ← naTargetLLA p
          match lla with
          | none => pure .naErrNoLLA
          | some _ => pure .na
        else pure .na
    else if t = 135 then
      if p.length < 24 then .ok .nsErrLen
      else if srcUnspec then .ok .nsDad
      else do
        let tgt ← slice p 8 24
        if isGlobalUnicast16 tgt then pure .nsGlobal else pure .ns
    else if t = 134 then
      if p.length < 16 then .ok .raErrLen
      else if ¬ processRA then .ok .raSkipped
      else if ¬ hostKnown then .ok .raNoHost
      else
        match raOptions p with
        | .ok o => .ok (.ra o)
        | .err _ => .ok .raErrOpt
        | .panic => .panic
        | .hang => .hang
    else if t = 133 then
      -- ICMP6RouterSolicitation.IsValid: len ≥ 8 and type 133 – both hold here
      .ok .rs
    else if t = 129 then .ok .echoReply
    else if t = 128 then .ok .echoRequest
    else if t = 131 ∨ t = 143 ∨ t = 130 then .ok .mld
    else if t = 137 then (if p.length < 40 then .ok .redirectErr else .ok .redirect)
    else if t = 1 then .ok .unreachable
    else .ok .unknown

/-! ### `Handler4.ProcessPacket` (icmp4_logger.go) incl. the embedded-IP walk -/

inductive Icmp4Class where
  | errShort | echoReply | echoRequest | redirect
  | unreachShort | unreachBadIP | unreachBadUDP | unreachBadTCP | unreachable (port : Nat)
  | other
  deriving DecidableEq, Repr

/-- `IP4.IsValid` (layer_ip4.go, after `fix: IP4.IsValid accepted IHL < 20 and TotalLen < IHL`) -/
def ip4Valid (p : Bytes) : Outcome Bool :=
  if p.length < 20 then .ok false else do
    let b0 ← idx p 0
    let ihl := (b0 &&& 0x0f).toNat * 4
    let tl ← (slice p 2 4) >>= u16be
    pure (decide (p.length ≥ ihl ∧ p.length ≥ tl ∧ ihl ≥ 20 ∧ tl ≥ ihl))

/-- `IP4.Payload()` = `p[p.IHL():p.TotalLen()]` -/
def ip4Payload (p : Bytes) : Outcome Bytes := do
  let b0 ← idx p 0
  let ihl := (b0 &&& 0x0f).toNat * 4
  let tl ← (slice p 2 4) >>= u16be
  slice p ihl tl

/-- destination port of the embedded datagram (`udp.DstPort()` / `tcp.DstPort()` after their `IsValid`) -/
def icmp4Port (orig : Bytes) : Outcome Icmp4Class := do
  let proto ← idx orig 9
  if proto = 17 then do
    let u ← ip4Payload orig
    if u.length < 8 then pure .unreachBadUDP
    else do let d ← (slice u 2 4) >>= u16be; pure (.unreachable d)
  else if proto = 6 then do
    let u ← ip4Payload orig
    -- TCP.IsValid: len ≥ 20 ∧ HeaderLen ≥ 20 ∧ len ≥ HeaderLen, HeaderLen = (p[12] >> 4) * 4
    if u.length < 20 then pure .unreachBadTCP
    else do
      let off ← idx u 12
      let hl := (off >>> 4).toNat * 4
      if hl < 20 ∨ u.length < hl then pure .unreachBadTCP
      else do let d ← (slice u 2 4) >>= u16be; pure (.unreachable d)
  else pure (.unreachable 0)

/-- the `ICMPTypeDestinationUnreachable` case: the embedded-IP walk -/
def icmp4Unreach (p : Bytes) : Outcome Icmp4Class :=
  if p.length < 28 then .ok .unreachShort
  else do
    let orig ← sliceFrom p 8
    let v ← ip4Valid orig
    if ¬ v then pure .unreachBadIP else icmp4Port orig

def icmp4Process (p : Bytes) : Outcome Icmp4Class :=
  if p.length < 8 then .ok .errShort
  else do
    let t ← idx p 0
    if t = 0 then .ok .echoReply
    else if t = 8 then .ok .echoRequest
    else if t = 5 then .ok .redirect
    else if t = 3 then icmp4Unreach p
    else .ok .other

/-! ### `HopByHopExtensionHeader.ParseHopByHopExtensions` (layer_ip6.go) -/

/-- the option walk over `data` from `pos` -/
def hopLoop (data : Bytes) : Nat → Nat → Outcome Unit
  | 0, _ => .hang
  | fuel + 1, pos => do
    let buffer ← sliceFrom data pos
    if buffer.length < 1 then .err .parseFrame
    else do
      let b0 ← idx buffer 0
      let t := b0 &&& 0x1f
      let next : Outcome Nat :=
        if t = 0 then .ok (pos + 1)
        else if t = 5 then
          (if buffer.length < 4 then .err .parseFrame else do
            let _ ← (slice buffer 2 4) >>= u16be
            pure (pos + 4))
        else
          -- pad N and every other type: two-byte header + length (`case 194` is unreachable: t ≤ 31)
          (if buffer.length < 2 then .err .parseFrame else do
            let n ← idx buffer 1
            pure (pos + n.toNat + 2))
      let pos' ← next
      if pos' ≥ data.length then pure () else hopLoop data fuel pos'

/-- `ParseHopByHopExtensions` (after `fix: … validates the header before slicing it`):
    `IsValid` = `len(p) ≥ 2 ∧ len(p) ≥ Len()+2`, `Data()` = `p[2:Len()]` -/
def hopByHopParse (p : Bytes) : Outcome Unit :=
  if p.length < 2 then .err .parseFrame
  else do
    let l ← idx p 1
    let len := l.toNat * 8 + 8
    if p.length < len + 2 then .err .parseFrame
    else do
      let data ← slice p 2 len
      hopLoop data (data.length + 1) 0

/-! ### `arp.ProcessPacket`: validation and classification (handlers/arp_spoofer/arp.go, layer_arp.go) -/

inductive ArpClass where
  | errLen | errHType | errProto | errHLen | errPLen   -- ARP.IsValid failures
  | linkLocal | invalidOp
  | request (smac sip tip : Bytes) | probe (smac tip : Bytes) | announcement | reply
  deriving DecidableEq, Repr

/-- `netip.Addr.IsLinkLocalUnicast` for an IPv4 address: 169.254/16 -/
def isLinkLocal4 (ip : Bytes) : Bool :=
  match ip with
  | [a, b, _, _] => a == 169 && b == 254
  | _ => false

def arpClassify (b : Bytes) : Outcome ArpClass :=
  if b.length < 28 then .ok .errLen
  else do
    let ht ← (slice b 0 2) >>= u16be
    if ht ≠ 1 then pure .errHType else do
    let pt ← (slice b 2 4) >>= u16be
    if pt ≠ 0x0800 then pure .errProto else do
    let hl ← idx b 4
    if hl ≠ 6 then pure .errHLen else do
    let pl ← idx b 5
    if pl ≠ 4 then pure .errPLen else do
    let op ← (slice b 6 8) >>= u16be
    let smac ← slice b 8 14
    let sip ← slice b 14 18
    let tip ← slice b 24 28
    if isLinkLocal4 sip ∨ isLinkLocal4 tip then pure .linkLocal
    else if op = 2 then pure .reply
    else if op = 1 then
      if sip = tip then pure .announcement
      else if sip = [0, 0, 0, 0] then pure (.probe smac tip)
      else pure (.request smac sip tip)
    else pure .invalidOp

end PV.Model.Ndp
