/-
  Model of the `net/netip` predicates the library uses (Go 1.23 `netip.go`), over addresses
  represented by their bytes: 4 bytes = IPv4, 16 bytes = IPv6, `[]` = the zero (invalid) Addr.
  External library: modelled, not verified — validated against the real `netip` by the
  correspondence check (`netip.*` protocol ops).
-/
import PacketVerif.Basic
namespace PV.Model.Netip

abbrev IP := Bytes

def isValid (a : IP) : Bool := a.length == 4 || a.length == 16
def is4 (a : IP) : Bool := a.length == 4
def is6 (a : IP) : Bool := a.length == 16

def is4in6 (a : IP) : Bool :=
  a.length == 16 && (a.take 10).all (· == 0) && a[10]? == some 0xff && a[11]? == some 0xff

def unmap (a : IP) : IP := if is4in6 a then a.drop 12 else a

def byteAt (a : IP) (k : Nat) : Nat := (a[k]?.getD 0).toNat

def isUnspecified (a : IP) : Bool := (is4 a || is6 a) && a.all (· == 0)

def isLoopback (a : IP) : Bool :=
  let a := unmap a
  if is4 a then byteAt a 0 == 127
  else if is6 a then (a.take 15).all (· == 0) && byteAt a 15 == 1
  else false

def isMulticast (a : IP) : Bool :=
  let a := unmap a
  if is4 a then byteAt a 0 / 16 == 14
  else if is6 a then byteAt a 0 == 255
  else false

def isLinkLocalUnicast (a : IP) : Bool :=
  let a := unmap a
  if is4 a then byteAt a 0 == 169 && byteAt a 1 == 254
  else if is6 a then byteAt a 0 == 0xfe && byteAt a 1 / 64 == 2
  else false

def isLinkLocalMulticast (a : IP) : Bool :=
  let a := unmap a
  if is4 a then byteAt a 0 == 224 && byteAt a 1 == 0 && byteAt a 2 == 0
  else if is6 a then byteAt a 0 == 0xff && byteAt a 1 % 16 == 2
  else false

def isGlobalUnicast (a : IP) : Bool :=
  if !isValid a then false
  else
    let a := unmap a
    if is4 a && (a.all (· == 0) || a.all (· == 255)) then false
    else !(is6 a && a.all (· == 0)) && !isLoopback a && !isMulticast a && !isLinkLocalUnicast a

def toNat (a : IP) : Nat := a.foldl (fun acc b => acc * 256 + b.toNat) 0

/-- `netip.Prefix.Contains` for a valid prefix `(addr, bits)`; a zero prefix contains nothing. -/
def prefixContains (paddr : IP) (bits : Nat) (ip : IP) : Bool :=
  if !isValid paddr || !isValid ip || paddr.length != ip.length then false
  else if bits > paddr.length * 8 then false
  else toNat ip / 2 ^ (ip.length * 8 - bits) == toNat paddr / 2 ^ (ip.length * 8 - bits)

end PV.Model.Netip
