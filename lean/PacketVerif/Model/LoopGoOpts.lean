/-
  Primitives for the regenerated option / TLV parsers (Gen/LoopsOpts.lean, written by tools/goextract/loops.go in its
  extended mode + loops_opts.go): what Model/LoopGo.lean has, plus a Go `map[byte-type][]byte` seen as an association
  list in insertion order with Go's overwrite semantics.
-/
import PacketVerif.Model.LoopGo
namespace PV.Model.LoopGoOpts
open PV PV.Model.LoopGo

/-- `map[K][]byte` (K a byte type): association list in insertion order, keys unique -/
abbrev GMap := List (UInt8 × Bytes)

/-- `v, ok := m[k]` -/
def mapGet (m : GMap) (k : UInt8) : Option Bytes := (m.find? (fun e => e.1 == k)).map (·.2)

/-- `m[k] = v`: overwrites the entry of an existing key in place, appends a new key -/
def mapSet : GMap → UInt8 → Bytes → GMap
  | [], k, v => [(k, v)]
  | (k', v') :: r, k, v => if k' == k then (k, v) :: r else (k', v') :: mapSet r k v

/-- `delete(m, k)` -/
def mapDel (m : GMap) (k : UInt8) : GMap := m.filter (fun e => e.1 != k)

/-- `xs[i]` on a slice of values (Go `int` index): panics when `i < 0` or `i ≥ len(xs)` -/
def listIdxI {α} (xs : List α) (i : Int) : Outcome α :=
  if 0 ≤ i then (match xs[i.toNat]? with | some v => .ok v | none => .panic) else .panic

/-- `binary.BigEndian.Uint16(s)`: panics when `len(s) < 2` -/
def be16I (s : Bytes) : Outcome UInt16 :=
  match s with
  | a :: b :: _ => .ok (UInt16.ofNat (be16 a b))
  | _ => .panic

/-- `binary.BigEndian.Uint32(s)`: panics when `len(s) < 4` -/
def be32I (s : Bytes) : Outcome UInt32 :=
  match s with
  | a :: b :: c :: d :: _ => .ok (UInt32.ofNat (be32 a b c d))
  | _ => .panic

/-- `net.IP.To16`: an IPv4 address as the IPv4-mapped IPv6 address, a 16-byte address itself, nil otherwise -/
def ipTo16 (ip : Bytes) : Bytes :=
  if ip.length = 4 then [0, 0, 0, 0, 0, 0, 0, 0, 0, 0, 0xff, 0xff] ++ ip
  else if ip.length = 16 then ip
  else []

/-- Go's `uint8(i)` / `uint16(i)` / `uint32(i)` of an `int`: the low bits (two's complement) -/
def intToUInt8 (i : Int) : UInt8 := UInt8.ofNat (i % 256).toNat
def intToUInt16 (i : Int) : UInt16 := UInt16.ofNat (i % 65536).toNat
def intToUInt32 (i : Int) : UInt32 := UInt32.ofNat (i % 4294967296).toNat

/-- `if err := f(); err != nil { … } else { … }` with the error ignored: the value (the callee's receiver) keeps `dflt`
    on an error; the flag says which branch runs.  A panic / hang of the callee is one of the caller. -/
def catchErr {α} (x : Outcome α) (dflt : α) : Outcome (α × Bool) :=
  match x with
  | .ok a => .ok (a, true)
  | .err _ => .ok (dflt, false)
  | .panic => .panic
  | .hang => .hang

end PV.Model.LoopGoOpts
