/-
  Primitives for the regenerated option / TLV parsers (Gen/LoopsOpts.lean, written by tools/goextract/loops.go in its
  extended mode + loops_opts.go): what Model/LoopGo.lean has, plus a Go `map[byte-type][]byte` seen as an association
  list in insertion order with Go's overwrite semantics.
-/
import PacketVerif.Model.LoopGo
namespace PV.Model.LoopGoOpts
open PV PV.Model.LoopGo

/-- `map[K][]byte` (K a byte type): association list in insertion order, keys unique -/
abbrev GMap := List (UInt8 × Bytes)

/-- `v, ok := m[k]` -/
def mapGet (m : GMap) (k : UInt8) : Option Bytes := (m.find? (fun e => e.1 == k)).map (·.2)

/-- `m[k] = v`: overwrites the entry of an existing key in place, appends a new key -/
def mapSet : GMap → UInt8 → Bytes → GMap
  | [], k, v => [(k, v)]
  | (k', v') :: r, k, v => if k' == k then (k, v) :: r else (k', v') :: mapSet r k v

/-- `delete(m, k)` -/
def mapDel (m : GMap) (k : UInt8) : GMap := m.filter (fun e => e.1 != k)

end PV.Model.LoopGoOpts
