/-
  Model of the lease-file logic of handlers/dhcp4_spoofer: `saveConfig` (what is written),
  `loadByteArray` and the reset logic of `Config.New` — everything that happens AFTER
  `yaml.Unmarshal` produced the record (the YAML codec itself is a parameter of the theorems).
  Nil dereferences and `netip.Addr.As4` on a non-IPv4 address are explicit `Outcome.panic`s;
  the guards added by the `fix:` commits precede them exactly as in the code.

  Second half (`Hash`, `seal`, `openFile`, `loadFile`, `saveFile`): the byte level around the codec —
  the integrity line `# sha256: <hex>` that `saveConfig` writes first (`sealLeaseFile`) and that
  `loadByteArray` verifies (`openLeaseFile`) before `yaml.Unmarshal`.  The hash function and the YAML
  codec are parameters (`Hash` is a structure: a function with its output length; nothing is assumed
  about collisions here — the theorems state what they need per pair of files).
-/
import PacketVerif.Model.Dhcp4Srv
namespace PV.Model.Dhcp4File
open PV PV.Model.Dhcp4Srv

/-- `netip.Addr` as decoded from the file -/
inductive FAddr where
  | invalid | v4 (ip : IP) | v6 (unspecified : Bool)
  deriving DecidableEq, Repr

/-- `netip.Prefix` as decoded from the file -/
inductive FPrefix where
  | invalid | v4 (addr : IP) (bits : Nat) | v6
  deriving DecidableEq, Repr

/-- `SubnetConfig` record -/
structure SubRec where
  lan : FPrefix
  gw : FAddr
  server : FAddr
  dns : FAddr
  first : FAddr
  dur : Nat      -- seconds
  stage : Int
  deriving DecidableEq, Repr

/-- one `Lease` record of the file -/
structure LeaseRec where
  cid : Bytes
  state : Int
  mac : MAC
  ip : FAddr
  offer : Option IP
  xid : Bytes
  expiry : Nat
  deriving DecidableEq, Repr

/-- the record `yaml.Unmarshal` fills (`nil` pointers / slice = `none`) -/
structure FileRec where
  net1 : Option SubRec
  net2 : Option SubRec
  leases : Option (List LeaseRec)
  deriving DecidableEq, Repr

/-- a subnet as built by `newSubnet` (addresses that are not validated stay `FAddr`) -/
structure LSub where
  lan : IP
  bits : Nat
  gw : IP
  server : FAddr
  dns : FAddr
  first : IP
  dur : Nat
  stage : Int
  deriving DecidableEq, Repr

def psize (bits : Nat) : Nat := 2 ^ (32 - bits)
def pcontains (lan bits ip : Nat) : Bool := ip / psize bits == lan / psize bits

/-- `newSubnet`: validation of a subnet configuration; `.err` = returned error -/
def newSubnet (r : SubRec) : Outcome LSub :=
  match r.lan with
  | .invalid => .err .other
  | .v6 => .err .other            -- fix: `!config.LAN.Addr().Is4()`; without it `As4()` panics here
  | .v4 addr bits =>
    let lan := addr / psize bits * psize bits
    -- FirstIP defaults to the address after the network address
    let firstDefault : Option IP := if lan + 1 < 4294967296 then some (lan + 1) else none
    let first : Option IP :=
      match r.first with
      | .v4 f => if f != 0 && pcontains lan bits f then some f else firstDefault
      | _ => firstDefault
    let dur := if r.dur == 0 then 14400 else r.dur
    if r.stage != 1 && r.stage != 3 then .err .other
    else
      match r.gw with
      | .v4 gw =>
        if !pcontains lan bits gw then .err .other
        else
          match first with
          | none => .err .other
          | some f =>
            if !pcontains lan bits f then .err .other
            else if r.dns == .v4 0 || r.dns == .v6 true then .err .other
            else .ok { lan := lan, bits := bits, gw := gw, server := r.server, dns := r.dns, first := f, dur := dur,
                       stage := r.stage }
      | _ => .err .other

/-- a reloaded lease of a captured MAC is attached to the netfilter subnet only when its address is a host address
    of that subnet (fix: not the network, broadcast or gateway address) -/
def attachNet2 (n2 : LSub) (ip : IP) : Bool :=
  pcontains n2.lan n2.bits ip && ip != n2.lan && ip != n2.lan + (psize n2.bits - 1) && ip != n2.gw

/-- the table entry made from an accepted record (`l = v`, `v.subnet` set) -/
def loadedLease (v : LeaseRec) (ip : IP) (sub : SubId) : Lease :=
  { state := .allocated, mac := v.mac, ip := some ip, offer := v.offer, xid := v.xid, sub := sub, expiry := v.expiry }

/-- the lease loop of `loadByteArray`; `net1` / `net2` are dereferenced where the code does -/
def loadLeases (captured : MAC → Bool) (net1 net2 : Option LSub) : List LeaseRec → Table → Outcome Table
  | [], t => .ok t
  | v :: rest, t =>
    if v.state != 2 then loadLeases captured net1 net2 rest t
    else
      match v.ip with
      | .v4 ip =>
        match net1 with
        | none => .panic                                   -- `net1.LAN` on a nil subnet
        | some n1 =>
          if !pcontains n1.lan n1.bits ip then loadLeases captured net1 net2 rest t
          else if v.cid.isEmpty then loadLeases captured net1 net2 rest t
          else
            let place (sub : SubId) : Outcome Table :=
              loadLeases captured net1 net2 rest (setLease t v.cid (loadedLease v ip sub))
            if captured v.mac then
              match net2 with
              | none => .panic                             -- `net2.LAN` on a nil subnet
              | some n2 => if attachNet2 n2 ip then place .net2 else place .net1
            else place .net1
      | _ => loadLeases captured net1 net2 rest t           -- `!IsValid() || !Contains` (an IPv6 address is not contained)

/-- `loadByteArray` after `yaml.Unmarshal` succeeded -/
def loadRec (captured : MAC → Bool) (d : FileRec) : Outcome (LSub × LSub × Table) :=
  match d.net1, d.net2 with
  | some r1, some r2 =>            -- fix: both sections are required
    match newSubnet r1 with
    | .ok n1 =>
      match newSubnet r2 with
      | .ok n2 =>
        match loadLeases captured (some n1) (some n2) (d.leases.getD []) [] with
        | .ok t => .ok (n1, n2, t)
        | .err e => .err e
        | .panic => .panic
        | .hang => .hang
      | .err e => .err e
      | .panic => .panic
      | .hang => .hang
    | .err e => .err e
    | .panic => .panic
    | .hang => .hang
  | _, _ => .err .other

/-- what `New` expects of a subnet: the configuration derived from the NIC and `Config` -/
structure Expected where
  lan : IP      -- as configured (masked by `newSubnet`)
  bits : Nat
  gw : IP
  server : IP
  dns : IP
  stage : Int
  deriving DecidableEq, Repr

/-- `configChanged` (Duration and FirstIP of the expectation are zero: not compared) -/
def configChanged (e : Expected) (n : LSub) : Bool :=
  e.lan / psize e.bits * psize e.bits != n.lan || e.bits != n.bits   -- fix: whole prefix
    || e.gw != n.gw || FAddr.v4 e.dns != n.dns || FAddr.v4 e.server != n.server

def expectedRec (e : Expected) : SubRec :=
  { lan := .v4 e.lan e.bits, gw := .v4 e.gw, server := .v4 e.server, dns := .v4 e.dns, first := .invalid, dur := 0,
    stage := e.stage }

def toSubnet (n : LSub) : Subnet :=
  { lan := n.lan, bits := n.bits, gw := n.gw,
    dns := match n.dns with | .v4 d => d | _ => 0,
    server := match n.server with | .v4 d => d | _ => 0,
    first := n.first, dur := n.dur }

structure Built where
  net1 : LSub
  net2 : LSub
  table : Table
  deriving DecidableEq, Repr

/-- `Config.New`: load (`d = none`: the file is missing or `yaml.Unmarshal` failed), reset on error or
    configuration change -/
def construct (home nf : Expected) (captured : MAC → Bool) (d : Option FileRec) : Outcome Built :=
  let reset : Outcome Built :=
    match newSubnet (expectedRec home) with
    | .ok n1 =>
      match newSubnet (expectedRec nf) with
      | .ok n2 => .ok { net1 := n1, net2 := n2, table := [] }
      | .err e => .err e
      | .panic => .panic
      | .hang => .hang
    | .err e => .err e
    | .panic => .panic
    | .hang => .hang
  match d with
  | none => reset
  | some rec =>
    match loadRec captured rec with
    | .ok (n1, n2, t) => if configChanged home n1 || configChanged nf n2 then reset else .ok { net1 := n1, net2 := n2, table := t }
    | .err _ => reset
    | .panic => .panic
    | .hang => .hang

/-! ### saving -/

def subRecOf (n : LSub) : SubRec :=
  { lan := .v4 n.lan n.bits, gw := .v4 n.gw, server := n.server, dns := n.dns, first := .v4 n.first, dur := n.dur, stage := n.stage }

def leaseRecOf (e : Cid × Lease) : LeaseRec :=
  { cid := e.1, state := 2, mac := e.2.mac, ip := match e.2.ip with | some ip => .v4 ip | none => .invalid,
    offer := e.2.offer, xid := e.2.xid, expiry := e.2.expiry }

/-- `saveConfig`: both subnet configurations and the allocated leases (map order = any order) -/
def save (b : Built) : FileRec :=
  { net1 := some (subRecOf b.net1), net2 := some (subRecOf b.net2),
    leases := some ((b.table.filter (fun e => e.2.state == .allocated)).map leaseRecOf) }

/-! ### the integrity line (byte level) -/

/-- the hash function (`sha256.Sum256` in the code): any function with 32-byte results -/
structure Hash where
  H : Bytes → Bytes
  len : ∀ b, (H b).length = 32

/-- `"# sha256: "` -/
def sealPrefix : Bytes := [35, 32, 115, 104, 97, 50, 53, 54, 58, 32]

/-- lower-case hex digit of a nibble (`hex.EncodeToString`) -/
def hexNib (n : Nat) : UInt8 := if n < 10 then UInt8.ofNat (48 + n) else UInt8.ofNat (87 + n)

def hexOf : Bytes → Bytes
  | [] => []
  | b :: rest => hexNib (b.toNat / 16) :: hexNib (b.toNat % 16) :: hexOf rest

/-- value of a hex digit, either case (`hex.DecodeString` accepts both) -/
def hexVal? (c : UInt8) : Option Nat :=
  let n := c.toNat
  if 48 ≤ n ∧ n ≤ 57 then some (n - 48)
  else if 97 ≤ n ∧ n ≤ 102 then some (n - 87)
  else if 65 ≤ n ∧ n ≤ 70 then some (n - 55)
  else none

/-- `hex.DecodeString` -/
def unhex : Bytes → Option Bytes
  | [] => some []
  | [_] => none
  | a :: b :: rest =>
    match hexVal? a, hexVal? b, unhex rest with
    | some x, some y, some r => some (UInt8.ofNat (16 * x + y) :: r)
    | _, _, _ => none

/-- the first line `saveConfig` writes for a YAML body -/
def sealLine (h : Hash) (body : Bytes) : Bytes := sealPrefix ++ hexOf (h.H body) ++ [10]

/-- `sealLeaseFile` -/
def sealFile (h : Hash) (body : Bytes) : Bytes := sealLine h body ++ body

/-- what `openLeaseFile` makes of a file -/
inductive Opened where
  | legacy (yaml : Bytes)    -- no well-formed integrity line: the whole file is loaded as before
  | verified (body : Bytes)    -- integrity line verified: the rest is loaded
  | damaged                  -- integrity line present, hash differs: error
  deriving DecidableEq, Repr

/-- `openLeaseFile`: a well-formed first line is the 10-byte keyword, 64 hex digits, a line break at offset 74 -/
def openFile (h : Hash) (f : Bytes) : Opened :=
  if f.take 10 = sealPrefix ∧ (f.drop 74).head? = some 10 then
    match unhex ((f.drop 10).take 64) with
    | some want => if h.H (f.drop 75) = want then .verified (f.drop 75) else .damaged
    | none => .legacy f
  else .legacy f

/-- `Config.New` over the bytes of the lease file (`none`: no file); `dec` = `yaml.Unmarshal` (`none`: error) -/
def loadFile (h : Hash) (dec : Bytes → Option FileRec) (home nf : Expected) (captured : MAC → Bool)
    (f : Option Bytes) : Outcome Built :=
  match f with
  | none => construct home nf captured none
  | some f =>
    match openFile h f with
    | .legacy y => construct home nf captured (dec y)
    | .verified b => construct home nf captured (dec b)
    | .damaged => construct home nf captured none

/-- the bytes `saveConfig` writes; `enc` = `yaml.Marshal` -/
def saveFile (h : Hash) (enc : FileRec → Bytes) (b : Built) : Bytes := sealFile h (enc (save b))

/-- the record an empty YAML document (comments only) decodes to -/
def emptyRec : FileRec := { net1 := none, net2 := none, leases := none }

end PV.Model.Dhcp4File
