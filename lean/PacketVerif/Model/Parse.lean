/-
  Model of `Session.Parse` (layer_frame.go:152-413) and of the `Frame` accessors
  (layer_frame.go:85-135).  Host-table side effects are factored out as the returned
  `hostEv` (the `Addr` Parse hands to `findOrCreateHostWithLock`) and `echo` (the id passed to
  `echoNotify`), so that the table machine (C04–C06) and the ping machine (C19) compose with it.

  Parse reads only `p[i]` for `i < len(p)` and re-slices with `f.ether[off:]`; spare capacity is
  never consulted, which is why the model is a function of the bytes within the length.
-/
import PacketVerif.Model.Views
namespace PV.Model

structure Cfg where
  hostMAC : Bytes
  routerMAC : Bytes
  lanAddr : Bytes      -- HomeLAN4 prefix address (4 bytes; [] = zero prefix)
  lanBits : Nat
  deriving Repr, DecidableEq

structure Frame where
  pid : Nat := 0
  offIP4 : Nat := 0
  offIP6 : Nat := 0
  offUDP : Nat := 0
  offTCP : Nat := 0
  offPayload : Nat := 0
  srcMAC : Bytes := []
  dstMAC : Bytes := []
  srcIP : Bytes := []       -- [] = zero netip.Addr
  dstIP : Bytes := []
  srcPort : Nat := 0
  dstPort : Nat := 0
  hostEv : Option (Bytes × Bytes) := none   -- (mac, ip) looked up / created in the host table
  echo : Option Nat := none                  -- echoNotify(id)
  deriving Repr, DecidableEq

/-- what Parse returns: the frame and the error (nil = none) -/
structure ParseRes where
  frame : Frame
  err : Option Err
  deriving Repr, DecidableEq

namespace Pid
def ether := 1   def p8023 := 2   def arp := 3   def ip4 := 4   def ip6 := 5   def icmp4 := 6
def icmp6 := 7   def udp := 8     def tcp := 9   def dhcp4 := 10 def dhcp6 := 11 def dns := 12
def mdns := 13   def ssl := 14    def ntp := 15  def ssdp := 16  def wsdp := 17  def nbns := 18
def plex := 19   def ubiquiti := 20 def llmnr := 21 def igmp := 22 def pause := 23 def rrcp := 24
def lldp := 25   def p80211r := 26 def ieee1905 := 27 def sonos := 28 def p880a := 29
end Pid

/-- the ordered `switch` over UDP ports (layer_frame.go:321-361); `none` = `default` -/
def udpClass (sp dp : Nat) : Option Nat :=
  if sp == 443 || dp == 443 then some Pid.ssl
  else if dp == 67 || dp == 68 then some Pid.dhcp4
  else if dp == 546 || dp == 547 then some Pid.dhcp6
  else if sp == 53 || dp == 53 then some Pid.dns
  else if sp == 5353 || dp == 5353 then some Pid.mdns
  else if sp == 5355 || dp == 5355 then some Pid.llmnr
  else if sp == 123 || dp == 123 then some Pid.ntp
  else if sp == 1900 || dp == 1900 then some Pid.ssdp
  else if sp == 3702 || dp == 3702 then some Pid.wsdp
  else if dp == 137 || dp == 138 then some Pid.nbns
  else if dp == 32412 || dp == 32414 then some Pid.plex
  else if sp == 10001 || dp == 10001 then some Pid.ubiquiti
  else none

/-- EtherTypes that only set the PayloadID (layer_frame.go:262-301) -/
def etherOnly (et : Nat) : Option Nat :=
  if et == 0x8808 then some Pid.pause
  else if et == 0x8899 then some Pid.rrcp
  else if et == 0x88cc then some Pid.lldp
  else if et == 0x890d then some Pid.p80211r
  else if et == 0x893a then some Pid.ieee1905
  else if et == 0x6970 then some Pid.sonos
  else if et == 0x880a then some Pid.p880a
  else none

/-- `valid p = err e` becomes `return frame, e`; `ok` continues; panic/hang propagate -/
def guard (v : Outcome Unit) (fr : Frame) (k : Unit → Outcome ParseRes) : Outcome ParseRes :=
  match v with
  | .ok () => k ()
  | .err e => .ok ⟨fr, some e⟩
  | .panic => .panic
  | .hang => .hang

/-- ICMPv4 / ICMPv6 branch: validate, echo-reply notification, PayloadID -/
def parseICMP (fr : Frame) (pay : Bytes) (replyType pid : Nat) : Outcome ParseRes :=
  guard (lenAtLeast pay 8) fr fun _ => do
    let t ← byteN pay 0
    if t == replyType then
      guard (lenAtLeast pay 8) fr fun _ => do
        let id ← be16At pay 4
        pure ⟨{ fr with echo := some id, pid := pid }, none⟩
    else pure ⟨{ fr with pid := pid }, none⟩

/-- the transport switch (layer_frame.go:307-412); `pay = ether[offPayload:]` -/
def parseProto (fr : Frame) (proto : Nat) (pay : Bytes) : Outcome ParseRes :=
  if proto == 17 then
    let fr := { fr with pid := Pid.udp }
    guard (lenAtLeast pay 8) fr fun _ => do
      let sp ← be16At pay 0
      let dp ← be16At pay 2
      let fr := { fr with offUDP := fr.offPayload, srcPort := sp, dstPort := dp }
      match udpClass sp dp with
      | none => pure ⟨fr, none⟩
      | some pid => pure ⟨{ fr with pid := pid, offPayload := fr.offPayload + 8 }, none⟩
  else if proto == 6 then
    let fr := { fr with pid := Pid.tcp }
    guard (tcpValid pay) fr fun _ => do
      let sp ← be16At pay 0
      let dp ← be16At pay 2
      pure ⟨{ fr with offTCP := fr.offPayload, srcPort := sp, dstPort := dp }, none⟩
  else if proto == 1 then parseICMP fr pay 0 Pid.icmp4
  else if proto == 58 then parseICMP fr pay 129 Pid.icmp6
  else if proto == 2 then pure ⟨{ fr with pid := Pid.igmp }, none⟩
  else pure ⟨fr, none⟩

/-- `func (h *Session) Parse(p []byte) (Frame, error)` -/
def parse (cfg : Cfg) (p : Bytes) : Outcome ParseRes :=
  match etherValid p with
  | .err e => .ok ⟨{}, some e⟩
  | .panic => .panic
  | .hang => .hang
  | .ok () => do
    let src ← slice p 6 12
    let dst ← slice p 0 6
    let hl ← etherHeaderLen p
    let fr : Frame := { pid := Pid.ether, offPayload := hl, srcMAC := src, dstMAC := dst }
    let s0 ← idx src 0
    if s0 &&& 0x01 != 0 then pure ⟨fr, none⟩ else do
    let et ← be16At p 12
    if et < 1536 then pure ⟨{ fr with pid := Pid.p8023 }, none⟩
    else if et == 0x0800 then
      let fr := { fr with pid := Pid.ip4 }
      let ip4 ← sliceFrom p fr.offPayload
      guard (ip4Valid ip4) fr fun _ => do
        let ihl ← ip4IHL ip4
        let proto ← byteN ip4 9
        let sip ← slice ip4 12 16
        let dip ← slice ip4 16 20
        let ev := if src != cfg.hostMAC && Netip.prefixContains cfg.lanAddr cfg.lanBits sip
                  then some (src, sip) else none
        let fr := { fr with offIP4 := fr.offPayload, offPayload := fr.offPayload + ihl,
                            srcIP := sip, dstIP := dip, hostEv := ev }
        let pay ← sliceFrom p fr.offPayload
        parseProto fr proto pay
    else if et == 0x86dd then
      let fr := { fr with pid := Pid.ip6 }
      let ip6 ← sliceFrom p fr.offPayload
      guard (ip6Valid ip6) fr fun _ => do
        let proto ← byteN ip6 6
        let sip ← slice ip6 8 24
        let dip ← slice ip6 24 40
        let ev := if src != cfg.hostMAC &&
                     (Netip.isLinkLocalUnicast sip || (Netip.isGlobalUnicast sip && src != cfg.routerMAC))
                  then some (src, sip) else none
        let fr := { fr with offIP6 := fr.offPayload, offPayload := fr.offPayload + 40,
                            srcIP := sip, dstIP := dip, hostEv := ev }
        let pay ← sliceFrom p fr.offPayload
        parseProto fr proto pay
    else if et == 0x0806 then
      let fr := { fr with pid := Pid.arp }
      let arp ← sliceFrom p fr.offPayload
      -- `len(arp) < 28 || arp[4] != 6` (after fix a9bb943)
      if arp.length < 28 then pure ⟨fr, some .parseFrame⟩ else do
      let hl4 ← byteN arp 4
      if hl4 != 6 then pure ⟨fr, some .parseFrame⟩ else do
      let sip ← slice arp 14 18
      let smac ← slice arp 8 14
      let ev := if src != cfg.hostMAC && Netip.prefixContains cfg.lanAddr cfg.lanBits sip
                then some (smac, sip) else none
      pure ⟨{ fr with hostEv := ev }, none⟩
    else
      match etherOnly et with
      | some pid => pure ⟨{ fr with pid := pid }, none⟩
      | none => pure ⟨fr, none⟩

/-! ### Frame accessors (`f.ether[off:]` when `off != 0`, else nil) -/
def frameView (p : Bytes) (off : Nat) : Outcome Val :=
  if off != 0 then (if off ≤ p.length then .ok (.span off (p.length - off)) else .panic) else .ok .nil

def Frame.accessors (f : Frame) (p : Bytes) : List (String × Outcome Val) :=
  [("Ether", .ok (.span 0 p.length)),
   ("HasIP", .ok (.b (f.offIP4 != 0 || f.offIP6 != 0))),
   ("IP4", frameView p f.offIP4), ("IP6", frameView p f.offIP6),
   ("UDP", frameView p f.offUDP), ("TCP", frameView p f.offTCP),
   ("Payload", frameView p f.offPayload)]

end PV.Model
