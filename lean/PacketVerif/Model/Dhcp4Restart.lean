/-
  Restart of the DHCPv4 server as one more operation of the state machine of `Model/Dhcp4Srv`:
  the handler writes its lease file (`saveConfig`, `Model.Dhcp4File.save`), the process ends, and a new handler is
  constructed by `Config.New` from that file (`Model.Dhcp4File.construct`) over a session whose capture set and host
  table are whatever the new process finds (parameters of the operation).  The post-state is

    table    := the table `loadByteArray` builds (allocated leases only, each re-attached to net1 / net2 by the capture
                state of its MAC at load time and the netfilter host-address test; leases the load rules refuse are gone)
    cursors  := `FirstIP` of the two subnets (`newSubnet` sets `nextIP = FirstIP`)
    hosts, captured := the parameters.

  The YAML codec is not part of this model (a record is loaded as it was saved; the harness compares the composite
  with the real constructor run on the real file, see `Drv/Dhcp4Restart`).
-/
import PacketVerif.Model.Dhcp4File
namespace PV.Model.Dhcp4Restart
open PV PV.Model.Dhcp4Srv PV.Model.Dhcp4File

/-- the file model's record of a subnet the server runs with (`dhcpSubnet.SubnetConfig`; stage 1 = normal for the home
    subnet, 3 = redirected for the netfilter subnet) -/
def lsubOf (n : Subnet) (stage : Int) : LSub :=
  { lan := n.lan, bits := n.bits, gw := n.gw, server := .v4 n.server, dns := .v4 n.dns, first := n.first, dur := n.dur,
    stage := stage }

/-- `homeSubnet` of `Config.New`: the home LAN with the real router as gateway, our address as server, the configured DNS
    server (the router when none is configured) -/
def homeExp (n : NewCfg) : Expected :=
  { lan := n.homeLan, bits := n.homeBits, gw := n.router, server := n.host, dns := n.dns.getD n.router, stage := 1 }

/-- `netfilterSubnet` of `Config.New` (`newSubnet` / `configChanged` mask the prefix) -/
def nfExp (n : NewCfg) : Expected :=
  { lan := n.nfAddr, bits := n.nfBits, gw := n.nfAddr, server := n.host, dns := familyDNS, stage := 3 }

/-- `Config.New` over the file the handler with subnets `n1` `n2` and lease table `t` saved -/
def rebuilt (home nf : Expected) (n1 n2 : LSub) (t : Table) (captured : List MAC) : Outcome Built :=
  construct home nf (fun m => captured.contains m) (some (save { net1 := n1, net2 := n2, table := t }))

/-- the server state of a freshly constructed handler -/
def stateOf (b : Built) (captured : List MAC) (hosts : List (IP × MAC)) : State :=
  { table := b.table, next1 := b.net1.first, next2 := b.net2.first, hosts := hosts, captured := captured }

/-- restart under explicitly given expectations (what the driver runs): the handler `Config.New` returns for the lease
    file that holds table `t`, and its state -/
def restartWith (home nf : Expected) (n1 n2 : LSub) (t : Table) (captured : List MAC) (hosts : List (IP × MAC)) :
    Outcome (Built × State) :=
  match rebuilt home nf n1 n2 t captured with
  | .ok b => .ok (b, stateOf b captured hosts)
  | .err e => .err e
  | .panic => .panic
  | .hang => .hang

/-- **the restart operation** of a server constructed by `Config.New` from `n`, for the lease file that holds table `t`:
    the admissible successor states (`restart_defined` shows there is exactly one for every configuration `New` accepts) -/
def restart (n : NewCfg) (t : Table) (captured : List MAC) (hosts : List (IP × MAC)) : List State :=
  match restartWith (homeExp n) (nfExp n) (lsubOf (mkCfg n).net1 1) (lsubOf (mkCfg n).net2 3) t captured hosts with
  | .ok r => [r.2]
  | _ => []

/-- operations of the machine with restarts -/
inductive ROp where
  | op (o : Op)
  | restart (captured : List MAC) (hosts : List (IP × MAC))
  deriving Repr

/-- the server process: the handler's state and the lease table as `saveConfig` wrote it last.  The code saves in exactly
    two places: at the end of `Config.New` and on the ACK path of `handleRequest` (after the lease was updated) — a
    DECLINE, a RELEASE, a NAK that frees a lease, a lease that expires at a minute tick are NOT written, so a restart (a
    crash at any moment) finds the table of the last ACK, not the current one. -/
structure PState where
  s : State
  file : Table
  deriving DecidableEq, Repr

def acked (rs : List Reply) : Bool := rs.any (fun r => r.typ == .ack)

/-- what is on disk after a step -/
def fileAfter (file : Table) (o : State × List Reply) : Table := if acked o.2 then o.1.table else file

/-- one operation of the process: a server operation (the file is rewritten when an ACK was sent), or a restart from
    the file as it is (the new handler saves its table at the end of `New`) -/
def stepP (n : NewCfg) (p : PState) : ROp → List (PState × List Reply)
  | .op o => (step (mkCfg n) p.s o).map (fun r => ({ s := r.1, file := fileAfter p.file r }, r.2))
  | .restart captured hosts => (restart n p.file captured hosts).map (fun s' => ({ s := s', file := s'.table }, []))

/-- the process after `Config.New` without a lease file: empty table, saved -/
def initP (n : NewCfg) : PState := { s := init (mkCfg n), file := [] }

end PV.Model.Dhcp4Restart
