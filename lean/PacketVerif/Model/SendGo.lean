/-
  Go constructs that occur in the send-path bodies (icmp4SendPacket, icmp6SendPacket, Session.arpRequest,
  sendDHCP4Packet, sendNBNS, SendSSDPSearch, arp RequestRaw / reply) and have no counterpart among the
  primitives of Model/Encode.lean.  Imported by the regenerated Gen/Senders.lean (tools/goextract/senders.go)
  only; the tie theorems of Props/C07SendTie.lean eliminate them against the hand-written send-path models.
-/
import PacketVerif.Model.Encode
import PacketVerif.Model.EncodeGo
namespace PV.Model

/-- a nil slice: the empty slice at the end of the memory (len 0, cap 0).  Every operation of the memory model
    behaves on it as Go does on nil: an index or a re-slice beyond 0 panics, `copy` copies nothing, capacity
    guards see 0.  (No write changes the length of the memory, so the capacity stays 0.) -/
def nilSl (m : Mem) : Sl := ⟨m.length, 0⟩

/-- a slice-or-nil result (`Ether.Payload()`, `EncodeUDP`) used as a slice -/
def orNil (m : Mem) (o : Option Sl) : Sl :=
  match o with
  | some s => s
  | none => nilSl m

/-- `x, _ = f(…)`: the error is dropped; on an error the library encoders return nil before their first store,
    so the memory is the one before the call and `x` is nil -/
def keepNil (m : Mem) (r : Outcome (Mem × Sl)) : Outcome (Mem × Sl) :=
  match r with
  | .err _ => .ok (m, nilSl m)
  | r => r

/-- `binary.BigEndian.PutUint32(b[a:a+4], v)` -/
def Sl.put32 (m : Mem) (s : Sl) (a : Nat) (v : Nat) : Outcome Mem := do
  let d ← s.reslice m a (a + 4)
  pure (poke m d.off [UInt8.ofNat (v / 16777216), UInt8.ofNat (v / 65536), UInt8.ofNat (v / 256), UInt8.ofNat v])

/-- the byte string returned by a builder that allocates its own buffer (`Gen.Enc.*Marshal`, `EncodeDNSQuery`) -/
def builtBytes (r : Outcome (Mem × Sl)) : Outcome Bytes := r >>= fun x => pure (x.2.bytes x.1)

/-- `p, _ := builder(…)`: the error is dropped and `p` is nil (the empty byte string) -/
def ownOrNil (r : Outcome (Mem × Sl)) : Outcome Bytes :=
  match r with
  | .err _ => .ok []
  | r => builtBytes r

end PV.Model
