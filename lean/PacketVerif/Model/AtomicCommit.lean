/-
  Atomicity machine at SECTION granularity, for multi-section operations with a commit point (C09, continuation of
  Model/Atomic.lean).

  Model/Atomic.lean interleaves micro-steps inside critical sections and proves (Props/C09Atomic) that operations
  with ONE section — or with read-only sections followed by one last validated section — are serializable.  The
  reviewed multi-section operations of the library have a different typical shape: some read-locked look-ups, ONE
  section (or one nest of sections: row lock inside the session lock) that writes, and then further read-locked
  sections (the `closed` test of sendNotification, a look-up for logging …).  This machine covers that shape:

    * the shared state is one value `S` (all guards together); a *section* is a function `L × S → L × S` executed
      atomically — it stands for a whole critical section or a whole NEST of critical sections (which may write
      under several locks at once: Capture writes the MAC table under the session lock and the flag under the row
      lock).  That a section is atomic with respect to the other sections is what mutual exclusion
      (`C09Atomic.mutual_exclusion`) and `single_section_serializable` provide for the micro-step machine;
    * an *operation* is `pre ++ [mid] ++ post`: the sections before the commit section, the commit section, the
      sections after it;
    * threads (`Nat → Thread`, any number) execute their operations section by section; between any two sections of
      one thread any other thread may execute any number of its sections (all schedules);
    * ghost history `hist`: an operation is appended when its commit section executes.

  Discipline `CommitDisciplined`: the `pre` and `post` sections leave the shared state as they found it, and if there
  are `pre` sections the commit section's effect on the shared state does not depend on the local state it is entered
  with (it re-reads what it needs).  An operation whose FIRST section is its only writing section needs no condition
  on that section at all.
-/
import PacketVerif.Basic
namespace PV.Model.AtomicCommit

abbrev Sec (L S : Type) := L × S → L × S

structure Op (L S : Type) where
  pre : List (Sec L S)
  mid : Sec L S
  post : List (Sec L S)

section
variable {L S : Type}

def runSecs : List (Sec L S) → L × S → L × S
  | [], x => x
  | s :: r, x => runSecs r (s x)

/-- one whole operation as a single atomic step, started with the initial local state `l0` -/
def runOp (l0 : L) (op : Op L S) (st : S) : S := (runSecs op.post (op.mid (runSecs op.pre (l0, st)))).2

/-- the sequential reference: operations one after the other -/
def serial (l0 : L) : List (Op L S) → S → S
  | [], st => st
  | op :: r, st => serial l0 r (runOp l0 op st)

def ReadOnly (s : Sec L S) : Prop := ∀ l st, (s (l, st)).2 = st
def LocalIndep (s : Sec L S) : Prop := ∀ l l' st, (s (l, st)).2 = (s (l', st)).2

/-- read-only sections before and after the commit section; a commit section that follows read-only sections
    re-validates (does not depend on what they left in the local state) -/
def CommitDisciplined (op : Op L S) : Prop :=
  (∀ s ∈ op.pre, ReadOnly s) ∧ (∀ s ∈ op.post, ReadOnly s) ∧ (op.pre ≠ [] → LocalIndep op.mid)

structure Thread (L S : Type) where
  loc : L
  /-- sections of the current operation still to run before the commit section -/
  pre : List (Sec L S)
  /-- the commit section, until it has run -/
  mid : Option (Sec L S)
  post : List (Sec L S)
  curOp : Op L S
  ops : List (Op L S)

structure State (L S : Type) where
  store : S
  th : Nat → Thread L S
  hist : List (Nat × Op L S)

def setTh (th : Nat → Thread L S) (i : Nat) (t : Thread L S) : Nat → Thread L S := fun j => if j = i then t else th j

/-- one step of thread `i`: start the next operation, or execute the next critical section atomically -/
inductive Step (l0 : L) : State L S → State L S → Prop where
  | start (σ : State L S) (i : Nat) (op : Op L S) (ops' : List (Op L S)) :
      (σ.th i).pre = [] → (σ.th i).mid = none → (σ.th i).post = [] → (σ.th i).ops = op :: ops' →
      Step l0 σ { σ with th := setTh σ.th i { loc := l0, pre := op.pre, mid := some op.mid, post := op.post, curOp := op, ops := ops' } }
  | pre (σ : State L S) (i : Nat) (s : Sec L S) (r : List (Sec L S)) :
      (σ.th i).pre = s :: r →
      Step l0 σ { σ with store := (s ((σ.th i).loc, σ.store)).2,
                         th := setTh σ.th i { (σ.th i) with loc := (s ((σ.th i).loc, σ.store)).1, pre := r } }
  | commit (σ : State L S) (i : Nat) (s : Sec L S) :
      (σ.th i).pre = [] → (σ.th i).mid = some s →
      Step l0 σ { store := (s ((σ.th i).loc, σ.store)).2,
                  th := setTh σ.th i { (σ.th i) with loc := (s ((σ.th i).loc, σ.store)).1, mid := none },
                  hist := σ.hist ++ [(i, (σ.th i).curOp)] }
  | post (σ : State L S) (i : Nat) (s : Sec L S) (r : List (Sec L S)) :
      (σ.th i).pre = [] → (σ.th i).mid = none → (σ.th i).post = s :: r →
      Step l0 σ { σ with store := (s ((σ.th i).loc, σ.store)).2,
                         th := setTh σ.th i { (σ.th i) with loc := (s ((σ.th i).loc, σ.store)).1, post := r } }

inductive Reach (l0 : L) (σ0 : State L S) : State L S → Prop where
  | refl : Reach l0 σ0 σ0
  | step {σ σ'} : Reach l0 σ0 σ → Step l0 σ σ' → Reach l0 σ0 σ'

def nop : Op L S := { pre := [], mid := id, post := [] }

def init (l0 : L) (st : S) (progs : Nat → List (Op L S)) : State L S :=
  { store := st, th := fun i => { loc := l0, pre := [], mid := none, post := [], curOp := nop, ops := progs i }, hist := [] }

/-- the operations of a thread that have not reached their commit point -/
def pending (t : Thread L S) : List (Op L S) := (match t.mid with | some _ => [t.curOp] | none => []) ++ t.ops

end
end PV.Model.AtomicCommit
