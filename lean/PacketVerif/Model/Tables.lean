/-
  Model of the host / MAC table state machine of `packet.Session`
  (hosttable.go, mactable.go, session.go, notification.go, the host-creation predicates and
  `onlineTransition` of layer_frame.go).

  Go pointers (`*Host`, `*MACEntry`) are allocation ids.  `Sess.hosts` is the map
  `HostTable.Table` (key ↦ the record of the pointed-to object), `Sess.macs` is the slice
  `MACTable.Table` in slice order, `MacRec.hostList` is `MACEntry.HostList` (host ids, in order),
  `HostRec.entry` is `Host.MACEntry`.  Time is `Int` nanoseconds; `zeroTime` stands for
  `time.Time{}`.

  Convention for pointers that do not resolve (an id that is in no table): Go could still read
  the object, the model cannot.  Such states are excluded by `Closed` (a conjunct of the C05
  invariant, proved for every reachable state and evaluated on every dumped implementation
  state); on them the model skips the unresolved object.
-/
import PacketVerif.Basic
namespace PV.Model.Tables
open PV

abbrev MAC := List UInt8

/-- `netip.Addr` without zones: the zero value, an IPv4 address, an IPv6 address (incl. 4in6) -/
inductive IP where
  | none
  | v4 (n : Nat)
  | v6 (n : Nat)
  deriving DecidableEq, Repr, Inhabited

namespace IP
def is4 : IP → Bool
  | v4 _ => true
  | _ => false
def isValid : IP → Bool
  | none => false
  | _ => true
def isUnspecified : IP → Bool
  | v4 n => n == 0
  | v6 n => n == 0
  | none => false
/-- `Is4In6`: `hi == 0 && lo>>32 == 0xffff` -/
def is4in6 (n : Nat) : Bool := n / 2 ^ 32 == 0xffff
def llu4 (n : Nat) : Bool := n / 65536 == 0xa9fe
def gu4 (n : Nat) : Bool :=
  n != 0 && n != 0xffffffff && n / 2 ^ 24 != 127 && n / 2 ^ 28 != 14 && !llu4 n
/-- `netip.Addr.IsLinkLocalUnicast` (go1.23: 4in6 addresses are unmapped first) -/
def isLinkLocalUnicast : IP → Bool
  | none => false
  | v4 n => llu4 n
  | v6 n => if is4in6 n then llu4 (n % 2 ^ 32) else n / 2 ^ 118 == 0x3fa
/-- `netip.Addr.IsGlobalUnicast` -/
def isGlobalUnicast : IP → Bool
  | none => false
  | v4 n => gu4 n
  | v6 n => if is4in6 n then gu4 (n % 2 ^ 32)
            else n != 0 && n != 1 && n / 2 ^ 120 != 0xff && n / 2 ^ 118 != 0x3fa
end IP

def zeroTime : Int := -(2 ^ 63)

structure NameEntry where
  type : String := ""
  name : String := ""
  model : String := ""
  manufacturer : String := ""
  os : String := ""
  expire : Int := zeroTime
  deriving DecidableEq, Repr, Inhabited

/-- `NameEntry.Merge` -/
def NameEntry.merge (e n : NameEntry) : NameEntry × Bool :=
  let c1 := n.name ≠ "" ∧ e.name ≠ n.name
  let c2 := n.model ≠ "" ∧ e.model ≠ n.model
  let c3 := n.os ≠ "" ∧ e.os ≠ n.os
  let c4 := n.manufacturer ≠ "" ∧ e.manufacturer ≠ n.manufacturer
  let modified := decide c1 || decide c2 || decide c3 || decide c4
  ({ type := n.type
     name := if c1 then n.name else e.name
     model := if c2 then n.model else e.model
     os := if c3 then n.os else e.os
     manufacturer := if c4 then n.manufacturer else e.manufacturer
     expire := if modified ∧ n.expire ≠ zeroTime then n.expire else e.expire }, modified)

inductive NameKind where
  | dhcp4 | mdns | ssdp | llmnr | nbns
  deriving DecidableEq, Repr, Inhabited

structure Names where
  dhcp4 : NameEntry := {}
  mdns : NameEntry := {}
  ssdp : NameEntry := {}
  llmnr : NameEntry := {}
  nbns : NameEntry := {}
  deriving DecidableEq, Repr, Inhabited

def Names.get (n : Names) : NameKind → NameEntry
  | .dhcp4 => n.dhcp4 | .mdns => n.mdns | .ssdp => n.ssdp | .llmnr => n.llmnr | .nbns => n.nbns
def Names.set (n : Names) (k : NameKind) (e : NameEntry) : Names :=
  match k with
  | .dhcp4 => { n with dhcp4 := e } | .mdns => { n with mdns := e } | .ssdp => { n with ssdp := e }
  | .llmnr => { n with llmnr := e } | .nbns => { n with nbns := e }

/-- `Host` -/
structure HostRec where
  id : Nat
  ip : IP                 -- Addr.IP
  mac : MAC               -- Addr.MAC
  entry : Nat             -- MACEntry (pointer)
  online : Bool
  lastSeen : Int
  manuf : String
  names : Names
  dirty : Bool
  deriving DecidableEq, Repr, Inhabited

/-- `MACEntry` -/
structure MacRec where
  id : Nat
  mac : MAC
  captured : Bool
  ip4 : IP
  ip4offer : IP
  ip6gua : IP
  ip6lla : IP
  ip6offer : IP
  online : Bool
  isRouter : Bool
  hostList : List Nat
  manuf : String
  names : Names
  lastSeen : Int
  deriving DecidableEq, Repr, Inhabited

structure Sess where
  hosts : List (IP × HostRec)   -- HostTable.Table
  macs : List MacRec            -- MACTable.Table
  nextId : Nat
  deriving Repr, Inhabited

/-- what the session was configured with (NICInfo + deadlines) -/
structure Cfg where
  hostMAC : MAC
  hostIP4 : IP
  routerMAC : MAC
  routerIP4 : IP
  lanValid : Bool      -- HomeLAN4 is a valid IPv4 prefix
  lanBase : Nat
  lanBits : Nat
  hostLLA : IP
  probeDL : Int
  offlineDL : Int
  purgeDL : Int
  deriving Repr, Inhabited

/-- `NICInfo.HomeLAN4.Contains(ip)` -/
def Cfg.lanContains (c : Cfg) : IP → Bool
  | .v4 n => c.lanValid && n / 2 ^ (32 - c.lanBits) == c.lanBase / 2 ^ (32 - c.lanBits)
  | _ => false

structure Notif where
  mac : MAC
  ip : IP
  online : Bool
  manuf : String
  names : Names
  isRouter : Bool
  deriving DecidableEq, Repr, Inhabited

/-! ### lookups -/

def findHost (s : Sess) (ip : IP) : Option HostRec :=
  (s.hosts.find? (fun p => p.1 == ip)).map (·.2)
def hostById (s : Sess) (id : Nat) : Option HostRec :=
  (s.hosts.find? (fun p => p.2.id == id)).map (·.2)
def macById (s : Sess) (id : Nat) : Option MacRec := s.macs.find? (fun m => m.id == id)
/-- `MACTable.findMAC` -/
def findMAC (s : Sess) (mac : MAC) : Option MacRec := s.macs.find? (fun m => m.mac == mac)

/-- update the object behind a `*Host` -/
def updHost (s : Sess) (id : Nat) (f : HostRec → HostRec) : Sess :=
  { s with hosts := s.hosts.map (fun p => if p.2.id = id then (p.1, f p.2) else p) }
/-- update the object behind a `*MACEntry` -/
def updMac (s : Sess) (id : Nat) (f : MacRec → MacRec) : Sess :=
  { s with macs := s.macs.map (fun m => if m.id = id then f m else m) }

/-! ### mactable.go -/

def newMac (id : Nat) (mac : MAC) : MacRec :=
  { id := id, mac := mac, captured := false, ip4 := .v4 0, ip4offer := .none, ip6gua := .v6 0,
    ip6lla := .v6 0, ip6offer := .none, online := false, isRouter := false, hostList := [],
    manuf := "", names := {}, lastSeen := zeroTime }

/-- `MACTable.findOrCreate`: returns the entry (as it is in the new state) -/
def macFindOrCreate (s : Sess) (mac : MAC) : Sess × MacRec :=
  match findMAC s mac with
  | some e => (s, e)
  | none =>
    let e := newMac s.nextId mac
    ({ s with macs := s.macs ++ [e], nextId := s.nextId + 1 }, e)

/-- `MACEntry.unlink`: drops the first element of `HostList` whose `Addr.IP` equals `ip` -/
def unlinkList (s : Sess) (l : List Nat) (ip : IP) : List Nat :=
  l.eraseP (fun i => match hostById s i with
                     | some v => v.ip == ip
                     | none => false)

/-- `printHostTable`'s self check -/
def printTablePanics (s : Sess) : Bool :=
  (s.macs.map (fun m => m.hostList.length)).sum != s.hosts.length

/-! ### hosttable.go -/

/-- `Session.deleteHost` -/
def deleteHost (s : Sess) (ip : IP) : Sess :=
  match findHost s ip with
  | none => s
  | some h =>
    let s1 := updMac s h.entry (fun m => { m with hostList := unlinkList s m.hostList h.ip })
    let s2 : Sess := { s1 with hosts := s1.hosts.filter (fun p => p.1 != ip) }
    match macById s2 h.entry with
    | none => s2
    | some m =>
      if m.hostList.isEmpty then
        { s2 with macs := s2.macs.eraseP (fun x => x.mac == m.mac) }   -- MACTable.delete(mac)
      else s2

/-- the tail of `findOrCreateHostWithLock`: new host linked to the (found or created) MAC entry -/
def createHost (s : Sess) (mac : MAC) (ip : IP) (now : Int) (manuf : String) : Sess × Nat :=
  let (s1, e) := macFindOrCreate s mac
  let hid := s1.nextId
  let h : HostRec := { id := hid, ip := ip, mac := e.mac, entry := e.id, online := false,
                       lastSeen := now, manuf := manuf, names := {}, dirty := true }
  let s2 := updMac s1 e.id (fun m =>
    { m with manuf := if manuf ≠ "" ∧ manuf ≠ m.manuf then manuf else m.manuf
             lastSeen := now
             hostList := m.hostList ++ [hid] })
  ({ s2 with hosts := s2.hosts.filter (fun p => p.1 != ip) ++ [(ip, h)], nextId := hid + 1 }, hid)

structure FocRes where
  s : Sess
  host : Nat
  panic : Bool

/-- `Session.findOrCreateHostWithLock` (`now` = `time.Now()`, `manuf` = `FindManufacturer(mac)`) -/
def findOrCreateHost (s : Sess) (mac : MAC) (ip : IP) (now : Int) (manuf : String) : FocRes :=
  match s.hosts.find? (fun p => p.1 == ip) with
  | some (_, h) =>
    if (macById s h.entry).map (·.mac) = some mac then
      -- fast path
      ⟨updMac (updHost s h.id (fun x => { x with lastSeen := now })) h.entry
          (fun m => { m with lastSeen := now }), h.id, false⟩
    else if printTablePanics s then ⟨s, h.id, true⟩
    else
      let r := createHost (deleteHost s ip) mac ip now manuf
      ⟨r.1, r.2, false⟩
  | none =>
    let r := createHost s mac ip now manuf
    ⟨r.1, r.2, false⟩

/-! ### layer_frame.go: the host-creation decision of `Parse` and `onlineTransition` -/

inductive FKind where
  | ip4 | ip6 | arp | other
  deriving DecidableEq, Repr, Inhabited

/-- what the byte-level parser hands to the table logic -/
structure FrameEv where
  srcMAC : MAC      -- Ethernet source
  kind : FKind      -- valid IPv4 / valid IPv6 / ARP (length-checked) / anything else
  srcIP : IP        -- IPv4/IPv6 source, or the ARP sender protocol address
  arpMAC : MAC      -- ARP sender hardware address (ARP only)
  dhcp4 : Bool      -- the frame ended up with PayloadID == PayloadDHCP4
  deriving DecidableEq, Repr, Inhabited

/-- `IsUnicastMAC` on a 6-byte Ethernet source -/
def isUnicastMAC : MAC → Bool
  | b :: _ => b.toNat % 2 == 0
  | [] => false

/-- the decision whether `Parse` calls `findOrCreateHostWithLock`, and with which address -/
def hostEvent (c : Cfg) (ev : FrameEv) : Option (MAC × IP) :=
  if !isUnicastMAC ev.srcMAC then none else
  match ev.kind with
  | .ip4 => if ev.srcMAC ≠ c.hostMAC ∧ c.lanContains ev.srcIP then some (ev.srcMAC, ev.srcIP) else none
  | .ip6 =>
    if ev.srcMAC ≠ c.hostMAC ∧
        (ev.srcIP.isLinkLocalUnicast ∨ (ev.srcIP.isGlobalUnicast ∧ ev.srcMAC ≠ c.routerMAC)) then
      some (ev.srcMAC, ev.srcIP) else none
  | .arp => if ev.srcMAC ≠ c.hostMAC ∧ c.lanContains ev.srcIP then some (ev.arpMAC, ev.srcIP) else none
  | .other => none

/-- the sibling loop of `onlineTransition`: every other online IPv4 host in `l` goes offline -/
def markSiblings (s : Sess) (l : List Nat) (ip : IP) : Sess :=
  { s with hosts := s.hosts.map (fun p =>
      if p.2.id ∈ l ∧ p.2.ip.is4 ∧ p.2.ip ≠ ip ∧ p.2.online then
        (p.1, { p.2 with online := false, dirty := true }) else p) }

/-- `Session.onlineTransition` -/
def onlineTransition (s : Sess) (hid : Nat) : Sess :=
  match hostById s hid with
  | none => s
  | some h =>
    if h.online then s else
    let s1 := updMac s h.entry (fun m => { m with online := true })
    let s2 := updHost s1 hid (fun x => { x with online := true, dirty := true })
    if h.ip.is4 then
      match macById s2 h.entry with
      | none => s2
      | some m =>
        if h.ip ≠ m.ip4 then
          markSiblings (updMac s2 h.entry (fun m => { m with ip4 := h.ip })) m.hostList h.ip
        else s2
    else
      let s3 := if h.ip.isGlobalUnicast then updMac s2 h.entry (fun m => { m with ip6gua := h.ip }) else s2
      if h.ip.isLinkLocalUnicast then updMac s3 h.entry (fun m => { m with ip6lla := h.ip }) else s3

structure ParseRes where
  s : Sess
  host : Option Nat := none   -- frame.Host
  flag : Bool := false        -- frame.flags & 1 (online transition)
  panic : Bool := false

/-- the table side of `Session.Parse` -/
def parse (c : Cfg) (s : Sess) (ev : FrameEv) (now : Int) (manuf : String) : ParseRes :=
  match hostEvent c ev with
  | none => { s := s }
  | some (mac, ip) =>
    let r := findOrCreateHost s mac ip now manuf
    if r.panic then { s := r.s, panic := true } else
    match hostById r.s r.host with
    | none => { s := r.s, host := some r.host }
    | some h =>
      if h.online then { s := r.s, host := some r.host }
      else { s := onlineTransition r.s r.host, host := some r.host, flag := true }

/-! ### notification.go / session.go -/

/-- `toNotification` -/
def toNotif (s : Sess) (h : HostRec) : Notif :=
  match macById s h.entry with
  | some m => { mac := h.mac, ip := h.ip, online := h.online, manuf := m.manuf, names := m.names,
                isRouter := m.isRouter }
  | none => { mac := h.mac, ip := h.ip, online := h.online, manuf := "", names := {}, isRouter := false }

/-- `Session.makeOffline` (channel drained, so the notification is always sent) -/
def makeOffline (s : Sess) (hid : Nat) : Sess × List Notif :=
  match hostById s hid with
  | none => (s, [])
  | some h =>
    let s1 := updHost s hid (fun x => { x with online := false, dirty := false })
    let n := toNotif s1 { h with online := false, dirty := false }
    match macById s1 h.entry with
    | none => (s1, [n])
    | some m =>
      let on := s1.hosts.any (fun p => decide (p.2.id ∈ m.hostList) && p.2.online)
      (updMac s1 h.entry (fun x => { x with online := on }), [n])

def makeOfflineAll (s : Sess) : List Nat → Sess × List Notif
  | [] => (s, [])
  | i :: rest =>
    let r := makeOffline s i
    let r2 := makeOfflineAll r.1 rest
    (r2.1, r.2 ++ r2.2)

/-- `Session.notify` -/
def notifyHost (s : Sess) (hid : Nat) (flag : Bool) : Sess × List Notif :=
  match hostById s hid with
  | none => (s, [])
  | some h =>
    if !h.dirty then (s, []) else
    let offl : List Nat :=
      if flag ∧ h.ip.is4 then
        match macById s h.entry with
        | none => []
        | some m => m.hostList.filter (fun i => match hostById s i with
                                                | some v => i != hid && !v.online && v.dirty
                                                | none => false)
      else []
    let r := makeOfflineAll s offl
    match hostById r.1 hid with
    | none => r
    | some h1 => (updHost r.1 hid (fun x => { x with dirty := false }), r.2 ++ [toNotif r.1 h1])

/-- `Session.DHCPv4IPOffer` -/
def dhcpv4IPOffer (s : Sess) (mac : MAC) : IP :=
  match findMAC s mac with
  | some e => e.ip4offer
  | none => .none

/-- `Session.Notify` -/
def notifyOp (s : Sess) (host : Option Nat) (dhcp4 : Bool) (srcMAC : MAC) (flag : Bool) : Sess × List Notif :=
  match host with
  | some hid => notifyHost s hid flag
  | none =>
    if !dhcp4 then (s, []) else
    if !(dhcpv4IPOffer s srcMAC).isValid then (s, []) else
    match findHost s (dhcpv4IPOffer s srcMAC) with
    | none => (s, [])
    | some h => notifyHost s h.id true

/-- `Host.Update<Kind>Name` -/
def updateName (s : Sess) (hid : Nat) (k : NameKind) (n : NameEntry) : Sess :=
  match hostById s hid with
  | none => s
  | some h =>
    let r := (h.names.get k).merge n
    let s1 := updHost s hid (fun x => { x with names := x.names.set k r.1, dirty := x.dirty || r.2 })
    if r.2 then updMac s1 h.entry (fun m => { m with names := m.names.set k ((m.names.get k).merge r.1).1 })
    else s1

structure Out where
  notifs : List Notif := []
  host : Option Nat := none
  flag : Bool := false
  panic : Bool := false
  err : Option Err := none
  deriving Repr, Inhabited

/-- `Session.DHCPv4Update` (after the fix: the transition / name change and the superseded addresses
    are announced at once, with the online-transition flag always set) -/
def dhcpUpdate (s : Sess) (mac : MAC) (ip : IP) (name : NameEntry) (now : Int) (manuf : String) : Sess × Out :=
  if !ip.isValid || ip.isUnspecified then (s, { err := some .invalidIP }) else
  let r := findOrCreateHost s mac ip now manuf
  if r.panic then (r.s, { panic := true }) else
  let s1 := updateName r.s r.host .dhcp4 name
  match hostById s1 r.host with
  | none => (s1, {})
  | some h =>
    let s2 := updMac s1 h.entry (fun m => { m with ip4offer := h.ip })
    let s3 := if h.online then s2 else onlineTransition s2 r.host
    let n := notifyHost s3 r.host true
    (n.1, { notifs := n.2 })

/-- `Session.purge` (the probe goroutine only transmits; it does not touch the tables) -/
def purge (c : Cfg) (s : Sess) (now : Int) : Sess × List Notif :=
  let delCut := now - c.purgeDL
  let offCut := now - c.offlineDL
  let snap := s.hosts.map (·.2)
  let purgeL := (snap.filter (fun e => !e.online && decide (e.lastSeen < delCut))).map (·.ip)
  let offL := (snap.filter (fun e => !(!e.online && decide (e.lastSeen < delCut)) &&
                                      (e.online && decide (e.lastSeen < offCut)))).map (·.id)
  let r := makeOfflineAll s offL
  (purgeL.foldl deleteHost r.1, r.2)

inductive Op where
  | frame (ev : FrameEv) (now : Int) (manuf : String)
  | notify (host : Option Nat) (dhcp4 : Bool) (srcMAC : MAC) (flag : Bool)
  | dhcpUpdate (mac : MAC) (ip : IP) (name : NameEntry) (now : Int) (manuf : String)
  | setOffer (mac : MAC) (ip : IP) (name : NameEntry)
  | capture (mac : MAC)
  | release (mac : MAC)
  | purge (now : Int)
  | setLastSeen (ip : IP) (t : Int)
  | updateName (host : Nat) (kind : NameKind) (name : NameEntry)
  | printTable
  deriving Repr, Inhabited

def step (c : Cfg) (s : Sess) : Op → Sess × Out
  | .frame ev now manuf =>
    let r := parse c s ev now manuf
    (r.s, { host := r.host, flag := r.flag, panic := r.panic })
  | .notify host dhcp4 srcMAC flag =>
    let r := notifyOp s host dhcp4 srcMAC flag
    (r.1, { notifs := r.2 })
  | .dhcpUpdate mac ip name now manuf => dhcpUpdate s mac ip name now manuf
  | .setOffer mac ip name =>
    let r := macFindOrCreate s mac
    (updMac r.1 r.2.id (fun m => { m with ip4offer := ip, names := { m.names with dhcp4 := name } }), {})
  | .capture mac =>
    let r := macFindOrCreate s mac
    if r.2.captured then (r.1, {})
    else if r.2.isRouter then (r.1, { err := some .isRouter })
    else (updMac r.1 r.2.id (fun m => { m with captured := true }), {})
  | .release mac =>
    match findMAC s mac with
    | some e => (updMac s e.id (fun m => { m with captured := false }), {})
    | none => (s, {})
  | .purge now =>
    let r := purge c s now
    (r.1, { notifs := r.2 })
  | .setLastSeen ip t =>
    match findHost s ip with
    | some h => (updHost s h.id (fun x => { x with lastSeen := t }), {})
    | none => (s, {})
  | .updateName host kind name => (updateName s host kind name, {})
  | .printTable => (s, { panic := printTablePanics s })

/-! ### NewSession: the two pre-created entries -/

def empty : Sess := { hosts := [], macs := [], nextId := 0 }

def year : Int := 365 * 24 * 3600 * 1000000000

/-- `NewSession` after creating our own host: never expires, online, current IPv4 and LLA recorded -/
def initHost (c : Cfg) (now : Int) (r : FocRes) : Sess :=
  match hostById r.s r.host with
  | none => r.s
  | some h =>
    updMac (updHost r.s h.id (fun x => { x with lastSeen := now + year, online := true })) h.entry
      (fun m => { m with lastSeen := now + year, ip4 := h.ip, ip6lla := c.hostLLA, online := true })

/-- `NewSession` after creating the router host: router flag, online -/
def initRouter (r : FocRes) : Sess :=
  match hostById r.s r.host with
  | none => r.s
  | some h =>
    updMac (updHost r.s h.id (fun x => { x with online := true })) h.entry
      (fun m => { m with isRouter := true, ip4 := h.ip, online := true })

/-- the table state right after `NewSession` (`mh`, `mr` = `FindManufacturer` of the two MACs) -/
def init (c : Cfg) (now : Int) (mh mr : String) : Sess :=
  initRouter (findOrCreateHost (initHost c now (findOrCreateHost empty c.hostMAC c.hostIP4 now mh))
    c.routerMAC c.routerIP4 now mr)

/-! ### queries -/

/-- `Session.FindIP` -/
def findIP (s : Sess) (ip : IP) : Option HostRec := findHost s ip
/-- `Session.GetHosts` (map order: any) -/
def getHosts (s : Sess) : List HostRec := s.hosts.map (·.2)
/-- `Session.IPAddrs` -/
def ipAddrs (s : Sess) (mac : MAC) : Option (List (MAC × IP)) :=
  (findMAC s mac).map (fun e => e.hostList.filterMap (fun i => (hostById s i).map (fun h => (h.mac, h.ip))))
/-- `Session.FindByMAC` (map order: any) -/
def findByMAC (s : Sess) (mac : MAC) : List (MAC × IP) :=
  s.hosts.filterMap (fun p => match macById s p.2.entry with
                              | some m => if m.mac = mac then some (m.mac, p.2.ip) else none
                              | none => none)
/-- `Session.FindMACEntry` -/
def findMACEntry (s : Sess) (mac : MAC) : Option MacRec := findMAC s mac
def isCaptured (s : Sess) (mac : MAC) : Bool :=
  match findMAC s mac with
  | some e => e.captured
  | none => false
def run (c : Cfg) (s : Sess) (ops : List Op) : Sess := ops.foldl (fun st op => (step c st op).1) s

/-! ### the caller's discipline of C06: Notify right after every Parse -/

/-- one received frame: `Parse`; a protocol handler may learn a name for `frame.Host`;
    `Notify(frame)` (`ev.dhcp4`/`ev.srcMAC` are the frame's `PayloadID == PayloadDHCP4` / `SrcAddr.MAC`) -/
def packet (c : Cfg) (s : Sess) (ev : FrameEv) (now : Int) (manuf : String)
    (upd : Option (NameKind × NameEntry)) : Sess × List Notif :=
  let r := parse c s ev now manuf
  if r.panic then (r.s, []) else
  let s1 := match r.host, upd with
    | some hid, some (k, n) => updateName r.s hid k n
    | _, _ => r.s
  notifyOp s1 r.host ev.dhcp4 ev.srcMAC r.flag

/-- the steps of a C06 history -/
inductive Op6 where
  | packet (ev : FrameEv) (now : Int) (manuf : String) (upd : Option (NameKind × NameEntry))
  | api (op : Op)      -- any other call: DHCPv4Update, purge, SetDHCPv4IPOffer, Capture, Release, …
  deriving Repr, Inhabited

def step6 (c : Cfg) (s : Sess) : Op6 → Sess × List Notif
  | .packet ev now manuf upd => packet c s ev now manuf upd
  | .api op => ((step c s op).1, (step c s op).2.notifs)

/-- run a history, collecting everything received on the (drained) channel -/
def run6 (c : Cfg) : Sess → List Op6 → Sess × List Notif
  | s, [] => (s, [])
  | s, op :: rest =>
    let r := step6 c s op
    let r2 := run6 c r.1 rest
    (r2.1, r.2 ++ r2.2)

end PV.Model.Tables
