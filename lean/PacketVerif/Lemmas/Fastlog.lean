/-
  Helper lemmas for C20: the `emit` normal form of a line (everything the appenders do, when
  there is room, is "write this text at the cursor"), decimal / hexadecimal bridging between the
  machine-integer code and the positional reference, and the IPv6 zero-run lemmas.
-/
import PacketVerif.Model.Fastlog
import PacketVerif.Spec.Render
namespace PV.Lemmas.Fastlog
open PV PV.Fastlog PV.Model.Fastlog PV.Spec.Render PV.Spec.Rfc5952

/-! ### splice -/

theorem getElem?_splice (b : Bytes) (i : Nat) (s : Bytes) (h : i + s.length ≤ b.length) (k : Nat) :
    (splice b i s)[k]? = if k < i then b[k]? else if k < i + s.length then s[k - i]? else b[k]? := by
  unfold splice
  rw [if_pos h]
  by_cases h1 : k < i
  · rw [if_pos h1, List.getElem?_append_left (by simp; omega), List.getElem?_take, if_pos h1]
  · rw [if_neg h1, List.getElem?_append_right (by simp; omega)]
    have hl : (b.take i).length = i := by simp; omega
    rw [hl]
    by_cases h2 : k < i + s.length
    · rw [if_pos h2, List.getElem?_append_left (by omega)]
    · rw [if_neg h2, List.getElem?_append_right (by omega), List.getElem?_drop]
      congr 1; omega

theorem splice_splice (b : Bytes) (i : Nat) (a c : Bytes) (h : i + a.length + c.length ≤ b.length) :
    splice (splice b i a) (i + a.length) c = splice b i (a ++ c) := by
  apply List.ext_getElem?
  intro k
  have hl := splice_length b i a
  rw [getElem?_splice _ _ _ (by rw [hl]; omega), getElem?_splice _ _ _ (by omega),
    getElem?_splice _ _ _ (by simp; omega)]
  simp only [List.length_append]
  by_cases h1 : k < i
  · simp [h1, show k < i + a.length by omega]
  · by_cases h2 : k < i + a.length
    · simp [h1, h2, show k < i + (a.length + c.length) by omega, List.getElem?_append_left (show k - i < a.length by omega)]
    · by_cases h3 : k < i + a.length + c.length
      · simp only [h1, h2, h3, if_false, if_true, show k < i + (a.length + c.length) by omega]
        rw [List.getElem?_append_right (by omega)]
        congr 1; omega
      · simp [h1, h2, h3, show ¬ k < i + (a.length + c.length) by omega]

theorem splice_nil (b : Bytes) (i : Nat) (h : i ≤ b.length) : splice b i [] = b := by
  unfold splice
  simp [h]

theorem take_splice (b : Bytes) (i : Nat) (s : Bytes) (h : i + s.length ≤ b.length) :
    (splice b i s).take (i + s.length) = b.take i ++ s := by
  unfold splice
  rw [if_pos h, ← List.append_assoc]
  have : (b.take i ++ s).length = i + s.length := by simp; omega
  rw [List.take_append_of_le_length (by omega), List.take_of_length_le (by omega)]

theorem set_eq_splice (b : Bytes) (i : Nat) (v : UInt8) (h : i < b.length) : b.set i v = splice b i [v] := by
  unfold splice
  rw [if_pos (by simp only [List.length_cons, List.length_nil]; omega), List.set_eq_take_append_cons_drop, if_pos h]
  rfl

/-! ### emit -/

/-- the line after writing `s` at the cursor -/
def emit (l : Line) (s : Bytes) : Line := ⟨l.buf.splice l.idx s, l.idx + s.length⟩

@[simp] theorem emit_idx (l : Line) (s : Bytes) : (emit l s).idx = l.idx + s.length := rfl

theorem Buf.ext {a b : Buf} (h : a.1 = b.1) : a = b := Subtype.ext h

theorem emit_nil (l : Line) (h : l.idx ≤ bufSize) : emit l [] = l := by
  cases l with
  | mk buf idx =>
    simp only [emit, List.length_nil, Nat.add_zero]
    congr 1
    apply Buf.ext
    exact splice_nil _ _ (by rw [buf.2]; exact h)

theorem emit_emit (l : Line) (a c : Bytes) (h : l.idx + a.length + c.length ≤ bufSize) :
    emit (emit l a) c = emit l (a ++ c) := by
  simp only [emit, List.length_append, Nat.add_assoc]
  congr 1
  apply Buf.ext
  exact splice_splice _ _ _ _ (by rw [l.buf.2]; omega)

theorem emit_text (l : Line) (s : Bytes) (h : l.idx + s.length ≤ bufSize) :
    (emit l s).text = l.text ++ s := by
  simp only [Line.text, emit, Buf.splice]
  exact take_splice _ _ _ (by rw [l.buf.2]; exact h)

/-! ### primitives in emit form -/

theorem appendByte_eq (l : Line) (v : UInt8) (h : l.idx < bufSize) : appendByte l v = .ok (emit l [v]) := by
  unfold appendByte
  rw [if_pos h]
  simp only [emit, List.length_cons, List.length_nil]
  congr 2
  apply Buf.ext
  exact set_eq_splice _ _ _ (by rw [l.buf.2]; exact h)

theorem copyIn_eq (l : Line) (s : Bytes) (h : l.idx + s.length ≤ bufSize) : copyIn l s = .ok (emit l s) := by
  unfold copyIn copyTo
  rw [if_pos ⟨by omega, Nat.le_refl _⟩]
  have : s.take (bufSize - l.idx) = s := List.take_of_length_le (by omega)
  simp only [Outcome.bind_ok, this, Outcome.pure_eq, emit]
  congr 2
  omega

theorem appendByte_emit (l : Line) (acc : Bytes) (v : UInt8) (h : l.idx + acc.length < bufSize) :
    appendByte (emit l acc) v = .ok (emit l (acc ++ [v])) := by
  rw [appendByte_eq _ _ (by simpa using h), emit_emit _ _ _ (by simp; omega)]

theorem copyIn_emit (l : Line) (acc s : Bytes) (h : l.idx + acc.length + s.length ≤ bufSize) :
    copyIn (emit l acc) s = .ok (emit l (acc ++ s)) := by
  rw [copyIn_eq _ _ (by simpa using h), emit_emit _ _ _ h]

/-! ### decimal -/

theorem width_lt10 (n : Nat) (h : n < 10) : width n = 1 := by
  rw [width]; simp [h]

theorem width_ge10 (n : Nat) (h : ¬ n < 10) : width n = width (n / 10) + 1 := by
  rw [width]; simp [h]

theorem width_pos (n : Nat) : 0 < width n := by
  by_cases h : n < 10
  · rw [width_lt10 n h]; decide
  · rw [width_ge10 n h]; omega

theorem decimal_lt10 (n : Nat) (h : n < 10) : decimal n = [digit n] := by
  unfold decimal
  rw [width_lt10 n h]
  simp [Nat.mod_eq_of_lt h]

theorem decimal_ge10 (n : Nat) (h : ¬ n < 10) : decimal n = decimal (n / 10) ++ [digit (n % 10)] := by
  unfold decimal
  rw [width_ge10 n h, List.range_succ, List.map_append]
  congr 1
  · apply List.map_congr_left
    intro i hi
    have hi : i < width (n / 10) := List.mem_range.mp hi
    have e : width (n / 10) + 1 - 1 - i = (width (n / 10) - 1 - i) + 1 := by omega
    rw [e, Nat.pow_succ, Nat.mul_comm, ← Nat.div_div_eq_div_mul]
  · simp

theorem decimal_length (n : Nat) : (decimal n).length = width n := by
  simp [decimal]

theorem peelDigits_eq (n : Nat) (acc : Bytes) : peelDigits n acc = decimal n ++ acc := by
  fun_induction peelDigits n acc with
  | case1 n acc h => rw [decimal_lt10 n h]; rfl
  | case2 n acc h ih => rw [ih, decimal_ge10 n h]; simp [digit]

theorem u32_eq_zero_iff (v : UInt32) : v = 0 ↔ v.toNat = 0 := by
  constructor
  · intro h; rw [h]; rfl
  · intro h; exact UInt32.toNat_inj.mp (by simpa using h)

theorem countDigits_eq (v : UInt32) (h : v ≠ 0) : countDigits v = width v.toNat := by
  fun_induction countDigits v with
  | case1 => exact absurd rfl h
  | case2 v hv ih =>
    have hn : v.toNat ≠ 0 := fun h0 => hv ((u32_eq_zero_iff v).mpr h0)
    by_cases h10 : v.toNat < 10
    · have : v / 10 = 0 := (u32_eq_zero_iff _).mpr (by rw [UInt32.toNat_div]; exact Nat.div_eq_of_lt h10)
      rw [this, width_lt10 _ h10]; rw [countDigits]; simp
    · have hne : v / 10 ≠ 0 := fun h0 => by
        have := (u32_eq_zero_iff _).mp h0
        rw [UInt32.toNat_div] at this
        have : v.toNat / 10 = 0 := this
        omega
      rw [ih hne, width_ge10 _ h10, UInt32.toNat_div]; rfl

/-- digits of a non-zero number; nothing for zero (the state of the `for v > 0` loops) -/
def digs (n : Nat) : Bytes := if n = 0 then [] else decimal n

theorem digs_step (n : Nat) (h : n ≠ 0) : digs n = digs (n / 10) ++ [digit (n % 10)] := by
  unfold digs
  rw [if_neg h]
  by_cases h10 : n < 10
  · rw [if_pos (Nat.div_eq_of_lt h10), decimal_lt10 n h10, Nat.mod_eq_of_lt h10]; rfl
  · rw [if_neg (by omega), decimal_ge10 n h10]

theorem digs_length (n : Nat) (h : n ≠ 0) : (digs n).length = width n := by
  unfold digs; rw [if_neg h, decimal_length]

theorem splice_before (b : Bytes) (i : Nat) (D : Bytes) (d : UInt8) (h : i + D.length < b.length) :
    splice (b.set (i + D.length) d) i D = splice b i (D ++ [d]) := by
  apply List.ext_getElem?
  intro k
  rw [getElem?_splice _ _ _ (by simp; omega), getElem?_splice _ _ _ (by simp; omega)]
  simp only [List.length_append, List.length_cons, List.length_nil]
  by_cases h1 : k < i
  · simp [h1, List.getElem?_set]; omega
  · by_cases h2 : k < i + D.length
    · simp [h1, h2, show k < i + (D.length + 1) by omega, List.getElem?_append_left (show k - i < D.length by omega)]
    · by_cases h3 : k = i + D.length
      · subst h3
        simp [h1, h]
      · simp [h1, h2, show ¬ k < i + (D.length + 1) by omega, List.getElem?_set]; omega

theorem digitByte (v : UInt32) : (v % 10).toUInt8 + 0x30 = digit (v.toNat % 10) := by
  apply UInt8.toNat_inj.mp
  have : v.toNat % 10 < 10 := Nat.mod_lt _ (by decide)
  rw [UInt8.toNat_add, UInt32.toNat_toUInt8, UInt32.toNat_mod]
  simp only [digit, UInt8.toNat_ofNat']
  have e1 : (10 : UInt32).toNat = 10 := rfl
  have e2 : (0x30 : UInt8).toNat = 48 := rfl
  rw [e1, e2]
  omega

theorem printLoop_eq (b : Buf) (e : Nat) (v : UInt32) (h1 : countDigits v ≤ e) (h2 : e ≤ bufSize) :
    printLoop b e v = .ok (b.splice (e - countDigits v) (digs v.toNat)) := by
  fun_induction printLoop b e v with
  | case1 b e =>
    have : countDigits 0 = 0 := by rw [countDigits]; simp
    simp only [this, Nat.sub_zero]
    congr 1; apply Buf.ext
    show b.1 = splice b.1 e (digs (0 : UInt32).toNat)
    have : digs (0 : UInt32).toNat = [] := rfl
    rw [this, splice_nil _ _ (by rw [b.2]; exact h2)]
  | case2 b e v hv hp =>
    have := countDigits_eq v hv
    have := width_pos v.toNat
    omega
  | case3 b e v hv hp ih =>
    have hn : v.toNat ≠ 0 := fun h0 => hv ((u32_eq_zero_iff v).mpr h0)
    have hc : countDigits v = countDigits (v / 10) + 1 := by
      conv => lhs; rw [countDigits]
      simp [hv]
    rw [ih (by omega) (by omega)]
    congr 1; apply Buf.ext
    show splice (b.1.set (e - 1) _) (e - 1 - countDigits (v / 10)) (digs (v / 10).toNat) = splice b.1 (e - countDigits v) (digs v.toNat)
    rw [digs_step v.toNat hn, UInt32.toNat_div, digitByte]
    have e10 : (10 : UInt32).toNat = 10 := rfl
    rw [e10]
    have hl : (digs (v.toNat / 10)).length = countDigits (v / 10) := by
      by_cases hz : v / 10 = 0
      · have : v.toNat / 10 = 0 := by have := (u32_eq_zero_iff _).mp hz; rwa [UInt32.toNat_div] at this
        rw [hz, this]; rw [countDigits]; simp [digs]
      · have hz' : v.toNat / 10 ≠ 0 := fun h0 => hz ((u32_eq_zero_iff _).mpr (by rw [UInt32.toNat_div]; exact h0))
        rw [digs_length _ hz', countDigits_eq _ hz, UInt32.toNat_div]; rfl
    have epos : e - 1 = (e - countDigits v) + (digs (v.toNat / 10)).length := by omega
    rw [show e - 1 - countDigits (v / 10) = e - countDigits v by omega, epos]
    exact splice_before _ _ _ _ (by rw [b.2, ← epos]; omega)

/-- discharges the room side conditions of the `*_emit` rewriting lemmas -/
macro "room" : tactic =>
  `(tactic| ((try simp only [List.length_append, List.length_cons, List.length_nil, bufSize, Model.Fastlog.sTrue,
      Model.Fastlog.sFalse, Model.Fastlog.sNil, Spec.Render.sNil, sError, sEqLB, sModule, sTruncated, sMapped] at *); omega))

theorem head_emit (l : Line) (acc name : Bytes) (h : l.idx + acc.length + (name.length + 2) ≤ bufSize) :
    head (emit l acc) name = .ok (emit l (acc ++ ([0x20] ++ name ++ [0x3d]))) := by
  unfold head
  rw [appendByte_emit _ _ _ (by room)]
  simp only [Outcome.bind_ok]
  rw [copyIn_emit _ _ _ (by room)]
  simp only [Outcome.bind_ok]
  rw [appendByte_emit _ _ _ (by room)]
  simp [cSP, cEQ]

theorem printInt_emit (l : Line) (acc : Bytes) (v : UInt32)
    (h : l.idx + acc.length + (decimal v.toNat).length ≤ bufSize) :
    printInt (emit l acc) v = .ok (emit l (acc ++ decimal v.toNat)) := by
  unfold printInt
  by_cases hv : v = 0
  · subst hv
    have : decimal (0 : UInt32).toNat = [0x30] := by
      rw [show (0 : UInt32).toNat = 0 from rfl, decimal_lt10 0 (by decide)]; rfl
    rw [this] at h ⊢
    rw [if_pos rfl, appendByte_emit _ _ _ (by room)]
  · rw [if_neg hv]
    have hn : v.toNat ≠ 0 := fun h0 => hv ((u32_eq_zero_iff v).mpr h0)
    have hc := countDigits_eq v hv
    rw [decimal_length] at h
    simp only [emit_idx]
    rw [printLoop_eq _ _ _ (by omega) (by rw [hc]; omega)]
    simp only [Outcome.bind_ok, Outcome.pure_eq]
    have hd : digs v.toNat = decimal v.toNat := by unfold digs; rw [if_neg hn]
    rw [hd, show l.idx + acc.length + countDigits v - countDigits v = (emit l acc).idx by simp]
    have : l.idx + acc.length + countDigits v = (emit l acc).idx + (decimal v.toNat).length := by
      rw [decimal_length, hc]; simp
    rw [this]
    show Outcome.ok (emit (emit l acc) (decimal v.toNat)) = _
    rw [emit_emit _ _ _ (by rw [decimal_length]; omega)]

theorem string_emit (l : Line) (acc name value : Bytes)
    (h : l.idx + acc.length + (renderField (.str name value)).length ≤ bufSize) :
    string (emit l acc) name value = .ok (emit l (acc ++ renderField (.str name value))) := by
  simp only [renderField, named, quoted] at h ⊢
  unfold string
  simp (disch := room) only [head_emit, appendByte_emit, copyIn_emit, Outcome.bind_ok]
  rw [if_neg (by simp only [emit_idx]; room), appendByte_emit _ _ _ (by room)]
  simp [cQUOTE]

theorem label_emit (l : Line) (acc name : Bytes)
    (h : l.idx + acc.length + (renderField (.label name)).length ≤ bufSize) :
    label (emit l acc) name = .ok (emit l (acc ++ renderField (.label name))) := by
  simp only [renderField] at h ⊢
  unfold label
  simp (disch := room) only [appendByte_emit, copyIn_emit, Outcome.bind_ok]
  simp [cSP]

theorem bytesF_emit (l : Line) (acc name value : Bytes)
    (h : l.idx + acc.length + (renderField (.bytes name value)).length ≤ bufSize) :
    bytesF (emit l acc) name value = .ok (emit l (acc ++ renderField (.bytes name value))) := by
  simp only [renderField, named] at h ⊢
  unfold bytesF
  simp (disch := room) only [head_emit, copyIn_emit, Outcome.bind_ok, List.append_assoc]

theorem nameText_emit (l : Line) (acc name value : Bytes)
    (h : l.idx + acc.length + (renderField (.nameText name value)).length ≤ bufSize) :
    nameText (emit l acc) name value = .ok (emit l (acc ++ renderField (.nameText name value))) := by
  simp only [renderField, named] at h ⊢
  unfold nameText
  simp (disch := room) only [head_emit, copyIn_emit, Outcome.bind_ok, List.append_assoc]

theorem errorF_emit (l : Line) (acc text : Bytes)
    (h : l.idx + acc.length + (renderField (.error text)).length ≤ bufSize) :
    errorF (emit l acc) text = .ok (emit l (acc ++ renderField (.error text))) := by
  simp only [renderField] at h ⊢
  unfold errorF
  simp (disch := room) only [appendByte_emit, copyIn_emit, Outcome.bind_ok]
  simp [sError, cRB]

theorem boolF_emit (l : Line) (acc name : Bytes) (v : Bool)
    (h : l.idx + acc.length + (renderField (.bool name v)).length ≤ bufSize) :
    boolF (emit l acc) name v = .ok (emit l (acc ++ renderField (.bool name v))) := by
  simp only [renderField, named, boolText] at h ⊢
  unfold boolF
  cases v
  · simp only [if_false, Bool.false_eq_true] at h ⊢
    simp (disch := room) only [head_emit, copyIn_emit, Outcome.bind_ok]
    simp [sFalse]
  · simp only [if_true] at h ⊢
    simp (disch := room) only [head_emit, copyIn_emit, Outcome.bind_ok]
    simp [sTrue]

theorem uint32_emit (l : Line) (acc name : Bytes) (v : UInt32)
    (h : l.idx + acc.length + (renderField (.u32 name v)).length ≤ bufSize) :
    uint32 (emit l acc) name v = .ok (emit l (acc ++ renderField (.u32 name v))) := by
  simp only [renderField, named] at h ⊢
  unfold uint32
  simp (disch := room) only [head_emit, printInt_emit, Outcome.bind_ok, List.append_assoc]

theorem uint16_emit (l : Line) (acc name : Bytes) (v : UInt16)
    (h : l.idx + acc.length + (renderField (.u16 name v)).length ≤ bufSize) :
    uint16 (emit l acc) name v = .ok (emit l (acc ++ renderField (.u16 name v))) := by
  simp only [renderField, named] at h ⊢
  unfold uint16
  have e : v.toUInt32.toNat = v.toNat := UInt16.toNat_toUInt32 v
  simp (disch := (first | room | (rw [e]; room))) only [head_emit, printInt_emit, Outcome.bind_ok, e, List.append_assoc]

theorem uint8_emit (l : Line) (acc name : Bytes) (v : UInt8)
    (h : l.idx + acc.length + (renderField (.u8 name v)).length ≤ bufSize) :
    uint8 (emit l acc) name v = .ok (emit l (acc ++ renderField (.u8 name v))) := by
  simp only [renderField, named] at h ⊢
  unfold uint8
  have e : v.toUInt32.toNat = v.toNat := UInt8.toNat_toUInt32 v
  simp (disch := (first | room | (rw [e]; room))) only [head_emit, printInt_emit, Outcome.bind_ok, e, List.append_assoc]

theorem fmtInt64_eq (v : Int) : fmtInt64 v = decimalInt v := by
  unfold fmtInt64 decimalInt
  split <;> simp [peelDigits_eq]

theorem intF_emit (l : Line) (acc name : Bytes) (v : Int)
    (h : l.idx + acc.length + (renderField (.int name v)).length ≤ bufSize) :
    intF (emit l acc) name v = .ok (emit l (acc ++ renderField (.int name v))) := by
  simp only [renderField, named] at h ⊢
  unfold intF
  rw [fmtInt64_eq]
  simp (disch := room) only [head_emit, copyIn_emit, Outcome.bind_ok, List.append_assoc]

/-! ### hexadecimal -/

set_option maxRecDepth 100000 in
theorem nibbles_all : ∀ n, n < 256 →
    [nibbleChar (UInt8.ofNat n >>> 4), nibbleChar (UInt8.ofNat n &&& 0x0f)] = hexFixed 2 n := by decide

theorem nibbles (v : UInt8) : [nibbleChar (v >>> 4), nibbleChar (v &&& 0x0f)] = hex8 v.toNat := by
  have := nibbles_all v.toNat (UInt8.toNat_lt v)
  rw [UInt8.ofNat_toNat] at this
  exact this

set_option maxRecDepth 100000 in
theorem hexAt_all : ∀ n, n < 256 →
    hexAt ((UInt8.ofNat n >>> 4) &&& 0x0f) = .ok (hexChar (n / 16)) ∧
    hexAt (UInt8.ofNat n >>> 4) = .ok (hexChar (n / 16)) ∧
    hexAt (UInt8.ofNat n &&& 0x0f) = .ok (hexChar (n % 16)) ∧
    ((UInt8.ofNat n >>> 4) != 0) = decide (16 ≤ n) := by decide

theorem hexAt_hi (v : UInt8) : hexAt ((v >>> 4) &&& 0x0f) = .ok (hexChar (v.toNat / 16)) := by
  have := (hexAt_all v.toNat (UInt8.toNat_lt v)).1
  rwa [UInt8.ofNat_toNat] at this

theorem hexAt_hi' (v : UInt8) : hexAt (v >>> 4) = .ok (hexChar (v.toNat / 16)) := by
  have := (hexAt_all v.toNat (UInt8.toNat_lt v)).2.1
  rwa [UInt8.ofNat_toNat] at this

theorem hexAt_lo (v : UInt8) : hexAt (v &&& 0x0f) = .ok (hexChar (v.toNat % 16)) := by
  have := (hexAt_all v.toNat (UInt8.toNat_lt v)).2.2.1
  rwa [UInt8.ofNat_toNat] at this

theorem hi_ne_zero (v : UInt8) : ((v >>> 4) != 0) = decide (16 ≤ v.toNat) := by
  have := (hexAt_all v.toNat (UInt8.toNat_lt v)).2.2.2
  rwa [UInt8.ofNat_toNat] at this

theorem hex8_eq (n : Nat) (h : n < 256) : hex8 n = [hexChar (n / 16), hexChar (n % 16)] := by
  simp [hex8, hexFixed]
  congr 1; omega

theorem writeHex_emit (l : Line) (acc : Bytes) (v : UInt8) (h : l.idx + acc.length + 2 ≤ bufSize) :
    writeHex (emit l acc) v = .ok (emit l (acc ++ hex8 v.toNat)) := by
  unfold writeHex
  simp (disch := room) only [appendByte_emit, Outcome.bind_ok, List.append_assoc]
  rw [← nibbles]; rfl

theorem writeHexNLZ_emit (l : Line) (acc : Bytes) (v : UInt8)
    (h : l.idx + acc.length + (hexShort v.toNat).length ≤ bufSize) :
    writeHexNLZ (emit l acc) v = .ok (emit l (acc ++ hexShort v.toNat)) := by
  unfold writeHexNLZ
  simp only [hi_ne_zero, hexAt_hi', hexAt_lo, Outcome.bind_ok]
  unfold hexShort at h ⊢
  by_cases h16 : v.toNat < 16
  · rw [if_pos h16] at h ⊢
    simp only [show ¬ 16 ≤ v.toNat by omega, decide_false, Bool.false_eq_true, if_false, Outcome.pure_eq, Outcome.bind_ok]
    rw [appendByte_emit _ _ _ (by room), Nat.mod_eq_of_lt h16]
  · rw [if_neg h16] at h ⊢
    have e : hexFixed 2 v.toNat = [hexChar (v.toNat / 16), hexChar (v.toNat % 16)] := hex8_eq _ (UInt8.toNat_lt v)
    rw [e] at h ⊢
    simp only [show 16 ≤ v.toNat by omega, decide_true, if_true]
    simp (disch := room) only [appendByte_emit, Outcome.bind_ok, List.append_assoc]
    rfl

theorem hexShort_length (n : Nat) : (hexShort n).length ≤ 2 := by
  unfold hexShort; split <;> simp [hexFixed]

theorem uint8Hex_emit (l : Line) (acc name : Bytes) (v : UInt8)
    (h : l.idx + acc.length + (renderField (.x8 name v)).length ≤ bufSize) :
    uint8Hex (emit l acc) name v = .ok (emit l (acc ++ renderField (.x8 name v))) := by
  simp only [renderField, named] at h ⊢
  rw [hex8_eq _ (UInt8.toNat_lt v)] at h ⊢
  unfold uint8Hex
  simp only [hexAt_lo, Outcome.bind_ok]
  simp (disch := room) only [head_emit, appendByte_emit, Outcome.bind_ok, List.append_assoc]
  have : (v >>> 4).toNat % 16 = v.toNat / 16 := by
    rw [UInt8.toNat_shiftRight, Nat.shiftRight_eq_div_pow]
    have := UInt8.toNat_lt v
    have e : (4 : UInt8).toNat % 8 = 4 := rfl
    rw [e]; omega
  rw [this]; rfl

theorem hexAscii_get : ∀ n, n < 16 → idx hexAscii n = .ok (hexChar n) := by decide

theorem u16_nib (v : UInt16) (k : Nat) (hk : k < 16) (s : UInt16) (hs : s.toNat = k) :
    ((v >>> s) &&& 0x0f).toNat = v.toNat / 2 ^ k % 16 := by
  rw [UInt16.toNat_and, UInt16.toNat_shiftRight, hs, Nat.mod_eq_of_lt hk, Nat.shiftRight_eq_div_pow]
  exact Nat.and_two_pow_sub_one_eq_mod _ 4

theorem hexAt16_eq (x : UInt16) (n : Nat) (hx : x.toNat = n % 16) : hexAt16 x = .ok (hexChar (n % 16)) := by
  unfold hexAt16; rw [hx]; exact hexAscii_get _ (Nat.mod_lt _ (by decide))

theorem hex16_eq (n : Nat) : hex16 n = [hexChar (n / 4096 % 16), hexChar (n / 256 % 16), hexChar (n / 16 % 16), hexChar (n % 16)] := by
  simp [hex16, hexFixed, Nat.div_div_eq_div_mul]

theorem uint16Hex_emit (l : Line) (acc name : Bytes) (v : UInt16)
    (h : l.idx + acc.length + (renderField (.x16 name v)).length ≤ bufSize) :
    uint16Hex (emit l acc) name v = .ok (emit l (acc ++ renderField (.x16 name v))) := by
  simp only [renderField, named] at h ⊢
  rw [hex16_eq] at h ⊢
  unfold uint16Hex
  have e3 := hexAt16_eq _ (v.toNat / 4096) (u16_nib v 12 (by decide) 12 rfl)
  have e2 := hexAt16_eq _ (v.toNat / 256) (u16_nib v 8 (by decide) 8 rfl)
  have e1 := hexAt16_eq _ (v.toNat / 16) (u16_nib v 4 (by decide) 4 rfl)
  have e0 : hexAt16 (v &&& 0x0f) = .ok (hexChar (v.toNat % 16)) := by
    apply hexAt16_eq _ v.toNat
    rw [UInt16.toNat_and]; exact Nat.and_two_pow_sub_one_eq_mod _ 4
  simp only [e3, e2, e1, e0, Outcome.bind_ok]
  simp (disch := room) only [head_emit, appendByte_emit, Outcome.bind_ok, List.append_assoc]
  rfl

/-! ### MAC -/

theorem macF_emit (l : Line) (acc name v : Bytes)
    (h : l.idx + acc.length + (renderField (.mac name v)).length ≤ bufSize) :
    macF (emit l acc) name v = .ok (emit l (acc ++ renderField (.mac name v))) := by
  simp only [renderField, named] at h ⊢
  unfold macF
  by_cases h6 : v.length = 6
  · rw [if_pos h6] at h
    simp only [h6, if_true]
    match v, h6 with
    | [a, b, c, d, e, f], _ =>
      have hl : ∀ x : UInt8, (hex8 x.toNat).length = 2 := fun x => by rw [hex8_eq _ (UInt8.toNat_lt x)]; rfl
      simp only [Spec.Render.mac, List.map, List.intercalate] at h ⊢
      simp only [idx, List.getElem?_cons_zero, List.getElem?_cons_succ, Outcome.bind_ok]
      simp [hl] at h
      simp (disch := (first | room | (simp [hl]; room))) only [head_emit, writeHex_emit, appendByte_emit, Outcome.bind_ok, List.append_assoc]
      simp [cCOLON]
  · rw [if_neg h6] at h
    simp only [h6, if_false]
    simp (disch := room) only [head_emit, copyIn_emit, Outcome.bind_ok, List.append_assoc]
    rfl

/-! ### IPv4 -/

theorem byteAscii_eq (b : UInt8) : byteAscii b = decimal b.toNat := by
  unfold byteAscii; rw [peelDigits_eq]; simp

theorem decimal_le3 (n : Nat) (h : n < 256) : (decimal n).length ≤ 3 := by
  rw [decimal_length]
  by_cases h1 : n < 10
  · rw [width_lt10 _ h1]; omega
  · rw [width_ge10 _ h1]
    by_cases h2 : n / 10 < 10
    · rw [width_lt10 _ h2]; omega
    · rw [width_ge10 _ h2, width_lt10 _ (by omega)]; omega

theorem ipv4_four (a b c d : UInt8) :
    ipv4 [a, b, c, d] = decimal a.toNat ++ [0x2e] ++ decimal b.toNat ++ [0x2e] ++ decimal c.toNat ++ [0x2e] ++ decimal d.toNat := by
  simp [ipv4, List.intercalate]

theorem ipv4_length (a b c d : UInt8) : (ipv4 [a, b, c, d]).length ≤ 15 := by
  rw [ipv4_four]
  have := decimal_le3 _ (UInt8.toNat_lt a); have := decimal_le3 _ (UInt8.toNat_lt b)
  have := decimal_le3 _ (UInt8.toNat_lt c); have := decimal_le3 _ (UInt8.toNat_lt d)
  simp only [List.length_append, List.length_cons, List.length_nil]; omega

theorem dotted4_emit (l : Line) (acc : Bytes) (a b c d : UInt8)
    (h : l.idx + acc.length + (ipv4 [a, b, c, d]).length ≤ bufSize) :
    dotted4 (emit l acc) [a, b, c, d] = .ok (emit l (acc ++ ipv4 [a, b, c, d])) := by
  rw [ipv4_four] at h ⊢
  unfold dotted4
  simp only [idx, List.getElem?_cons_zero, List.getElem?_cons_succ, Outcome.bind_ok, byteAscii_eq]
  simp (disch := room) only [copyIn_emit, appendByte_emit, Outcome.bind_ok, List.append_assoc]
  rfl

theorem netipDecimal_eq (x : UInt8) : netipDecimal x = decimal x.toNat := by
  unfold netipDecimal
  have hx := UInt8.toNat_lt x
  have e100 : (x ≥ 100) = (100 ≤ x.toNat) := by
    apply propext; exact UInt8.le_iff_toNat_le
  have e10 : (x ≥ 10) = (10 ≤ x.toNat) := by
    apply propext; exact UInt8.le_iff_toNat_le
  simp only [e100, e10]
  by_cases h1 : x.toNat < 10
  · rw [if_neg (by omega), if_neg (by omega), decimal_lt10 _ h1, Nat.mod_eq_of_lt h1]; rfl
  · rw [decimal_ge10 _ h1]
    by_cases h2 : x.toNat < 100
    · rw [if_neg (by omega), if_pos (by omega), decimal_lt10 _ (by omega)]
      have : x.toNat / 10 % 10 = x.toNat / 10 := Nat.mod_eq_of_lt (by omega)
      rw [this]; rfl
    · rw [if_pos (by omega), if_pos (by omega), decimal_ge10 _ (by omega), decimal_lt10 _ (by omega)]
      have : x.toNat / 10 / 10 = x.toNat / 100 := by omega
      rw [this]; rfl

theorem netipText4_eq (a b c d : UInt8) : netipText4 [a, b, c, d] = ipv4 [a, b, c, d] := by
  rw [ipv4_four]; simp [netipText4, netipDecimal_eq, cDOT]

/-! ### IPv6: one 16-bit field -/

theorem hexChar_zero : ∀ d, d < 16 → ((hexChar d == 0x30) = decide (d = 0)) := by decide

theorem hexFixed4_split (hi lo : Nat) (h1 : hi < 256) (h2 : lo < 256) :
    hexFixed 4 (hi * 256 + lo) = [hexChar (hi / 16), hexChar (hi % 16), hexChar (lo / 16), hexChar (lo % 16)] := by
  simp only [hexFixed, List.nil_append, List.cons_append]
  have e1 : (hi * 256 + lo) / 16 / 16 / 16 % 16 = hi / 16 := by omega
  have e2 : (hi * 256 + lo) / 16 / 16 % 16 = hi % 16 := by omega
  have e3 : (hi * 256 + lo) / 16 % 16 = lo / 16 := by omega
  have e4 : (hi * 256 + lo) % 16 = lo % 16 := by omega
  rw [e1, e2, e3, e4]

theorem hc0 : (hexChar 0 == 0x30) = true := by decide

/-- leading-zero suppression on four hex digits -/
theorem dropLead4 (d3 d2 d1 d0 : Nat) (b3 : d3 < 16) (b2 : d2 < 16) (b1 : d1 < 16) (b0 : d0 < 16) :
    dropLead [hexChar d3, hexChar d2, hexChar d1, hexChar d0] =
    if d3 ≠ 0 then [hexChar d3, hexChar d2, hexChar d1, hexChar d0]
    else if d2 ≠ 0 then [hexChar d2, hexChar d1, hexChar d0]
    else if d1 ≠ 0 then [hexChar d1, hexChar d0]
    else [hexChar d0] := by
  have z3 := hexChar_zero d3 b3
  have z2 := hexChar_zero d2 b2
  have z1 := hexChar_zero d1 b1
  have z0 := hexChar_zero d0 b0
  unfold dropLead
  by_cases c3 : d3 = 0
  · subst c3
    by_cases c2 : d2 = 0
    · subst c2
      by_cases c1 : d1 = 0
      · subst c1
        by_cases c0 : d0 = 0
        · subst c0; simp [List.dropWhile, hc0]; rfl
        · simp [List.dropWhile, hc0, z0, c0]
      · simp [List.dropWhile, hc0, z1, c1]
    · simp [List.dropWhile, hc0, z2, c2]
  · simp [List.dropWhile, z3, c3]

/-- what `appendIP6` writes for one field = the RFC 5952 field text -/
theorem group_text (hi lo : UInt8) :
    (if (hi != 0) = true then hexShort hi.toNat ++ hex8 lo.toNat else hexShort lo.toNat) =
      hexField (hi.toNat * 256 + lo.toNat) := by
  have h1 := UInt8.toNat_lt hi
  have h2 := UInt8.toNat_lt lo
  have hne : (hi != 0) = decide (hi.toNat ≠ 0) := by
    by_cases h : hi = 0
    · subst h; rfl
    · have : hi.toNat ≠ 0 := fun h0 => h (UInt8.toNat_inj.mp (by simpa using h0))
      simp [h, this]
  unfold hexField
  rw [hexFixed4_split _ _ h1 h2, hne, hex8_eq _ h2, dropLead4 _ _ _ _ (by omega) (by omega) (by omega) (by omega)]
  have hs : ∀ n, n < 256 → hexShort n = if n / 16 ≠ 0 then [hexChar (n / 16), hexChar (n % 16)] else [hexChar (n % 16)] := by
    intro n hn
    unfold hexShort
    by_cases c : n < 16
    · rw [if_pos c, if_neg (by omega), Nat.mod_eq_of_lt c]
    · rw [if_neg c, if_pos (by omega)]; exact hex8_eq n hn
  rw [hs _ h1, hs _ h2]
  by_cases c1 : hi.toNat / 16 = 0
  · by_cases c2 : hi.toNat % 16 = 0
    · have hz : hi.toNat = 0 := by omega
      simp [hz]
    · have hz : hi.toNat ≠ 0 := by omega
      simp [c1, c2, hz]
  · have hz : hi.toNat ≠ 0 := by omega
    simp [c1, hz]

theorem hexField_length (n : Nat) : 1 ≤ (hexField n).length ∧ (hexField n).length ≤ 4 := by
  unfold hexField
  have : hexFixed 4 n = [hexChar (n / 16 / 16 / 16 % 16), hexChar (n / 16 / 16 % 16), hexChar (n / 16 % 16), hexChar (n % 16)] := by
    simp [hexFixed]
  rw [this, dropLead4 _ _ _ _ (Nat.mod_lt _ (by decide)) (Nat.mod_lt _ (by decide)) (Nat.mod_lt _ (by decide)) (Nat.mod_lt _ (by decide))]
  split
  · simp
  · split
    · simp
    · split <;> simp

/-! ### IPv6: the render loop -/

theorem fields_get (ip : Bytes) (i : Nat) (h : i * 2 + 1 < ip.length) :
    ∃ hi lo, idx ip (i * 2) = .ok hi ∧ idx ip (i * 2 + 1) = .ok lo ∧
      (fields ip)[i]? = some (hi.toNat * 256 + lo.toNat) := by
  induction i generalizing ip with
  | zero =>
    match ip, h with
    | a :: b :: rest, _ => exact ⟨a, b, rfl, rfl, rfl⟩
  | succ i ih =>
    match ip, h with
    | a :: b :: rest, h =>
      obtain ⟨hi, lo, h1, h2, h3⟩ := ih rest (by simp at h; omega)
      refine ⟨hi, lo, ?_, ?_, ?_⟩
      · rw [show (i + 1) * 2 = i * 2 + 1 + 1 by omega]; simpa [idx] using h1
      · rw [show (i + 1) * 2 + 1 = (i * 2 + 1) + 1 + 1 by omega]; simpa [idx] using h2
      · simpa [fields] using h3

/-- field `i` of the address (0 beyond the end; only used below the length) -/
def fld (ip : Bytes) (i : Nat) : Nat := (fields ip)[i]?.getD 0

theorem ip6Group_emit (l : Line) (acc ip : Bytes) (i : Nat) (hi : i * 2 + 1 < ip.length)
    (h : l.idx + acc.length + ((hexField (fld ip i)).length + 1) ≤ bufSize) :
    ip6Group (emit l acc) ip i = .ok (emit l (acc ++ (hexField (fld ip i) ++ [0x3a]))) := by
  obtain ⟨a, b, h1, h2, h3⟩ := fields_get ip i hi
  have hf : fld ip i = a.toNat * 256 + b.toNat := by simp [fld, h3]
  rw [hf] at h ⊢
  rw [← group_text] at h ⊢
  unfold ip6Group
  simp only [h1, h2, Outcome.bind_ok]
  have s1 := hexShort_length a.toNat
  have s2 := hexShort_length b.toNat
  have s3 : (hex8 b.toNat).length = 2 := by rw [hex8_eq _ (UInt8.toNat_lt b)]; rfl
  by_cases c : (a != 0) = true
  · simp only [c, if_true] at h ⊢
    simp (disch := room) only [writeHexNLZ_emit, writeHex_emit, appendByte_emit, Outcome.bind_ok, List.append_assoc]
    rfl
  · simp only [c, Bool.false_eq_true, if_false] at h ⊢
    simp (disch := room) only [writeHexNLZ_emit, appendByte_emit, Outcome.bind_ok, List.append_assoc]
    rfl

/-- what the second loop of `appendIP6` writes, as tokens: `some i` = field `i` and a colon,
    `none` = a colon -/
def toks (s e : Int) : Nat → List (Option Nat)
  | 0 => []
  | k + 1 =>
    let i := 8 - (k + 1)
    if (i : Int) = s then (if s = 0 then [none] else []) ++ [none] ++ toks s e k
    else if (i : Int) ≥ s ∧ (i : Int) ≤ e then toks s e k
    else [some i] ++ toks s e k

def rend (ip : Bytes) : Option Nat → Bytes
  | none => [0x3a]
  | some i => hexField (fld ip i) ++ [0x3a]

theorem ip6Loop_emit (ip : Bytes) (hip : ip.length = 16) (s e : Int) (k : Nat) (hk : k ≤ 8) (l : Line) (acc : Bytes)
    (h : l.idx + acc.length + ((toks s e k).flatMap (rend ip)).length ≤ bufSize) :
    ip6Loop ip s e k (emit l acc) = .ok (emit l (acc ++ (toks s e k).flatMap (rend ip))) := by
  induction k generalizing acc with
  | zero => simp [ip6Loop, toks]
  | succ k ih =>
    unfold ip6Loop
    unfold toks at h ⊢
    simp only [] at h ⊢
    by_cases c1 : ((8 - (k + 1) : Nat) : Int) = s
    · rw [if_pos c1] at h ⊢
      rw [if_pos c1]
      by_cases c0 : s = 0
      · rw [if_pos c0] at h ⊢
        rw [if_pos c0]
        simp only [List.flatMap_append, List.flatMap_cons, List.flatMap_nil, rend, List.append_nil] at h ⊢
        simp (disch := room) only [appendByte_emit, Outcome.bind_ok, List.append_assoc]
        rw [ih (by omega) _ (by room)]
        simp [cCOLON]
      · rw [if_neg c0] at h ⊢
        rw [if_neg c0]
        simp only [List.flatMap_append, List.flatMap_cons, List.flatMap_nil, rend, List.append_nil, List.nil_append] at h ⊢
        simp (disch := room) only [appendByte_emit, Outcome.bind_ok, Outcome.pure_eq]
        rw [ih (by omega) _ (by room)]
        simp [cCOLON]
    · rw [if_neg c1] at h ⊢
      rw [if_neg c1]
      by_cases c2 : ((8 - (k + 1) : Nat) : Int) ≥ s ∧ ((8 - (k + 1) : Nat) : Int) ≤ e
      · rw [if_pos c2] at h ⊢
        rw [if_pos c2]
        exact ih (by omega) _ h
      · rw [if_neg c2] at h ⊢
        rw [if_neg c2]
        simp only [List.flatMap_append, List.flatMap_cons, List.flatMap_nil, rend, List.append_nil] at h ⊢
        rw [ip6Group_emit _ _ _ _ (by omega) (by room)]
        simp only [Outcome.bind_ok]
        rw [ih (by omega) _ (by room)]
        simp

/-! ### `index--` after a scratch byte -/

theorem splice_idem (b : Bytes) (i : Nat) (t : Bytes) (c : UInt8) (h : i + (t ++ [c]).length ≤ b.length) :
    splice (splice b i (t ++ [c])) i t = splice b i (t ++ [c]) := by
  apply List.ext_getElem?
  intro k
  have hl := splice_length b i (t ++ [c])
  simp only [List.length_append, List.length_cons, List.length_nil] at h
  rw [getElem?_splice _ _ _ (by rw [hl]; omega), getElem?_splice _ _ _ (by simp; omega)]
  simp only [List.length_append, List.length_cons, List.length_nil]
  by_cases h1 : k < i
  · simp [h1]
  · by_cases h2 : k < i + t.length
    · simp [h1, h2, show k < i + (t.length + 1) by omega, List.getElem?_append_left (show k - i < t.length by omega)]
    · simp [h1, h2]

theorem take_splice_before (b : Bytes) (i : Nat) (s : Bytes) (h : i + s.length ≤ b.length) :
    (splice b i s).take i = b.take i := by
  unfold splice
  rw [if_pos h, List.take_append_of_le_length (by simp; omega), List.take_take]
  simp

/-- a base line with the same cursor and the same text (the buffer may differ beyond the cursor) -/
def SameText (l' l : Line) : Prop := l'.idx = l.idx ∧ l'.text = l.text

theorem SameText.refl (l : Line) : SameText l l := ⟨rfl, rfl⟩

theorem SameText.trans {a b c : Line} (h1 : SameText a b) (h2 : SameText b c) : SameText a c :=
  ⟨h1.1.trans h2.1, h1.2.trans h2.2⟩

theorem decIdx_scratch (l : Line) (t : Bytes) (c : UInt8) (h : l.idx + (t ++ [c]).length ≤ bufSize) :
    ∃ l', SameText l' l ∧ decIdx (emit l (t ++ [c])) = .ok (emit l' t) := by
  refine ⟨⟨(emit l (t ++ [c])).buf, l.idx⟩, ⟨rfl, ?_⟩, ?_⟩
  · simp only [Line.text, emit, Buf.splice]
    exact take_splice_before _ _ _ (by rw [l.buf.2]; exact h)
  · unfold decIdx
    rw [if_neg (by simp)]
    simp only [emit, Buf.splice, List.length_append, List.length_cons, List.length_nil]
    congr 2
    apply Buf.ext
    exact (splice_idem _ _ _ _ (by rw [l.buf.2]; exact h)).symm

/-! ### IPv6: the zero-run search is a function of the zero pattern -/

/-- reader over an explicit pattern (`true` = the field is non-zero) -/
def rdB (z : List Bool) (j : Nat) : Outcome Bool :=
  match z[j]? with
  | some b => .ok b
  | none => .panic

def nz (a b : UInt8) : Bool := (a != 0) || (b != 0)

theorem zInner_congr (rd rd' : Nat → Outcome Bool) (h : ∀ j, j < 8 → rd j = rd' j) (i k : Nat) (s e : Int) :
    zInner rd i k s e = zInner rd' i k s e := by
  induction k generalizing s e with
  | zero => rfl
  | succ k ih =>
    unfold zInner
    simp only [h (8 - (k + 1)) (by omega), ih]

theorem zOuter_congr (rd rd' : Nat → Outcome Bool) (h : ∀ j, j < 8 → rd j = rd' j) (k : Nat) (s e : Int) :
    zOuter rd k s e = zOuter rd' k s e := by
  induction k generalizing s e with
  | zero => rfl
  | succ k ih =>
    unfold zOuter
    simp only [zInner_congr rd rd' h, ih]

theorem ite_nz (a b : UInt8) :
    (if a = 0 then Outcome.ok (b != 0) else Outcome.ok true) = Outcome.ok (a != 0 || b != 0) := by
  by_cases h : a = 0 <;> simp [h]

theorem groupNonZero16 (a0 a1 a2 a3 a4 a5 a6 a7 a8 a9 a10 a11 a12 a13 a14 a15 : UInt8) (j : Nat) (hj : j < 8) :
    groupNonZero [a0, a1, a2, a3, a4, a5, a6, a7, a8, a9, a10, a11, a12, a13, a14, a15] j =
      rdB [nz a0 a1, nz a2 a3, nz a4 a5, nz a6 a7, nz a8 a9, nz a10 a11, nz a12 a13, nz a14 a15] j := by
  have : j = 0 ∨ j = 1 ∨ j = 2 ∨ j = 3 ∨ j = 4 ∨ j = 5 ∨ j = 6 ∨ j = 7 := by omega
  rcases this with rfl | rfl | rfl | rfl | rfl | rfl | rfl | rfl <;>
    simp [groupNonZero, idx, rdB, nz, ite_nz]

/-- the code's `(startZ, endZ)` for a reference choice -/
def enc : Option (Nat × Nat) → Int × Int
  | none => (-1, -1)
  | some (s, n) => ((s : Int), (s : Int) + (n : Int) - 1)

def patt (z : List Bool) : List Nat := z.map (fun b => if b then 1 else 0)

set_option maxRecDepth 1000000 in
theorem search_all : ∀ b0 b1 b2 b3 b4 b5 b6 b7 : Bool,
    zOuter (rdB [b0, b1, b2, b3, b4, b5, b6, b7]) 8 (-1) (-1) = .ok (enc (bestRun (patt [b0, b1, b2, b3, b4, b5, b6, b7]))) := by
  decide

def validB : Option (Nat × Nat) → Bool
  | none => true
  | some (s, n) => decide (2 ≤ n ∧ s + n ≤ 8)

set_option maxRecDepth 1000000 in
theorem valid_all' : ∀ b0 b1 b2 b3 b4 b5 b6 b7 : Bool,
    validB (bestRun (patt [b0, b1, b2, b3, b4, b5, b6, b7])) = true := by decide

theorem valid_all (b0 b1 b2 b3 b4 b5 b6 b7 : Bool) (s n : Nat)
    (h : bestRun (patt [b0, b1, b2, b3, b4, b5, b6, b7]) = some (s, n)) : 2 ≤ n ∧ s + n ≤ 8 := by
  have := valid_all' b0 b1 b2 b3 b4 b5 b6 b7
  rw [h] at this
  simpa [validB] using this

def sgn (x : Nat) : Nat := if x = 0 then 0 else 1

theorem zerosAtHead_map (g : List Nat) : zerosAtHead (g.map sgn) = zerosAtHead g := by
  induction g with
  | nil => rfl
  | cons x t ih =>
    cases x with
    | zero => simp [zerosAtHead, sgn, ih]
    | succ x => simp [zerosAtHead, sgn]

theorem bestRun_map (g : List Nat) : bestRun (g.map sgn) = bestRun g := by
  unfold bestRun
  rw [List.length_map]
  congr 1
  funext best i
  rw [← List.map_drop, zerosAtHead_map]

theorem u8_ne_zero (a : UInt8) : (a != 0) = decide (a.toNat ≠ 0) := by
  by_cases h : a = 0
  · subst h; rfl
  · have : a.toNat ≠ 0 := fun h0 => h (UInt8.toNat_inj.mp (by simpa using h0))
    simp [h, this]

theorem sgn_nz (a b : UInt8) : sgn (a.toNat * 256 + b.toNat) = if nz a b then 1 else 0 := by
  unfold sgn nz
  rw [u8_ne_zero a, u8_ne_zero b]
  by_cases ha : a.toNat = 0
  · by_cases hb : b.toNat = 0
    · simp [ha, hb]
    · simp [ha, hb]
  · simp [ha]
    omega

theorem fields16 (a0 a1 a2 a3 a4 a5 a6 a7 a8 a9 a10 a11 a12 a13 a14 a15 : UInt8) :
    fields [a0, a1, a2, a3, a4, a5, a6, a7, a8, a9, a10, a11, a12, a13, a14, a15] =
      [a0.toNat * 256 + a1.toNat, a2.toNat * 256 + a3.toNat, a4.toNat * 256 + a5.toNat, a6.toNat * 256 + a7.toNat,
       a8.toNat * 256 + a9.toNat, a10.toNat * 256 + a11.toNat, a12.toNat * 256 + a13.toNat, a14.toNat * 256 + a15.toNat] := rfl

theorem bestRun16 (a0 a1 a2 a3 a4 a5 a6 a7 a8 a9 a10 a11 a12 a13 a14 a15 : UInt8) :
    bestRun (fields [a0, a1, a2, a3, a4, a5, a6, a7, a8, a9, a10, a11, a12, a13, a14, a15]) =
      bestRun (patt [nz a0 a1, nz a2 a3, nz a4 a5, nz a6 a7, nz a8 a9, nz a10 a11, nz a12 a13, nz a14 a15]) := by
  rw [← bestRun_map, fields16]
  simp only [List.map, sgn_nz, patt]

theorem search_eq (a0 a1 a2 a3 a4 a5 a6 a7 a8 a9 a10 a11 a12 a13 a14 a15 : UInt8) :
    zOuter (groupNonZero [a0, a1, a2, a3, a4, a5, a6, a7, a8, a9, a10, a11, a12, a13, a14, a15]) 8 (-1) (-1) =
      .ok (enc (bestRun (fields [a0, a1, a2, a3, a4, a5, a6, a7, a8, a9, a10, a11, a12, a13, a14, a15]))) := by
  rw [zOuter_congr _ _ (groupNonZero16 a0 a1 a2 a3 a4 a5 a6 a7 a8 a9 a10 a11 a12 a13 a14 a15), bestRun16]
  exact search_all _ _ _ _ _ _ _ _

theorem bestRun_valid (a0 a1 a2 a3 a4 a5 a6 a7 a8 a9 a10 a11 a12 a13 a14 a15 : UInt8) (s n : Nat)
    (h : bestRun (fields [a0, a1, a2, a3, a4, a5, a6, a7, a8, a9, a10, a11, a12, a13, a14, a15]) = some (s, n)) :
    2 ≤ n ∧ s + n ≤ 8 := by
  rw [bestRun16] at h
  exact valid_all _ _ _ _ _ _ _ _ s n h

/-! ### IPv6: what the loop writes is the RFC 5952 text (plus the scratch colon) -/

/-- the tokens the second loop writes for a reference choice `r` of the run -/
def toksOf (r : Option (Nat × Nat)) : List (Option Nat) :=
  toks (if (enc r).2 = (enc r).1 then 99 else (enc r).1) (enc r).2 8

/-- body of `Spec.Rfc5952.text` for a given choice -/
def body (r : Option (Nat × Nat)) (g : List Nat) : Bytes :=
  match r with
  | none => colon.intercalate (g.map hexField)
  | some (s, n) =>
    colon.intercalate ((g.take s).map hexField) ++ [0x3a, 0x3a] ++ colon.intercalate ((g.drop (s + n)).map hexField)

theorem text_eq_body (g : List Nat) : text g = body (bestRun g) g := by
  unfold text body
  cases bestRun g with
  | none => rfl
  | some p => rfl

set_option maxRecDepth 100000 in
theorem render_cases (ip : Bytes) (g0 g1 g2 g3 g4 g5 g6 g7 : Nat) (hf : fields ip = [g0, g1, g2, g3, g4, g5, g6, g7])
    (r : Option (Nat × Nat)) (hr : r = none ∨ ∃ s n, r = some (s, n) ∧ 2 ≤ n ∧ s + n ≤ 8) :
    (toksOf r).flatMap (rend ip) =
      body r [g0, g1, g2, g3, g4, g5, g6, g7] ++ (if (enc r).2 < 7 then [0x3a] else []) := by
  have fl : ∀ i, fld ip i = [g0, g1, g2, g3, g4, g5, g6, g7][i]?.getD 0 := by intro i; simp [fld, hf]
  rcases hr with rfl | ⟨s, n, rfl, h2, h8⟩
  · simp [toksOf, enc, toks, rend, fl, body, List.intercalate, colon]
  · have hs : s = 0 ∨ s = 1 ∨ s = 2 ∨ s = 3 ∨ s = 4 ∨ s = 5 ∨ s = 6 := by omega
    have hn : n = 2 ∨ n = 3 ∨ n = 4 ∨ n = 5 ∨ n = 6 ∨ n = 7 ∨ n = 8 := by omega
    rcases hs with rfl | rfl | rfl | rfl | rfl | rfl | rfl <;>
      rcases hn with rfl | rfl | rfl | rfl | rfl | rfl | rfl <;>
      first
        | omega
        | simp [toksOf, enc, toks, rend, fl, body, List.intercalate, colon]

theorem list16 (ip : Bytes) (h : ip.length = 16) :
    ∃ a0 a1 a2 a3 a4 a5 a6 a7 a8 a9 a10 a11 a12 a13 a14 a15, ip = [a0, a1, a2, a3, a4, a5, a6, a7, a8, a9, a10, a11, a12, a13, a14, a15] := by
  match ip, h with
  | [a0, a1, a2, a3, a4, a5, a6, a7, a8, a9, a10, a11, a12, a13, a14, a15], _ =>
    exact ⟨a0, a1, a2, a3, a4, a5, a6, a7, a8, a9, a10, a11, a12, a13, a14, a15, rfl⟩

/-- **appendIP6 = RFC 5952** for every 16-byte address: with room for the text and one scratch
    byte, the call succeeds, advances the cursor by the length of the text, and the text written
    is `rfc5952 ip` (the buffer beyond the cursor may hold the scratch colon: `SameText`). -/
theorem appendIP6_good (l : Line) (acc ip : Bytes) (hip : ip.length = 16)
    (h : l.idx + acc.length + (rfc5952 ip).length + 1 ≤ bufSize) :
    ∃ l', SameText l' l ∧ appendIP6 (emit l acc) ip = .ok (emit l' (acc ++ rfc5952 ip)) := by
  obtain ⟨a0, a1, a2, a3, a4, a5, a6, a7, a8, a9, a10, a11, a12, a13, a14, a15, rfl⟩ := list16 ip hip
  have hv := bestRun_valid a0 a1 a2 a3 a4 a5 a6 a7 a8 a9 a10 a11 a12 a13 a14 a15
  have hs := search_eq a0 a1 a2 a3 a4 a5 a6 a7 a8 a9 a10 a11 a12 a13 a14 a15
  have hf := fields16 a0 a1 a2 a3 a4 a5 a6 a7 a8 a9 a10 a11 a12 a13 a14 a15
  generalize hipd : [a0, a1, a2, a3, a4, a5, a6, a7, a8, a9, a10, a11, a12, a13, a14, a15] = ip at *
  generalize hr : bestRun (fields ip) = r at *
  have hvalid : r = none ∨ ∃ s n, r = some (s, n) ∧ 2 ≤ n ∧ s + n ≤ 8 := by
    cases r with
    | none => exact Or.inl rfl
    | some p => exact Or.inr ⟨p.1, p.2, rfl, hv p.1 p.2 rfl⟩
  have hc := render_cases ip _ _ _ _ _ _ _ _ hf r hvalid
  have ht : rfc5952 ip = body r (fields ip) := by unfold rfc5952; rw [text_eq_body, hr]
  rw [← hf, ← ht] at hc
  unfold appendIP6
  rw [if_neg (by simp [hip]), hs]
  simp only [Outcome.bind_ok]
  unfold toksOf at hc
  by_cases he : (enc r).2 < 7
  · rw [if_pos he] at hc
    rw [ip6Loop_emit ip hip _ _ 8 (Nat.le_refl _) l acc (by rw [hc]; room)]
    simp only [Outcome.bind_ok, if_pos he, hc, ← List.append_assoc]
    exact decIdx_scratch l _ _ (by room)
  · rw [if_neg he] at hc
    rw [ip6Loop_emit ip hip _ _ 8 (Nat.le_refl _) l acc (by rw [hc]; room)]
    simp only [Outcome.bind_ok, if_neg he, hc, List.append_nil, Outcome.pure_eq]
    exact ⟨l, SameText.refl l, rfl⟩

/-! ### net/netip mirror = RFC 5952 -/

theorem groups16_eq (a : Bytes) : groups16 a = fields a := by
  fun_induction groups16 a with
  | case1 hi lo rest ih => simp [fields, ih]
  | case2 a h =>
    match a with
    | [] => rfl
    | [x] => rfl
    | x :: y :: r => exact absurd rfl (h x y r)

theorem netipDigit_eq (n : Nat) : netipDigit n = hexChar n := rfl

theorem netipHex_eq (x : Nat) (hx : x < 65536) : netipHex x = hexField x := by
  unfold netipHex hexField
  have : hexFixed 4 x = [hexChar (x / 4096), hexChar (x / 256 % 16), hexChar (x / 16 % 16), hexChar (x % 16)] := by
    simp [hexFixed, Nat.div_div_eq_div_mul]
    rw [Nat.mod_eq_of_lt (by omega)]
  rw [this, dropLead4 _ _ _ _ (by omega) (by omega) (by omega) (by omega)]
  simp only [netipDigit_eq]
  by_cases c3 : x / 4096 = 0
  · by_cases c2 : x / 256 % 16 = 0
    · by_cases c1 : x / 16 % 16 = 0
      · simp [c3, c2, c1, show ¬ x ≥ 4096 by omega, show ¬ x ≥ 256 by omega, show ¬ x ≥ 16 by omega]
      · simp [c3, c2, c1, show ¬ x ≥ 4096 by omega, show ¬ x ≥ 256 by omega, show x ≥ 16 by omega]
    · simp [c3, c2, show ¬ x ≥ 4096 by omega, show x ≥ 256 by omega, show x ≥ 16 by omega]
  · simp [c3, show x ≥ 4096 by omega, show x ≥ 256 by omega, show x ≥ 16 by omega]

theorem netipRun_eq (g : List Nat) : netipRun g = zerosAtHead g := by
  induction g with
  | nil => rfl
  | cons x t ih => cases x <;> simp [netipRun, zerosAtHead, ih]

theorem netipZeros_map (g : List Nat) (i zs ze : Nat) : netipZeros (g.map sgn) i zs ze = netipZeros g i zs ze := by
  induction g generalizing i zs ze with
  | nil => rfl
  | cons x t ih =>
    simp only [List.map_cons, netipZeros]
    rw [show sgn x :: List.map sgn t = List.map sgn (x :: t) from rfl, netipRun_eq, zerosAtHead_map, ← netipRun_eq, ih, ih]

def encN : Option (Nat × Nat) → Nat × Nat
  | none => (255, 255)
  | some (s, n) => (s, s + n)

set_option maxRecDepth 1000000 in
theorem netipZeros_all : ∀ b0 b1 b2 b3 b4 b5 b6 b7 : Bool,
    netipZeros (patt [b0, b1, b2, b3, b4, b5, b6, b7]) 0 255 255 = encN (bestRun (patt [b0, b1, b2, b3, b4, b5, b6, b7])) := by
  decide

/-- `body` with an arbitrary field renderer -/
def bodyWith (f : Nat → Bytes) (r : Option (Nat × Nat)) (g : List Nat) : Bytes :=
  match r with
  | none => colon.intercalate (g.map f)
  | some (s, n) => colon.intercalate ((g.take s).map f) ++ [0x3a, 0x3a] ++ colon.intercalate ((g.drop (s + n)).map f)

set_option maxRecDepth 100000 in
theorem netipLoop_cases (g0 g1 g2 g3 g4 g5 g6 g7 : Nat)
    (r : Option (Nat × Nat)) (hr : r = none ∨ ∃ s n, r = some (s, n) ∧ 2 ≤ n ∧ s + n ≤ 8) :
    netipLoop [g0, g1, g2, g3, g4, g5, g6, g7] 0 (encN r).1 (encN r).2 =
      bodyWith netipHex r [g0, g1, g2, g3, g4, g5, g6, g7] := by
  rcases hr with rfl | ⟨s, n, rfl, h2, h8⟩
  · simp [encN, netipLoop, bodyWith, List.intercalate, colon, cCOLON]
  · have hs : s = 0 ∨ s = 1 ∨ s = 2 ∨ s = 3 ∨ s = 4 ∨ s = 5 ∨ s = 6 := by omega
    have hn : n = 2 ∨ n = 3 ∨ n = 4 ∨ n = 5 ∨ n = 6 ∨ n = 7 ∨ n = 8 := by omega
    rcases hs with rfl | rfl | rfl | rfl | rfl | rfl | rfl <;>
      rcases hn with rfl | rfl | rfl | rfl | rfl | rfl | rfl <;>
      first
        | omega
        | simp [encN, netipLoop, bodyWith, List.intercalate, colon, cCOLON]

theorem bodyWith_congr (f f' : Nat → Bytes) (r : Option (Nat × Nat)) (g : List Nat) (h : ∀ x, x ∈ g → f x = f' x) :
    bodyWith f r g = bodyWith f' r g := by
  unfold bodyWith
  cases r with
  | none => simp only []; rw [List.map_congr_left h]
  | some p =>
    simp only []
    rw [List.map_congr_left (fun x hx => h x (List.mem_of_mem_take hx)),
      List.map_congr_left (fun x hx => h x (List.mem_of_mem_drop hx))]

theorem fields_lt (a : Bytes) : ∀ x, x ∈ fields a → x < 65536 := by
  fun_induction fields a with
  | case1 hi lo rest ih =>
    intro x hx
    rcases List.mem_cons.mp hx with rfl | hx
    · have := UInt8.toNat_lt hi; have := UInt8.toNat_lt lo; omega
    · exact ih x hx
  | case2 a h => intro x hx; simp at hx

theorem mapped_eq (a : Bytes) (h : a.length = 16) : is4In6 a = isMapped a := by
  obtain ⟨a0, a1, a2, a3, a4, a5, a6, a7, a8, a9, a10, a11, a12, a13, a14, a15, rfl⟩ := list16 a h
  simp [is4In6, isMapped]
  rw [Bool.eq_iff_iff]
  simp [and_assoc]

/-- **the net/netip text (what `IP()` appends) is the reference text**: dotted IPv4, RFC 5952
    IPv6, `::ffff:a.b.c.d` for IPv4-mapped addresses -/
theorem netipText_eq (a : Bytes) (h : a.length = 4 ∨ a.length = 16) : netipText a = addrText a := by
  unfold netipText addrText
  rcases h with h | h
  · rw [if_pos h, if_pos h]
    match a, h with
    | [a, b, c, d], _ => exact netipText4_eq a b c d
  · have h4 : ¬ a.length = 4 := by omega
    rw [if_neg h4, if_neg h4, if_pos h, mapped_eq a h]
    by_cases hm : isMapped a = true
    · rw [if_pos hm, if_pos hm]
      obtain ⟨a0, a1, a2, a3, a4, a5, a6, a7, a8, a9, a10, a11, a12, a13, a14, a15, rfl⟩ := list16 a h
      simp only [List.drop_succ_cons, List.drop_zero, netipText4_eq]; rfl
    · rw [if_neg hm, if_neg hm]
      obtain ⟨a0, a1, a2, a3, a4, a5, a6, a7, a8, a9, a10, a11, a12, a13, a14, a15, rfl⟩ := list16 a h
      have hv := bestRun_valid a0 a1 a2 a3 a4 a5 a6 a7 a8 a9 a10 a11 a12 a13 a14 a15
      have hb := bestRun16 a0 a1 a2 a3 a4 a5 a6 a7 a8 a9 a10 a11 a12 a13 a14 a15
      have hf := fields16 a0 a1 a2 a3 a4 a5 a6 a7 a8 a9 a10 a11 a12 a13 a14 a15
      have hz : netipZeros (fields [a0, a1, a2, a3, a4, a5, a6, a7, a8, a9, a10, a11, a12, a13, a14, a15]) 0 255 255 =
          encN (bestRun (fields [a0, a1, a2, a3, a4, a5, a6, a7, a8, a9, a10, a11, a12, a13, a14, a15])) := by
        rw [← netipZeros_map, hb, hf]
        simp only [List.map, sgn_nz]
        exact netipZeros_all _ _ _ _ _ _ _ _
      have hlt := fields_lt [a0, a1, a2, a3, a4, a5, a6, a7, a8, a9, a10, a11, a12, a13, a14, a15]
      generalize hipd : [a0, a1, a2, a3, a4, a5, a6, a7, a8, a9, a10, a11, a12, a13, a14, a15] = ip at *
      generalize hr : bestRun (fields ip) = r at *
      have hvalid : r = none ∨ ∃ s n, r = some (s, n) ∧ 2 ≤ n ∧ s + n ≤ 8 := by
        cases r with
        | none => exact Or.inl rfl
        | some p => exact Or.inr ⟨p.1, p.2, rfl, hv p.1 p.2 rfl⟩
      rw [groups16_eq]
      dsimp only
      rw [hz]
      rw [hf, netipLoop_cases _ _ _ _ _ _ _ _ r hvalid, ← hf,
        bodyWith_congr netipHex hexField r _ (fun x hx => netipHex_eq x (hlt x hx))]
      unfold rfc5952
      rw [text_eq_body, hr]
      rfl

/-! ### IP (netip.Addr) and IPSlice (net.IP) -/

theorem ipF_emit (l : Line) (acc name a : Bytes)
    (h : l.idx + acc.length + (renderField (.ip name a)).length ≤ bufSize) :
    ipF (emit l acc) name a = .ok (emit l (acc ++ renderField (.ip name a))) := by
  simp only [renderField, named] at h ⊢
  unfold ipF
  by_cases hv : a.length = 4 ∨ a.length = 16
  · rw [← netipText_eq a hv] at h ⊢
    simp (disch := room) only [head_emit, Outcome.bind_ok]
    simp only [if_pos hv]
    have c1 : (emit l (acc ++ ([32] ++ name ++ [61]))).idx ≤ bufSize := by simp only [emit_idx]; room
    have c2 : (emit l (acc ++ ([32] ++ name ++ [61]))).idx + (netipText a).length ≤ bufSize := by simp only [emit_idx]; room
    rw [if_pos c1, if_pos c2]
    simp only [Outcome.pure_eq]
    show Outcome.ok (emit (emit l _) (netipText a)) = _
    rw [emit_emit _ _ _ (by room)]
    simp
  · have e : addrText a = Spec.Render.sNil := by
      unfold addrText; rw [if_neg (fun h4 => hv (Or.inl h4)), if_neg (fun h16 => hv (Or.inr h16))]
    rw [e] at h ⊢
    simp (disch := room) only [head_emit, Outcome.bind_ok]
    simp only [if_neg hv]
    simp (disch := room) only [copyIn_emit, List.append_assoc]
    rfl

theorem to4_eq (a : Bytes) : to4 a = if a.length = 4 then some a else if is4In6 a then some (a.drop 12) else none := by
  unfold to4 is4In6
  by_cases h4 : a.length = 4
  · simp [h4]
  · simp only [h4, if_false]
    by_cases c : a.length = 16 ∧ ((a.take 10).all (· == 0)) = true ∧ a[10]? = some 0xff ∧ a[11]? = some 0xff
    · rw [if_pos c, if_pos (by simpa using c)]
    · rw [if_neg c, if_neg (by simpa using c)]

theorem ipAny_good (l : Line) (acc a : Bytes)
    (h : l.idx + acc.length + (ipSliceText (some a)).length + 1 ≤ bufSize) :
    ∃ l', SameText l' l ∧ ipAny (emit l acc) a = .ok (emit l' (acc ++ ipSliceText (some a))) := by
  unfold ipAny
  simp only [ipSliceText] at h ⊢
  rw [to4_eq]
  by_cases h4 : a.length = 4
  · rw [if_pos h4] at h ⊢
    simp only [if_pos h4]
    match a, h4 with
    | [x, y, z, w], _ =>
      exact ⟨l, SameText.refl l, dotted4_emit _ _ _ _ _ _ (by room)⟩
  · rw [if_neg h4] at h ⊢
    simp only [if_neg h4]
    by_cases h16 : a.length = 16
    · rw [if_pos h16, ← mapped_eq a h16] at h ⊢
      by_cases hm : is4In6 a = true
      · rw [if_pos hm] at h ⊢
        simp only [if_pos hm]
        obtain ⟨a0, a1, a2, a3, a4, a5, a6, a7, a8, a9, a10, a11, a12, a13, a14, a15, rfl⟩ := list16 a h16
        simp only [List.drop_succ_cons, List.drop_zero] at h ⊢
        exact ⟨l, SameText.refl l, dotted4_emit _ _ _ _ _ _ (by room)⟩
      · rw [if_neg hm] at h ⊢
        simp only [if_neg hm]
        exact appendIP6_good l acc a h16 (by room)
    · rw [if_neg h16] at h ⊢
      have : is4In6 a = false := by unfold is4In6; simp [h16]
      simp only [this, Bool.false_eq_true, if_false]
      refine ⟨l, SameText.refl l, ?_⟩
      unfold appendIP6
      rw [if_pos h16]
      simp (disch := room) only [copyIn_emit]
      rfl

theorem ipSlice_good (l : Line) (acc name : Bytes) (v : Option Bytes)
    (h : l.idx + acc.length + (renderField (.ipSlice name v)).length + 1 ≤ bufSize) :
    ∃ l', SameText l' l ∧ ipSlice (emit l acc) name v = .ok (emit l' (acc ++ renderField (.ipSlice name v))) := by
  simp only [renderField, named] at h ⊢
  unfold ipSlice
  simp (disch := room) only [head_emit, Outcome.bind_ok]
  cases v with
  | none =>
    simp only [ipSliceText] at h ⊢
    refine ⟨l, SameText.refl l, ?_⟩
    simp (disch := room) only [copyIn_emit, List.append_assoc]
    rfl
  | some a =>
    obtain ⟨l', hs, he⟩ := ipAny_good l (acc ++ ([32] ++ name ++ [61])) a (by room)
    exact ⟨l', hs, by simp only [List.append_assoc] at he ⊢; exact he⟩

/-! ### Logger.Msg prefix -/

theorem sModule_drop : ∀ k, k ≤ 6 → sModule.drop k = List.replicate (6 - k) 0x20 ++ [0x3a] := by decide

theorem loggerModule_eq (m : Bytes) : loggerModule m = moduleCol m := by
  unfold loggerModule moduleCol
  by_cases hm : m = []
  · subst hm; rfl
  · rw [if_neg hm]
    unfold splice
    have hl : (m.take 6).length = min 6 m.length := List.length_take
    have : 0 + (m.take 6).length ≤ sModule.length := by rw [hl]; simp [sModule]; omega
    rw [if_pos this]
    simp only [List.take_zero, List.nil_append, Nat.zero_add]
    rw [sModule_drop _ (by rw [hl]; omega), hl]
    have : 6 - min 6 m.length = 6 - m.length := by omega
    rw [this]
    simp

theorem moduleCol_length (m : Bytes) : (moduleCol m).length = 7 := by
  simp [moduleCol]; omega

theorem appendMsg_emit (l : Line) (acc m : Bytes) (h : l.idx + acc.length + (msgText m).length ≤ bufSize) :
    appendMsg (emit l acc) m = .ok (emit l (acc ++ msgText m)) := by
  unfold appendMsg msgText at *
  by_cases hm : m = []
  · simp [hm]
  · rw [if_neg hm] at h ⊢
    simp only [quoted] at h ⊢
    simp (disch := room) only [appendByte_emit, copyIn_emit, Outcome.bind_ok, List.append_assoc]
    simp [hm, cSP, cQUOTE]

theorem linePrefix_eq (module m : Bytes) : linePrefix module m = moduleCol module ++ msgText m := by
  unfold linePrefix; split <;> simp_all

theorem msg_emit (b0 : Buf) (module m : Bytes) (h : (linePrefix module m).length ≤ bufSize) :
    msg b0 module m = .ok (emit ⟨b0, 0⟩ (linePrefix module m)) := by
  rw [linePrefix_eq] at h ⊢
  unfold msg copyTo
  rw [if_pos (by decide)]
  have hl := moduleCol_length module
  simp only [Outcome.bind_ok, loggerModule_eq, Nat.sub_zero]
  rw [List.take_of_length_le (by omega)]
  have : (⟨b0.splice 0 (moduleCol module), 7⟩ : Line) = emit ⟨b0, 0⟩ (moduleCol module) := by
    simp [emit, hl]
  rw [this, appendMsg_emit _ _ _ (by simpa using h)]

/-! ### Module / newModule -/

theorem splice_over (b : Bytes) (i : Nat) (S T : Bytes) (hT : T.length ≤ S.length) (h : i + S.length ≤ b.length) :
    splice (splice b i S) i T = splice b i (T ++ S.drop T.length) := by
  apply List.ext_getElem?
  intro k
  have hl := splice_length b i S
  have hlen : (T ++ S.drop T.length).length = S.length := by simp; omega
  rw [getElem?_splice _ _ _ (by rw [hl]; omega), getElem?_splice _ _ _ h, getElem?_splice _ _ _ (by rw [hlen]; exact h), hlen]
  by_cases h1 : k < i
  · simp [h1]
  · by_cases h2 : k < i + T.length
    · simp [h1, h2, show k < i + S.length by omega, List.getElem?_append_left (show k - i < T.length by omega)]
    · by_cases h3 : k < i + S.length
      · simp only [h1, h2, h3, if_false, if_true]
        rw [List.getElem?_append_right (by omega), List.getElem?_drop]
        congr 1; omega
      · simp [h1, h2, h3]

theorem moduleCol_eq (m : Bytes) : moduleCol m = m.take 6 ++ sModule.drop (m.take 6).length := by
  unfold moduleCol
  have hl : (m.take 6).length = min 6 m.length := List.length_take
  rw [sModule_drop _ (by rw [hl]; omega), hl]
  have : 6 - min 6 m.length = 6 - m.length := by omega
  rw [this]; simp

theorem newModule_eq (L : Line) (name m : Bytes) (hn : name ≠ []) (h : L.idx + 7 ≤ bufSize) :
    newModule L name m = appendMsg (emit L (moduleCol name)) m := by
  unfold newModule
  rw [if_neg hn]
  have hc := moduleCol_length name
  unfold copyTo
  rw [if_pos ⟨by omega, Nat.le_refl _⟩]
  simp only [Outcome.bind_ok]
  rw [if_pos ⟨by omega, by omega⟩]
  simp only [Outcome.bind_ok, Outcome.pure_eq]
  have e1 : sModule.take (bufSize - L.idx) = sModule := List.take_of_length_le (by simp [sModule]; omega)
  have e2 : L.idx + 6 - L.idx = 6 := by omega
  rw [e1, e2]
  congr 1
  simp only [emit, hc]
  congr 1
  apply Buf.ext
  show splice (splice _ _ sModule) _ (name.take 6) = splice _ _ (moduleCol name)
  rw [moduleCol_eq]
  exact splice_over _ _ _ _ (by simp [sModule]; omega) (by simp [L.buf.2, sModule]; omega)

theorem newModule_emit (l : Line) (acc name m : Bytes)
    (h : l.idx + acc.length + (moduleText name m).length ≤ bufSize) :
    newModule (emit l acc) name m = .ok (emit l (acc ++ moduleText name m)) := by
  unfold moduleText at *
  by_cases hn : name = []
  · rw [if_pos hn] at h ⊢
    unfold newModule
    rw [if_pos hn]
    simp only [Outcome.pure_eq, Outcome.bind_ok, List.nil_append] at h ⊢
    exact appendMsg_emit l acc m h
  · rw [if_neg hn] at h ⊢
    have hc := moduleCol_length name
    rw [newModule_eq _ _ _ hn (by simp only [emit_idx]; room), emit_emit _ _ _ (by room), appendMsg_emit _ _ _ (by room)]
    simp

theorem moduleF_emit (l : Line) (acc name m : Bytes)
    (h : l.idx + acc.length + (renderField (.module name m)).length ≤ bufSize) :
    moduleF (emit l acc) name m = .ok (emit l (acc ++ renderField (.module name m))) := by
  simp only [renderField] at h ⊢
  unfold moduleF
  rw [appendByte_emit _ _ _ (by room)]
  simp only [Outcome.bind_ok]
  rw [newModule_emit _ _ _ _ (by room)]
  simp [cLF]

/-! ### bounded writes (no exact text): used by the array theorems -/

theorem appendByte_ok (l : Line) (v : UInt8) (h : l.idx < bufSize) :
    ∃ l', appendByte l v = .ok l' ∧ l'.idx = l.idx + 1 := by
  unfold appendByte; rw [if_pos h]; exact ⟨_, rfl, rfl⟩

theorem copyIn_ok (l : Line) (s : Bytes) (h : l.idx ≤ bufSize) :
    ∃ l', copyIn l s = .ok l' ∧ l'.idx = l.idx + min s.length (bufSize - l.idx) := by
  unfold copyIn copyTo; rw [if_pos ⟨h, Nat.le_refl _⟩]; exact ⟨_, rfl, rfl⟩

theorem writeHex_ok (l : Line) (v : UInt8) (h : l.idx + 2 ≤ bufSize) :
    ∃ l', writeHex l v = .ok l' ∧ l'.idx = l.idx + 2 := by
  unfold writeHex
  obtain ⟨l1, e1, i1⟩ := appendByte_ok l (nibbleChar (v >>> 4)) (by omega)
  obtain ⟨l2, e2, i2⟩ := appendByte_ok l1 (nibbleChar (v &&& 0x0f)) (by omega)
  exact ⟨l2, by rw [e1]; simpa using e2, by omega⟩

theorem stringArrayLoop_ok (vs : List Bytes) (l : Line) (h : l.idx ≤ bufSize) :
    ∃ l', stringArrayLoop l vs = .ok l' ∧ l.idx ≤ l'.idx ∧ l'.idx ≤ bufSize := by
  induction vs generalizing l with
  | nil => exact ⟨l, rfl, Nat.le_refl _, h⟩
  | cons v rest ih =>
    unfold stringArrayLoop
    by_cases g : l.idx + v.length + 4 > bufSize
    · rw [if_pos g]; exact ⟨l, rfl, Nat.le_refl _, h⟩
    · rw [if_neg g]
      obtain ⟨l1, e1, i1⟩ := appendByte_ok l cQUOTE (by omega)
      obtain ⟨l2, e2, i2⟩ := copyIn_ok l1 v (by omega)
      have i2' : l2.idx = l1.idx + v.length := by rw [i2, Nat.min_eq_left (by omega)]
      obtain ⟨l3, e3, i3⟩ := appendByte_ok l2 cQUOTE (by omega)
      obtain ⟨l4, e4, i4⟩ := appendByte_ok l3 cCOMMA (by omega)
      obtain ⟨l5, e5, i5⟩ := appendByte_ok l4 cSP (by omega)
      obtain ⟨l', e', lo, hi⟩ := ih l5 (by omega)
      refine ⟨l', ?_, by omega, hi⟩
      simp only [e1, e2, e3, e4, e5, Outcome.bind_ok, e']

theorem head_ok (l : Line) (name : Bytes) (h : l.idx + name.length + 2 ≤ bufSize) :
    ∃ l', head l name = .ok l' ∧ l'.idx = l.idx + name.length + 2 := by
  unfold head
  obtain ⟨l1, e1, i1⟩ := appendByte_ok l cSP (by omega)
  obtain ⟨l2, e2, i2⟩ := copyIn_ok l1 name (by omega)
  have i2' : l2.idx = l1.idx + name.length := by rw [i2, Nat.min_eq_left (by omega)]
  obtain ⟨l3, e3, i3⟩ := appendByte_ok l2 cEQ (by omega)
  exact ⟨l3, by simp only [e1, e2, Outcome.bind_ok, e3], by omega⟩

/-- **StringArray never panics and never leaves the buffer**, whatever the line state and the
    array (no room condition at all: the guards of the code are sufficient) -/
theorem stringArray_safe (l : Line) (name : Bytes) (value : List Bytes) :
    ∃ l', stringArray l name value = .ok l' ∧ (l.idx ≤ bufSize → l'.idx ≤ bufSize) ∧ l.idx ≤ l'.idx := by
  unfold stringArray
  by_cases g : l.idx + name.length + 4 > bufSize
  · rw [if_pos g]; exact ⟨l, rfl, id, Nat.le_refl _⟩
  · rw [if_neg g]
    obtain ⟨l1, e1, i1⟩ := head_ok l name (by omega)
    obtain ⟨l2, e2, i2⟩ := appendByte_ok l1 cLB (by omega)
    simp only [e1, e2, Outcome.bind_ok]
    by_cases hv : value.length = 0
    · rw [if_pos hv]
      obtain ⟨l3, e3, i3⟩ := appendByte_ok l2 cRB (by omega)
      exact ⟨l3, e3, fun _ => by omega, by omega⟩
    · rw [if_neg hv]
      obtain ⟨l3, e3, lo3, hi3⟩ := stringArrayLoop_ok value l2 (by omega)
      have e4 : decIdx l3 = .ok ⟨l3.buf, l3.idx - 1⟩ := by unfold decIdx; rw [if_neg (by omega)]
      obtain ⟨l5, e5, i5⟩ := appendByte_ok ⟨l3.buf, l3.idx - 1⟩ cRB (by simp only []; omega)
      refine ⟨l5, by simp only [e3, e4, Outcome.bind_ok, e5], fun _ => ?_, ?_⟩
      · simp only [] at i5; omega
      · simp only [] at i5; omega

theorem byteArrayLoop_ok (vs : Bytes) (l : Line) (h : l.idx + 3 * vs.length ≤ bufSize) :
    ∃ l', byteArrayLoop l vs = .ok l' ∧ l'.idx = l.idx + 3 * vs.length := by
  induction vs generalizing l with
  | nil => exact ⟨l, rfl, by simp⟩
  | cons v rest ih =>
    unfold byteArrayLoop
    simp only [List.length_cons] at h
    obtain ⟨l1, e1, i1⟩ := writeHex_ok l v (by omega)
    obtain ⟨l2, e2, i2⟩ := appendByte_ok l1 cSP (by omega)
    obtain ⟨l', e', i'⟩ := ih l2 (by omega)
    exact ⟨l', by simp only [e1, e2, Outcome.bind_ok, e'], by simp only [List.length_cons]; omega⟩

/-- the part after the truncation decision: succeeds when the whole text has room -/
theorem byteArrayBody_ok (l : Line) (name value : Bytes) (t : Bool)
    (h : l.idx + name.length + 3 + 3 * value.length + (if value.length = 0 then 1 else 0) ≤ bufSize) :
    ∃ l', byteArrayBody l name value t = .ok l' ∧
      l'.idx = if t then bufSize - 1 else l.idx + name.length + 4 + 3 * value.length - (if value.length = 0 then 0 else 1) := by
  unfold byteArrayBody
  obtain ⟨l1, e1, i1⟩ := appendByte_ok l cSP (by omega)
  obtain ⟨l2, e2, i2⟩ := copyIn_ok l1 name (by omega)
  have i2' : l2.idx = l1.idx + name.length := by rw [i2, Nat.min_eq_left (by omega)]
  obtain ⟨l3, e3, i3⟩ := copyIn_ok l2 sEqLB (by omega)
  have i3' : l3.idx = l2.idx + 2 := by rw [i3, Nat.min_eq_left (by simp [sEqLB]; omega)]; rfl
  obtain ⟨l4, e4, i4⟩ := byteArrayLoop_ok value l3 (by split at h <;> omega)
  simp only [e1, e2, e3, e4, Outcome.bind_ok]
  by_cases hv : value.length = 0
  · rw [if_pos hv] at h
    simp only [hv, Nat.lt_irrefl, if_false, Outcome.pure_eq, Outcome.bind_ok, if_true]
    obtain ⟨l5, e5, i5⟩ := appendByte_ok l4 cRB (by omega)
    rw [e5]
    cases t
    · exact ⟨l5, rfl, by simp; omega⟩
    · exact ⟨_, rfl, by simp⟩
  · rw [if_neg hv] at h
    have e5 : decIdx l4 = .ok ⟨l4.buf, l4.idx - 1⟩ := by unfold decIdx; rw [if_neg (by omega)]
    simp only [show value.length > 0 by omega, if_true, e5, Outcome.bind_ok]
    obtain ⟨l6, e6, i6⟩ := appendByte_ok ⟨l4.buf, l4.idx - 1⟩ cRB (by simp only []; omega)
    rw [e6]
    simp only [] at i6
    cases t
    · exact ⟨l6, rfl, by simp [hv]; omega⟩
    · exact ⟨_, rfl, by simp⟩

/-- **ByteArray never panics and never leaves the buffer** (after the fix: before it,
    `index + len(name) ≥ 2038` gave a negative slice bound) -/
theorem byteArray_safe (l : Line) (name value : Bytes) :
    ∃ l', byteArray l name value = .ok l' ∧ (l.idx ≤ bufSize → l'.idx ≤ bufSize) := by
  unfold byteArray
  simp only []
  by_cases c1 : ((bufSize : Int) - l.idx - 1 - name.length - 2) ≤ (value.length : Int) * 3
  · rw [if_pos c1]
    by_cases c2 : ((bufSize : Int) - l.idx - 1 - name.length - 2) < 10
    · rw [if_pos c2]; exact ⟨l, rfl, id⟩
    · rw [if_neg c2]
      have hb : (bufSize : Int) = 2048 := rfl
      unfold copyTo
      rw [if_pos (by constructor <;> simp [bufSize])]
      simp only [Outcome.bind_ok]
      have hnn : (0 : Int) ≤ (bufSize : Int) - l.idx - 1 - name.length - 2 - 10 := by omega
      rw [Int.tdiv_eq_ediv_of_nonneg hnn]
      have hk1 : ¬ (((bufSize : Int) - l.idx - 1 - name.length - 2 - 10) / 3 < 0 ∨
          ((bufSize : Int) - l.idx - 1 - name.length - 2 - 10) / 3 > value.length) := by omega
      rw [if_neg hk1]
      have hlen : (value.take (((bufSize : Int) - l.idx - 1 - name.length - 2 - 10) / 3).toNat).length =
          (((bufSize : Int) - l.idx - 1 - name.length - 2 - 10) / 3).toNat := by
        rw [List.length_take]; omega
      obtain ⟨l', e', i'⟩ := byteArrayBody_ok ⟨_, l.idx⟩ name (value.take (((bufSize : Int) - l.idx - 1 - name.length - 2 - 10) / 3).toNat) true
        (by rw [hlen]; simp only []; split <;> omega)
      exact ⟨l', e', fun _ => by rw [i']; simp [bufSize]⟩
  · rw [if_neg c1]
    have hb : (bufSize : Int) = 2048 := rfl
    obtain ⟨l', e', i'⟩ := byteArrayBody_ok l name value false (by split <;> omega)
    refine ⟨l', e', fun _ => ?_⟩
    rw [i']; simp only [Bool.false_eq_true, if_false]
    split <;> omega

set_option maxRecDepth 100000 in
theorem body_length (g0 g1 g2 g3 g4 g5 g6 g7 : Nat)
    (r : Option (Nat × Nat)) (hr : r = none ∨ ∃ s n, r = some (s, n) ∧ 2 ≤ n ∧ s + n ≤ 8) :
    (body r [g0, g1, g2, g3, g4, g5, g6, g7]).length ≤ 39 := by
  have b0 := (hexField_length g0).2; have b1 := (hexField_length g1).2
  have b2 := (hexField_length g2).2; have b3 := (hexField_length g3).2
  have b4 := (hexField_length g4).2; have b5 := (hexField_length g5).2
  have b6 := (hexField_length g6).2; have b7 := (hexField_length g7).2
  rcases hr with rfl | ⟨s, n, rfl, h2, h8⟩
  · simp [body, List.intercalate, colon] <;> omega
  · have hs : s = 0 ∨ s = 1 ∨ s = 2 ∨ s = 3 ∨ s = 4 ∨ s = 5 ∨ s = 6 := by omega
    have hn : n = 2 ∨ n = 3 ∨ n = 4 ∨ n = 5 ∨ n = 6 ∨ n = 7 ∨ n = 8 := by omega
    rcases hs with rfl | rfl | rfl | rfl | rfl | rfl | rfl <;>
      rcases hn with rfl | rfl | rfl | rfl | rfl | rfl | rfl <;>
      first
        | omega
        | (simp [body, List.intercalate, colon] <;> omega)

/-- the longest RFC 5952 text has 39 bytes -/
theorem rfc5952_length (ip : Bytes) (hip : ip.length = 16) : (rfc5952 ip).length ≤ 39 := by
  obtain ⟨a0, a1, a2, a3, a4, a5, a6, a7, a8, a9, a10, a11, a12, a13, a14, a15, rfl⟩ := list16 ip hip
  have hv := bestRun_valid a0 a1 a2 a3 a4 a5 a6 a7 a8 a9 a10 a11 a12 a13 a14 a15
  unfold rfc5952
  rw [text_eq_body, fields16]
  apply body_length
  rw [← fields16]
  cases hb : bestRun (fields [a0, a1, a2, a3, a4, a5, a6, a7, a8, a9, a10, a11, a12, a13, a14, a15]) with
  | none => exact Or.inl rfl
  | some p => exact Or.inr ⟨p.1, p.2, rfl, hv p.1 p.2 hb⟩

theorem to4_length (ip ip4 : Bytes) (h : to4 ip = some ip4) : ip4.length = 4 := by
  rw [to4_eq] at h
  by_cases h4 : ip.length = 4
  · rw [if_pos h4] at h; cases h; exact h4
  · rw [if_neg h4] at h
    by_cases hm : is4In6 ip = true
    · rw [if_pos hm] at h; cases h
      have : ip.length = 16 := by unfold is4In6 at hm; simp at hm; exact hm.1
      simp [this]
    · rw [if_neg hm] at h; cases h

/-- one `IPArray` element with 40 bytes of room: no panic, at most 39 bytes written -/
theorem ipElem_ok (l : Line) (v : Option Bytes) (h : l.idx + 40 ≤ bufSize) :
    ∃ l', Model.Fastlog.ipElem l v = .ok l' ∧ l.idx ≤ l'.idx ∧ l'.idx ≤ l.idx + 39 := by
  unfold Model.Fastlog.ipElem ipAny
  have hl : emit l [] = l := emit_nil l (by omega)
  cases v with
  | none => exact ⟨l, rfl, Nat.le_refl _, by omega⟩
  | some ip =>
    simp only []
    cases h4 : to4 ip with
    | some ip4 =>
      simp only []
      have := to4_length ip ip4 h4
      match ip4, this with
      | [a, b, c, d], _ =>
        have hlen := ipv4_length a b c d
        have := dotted4_emit l [] a b c d (by simp; omega)
        rw [hl] at this
        exact ⟨_, this, by simp, by simp; omega⟩
    | none =>
      simp only []
      by_cases h16 : ip.length = 16
      · have hlen := rfc5952_length ip h16
        obtain ⟨l', hs, he⟩ := appendIP6_good l [] ip h16 (by simp; omega)
        rw [hl] at he
        exact ⟨_, he, by simp [hs.1], by simp [hs.1]; omega⟩
      · unfold appendIP6
        rw [if_pos h16]
        have := copyIn_emit l [] Model.Fastlog.sNil (by simp [Model.Fastlog.sNil]; omega)
        rw [hl] at this
        exact ⟨_, this, by simp, by simp [Model.Fastlog.sNil]⟩

theorem ipArrayLoop_ok (vs : List (Option Bytes)) (l : Line) (h : l.idx ≤ bufSize) :
    ∃ l', ipArrayLoop l vs = .ok l' ∧ l.idx ≤ l'.idx ∧ l'.idx ≤ bufSize := by
  induction vs generalizing l with
  | nil => exact ⟨l, rfl, Nat.le_refl _, h⟩
  | cons v rest ih =>
    unfold ipArrayLoop
    by_cases g : l.idx + 39 + 2 > bufSize
    · rw [if_pos g]; exact ⟨l, rfl, Nat.le_refl _, h⟩
    · rw [if_neg g]
      obtain ⟨l1, e1, lo1, hi1⟩ := ipElem_ok l v (by omega)
      obtain ⟨l2, e2, i2⟩ := appendByte_ok l1 cCOMMA (by omega)
      obtain ⟨l3, e3, i3⟩ := appendByte_ok l2 cSP (by omega)
      obtain ⟨l', e', lo, hi⟩ := ih l3 (by omega)
      refine ⟨l', ?_, by omega, hi⟩
      rw [e1]
      simp only [e2, e3, Outcome.bind_ok, e']

/-- **IPArray never panics and never leaves the buffer** (after the two fixes) -/
theorem ipArray_safe (l : Line) (name : Bytes) (value : List (Option Bytes)) :
    ∃ l', ipArray l name value = .ok l' ∧ (l.idx ≤ bufSize → l'.idx ≤ bufSize) ∧ l.idx ≤ l'.idx := by
  unfold ipArray
  by_cases g : l.idx + name.length + 4 > bufSize
  · rw [if_pos g]; exact ⟨l, rfl, id, Nat.le_refl _⟩
  · rw [if_neg g]
    obtain ⟨l1, e1, i1⟩ := head_ok l name (by omega)
    obtain ⟨l2, e2, i2⟩ := appendByte_ok l1 cLB (by omega)
    simp only [e1, e2, Outcome.bind_ok]
    by_cases hv : value.length = 0
    · rw [if_pos hv]
      obtain ⟨l3, e3, i3⟩ := appendByte_ok l2 cRB (by omega)
      exact ⟨l3, e3, fun _ => by omega, by omega⟩
    · rw [if_neg hv]
      obtain ⟨l3, e3, lo3, hi3⟩ := ipArrayLoop_ok value l2 (by omega)
      have e4 : decIdx l3 = .ok ⟨l3.buf, l3.idx - 1⟩ := by unfold decIdx; rw [if_neg (by omega)]
      obtain ⟨l5, e5, i5⟩ := appendByte_ok ⟨l3.buf, l3.idx - 1⟩ cRB (by simp only []; omega)
      refine ⟨l5, by simp only [e3, e4, Outcome.bind_ok, e5], fun _ => ?_, ?_⟩
      · simp only [] at i5; omega
      · simp only [] at i5; omega

/-! ### from the `emit` normal form to statements about cursor and text -/

/-- `r` is a successful call that advanced the cursor of `l` by `t.length` and appended `t` to its text -/
def Wrote (r : Outcome Line) (l : Line) (t : Bytes) : Prop :=
  ∃ l2, r = .ok l2 ∧ l2.idx = l.idx + t.length ∧ l2.text = l.text ++ t

theorem wrote_of_emit {r : Outcome Line} {l l' : Line} {t : Bytes} (hs : SameText l' l)
    (h : l.idx + t.length ≤ bufSize) (e : r = .ok (emit l' t)) : Wrote r l t :=
  ⟨emit l' t, e, by simp [hs.1], by rw [emit_text _ _ (by rw [hs.1]; exact h), hs.2]⟩

theorem emit_nil' (l : Line) (t : Bytes) (h : l.idx + t.length ≤ bufSize) : emit l [] = l :=
  emit_nil l (by omega)

/-! ### arrays that fit are rendered in full -/

theorem flatMap_sep {α : Type} (xs : List α) (f : α → Bytes) (sep : Bytes) (h : xs ≠ []) :
    xs.flatMap (fun x => f x ++ sep) = sep.intercalate (xs.map f) ++ sep := by
  induction xs with
  | nil => exact absurd rfl h
  | cons x t ih =>
    cases t with
    | nil => simp [List.intercalate]
    | cons y t' =>
      have := ih (by simp)
      simp only [List.flatMap_cons, List.map_cons] at this ⊢
      rw [this]
      simp [List.intercalate]

theorem byteArrayLoop_emit (vs : Bytes) (l : Line) (acc : Bytes)
    (h : l.idx + acc.length + 3 * vs.length ≤ bufSize) :
    byteArrayLoop (emit l acc) vs = .ok (emit l (acc ++ vs.flatMap (fun v => hex8 v.toNat ++ [0x20]))) := by
  induction vs generalizing acc with
  | nil => simp [byteArrayLoop]
  | cons v rest ih =>
    unfold byteArrayLoop
    simp only [List.length_cons] at h
    rw [writeHex_emit _ _ _ (by omega)]
    simp only [Outcome.bind_ok]
    have hl : (hex8 v.toNat).length = 2 := by rw [hex8_eq _ (UInt8.toNat_lt v)]; rfl
    rw [appendByte_emit _ _ _ (by simp [hl]; omega), Outcome.bind_ok, ih _ (by simp [hl]; omega)]
    simp [cSP]

theorem hexmap_length (vs : Bytes) : (vs.flatMap (fun v => hex8 v.toNat ++ [0x20])).length = 3 * vs.length := by
  induction vs with
  | nil => rfl
  | cons v t ih =>
    have hl : (hex8 v.toNat).length = 2 := by rw [hex8_eq _ (UInt8.toNat_lt v)]; rfl
    simp [hl, ih]; omega

theorem byteArray_good (l : Line) (acc name v : Bytes)
    (h : l.idx + acc.length + (renderField (.byteArray name v)).length + 1 ≤ bufSize) :
    ∃ l', SameText l' l ∧ byteArray (emit l acc) name v = .ok (emit l' (acc ++ renderField (.byteArray name v))) := by
  simp only [renderField, named] at h ⊢
  have hb : (bufSize : Int) = 2048 := rfl
  have hbn : bufSize = 2048 := rfl
  unfold byteArray byteArrayBody
  simp only [emit_idx]
  by_cases hv : v = []
  · subst hv
    simp only [List.map_nil, List.intercalate, List.intersperse, List.flatten_nil, List.length_append, List.length_cons,
      List.length_nil, List.append_nil] at h ⊢
    rw [if_neg (by omega)]
    simp (disch := room) only [appendByte_emit, copyIn_emit, Outcome.bind_ok, byteArrayLoop, Outcome.pure_eq, List.append_assoc]
    refine ⟨l, SameText.refl l, ?_⟩
    simp [cSP, sEqLB, cRB]
  · have hsep := flatMap_sep v (fun b => hex8 b.toNat) [0x20] hv
    have hml := hexmap_length v
    have hpos : 0 < v.length := List.length_pos_iff.mpr hv
    have hil : (([0x20] : Bytes).intercalate (v.map (fun b => hex8 b.toNat))).length + 1 = 3 * v.length := by
      rw [← hml, hsep]; simp
    simp only [List.length_append, List.length_cons, List.length_nil] at h
    rw [if_neg (by omega)]
    simp (disch := room) only [appendByte_emit, copyIn_emit, Outcome.bind_ok, List.append_assoc]
    rw [byteArrayLoop_emit _ _ _ (by room)]
    simp only [Outcome.bind_ok, hpos, if_true, hsep, ← List.append_assoc]
    obtain ⟨l', hs, he⟩ := decIdx_scratch l
      (acc ++ [cSP] ++ name ++ sEqLB ++ ([0x20] : Bytes).intercalate (v.map (fun b => hex8 b.toNat))) 0x20 (by room)
    rw [he]
    simp only [Outcome.bind_ok]
    rw [appendByte_emit _ _ _ (by rw [hs.1]; room)]
    simp only [Outcome.bind_ok, Bool.false_eq_true, if_false, Outcome.pure_eq]
    exact ⟨l', hs, by simp [cSP, sEqLB, cRB]⟩

theorem stringArrayLoop_emit (vs : List Bytes) (l : Line) (acc : Bytes)
    (h : l.idx + acc.length + (vs.flatMap (fun v => quoted v ++ [0x2c, 0x20])).length ≤ bufSize) :
    stringArrayLoop (emit l acc) vs = .ok (emit l (acc ++ vs.flatMap (fun v => quoted v ++ [0x2c, 0x20]))) := by
  induction vs generalizing acc with
  | nil => simp [stringArrayLoop]
  | cons v rest ih =>
    unfold stringArrayLoop
    simp only [List.flatMap_cons, quoted] at h ⊢
    rw [if_neg (by simp only [emit_idx]; room)]
    simp (disch := room) only [appendByte_emit, copyIn_emit, Outcome.bind_ok, List.append_assoc]
    have := ih (acc ++ ([cQUOTE] ++ (v ++ ([cQUOTE] ++ ([cCOMMA] ++ [cSP]))))) (by simp only [quoted] at *; room)
    simp only [quoted, List.append_assoc] at this
    rw [this]
    simp [cQUOTE, cCOMMA, cSP]

theorem stringArray_good (l : Line) (acc name : Bytes) (v : List Bytes)
    (h : l.idx + acc.length + (renderField (.stringArray name v)).length + 1 ≤ bufSize) :
    ∃ l', SameText l' l ∧ stringArray (emit l acc) name v = .ok (emit l' (acc ++ renderField (.stringArray name v))) := by
  simp only [renderField, named, listBody] at h ⊢
  unfold stringArray
  by_cases hv : v = []
  · subst hv
    simp only [List.map_nil, if_true, List.length_append, List.length_cons, List.length_nil] at h ⊢
    rw [if_neg (by simp only [emit_idx]; omega)]
    simp (disch := room) only [head_emit, appendByte_emit, Outcome.bind_ok, List.append_assoc]
    refine ⟨l, SameText.refl l, ?_⟩
    simp [cLB, cRB]
  · have hm : v.map quoted ≠ [] := by simpa using hv
    have hsep := flatMap_sep v quoted [0x2c, 0x20] hv
    have hpos : v.length ≠ 0 := by have := List.length_pos_iff.mpr hv; omega
    rw [if_neg hm] at h ⊢
    simp only [List.length_append, List.length_cons, List.length_nil] at h
    rw [if_neg (by simp only [emit_idx]; omega)]
    simp (disch := room) only [head_emit, appendByte_emit, Outcome.bind_ok, List.append_assoc]
    rw [if_neg hpos, stringArrayLoop_emit _ _ _ (by rw [hsep]; room)]
    simp only [Outcome.bind_ok, hsep]
    have e : acc ++ ([32] ++ (name ++ ([61] ++ [cLB]))) ++ (([0x2c, 0x20] : Bytes).intercalate (v.map quoted) ++ [0x2c, 0x20]) =
        (acc ++ ([32] ++ (name ++ ([61] ++ [cLB]))) ++ ([0x2c, 0x20] : Bytes).intercalate (v.map quoted) ++ [0x2c]) ++ [0x20] := by simp
    rw [e]
    obtain ⟨l', hs, he⟩ := decIdx_scratch l
      (acc ++ ([32] ++ (name ++ ([61] ++ [cLB]))) ++ ([0x2c, 0x20] : Bytes).intercalate (v.map quoted) ++ [0x2c]) 0x20 (by room)
    rw [he]
    simp only [Outcome.bind_ok]
    have i' : l'.idx = l.idx := hs.1
    rw [appendByte_emit _ _ _ (by rw [i']; room)]
    exact ⟨l', hs, by simp [cLB, cRB]⟩

theorem ipElem_good (l : Line) (acc : Bytes) (v : Option Bytes)
    (h : l.idx + acc.length + (Spec.Render.ipElem v).length + 1 ≤ bufSize) :
    ∃ l', SameText l' l ∧ Model.Fastlog.ipElem (emit l acc) v = .ok (emit l' (acc ++ Spec.Render.ipElem v)) := by
  cases v with
  | none => exact ⟨l, SameText.refl l, by simp [Model.Fastlog.ipElem, Spec.Render.ipElem]⟩
  | some a => exact ipAny_good l acc a h

theorem ipArrayLoop_good (vs : List (Option Bytes)) (l : Line) (acc : Bytes)
    (h : l.idx + acc.length + (vs.flatMap (fun v => Spec.Render.ipElem v ++ [0x2c, 0x20])).length + 39 ≤ bufSize) :
    ∃ l', SameText l' l ∧
      ipArrayLoop (emit l acc) vs = .ok (emit l' (acc ++ vs.flatMap (fun v => Spec.Render.ipElem v ++ [0x2c, 0x20]))) := by
  induction vs generalizing l acc with
  | nil => exact ⟨l, SameText.refl l, by simp [ipArrayLoop]⟩
  | cons v rest ih =>
    unfold ipArrayLoop
    simp only [List.flatMap_cons] at h ⊢
    rw [if_neg (by simp only [emit_idx]; room)]
    obtain ⟨l1, s1, e1⟩ := ipElem_good l acc v (by room)
    have i1 : l1.idx = l.idx := s1.1
    rw [e1]
    simp only [Outcome.bind_ok]
    simp (disch := (rw [i1]; room)) only [appendByte_emit, Outcome.bind_ok, List.append_assoc]
    obtain ⟨l2, s2, e2⟩ := ih l1 (acc ++ (Spec.Render.ipElem v ++ ([cCOMMA] ++ [cSP]))) (by rw [i1]; room)
    rw [e2]
    exact ⟨l2, s2.trans s1, by simp [cCOMMA, cSP]⟩

theorem ipArray_good (l : Line) (acc name : Bytes) (v : List (Option Bytes))
    (h : l.idx + acc.length + (renderField (.ipArray name v)).length + 41 ≤ bufSize) :
    ∃ l', SameText l' l ∧ ipArray (emit l acc) name v = .ok (emit l' (acc ++ renderField (.ipArray name v))) := by
  simp only [renderField, named, listBody] at h ⊢
  unfold ipArray
  by_cases hv : v = []
  · subst hv
    simp only [List.map_nil, if_true, List.length_append, List.length_cons, List.length_nil] at h ⊢
    rw [if_neg (by simp only [emit_idx]; omega)]
    simp (disch := room) only [head_emit, appendByte_emit, Outcome.bind_ok, List.append_assoc]
    refine ⟨l, SameText.refl l, ?_⟩
    simp [cLB, cRB]
  · have hm : v.map Spec.Render.ipElem ≠ [] := by simpa using hv
    have hsep := flatMap_sep v Spec.Render.ipElem [0x2c, 0x20] hv
    have hpos : v.length ≠ 0 := by have := List.length_pos_iff.mpr hv; omega
    rw [if_neg hm] at h ⊢
    simp only [List.length_append, List.length_cons, List.length_nil] at h
    rw [if_neg (by simp only [emit_idx]; omega)]
    simp (disch := room) only [head_emit, appendByte_emit, Outcome.bind_ok, List.append_assoc]
    rw [if_neg hpos]
    obtain ⟨l1, s1, e1⟩ := ipArrayLoop_good v l (acc ++ ([32] ++ (name ++ ([61] ++ [cLB])))) (by rw [hsep]; room)
    rw [e1]
    simp only [Outcome.bind_ok, hsep]
    have e : acc ++ ([32] ++ (name ++ ([61] ++ [cLB]))) ++ (([0x2c, 0x20] : Bytes).intercalate (v.map Spec.Render.ipElem) ++ [0x2c, 0x20]) =
        (acc ++ ([32] ++ (name ++ ([61] ++ [cLB]))) ++ ([0x2c, 0x20] : Bytes).intercalate (v.map Spec.Render.ipElem) ++ [0x2c]) ++ [0x20] := by simp
    rw [e]
    have i1 : l1.idx = l.idx := s1.1
    obtain ⟨l', hs, he⟩ := decIdx_scratch l1
      (acc ++ ([32] ++ (name ++ ([61] ++ [cLB]))) ++ ([0x2c, 0x20] : Bytes).intercalate (v.map Spec.Render.ipElem) ++ [0x2c]) 0x20 (by rw [i1]; room)
    rw [he]
    simp only [Outcome.bind_ok]
    have i' : l'.idx = l1.idx := hs.1
    rw [appendByte_emit _ _ _ (by rw [i', i1]; room)]
    exact ⟨l', hs.trans s1, by simp [cLB, cRB]⟩

/-! ### Duration -/

/-- `p` zero-padded decimal digits of `v % 10^p` (the reference's fraction digits) -/
def fracDigits (p v : Nat) : Bytes := (List.range p).map (fun i => digit (v % 10 ^ p / 10 ^ (p - 1 - i) % 10))

theorem fracDigits_succ (p v : Nat) : fracDigits (p + 1) v = fracDigits p (v / 10) ++ [digit (v % 10)] := by
  unfold fracDigits
  rw [List.range_succ, List.map_append]
  have hp : (10 : Nat) ^ (p + 1) = 10 * 10 ^ p := by rw [Nat.pow_succ, Nat.mul_comm]
  congr 1
  · apply List.map_congr_left
    intro i hi
    have hi : i < p := List.mem_range.mp hi
    have e : p + 1 - 1 - i = (p - 1 - i) + 1 := by omega
    have hk : (10 : Nat) ^ (p - 1 - i + 1) = 10 * 10 ^ (p - 1 - i) := by rw [Nat.pow_succ, Nat.mul_comm]
    rw [e, hk, ← Nat.div_div_eq_div_mul, hp, Nat.mod_mul_right_div_self]
  · have e0 : p + 1 - 1 - p = 0 := by omega
    simp only [List.map_cons, List.map_nil, e0, Nat.pow_zero, Nat.div_one]
    rw [hp, Nat.mod_mul_right_mod]

theorem dTZ_snoc (l : Bytes) (c : UInt8) :
    dropTrailingZeros (l ++ [c]) = if c == 0x30 then dropTrailingZeros l else l ++ [c] := by
  unfold dropTrailingZeros
  rw [List.reverse_append]
  simp only [List.reverse_cons, List.reverse_nil, List.nil_append, List.cons_append, List.dropWhile_cons]
  split <;> simp

theorem digit_zero : ∀ d, d < 10 → ((digit d == 0x30) = decide (d = 0)) := by decide

theorem fmtFrac_eq (p : Nat) (acc : Bytes) (v : Nat) (print : Bool) :
    fmtFrac acc v p print =
      ((if print then 0x2e :: (fracDigits p v ++ acc)
        else if dropTrailingZeros (fracDigits p v) = [] then acc
        else 0x2e :: (dropTrailingZeros (fracDigits p v) ++ acc)), v / 10 ^ p) := by
  induction p generalizing acc v print with
  | zero => cases print <;> simp [fmtFrac, fracDigits, dropTrailingZeros, cDOT]
  | succ p ih =>
    unfold fmtFrac
    simp only []
    rw [ih, fracDigits_succ]
    have hm : v % 10 < 10 := Nat.mod_lt _ (by decide)
    have hz := digit_zero _ hm
    have hdiv : v / 10 / 10 ^ p = v / 10 ^ (p + 1) := by rw [Nat.div_div_eq_div_mul, Nat.pow_succ, Nat.mul_comm]
    rw [hdiv]
    congr 1
    cases print with
    | true => simp [digit]
    | false =>
      rw [dTZ_snoc, hz]
      by_cases h0 : v % 10 = 0
      · simp [h0]
      · simp [h0, digit]

/-- fraction part of the reference, as a function of the digits -/
def fracPart (e u : Nat) : Bytes :=
  if dropTrailingZeros (fracDigits e u) = [] then [] else 0x2e :: dropTrailingZeros (fracDigits e u)

theorem fraction_eq (u e : Nat) : fraction u e = decimal (u / 10 ^ e) ++ fracPart e u := rfl

theorem fmtFrac_false (acc : Bytes) (u e : Nat) : fmtFrac acc u e false = (fracPart e u ++ acc, u / 10 ^ e) := by
  rw [fmtFrac_eq]
  unfold fracPart
  simp only [Bool.false_eq_true, if_false]
  split <;> simp

theorem fracDigits_mod (e u k : Nat) (h : u % k % 10 ^ e = u % 10 ^ e) : fracDigits e (u % k) = fracDigits e u := by
  unfold fracDigits; rw [h]

theorem durationBody_eq (u : Nat) : Model.Fastlog.durationBody u = Spec.Render.durationBody u := by
  unfold Model.Fastlog.durationBody Spec.Render.durationBody
  have p3 : (10 : Nat) ^ 3 = 1000 := by decide
  have p6 : (10 : Nat) ^ 6 = 1000000 := by decide
  have p9 : (10 : Nat) ^ 9 = 1000000000 := by decide
  have p0 : (10 : Nat) ^ 0 = 1 := rfl
  simp only [p3, p6, p9, fmtFrac_false, peelDigits_eq, fraction_eq, p0, Nat.div_one]
  by_cases h0 : u = 0
  · subst h0; simp
  · by_cases h3 : u < 1000
    · have h9 : u < 1000000000 := by omega
      simp only [h0, h3, h9, if_true, if_false]
      simp [fracPart, fracDigits, dropTrailingZeros]
    · by_cases h6 : u < 1000000
      · have h9 : u < 1000000000 := by omega
        simp only [h0, h3, h6, h9, if_true, if_false, List.append_assoc]
      · by_cases h9 : u < 1000000000
        · simp only [h0, h3, h6, h9, if_true, if_false, List.append_assoc]
        · simp only [h0, h3, h6, h9, if_false]
          have e1 : u % (60 * 1000000000) / 1000000000 = u / 1000000000 % 60 := by omega
          have e2 : fracPart 9 (u % (60 * 1000000000)) = fracPart 9 u := by
            unfold fracPart
            rw [fracDigits_mod 9 u (60 * 1000000000) (by rw [p9]; omega)]
          rw [e1, e2]
          by_cases hm : u / 1000000000 / 60 > 0
          · rw [if_pos hm, if_pos (show u / 1000000000 ≥ 60 by omega)]
            by_cases hh : u / 1000000000 / 60 / 60 > 0
            · rw [if_pos hh, if_pos (show u / 1000000000 ≥ 3600 by omega)]
              have : u / 1000000000 / 60 / 60 = u / 1000000000 / 3600 := by omega
              rw [this]; simp
            · rw [if_neg hh, if_neg (show ¬ u / 1000000000 ≥ 3600 by omega)]
              simp
          · rw [if_neg hm, if_neg (show ¬ u / 1000000000 ≥ 60 by omega), if_neg (show ¬ u / 1000000000 ≥ 3600 by omega)]
            simp

/-- **the mirror of `time.Duration.String` is the reference duration text**, for every duration -/
theorem durationText_eq (d : Int) : durationText d = Spec.Render.duration d := by
  unfold durationText Spec.Render.duration
  rw [durationBody_eq]

/-! ### one field, a sequence of fields -/

/-- room an appender needs beyond its own text: one byte (the newline's place; `appendIP6` uses it
    as scratch), except `IPArray`, whose guard reserves 41 bytes per element -/
def slack : Field → Nat
  | .ipArray _ _ => 41
  | _ => 1

def lineSlack (fs : List Field) : Nat := fs.foldr (fun f m => max (slack f) m) 1

theorem apply_good (f : Field) (l : Line) (acc : Bytes)
    (hs : l.idx + acc.length + (renderField f).length + slack f ≤ bufSize) :
    ∃ l', SameText l' l ∧ apply (emit l acc) f = .ok (emit l' (acc ++ renderField f)) := by
  have h1 : 1 ≤ slack f := by unfold slack; split <;> omega
  have h : l.idx + acc.length + (renderField f).length + 1 ≤ bufSize := by omega
  have h' : l.idx + acc.length + (renderField f).length ≤ bufSize := by omega
  cases f with
  | str n v => exact ⟨l, SameText.refl l, string_emit l acc n v h'⟩
  | label n => exact ⟨l, SameText.refl l, label_emit l acc n h'⟩
  | bool n v => exact ⟨l, SameText.refl l, boolF_emit l acc n v h'⟩
  | int n v => exact ⟨l, SameText.refl l, intF_emit l acc n v h'⟩
  | u8 n v => exact ⟨l, SameText.refl l, uint8_emit l acc n v h'⟩
  | u16 n v => exact ⟨l, SameText.refl l, uint16_emit l acc n v h'⟩
  | u32 n v => exact ⟨l, SameText.refl l, uint32_emit l acc n v h'⟩
  | x8 n v => exact ⟨l, SameText.refl l, uint8Hex_emit l acc n v h'⟩
  | x16 n v => exact ⟨l, SameText.refl l, uint16Hex_emit l acc n v h'⟩
  | mac n v => exact ⟨l, SameText.refl l, macF_emit l acc n v h'⟩
  | ip n a => exact ⟨l, SameText.refl l, ipF_emit l acc n a h'⟩
  | ipSlice n a => exact ipSlice_good l acc n a h
  | nameText n t => exact ⟨l, SameText.refl l, nameText_emit l acc n t h'⟩
  | error t => exact ⟨l, SameText.refl l, errorF_emit l acc t h'⟩
  | bytes n v => exact ⟨l, SameText.refl l, bytesF_emit l acc n v h'⟩
  | stringer t => exact ⟨l, SameText.refl l, label_emit l acc t h'⟩
  | lf =>
    refine ⟨l, SameText.refl l, ?_⟩
    simp only [renderField] at h' ⊢
    exact appendByte_emit l acc _ (by room)
  | printInt v =>
    refine ⟨l, SameText.refl l, ?_⟩
    simp only [renderField] at h' ⊢
    exact printInt_emit l acc v h'
  | writeHex v =>
    refine ⟨l, SameText.refl l, ?_⟩
    simp only [renderField] at h' ⊢
    have : (hex8 v.toNat).length = 2 := by rw [hex8_eq _ (UInt8.toNat_lt v)]; rfl
    exact writeHex_emit l acc v (by omega)
  | writeHexNLZ v =>
    refine ⟨l, SameText.refl l, ?_⟩
    simp only [renderField] at h' ⊢
    exact writeHexNLZ_emit l acc v h'
  | appendIP6 a =>
    simp only [renderField] at h h' ⊢
    by_cases h16 : a.length = 16
    · rw [if_pos h16] at h ⊢
      exact appendIP6_good l acc a h16 h
    · rw [if_neg h16] at h' ⊢
      refine ⟨l, SameText.refl l, ?_⟩
      show Model.Fastlog.appendIP6 (emit l acc) a = _
      unfold Model.Fastlog.appendIP6
      rw [if_pos h16]
      simp (disch := room) only [copyIn_emit]
      rfl
  | appendByte v =>
    refine ⟨l, SameText.refl l, ?_⟩
    simp only [renderField] at h' ⊢
    exact appendByte_emit l acc _ (by room)
  | duration n d =>
    refine ⟨l, SameText.refl l, ?_⟩
    have e : renderField (.duration n d) = renderField (.nameText n (durationText d)) := by
      simp only [renderField, durationText_eq]
    rw [e] at h' ⊢
    exact nameText_emit l acc n _ h'
  | byteArray n v => exact byteArray_good l acc n v h
  | stringArray n v => exact stringArray_good l acc n v h
  | ipArray n v => exact ipArray_good l acc n v hs
  | module n m => exact ⟨l, SameText.refl l, moduleF_emit l acc n m h'⟩
  | newModule n m =>
    refine ⟨l, SameText.refl l, ?_⟩
    simp only [renderField] at h' ⊢
    exact newModule_emit l acc n m h'

theorem renderFields_cons (f : Field) (fs : List Field) : renderFields (f :: fs) = renderField f ++ renderFields fs := by
  simp [renderFields]

theorem lineSlack_cons (f : Field) (fs : List Field) :
    slack f ≤ lineSlack (f :: fs) ∧ lineSlack fs ≤ lineSlack (f :: fs) := by
  simp only [lineSlack, List.foldr_cons]; omega

theorem applyAll_good (fs : List Field) (l : Line) (acc : Bytes)
    (h : l.idx + acc.length + (renderFields fs).length + lineSlack fs ≤ bufSize) :
    ∃ l', SameText l' l ∧ applyAll (emit l acc) fs = .ok (emit l' (acc ++ renderFields fs)) := by
  induction fs generalizing l acc with
  | nil => exact ⟨l, SameText.refl l, by simp [applyAll, renderFields]⟩
  | cons f fs ih =>
    rw [renderFields_cons] at h ⊢
    have hsl := lineSlack_cons f fs
    obtain ⟨l1, s1, e1⟩ := apply_good f l acc (by room)
    have i1 : l1.idx = l.idx := s1.1
    obtain ⟨l2, s2, e2⟩ := ih l1 (acc ++ renderField f)
      (by rw [i1]; room)
    refine ⟨l2, s2.trans s1, ?_⟩
    unfold applyAll
    rw [e1]
    simp only [Outcome.bind_ok, e2, List.append_assoc]

/-! ### views -/

theorem slice_ok (b : Bytes) (lo hi : Nat) (h : lo ≤ hi ∧ hi ≤ b.length) : slice b lo hi = .ok ((b.take hi).drop lo) := by
  unfold slice; rw [if_pos h]

theorem idx_ok (b : Bytes) (i : Nat) (h : i < b.length) : ∃ v, idx b i = .ok v := by
  unfold idx
  rw [List.getElem?_eq_getElem h]
  exact ⟨_, rfl⟩

theorem be16At_ok (b : Bytes) (lo : Nat) (h : lo + 2 ≤ b.length) : ∃ v, be16At b lo = .ok v := by
  unfold be16At
  rw [slice_ok b lo (lo + 2) ⟨by omega, h⟩]
  have hl : ((b.take (lo + 2)).drop lo).length = 2 := by simp; omega
  obtain ⟨x, hx⟩ := idx_ok ((b.take (lo + 2)).drop lo) 0 (by omega)
  obtain ⟨y, hy⟩ := idx_ok ((b.take (lo + 2)).drop lo) 1 (by omega)
  simp only [Outcome.bind_ok, hx, hy]
  exact ⟨_, rfl⟩

theorem addrFields_slack (mac ip : Bytes) (port : UInt16) : lineSlack (addrFields mac ip port) = 1 := by
  unfold addrFields
  split <;> rfl

theorem arpFields_ok (b : Bytes) (h : 28 ≤ b.length) :
    ∃ fs, arpFields b = .ok fs ∧ lineSlack fs = 1 := by
  unfold arpFields
  obtain ⟨op, hop⟩ := be16At_ok b 6 (by omega)
  rw [hop, slice_ok b 8 14 (by omega), slice_ok b 14 18 (by omega), slice_ok b 18 24 (by omega), slice_ok b 24 28 (by omega)]
  exact ⟨_, rfl, rfl⟩

theorem ip4Fields_ok (p : Bytes) (h : 20 ≤ p.length) :
    ∃ fs, ip4Fields p = .ok fs ∧ lineSlack fs = 1 := by
  unfold ip4Fields
  obtain ⟨b0, h0⟩ := idx_ok p 0 (by omega)
  obtain ⟨b9, h9⟩ := idx_ok p 9 (by omega)
  obtain ⟨b8, h8⟩ := idx_ok p 8 (by omega)
  obtain ⟨b1, h1⟩ := idx_ok p 1 (by omega)
  obtain ⟨b6, h6⟩ := idx_ok p 6 (by omega)
  obtain ⟨b7, h7⟩ := idx_ok p 7 (by omega)
  obtain ⟨tl, htl⟩ := be16At_ok p 2 (by omega)
  rw [h0, slice_ok p 12 16 (by omega), slice_ok p 16 20 (by omega), h9, h8, h1, h6, h7, htl]
  exact ⟨_, rfl, by split <;> rfl⟩

end PV.Lemmas.Fastlog
