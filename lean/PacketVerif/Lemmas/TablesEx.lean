/-
  A concrete configuration and history used by the non-vacuity examples of C04, C05, C06:
  client `m1` is seen on 192.168.0.50, then on 192.168.0.51 (IP change), then client `m2` claims
  192.168.0.51 (re-binding), then time passes (offline, then removal).
-/
import PacketVerif.Model.Tables
namespace PV.Lemmas.TablesEx
open PV PV.Model.Tables

def cfg0 : Cfg :=
  { hostMAC := [2, 0, 0, 0, 0, 1], hostIP4 := IP.v4 0xc0a80081, routerMAC := [2, 0, 0, 0, 0, 0x11],
    routerIP4 := IP.v4 0xc0a8000b, lanValid := true, lanBase := 0xc0a80000, lanBits := 24,
    hostLLA := IP.v6 0xfe800000000000000000000000000001, probeDL := 120, offlineDL := 300, purgeDL := 3660 }

def m1 : MAC := [2, 0, 0, 0, 0, 0x21]
def m2 : MAC := [2, 0, 0, 0, 0, 0x22]
def ipA : IP := IP.v4 0xc0a80032
def ipB : IP := IP.v4 0xc0a80033

def ev4 (m : MAC) (ip : IP) : FrameEv := { srcMAC := m, kind := .ip4, srcIP := ip, arpMAC := [], dhcp4 := false }
def fr (m : MAC) (ip : IP) (now : Int) : Op := .frame (ev4 m ip) now ""
def pk (m : MAC) (ip : IP) (now : Int) : Op6 := .packet (ev4 m ip) now "" none

def s0 : Sess := init cfg0 1000 "" ""

/-- IP change, re-binding, ageing -/
def hist : List Op := [fr m1 ipA 1000, fr m1 ipB 1001, fr m2 ipB 1002, .purge 1400, .purge 5000]
def hist6 : List Op6 := [pk m1 ipA 1000, pk m1 ipA 1001, pk m1 ipB 1002, pk m2 ipB 1003, .api (.purge 1400)]

/-- a state the real code must never reach: a host list naming a host that is not in the index -/
def broken : Sess :=
  { hosts := [], macs := [{ newMac 0 m1 with hostList := [7] }], nextId := 8 }

end PV.Lemmas.TablesEx
