/-
  The name decoder of the dnsmessage.Parser model (`Name.unpack`) against the RFC 1035 reference.
-/
import PacketVerif.Lemmas.DnsSpec
import PacketVerif.Model.DnsMsg
namespace PV.Lemmas.Dns
open PV PV.Model PV.Spec PV.Model.DnsMsg

set_option maxRecDepth 100000 in
theorem xor_fin : ∀ i : Fin 256, 192 ≤ i.val → (UInt8.ofNat i.val ^^^ 0xC0).toNat = i.val - 192 := by decide

theorem xor_c0 (b : UInt8) (h : 192 ≤ b.toNat) : (b ^^^ 0xC0).toNat = b.toNat - 192 := by
  have := xor_fin ⟨b.toNat, b.toNat_lt⟩ h
  simpa [ofNat_toNat] using this

/-- dnsmessage's text form: every label followed by a dot -/
def dottedR : List Bytes → Bytes
  | [] => []
  | l :: rest => l ++ 46 :: dottedR rest

/-- `Name.unpack` on a reference name: at most 10 pointers, no dots inside labels, text (with the
    trailing dot) of at most 254 bytes → the reference labels, each followed by a dot ("." for the root),
    and the reference end offset. -/
theorem unpackName_complete {m : Bytes} {start pos : Nat} {ls : List Bytes} {e d : Nat} (hn : NameAt m start pos ls e d) :
    ∀ (ptr : Nat) (fpe : Option Nat) (name : Bytes), ptr + d ≤ 10 → (∀ l ∈ ls, ∀ c ∈ l, c ≠ 46) →
      (name ++ dottedR ls).length ≤ 254 →
      unpackNameLoop m pos ptr fpe name =
        .ok (if (name ++ dottedR ls).isEmpty then [46] else name ++ dottedR ls, match fpe with | some x => x | none => e) := by
  induction hn with
  | @root start pos h0 =>
    intro ptr fpe name _ _ hlen
    rw [unpackNameLoop.eq_def]
    split
    · simp_all
    next c hc =>
      have : c = 0 := by rw [h0] at hc; injection hc with hc; exact hc.symm
      subst this
      simp only [dottedR, List.append_nil] at hlen ⊢
      have e1 : ((0 : UInt8) &&& 0xC0 == 0x00) = true := by decide
      simp only [e1, if_true, beq_self_eq_true]
      by_cases hemp : name.isEmpty
      · have hn : name = [] := List.isEmpty_iff.mp hemp
        subst hn
        cases fpe <;> simp
      · cases fpe <;> (simp [hemp]; omega)
  | @label start pos n rest e d h0 h1 h63 hin hsub ih =>
    intro ptr fpe name hp hdots hlen
    rw [unpackNameLoop.eq_def]
    split
    · simp_all
    next c hc =>
      have : c = n := by rw [h0] at hc; injection hc with hc; exact hc.symm
      subst this
      have hb := bits c
      have e0 : (c == 0) = false := by rw [hb.2.2.2.1]; simp; omega
      have ec0 : (c &&& 0xC0 == 0xC0) = false := by rw [hb.1]; simp; omega
      have e40 : (c &&& 0xC0 == 0x40) = false := by rw [hb.2.1]; simp; omega
      have e80 : (c &&& 0xC0 == 0x80) = false := by rw [hb.2.2.1]; simp; omega
      have e00 : (c &&& 0xC0 == 0x00) = true := by
        -- the four two-bit patterns are exhaustive
        have hx : ∀ i : Fin 256, i.val < 64 → (UInt8.ofNat i.val &&& 0xC0 == 0x00) = true := by
          set_option maxRecDepth 100000 in decide
        have := hx ⟨c.toNat, c.toNat_lt⟩ (by simp; omega)
        simpa [ofNat_toNat] using this
      simp only [e00, e0, if_true, Bool.false_eq_true, if_false]
      rw [if_neg (by omega)]
      have hnodot : ((m.drop (pos + 1)).take c.toNat).any (· == 46) = false := by
        rw [List.any_eq_false]
        intro x hx
        have := hdots _ (List.mem_cons_self ..) x hx
        simpa using this
      simp only [hnodot, Bool.false_eq_true, if_false]
      have := ih ptr fpe (name ++ (m.drop (pos + 1)).take c.toNat ++ [46]) hp
        (fun l hl => hdots l (List.mem_cons_of_mem _ hl)) (by simp [dottedR] at hlen ⊢; omega)
      rw [this]
      simp [dottedR]
  | @ptr start pos hi lo rest e d h0 h192 h1 htgt hsub ih =>
    intro ptr fpe name hp hdots hlen
    rw [unpackNameLoop.eq_def]
    split
    · simp_all
    next c hc =>
      have : c = hi := by rw [h0] at hc; injection hc with hc; exact hc.symm
      subst this
      have hb := bits c
      have ec0 : (c &&& 0xC0 == 0xC0) = true := by rw [hb.1]; simp; omega
      have e00 : (c &&& 0xC0 == 0x00) = false := by
        have hx : ∀ i : Fin 256, 192 ≤ i.val → (UInt8.ofNat i.val &&& 0xC0 == 0x00) = false := by
          set_option maxRecDepth 100000 in decide
        have := hx ⟨c.toNat, c.toNat_lt⟩ (by simp; omega)
        simpa [ofNat_toNat] using this
      simp only [e00, ec0, Bool.false_eq_true, if_false, if_true, h1]
      rw [dif_neg (by omega)]
      rw [xor_c0 c h192]
      cases fpe with
      | none =>
        have := ih (ptr + 1) (some (pos + 2)) name (by omega) hdots hlen
        simpa using this
      | some x =>
        have := ih (ptr + 1) (some x) name (by omega) hdots hlen
        simpa using this
end PV.Lemmas.Dns
