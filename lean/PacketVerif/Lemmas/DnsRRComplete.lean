/-
  Completeness of the `decodeRRs` fold of ProcessDNS against the reference decoder:
  the "first record per key wins" fold of the reference records (`refEntry`), list lemmas about
  it, and the step-by-step description of `decodeRRs` over `rrsAt?`.
-/
import PacketVerif.Lemmas.DnsRRSpec
namespace PV.Lemmas.Dns
open PV PV.Model PV.Spec

/-! ### first record per key wins -/

/-- insert a candidate unless its key is already present -/
def insOpt {α : Type} (key : α → Bytes) (acc : List α) : Option α → List α
  | none => acc
  | some x => if acc.any (fun y => key y == key x) then acc else acc ++ [x]

/-- insert the candidates one after the other -/
def insertAll {α : Type} (key : α → Bytes) (acc : List α) (l : List α) : List α :=
  l.foldl (fun a x => insOpt key a (some x)) acc

/-- the candidates with the later duplicates of every key removed, in order -/
def firstWins {α : Type} (key : α → Bytes) (l : List α) : List α := insertAll key [] l

/-- `x` occurs in `l` and nothing before that occurrence has its key -/
def IsFirst {α : Type} (key : α → Bytes) (l : List α) (x : α) : Prop :=
  ∃ pre post, l = pre ++ x :: post ∧ ∀ y ∈ pre, key y ≠ key x

theorem insertAll_cons {α : Type} (key : α → Bytes) (acc : List α) (x : α) (l : List α) :
    insertAll key acc (x :: l) = insertAll key (insOpt key acc (some x)) l := rfl

theorem isFirst_nil {α : Type} (key : α → Bytes) (x : α) : ¬ IsFirst key [] x := by
  rintro ⟨pre, post, h, _⟩
  cases pre <;> simp at h

theorem isFirst_cons {α : Type} (key : α → Bytes) (z : α) (l : List α) (x : α) :
    IsFirst key (z :: l) x ↔ (x = z ∨ (key z ≠ key x ∧ IsFirst key l x)) := by
  constructor
  · rintro ⟨pre, post, h, hp⟩
    cases pre with
    | nil =>
      simp only [List.nil_append, List.cons.injEq] at h
      exact Or.inl h.1.symm
    | cons w pre' =>
      simp only [List.cons_append, List.cons.injEq] at h
      obtain ⟨rfl, h⟩ := h
      exact Or.inr ⟨hp z (List.mem_cons_self ..), pre', post, h, fun y hy => hp y (List.mem_cons_of_mem _ hy)⟩
  · rintro (rfl | ⟨hne, pre, post, h, hp⟩)
    · exact ⟨[], l, rfl, fun y hy => by cases hy⟩
    · refine ⟨z :: pre, post, by rw [h]; rfl, ?_⟩
      intro y hy
      rcases List.mem_cons.mp hy with rfl | hy
      · exact hne
      · exact hp y hy

theorem any_key_true {α : Type} (key : α → Bytes) (acc : List α) (z : α) :
    acc.any (fun y => key y == key z) = true ↔ ∃ w ∈ acc, key w = key z := by
  simp [List.any_eq_true]

theorem any_key_false {α : Type} (key : α → Bytes) (acc : List α) (z : α) :
    acc.any (fun y => key y == key z) = false ↔ ∀ w ∈ acc, key w ≠ key z := by
  simp [List.any_eq_false]

/-- membership in the first-wins fold -/
theorem mem_insertAll {α : Type} (key : α → Bytes) (l : List α) : ∀ (acc : List α) (x : α),
    x ∈ insertAll key acc l ↔ (x ∈ acc ∨ ((∀ y ∈ acc, key y ≠ key x) ∧ IsFirst key l x)) := by
  induction l with
  | nil =>
    intro acc x
    simp only [insertAll, List.foldl_nil]
    exact ⟨Or.inl, fun h => h.elim id (fun h => absurd h.2 (isFirst_nil key x))⟩
  | cons z l ih =>
    intro acc x
    rw [insertAll_cons, ih, isFirst_cons]
    cases hany : acc.any (fun y => key y == key z) with
    | true =>
      obtain ⟨w, hw, hwz⟩ := (any_key_true key acc z).mp hany
      simp only [insOpt, hany, if_true]
      constructor
      · rintro (h | ⟨h1, h2⟩)
        · exact Or.inl h
        · exact Or.inr ⟨h1, Or.inr ⟨by rw [← hwz]; exact h1 w hw, h2⟩⟩
      · rintro (h | ⟨h1, rfl | ⟨_, h2⟩⟩)
        · exact Or.inl h
        · exact absurd hwz (h1 w hw)
        · exact Or.inr ⟨h1, h2⟩
    | false =>
      have hno := (any_key_false key acc z).mp hany
      simp only [insOpt, hany, Bool.false_eq_true, if_false]
      constructor
      · rintro (h | ⟨h1, h2⟩)
        · rcases List.mem_append.mp h with h | h
          · exact Or.inl h
          · have : x = z := by simpa using h
            subst this
            exact Or.inr ⟨hno, Or.inl rfl⟩
        · refine Or.inr ⟨fun y hy => h1 y (List.mem_append_left _ hy), Or.inr ⟨?_, h2⟩⟩
          exact h1 z (List.mem_append_right _ (List.mem_singleton.mpr rfl))
      · rintro (h | ⟨h1, rfl | ⟨hne, h2⟩⟩)
        · exact Or.inl (List.mem_append_left _ h)
        · exact Or.inl (List.mem_append_right _ (List.mem_singleton.mpr rfl))
        · refine Or.inr ⟨?_, h2⟩
          intro y hy
          rcases List.mem_append.mp hy with hy | hy
          · exact h1 y hy
          · have : y = z := by simpa using hy
            subst this
            exact hne

/-- **first wins**: the stored elements are exactly the first occurrences of their keys -/
theorem mem_firstWins {α : Type} (key : α → Bytes) (l : List α) (x : α) :
    x ∈ firstWins key l ↔ IsFirst key l x := by
  unfold firstWins
  rw [mem_insertAll]
  constructor
  · rintro (h | ⟨_, h⟩)
    · cases h
    · exact h
  · intro h
    exact Or.inr ⟨fun y hy => (by cases hy), h⟩

/-- every key that occurs has a first occurrence -/
theorem isFirst_exists {α : Type} (key : α → Bytes) (l : List α) : ∀ c ∈ l, ∃ x, IsFirst key l x ∧ key x = key c := by
  induction l with
  | nil => intro c hc; cases hc
  | cons z l ih =>
    intro c hc
    by_cases hk : key z = key c
    · exact ⟨z, (isFirst_cons key z l z).mpr (Or.inl rfl), hk⟩
    · rcases List.mem_cons.mp hc with rfl | hc
      · exact absurd rfl hk
      · obtain ⟨x, hx, hkx⟩ := ih c hc
        exact ⟨x, (isFirst_cons key z l x).mpr (Or.inr ⟨by rw [hkx]; exact hk, hx⟩), hkx⟩

theorem isFirst_mem {α : Type} (key : α → Bytes) (l : List α) (x : α) (h : IsFirst key l x) : x ∈ l := by
  obtain ⟨pre, post, rfl, _⟩ := h
  exact List.mem_append_right _ (List.mem_cons_self ..)

/-- a first occurrence among the candidates `rrs.filterMap f` comes from a record of `rrs` before
    which no record yields a candidate with that key -/
theorem isFirst_filterMap {α : Type} (key : α → Bytes) (f : RR → Option α) (x : α) : ∀ (rrs : List RR),
    IsFirst key (rrs.filterMap f) x →
    ∃ pre r post, rrs = pre ++ r :: post ∧ f r = some x ∧ ∀ y ∈ pre, ∀ c, f y = some c → key c ≠ key x := by
  intro rrs
  induction rrs with
  | nil => intro h; exact absurd h (isFirst_nil key x)
  | cons z l ih =>
    intro h
    cases hz : f z with
    | none =>
      rw [List.filterMap_cons_none hz] at h
      obtain ⟨pre, r, post, h1, h2, h3⟩ := ih h
      refine ⟨z :: pre, r, post, by rw [h1]; rfl, h2, ?_⟩
      intro y hy c hc
      rcases List.mem_cons.mp hy with rfl | hy
      · rw [hz] at hc; cases hc
      · exact h3 y hy c hc
    | some c0 =>
      rw [List.filterMap_cons_some hz, isFirst_cons] at h
      rcases h with rfl | ⟨hne, h⟩
      · exact ⟨[], z, l, rfl, hz, fun y hy => by cases hy⟩
      · obtain ⟨pre, r, post, h1, h2, h3⟩ := ih h
        refine ⟨z :: pre, r, post, by rw [h1]; rfl, h2, ?_⟩
        intro y hy c hc
        rcases List.mem_cons.mp hy with rfl | hy
        · rw [hz] at hc; injection hc with hc; subst hc; exact hne
        · exact h3 y hy c hc

/-- "every reference record is present, first record per key wins": for every record `s` of
    `rrs` that yields a candidate `c`, the record `r` that is the FIRST one yielding a candidate
    with the key of `c` has its candidate `x` stored; and nothing else is stored. -/
def FirstWinsPresent {α : Type} (key : α → Bytes) (f : RR → Option α) (rrs : List RR) (stored : List α) : Prop :=
  (∀ s ∈ rrs, ∀ c, f s = some c →
    ∃ pre r post x, rrs = pre ++ r :: post ∧ f r = some x ∧ key x = key c ∧
      (∀ y ∈ pre, ∀ c', f y = some c' → key c' ≠ key c) ∧ x ∈ stored) ∧
  (∀ x ∈ stored, ∃ s ∈ rrs, f s = some x)

theorem firstWins_present {α : Type} (key : α → Bytes) (f : RR → Option α) (rrs : List RR) :
    FirstWinsPresent key f rrs (firstWins key (rrs.filterMap f)) := by
  constructor
  · intro s hs c hc
    have hmem : c ∈ rrs.filterMap f := List.mem_filterMap.mpr ⟨s, hs, hc⟩
    obtain ⟨x, hx, hk⟩ := isFirst_exists key _ c hmem
    obtain ⟨pre, r, post, h1, h2, h3⟩ := isFirst_filterMap key f x rrs hx
    exact ⟨pre, r, post, x, h1, h2, hk, fun y hy c' hc' => by rw [← hk]; exact h3 y hy c' hc',
      (mem_firstWins key _ x).mpr hx⟩
  · intro x hx
    have := isFirst_mem key _ x ((mem_firstWins key _ x).mp hx)
    exact List.mem_filterMap.mp this

/-- the stored list has no two elements with the same key -/
theorem firstWins_keys_unique {α : Type} (key : α → Bytes) (l : List α) (x y : α)
    (hx : x ∈ firstWins key l) (hy : y ∈ firstWins key l) (hk : key x = key y) : x = y := by
  rw [mem_firstWins] at hx hy
  induction l with
  | nil => exact absurd hx (isFirst_nil key x)
  | cons z l ih =>
    rw [isFirst_cons] at hx hy
    rcases hx with rfl | ⟨hx1, hx2⟩
    · rcases hy with rfl | ⟨hy1, _⟩
      · rfl
      · exact absurd hk hy1
    · rcases hy with rfl | ⟨_, hy2⟩
      · exact absurd hk.symm hx1
      · exact ih hx2 hy2

/-! ### the reference fold -/

/-- A record (type 1, 4 bytes of RDATA) → the entry ProcessDNS keeps for it -/
def candA (r : RR) : Option IPRec :=
  if r.rtype = 1 ∧ r.rdata.length = 4 then some { name := r.name, ip := r.rdata, ttl := r.ttl } else none

/-- AAAA record (type 28, 16 bytes of RDATA) -/
def candAAAA (r : RR) : Option IPRec :=
  if r.rtype = 28 ∧ r.rdata.length = 16 then some { name := r.name, ip := r.rdata, ttl := r.ttl } else none

/-- CNAME record (type 5): owner, reference target name (RDATA may be compressed against the message) -/
def candCNAME (m : Bytes) (r : RR) : Option NameRec :=
  if r.rtype = 5 then
    match decodeName? m r.rdataOff with
    | some (t, _, _) => some { name := r.name, cname := t, ttl := r.ttl }
    | none => none
  else none

/-- PTR record (type 12) whose owner `d.c.b.a.in-addr.arpa` is an IPv4 reverse name: target name,
    address a.b.c.d -/
def candPTR (ip6 : Bytes → PtrIP) (m : Bytes) (r : RR) : Option IPRec :=
  if r.rtype = 12 then
    match parsePtrIP ip6 (trimSuffix r.name inAddrArpa), decodeName? m r.rdataOff with
    | .v4 a b c d, some (t, _, _) =>
      some { name := t, ip := [UInt8.ofNat d, UInt8.ofNat c, UInt8.ofNat b, UInt8.ofNat a], ttl := r.ttl }
    | _, _ => none
  else none

/-- **reference result of ProcessDNS** for the question name `name` and the reference answer
    records `rrs`: per map, the candidates in message order, first record per key wins
    (A / AAAA keyed by address, CNAME by owner name, PTR by target name). -/
def refEntry (ip6 : Bytes → PtrIP) (m : Bytes) (name : Bytes) (rrs : List RR) : DNSEntry :=
  { name := name,
    ip4 := firstWins IPRec.ip (rrs.filterMap candA),
    ip6 := firstWins IPRec.ip (rrs.filterMap candAAAA),
    cname := firstWins NameRec.name (rrs.filterMap (candCNAME m)),
    ptr := firstWins IPRec.name (rrs.filterMap (candPTR ip6 m)) }

/-- one record applied to an entry -/
def specStep (ip6 : Bytes → PtrIP) (m : Bytes) (ent : DNSEntry) (r : RR) : DNSEntry :=
  { name := ent.name,
    ip4 := insOpt IPRec.ip ent.ip4 (candA r),
    ip6 := insOpt IPRec.ip ent.ip6 (candAAAA r),
    cname := insOpt NameRec.name ent.cname (candCNAME m r),
    ptr := insOpt IPRec.name ent.ptr (candPTR ip6 m r) }

def specFold (ip6 : Bytes → PtrIP) (m : Bytes) (ent : DNSEntry) (rrs : List RR) : DNSEntry :=
  rrs.foldl (specStep ip6 m) ent

theorem specFold_cons (ip6 : Bytes → PtrIP) (m : Bytes) (ent : DNSEntry) (r : RR) (rs : List RR) :
    specFold ip6 m ent (r :: rs) = specFold ip6 m (specStep ip6 m ent r) rs := rfl

theorem insertAll_filterMap_cons {α : Type} (key : α → Bytes) (f : RR → Option α) (acc : List α) (r : RR) (rs : List RR) :
    insertAll key acc ((r :: rs).filterMap f) = insertAll key (insOpt key acc (f r)) (rs.filterMap f) := by
  cases h : f r with
  | none => rw [List.filterMap_cons_none h]; rfl
  | some x => rw [List.filterMap_cons_some h]; rfl

theorem specFold_fields (ip6 : Bytes → PtrIP) (m : Bytes) (rrs : List RR) : ∀ (ent : DNSEntry),
    specFold ip6 m ent rrs =
      { name := ent.name,
        ip4 := insertAll IPRec.ip ent.ip4 (rrs.filterMap candA),
        ip6 := insertAll IPRec.ip ent.ip6 (rrs.filterMap candAAAA),
        cname := insertAll NameRec.name ent.cname (rrs.filterMap (candCNAME m)),
        ptr := insertAll IPRec.name ent.ptr (rrs.filterMap (candPTR ip6 m)) } := by
  induction rrs with
  | nil => intro ent; cases ent; rfl
  | cons r rs ih =>
    intro ent
    rw [specFold_cons, ih, insertAll_filterMap_cons, insertAll_filterMap_cons, insertAll_filterMap_cons,
      insertAll_filterMap_cons]
    rfl

theorem specFold_empty (ip6 : Bytes → PtrIP) (m : Bytes) (name : Bytes) (rrs : List RR) :
    specFold ip6 m (DNSEntry.empty name) rrs = refEntry ip6 m name rrs := by
  rw [specFold_fields]; rfl

/-! ### the `updated` flag: entries only grow -/

def sz (e : DNSEntry) : Nat := e.ip4.length + e.ip6.length + e.cname.length + e.ptr.length

theorem insOpt_cases {α : Type} (key : α → Bytes) (acc : List α) (o : Option α) :
    insOpt key acc o = acc ∨ (insOpt key acc o).length = acc.length + 1 := by
  cases o with
  | none => exact Or.inl rfl
  | some x =>
    simp only [insOpt]
    split
    · exact Or.inl rfl
    · exact Or.inr (by simp)

theorem insOpt_len {α : Type} (key : α → Bytes) (acc : List α) (o : Option α) :
    acc.length ≤ (insOpt key acc o).length := by
  rcases insOpt_cases key acc o with h | h
  · rw [h]; exact Nat.le_refl _
  · omega

theorem insOpt_eq_of_len {α : Type} (key : α → Bytes) (acc : List α) (o : Option α)
    (h : (insOpt key acc o).length = acc.length) : insOpt key acc o = acc := by
  rcases insOpt_cases key acc o with h' | h'
  · exact h'
  · omega

theorem specStep_sz (ip6 : Bytes → PtrIP) (m : Bytes) (ent : DNSEntry) (r : RR) :
    sz ent ≤ sz (specStep ip6 m ent r) ∧ (specStep ip6 m ent r ≠ ent → sz ent < sz (specStep ip6 m ent r)) := by
  have h1 := insOpt_len IPRec.ip ent.ip4 (candA r)
  have h2 := insOpt_len IPRec.ip ent.ip6 (candAAAA r)
  have h3 := insOpt_len NameRec.name ent.cname (candCNAME m r)
  have h4 := insOpt_len IPRec.name ent.ptr (candPTR ip6 m r)
  refine ⟨by simp only [sz, specStep]; omega, ?_⟩
  intro hne
  apply Nat.lt_of_le_of_ne (by simp only [sz, specStep]; omega)
  intro heq
  apply hne
  simp only [sz, specStep] at heq
  have e1 := insOpt_eq_of_len IPRec.ip ent.ip4 (candA r) (by omega)
  have e2 := insOpt_eq_of_len IPRec.ip ent.ip6 (candAAAA r) (by omega)
  have e3 := insOpt_eq_of_len NameRec.name ent.cname (candCNAME m r) (by omega)
  have e4 := insOpt_eq_of_len IPRec.name ent.ptr (candPTR ip6 m r) (by omega)
  simp only [specStep, e1, e2, e3, e4]

theorem specFold_sz (ip6 : Bytes → PtrIP) (m : Bytes) (rrs : List RR) : ∀ (ent : DNSEntry),
    sz ent ≤ sz (specFold ip6 m ent rrs) := by
  induction rrs with
  | nil => intro ent; exact Nat.le_refl _
  | cons r rs ih =>
    intro ent
    rw [specFold_cons]
    exact Nat.le_trans (specStep_sz ip6 m ent r).1 (ih _)

theorem updated_or (ip6 : Bytes → PtrIP) (m : Bytes) (ent : DNSEntry) (r : RR) (rs : List RR) :
    (decide (specStep ip6 m ent r ≠ ent) || decide (specFold ip6 m (specStep ip6 m ent r) rs ≠ specStep ip6 m ent r))
      = decide (specFold ip6 m (specStep ip6 m ent r) rs ≠ ent) := by
  by_cases h : specStep ip6 m ent r = ent
  · rw [h]; simp
  · have h1 := (specStep_sz ip6 m ent r).2 h
    have h2 := specFold_sz ip6 m rs (specStep ip6 m ent r)
    have h3 : specFold ip6 m (specStep ip6 m ent r) rs ≠ ent := by
      intro heq; rw [heq] at h2; omega
    simp [h, h3]

/-! ### `decodeRRs` step by step over `rrsAt?` -/

theorem rrsAt_succ {m : Bytes} {n off : Nat} {rrs : List RR} {o : Nat} (h : rrsAt? m (n + 1) off = some (rrs, o)) :
    ∃ r o1 rs, rrAt? m off = some (r, o1) ∧ rrsAt? m n o1 = some (rs, o) ∧ rrs = r :: rs := by
  rw [rrsAt?] at h
  cases hr : rrAt? m off with
  | none => rw [hr] at h; simp [bind, Option.bind] at h
  | some v =>
    obtain ⟨r, o1⟩ := v
    rw [hr] at h
    simp only [bind, Option.bind] at h
    cases hrest : rrsAt? m n o1 with
    | none => rw [hrest] at h; simp at h
    | some w =>
      obtain ⟨rs, o2⟩ := w
      rw [hrest] at h
      simp [pure] at h
      obtain ⟨rfl, rfl⟩ := h
      exact ⟨r, o1, rs, rfl, hrest, rfl⟩

theorem rrsAt_succ_of {m : Bytes} {k off o1 off' : Nat} {r : RR} {pre : List RR}
    (h1 : rrAt? m off = some (r, o1)) (h2 : rrsAt? m k o1 = some (pre, off')) :
    rrsAt? m (k + 1) off = some (r :: pre, off') := by
  rw [rrsAt?, h1]
  simp only [bind, Option.bind]
  rw [h2]
  rfl

/-- every record of the reference list is the record that follows some prefix of the section -/
theorem rrsAt_mem {m : Bytes} : ∀ (n off : Nat) (rrs : List RR) (o : Nat), rrsAt? m n off = some (rrs, o) →
    ∀ s ∈ rrs, ∃ k pre off' o', k < n ∧ rrsAt? m k off = some (pre, off') ∧ rrAt? m off' = some (s, o') := by
  intro n
  induction n with
  | zero =>
    intro off rrs o h s hs
    simp [rrsAt?] at h
    rw [h.1] at hs
    cases hs
  | succ n ih =>
    intro off rrs o h s hs
    obtain ⟨r, o1, rs, h1, h2, rfl⟩ := rrsAt_succ h
    rcases List.mem_cons.mp hs with rfl | hs
    · exact ⟨0, [], off, o1, by omega, rfl, h1⟩
    · obtain ⟨k, pre, off', o', hk, h3, h4⟩ := ih o1 rs o h2 s hs
      exact ⟨k + 1, r :: pre, off', o', by omega, rrsAt_succ_of h1 h3, h4⟩

/-- **the fold, step by step**: given the per-record description `hstep` of `decodeRR` on records
    satisfying `OK` (proved from the per-record theorems in `Props/C17.lean`), `decodeRRs` over a
    reference-valid section whose records all satisfy `OK` returns the reference fold, the
    reference end offset, and `updated` exactly when the entry changed. -/
theorem decodeRRs_complete (ip6 : Bytes → PtrIP) (m : Bytes) (OK : Nat → RR → Prop)
    (hstep : ∀ (ent : DNSEntry) (off : Nat) (r : RR) (o : Nat), rrAt? m off = some (r, o) → OK off r →
      decodeRR ip6 ent m off = .ok (specStep ip6 m ent r, o, decide (specStep ip6 m ent r ≠ ent))) :
    ∀ (n : Nat) (ent : DNSEntry) (off : Nat) (rrs : List RR) (o : Nat) (u : Bool),
      rrsAt? m n off = some (rrs, o) →
      (∀ k pre off' r o', k < n → rrsAt? m k off = some (pre, off') → rrAt? m off' = some (r, o') → OK off' r) →
      decodeRRs ip6 n ent m off u =
        (specFold ip6 m ent rrs, .ok ((o : Int), u || decide (specFold ip6 m ent rrs ≠ ent))) := by
  intro n
  induction n with
  | zero =>
    intro ent off rrs o u h _
    simp [rrsAt?] at h
    obtain ⟨rfl, rfl⟩ := h
    simp [decodeRRs, specFold]
  | succ n ih =>
    intro ent off rrs o u h hok
    obtain ⟨r, o1, rs, h1, h2, rfl⟩ := rrsAt_succ h
    have hr := hstep ent off r o1 h1 (hok 0 [] off r o1 (by omega) rfl h1)
    rw [decodeRRs, hr]
    simp only []
    rw [ih (specStep ip6 m ent r) o1 rs o _ h2
      (fun k pre off' r' o' hk h3 h4 => hok (k + 1) (r :: pre) off' r' o' (by omega) (rrsAt_succ_of h1 h3) h4)]
    rw [specFold_cons, Bool.or_assoc, updated_or]

/-- ProcessDNS on an empty table, given what its two decoding stages return -/
theorem processDNS_of_decode (ip6 : Bytes → PtrIP) (m : Bytes) (q : Model.Question) (idx an : Nat) (e' : DNSEntry)
    (o : Int) (u : Bool)
    (hq : decodeQuestion m 12 = .ok (q, idx)) (han : rd16 m 6 = .ok an)
    (hd : decodeRRs ip6 an (DNSEntry.empty q.name) m idx false = (e', .ok (o, u))) :
    processDNS ip6 [] m = (if u then ([(e'.name, e')], .ok (some e')) else ([], .ok none)) := by
  have hlen : ¬ m.length < 12 := by
    intro hl
    unfold decodeQuestion at hq
    rw [if_pos hl] at hq
    cases hq
  unfold processDNS
  rw [if_neg hlen, hq]
  simp only [DNSTable.find, List.find?_nil, Option.isSome_none, Bool.false_eq_true, if_false]
  unfold decodeAnswers
  rw [if_neg hlen, han]
  simp only []
  rw [hd]
  cases u <;> simp [DNSTable.put]

/-! ### `specStep` per record kind, in the shape of the per-record theorems -/

theorem triple_if {c : Prop} [Decidable c] (a b ent : DNSEntry) (o : Nat) (ha : a = ent) (hb : b ≠ ent) :
    ((if c then a else b), o, decide ((if c then a else b) ≠ ent)) = (if c then (ent, o, false) else (b, o, true)) := by
  split
  · subst ha; simp
  · rw [decide_eq_true hb]

theorem insOpt_none {α : Type} (key : α → Bytes) (acc : List α) : insOpt key acc none = acc := rfl
theorem insOpt_ip (acc : List IPRec) (x : IPRec) :
    insOpt IPRec.ip acc (some x) = if hasIP acc x.ip then acc else acc ++ [x] := rfl
theorem insOpt_cname (acc : List NameRec) (x : NameRec) :
    insOpt NameRec.name acc (some x) = if hasCName acc x.name then acc else acc ++ [x] := rfl
theorem insOpt_ptr (acc : List IPRec) (x : IPRec) :
    insOpt IPRec.name acc (some x) = if hasIPName acc x.name then acc else acc ++ [x] := rfl

theorem specStep_A (ip6 : Bytes → PtrIP) (m : Bytes) (ent : DNSEntry) (r : RR) (o : Nat)
    (ht : r.rtype = 1) (hl : r.rdata.length = 4) :
    (specStep ip6 m ent r, o, decide (specStep ip6 m ent r ≠ ent)) =
      (if hasIP ent.ip4 r.rdata then (ent, o, false)
       else ({ ent with ip4 := ent.ip4 ++ [{ name := r.name, ip := r.rdata, ttl := r.ttl }] }, o, true)) := by
  have hs : specStep ip6 m ent r =
      (if hasIP ent.ip4 r.rdata then { ent with ip4 := ent.ip4 }
       else { ent with ip4 := ent.ip4 ++ [{ name := r.name, ip := r.rdata, ttl := r.ttl }] }) := by
    have c1 : candA r = some { name := r.name, ip := r.rdata, ttl := r.ttl } := by simp [candA, ht, hl]
    have c2 : candAAAA r = none := by simp [candAAAA, ht]
    have c3 : candCNAME m r = none := by simp [candCNAME, ht]
    have c4 : candPTR ip6 m r = none := by simp [candPTR, ht]
    simp only [specStep, c1, c2, c3, c4, insOpt_none, insOpt_ip]
    split <;> rfl
  rw [hs]
  apply triple_if
  · cases ent; rfl
  · intro h
    have := congrArg (fun e => e.ip4.length) h
    simp at this

theorem specStep_AAAA (ip6 : Bytes → PtrIP) (m : Bytes) (ent : DNSEntry) (r : RR) (o : Nat)
    (ht : r.rtype = 28) (hl : r.rdata.length = 16) :
    (specStep ip6 m ent r, o, decide (specStep ip6 m ent r ≠ ent)) =
      (if hasIP ent.ip6 r.rdata then (ent, o, false)
       else ({ ent with ip6 := ent.ip6 ++ [{ name := r.name, ip := r.rdata, ttl := r.ttl }] }, o, true)) := by
  have hs : specStep ip6 m ent r =
      (if hasIP ent.ip6 r.rdata then { ent with ip6 := ent.ip6 }
       else { ent with ip6 := ent.ip6 ++ [{ name := r.name, ip := r.rdata, ttl := r.ttl }] }) := by
    have c1 : candA r = none := by simp [candA, ht]
    have c2 : candAAAA r = some { name := r.name, ip := r.rdata, ttl := r.ttl } := by simp [candAAAA, ht, hl]
    have c3 : candCNAME m r = none := by simp [candCNAME, ht]
    have c4 : candPTR ip6 m r = none := by simp [candPTR, ht]
    simp only [specStep, c1, c2, c3, c4, insOpt_none, insOpt_ip]
    split <;> rfl
  rw [hs]
  apply triple_if
  · cases ent; rfl
  · intro h
    have := congrArg (fun e => e.ip6.length) h
    simp at this

theorem specStep_CNAME (ip6 : Bytes → PtrIP) (m : Bytes) (ent : DNSEntry) (r : RR) (o : Nat)
    (ct : Bytes) (ce cd : Nat) (ht : r.rtype = 5) (hc : decodeName? m r.rdataOff = some (ct, ce, cd)) :
    (specStep ip6 m ent r, o, decide (specStep ip6 m ent r ≠ ent)) =
      (if hasCName ent.cname r.name then (ent, o, false)
       else ({ ent with cname := ent.cname ++ [{ name := r.name, cname := ct, ttl := r.ttl }] }, o, true)) := by
  have hs : specStep ip6 m ent r =
      (if hasCName ent.cname r.name then { ent with cname := ent.cname }
       else { ent with cname := ent.cname ++ [{ name := r.name, cname := ct, ttl := r.ttl }] }) := by
    have c1 : candA r = none := by simp [candA, ht]
    have c2 : candAAAA r = none := by simp [candAAAA, ht]
    have c3 : candCNAME m r = some { name := r.name, cname := ct, ttl := r.ttl } := by simp [candCNAME, ht, hc]
    have c4 : candPTR ip6 m r = none := by simp [candPTR, ht]
    simp only [specStep, c1, c2, c3, c4, insOpt_none, insOpt_cname]
    split <;> rfl
  rw [hs]
  apply triple_if
  · cases ent; rfl
  · intro h
    have := congrArg (fun e => e.cname.length) h
    simp at this

theorem specStep_PTR (ip6 : Bytes → PtrIP) (m : Bytes) (ent : DNSEntry) (r : RR) (o : Nat)
    (pt : Bytes) (pe pd a b c d : Nat) (ht : r.rtype = 12)
    (hip : parsePtrIP ip6 (trimSuffix r.name inAddrArpa) = .v4 a b c d)
    (hc : decodeName? m r.rdataOff = some (pt, pe, pd)) :
    (specStep ip6 m ent r, o, decide (specStep ip6 m ent r ≠ ent)) =
      (if hasIPName ent.ptr pt then (ent, o, false)
       else ({ ent with ptr := ent.ptr ++ [{ name := pt, ip := [UInt8.ofNat d, UInt8.ofNat c, UInt8.ofNat b, UInt8.ofNat a], ttl := r.ttl }] }, o, true)) := by
  have hs : specStep ip6 m ent r =
      (if hasIPName ent.ptr pt then { ent with ptr := ent.ptr }
       else { ent with ptr := ent.ptr ++ [{ name := pt, ip := [UInt8.ofNat d, UInt8.ofNat c, UInt8.ofNat b, UInt8.ofNat a], ttl := r.ttl }] }) := by
    have c1 : candA r = none := by simp [candA, ht]
    have c2 : candAAAA r = none := by simp [candAAAA, ht]
    have c3 : candCNAME m r = none := by simp [candCNAME, ht]
    have c4 : candPTR ip6 m r = some { name := pt, ip := [UInt8.ofNat d, UInt8.ofNat c, UInt8.ofNat b, UInt8.ofNat a], ttl := r.ttl } := by
      simp [candPTR, ht, hip, hc]
    simp only [specStep, c1, c2, c3, c4, insOpt_none, insOpt_ptr]
    split <;> rfl
  rw [hs]
  apply triple_if
  · cases ent; rfl
  · intro h
    have := congrArg (fun e => e.ptr.length) h
    simp at this

/-- records that contribute nothing: any other type, or a PTR whose owner is not an IPv4
    reverse name -/
theorem specStep_skip (ip6 : Bytes → PtrIP) (m : Bytes) (ent : DNSEntry) (r : RR) (o : Nat)
    (hskip : (r.rtype ≠ 1 ∧ r.rtype ≠ 28 ∧ r.rtype ≠ 5 ∧ r.rtype ≠ 12) ∨
      (r.rtype = 12 ∧ ∀ a b c d, parsePtrIP ip6 (trimSuffix r.name inAddrArpa) ≠ .v4 a b c d)) :
    (specStep ip6 m ent r, o, decide (specStep ip6 m ent r ≠ ent)) = (ent, o, false) := by
  have hs : specStep ip6 m ent r = ent := by
    rcases hskip with ⟨n1, n28, n5, n12⟩ | ⟨h12, hnv4⟩
    · simp [specStep, candA, candAAAA, candCNAME, candPTR, n1, n28, n5, n12, insOpt]
    · have hp : candPTR ip6 m r = none := by
        unfold candPTR
        rw [if_pos h12]
        cases hq : parsePtrIP ip6 (trimSuffix r.name inAddrArpa) with
        | invalid => rfl
        | v6 => rfl
        | v4 a b c d => exact absurd hq (hnv4 a b c d)
      simp [specStep, candA, candAAAA, candCNAME, hp, h12, insOpt]
  rw [hs]; simp

end PV.Lemmas.Dns
