/-
  Lemmas about the integrity line of the DHCP lease file (`Model.Dhcp4File.sealFile / openFile`):
  hex round trip, shape of the line, what `openFile` makes of a file whose first line is intact / whose
  body is intact / that is shorter than a line; splitting a file into lines.
-/
import PacketVerif.Model.Dhcp4File
namespace PV.Lemmas.Dhcp4Seal
open PV PV.Model.Dhcp4Srv PV.Model.Dhcp4File

theorem hexVal_hexDigit : ∀ n : Fin 16, hexVal? (hexNib n.val) = some n.val := by decide

theorem hexDigit_ne_nl : ∀ n : Fin 16, hexNib n.val ≠ 10 := by decide

theorem unhex_hexOf : ∀ b : Bytes, unhex (hexOf b) = some b
  | [] => rfl
  | b :: rest => by
    have h1 := hexVal_hexDigit ⟨b.toNat / 16, by have := b.toNat_lt; omega⟩
    have h2 := hexVal_hexDigit ⟨b.toNat % 16, by omega⟩
    simp only [] at h1 h2
    simp only [hexOf, unhex, h1, h2, unhex_hexOf rest]
    have : 16 * (b.toNat / 16) + b.toNat % 16 = b.toNat := by omega
    rw [this]
    simp

theorem hexOf_length : ∀ b : Bytes, (hexOf b).length = 2 * b.length
  | [] => rfl
  | _ :: rest => by simp only [hexOf, List.length_cons, hexOf_length rest]; omega

theorem hexOf_no_nl : ∀ (b : Bytes) (c : UInt8), c ∈ hexOf b → c ≠ 10
  | [], c, h => by simp [hexOf] at h
  | b :: rest, c, h => by
    simp only [hexOf, List.mem_cons] at h
    rcases h with rfl | rfl | h
    · exact hexDigit_ne_nl ⟨b.toNat / 16, by have := b.toNat_lt; omega⟩
    · exact hexDigit_ne_nl ⟨b.toNat % 16, by omega⟩
    · exact hexOf_no_nl rest c h

theorem sealPrefix_length : sealPrefix.length = 10 := rfl

theorem sealLine_length (h : Hash) (body : Bytes) : (sealLine h body).length = 75 := by
  simp only [sealLine, List.length_append, sealPrefix_length, hexOf_length, h.len, List.length_singleton]

theorem sealFile_length (h : Hash) (body : Bytes) : (sealFile h body).length = 75 + body.length := by
  simp only [sealFile, List.length_append, sealLine_length]

/-- a file that begins with the integrity line of `body`: the line is well formed, so the rest decides -/
theorem open_line_intact (h : Hash) (body rest : Bytes) :
    openFile h (sealLine h body ++ rest) = if h.H rest = h.H body then .verified rest else .damaged := by
  have hl : (sealPrefix ++ hexOf (h.H body)).length = 74 := by
    simp only [List.length_append, sealPrefix_length, hexOf_length, h.len]
  have e : sealLine h body ++ rest = sealPrefix ++ (hexOf (h.H body) ++ ([10] ++ rest)) := by
    simp only [sealLine, List.append_assoc]
  have t10 : (sealLine h body ++ rest).take 10 = sealPrefix := by
    rw [e]; exact List.take_left' sealPrefix_length
  have d10 : (sealLine h body ++ rest).drop 10 = hexOf (h.H body) ++ ([10] ++ rest) := by
    rw [e]; exact List.drop_left' sealPrefix_length
  have t64 : ((sealLine h body ++ rest).drop 10).take 64 = hexOf (h.H body) := by
    rw [d10]; exact List.take_left' (by rw [hexOf_length, h.len])
  have d74 : (sealLine h body ++ rest).drop 74 = [10] ++ rest := by
    have : sealLine h body ++ rest = (sealPrefix ++ hexOf (h.H body)) ++ ([10] ++ rest) := by
      simp only [sealLine, List.append_assoc]
    rw [this]; exact List.drop_left' hl
  have d75 : (sealLine h body ++ rest).drop 75 = rest := List.drop_left' (sealLine_length h body)
  unfold openFile
  rw [t10, d74, t64, d75, unhex_hexOf]
  simp

theorem open_sealFile (h : Hash) (body : Bytes) : openFile h (sealFile h body) = .verified body := by
  unfold sealFile
  rw [open_line_intact]
  simp

/-- a file whose bytes from offset 75 on are `body`: whatever its first 75 bytes are, `openFile` either takes the legacy
    path, or verifies exactly `body`, or reports damage -/
theorem open_body_intact (h : Hash) (f body : Bytes) (hb : f.drop 75 = body) :
    openFile h f = .legacy f ∨ openFile h f = .verified body ∨ openFile h f = .damaged := by
  unfold openFile
  rw [hb]
  split
  · split
    · split
      · exact Or.inr (Or.inl rfl)
      · exact Or.inr (Or.inr rfl)
    · exact Or.inl rfl
  · exact Or.inl rfl

/-- a file shorter than an integrity line is a legacy file -/
theorem open_short (h : Hash) (f : Bytes) (hl : f.length ≤ 74) : openFile h f = .legacy f := by
  unfold openFile
  have : f.drop 74 = [] := List.drop_eq_nil_of_le hl
  simp [this]

/-- a file that does not begin with the keyword is a legacy file -/
theorem open_no_keyword (h : Hash) (f : Bytes) (hk : f.take 10 ≠ sealPrefix) : openFile h f = .legacy f := by
  unfold openFile
  simp [hk]

/-! ### lines -/

/-- `bytes.SplitAfter(f, "\n")` without the empty last piece: the lines of a file, each with its line break -/
def lines : Bytes → List Bytes
  | [] => []
  | b :: rest =>
    if b = 10 then [b] :: lines rest
    else
      match lines rest with
      | [] => [[b]]
      | l :: ls => (b :: l) :: ls

theorem join_lines : ∀ f : Bytes, (lines f).flatten = f
  | [] => rfl
  | b :: rest => by
    unfold lines
    by_cases hb : b = 10
    · simp only [hb, if_true, List.flatten_cons, List.singleton_append]
      rw [← hb, join_lines rest]
    · simp only [hb, if_false]
      have ih := join_lines rest
      cases hl : lines rest with
      | nil => rw [hl] at ih; simp at ih; simp [← ih]
      | cons l ls => rw [hl] at ih; simp only [List.flatten_cons] at ih ⊢; rw [← ih]; rfl

theorem lines_cons_ne (b : UInt8) (rest : Bytes) (hb : b ≠ 10) :
    lines (b :: rest) = (match lines rest with | [] => [[b]] | l :: ls => (b :: l) :: ls) := by
  rw [lines]; simp only [hb, if_false]

theorem lines_cons_nl (rest : Bytes) : lines (10 :: rest) = [10] :: lines rest := by
  rw [lines]; simp

/-- a first line without inner line break is the first element of `lines` -/
theorem lines_first : ∀ (l rest : Bytes), (∀ c, c ∈ l → c ≠ 10) → lines (l ++ [10] ++ rest) = (l ++ [10]) :: lines rest
  | [], rest, _ => by simpa using lines_cons_nl rest
  | b :: l, rest, h => by
    have hb : b ≠ 10 := h b (List.mem_cons_self ..)
    have ih := lines_first l rest (fun c hc => h c (List.mem_cons_of_mem _ hc))
    simp only [List.cons_append] at ih ⊢
    rw [lines_cons_ne _ _ hb, ih]

theorem lines_sealFile (h : Hash) (body : Bytes) : lines (sealFile h body) = sealLine h body :: lines body := by
  unfold sealFile sealLine
  apply lines_first
  intro c hc
  rcases List.mem_append.1 hc with hc | hc
  · have : ∀ c, c ∈ sealPrefix → c ≠ 10 := by decide
    exact this c hc
  · exact hexOf_no_nl _ c hc

end PV.Lemmas.Dhcp4Seal
