/-
  Lemmas about the mDNS history machine (Model/MdnsHist.lean): the cache as a finite map, what one
  `ProcessMDNS` step does to it, and the two history invariants (every entry was put by a cached response
  of that key; an entry stays while no response of its key arrives after its expiry).
-/
import PacketVerif.Model.MdnsHist
namespace PV.Lemmas.MdnsHist
open PV PV.Model.DnsMsg PV.Model.MdnsHist

/-! ### the cache as a map -/

theorem cfind_nil (k : Bytes) : cfind [] k = none := rfl

theorem cfind_cons (e : Bytes × Nat) (es : Cache) (k : Bytes) :
    cfind (e :: es) k = if e.1 = k then some e.2 else cfind es k := by
  unfold cfind
  by_cases h : e.1 = k
  · simp [List.find?, h]
  · simp [List.find?, h]

theorem cdel_cons (e : Bytes × Nat) (es : Cache) (k : Bytes) :
    cdel (e :: es) k = if e.1 = k then cdel es k else e :: cdel es k := by
  unfold cdel
  by_cases h : e.1 = k
  · simp [List.filter, h]
  · simp [List.filter, h]

theorem cfind_cdel_self (c : Cache) (k : Bytes) : cfind (cdel c k) k = none := by
  induction c with
  | nil => rfl
  | cons e es ih =>
    rw [cdel_cons]
    by_cases h : e.1 = k
    · rw [if_pos h]; exact ih
    · rw [if_neg h, cfind_cons, if_neg h]; exact ih

theorem cfind_cdel_other (c : Cache) (k k' : Bytes) (h : k' ≠ k) : cfind (cdel c k) k' = cfind c k' := by
  induction c with
  | nil => rfl
  | cons e es ih =>
    rw [cdel_cons]
    by_cases he : e.1 = k
    · rw [if_pos he, cfind_cons, if_neg (by rw [he]; exact fun x => h x.symm)]; exact ih
    · rw [if_neg he, cfind_cons, cfind_cons, ih]

theorem cfind_cput_self (c : Cache) (k : Bytes) (now : Nat) : cfind (cput c k now) k = some (now + ttl) := by
  unfold cput; rw [cfind_cons]; simp

theorem cfind_cput_other (c : Cache) (k k' : Bytes) (now : Nat) (h : k' ≠ k) :
    cfind (cput c k now) k' = cfind c k' := by
  unfold cput; rw [cfind_cons, if_neg (fun x => h x.symm)]; exact cfind_cdel_other c k k' h

/-- `getMDNSCache`: found exactly when an entry is there and not yet expired -/
theorem cget_found (c : Cache) (k : Bytes) (now : Nat) :
    (cget c k now).2 = true ↔ ∃ e, cfind c k = some e ∧ now < e := by
  unfold cget
  cases h : cfind c k with
  | none => simp
  | some e =>
    by_cases hl : now < e
    · simp [hl]
    · simp [hl]

theorem cget_found_cache (c : Cache) (k : Bytes) (now : Nat) (h : (cget c k now).2 = true) : (cget c k now).1 = c := by
  unfold cget at h ⊢
  cases hf : cfind c k with
  | none => simp [hf] at h
  | some e =>
    by_cases hl : now < e
    · simp [hl]
    · simp [hf, hl] at h

/-- a lookup that misses leaves no entry under the key (an expired one is deleted), other keys untouched -/
theorem cget_miss_self (c : Cache) (k : Bytes) (now : Nat) (h : (cget c k now).2 = false) :
    cfind (cget c k now).1 k = none := by
  unfold cget at h ⊢
  cases hf : cfind c k with
  | none => simpa using hf
  | some e =>
    by_cases hl : now < e
    · simp [hf, hl] at h
    · simp [hl]; exact cfind_cdel_self c k

theorem cget_other (c : Cache) (k k' : Bytes) (now : Nat) (hk : k' ≠ k) : cfind (cget c k now).1 k' = cfind c k' := by
  unfold cget
  cases hf : cfind c k with
  | none => rfl
  | some e =>
    by_cases hl : now < e
    · simp [hl]
    · simp [hl]; exact cfind_cdel_other c k k' hk

/-! ### one step -/

theorem keyOf_none {m : Msg} : keyOf m = none ↔ ∃ e, start m.payload = .error e := by
  unfold keyOf
  cases h : start m.payload with
  | error e => simp
  | ok v => simp

theorem keyOf_some {m : Msg} {k : Bytes} {r : Bool} :
    keyOf m = some (k, r) ↔ ∃ p hdr, start m.payload = .ok (p, hdr) ∧ k = mkKey m.mac hdr.id ∧ r = hdr.response := by
  unfold keyOf
  cases h : start m.payload with
  | error e => simp
  | ok v =>
    obtain ⟨p, hdr⟩ := v
    simp only [Option.some.injEq, Prod.mk.injEq, Except.ok.injEq]
    constructor
    · rintro ⟨rfl, rfl⟩; exact ⟨p, hdr, ⟨rfl, rfl⟩, rfl, rfl⟩
    · rintro ⟨p', hdr', hph, rfl, rfl⟩
      obtain ⟨rfl, rfl⟩ := hph
      exact ⟨rfl, rfl⟩

/-- the step of message `m` on cache `c` -/
abbrev stepOf (c : Cache) (m : Msg) : StepOut := stepMsg c m.now m.mac m.payload

/-- the single-message function (the code on an empty cache) -/
abbrev single (m : Msg) : Outcome MdnsOut := processMDNS (mdnsBound m.payload) m.payload

/-- `stepMsg` with the header result and the single-message result as parameters -/
def stepCore (c : Cache) (now : Nat) (mac : Bytes) (st : R (Parser × MsgHeader)) (S : Outcome MdnsOut) : StepOut :=
  match st with
  | .error _ => { cache := c, kind := .bad, out := S }
  | .ok (_, hdr) =>
    if !hdr.response then { cache := c, kind := .query, out := S }
    else
      let k := mkKey mac hdr.id
      match cget c k now with
      | (c1, true) => { cache := c1, kind := .dup, out := .ok dupOut }
      | (c1, false) =>
        match S with
        | .ok o => if o.err then { cache := c1, kind := .failed, out := S }
                   else { cache := cput c1 k now, kind := .cached, out := S }
        | r => { cache := c1, kind := .failed, out := r }

theorem stepMsg_core (c : Cache) (now : Nat) (mac payload : Bytes) :
    stepMsg c now mac payload = stepCore c now mac (start payload) (processMDNS (mdnsBound payload) payload) := rfl

theorem step_bad (c : Cache) (m : Msg) (h : keyOf m = none) :
    (stepOf c m).cache = c ∧ (stepOf c m).kind = .bad ∧ (stepOf c m).out = single m := by
  obtain ⟨e, he⟩ := keyOf_none.mp h
  simp only [stepOf, single, stepMsg_core, he]
  generalize processMDNS (mdnsBound m.payload) m.payload = S
  exact ⟨rfl, rfl, rfl⟩

theorem step_query (c : Cache) (m : Msg) (k : Bytes) (h : keyOf m = some (k, false)) :
    (stepOf c m).cache = c ∧ (stepOf c m).kind = .query ∧ (stepOf c m).out = single m := by
  obtain ⟨p, hdr, hs, _, hr⟩ := keyOf_some.mp h
  simp only [stepOf, single, stepMsg_core, hs]
  generalize processMDNS (mdnsBound m.payload) m.payload = S
  unfold stepCore
  simp only [← hr]
  exact ⟨rfl, rfl, rfl⟩

/-- a response whose key is found: dropped, cache untouched -/
theorem step_resp_found (c : Cache) (m : Msg) (k : Bytes) (h : keyOf m = some (k, true))
    (hf : (cget c k m.now).2 = true) :
    (stepOf c m).cache = c ∧ (stepOf c m).kind = .dup ∧ (stepOf c m).out = .ok dupOut := by
  obtain ⟨p, hdr, hs, hk, hr⟩ := keyOf_some.mp h
  have hc := cget_found_cache c k m.now hf
  simp only [stepOf, stepMsg_core, hs]
  generalize processMDNS (mdnsBound m.payload) m.payload = S
  unfold stepCore
  simp only [← hr, ← hk]
  cases hg : cget c k m.now with
  | mk c1 f =>
    rw [hg] at hf hc
    simp only [] at hf hc
    subst hf; subst hc
    exact ⟨rfl, rfl, rfl⟩

/-- a response whose key is not found: processed as the single-message function says; remembered iff it ends
    without error -/
theorem step_resp_miss (c : Cache) (m : Msg) (k : Bytes) (h : keyOf m = some (k, true))
    (hf : (cget c k m.now).2 = false) :
    (stepOf c m).out = single m ∧
    (((stepOf c m).kind = .cached ∧ (stepOf c m).cache = cput (cget c k m.now).1 k m.now ∧
        ∃ o, single m = .ok o ∧ o.err = false) ∨
     ((stepOf c m).kind = .failed ∧ (stepOf c m).cache = (cget c k m.now).1 ∧
        ∀ o, single m = .ok o → o.err = true)) := by
  obtain ⟨p, hdr, hs, hk, hr⟩ := keyOf_some.mp h
  simp only [stepOf, single, stepMsg_core, hs]
  generalize processMDNS (mdnsBound m.payload) m.payload = S
  unfold stepCore
  simp only [← hr, ← hk]
  cases hg : cget c k m.now with
  | mk c1 f =>
    rw [hg] at hf
    simp only [] at hf
    subst hf
    cases S with
    | ok o =>
      cases he : o.err with
      | true =>
        refine ⟨by simp [he], Or.inr ⟨by simp [he], by simp [he], ?_⟩⟩
        intro o' ho'; injection ho' with ho'; subst ho'; exact he
      | false =>
        exact ⟨by simp [he], Or.inl ⟨by simp [he], by simp [he], o, rfl, he⟩⟩
    | err e => exact ⟨rfl, Or.inr ⟨rfl, rfl, fun o ho => by cases ho⟩⟩
    | panic => exact ⟨rfl, Or.inr ⟨rfl, rfl, fun o ho => by cases ho⟩⟩
    | hang => exact ⟨rfl, Or.inr ⟨rfl, rfl, fun o ho => by cases ho⟩⟩

/-- the kind of a step tells what the message was -/
theorem step_kind (c : Cache) (m : Msg) :
    (keyOf m = none ∧ (stepOf c m).kind = .bad) ∨
    (∃ k, keyOf m = some (k, false) ∧ (stepOf c m).kind = .query) ∨
    (∃ k, keyOf m = some (k, true) ∧ ((stepOf c m).kind = .dup ∨ (stepOf c m).kind = .cached ∨ (stepOf c m).kind = .failed)) := by
  cases hk : keyOf m with
  | none => exact Or.inl ⟨rfl, (step_bad c m hk).2.1⟩
  | some v =>
    obtain ⟨k, r⟩ := v
    cases r with
    | false => exact Or.inr (Or.inl ⟨k, rfl, (step_query c m k hk).2.1⟩)
    | true =>
      refine Or.inr (Or.inr ⟨k, rfl, ?_⟩)
      cases hf : (cget c k m.now).2 with
      | true => exact Or.inl (step_resp_found c m k hk hf).2.1
      | false =>
        rcases (step_resp_miss c m k hk hf).2 with h | h
        · exact Or.inr (Or.inl h.1)
        · exact Or.inr (Or.inr h.1)

/-- a step touches the cache only under the key of a RESPONSE -/
theorem step_cfind_other (c : Cache) (m : Msg) (k : Bytes) (h : keyOf m ≠ some (k, true)) :
    cfind (stepOf c m).cache k = cfind c k := by
  cases hk : keyOf m with
  | none => rw [(step_bad c m hk).1]
  | some v =>
    obtain ⟨k2, r⟩ := v
    cases r with
    | false => rw [(step_query c m k2 hk).1]
    | true =>
      have hne : k ≠ k2 := by intro he; subst he; exact h hk
      cases hf : (cget c k2 m.now).2 with
      | true => rw [(step_resp_found c m k2 hk hf).1]
      | false =>
        rcases (step_resp_miss c m k2 hk hf).2 with ⟨_, hc, _⟩ | ⟨_, hc, _⟩
        · rw [hc, cfind_cput_other _ _ _ _ hne, cget_other _ _ _ _ hne]
        · rw [hc, cget_other _ _ _ _ hne]

/-- a response is dropped exactly when a live entry is there -/
theorem step_dup_iff (c : Cache) (m : Msg) (k : Bytes) (h : keyOf m = some (k, true)) :
    (stepOf c m).kind = .dup ↔ ∃ e, cfind c k = some e ∧ m.now < e := by
  rw [← cget_found]
  cases hf : (cget c k m.now).2 with
  | true => simp [(step_resp_found c m k h hf).2.1]
  | false =>
    rcases (step_resp_miss c m k h hf).2 with ⟨hk, _⟩ | ⟨hk, _⟩ <;> simp [hk]

theorem step_dup_key (c : Cache) (m : Msg) (h : (stepOf c m).kind = .dup) : ∃ k, keyOf m = some (k, true) := by
  rcases step_kind c m with ⟨_, hk⟩ | ⟨_, _, hk⟩ | ⟨k, hk, _⟩
  · rw [hk] at h; cases h
  · rw [hk] at h; cases h
  · exact ⟨k, hk⟩

/-- the entry under the key of a response after its step -/
theorem step_cfind_same (c : Cache) (m : Msg) (k : Bytes) (h : keyOf m = some (k, true)) :
    ((stepOf c m).kind = .dup → (stepOf c m).cache = c) ∧
    ((stepOf c m).kind = .cached → cfind (stepOf c m).cache k = some (m.now + ttl)) ∧
    ((stepOf c m).kind = .failed → cfind (stepOf c m).cache k = none) := by
  cases hf : (cget c k m.now).2 with
  | true =>
    obtain ⟨hc, hk, _⟩ := step_resp_found c m k h hf
    refine ⟨fun _ => hc, ?_, ?_⟩ <;> (intro hx; rw [hk] at hx; cases hx)
  | false =>
    rcases (step_resp_miss c m k h hf).2 with ⟨hk, hc, _⟩ | ⟨hk, hc, _⟩
    · refine ⟨?_, fun _ => by rw [hc]; exact cfind_cput_self _ _ _, ?_⟩ <;> (intro hx; rw [hk] at hx; cases hx)
    · refine ⟨?_, ?_, fun _ => by rw [hc]; exact cget_miss_self c k m.now hf⟩ <;> (intro hx; rw [hk] at hx; cases hx)

/-! ### histories -/

theorem runFrom_append (c : Cache) (a b : List Msg) :
    runFrom c (a ++ b) = ((runFrom c a).1 ++ (runFrom (runFrom c a).2 b).1, (runFrom (runFrom c a).2 b).2) := by
  induction a generalizing c with
  | nil => simp [runFrom]
  | cons m ms ih =>
    simp only [List.cons_append, runFrom]
    rw [ih]

theorem runFrom_cons_cache (c : Cache) (m : Msg) (ms : List Msg) :
    (runFrom c (m :: ms)).2 = (runFrom (stepOf c m).cache ms).2 := by
  simp [runFrom]

/-- **every entry was put by a cached response of its key** (from any starting cache: or it was there before) -/
theorem cache_sound_from (h : List Msg) : ∀ (c : Cache) (k : Bytes) (e : Nat),
    cfind (runFrom c h).2 k = some e →
    cfind c k = some e ∨
    ∃ a m b, h = a ++ m :: b ∧ keyOf m = some (k, true) ∧ (stepOf (runFrom c a).2 m).kind = .cached ∧ e = m.now + ttl := by
  induction h with
  | nil => intro c k e he; exact Or.inl (by simpa [runFrom] using he)
  | cons m0 rest ih =>
    intro c k e he
    rw [runFrom_cons_cache] at he
    rcases ih (stepOf c m0).cache k e he with h1 | ⟨a, m, b, hd, hk, hc, hE⟩
    · by_cases hk0 : keyOf m0 = some (k, true)
      · obtain ⟨hdup, hcached, hfailed⟩ := step_cfind_same c m0 k hk0
        rcases step_kind c m0 with ⟨hn, _⟩ | ⟨_, hq, _⟩ | ⟨_, _, hd | hca | hfa⟩
        · rw [hn] at hk0; cases hk0
        · rw [hq] at hk0; cases hk0
        · left; rw [hdup hd] at h1; exact h1
        · right
          refine ⟨[], m0, rest, rfl, hk0, by simpa [runFrom] using hca, ?_⟩
          have := hcached hca; rw [this] at h1; injection h1 with h1; exact h1.symm
        · have := hfailed hfa; rw [this] at h1; cases h1
      · left; rw [step_cfind_other c m0 k hk0] at h1; exact h1
    · right
      refine ⟨m0 :: a, m, b, by rw [hd]; rfl, hk, ?_, hE⟩
      rw [runFrom_cons_cache]; exact hc

/-- **an entry stays** while no response of its key arrives at or after its expiry -/
theorem entry_persists (mid : List Msg) : ∀ (c : Cache) (k : Bytes) (e : Nat), cfind c k = some e →
    (∀ j ∈ mid, keyOf j = some (k, true) → j.now < e) → cfind (runFrom c mid).2 k = some e := by
  induction mid with
  | nil => intro c k e h _; simpa [runFrom] using h
  | cons m0 rest ih =>
    intro c k e h hall
    rw [runFrom_cons_cache]
    apply ih _ k e _ (fun j hj => hall j (List.mem_cons_of_mem _ hj))
    by_cases hk0 : keyOf m0 = some (k, true)
    · have hlt := hall m0 (List.mem_cons_self ..) hk0
      have hd := (step_dup_iff c m0 k hk0).mpr ⟨e, h, hlt⟩
      rw [(step_cfind_same c m0 k hk0).1 hd]; exact h
    · rw [step_cfind_other c m0 k hk0]; exact h

/-! ### the only error-free return of the response branch is the end of the additional section -/

theorem mdnsStep_done_noerr (s : MdnsState) (o : MdnsOut) (h : mdnsStep s = .done o) (he : o.err = false) :
    o = finalize s.model s.v4 s.v6 := by
  have skipOr_done : ∀ p1, skipOr s p1 = .done o → False := by
    intro p1 hs
    unfold skipOr at hs
    split at hs
    · cases hs
    · injection hs with hs; subst hs; simp at he
  have pos_done : ∀ {α : Type} (p1 : Parser) (t : Nat) (u : Bytes → Nat → Nat → R α) (kf : α → MdnsState → MdnsState),
      parseOrSkip s p1 t u kf = .done o → False := by
    intro α p1 t u kf hs
    unfold parseOrSkip at hs
    split at hs
    · cases hs
    · exact skipOr_done p1 hs
  unfold mdnsStep at h
  split at h
  · split at h
    · injection h with h; exact h.symm
    · cases h
  · injection h with h; subst h; simp at he
  · simp only [] at h
    split at h
    · split at h
      · cases h
      · injection h with h; subst h; simp at he
    · split at h
      · split at h
        · cases h
        · injection h with h; subst h; simp at he
      · split at h
        · exact (pos_done _ _ _ _ h).elim
        · split at h
          · exact (pos_done _ _ _ _ h).elim
          · split at h
            · exact (pos_done _ _ _ _ h).elim
            · split at h
              · exact (pos_done _ _ _ _ h).elim
              · exact (skipOr_done _ h).elim

/-- a run of the record loop that returns without error returned from the end of the additional section
    (the place where the code calls `putMDNSCache`) -/
theorem mdnsLoop_ok_noerr_is_finalize : ∀ (fuel : Nat) (s : MdnsState) (o : MdnsOut),
    mdnsLoop fuel s = .ok o → o.err = false → ∃ model v4 v6, o = finalize model v4 v6 := by
  intro fuel
  induction fuel with
  | zero => intro s o h; simp [mdnsLoop] at h
  | succ n ih =>
    intro s o h he
    rw [mdnsLoop] at h
    cases hs : mdnsStep s with
    | done o' =>
      rw [hs] at h
      injection h with h; subst h
      exact ⟨_, _, _, mdnsStep_done_noerr s o' hs he⟩
    | next s' =>
      rw [hs] at h
      exact ih s' o h he

end PV.Lemmas.MdnsHist
