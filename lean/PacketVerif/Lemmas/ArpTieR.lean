/-
  Lemmas for Props/C13ArpTie, part 3: the regenerated API functions and one pass of `spoofLoop` as steps of
  the hunt machine (Model/ArpHunt.lean) under the refinement relation `Rel`.
-/
import PacketVerif.Lemmas.ArpTieP
set_option linter.unusedSimpArgs false
namespace PV.Lemmas.ArpTie
open PV PV.Model PV.Model.ArpGo PV.Gen.Arp PV.Model.ArpHunt

/-- the handler record of the regenerated code against the state of the hunt machine: same keys in the hunt
    list, same `closed` flag (and `closeChan` closed exactly then), one machine loop per started goroutine,
    each with the MAC it was started for -/
structure Rel (st : HSt) (s : State) : Prop where
  hunt : s.hunt = keys st.hunt
  closed : s.closed = st.closed
  ch : st.chClosed = st.closed
  nloops : s.nloops = st.spawned.length
  macs : ∀ i (h : i < st.spawned.length), (s.loops i).mac = (st.spawned[i]).1

theorem setPc_mac (s : State) (i j : Nat) (pc : Pc) : ((setPc s i pc).loops j).mac = (s.loops j).mac := by
  unfold setPc updLoop; by_cases h : j = i <;> simp [h]

theorem setPc_pc (s : State) (i : Nat) (pc : Pc) : ((setPc s i pc).loops i).pc = pc := by
  unfold setPc updLoop; simp

theorem Rel_setPc {st : HSt} {s : State} (h : Rel st s) (i : Nat) (pc : Pc) (ho : Option Holder) :
    Rel st { setPc s i pc with holder := ho } :=
  ⟨h.hunt, h.closed, h.ch, h.nloops, fun j hj => by rw [← h.macs j hj]; exact setPc_mac s i j pc⟩

theorem Rel_sent {st : HSt} {s : State} (h : Rel st s) (x : List (Bytes × Bytes)) : Rel { st with sent := x } s :=
  ⟨h.hunt, h.closed, h.ch, h.nloops, h.macs⟩

theorem sendFrame_ok {e : Env} {st st' : HSt} {dst : Bytes} {op : Nat} {a b c d : Bytes} {r : Option Err}
    (h : sendFrame e st dst op a b c d = .ok (st', r)) :
    ∃ f, sendARP e.pool e.cfg.parse.hostMAC dst op a b c d = .ok f ∧
      ((r = none ∧ st' = { st with sent := st.sent ++ [(f, dst)] }) ∨ (r = some .other ∧ st' = st)) := by
  unfold sendFrame at h
  cases hs : sendARP e.pool e.cfg.parse.hostMAC dst op a b c d with
  | ok f =>
    refine ⟨f, rfl, ?_⟩
    rw [hs] at h; simp only [Outcome.bind_ok] at h
    unfold connWriteTo at h
    cases hc : e.conn <;> rw [hc] at h <;> simp only [Outcome.ok.injEq, Prod.mk.injEq, reduceCtorEq] at h
    · exact .inr ⟨h.2.symm, h.1.symm⟩
    · exact .inl ⟨h.2.symm, h.1.symm⟩
  | err x => rw [hs] at h; cases h
  | panic => rw [hs] at h; cases h
  | hang => rw [hs] at h; cases h

/-! ### StartHunt / StopHunt / Close -/

theorem startHunt_step (e : Env) (st : HSt) (s : State) (mac ip : Bytes) (hr : Rel st s) (hf : s.holder = none) :
    ∃ st' stage err s' o, Handler_StartHunt e st mac ip = .ok (st', stage, err) ∧
      step s (.startHunt mac (!(macIsNil mac || !ipIs4 ip))) = some (s', o) ∧ Rel st' s' ∧
      (err = some .invalidIP ∧ o = .startErr ∧ stage = 0 ∨ err = none ∧ o = .startOk ∧ stage = 2) := by
  rw [StartHunt_eq]
  cases hc : (macIsNil mac || !ipIs4 ip)
  · simp only [Bool.false_eq_true, if_false, Bool.not_false, step, not_true_eq_false, free, hf]
    by_cases hk : mac ∈ keys st.hunt
    · rw [if_pos hk, if_pos (by rw [hr.hunt]; exact hk)]
      exact ⟨st, 2, none, s, .startOk, rfl, rfl, hr, .inr ⟨rfl, rfl, rfl⟩⟩
    · rw [if_neg hk, if_neg (by rw [hr.hunt]; exact hk)]
      refine ⟨_, 2, none, _, .startOk, rfl, rfl, ?_, .inr ⟨rfl, rfl, rfl⟩⟩
      refine ⟨by simp [hr.hunt, keys, spawn], hr.closed, hr.ch, by simp [spawn, hr.nloops], ?_⟩
      intro i hi
      simp only [spawn, List.length_append, List.length_cons, List.length_nil] at hi
      simp only [spawn, updLoop]
      by_cases hlt : i < st.spawned.length
      · rw [if_neg (by rw [hr.nloops]; omega), List.getElem_append_left hlt]; exact hr.macs i hlt
      · have : i = st.spawned.length := by omega
        subst this
        rw [if_pos hr.nloops.symm]; simp
  · simp only [if_true, Bool.not_true, step, Bool.false_eq_true, not_false_eq_true]
    exact ⟨st, 0, some .invalidIP, s, .startErr, rfl, rfl, hr, .inl ⟨rfl, rfl, rfl⟩⟩

theorem stopHunt_step (e : Env) (st : HSt) (s : State) (mac ip : Bytes) (hr : Rel st s) (hf : s.holder = none) :
    ∃ st' s', Handler_StopHunt e st mac ip = .ok (st', 1, none) ∧ step s (.stopHunt mac ip) = some (s', .none) ∧ Rel st' s' := by
  rw [StopHunt_eq]
  refine ⟨_, { s with hunt := s.hunt.erase mac }, rfl, by simp [step, free, hf], ?_⟩
  exact ⟨by simp [keys_mapDel, hr.hunt], hr.closed, hr.ch, hr.nloops, hr.macs⟩

theorem close_step (e : Env) (st : HSt) (s : State) (hr : Rel st s) (hf : s.holder = none) :
    ∃ st' s', Handler_Close e st = .ok (st', none) ∧ step s .close = some (s', .none) ∧ Rel st' s' ∧ st'.closed = true := by
  rw [Close_eq]
  cases hc : st.closed
  · have hch : st.chClosed = false := by rw [hr.ch, hc]
    refine ⟨{ st with closed := true, chClosed := true }, { s with closed := true }, ?_, by simp [step, free, hf], ?_, rfl⟩
    · simp [chanClose, hch]
    · exact ⟨hr.hunt, rfl, rfl, hr.nloops, hr.macs⟩
  · refine ⟨st, { s with closed := true }, by simp, by simp [step, free, hf], ?_, hc⟩
    exact ⟨hr.hunt, hc.symm, hr.ch, hr.nloops, hr.macs⟩

/-! ### one pass of `spoofLoop` -/

/-- every entry of the hunt list is stored under the MAC of its value (`huntList[string(addr.MAC)] = addr`) -/
def KeyedByMAC (st : HSt) : Prop := ∀ x ∈ st.hunt, x.2.1 = x.1

theorem mapLookup_keyed (st : HSt) (hv : KeyedByMAC st) (mac : Bytes) (h : (mapLookup st.hunt mac).2.2 = true) :
    (mapLookup st.hunt mac).1 = mac := by
  unfold mapLookup at h ⊢
  cases hf : st.hunt.find? (fun x => x.1 == mac) with
  | none => rw [hf] at h; cases h
  | some x =>
    simp only
    have h1 := hv x (List.mem_of_find?_eq_some hf)
    have h2 := List.find?_some hf
    rw [h1]; simpa using h2

theorem startHunt_keyed (e : Env) (st st' : HSt) (mac ip : Bytes) (r : Nat × Option Err) (hv : KeyedByMAC st)
    (h : Handler_StartHunt e st mac ip = .ok (st', r)) : KeyedByMAC st' := by
  rw [StartHunt_eq] at h
  split at h
  · cases h; exact hv
  · split at h
    · cases h; exact hv
    · cases h
      intro x hx
      simp only [spawn, List.mem_cons] at hx
      rcases hx with rfl | hx
      · rfl
      · exact hv x hx

theorem stopHunt_keyed (e : Env) (st st' : HSt) (mac ip : Bytes) (r : Nat × Option Err) (hv : KeyedByMAC st)
    (h : Handler_StopHunt e st mac ip = .ok (st', r)) : KeyedByMAC st' := by
  rw [StopHunt_eq] at h; cases h
  intro x hx; exact hv x (List.mem_of_mem_eraseP hx)

theorem run_check_forge (s : State) (i : Nat) (hpc : (s.loops i).pc = .check) (hf : s.holder = none)
    (hcl : s.closed = false) (hin : (s.loops i).mac ∈ s.hunt) :
    run s [.check i, .forge i] =
      some ({ setPc { setPc s i .forge with holder := some (.loop i) } i .wait with holder := none }, [.none, .forged (s.loops i).mac]) := by
  have h1 : step s (.check i) = some ({ setPc s i .forge with holder := some (.loop i) }, .none) := by
    simp only [step]; rw [if_pos ⟨hpc, hf⟩, if_neg (by simp [hcl]), if_pos hin]
  have h2 : step { setPc s i .forge with holder := some (.loop i) } (.forge i) =
      some ({ setPc { setPc s i .forge with holder := some (.loop i) } i .wait with holder := none }, .forged (s.loops i).mac) := by
    simp only [step]; rw [if_pos (setPc_pc s i .forge)]
    have : ((setPc s i .forge).loops i).mac = (s.loops i).mac := setPc_mac s i i .forge
    rw [this]
  simp only [run, h1, h2]

theorem run_check_restore (s : State) (i : Nat) (hpc : (s.loops i).pc = .check) (hf : s.holder = none)
    (hcl : s.closed = false) (hin : ¬ (s.loops i).mac ∈ s.hunt) :
    run s [.check i, .restore i] =
      some ({ setPc { setPc s i .restore with holder := some (.loop i) } i .done with holder := none }, [.none, .restoring (s.loops i).mac]) := by
  have h1 : step s (.check i) = some ({ setPc s i .restore with holder := some (.loop i) }, .none) := by
    simp only [step]; rw [if_pos ⟨hpc, hf⟩, if_neg (by simp [hcl]), if_neg hin]
  have h2 : step { setPc s i .restore with holder := some (.loop i) } (.restore i) =
      some ({ setPc { setPc s i .restore with holder := some (.loop i) } i .done with holder := none }, .restoring (s.loops i).mac) := by
    simp only [step]; rw [if_pos (setPc_pc s i .restore)]
    have : ((setPc s i .restore).loops i).mac = (s.loops i).mac := setPc_mac s i i .restore
    rw [this]
  simp only [run, h1, h2]

/-- hunted and open: the pass is `check i ; forge i` of the machine – the forged announcement goes to the
    loop's own MAC, the loop then waits -/
theorem spoofLoop_forge (e : Env) (st st' : HSt) (s : State) (i : Nat) (mac ip : Bytes)
    (hr : Rel st s) (hf : s.holder = none) (hv : KeyedByMAC st)
    (hmac : (s.loops i).mac = mac) (hpc : (s.loops i).pc = .check)
    (hh : mac ∈ keys st.hunt) (hc : st.closed = false)
    (hs : sendFrame e st mac 1 e.cfg.parse.hostMAC e.cfg.routerIP ethernetBroadcast e.cfg.routerIP = .ok (st', none)) :
    Handler_spoofLoop_iter e st mac ip = .ok (st', .wait) ∧
      ∃ s', run s [.check i, .forge i] = some (s', [.none, .forged mac]) ∧ Rel st' s' ∧ (s'.loops i).pc = .wait ∧ s'.holder = none := by
  have hl : (mapLookup st.hunt mac).2.2 = true := by rw [mapLookup_ok]; simpa using hh
  constructor
  · rw [spoofLoop_eq, if_pos ⟨hl, hc⟩, mapLookup_keyed st hv mac hl, hs]; rfl
  · obtain ⟨f, _, hcase⟩ := sendFrame_ok hs
    have hst' : st' = { st with sent := st.sent ++ [(f, mac)] } := by
      rcases hcase with ⟨_, h⟩ | ⟨h, _⟩
      · exact h
      · cases h
    have hcl : s.closed = false := by rw [hr.closed, hc]
    have hin : (s.loops i).mac ∈ s.hunt := by rw [hmac, hr.hunt]; exact hh
    refine ⟨{ setPc { setPc s i .forge with holder := some (.loop i) } i .wait with holder := none }, ?_, ?_, ?_, rfl⟩
    · rw [run_check_forge s i hpc hf hcl hin, hmac]
    · rw [hst']; exact Rel_sent (Rel_setPc (Rel_setPc hr i .forge _) i .wait none) _
    · exact setPc_pc _ i .wait

/-- not hunted any more and open: the pass is `check i ; restore i` – the restoring request (the router's
    real MAC and IP) goes to the loop's MAC and the goroutine ends -/
theorem spoofLoop_restore (e : Env) (st st' : HSt) (s : State) (i : Nat) (mac ip : Bytes) (r : Option Err)
    (hr : Rel st s) (hf : s.holder = none)
    (hmac : (s.loops i).mac = mac) (hpc : (s.loops i).pc = .check)
    (hh : mac ∉ keys st.hunt) (hc : st.closed = false)
    (hs : sendFrame e st mac 1 e.cfg.parse.routerMAC e.cfg.routerIP e.cfg.parse.routerMAC e.cfg.routerIP = .ok (st', r)) :
    Handler_spoofLoop_iter e st mac ip = .ok (st', .ret) ∧
      ∃ s', run s [.check i, .restore i] = some (s', [.none, .restoring mac]) ∧ Rel st' s' ∧ (s'.loops i).pc = .done ∧ s'.holder = none := by
  have hl : (mapLookup st.hunt mac).2.2 = false := by rw [mapLookup_ok]; simpa using hh
  constructor
  · rw [spoofLoop_eq, if_neg (by simp [hl]), if_pos hc, hs]; rfl
  · obtain ⟨f, _, hcase⟩ := sendFrame_ok hs
    have hcl : s.closed = false := by rw [hr.closed, hc]
    have hin : ¬ (s.loops i).mac ∈ s.hunt := by rw [hmac, hr.hunt]; exact hh
    refine ⟨{ setPc { setPc s i .restore with holder := some (.loop i) } i .done with holder := none }, ?_, ?_, ?_, rfl⟩
    · rw [run_check_restore s i hpc hf hcl hin, hmac]
    · have hrel := Rel_setPc (Rel_setPc hr i .restore (some (.loop i))) i .done none
      rcases hcase with ⟨_, h⟩ | ⟨_, h⟩
      · rw [h]; exact Rel_sent hrel _
      · rw [h]; exact hrel
    · exact setPc_pc _ i .done

/-- closed: the pass is `check i` – nothing is written, the goroutine ends -/
theorem spoofLoop_closed (e : Env) (st : HSt) (s : State) (i : Nat) (mac ip : Bytes)
    (hr : Rel st s) (hf : s.holder = none) (hpc : (s.loops i).pc = .check) (hc : st.closed = true) :
    Handler_spoofLoop_iter e st mac ip = .ok (st, .ret) ∧
      ∃ s', run s [.check i] = some (s', [.none]) ∧ Rel st s' ∧ (s'.loops i).pc = .done ∧ s'.holder = none := by
  constructor
  · rw [spoofLoop_eq, if_neg (by simp [hc]), if_neg (by simp [hc])]
  · have hcl : s.closed = true := by rw [hr.closed, hc]
    refine ⟨setPc s i .done, ?_, ?_, setPc_pc _ i .done, ?_⟩
    · simp only [run, step]; rw [if_pos ⟨hpc, hf⟩, if_pos hcl]
    · have := Rel_setPc hr i .done s.holder; exact this
    · exact hf

end PV.Lemmas.ArpTie
