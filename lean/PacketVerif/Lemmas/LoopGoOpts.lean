/-
  Helper lemmas for the option / TLV parser ties (Props/C08OptTie.lean): the `Int`-indexed primitives of Model/LoopGo
  at natural-number positions are the `Nat`-indexed primitives of Basic; lookups of the generated map type.
-/
import PacketVerif.Model.LoopGoOpts
import PacketVerif.Lemmas.LoopGo
namespace PV.Lemmas.LoopGoOpts
open PV PV.Model.LoopGo PV.Model.LoopGoOpts

/-- the value part of an outcome mapped, error / panic / hang kept -/
def omap {α β} (f : α → β) : Outcome α → Outcome β
  | .ok a => .ok (f a)
  | .err e => .err e
  | .panic => .panic
  | .hang => .hang

@[simp] theorem omap_ok {α β} (f : α → β) (a : α) : omap f (.ok a) = .ok (f a) := rfl
@[simp] theorem omap_err {α β} (f : α → β) (e : Err) : omap f (.err e : Outcome α) = .err e := rfl
@[simp] theorem omap_panic {α β} (f : α → β) : omap f (.panic : Outcome α) = .panic := rfl
@[simp] theorem omap_hang {α β} (f : α → β) : omap f (.hang : Outcome α) = .hang := rfl

theorem omap_bind {α β γ} (f : β → γ) (x : Outcome α) (g : α → Outcome β) :
    omap f (x >>= g) = x >>= fun a => omap f (g a) := by
  cases x <;> rfl

theorem bind_congr' {α β} (x : Outcome α) (f g : α → Outcome β) (h : ∀ a, f a = g a) : (x >>= f) = (x >>= g) := by
  cases x <;> simp [h]

theorem idxI_zero (b : Bytes) : idxI b (0 : Int) = idx b 0 := by simp [idxI]
theorem idxI_one (b : Bytes) : idxI b (1 : Int) = idx b 1 := by simp [idxI]

theorem idxI_ofNat (b : Bytes) (n : Nat) : idxI b (Int.ofNat n) = idx b n := by simp [idxI]

/-- `b[n:]` -/
theorem sliceI_from (b : Bytes) (n : Nat) : sliceI b (n : Int) (b.length : Int) = sliceFrom b n := by
  unfold sliceI sliceFrom
  by_cases h : n ≤ b.length
  · have : (0 : Int) ≤ n ∧ (n : Int) ≤ b.length ∧ (b.length : Int) ≤ b.length := by omega
    simp [h, this]
  · have : ¬ ((0 : Int) ≤ n ∧ (n : Int) ≤ b.length ∧ (b.length : Int) ≤ b.length) := by omega
    simp [h, this]

/-- `b[lo:hi]` -/
theorem sliceI_nat (b : Bytes) (lo hi : Nat) : sliceI b (lo : Int) (hi : Int) = slice b lo hi := by
  unfold sliceI slice
  by_cases h : lo ≤ hi ∧ hi ≤ b.length
  · have : (0 : Int) ≤ lo ∧ (lo : Int) ≤ hi ∧ (hi : Int) ≤ b.length := by omega
    simp [h, this]
  · have : ¬ ((0 : Int) ≤ lo ∧ (lo : Int) ≤ hi ∧ (hi : Int) ≤ b.length) := by omega
    simp [h, this]

theorem sliceI_from1 (b : Bytes) : sliceI b (1 : Int) (b.length : Int) = sliceFrom b 1 := by
  have := sliceI_from b 1
  simpa using this

theorem sliceI_from2 (b : Bytes) : sliceI b (2 : Int) (b.length : Int) = sliceFrom b 2 := by
  have := sliceI_from b 2
  simpa using this

theorem sliceI_from_2add (b : Bytes) (n : Nat) :
    sliceI b ((2 : Int) + (n : Int)) (b.length : Int) = sliceFrom b (2 + n) := by
  rw [← sliceI_from b (2 + n)]; congr 1

theorem sliceI_2_2add (b : Bytes) (n : Nat) :
    sliceI b (2 : Int) ((2 : Int) + (n : Int)) = slice b 2 (2 + n) := by
  rw [← sliceI_nat b 2 (2 + n)]; congr 1

theorem idx_some (b : Bytes) (n : Nat) (h : n < b.length) : ∃ a, idx b n = .ok a := ⟨b[n], by simp [idx, h]⟩

theorem mapGet_nil (c : UInt8) : mapGet [] c = none := rfl

theorem mapGet_cons (e : UInt8 × Bytes) (m : GMap) (c : UInt8) :
    mapGet (e :: m) c = if e.1 = c then some e.2 else mapGet m c := by
  unfold mapGet
  by_cases h : e.1 = c
  · have : (e.1 == c) = true := by simp [h]
    simp [List.find?, this, h]
  · have : (e.1 == c) = false := by simp [h]
    simp [List.find?, this, h]

/-- lookup after a map store: the new value for the stored key, the old map elsewhere -/
theorem mapGet_mapSet (m : GMap) (k : UInt8) (v : Bytes) (c : UInt8) :
    mapGet (mapSet m k v) c = if c = k then some v else mapGet m c := by
  induction m with
  | nil =>
    by_cases h : c = k
    · simp [mapSet, mapGet_cons, h]
    · have : ¬ k = c := fun x => h x.symm
      simp [mapSet, mapGet_cons, h, this, mapGet_nil]
  | cons e r ih =>
    unfold mapSet
    by_cases hk : e.1 = k
    · simp only [beq_iff_eq, hk, if_true, mapGet_cons]
      by_cases h : c = k
      · simp [h]
      · have : ¬ k = c := fun x => h x.symm
        simp [h, this]
    · simp only [beq_iff_eq, hk, if_false, mapGet_cons, ih]
      by_cases h : c = k
      · have : ¬ e.1 = c := by rw [h]; exact hk
        simp [h, hk]
      · simp [h]

/-- lookup after `delete` -/
theorem mapGet_mapDel (m : GMap) (k c : UInt8) :
    mapGet (mapDel m k) c = if c = k then none else mapGet m c := by
  induction m with
  | nil => simp [mapDel, mapGet_nil]
  | cons e r ih =>
    unfold mapDel at ih ⊢
    by_cases hk : e.1 = k
    · have : (e.1 != k) = false := by simp [hk]
      rw [List.filter_cons_of_neg (by simp [this]), ih, mapGet_cons]
      by_cases h : c = k
      · simp [h]
      · have : ¬ e.1 = c := by rw [hk]; exact fun x => h x.symm
        simp [h, this]
    · have : (e.1 != k) = true := by simp [hk]
      rw [List.filter_cons_of_pos (by simp [this]), mapGet_cons, ih, mapGet_cons]
      by_cases h : c = k
      · have : ¬ e.1 = c := by rw [h]; exact hk
        simp [h, hk]
      · simp [h]

end PV.Lemmas.LoopGoOpts
