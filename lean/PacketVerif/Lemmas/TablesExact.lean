/-
  C06: the notifications of one received frame (Parse + Notify) are exactly the transitions the
  reference model predicts (up to the order of the offline ones).
-/
import PacketVerif.Lemmas.TablesNotif
namespace PV.Lemmas.Tables
open PV PV.Model.Tables PV.Spec

/-! ### spec side: transitions of `see` -/

theorem offEvent_see (m : HostMap) (mac : MAC) (ip : IP) (now : Int) (hnew : repeatOf m mac ip = false) (k : IP) (e : Event) :
    offEvent m (Spec.see m mac ip now) k = some e ↔
      k ≠ ip ∧ ∃ a, m k = some a ∧ a.online = true ∧ ip.is4 = true ∧ k.is4 = true ∧ a.mac = mac ∧
        e = { mac := a.mac, ip := k, online := false } := by
  unfold offEvent Spec.see
  by_cases hk : k = ip
  · subst hk
    simp only [if_true, ne_eq, not_true_eq_false, false_and, iff_false]
    cases m k <;> simp
  · simp only [hk, if_false, ne_eq, not_false_eq_true, true_and, hnew]
    cases hm : m k with
    | none => simp
    | some a =>
      simp only [Option.some.injEq, exists_eq_left']
      by_cases hc : ip.is4 = true ∧ k.is4 = true ∧ a.mac = mac
      · by_cases hon : a.online = true
        · simp [hc, hon]
          constructor
          · intro h; exact h.symm
          · intro h; exact h.symm
        · simp [hc, hon]
      · have hc' : ¬ (ip.is4 = true ∧ k.is4 = true ∧ a.mac = mac) := hc
        simp only [Bool.not_false, true_and, hc', if_false]
        constructor
        · intro h
          simp at h
        · rintro ⟨_, a1, a2, a3, _⟩
          exact absurd ⟨a1, a2, a3⟩ hc'

theorem onEvent_see (m : HostMap) (mac : MAC) (ip : IP) (now : Int) (hnew : repeatOf m mac ip = false) (k : IP) :
    onEvent m (Spec.see m mac ip now) k = if k = ip then some { mac := mac, ip := ip, online := true } else none := by
  unfold onEvent Spec.see
  by_cases hk : k = ip
  · subst hk; simp [hnew]
  · simp only [hk, if_false, hnew]
    cases hm : m k with
    | none => rfl
    | some a =>
      simp only
      by_cases hc : (!false) = true ∧ ip.is4 = true ∧ k.is4 = true ∧ a.mac = mac
      · simp [hc]
      · simp only [hc, if_false]
        by_cases hon : a.online = true
        · simp [hon, repeatOf, hm]
        · simp [hon]

theorem filterMap_single {α β} [DecidableEq α] (l : List α) (hn : l.Nodup) (a : α) (ha : a ∈ l) (b : β) :
    l.filterMap (fun k => if k = a then some b else none) = [b] := by
  induction l with
  | nil => simp at ha
  | cons x l ih =>
    rw [List.nodup_cons] at hn
    rw [List.filterMap_cons]
    by_cases hx : x = a
    · subst hx
      simp only [if_true]
      congr 1
      apply List.filterMap_eq_nil_iff.2
      intro y hy
      have : y ≠ x := fun e => hn.1 (e ▸ hy)
      simp [this]
    · simp only [hx, if_false]
      rcases List.mem_cons.1 ha with rfl | ha'
      · exact absurd rfl hx
      · exact ih hn.2 ha'


/-! ### model side -/

/-- the list of superseded hosts `notify` announces offline for host `x` -/
def offlOf (t : Sess) (hid : Nat) (x : HostRec) (flag : Bool) : List Nat :=
  if flag = true ∧ x.ip.is4 = true then
    match macById t x.entry with
    | none => []
    | some m => m.hostList.filter (fun i => match hostById t i with
                                            | some v => i != hid && !v.online && v.dirty
                                            | none => false)
  else []

theorem notifyHost_events {t : Sess} {hid : Nat} {x : HostRec} (hb : hostById t hid = some x)
    (hd : x.dirty = true) (flag : Bool) :
    (notifyHost t hid flag).2.map evOf =
      (makeOfflineAll t (offlOf t hid x flag)).2.map evOf ++ [{ mac := x.mac, ip := x.ip, online := x.online }] := by
  have hnot : hid ∉ offlOf t hid x flag := by
    unfold offlOf
    split
    · split
      · simp
      · intro hm
        simp only [List.mem_filter, hb] at hm
        simp at hm
    · simp
  obtain ⟨_, _, hidx⟩ := hostById_some hb
  have hbr := hostById_makeOfflineAll t (offlOf t hid x flag) hid
  rw [hb] at hbr
  simp only [Option.map_some, offG, hidx, hnot, if_false] at hbr
  unfold notifyHost
  simp only [hb, hd, Bool.not_true, Bool.false_eq_true, if_false]
  change (match hostById (makeOfflineAll t (offlOf t hid x flag)).1 hid with
    | none => makeOfflineAll t (offlOf t hid x flag)
    | some h1 => (updHost (makeOfflineAll t (offlOf t hid x flag)).1 hid (fun x => { x with dirty := false }),
        (makeOfflineAll t (offlOf t hid x flag)).2 ++ [toNotif (makeOfflineAll t (offlOf t hid x flag)).1 h1])).2.map evOf = _
  rw [hbr]
  simp only [List.map_append, List.map_cons, List.map_nil, evOf, toNotif_fields]


theorem nodup_of_map {α β} (f : α → β) : ∀ {l : List α}, (l.map f).Nodup → l.Nodup
  | [], _ => by simp
  | x :: l, h => by
    simp only [List.map_cons, List.nodup_cons] at h
    refine List.nodup_cons.2 ⟨fun hx => h.1 (List.mem_map.2 ⟨x, hx, rfl⟩), nodup_of_map f h.2⟩

theorem offlOf_nodup {t : Sess} (hi : Inv t) (hid : Nat) (x : HostRec) (flag : Bool) : (offlOf t hid x flag).Nodup := by
  unfold offlOf
  split
  · cases hm : macById t x.entry with
    | none => simp
    | some m => exact List.Nodup.sublist List.filter_sublist (hi.listNodup m (macById_some hm).1)
  · simp

/-- **exactness for a frame that is not repeat traffic**: the notifications of Parse + Notify are,
    up to the order of the offline ones, the transitions of the reference model.  `hq`: no offline
    host has an announcement pending (true after every step of a disciplined history). -/
theorem packet_events_new {s : Sess} (hi : Inv s) (hj : CurIP4 s)
    (hq : ∀ k y, findHost s k = some y → y.dirty = true → y.online = true)
    (c : Cfg) (ev : FrameEv) (now : Int) (manuf : String) {mac : MAC} {ip : IP}
    (he : hostEvent c ev = some (mac, ip)) (hnew : repeatOf (abs s) mac ip = false)
    (keys : List IP) (hk1 : keys.Nodup) (hk2 : ip ∈ keys) (hk3 : ∀ p ∈ s.hosts, p.1 ∈ keys) :
    ((packet c s ev now manuf none).2.map evOf).Perm (Spec.transitions c keys (abs s) (.frame ev now manuf)) := by
  obtain ⟨hnp, x, f1, f2, f3, _, f5, _, f7⟩ := foc_spec hi mac ip now manuf
  have hit := inv_findOrCreateHost hi mac ip now manuf
  have hjt := cur_findOrCreateHost hi hj mac ip now manuf
  rw [hnew] at f5
  generalize hr : findOrCreateHost s mac ip now manuf = r at *
  obtain ⟨hpx, hxip⟩ := findHost_mem hit f1
  have hbx : hostById r.s r.host = some x := by rw [← f2]; exact hostById_of_mem hit.hidNodup hpx
  -- Parse
  have hpar : parse c s ev now manuf = { s := onlineTransition r.s x.id, host := some x.id, flag := true } := by
    unfold parse
    simp only [he, hr, hnp, Bool.false_eq_true, if_false, hbx, f5, f2]
  have hit' := inv_onlineTransition hit x.id
  have hfx' : findHost (onlineTransition r.s x.id) ip = some { x with online := true, dirty := true } := by
    rw [onlineTransition_findHost hit hjt hpx f5, f1]
    simp [onlG]
  obtain ⟨hpx', _⟩ := findHost_mem hit' hfx'
  have hbx' : hostById (onlineTransition r.s x.id) x.id = some { x with online := true, dirty := true } :=
    hostById_of_mem hit'.hidNodup hpx'
  -- Notify
  have hpk : (packet c s ev now manuf none).2 = (notifyHost (onlineTransition r.s x.id) x.id true).2 := by
    unfold packet
    simp only [hpar, Bool.false_eq_true, if_false]
    rfl
  rw [hpk, notifyHost_events hbx' rfl true]
  -- reference model
  unfold Spec.transitions Spec.diff
  simp only [Spec.step, ← hostEvent_eq_seen, he]
  have hons : keys.filterMap (onEvent (abs s) (Spec.see (abs s) mac ip now)) = [{ mac := mac, ip := ip, online := true }] := by
    have : onEvent (abs s) (Spec.see (abs s) mac ip now) = fun k => if k = ip then some { mac := mac, ip := ip, online := true } else none := by
      funext k; exact onEvent_see (abs s) mac ip now hnew k
    rw [this]; exact filterMap_single keys hk1 ip hk2 _
  have hsingle : ({ mac := mac, ip := ip, online := true } : Event) = { mac := x.mac, ip := x.ip, online := true } := by
    rw [f3, hxip]
  rw [hons, hsingle]
  apply List.Perm.append_right
  -- both sides are duplicate free
  have hndA : ((makeOfflineAll (onlineTransition r.s x.id)
      (offlOf (onlineTransition r.s x.id) x.id { x with online := true, dirty := true } true)).2.map evOf).Nodup := by
    apply nodup_of_map Event.ip
    have := offl_ips_nodup hit' (offlOf_nodup hit' x.id { x with online := true, dirty := true } true)
    rw [List.map_map]
    exact this
  have hndB : (keys.filterMap (offEvent (abs s) (Spec.see (abs s) mac ip now))).Nodup := by
    apply nodup_filterMap _ _ hk1
    intro a _ b _ e ha hb
    obtain ⟨_, _, _, _, _, _, _, rfl⟩ := (offEvent_see (abs s) mac ip now hnew a e).1 ha
    obtain ⟨_, _, _, _, _, _, _, h2⟩ := (offEvent_see (abs s) mac ip now hnew b _).1 hb
    have := congrArg Event.ip h2
    simpa using this
  refine (List.perm_ext_iff_of_nodup hndA hndB).2 ?_
  intro e
  rw [makeOfflineAll_events]
  simp only [List.mem_filterMap, Option.map_eq_some_iff]
  constructor
  · rintro ⟨i, hiL, v, hv, rfl⟩
    -- i is an offline, dirty host of x's MAC entry other than x
    unfold offlOf at hiL
    split at hiL
    · rename_i hflag
      cases hm : macById (onlineTransition r.s x.id) x.entry with
      | none => simp [hm] at hiL
      | some m =>
        simp only [hm, List.mem_filter, hv, Bool.and_eq_true, bne_iff_ne, ne_eq, Bool.not_eq_eq_eq_not,
          Bool.not_true] at hiL
        obtain ⟨_, ⟨hne, hvoff⟩, hvd⟩ := hiL
        obtain ⟨kv, hpv, hvid⟩ := hostById_some hv
        have hfv := findHost_of_mem hit'.keysNodup hpv
        simp only at hfv
        rw [onlineTransition_findHost hit hjt hpx f5] at hfv
        cases hfy : findHost r.s kv with
        | none => simp [hfy] at hfv
        | some y =>
          simp only [hfy, Option.map_some, Option.some.injEq] at hfv
          have hyid : y.id ≠ x.id := by
            intro e'
            apply hne
            rw [← hvid, ← hfv]
            unfold onlG; simp [e']
          have hkv : kv ≠ ip := by
            intro e'
            rw [e', f1] at hfy
            cases hfy
            exact hyid rfl
          have hfys : findHost s kv = some y := by rw [← f7 kv hkv]; exact hfy
          obtain ⟨hpys, hykv⟩ := findHost_mem hi hfys
          unfold onlG at hfv
          simp only [hyid, if_false] at hfv
          split at hfv
          · rename_i hmark
            obtain ⟨m1, m2, m3, m4⟩ := hmark
            subst hfv
            refine ⟨kv, hk3 _ hpys, ?_⟩
            rw [offEvent_see (abs s) mac ip now hnew]
            refine ⟨hkv, absE y, by simp [abs, hfys], m4, by rw [← hxip]; exact m1, by rw [← hykv]; exact m2,
              by simp [absE, m3, f3], ?_⟩
            simp [absE, hykv]
          · subst hfv
            have := hq kv _ hfys hvd
            rw [this] at hvoff
            cases hvoff
    · simp at hiL
  · rintro ⟨k, _, hoe⟩
    obtain ⟨hkne, a, hak, haon, hip4, hk4, hamac, rfl⟩ := (offEvent_see (abs s) mac ip now hnew k e).1 hoe
    simp only [abs] at hak
    cases hfy : findHost s k with
    | none => simp [hfy] at hak
    | some y =>
      simp only [hfy, Option.map_some, Option.some.injEq] at hak
      subst hak
      simp only [absE] at haon hamac
      obtain ⟨hpys, hyk⟩ := findHost_mem hi hfy
      have hfyt : findHost r.s k = some y := by rw [f7 k hkne]; exact hfy
      obtain ⟨hpyt, _⟩ := findHost_mem hit hfyt
      have hyid : y.id ≠ x.id := by
        intro e'
        have := id_inj hit hpyt hpx e'
        simp only [Prod.mk.injEq] at this
        exact hkne this.1
      have hmark : x.ip.is4 = true ∧ y.ip.is4 = true ∧ y.mac = x.mac ∧ y.online = true :=
        ⟨by rw [hxip]; exact hip4, by rw [hyk]; exact hk4, by rw [hamac, f3], haon⟩
      have hfv : findHost (onlineTransition r.s x.id) k = some { y with online := false, dirty := true } := by
        rw [onlineTransition_findHost hit hjt hpx f5, hfyt]
        simp [onlG, hyid, hmark]
      obtain ⟨hpv, _⟩ := findHost_mem hit' hfv
      have hbv : hostById (onlineTransition r.s x.id) y.id = some { y with online := false, dirty := true } :=
        hostById_of_mem hit'.hidNodup hpv
      obtain ⟨m, hm, e1, e2, _⟩ := hit'.hostEntry _ hpx'
      simp only at e1 e2
      have hmb : macById (onlineTransition r.s x.id) x.entry = some m := by
        rw [← e1]; exact macById_of_mem hit'.midNodup hm
      refine ⟨y.id, ?_, { y with online := false, dirty := true }, hbv, by simp [absE, hyk]⟩
      unfold offlOf
      simp only [hxip, hip4, and_self, if_true, hmb, List.mem_filter, hbv]
      refine ⟨?_, by simp [hyid]⟩
      refine (mem_list_iff_entry hit' hpv hm).2 ((entry_iff_mac hit' hpv hm).2 ?_)
      simp only [e2]
      exact hmark.2.2.1


/-! ### repeat traffic: the reference model predicts nothing either -/

theorem diff_see_repeat (m : HostMap) (mac : MAC) (ip : IP) (now : Int) (hrep : repeatOf m mac ip = true) (keys : List IP) :
    Spec.diff keys m (Spec.see m mac ip now) = [] := by
  unfold Spec.diff
  have h1 : keys.filterMap (offEvent m (Spec.see m mac ip now)) = [] := by
    apply List.filterMap_eq_nil_iff.2
    intro k _
    unfold offEvent Spec.see
    by_cases hk : k = ip
    · subst hk
      simp only [if_true]
      cases m k <;> simp
    · simp only [hk, if_false, hrep]
      cases hm : m k with
      | none => rfl
      | some a =>
        simp only [Bool.not_true, Bool.false_eq_true, false_and, if_false]
        by_cases hon : a.online = true <;> simp [hon]
  have h2 : keys.filterMap (onEvent m (Spec.see m mac ip now)) = [] := by
    apply List.filterMap_eq_nil_iff.2
    intro k _
    unfold onEvent Spec.see
    by_cases hk : k = ip
    · subst hk; simp [hrep]
    · simp only [hk, if_false, hrep]
      cases hm : m k with
      | none => rfl
      | some a =>
        simp only [Bool.not_true, Bool.false_eq_true, false_and, if_false]
        by_cases hon : a.online = true <;> simp [hon, repeatOf, hm]
  rw [h1, h2]; rfl

theorem packet_events_repeat {s : Sess} (hi : Inv s) (c : Cfg) (ev : FrameEv) (now : Int) (manuf : String)
    {mac : MAC} {ip : IP} (he : hostEvent c ev = some (mac, ip)) {h0 : HostRec} (hf : findHost s ip = some h0)
    (hmac : h0.mac = mac) (hon : h0.online = true) (hcl : h0.dirty = false) (keys : List IP) :
    (packet c s ev now manuf none).2.map evOf = Spec.transitions c keys (abs s) (.frame ev now manuf) := by
  rw [packet_repeat_silent hi c ev now manuf he hf hmac hon hcl]
  unfold Spec.transitions
  simp only [Spec.step, ← hostEvent_eq_seen, he]
  rw [diff_see_repeat]
  · rfl
  · rw [repeatOf_abs, hf]; simp [hmac, hon]

end PV.Lemmas.Tables
