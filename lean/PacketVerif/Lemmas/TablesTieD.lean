/-
  `Session.Notify` and `Session.DHCPv4Update`: compositions of the ties of TablesTieA/B/C.
-/
import PacketVerif.Lemmas.TablesTieA
import PacketVerif.Lemmas.TablesTieB
import PacketVerif.Lemmas.TablesTieC
import PacketVerif.Lemmas.TablesRefine
namespace PV.Lemmas.TablesTieD
open PV PV.Model.Tables PV.Model.TablesGo PV.Gen.Tables PV.Spec PV.Lemmas.Tables
open PV.Lemmas.TablesTieA PV.Lemmas.TablesTieB PV.Lemmas.TablesTieC

theorem or1_and1 (f : Nat) : ((f ||| 1) &&& 1) = 1 := by
  rw [Nat.and_one_is_mod]
  have : (f ||| 1) % 2 = 1 := by
    rw [Nat.or_mod_two_eq_one]; right; rfl
  exact this

/-- `Session.Notify(frame)` is the model's `notifyOp` on the frame's host pointer, `PayloadID == PayloadDHCP4`,
    source MAC and online-transition flag bit; what it sends is appended to the channel -/
theorem Notify_tie {s : Sess} (hi : Inv s) {ce : ChanEnv} (hc : ce.closed = false) (hl : ce.len < ce.cap)
    (out : List Notif) (host : Option Nat) (pid : Int) (smac : MAC) (sip : IP) (flags : Nat) :
    Session_Notify ce s out host pid smac sip flags =
      ((notifyOp s host (pid == 10) smac (flags &&& 1 == 1)).1,
       out ++ (notifyOp s host (pid == 10) smac (flags &&& 1 == 1)).2) := by
  unfold Session_Notify notifyOp
  cases host with
  | some hid => simp only [notify_tie hi hc hl]
  | none =>
    by_cases hp : pid = 10
    · subst hp
      simp only [dhcpv4IPOffer_tie hi.midNodup, FindIP_tie, findIP]
      by_cases hv : (dhcpv4IPOffer s smac).isValid = true
      · cases hf : findHost s (dhcpv4IPOffer s smac) with
        | none => simp [hv]
        | some h =>
          have hb : ((flags ||| 1) % 2 == 1) = true := by
            have := or1_and1 flags; rw [Nat.and_one_is_mod] at this; simp [this]
          simp [hv, notify_tie hi hc hl, hb]
      · simp [hv]
    · have : (pid == 10) = false := by simpa using hp
      simp [this, hp]


/-- the host `updateName` was applied to, afterwards -/
theorem hostById_updateName {s : Sess} {hid : Nat} {h : HostRec} (e : hostById s hid = some h) (k : NameKind) (n : NameEntry) :
    ∃ h1, hostById (updateName s hid k n) hid = some h1 ∧ h1.entry = h.entry ∧ h1.ip = h.ip ∧ h1.online = h.online := by
  unfold updateName
  simp only [e]
  have hid' := hostById_id e
  have key : hostById (updHost s hid (fun x => { x with names := x.names.set k ((h.names.get k).merge n).fst, dirty := (x.dirty || ((h.names.get k).merge n).snd) })) hid
      = some { h with names := h.names.set k ((h.names.get k).merge n).fst, dirty := (h.dirty || ((h.names.get k).merge n).snd) } := by
    rw [TablesTieC.hostById_updHost, e]
    · simp [hid']
    · intro _; rfl
  split
  · exact ⟨{ h with names := h.names.set k ((h.names.get k).merge n).fst, dirty := (h.dirty || ((h.names.get k).merge n).snd) },
      by rw [TablesTieC.hostById_updMac]; exact key, rfl, rfl, rfl⟩
  · exact ⟨{ h with names := h.names.set k ((h.names.get k).merge n).fst, dirty := (h.dirty || ((h.names.get k).merge n).snd) },
      key, rfl, rfl, rfl⟩

/-- `Session.DHCPv4Update` is the model's `dhcpUpdate` step: same state, same notifications appended to the
    channel, same error value, and it panics exactly when the model does -/
theorem dhcpUpdate_tie {s : Sess} (hi : Inv s) {ce : ChanEnv} (hc : ce.closed = false) (hl : ce.len < ce.cap)
    (fm : MAC → String) (now : Int) (out : List Notif) (mac : MAC) (ip : IP) (name : NameEntry) :
    Session_DHCPv4Update ce fm now s out mac ip name =
      (let r := dhcpUpdate s mac ip name now (fm mac)
       if r.2.panic then none else some (r.1, out ++ r.2.notifs, r.2.err)) := by
  unfold Session_DHCPv4Update dhcpUpdate
  by_cases hv : (!ip.isValid || ip.isUnspecified) = true
  · simp [hv]
  · simp only [hv, Bool.false_eq_true, if_false]
    rw [findOrCreateHost_tie hi]
    obtain ⟨hp, h', hf, hidEq, _⟩ := foc_spec hi mac ip now (fm mac)
    have hir := inv_findOrCreateHost hi mac ip now (fm mac)
    have hb : hostById (findOrCreateHost s mac ip now (fm mac)).s (findOrCreateHost s mac ip now (fm mac)).host = some h' := by
      rw [← hidEq]; exact hostById_of_mem hir.hidNodup (findHost_some hf)
    simp only [hp, Bool.false_eq_true, if_false]
    rw [updateDHCP4Name_tie hir.midNodup]
    obtain ⟨h1, hb1, he1, hip1, hon1⟩ := hostById_updateName hb .dhcp4 name
    have hi1 := inv_updateName hir (findOrCreateHost s mac ip now (fm mac)).host .dhcp4 name
    simp only [hb1, H_of hb]
    have hi2 : Inv (updMac (updateName (findOrCreateHost s mac ip now (fm mac)).s (findOrCreateHost s mac ip now (fm mac)).host .dhcp4 name)
        h'.entry (fun m => { m with ip4offer := h'.ip })) :=
      inv_updMac hi1 _ (fun m => ⟨rfl, rfl, rfl⟩) (fun m h => h)
    have hb2 : hostById (updMac (updateName (findOrCreateHost s mac ip now (fm mac)).s (findOrCreateHost s mac ip now (fm mac)).host .dhcp4 name)
        h'.entry (fun m => { m with ip4offer := h'.ip })) (findOrCreateHost s mac ip now (fm mac)).host = some h1 := hb1
    rw [he1, hip1, H_of hb2]
    have hflag : (((0 : Nat) ||| 1) &&& 1 == 1) = true := by decide
    by_cases ho : h1.online = true
    · simp only [ho, Bool.not_true, Bool.false_eq_true, if_false, if_true]
      rw [notify_tie hi2 hc hl, hflag]
    · simp only [ho, Bool.not_false, if_true, Bool.false_eq_true, if_false]
      rw [onlineTransition_tie hi2, notify_tie (inv_onlineTransition hi2 _) hc hl, hflag]

end PV.Lemmas.TablesTieD
