/-
  Base lemmas for the ties of the regenerated DHCPv4 server functions (Gen/DhcpSrvGen.lean) to
  Model/Dhcp4Srv.lean: the dictionary operations of Model/DhcpSrvGo.lean (L, updL, tableSet,
  tableFind, tableKeys, forRange) against the model's table algebra; the normal form `touch`.
-/
import PacketVerif.Gen.DhcpSrvGen
import PacketVerif.Lemmas.Dhcp4Srv
import PacketVerif.Lemmas.Dhcp4Inv
namespace PV.Lemmas.DhcpSrvTie
open PV PV.Model.Dhcp4Srv PV.Model.DhcpSrvGo PV.Lemmas.Dhcp4Srv

/-- the model keeps the lease table as an association list and every handler that went through
    `findOrCreate` re-inserts the client's entry at the head; the Go code (and its translation)
    rewrites the entry where it is.  `touch s c` moves the entry of `c` to the head: the two
    states are compared after it. -/
def touch (s : State) (c : Cid) : State :=
  match getLease s.table c with
  | some l => { s with table := setLease s.table c l }
  | none => s

/-- the entry of `c` is `l` -/
def Has (s : State) (c : Cid) (l : Lease) : Prop := getLease s.table c = some l

/-! ### association-list facts -/

theorem getLease_cons (k c : Cid) (v : Lease) (t : Table) :
    getLease ((k, v) :: t) c = if k == c then some v else getLease t c := by
  unfold getLease
  simp only [List.find?_cons]
  cases h : (k == c) <;> simp

theorem upd_fst (p : Cid) (f : Lease → Lease) (e : Cid × Lease) : (if e.1 == p then (e.1, f e.2) else e).1 = e.1 := by
  split <;> rfl

theorem getLease_map_upd (t : Table) (c p : Cid) (f : Lease → Lease) :
    getLease (t.map (fun e => if e.1 == p then (e.1, f e.2) else e)) c
      = if c == p then (getLease t c).map f else getLease t c := by
  have hg : ((fun e : Cid × Lease => e.1 == c) ∘ (fun e : Cid × Lease => if e.1 == p then (e.1, f e.2) else e))
      = (fun e => e.1 == c) := by
    funext e; simp only [Function.comp, upd_fst]
  unfold getLease
  rw [List.find?_map, hg]
  cases hf : t.find? (fun e => e.1 == c) with
  | none => simp
  | some e =>
    have hk := List.find?_some hf
    simp only [beq_iff_eq] at hk
    subst hk
    by_cases hp : e.1 = p
    · simp [hp]
    · have : (e.1 == p) = false := by simpa using hp
      simp [this, hp]

theorem delLease_map_upd (t : Table) (p : Cid) (f : Lease → Lease) :
    delLease (t.map (fun e => if e.1 == p then (e.1, f e.2) else e)) p = delLease t p := by
  have hg : ((fun e : Cid × Lease => e.1 != p) ∘ (fun e : Cid × Lease => if e.1 == p then (e.1, f e.2) else e))
      = (fun e => e.1 != p) := by
    funext e; simp only [Function.comp, upd_fst]
  unfold delLease
  rw [List.filter_map, hg]
  conv => rhs; rw [← List.map_id (List.filter (fun e => e.1 != p) t)]
  apply List.map_congr_left
  intro e he
  have := (List.mem_filter.1 he).2
  have hf : (e.1 == p) = false := by simpa [bne] using this
  simp [hf]

theorem delLease_delLease (t : Table) (c : Cid) : delLease (delLease t c) c = delLease t c := by
  unfold delLease; simp [List.filter_filter]

theorem delLease_setLease (t : Table) (c : Cid) (l : Lease) : delLease (setLease t c l) c = delLease t c := by
  unfold setLease
  show delLease ((c, l) :: delLease t c) c = delLease t c
  conv => lhs; unfold delLease
  simp only [List.filter_cons, bne_self_eq_false]
  exact delLease_delLease t c

theorem setLease_setLease (t : Table) (c : Cid) (l l' : Lease) : setLease (setLease t c l) c l' = setLease t c l' := by
  show (c, l') :: delLease (setLease t c l) c = (c, l') :: delLease t c
  rw [delLease_setLease]

theorem getLease_setLease_self (t : Table) (c : Cid) (l : Lease) : getLease (setLease t c l) c = some l := by
  unfold setLease; simp [getLease_cons]

theorem getLease_delLease_self (t : Table) (c : Cid) : getLease (delLease t c) c = none := by
  unfold getLease delLease
  simp [List.find?_eq_none]

/-! ### inUse does not look at the client's own entry -/

theorem inUse_map_upd (t : Table) (c : Cid) (f : Lease → Lease) (o : Option IP) :
    inUse (t.map (fun e => if e.1 == c then (e.1, f e.2) else e)) c o = inUse t c o := by
  unfold inUse
  induction t with
  | nil => rfl
  | cons e t ih =>
    obtain ⟨k, v⟩ := e
    simp only [List.map_cons, List.any_cons, ih]
    by_cases hkc : k = c
    · subst hkc; simp
    · have hf : (k == c) = false := by simpa using hkc
      simp [hf]

theorem inUse_delLease (t : Table) (c : Cid) (o : Option IP) : inUse (delLease t c) c o = inUse t c o := by
  unfold inUse delLease
  induction t with
  | nil => rfl
  | cons e t ih =>
    obtain ⟨k, v⟩ := e
    simp only [List.filter_cons, List.any_cons]
    by_cases hkc : k = c
    · subst hkc; simpa using ih
    · have hn : (k != c) = true := by simpa using hkc
      simp only [hn, if_true, List.any_cons, ih]

theorem inUse_setLease (t : Table) (c : Cid) (l : Lease) (o : Option IP) : inUse (setLease t c l) c o = inUse t c o := by
  unfold setLease
  have : inUse ((c, l) :: delLease t c) c o = inUse (delLease t c) c o := by
    unfold inUse; simp
  rw [this, inUse_delLease]

/-! ### the dictionary operations -/

@[simp] theorem updL_next1 (s : State) (c : Cid) (f : Lease → Lease) : (updL s c f).next1 = s.next1 := rfl
@[simp] theorem updL_next2 (s : State) (c : Cid) (f : Lease → Lease) : (updL s c f).next2 = s.next2 := rfl
@[simp] theorem updL_hosts (s : State) (c : Cid) (f : Lease → Lease) : (updL s c f).hosts = s.hosts := rfl
@[simp] theorem updL_captured (s : State) (c : Cid) (f : Lease → Lease) : (updL s c f).captured = s.captured := rfl
@[simp] theorem tableSet_hosts (s : State) (c : Cid) (l : Lease) : (tableSet s c l).hosts = s.hosts := rfl
@[simp] theorem tableSet_captured (s : State) (c : Cid) (l : Lease) : (tableSet s c l).captured = s.captured := rfl
@[simp] theorem tableSet_table (s : State) (c : Cid) (l : Lease) : (tableSet s c l).table = setLease s.table c l := rfl
@[simp] theorem tableDel_table (s : State) (c : Cid) : (tableDel s c).table = delLease s.table c := rfl

theorem has_L {s : State} {c : Cid} {l : Lease} (h : Has s c l) : L s c = l := by
  unfold L; rw [h]; rfl

theorem has_updL {s : State} {c : Cid} {l : Lease} (h : Has s c l) (f : Lease → Lease) : Has (updL s c f) c (f l) := by
  unfold Has updL at *
  simp only [getLease_map_upd, BEq.rfl, if_true, h, Option.map_some]

theorem has_tableSet (s : State) (c : Cid) (l : Lease) : Has (tableSet s c l) c l :=
  getLease_setLease_self s.table c l

theorem has_setCursor {s : State} {c : Cid} {l : Lease} (h : Has s c l) (sub : SubId) (n : IP) : Has (setCursor s sub n) c l := by
  unfold Has at *; rw [setCursor_table]; exact h

theorem L_setCursor (s : State) (c : Cid) (sub : SubId) (n : IP) : L (setCursor s sub n) c = L s c := by
  unfold L; rw [setCursor_table]

theorem touch_has {s : State} {c : Cid} {l : Lease} (h : Has s c l) : touch s c = { s with table := setLease s.table c l } := by
  unfold touch; rw [h]

theorem setLease_updL (s : State) (c : Cid) (f : Lease → Lease) (l : Lease) :
    setLease (updL s c f).table c l = setLease s.table c l := by
  show (c, l) :: delLease (updL s c f).table c = (c, l) :: delLease s.table c
  unfold updL; simp only [delLease_map_upd]

theorem delLease_updL (s : State) (c : Cid) (f : Lease → Lease) : delLease (updL s c f).table c = delLease s.table c := by
  unfold updL; simp only [delLease_map_upd]

theorem inUse_updL (s : State) (c : Cid) (f : Lease → Lease) (o : Option IP) : inUse (updL s c f).table c o = inUse s.table c o :=
  inUse_map_upd s.table c f o

theorem keysUnique_updL {s : State} (c : Cid) (f : Lease → Lease) (h : KeysUnique s.table) : KeysUnique (updL s c f).table := by
  unfold KeysUnique updL at *
  have : (s.table.map (fun e => if e.1 == c then (e.1, f e.2) else e)).map (·.1) = s.table.map (·.1) := by
    rw [List.map_map]; apply List.map_congr_left; intro e _; simp only [Function.comp, upd_fst]
  show ((s.table.map (fun e => if e.1 == c then (e.1, f e.2) else e)).map (·.1)).Nodup
  rw [this]; exact h

theorem keysUnique_setCursor {s : State} (sub : SubId) (n : IP) (h : KeysUnique s.table) : KeysUnique (setCursor s sub n).table := by
  rw [setCursor_table]; exact h

@[simp] theorem isCaptured_updL (s : State) (c : Cid) (f : Lease → Lease) (mac : MAC) : isCaptured (updL s c f) mac = isCaptured s mac := rfl
@[simp] theorem isCaptured_tableSet (s : State) (c : Cid) (l : Lease) (mac : MAC) : isCaptured (tableSet s c l) mac = isCaptured s mac := rfl
@[simp] theorem sessFind_updL (s : State) (c : Cid) (f : Lease → Lease) (ip : AddrV) : sessFind (updL s c f) ip = sessFind s ip := by
  cases ip <;> rfl
@[simp] theorem sessFind_tableSet (s : State) (c : Cid) (l : Lease) (ip : AddrV) : sessFind (tableSet s c l) ip = sessFind s ip := by
  cases ip <;> rfl
theorem sessFind_setCursor (s : State) (sub : SubId) (n : IP) (ip : AddrV) : sessFind (setCursor s sub n) ip = sessFind s ip := by
  cases sub <;> cases ip <;> rfl
theorem takenByOther_updL (s : State) (c : Cid) (f : Lease → Lease) (mac : MAC) (o : Option IP) :
    takenByOther (updL s c f) mac o = takenByOther s mac o := rfl
theorem takenByOther_tableSet (s : State) (c : Cid) (l : Lease) (mac : MAC) (o : Option IP) :
    takenByOther (tableSet s c l) mac o = takenByOther s mac o := rfl
theorem takenByOther_setCursor (s : State) (sub : SubId) (n : IP) (mac : MAC) (o : Option IP) :
    takenByOther (setCursor s sub n) mac o = takenByOther s mac o := by
  cases sub <;> rfl

@[simp] theorem ofOpt_toOpt (o : Option IP) : AddrV.toOpt (AddrV.ofOpt o) = o := by cases o <;> rfl
@[simp] theorem toOpt_invalid : AddrV.toOpt AddrV.invalid = none := rfl
@[simp] theorem toOpt_v4 (a : IP) : AddrV.toOpt (AddrV.v4 a) = some a := rfl
theorem ofOpt_eq_iff (o o' : Option IP) : (AddrV.ofOpt o == AddrV.ofOpt o') = (o == o') := by
  cases o with
  | none => cases o' <;> simp [AddrV.ofOpt]
  | some a =>
    cases o' with
    | none => simp [AddrV.ofOpt]
    | some b => rw [Bool.eq_iff_iff]; simp [AddrV.ofOpt]
theorem ofOpt_ne_v6 (o : Option IP) : AddrV.ofOpt o ≠ AddrV.v6 := by cases o <;> simp [AddrV.ofOpt]

/-- option 51 as the handlers store it = the model's reply options -/
theorem optsList_dur (cfg : Cfg) (sub : SubId) (t : Nat) :
    optsList cfg (sub, some (cfg.sub sub).dur) t = replyOpts cfg sub t := by
  cases sub <;> simp [optsList, replyOpts]

theorem encodeReply_mk (cfg : Cfg) (m : Msg) (typ : RType) (l : Lease) (o : Option IP) :
    encodeReply cfg m typ (AddrV.ofOpt o) (l.sub, some (cfg.sub l.sub).dur) = mkReply cfg m typ l o := by
  unfold encodeReply mkReply
  rw [optsList_dur, ofOpt_toOpt]

end PV.Lemmas.DhcpSrvTie
