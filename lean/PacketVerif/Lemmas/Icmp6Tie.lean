/-
  Lemmas for Props/C14Icmp6Tie.lean: the dictionary of Model/Icmp6Go.lean against the model functions.
-/
import PacketVerif.Model.Icmp6Go
import PacketVerif.Lemmas.EncodeMem
namespace PV.Lemmas.Icmp6Tie
open PV PV.Model PV.Model.Ndp PV.Model.Handlers PV.Model.Icmp6Hunt PV.Model.Icmp6Go PV.Lemmas

theorem find_abs (l : List (Bytes × GRouter)) (ip : Bytes) :
    (absRouters l).find? (fun e => e.1 = ip) = (l.find? (fun e => e.1 = ip)).map (fun e => (e.1, absRouter e.2)) := by
  induction l with
  | nil => rfl
  | cons x xs ih =>
    simp only [absRouters, List.map_cons, List.find?_cons]
    by_cases h : x.1 = ip
    · simp [h]
    · simp only [h, decide_false]
      exact ih

theorem rep40 (n : Nat) : List.replicate (40 + n) (0 : UInt8) =
    [0,0,0,0,0,0,0,0,0,0,0,0,0,0,0,0,0,0,0,0,0,0,0,0,0,0,0,0,0,0,0,0,0,0,0,0,0,0,0,0] ++ List.replicate n 0 := by
  rw [Nat.add_comm]
  simp [List.replicate_succ]

theorem psh_eq (s d b : Bytes) (hs : s.length = 16) (hd : d.length = 16) :
    (do let psh ← copyInto (List.replicate (40 + b.length) 0) 0 16 s
        let psh ← copyInto psh 16 32 d
        let psh ← put32Into psh 32 36 b.length
        let psh ← setAt psh 39 58
        copyFrom psh 40 b) = .ok (icmp6Pseudo s d b) := by
  cells hs; cells hd
  rw [rep40]
  simp [copyInto, put32Into, setAt, copyFrom, icmp6Pseudo, List.take_replicate, List.drop_replicate]
  omega

theorem u8_eq_nat (a : UInt8) (n : Nat) (h : n < 256) : (a.toNat == n) = (a == UInt8.ofNat n) := by
  by_cases he : a = UInt8.ofNat n
  · subst he; simp [UInt8.toNat_ofNat, Nat.mod_eq_of_lt h]
  · have : a.toNat ≠ n := by
      intro hn; apply he; rw [← hn]; exact (UInt8.ofNat_toNat).symm
    rw [beq_eq_false_iff_ne.mpr this, beq_eq_false_iff_ne.mpr he]

def llF (a : Bytes) : Bool :=
  if a.length == 4 then (a[0]? == some 169 && a[1]? == some 254) || (a[0]? == some 224 && a[1]? == some 0 && a[2]? == some 0)
  else if a.length == 16 then
    (a[0]? == some 0xfe && ((a[1]?.getD 0).toNat / 64 == 2)) || (a[0]? == some 0xff && ((a[1]?.getD 0).toNat % 16 == 2))
  else false

def llG (a : Bytes) : Bool :=
  (if Netip.is4 a then Netip.byteAt a 0 == 169 && Netip.byteAt a 1 == 254
   else if Netip.is6 a then Netip.byteAt a 0 == 0xfe && Netip.byteAt a 1 / 64 == 2 else false) ||
  (if Netip.is4 a then Netip.byteAt a 0 == 224 && Netip.byteAt a 1 == 0 && Netip.byteAt a 2 == 0
   else if Netip.is6 a then Netip.byteAt a 0 == 0xff && Netip.byteAt a 1 % 16 == 2 else false)

theorem llF_eq_llG (a : Bytes) : llF a = llG a := by
  by_cases h4 : a.length = 4
  · cells h4
    simp [llF, llG, Netip.is4, Netip.byteAt, u8_eq_nat]
  · by_cases h16 : a.length = 16
    · cells h16
      simp [llF, llG, Netip.is4, Netip.is6, Netip.byteAt, u8_eq_nat]
    · simp [llF, llG, Netip.is4, Netip.is6, h4, h16]

theorem hop_eq (ip : Bytes) :
    isLLUorLLM ip = (Netip.isLinkLocalUnicast ip || Netip.isLinkLocalMulticast ip) := by
  have h1 : isLLUorLLM ip = llF (Netip.unmap ip) := rfl
  have h2 : (Netip.isLinkLocalUnicast ip || Netip.isLinkLocalMulticast ip) = llG (Netip.unmap ip) := rfl
  rw [h1, h2, llF_eq_llG]


theorem obind_congr {α β} (x : Outcome α) (f g : α → Outcome β) (h : ∀ a, f a = g a) : (x >>= f) = (x >>= g) := by
  cases x <;> simp [h]

theorem obind_assoc {α β γ} (x : Outcome α) (f : α → Outcome β) (g : β → Outcome γ) :
    ((x >>= f) >>= g) = (x >>= fun a => f a >>= g) := by
  cases x <;> rfl

theorem reslice_bytes_len (m : Mem) (s t : Sl) (a b : Nat) (h : Sl.reslice m s a b = .ok t) :
    (t.bytes m).length = b - a := by
  unfold Sl.reslice at h
  split at h
  · cases h
    simp only [Sl.bytes, Sl.cap, List.length_take, List.length_drop] at *
    omega
  · cases h

theorem copyInto_rep_ok (n : Nat) (s : Bytes) : ∃ v, copyInto (List.replicate (40 + n) 0) 0 16 s = .ok v := by
  unfold copyInto
  rw [if_pos (by simp only [List.length_replicate]; omega)]
  exact ⟨_, rfl⟩

theorem psh_k {β} (s d b : Bytes) (hs : s.length = 16) (hd : d.length = 16) (k : Bytes → Outcome β) :
    (copyInto (List.replicate (40 + b.length) 0) 0 16 s >>= fun psh => copyInto psh 16 32 d >>= fun psh =>
      put32Into psh 32 36 b.length >>= fun psh => setAt psh 39 58 >>= fun psh => copyFrom psh 40 b >>= k)
      = k (icmp6Pseudo s d b) := by
  have h := congrArg (fun x => x >>= k) (psh_eq s d b hs hd)
  simp only [obind_assoc, Outcome.bind_ok] at h
  exact h

theorem ret_norm (x : Outcome (G6 × Option Err)) :
    (x >>= fun r => if (!r.snd.isNone) = true then Outcome.ok (r.fst, r.snd) else Outcome.ok (r.fst, none)) = x := by
  cases x with
  | ok r => obtain ⟨g, er⟩ := r; cases er <;> rfl
  | _ => rfl

theorem any_false_of_find_none (rs : List (Bytes × GRouter)) (ip : Bytes)
    (h : rs.find? (fun x => x.1 = ip) = none) : rs.any (fun x => decide (x.1 = ip)) = false := by
  induction rs with
  | nil => rfl
  | cons x xs ih =>
    simp only [List.find?_cons] at h
    by_cases hx : x.1 = ip
    · simp [hx] at h
    · simp only [hx, decide_false] at h
      simp [List.any_cons, hx, ih h]

end PV.Lemmas.Icmp6Tie
