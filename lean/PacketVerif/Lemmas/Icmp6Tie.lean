/-
  Lemmas for Props/C14Icmp6Tie.lean: the dictionary of Model/Icmp6Go.lean against the model functions.
-/
import PacketVerif.Model.Icmp6Go
import PacketVerif.Lemmas.EncodeMem
namespace PV.Lemmas.Icmp6Tie
open PV PV.Model PV.Model.Ndp PV.Model.Handlers PV.Model.Icmp6Hunt PV.Model.Icmp6Go PV.Lemmas

theorem find_abs (l : List (Bytes × GRouter)) (ip : Bytes) :
    (absRouters l).find? (fun e => e.1 = ip) = (l.find? (fun e => e.1 = ip)).map (fun e => (e.1, absRouter e.2)) := by
  induction l with
  | nil => rfl
  | cons x xs ih =>
    simp only [absRouters, List.map_cons, List.find?_cons]
    by_cases h : x.1 = ip
    · simp [h]
    · simp only [h, decide_false]
      exact ih

theorem rep40 (n : Nat) : List.replicate (40 + n) (0 : UInt8) =
    [0,0,0,0,0,0,0,0,0,0,0,0,0,0,0,0,0,0,0,0,0,0,0,0,0,0,0,0,0,0,0,0,0,0,0,0,0,0,0,0] ++ List.replicate n 0 := by
  rw [Nat.add_comm]
  simp [List.replicate_succ]

theorem psh_eq (s d b : Bytes) (hs : s.length = 16) (hd : d.length = 16) :
    (do let psh ← copyInto (List.replicate (40 + b.length) 0) 0 16 s
        let psh ← copyInto psh 16 32 d
        let psh ← put32Into psh 32 36 b.length
        let psh ← setAt psh 39 58
        copyFrom psh 40 b) = .ok (icmp6Pseudo s d b) := by
  cells hs; cells hd
  rw [rep40]
  simp [copyInto, put32Into, setAt, copyFrom, icmp6Pseudo, List.take_replicate, List.drop_replicate]
  omega

theorem u8_eq_nat (a : UInt8) (n : Nat) (h : n < 256) : (a.toNat == n) = (a == UInt8.ofNat n) := by
  by_cases he : a = UInt8.ofNat n
  · subst he; simp [UInt8.toNat_ofNat, Nat.mod_eq_of_lt h]
  · have : a.toNat ≠ n := by
      intro hn; apply he; rw [← hn]; exact (UInt8.ofNat_toNat).symm
    rw [beq_eq_false_iff_ne.mpr this, beq_eq_false_iff_ne.mpr he]

def llF (a : Bytes) : Bool :=
  if a.length == 4 then (a[0]? == some 169 && a[1]? == some 254) || (a[0]? == some 224 && a[1]? == some 0 && a[2]? == some 0)
  else if a.length == 16 then
    (a[0]? == some 0xfe && ((a[1]?.getD 0).toNat / 64 == 2)) || (a[0]? == some 0xff && ((a[1]?.getD 0).toNat % 16 == 2))
  else false

def llG (a : Bytes) : Bool :=
  (if Netip.is4 a then Netip.byteAt a 0 == 169 && Netip.byteAt a 1 == 254
   else if Netip.is6 a then Netip.byteAt a 0 == 0xfe && Netip.byteAt a 1 / 64 == 2 else false) ||
  (if Netip.is4 a then Netip.byteAt a 0 == 224 && Netip.byteAt a 1 == 0 && Netip.byteAt a 2 == 0
   else if Netip.is6 a then Netip.byteAt a 0 == 0xff && Netip.byteAt a 1 % 16 == 2 else false)

theorem llF_eq_llG (a : Bytes) : llF a = llG a := by
  by_cases h4 : a.length = 4
  · cells h4
    simp [llF, llG, Netip.is4, Netip.byteAt, u8_eq_nat]
  · by_cases h16 : a.length = 16
    · cells h16
      simp [llF, llG, Netip.is4, Netip.is6, Netip.byteAt, u8_eq_nat]
    · simp [llF, llG, Netip.is4, Netip.is6, h4, h16]

theorem hop_eq (ip : Bytes) :
    isLLUorLLM ip = (Netip.isLinkLocalUnicast ip || Netip.isLinkLocalMulticast ip) := by
  have h1 : isLLUorLLM ip = llF (Netip.unmap ip) := rfl
  have h2 : (Netip.isLinkLocalUnicast ip || Netip.isLinkLocalMulticast ip) = llG (Netip.unmap ip) := rfl
  rw [h1, h2, llF_eq_llG]


theorem obind_congr {α β} (x : Outcome α) (f g : α → Outcome β) (h : ∀ a, f a = g a) : (x >>= f) = (x >>= g) := by
  cases x <;> simp [h]

theorem obind_assoc {α β γ} (x : Outcome α) (f : α → Outcome β) (g : β → Outcome γ) :
    ((x >>= f) >>= g) = (x >>= fun a => f a >>= g) := by
  cases x <;> rfl

theorem reslice_bytes_len (m : Mem) (s t : Sl) (a b : Nat) (h : Sl.reslice m s a b = .ok t) :
    (t.bytes m).length = b - a := by
  unfold Sl.reslice at h
  split at h
  · cases h
    simp only [Sl.bytes, Sl.cap, List.length_take, List.length_drop] at *
    omega
  · cases h

theorem copyInto_rep_ok (n : Nat) (s : Bytes) : ∃ v, copyInto (List.replicate (40 + n) 0) 0 16 s = .ok v := by
  unfold copyInto
  rw [if_pos (by simp only [List.length_replicate]; omega)]
  exact ⟨_, rfl⟩

theorem psh_k {β} (s d b : Bytes) (hs : s.length = 16) (hd : d.length = 16) (k : Bytes → Outcome β) :
    (copyInto (List.replicate (40 + b.length) 0) 0 16 s >>= fun psh => copyInto psh 16 32 d >>= fun psh =>
      put32Into psh 32 36 b.length >>= fun psh => setAt psh 39 58 >>= fun psh => copyFrom psh 40 b >>= k)
      = k (icmp6Pseudo s d b) := by
  have h := congrArg (fun x => x >>= k) (psh_eq s d b hs hd)
  simp only [obind_assoc, Outcome.bind_ok] at h
  exact h

theorem ret_norm (x : Outcome (G6 × Option Err)) :
    (x >>= fun r => if (!r.snd.isNone) = true then Outcome.ok (r.fst, r.snd) else Outcome.ok (r.fst, none)) = x := by
  cases x with
  | ok r => obtain ⟨g, er⟩ := r; cases er <;> rfl
  | _ => rfl

theorem any_false_of_find_none (rs : List (Bytes × GRouter)) (ip : Bytes)
    (h : rs.find? (fun x => x.1 = ip) = none) : rs.any (fun x => decide (x.1 = ip)) = false := by
  induction rs with
  | nil => rfl
  | cons x xs ih =>
    simp only [List.find?_cons] at h
    by_cases hx : x.1 = ip
    · simp [hx] at h
    · simp only [hx, decide_false] at h
      simp [List.any_cons, hx, ih h]

/-- the computation returns no Go `error` value (it returns a value, panics or hangs) -/
def NoErr {α} (x : Outcome α) : Prop := ∀ e, x ≠ .err e

theorem noErr_ok {α} (a : α) : NoErr (Outcome.ok a) := fun _ h => by cases h
theorem noErr_panic {α} : NoErr (Outcome.panic : Outcome α) := fun _ h => by cases h
theorem noErr_bind {α β} {x : Outcome α} {f : α → Outcome β} (hx : NoErr x) (hf : ∀ a, NoErr (f a)) : NoErr (x >>= f) := by
  cases x with
  | ok a => exact hf a
  | err e => exact absurd rfl (hx e)
  | panic => exact noErr_panic
  | hang => intro _ h; cases h
theorem noErr_ite {α} {c : Prop} [Decidable c] {x y : Outcome α} (hx : NoErr x) (hy : NoErr y) : NoErr (if c then x else y) := by
  split <;> assumption

theorem noErr_reslice (m : Mem) (s : Sl) (a b : Nat) : NoErr (s.reslice m a b) := by
  unfold Sl.reslice; exact noErr_ite (noErr_ok _) noErr_panic
theorem noErr_from (m : Mem) (s : Sl) (a : Nat) : NoErr (s.from_ m a) := noErr_reslice _ _ _ _
theorem noErr_copyAt (m : Mem) (s : Sl) (a b : Nat) (src : Bytes) : NoErr (s.copyAt m a b src) := by
  unfold Sl.copyAt; exact noErr_bind (noErr_reslice _ _ _ _) (fun _ => noErr_ok _)
theorem noErr_put8 (m : Mem) (s : Sl) (i : Nat) (v : UInt8) : NoErr (s.put8 m i v) := by
  unfold Sl.put8; exact noErr_ite (noErr_ok _) noErr_panic
theorem noErr_put16 (m : Mem) (s : Sl) (a v : Nat) : NoErr (s.put16 m a v) := noErr_copyAt _ _ _ _ _
theorem noErr_idx (b : Bytes) (i : Nat) : NoErr (idx b i) := by
  unfold idx; split
  · exact noErr_ok _
  · exact noErr_panic
theorem noErr_get8 (m : Mem) (s : Sl) (i : Nat) : NoErr (s.get8 m i) := by
  unfold Sl.get8; exact noErr_ite (noErr_idx _ _) noErr_panic
theorem noErr_encodeEther (m : Mem) (b : Sl) (t : Nat) (s d : Bytes) : NoErr (encodeEther m b t s d) := by
  unfold encodeEther
  refine noErr_ite noErr_panic ?_
  refine noErr_bind (noErr_reslice _ _ _ _) (fun _ => ?_)
  refine noErr_bind (noErr_copyAt _ _ _ _ _) (fun _ => ?_)
  refine noErr_bind (noErr_copyAt _ _ _ _ _) (fun _ => ?_)
  exact noErr_bind (noErr_put16 _ _ _ _) (fun _ => noErr_ok _)
theorem noErr_etherHdrLen (m : Mem) (p : Sl) : NoErr (etherHdrLen m p) := by
  unfold etherHdrLen
  exact noErr_bind (noErr_get8 _ _ _) (fun _ => noErr_bind (noErr_get8 _ _ _) (fun _ => noErr_ok _))
theorem noErr_etherPayloadSl (m : Mem) (p : Sl) : NoErr (etherPayloadSl m p) := by
  unfold etherPayloadSl
  refine noErr_bind (noErr_etherHdrLen _ _) (fun _ => ?_)
  refine noErr_ite (noErr_bind (noErr_from _ _ _) (fun _ => noErr_ok _)) ?_
  exact noErr_ite (noErr_bind (noErr_reslice _ _ _ _) (fun _ => noErr_ok _)) (noErr_ok _)
theorem noErr_etherSetPayload (m : Mem) (p : Sl) (n : Nat) : NoErr (etherSetPayload m p n) := by
  unfold etherSetPayload
  exact noErr_bind (noErr_etherHdrLen _ _) (fun _ => noErr_reslice _ _ _ _)
theorem noErr_encodeIP6 (m : Mem) (p : Sl) (h : UInt8) (s d : Bytes) : NoErr (encodeIP6 m p h s d) := by
  unfold encodeIP6
  refine noErr_bind (noErr_reslice _ _ _ _) (fun _ => ?_)
  refine noErr_bind (noErr_put8 _ _ _ _) (fun _ => ?_)
  refine noErr_bind (noErr_put8 _ _ _ _) (fun _ => ?_)
  refine noErr_bind (noErr_put8 _ _ _ _) (fun _ => ?_)
  refine noErr_bind (noErr_put8 _ _ _ _) (fun _ => ?_)
  refine noErr_bind (noErr_put16 _ _ _ _) (fun _ => ?_)
  refine noErr_bind (noErr_put8 _ _ _ _) (fun _ => ?_)
  refine noErr_bind (noErr_put8 _ _ _ _) (fun _ => ?_)
  refine noErr_bind (noErr_copyAt _ _ _ _ _) (fun _ => ?_)
  exact noErr_bind (noErr_copyAt _ _ _ _ _) (fun _ => noErr_ok _)
theorem noErr_putCks (m : Mem) (p : Sl) (k : Nat) (cs : UInt16) : NoErr (putCks m p k cs) := by
  unfold putCks; exact noErr_bind (noErr_put8 _ _ _ _) (fun _ => noErr_put8 _ _ _ _)
theorem noErr_append (m : Mem) (p : Sl) (b : Bytes) (nh : UInt8) :
    NoErr (match ip6AppendPayload m p b nh with | .err _ => Outcome.panic | r => r) := by
  cases h : ip6AppendPayload m p b nh with
  | err e => exact noErr_panic
  | ok a => exact noErr_ok _
  | panic => exact noErr_panic
  | hang => intro _ h; cases h

theorem noErr_sendICMP6 (g : Mem) (hm dm s d msg : Bytes) : NoErr (sendICMP6 g hm dm s d msg) := by
  unfold sendICMP6
  refine noErr_ite noErr_panic ?_
  refine noErr_bind (noErr_encodeEther _ _ _ _ _) (fun a => ?_)
  refine noErr_bind (noErr_etherPayloadSl _ _) (fun o => ?_)
  cases o with
  | none => exact noErr_panic
  | some pay =>
    refine noErr_bind (noErr_encodeIP6 _ _ _ _ _) (fun _ => ?_)
    refine noErr_bind (noErr_append _ _ _ _) (fun _ => ?_)
    refine noErr_bind (noErr_etherSetPayload _ _ _) (fun _ => ?_)
    refine noErr_bind (noErr_reslice _ _ _ _) (fun _ => ?_)
    refine noErr_bind (noErr_reslice _ _ _ _) (fun _ => ?_)
    refine noErr_bind (noErr_from _ _ _) (fun _ => ?_)
    exact noErr_bind (noErr_putCks _ _ _ _) (fun _ => noErr_ok _)

theorem goMod4 (a : Int) : ((goMod a 4 != 0) = true) ↔ a % 4 ≠ 0 := by
  simp only [goMod, bne_iff_ne, ne_eq]
  constructor
  · intro h h'; apply h
    exact Int.tmod_eq_zero_of_dvd (Int.dvd_of_emod_eq_zero h')
  · intro h h'; apply h
    exact Int.emod_eq_zero_of_dvd (Int.dvd_of_tmod_eq_zero h')

theorem updRouter_comp (g : G6) (k : Bytes) (f1 f2 : GRouter → GRouter) :
    updRouter (updRouter g k f1) k f2 = updRouter g k (fun r => f2 (f1 r)) := by
  simp only [updRouter, List.map_map]
  congr 1
  apply List.map_congr_left
  intro e _
  by_cases h : e.1 = k <;> simp [h]

/-- in a table with distinct keys the entry `find?` returns is the only one with that key -/
theorem only_found (rs : List (Bytes × GRouter)) (ip : Bytes) (x : Bytes × GRouter)
    (hf : rs.find? (fun e => e.1 = ip) = some x) (hnd : (rs.map (·.1)).Nodup) :
    ∀ e ∈ rs, e.1 = ip → e = x := by
  induction rs with
  | nil => simp at hf
  | cons y ys ih =>
    simp only [List.map_cons, List.nodup_cons] at hnd
    intro e he hk
    simp only [List.find?_cons] at hf
    by_cases hy : y.1 = ip
    · simp only [hy, decide_true] at hf
      injection hf with hf
      subst hf
      rcases List.mem_cons.mp he with h | h
      · exact h
      · exfalso; apply hnd.1
        rw [hy, ← hk]; exact List.mem_map_of_mem h
    · simp only [hy, decide_false] at hf
      rcases List.mem_cons.mp he with h | h
      · subst h; exact absurd hk hy
      · exact ih hf hnd.2 e h hk

theorem upd_found (rs : List (Bytes × GRouter)) (ip : Bytes) (x : Bytes × GRouter)
    (hf : rs.find? (fun e => e.1 = ip) = some x) (hnd : (rs.map (·.1)).Nodup)
    (f : GRouter → GRouter) (r' : Icmp6Hunt.Router) (hr : absRouter (f x.2) = r') :
    absRouters (rs.map (fun e => if e.1 = ip then (e.1, f e.2) else e)) =
      (absRouters rs).map (fun e => if e.1 = ip then (e.1, r') else e) := by
  simp only [absRouters, List.map_map]
  apply List.map_congr_left
  intro e he
  by_cases h : e.1 = ip
  · have := only_found rs ip x hf hnd e he h
    subst this
    simp [h, hr]
  · simp [h]

theorem upd_new (rs : List (Bytes × GRouter)) (ip : Bytes) (r : GRouter)
    (hf : rs.find? (fun e => e.1 = ip) = none) (f : GRouter → GRouter) :
    (rs ++ [(ip, r)]).map (fun e => if e.1 = ip then (e.1, f e.2) else e) = rs ++ [(ip, f r)] := by
  simp only [List.map_append, List.map_cons, List.map_nil, if_true]
  congr 1
  have : ∀ e ∈ rs, ¬ e.1 = ip := by
    intro e he
    have := List.find?_eq_none.mp hf e he
    simpa using this
  conv => rhs; rw [← List.map_id rs]
  apply List.map_congr_left
  intro e he
  simp [this e he]

end PV.Lemmas.Icmp6Tie
