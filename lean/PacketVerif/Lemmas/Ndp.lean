/-
  Safety (no panic, no hang) of every piece of Model/Ndp.lean; used by Props/C08Ndp.lean.
-/
import PacketVerif.Model.Ndp
namespace PV.Lemmas.Ndp
open PV PV.Model.Ndp

theorem idx_eq_ok {b : Bytes} {i : Nat} (h : i < b.length) : idx b i = .ok b[i] := by
  simp [idx, List.getElem?_eq_getElem h]

theorem slice_eq_ok {b : Bytes} {lo hi : Nat} (h1 : lo ≤ hi) (h2 : hi ≤ b.length) :
    slice b lo hi = .ok ((b.take hi).drop lo) := by
  simp [slice, h1, h2]

theorem sliceFrom_eq_ok {b : Bytes} {lo : Nat} (h : lo ≤ b.length) : sliceFrom b lo = .ok (b.drop lo) := by
  simp [sliceFrom, h]

theorem u32be_ok {s : Bytes} (h : 4 ≤ s.length) : ∃ n, u32be s = .ok n := by
  match s, h with
  | a :: b :: c :: d :: _, _ => exact ⟨_, rfl⟩

theorem u16be_ok {s : Bytes} (h : 2 ≤ s.length) : ∃ n, u16be s = .ok n := by
  match s, h with
  | a :: b :: _, _ => exact ⟨_, rfl⟩

theorem safe_bind {α β} (x : Outcome α) (f : α → Outcome β) (hx : x.safe = true)
    (hf : ∀ a, x = .ok a → (f a).safe = true) : (x >>= f).safe = true := by
  cases x with
  | ok a => simpa using hf a rfl
  | err e => simp [Outcome.safe]
  | panic => simp [Outcome.safe] at hx
  | hang => simp [Outcome.safe] at hx

@[simp] theorem safe_ok {α} (a : α) : (Outcome.ok a).safe = true := rfl
@[simp] theorem safe_err {α} (e : Err) : (Outcome.err e : Outcome α).safe = true := rfl

/-! ### the option decoders: an option of `8·len ≥ 8` bytes never makes them panic -/

theorem lla_safe (b : Bytes) (h : 8 ≤ b.length) : (llaUnmarshal b).safe = true := by
  unfold llaUnmarshal
  simp (disch := omega) only [idx_eq_ok, sliceFrom_eq_ok, Outcome.bind_ok]
  split
  · rfl
  · split <;> simp

theorem mtu_safe (b : Bytes) (h : 8 ≤ b.length) : (mtuUnmarshal b).safe = true := by
  unfold mtuUnmarshal
  simp (disch := omega) only [idx_eq_ok, slice_eq_ok, Outcome.bind_ok]
  split
  · rfl
  · obtain ⟨n, hn⟩ := u32be_ok (s := List.drop 4 (List.take 8 b)) (by simp; omega)
    simp [hn]

/-- the option handed to a decoder is `b[i : i+l]` with `l = 8 · b[i+1] ≥ 8` -/
def OptShape (b : Bytes) : Prop := 8 ≤ b.length ∧ ∃ lb, idx b 1 = .ok lb ∧ b.length = lb.toNat * 8

theorem prefix_safe (b : Bytes) (h : OptShape b) : (prefixUnmarshal b).safe = true := by
  obtain ⟨h8, lb, hidx, hl⟩ := h
  unfold prefixUnmarshal
  simp only [hidx, Outcome.bind_ok]
  split
  · rfl
  · rename_i h4
    have h4' : lb = 4 := by simpa using h4
    subst h4'
    have hlen : b.length = 32 := by simpa using hl
    have hv : (b.drop 2).length = 30 := by simp [hlen]
    simp (disch := omega) only [sliceFrom_eq_ok, Outcome.bind_ok]
    simp (disch := omega) only [idx_eq_ok, slice_eq_ok, Outcome.bind_ok]
    obtain ⟨n1, hn1⟩ := u32be_ok (s := List.drop 2 (List.take 6 (List.drop 2 b))) (by simp; omega)
    obtain ⟨n2, hn2⟩ := u32be_ok (s := List.drop 6 (List.take 10 (List.drop 2 b))) (by simp; omega)
    simp [hn1, hn2]

theorem riLenOk_bound {l pl : Nat} (h : riLenOk l pl = true) (hp : pl < 256) : 8 + pl / 8 ≤ l * 8 := by
  unfold riLenOk at h
  split at h
  · simp at h; omega
  · split at h
    · simp at h; omega
    · split at h
      · simp at h; omega
      · simp at h

theorem ri_safe (b : Bytes) (h : OptShape b) : (riUnmarshal b).safe = true := by
  obtain ⟨h8, lb, hidx, hl⟩ := h
  unfold riUnmarshal
  simp only [hidx, Outcome.bind_ok]
  simp (disch := omega) only [idx_eq_ok, Outcome.bind_ok]
  split
  · rfl
  · rename_i hok
    have hok' : riLenOk lb.toNat b[2].toNat = true := by simpa using hok
    have hb := riLenOk_bound hok' b[2].toNat_lt
    obtain ⟨n1, hn1⟩ := u32be_ok (s := List.drop 4 (List.take 8 b)) (by simp; omega)
    simp (disch := omega) only [slice_eq_ok, Outcome.bind_ok]
    simp only [hn1, Outcome.bind_ok]
    split
    · rfl
    · rfl

theorem rdnssServers_safe (value : Bytes) : ∀ n i, 6 + 16 * (i + n) ≤ value.length →
    (rdnssServers value n i).safe = true
  | 0, _, _ => rfl
  | n + 1, i, h => by
    unfold rdnssServers
    simp (disch := omega) only [slice_eq_ok, Outcome.bind_ok]
    apply safe_bind
    · exact rdnssServers_safe value n (i + 1) (by omega)
    · intro a _; simp

theorem rdnss_safe (b : Bytes) (h : OptShape b) : (rdnssUnmarshal b).safe = true := by
  obtain ⟨h8, lb, hidx, hl⟩ := h
  unfold rdnssUnmarshal
  simp (disch := omega) only [sliceFrom_eq_ok, Outcome.bind_ok]
  have hv : (b.drop 2).length = b.length - 2 := by simp
  obtain ⟨n1, hn1⟩ := u32be_ok (s := List.drop 2 (List.take 6 (List.drop 2 b))) (by simp; omega)
  rw [slice_eq_ok (by omega) (by rw [hv]; omega)]
  simp only [hn1, hidx, Outcome.bind_ok]
  split
  · rfl
  · split
    · rfl
    · apply safe_bind
      · apply rdnssServers_safe
        rw [hv, hl]
        have : (lb.toNat - 1) * 8 / 16 * 16 ≤ (lb.toNat - 1) * 8 := Nat.div_mul_le_self _ _
        omega
      · intro a _; simp

theorem dnsslLoop_safe (v : Bytes) : ∀ fuel i acc, i ≤ v.length → v.length - i < fuel →
    (dnsslLoop v fuel i acc).safe = true
  | 0, _, _, _, h => by omega
  | fuel + 1, i, acc, hi, hf => by
    unfold dnsslLoop
    rw [sliceFrom_eq_ok hi]
    simp only [Outcome.bind_ok]
    have hd : (v.drop i).length = v.length - i := by simp
    split
    · rfl
    · rename_i h2
      rw [hd] at h2
      rw [idx_eq_ok (by omega)]
      simp only [Outcome.bind_ok]
      split
      · rfl
      · rename_i hlen
        split
        · rfl
        · rw [hd] at hlen
          have hl2 : i + 1 + v[i].toNat ≤ v.length - 1 := by omega
          rw [slice_eq_ok (by omega) (by omega)]
          simp only [Outcome.bind_ok]
          split
          · rfl
          · split
            · rfl
            · rw [idx_eq_ok (by omega)]
              simp only [Outcome.bind_ok]
              split
              · rw [sliceFrom_eq_ok (by omega)]
                simp only [Outcome.bind_ok]
                split
                · rfl
                · split
                  · rename_i h1
                    simp at h1
                    rw [idx_eq_ok (by omega)]
                    simp only [Outcome.bind_ok]
                    split
                    · rfl
                    · exact dnsslLoop_safe v fuel _ _ (by omega) (by omega)
                  · exact dnsslLoop_safe v fuel _ _ (by omega) (by omega)
              · exact dnsslLoop_safe v fuel _ _ (by omega) (by omega)

theorem dnssl_safe (b : Bytes) (h : 8 ≤ b.length) : (dnsslUnmarshal b).safe = true := by
  unfold dnsslUnmarshal
  split
  · rfl
  · simp (disch := omega) only [idx_eq_ok, sliceFrom_eq_ok, Outcome.bind_ok]
    split
    · rfl
    · have hv : (b.drop 2).length = b.length - 2 := by simp
      obtain ⟨n1, hn1⟩ := u32be_ok (s := List.drop 2 (List.take 6 (List.drop 2 b))) (by simp; omega)
      simp (disch := omega) only [slice_eq_ok, Outcome.bind_ok, hn1]
      apply safe_bind
      · exact dnsslLoop_safe _ _ _ _ (by omega) (by omega)
      · intro a _; split <;> simp

theorem applyOption_safe (t : UInt8) (opt : Bytes) (o : Options) (h : OptShape opt) :
    (applyOption t opt o).safe = true := by
  have h8 := h.1
  unfold applyOption
  split
  · exact safe_bind _ _ (lla_safe opt h8) (fun _ _ => rfl)
  split
  · exact safe_bind _ _ (lla_safe opt h8) (fun _ _ => rfl)
  split
  · have := mtu_safe opt h8
    cases hm : mtuUnmarshal opt <;> simp_all [Outcome.safe]
  split
  · exact safe_bind _ _ (prefix_safe opt h) (fun _ _ => rfl)
  split
  · have := ri_safe opt h
    cases hm : riUnmarshal opt <;> simp_all [Outcome.safe]
  split
  · have := rdnss_safe opt h
    cases hm : rdnssUnmarshal opt <;> simp_all [Outcome.safe]
  split
  · have := dnssl_safe opt h8
    cases hm : dnsslUnmarshal opt <;> simp_all [Outcome.safe]
  · rfl

theorem parseLoop_safe : ∀ fuel (b : Bytes) (o : Options), b.length / 8 < fuel →
    (parseLoop fuel b o).safe = true
  | 0, _, _, h => by omega
  | fuel + 1, b, o, hf => by
    unfold parseLoop
    split
    · rfl
    · split
      · rfl
      · rename_i h0 h2
        simp (disch := omega) only [idx_eq_ok, Outcome.bind_ok]
        split
        · rfl
        · rename_i hl
          have hl' : b[1].toNat * 8 ≠ 0 ∧ b[1].toNat * 8 ≤ b.length := by omega
          simp (disch := omega) only [slice_eq_ok, Outcome.bind_ok]
          have shape : OptShape (List.drop 0 (List.take (b[1].toNat * 8) b)) := by
            have hlen : (List.drop 0 (List.take (b[1].toNat * 8) b)).length = b[1].toNat * 8 := by
              simp; omega
            refine ⟨by omega, b[1], ?_, hlen⟩
            have h1 : 1 < (List.take (b[1].toNat * 8) b).length := by simp; omega
            simp only [List.drop_zero]
            rw [idx_eq_ok h1, List.getElem_take]
          apply safe_bind _ _ (applyOption_safe _ _ _ shape)
          intro o' _
          simp (disch := omega) only [sliceFrom_eq_ok, Outcome.bind_ok]
          apply parseLoop_safe
          simp
          omega


theorem newParseOptions_safe (b : Bytes) : (newParseOptions b).safe = true :=
  parseLoop_safe _ b {} (by omega)

theorem raOptions_safe (p : Bytes) : (raOptions p).safe = true := by
  unfold raOptions
  split
  · rfl
  · rw [sliceFrom_eq_ok (by omega)]
    exact newParseOptions_safe _

theorem naTargetLLA_safe (p : Bytes) : (naTargetLLA p).safe = true := by
  unfold naTargetLLA
  split
  · rfl
  · simp (disch := omega) only [idx_eq_ok, slice_eq_ok, Outcome.bind_ok]
    split <;> rfl

theorem icmp6Dispatch_safe (p : Bytes) (u h r : Bool) : (icmp6Dispatch p u h r).safe = true := by
  unfold icmp6Dispatch
  split
  · rfl
  · rw [idx_eq_ok (by omega)]
    simp only [Outcome.bind_ok]
    split
    · split
      · rfl
      · rw [idx_eq_ok (by omega)]
        simp only [Outcome.bind_ok]
        split
        · apply safe_bind _ _ (naTargetLLA_safe p)
          intro a _; cases a <;> rfl
        · rfl
    split
    · split
      · rfl
      · split
        · rfl
        · rw [slice_eq_ok (by omega) (by omega)]
          simp only [Outcome.bind_ok]
          split <;> rfl
    split
    · split
      · rfl
      · split
        · rfl
        · split
          · rfl
          · have := raOptions_safe p
            cases hm : raOptions p <;> simp_all [Outcome.safe]
    split
    · rfl
    split
    · rfl
    split
    · rfl
    split
    · rfl
    split
    · split <;> rfl
    split <;> rfl

theorem ip4Valid_true {p : Bytes} (h : ip4Valid p = .ok true) :
    20 ≤ p.length ∧ ∃ b0 tl, idx p 0 = .ok b0 ∧ (slice p 2 4 >>= u16be) = .ok tl ∧
      20 ≤ (b0 &&& 0x0f).toNat * 4 ∧ (b0 &&& 0x0f).toNat * 4 ≤ tl ∧ tl ≤ p.length := by
  unfold ip4Valid at h
  split at h
  · cases h
  · rename_i h20
    have h20' : 20 ≤ p.length := by omega
    refine ⟨h20', ?_⟩
    rw [idx_eq_ok (by omega), slice_eq_ok (by omega) (by omega)] at h
    obtain ⟨tl, htl⟩ := u16be_ok (s := List.drop 2 (List.take 4 p)) (by simp; omega)
    simp only [Outcome.bind_ok, htl] at h
    refine ⟨p[0], tl, idx_eq_ok (by omega), ?_, ?_⟩
    · rw [slice_eq_ok (by omega) (by omega)]; simpa using htl
    · have := of_decide_eq_true (Outcome.ok.inj h); omega

theorem ip4Valid_safe (p : Bytes) : (ip4Valid p).safe = true := by
  unfold ip4Valid
  split
  · rfl
  · rw [idx_eq_ok (by omega), slice_eq_ok (by omega) (by omega)]
    obtain ⟨tl, htl⟩ := u16be_ok (s := List.drop 2 (List.take 4 p)) (by simp; omega)
    simp [htl]

/-- after `IsValid`, `Payload()` = `p[IHL:TotalLen]` is in range -/
theorem ip4Payload_ok {p : Bytes} (h : ip4Valid p = .ok true) : ∃ u, ip4Payload p = .ok u := by
  obtain ⟨h20, b0, tl, h0, h2, ha, hb, hc⟩ := ip4Valid_true h
  unfold ip4Payload
  rw [h0]
  simp only [Outcome.bind_ok]
  rw [h2]
  simp only [Outcome.bind_ok]
  exact ⟨_, slice_eq_ok hb hc⟩

theorem icmp4Port_safe (orig : Bytes) (hv : ip4Valid orig = .ok true) : (icmp4Port orig).safe = true := by
  have hlen : 20 ≤ orig.length := (ip4Valid_true hv).1
  obtain ⟨u, hu⟩ := ip4Payload_ok hv
  unfold icmp4Port
  rw [idx_eq_ok (by omega)]
  simp only [Outcome.bind_ok, hu]
  split
  · split
    · rfl
    · rw [slice_eq_ok (by omega) (by omega)]
      obtain ⟨d, hd⟩ := u16be_ok (s := List.drop 2 (List.take 4 u)) (by simp; omega)
      simp [hd]
  · split
    · split
      · rfl
      · rw [idx_eq_ok (by omega)]
        simp only [Outcome.bind_ok]
        split
        · rfl
        · rw [slice_eq_ok (by omega) (by omega)]
          obtain ⟨d, hd⟩ := u16be_ok (s := List.drop 2 (List.take 4 u)) (by simp; omega)
          simp [hd]
    · rfl

theorem icmp4Unreach_safe (p : Bytes) : (icmp4Unreach p).safe = true := by
  unfold icmp4Unreach
  split
  · rfl
  · rw [sliceFrom_eq_ok (by omega)]
    simp only [Outcome.bind_ok]
    have hs := ip4Valid_safe (List.drop 8 p)
    cases hv : ip4Valid (List.drop 8 p) with
    | panic => simp [hv, Outcome.safe] at hs
    | hang => simp [hv, Outcome.safe] at hs
    | err e => rfl
    | ok v =>
      simp only [Outcome.bind_ok]
      cases v with
      | false => rfl
      | true => simpa using icmp4Port_safe _ hv

theorem icmp4Process_safe (p : Bytes) : (icmp4Process p).safe = true := by
  unfold icmp4Process
  split
  · rfl
  · rw [idx_eq_ok (by omega)]
    simp only [Outcome.bind_ok]
    split
    · rfl
    split
    · rfl
    split
    · rfl
    split
    · exact icmp4Unreach_safe p
    · rfl

theorem hopLoop_safe (data : Bytes) : ∀ fuel pos, pos ≤ data.length → data.length - pos < fuel →
    (hopLoop data fuel pos).safe = true
  | 0, _, _, h => by omega
  | fuel + 1, pos, hp, hf => by
    unfold hopLoop
    rw [sliceFrom_eq_ok hp]
    simp only [Outcome.bind_ok]
    have hd : (data.drop pos).length = data.length - pos := by simp
    split
    · rfl
    · rename_i h1
      rw [idx_eq_ok (by omega)]
      simp only [Outcome.bind_ok]
      split
      · -- pad1
        simp only [Outcome.bind_ok]
        split
        · rfl
        · exact hopLoop_safe data fuel _ (by omega) (by omega)
      · split
        · -- router alert
          split
          · rfl
          · rw [slice_eq_ok (by omega) (by omega)]
            obtain ⟨d, hd'⟩ := u16be_ok (s := List.drop 2 (List.take 4 (List.drop pos data))) (by simp; omega)
            simp only [hd', Outcome.bind_ok, Outcome.pure_eq]
            split
            · rfl
            · exact hopLoop_safe data fuel _ (by omega) (by omega)
        · split
          · rfl
          · rw [idx_eq_ok (by omega)]
            simp only [Outcome.bind_ok, Outcome.pure_eq]
            split
            · rfl
            · exact hopLoop_safe data fuel _ (by omega) (by omega)

theorem hopByHopParse_safe (p : Bytes) : (hopByHopParse p).safe = true := by
  unfold hopByHopParse
  split
  · rfl
  · rw [idx_eq_ok (by omega)]
    simp only [Outcome.bind_ok]
    split
    · rfl
    · rw [slice_eq_ok (by omega) (by omega)]
      simp only [Outcome.bind_ok]
      exact hopLoop_safe _ _ _ (by omega) (by omega)

theorem arpClassify_safe (b : Bytes) : (arpClassify b).safe = true := by
  unfold arpClassify
  split
  · rfl
  · obtain ⟨a1, h1⟩ := u16be_ok (s := List.drop 0 (List.take 2 b)) (by simp; omega)
    obtain ⟨a2, h2⟩ := u16be_ok (s := List.drop 2 (List.take 4 b)) (by simp; omega)
    obtain ⟨a3, h3⟩ := u16be_ok (s := List.drop 6 (List.take 8 b)) (by simp; omega)
    rw [slice_eq_ok (by omega) (by omega)]
    simp only [Outcome.bind_ok, h1]
    split
    · rfl
    rw [slice_eq_ok (by omega) (by omega)]
    simp only [Outcome.bind_ok, h2]
    split
    · rfl
    rw [idx_eq_ok (by omega)]
    simp only [Outcome.bind_ok]
    split
    · rfl
    rw [idx_eq_ok (by omega)]
    simp only [Outcome.bind_ok]
    split
    · rfl
    rw [slice_eq_ok (by omega) (by omega)]
    simp only [Outcome.bind_ok, h3]
    rw [slice_eq_ok (by omega) (by omega), slice_eq_ok (by omega) (by omega), slice_eq_ok (by omega) (by omega)]
    simp only [Outcome.bind_ok]
    split
    · rfl
    split
    · rfl
    split
    · split
      · rfl
      · split <;> rfl
    · rfl

end PV.Lemmas.Ndp
