/-
  Model/Ndp.lean (`newParseOptions`, `raHeader`) against the independent reader Spec/NdpWire.lean.
-/
import PacketVerif.Lemmas.Ndp
import PacketVerif.Spec.NdpWire
namespace PV.Lemmas.NdpExact
open PV PV.Model.Ndp PV.Lemmas.Ndp PV.Spec.NdpWire

/-! ### byte arithmetic: bit operations of the code = arithmetic of the reference -/

theorem u8_all (P : UInt8 → Prop) (h : ∀ k, k < 256 → P (UInt8.ofNat k)) (x : UInt8) : P x := by
  have := h x.toNat x.toNat_lt
  simpa using this

set_option maxRecDepth 100000 in
theorem bit80 (f : UInt8) : (decide ((f &&& 0x80) ≠ 0)) = decide (f.toNat ≥ 128) := by
  revert f; apply u8_all; decide

set_option maxRecDepth 100000 in
theorem bit40 (f : UInt8) : (decide ((f &&& 0x40) ≠ 0)) = decide (f.toNat / 64 % 2 = 1) := by
  revert f; apply u8_all; decide

set_option maxRecDepth 100000 in
theorem bit80' (f : UInt8) : decide (f &&& 128 = 0) = !decide (128 ≤ f.toNat) := by
  revert f; apply u8_all; decide

set_option maxRecDepth 100000 in
theorem bit40' (f : UInt8) : decide (f &&& 64 = 0) = !decide (f.toNat / 64 % 2 = 1) := by
  revert f; apply u8_all; decide

set_option maxRecDepth 100000 in
theorem pref_bits (f : UInt8) : ((f &&& 0x18) >>> 3).toNat = f.toNat / 8 % 4 := by
  revert f; apply u8_all; decide

theorem be32_nat32 (a b c d : UInt8) : be32 a b c d = nat32 a b c d := by
  unfold be32 nat32; omega

theorem be16_nat16 (a b : UInt8) : be16 a b = nat16 a b := rfl

set_option maxRecDepth 100000 in
theorem mask_k (k : Nat) (hk : 0 < k ∧ k < 8) (x : UInt8) :
    x &&& ~~~ ((0xff : UInt8) >>> UInt8.ofNat k) = UInt8.ofNat (x.toNat / 2 ^ (8 - k) * 2 ^ (8 - k)) := by
  have : k = 1 ∨ k = 2 ∨ k = 3 ∨ k = 4 ∨ k = 5 ∨ k = 6 ∨ k = 7 := by omega
  rcases this with h | h | h | h | h | h | h <;> subst h <;> (revert x; apply u8_all; decide)

set_option maxRecDepth 100000 in
theorem and_ff (x : UInt8) : x &&& 255 = x := by
  revert x; apply u8_all; decide

theorem maskByte_keepBits (n i : Nat) (x : UInt8) : x &&& maskByte n i = keepBits n i x := by
  unfold maskByte keepBits
  split
  · rename_i h
    have : n - 8 * i ≥ 8 := by omega
    simp [this, and_ff]
  · split
    · rename_i h1 h2
      have h0 : n - 8 * i = 0 := by omega
      have : ¬ (n - 8 * i ≥ 8) := by omega
      simp only [h0]
      have hx := x.toNat_lt
      have : x.toNat / 2 ^ (8 - 0) = 0 := by simp; omega
      simp [this]
    · rename_i h1 h2
      have : ¬ (n - 8 * i ≥ 8) := by omega
      simp only [this, if_false]
      exact mask_k (n - 8 * i) (by omega) x

theorem zipWith_range_mapIdx (a : Bytes) (f : Nat → UInt8 → UInt8) :
    (List.range a.length).zipWith f a = a.mapIdx f := by
  apply List.ext_getElem
  · simp
  · intro i h1 h2
    simp

theorem maskPrefix_maskTo (a : Bytes) (n : Nat) : maskPrefix a n = maskTo a n := by
  unfold maskPrefix maskTo
  split
  · rfl
  · rw [zipWith_range_mapIdx]
    congr 1
    funext i x
    exact maskByte_keepBits n i x

/-! ### translation of the reference record into the code's record -/

def ofPrefix (p : SPrefix) : PrefixInfo :=
  { plen := p.plen, onLink := p.onLink, auto := p.auto, valid := p.valid, preferred := p.preferred, pfx := p.pfx }

def ofSummary (s : Summary) : Options :=
  { mtu := s.mtu
    prefixes := s.prefixes.map ofPrefix
    rdnss := { lifetime := s.rdnssLifetime, servers := s.rdnssServers }
    slla := match s.slla with | none => {} | some m => { dir := 1, mac := m }
    tlla := match s.tlla with | none => {} | some m => { dir := 2, mac := m }
    dnssl := { lifetime := s.dnsslLifetime, names := s.dnsslNames, puny := false }
    ri := match s.route with
      | none => {}
      | some r => { plen := r.plen, pref := r.pref, lifetime := r.lifetime, pfx := r.pfx } }

/-- the bytes of a framed option as `newParseOptions` slices them -/
def _root_.PV.Spec.NdpWire.Tlv.bytes (o : Tlv) : Bytes := o.type :: UInt8.ofNat o.len :: o.body

/-- a framed option: `1 ≤ len ≤ 255`, body of `8·len − 2` bytes -/
def _root_.PV.Spec.NdpWire.Tlv.wf (o : Tlv) : Prop := 1 ≤ o.len ∧ o.len < 256 ∧ o.body.length = o.len * 8 - 2


theorem ofNat_eq_iff {n k : Nat} (hn : n < 256) (hk : k < 256) : (UInt8.ofNat n = UInt8.ofNat k) ↔ n = k := by
  constructor
  · intro h
    have := congrArg UInt8.toNat h
    simp [Nat.mod_eq_of_lt hn, Nat.mod_eq_of_lt hk] at this
    exact this
  · intro h; rw [h]

theorem ofNat_toNat_lt {n : Nat} (hn : n < 256) : (UInt8.ofNat n).toNat = n := by
  simp [Nat.mod_eq_of_lt hn]

/-- link-layer address options -/
theorem lla_eq (t : UInt8) (len : Nat) (body : Bytes) (hl1 : 1 ≤ len) (hl2 : len < 256)
    (hb : body.length = len * 8 - 2) (ht : t = 1 ∨ t = 2) :
    llaUnmarshal (t :: UInt8.ofNat len :: body) =
      match body with
      | [m0, m1, m2, m3, m4, m5] => .ok { dir := t.toNat, mac := [m0, m1, m2, m3, m4, m5] }
      | _ => .err .other := by
  unfold llaUnmarshal
  simp only [idx, List.getElem?_cons_zero, List.getElem?_cons_succ, Outcome.bind_ok]
  by_cases h1 : len = 1
  · subst h1
    match body, hb with
    | [m0, m1, m2, m3, m4, m5], _ =>
      rcases ht with rfl | rfl <;> simp [sliceFrom]
  · have hne : UInt8.ofNat len ≠ 1 := by
      intro h; exact h1 ((ofNat_eq_iff hl2 (by omega)).1 h)
    simp only [hne, ne_eq, not_false_eq_true, if_true]
    split
    · simp at *; omega
    · rfl

/-- MTU option -/
theorem mtu_eq (t : UInt8) (len : Nat) (body : Bytes) (hl1 : 1 ≤ len) (hl2 : len < 256)
    (hb : body.length = len * 8 - 2) :
    mtuUnmarshal (t :: UInt8.ofNat len :: body) =
      match body with
      | [_, _, a, b, c, d] => .ok (nat32 a b c d)
      | _ => .err .other := by
  unfold mtuUnmarshal
  simp only [idx, List.getElem?_cons_zero, List.getElem?_cons_succ, Outcome.bind_ok, ofNat_toNat_lt hl2]
  by_cases h1 : len = 1
  · subst h1
    match body, hb with
    | [m0, m1, m2, m3, m4, m5], _ =>
      simp [slice, u32be, be32_nat32]
  · have : ((len : Int) * 8 - 2) ≠ 6 := by omega
    simp only [this, ne_eq, not_false_eq_true, if_true]
    split
    · simp at *; omega
    · rfl


/-- prefix information option -/
theorem prefix_eq (t : UInt8) (len : Nat) (body : Bytes) (hl1 : 1 ≤ len) (hl2 : len < 256)
    (hb : body.length = len * 8 - 2) :
    prefixUnmarshal (t :: UInt8.ofNat len :: body) =
      match body with
      | [pl, fl, v0, v1, v2, v3, p0, p1, p2, p3, _, _, _, _,
         a0, a1, a2, a3, a4, a5, a6, a7, a8, a9, a10, a11, a12, a13, a14, a15] =>
        .ok { plen := pl.toNat, onLink := decide (fl.toNat ≥ 128), auto := decide (fl.toNat / 64 % 2 = 1),
              valid := nat32 v0 v1 v2 v3, preferred := nat32 p0 p1 p2 p3,
              pfx := maskTo [a0, a1, a2, a3, a4, a5, a6, a7, a8, a9, a10, a11, a12, a13, a14, a15] pl.toNat }
      | _ => .err .other := by
  unfold prefixUnmarshal
  simp only [idx, List.getElem?_cons_zero, List.getElem?_cons_succ, Outcome.bind_ok]
  by_cases h1 : len = 4
  · subst h1
    match body, hb with
    | [pl, fl, v0, v1, v2, v3, p0, p1, p2, p3, r0, r1, r2, r3,
       a0, a1, a2, a3, a4, a5, a6, a7, a8, a9, a10, a11, a12, a13, a14, a15], _ =>
      simp [slice, sliceFrom, u32be, be32_nat32, maskPrefix_maskTo]
      exact ⟨bit80' fl, bit40' fl⟩
  · have hne : UInt8.ofNat len ≠ 4 := by
      intro h; exact h1 ((ofNat_eq_iff hl2 (by omega)).1 h)
    simp only [hne, ne_eq, not_false_eq_true, if_true]
    split
    · simp at *; omega
    · rfl

theorem riLenOk_iff (len pl : Nat) (hl : 1 ≤ len) :
    riLenOk len pl = true ↔
      ((pl = 0 ∧ len ≤ 3) ∨ (1 ≤ pl ∧ pl ≤ 64 ∧ (len = 2 ∨ len = 3)) ∨ (65 ≤ pl ∧ pl ≤ 128 ∧ len = 3)) := by
  unfold riLenOk
  split
  · simp; omega
  · split
    · simp; omega
    · split
      · simp; omega
      · simp; omega

/-- route information option -/
theorem ri_eq (t : UInt8) (len : Nat) (body : Bytes) (hl1 : 1 ≤ len) (hl2 : len < 256)
    (hb : body.length = len * 8 - 2) :
    riUnmarshal (t :: UInt8.ofNat len :: body) =
      match body with
      | pl :: fl :: l0 :: l1 :: l2 :: l3 :: pbytes =>
        if ((pl.toNat = 0 ∧ len ≤ 3) ∨ (1 ≤ pl.toNat ∧ pl.toNat ≤ 64 ∧ (len = 2 ∨ len = 3)) ∨
            (65 ≤ pl.toNat ∧ pl.toNat ≤ 128 ∧ len = 3)) ∧ fl.toNat / 8 % 4 ≠ 2 then
          .ok { plen := pl.toNat, pref := fl.toNat / 8 % 4, lifetime := nat32 l0 l1 l2 l3,
                pfx := pbytes.take (pl.toNat / 8) }
        else .err .other
      | _ => .err .other := by
  match body, hb with
  | pl :: fl :: l0 :: l1 :: l2 :: l3 :: pbytes, hb =>
    unfold riUnmarshal
    simp only [idx, List.getElem?_cons_zero, List.getElem?_cons_succ, Outcome.bind_ok, ofNat_toNat_lt hl2]
    by_cases hok : riLenOk len pl.toNat = true
    · have hspec := (riLenOk_iff len pl.toNat hl1).1 hok
      have hbound := riLenOk_bound hok pl.toNat_lt
      simp only [List.length_cons] at hb
      have h8 : 8 + pl.toNat / 8 ≤ (t :: UInt8.ofNat len :: pl :: fl :: l0 :: l1 :: l2 :: l3 :: pbytes).length := by
        simp only [List.length_cons]; omega
      simp only [hok, Bool.true_eq_false, if_false]
      rw [slice_eq_ok (by omega) (by simp only [List.length_cons]; omega)]
      rw [slice_eq_ok (by omega) h8]
      simp only [Outcome.bind_ok, pref_bits]
      have e1 : List.drop 4 (List.take 8 (t :: UInt8.ofNat len :: pl :: fl :: l0 :: l1 :: l2 :: l3 :: pbytes))
          = [l0, l1, l2, l3] := by simp
      have e2 : List.drop 8 (List.take (8 + pl.toNat / 8)
          (t :: UInt8.ofNat len :: pl :: fl :: l0 :: l1 :: l2 :: l3 :: pbytes)) = pbytes.take (pl.toNat / 8) := by
        rw [show 8 + pl.toNat / 8 = (pl.toNat / 8) + 8 by omega]
        simp [List.take_succ_cons]
      rw [e1, e2]
      simp only [u32be, Outcome.bind_ok, be32_nat32]
      by_cases hp : fl.toNat / 8 % 4 = 2
      · simp [hp]
      · simp [hp, hspec]
    · have hok' : riLenOk len pl.toNat = false := by simpa using hok
      have hspec : ¬ ((pl.toNat = 0 ∧ len ≤ 3) ∨ (1 ≤ pl.toNat ∧ pl.toNat ≤ 64 ∧ (len = 2 ∨ len = 3)) ∨
            (65 ≤ pl.toNat ∧ pl.toNat ≤ 128 ∧ len = 3)) := fun h => hok ((riLenOk_iff len pl.toNat hl1).2 h)
      simp [hok', hspec]
  | [], hb => simp at hb; omega
  | [_], hb => simp at hb; omega
  | [_, _], hb => simp at hb; omega
  | [_, _, _], hb => simp at hb; omega
  | [_, _, _, _], hb => simp at hb; omega
  | [_, _, _, _, _], hb => simp at hb; omega


theorem groups16_step (l : Bytes) (h : 16 ≤ l.length) : groups16 l = l.take 16 :: groups16 (l.drop 16) := by
  match l, h with
  | a0 :: a1 :: a2 :: a3 :: a4 :: a5 :: a6 :: a7 :: a8 :: a9 :: a10 :: a11 :: a12 :: a13 :: a14 :: a15 :: rest, _ =>
    simp [groups16]

theorem groups16_short (l : Bytes) (h : l.length < 16) : groups16 l = [] := by
  unfold groups16
  split
  · simp at h; omega
  · rfl

theorem groups16_length (l : Bytes) : (groups16 l).length = l.length / 16 := by
  induction hn : l.length using Nat.strongRecOn generalizing l with
  | _ n ih =>
    by_cases h : 16 ≤ l.length
    · rw [groups16_step l h, List.length_cons, ih (l.length - 16) (by omega) (l.drop 16) (by simp)]
      omega
    · rw [groups16_short l (by omega)]; simp; omega

/-- the server loop returns the next `n` 16-byte groups -/
theorem rdnssServers_eq (value : Bytes) : ∀ n i, 6 + 16 * (i + n) ≤ value.length →
    rdnssServers value n i = .ok ((groups16 (value.drop (6 + 16 * i))).take n)
  | 0, _, _ => by simp [rdnssServers]
  | n + 1, i, h => by
    unfold rdnssServers
    rw [slice_eq_ok (by omega) (by omega), rdnssServers_eq value n (i + 1) (by omega)]
    simp only [Outcome.bind_ok, Outcome.pure_eq]
    rw [groups16_step (value.drop (6 + 16 * i)) (by simp; omega)]
    simp only [List.take_succ_cons, List.drop_drop]
    congr 2
    · rw [List.take_drop]
      congr 2
      omega

/-- RDNSS option -/
theorem rdnss_eq (t : UInt8) (len : Nat) (body : Bytes) (hl1 : 1 ≤ len) (hl2 : len < 256)
    (hb : body.length = len * 8 - 2) :
    rdnssUnmarshal (t :: UInt8.ofNat len :: body) =
      match body with
      | _ :: _ :: l0 :: l1 :: l2 :: l3 :: addrs =>
        match groups16 addrs with
        | [] => .err .other
        | g => .ok { lifetime := nat32 l0 l1 l2 l3, servers := g }
      | _ => .err .other := by
  match body, hb with
  | r0 :: r1 :: l0 :: l1 :: l2 :: l3 :: addrs, hb =>
    unfold rdnssUnmarshal
    simp only [List.length_cons] at hb
    have ha : addrs.length = (len - 1) * 8 := by omega
    simp only [sliceFrom, idx, List.getElem?_cons_zero, List.getElem?_cons_succ, List.length_cons,
      Outcome.bind_ok, ofNat_toNat_lt hl2]
    have h2 : 2 ≤ addrs.length + 1 + 1 + 1 + 1 + 1 + 1 + 1 + 1 := by omega
    simp only [h2, if_true, List.drop_succ_cons, List.drop_zero, Outcome.bind_ok]
    rw [slice_eq_ok (by omega) (by simp only [List.length_cons]; omega)]
    have e1 : List.drop 2 (List.take 6 (r0 :: r1 :: l0 :: l1 :: l2 :: l3 :: addrs)) = [l0, l1, l2, l3] := by simp
    rw [e1]
    simp only [u32be, Outcome.bind_ok, be32_nat32]
    have hmod : (len - 1) * 8 % 2 = 0 := by omega
    simp only [hmod, ne_eq, not_true_eq_false, if_false]
    have hg := groups16_length addrs
    by_cases hc : (len - 1) * 8 / 16 = 0
    · simp only [hc, if_true]
      have : groups16 addrs = [] := by
        apply List.eq_nil_of_length_eq_zero; rw [hg, ha]; exact hc
      rw [this]
    · simp only [hc, if_false]
      rw [rdnssServers_eq _ _ 0 (by
        simp only [List.length_cons]
        have : (len - 1) * 8 / 16 * 16 ≤ (len - 1) * 8 := Nat.div_mul_le_self _ _
        omega)]
      have e2 : List.drop (6 + 16 * 0) (r0 :: r1 :: l0 :: l1 :: l2 :: l3 :: addrs) = addrs := by simp
      rw [e2]
      have : (groups16 addrs).take ((len - 1) * 8 / 16) = groups16 addrs := by
        apply List.take_of_length_le; rw [hg, ha]; exact Nat.le_refl _
      rw [this]
      simp only [Outcome.bind_ok, Outcome.pure_eq]
      cases hgg : groups16 addrs with
      | nil => rw [hgg] at hg; simp at hg; omega
      | cons a r => rfl
  | [], hb => simp at hb; omega
  | [_], hb => simp at hb; omega
  | [_, _], hb => simp at hb; omega
  | [_, _, _], hb => simp at hb; omega
  | [_, _, _, _], hb => simp at hb; omega
  | [_, _, _, _, _], hb => simp at hb; omega


/-- reference reading of a DNSSL body in the code's record type -/
def dnsslSpec (body : Bytes) : Outcome Dnssl :=
  match body with
  | _ :: _ :: l0 :: l1 :: l2 :: l3 :: names =>
    match dnsNames (names.length + 1) names with
    | some (n :: ns) => .ok { lifetime := nat32 l0 l1 l2 l3, names := n :: ns, puny := false }
    | _ => .err .other
  | _ => .err .other

/-- the names area of a DNSSL option is "cleanly padded": reading name after name as the reference
    does, a zero byte where a name would start is followed by zero bytes only (what RFC 8106 asks of
    the sender).  Outside this region the code stops at the first zero byte and accepts the option
    while the reference reader rejects the bytes after it. -/
def padClean : Nat → Bytes → Bool
  | 0, _ => true
  | fuel + 1, b =>
    if b.all (· = 0) then true
    else match dnsName (b.length + 1) b with
      | none => true
      | some ([], _) => false
      | some (_ :: _, rest) => padClean fuel rest

/-- the DNSSL label walk of the code reads this option as the reference does (see `dnssl_exact` in
    Props/C14.lean for the region where this is claimed) -/
def DnsslAgree (o : Tlv) : Prop := o.type = 31 → dnsslUnmarshal o.bytes = dnsslSpec o.body

/-! if-forms: the fixed-size options are read iff their length field has the one admissible value -/

def mtuVal (body : Bytes) : Nat :=
  match body with
  | [_, _, a, b, c, d] => nat32 a b c d
  | _ => 0

def pfxVal (body : Bytes) : SPrefix :=
  match body with
  | [pl, fl, v0, v1, v2, v3, p0, p1, p2, p3, _, _, _, _,
     a0, a1, a2, a3, a4, a5, a6, a7, a8, a9, a10, a11, a12, a13, a14, a15] =>
    { plen := pl.toNat, onLink := decide (fl.toNat ≥ 128), auto := decide (fl.toNat / 64 % 2 = 1),
      valid := nat32 v0 v1 v2 v3, preferred := nat32 p0 p1 p2 p3,
      pfx := maskTo [a0, a1, a2, a3, a4, a5, a6, a7, a8, a9, a10, a11, a12, a13, a14, a15] pl.toNat }
  | _ => { plen := 0, onLink := false, auto := false, valid := 0, preferred := 0, pfx := [] }

theorem lla_if (t : UInt8) (len : Nat) (body : Bytes) (hl1 : 1 ≤ len) (hl2 : len < 256)
    (hb : body.length = len * 8 - 2) (ht : t = 1 ∨ t = 2) :
    llaUnmarshal (t :: UInt8.ofNat len :: body) =
      (if len = 1 then .ok { dir := t.toNat, mac := body } else .err .other) ∧
    decodeOne ⟨t, len, body⟩ = (if len = 1 then Decoded.lla (t = 2) body else Decoded.invalid) := by
  rw [lla_eq t len body hl1 hl2 hb ht]
  unfold decodeOne
  simp only [ht, if_true]
  by_cases h1 : len = 1
  · subst h1
    match body, hb with
    | [m0, m1, m2, m3, m4, m5], _ => simp
  · simp only [h1, if_false]
    constructor
    · split
      · simp at *; omega
      · rfl
    · split
      · simp at *; omega
      · rfl

theorem mtu_if (len : Nat) (body : Bytes) (hl1 : 1 ≤ len) (hl2 : len < 256)
    (hb : body.length = len * 8 - 2) :
    mtuUnmarshal (5 :: UInt8.ofNat len :: body) = (if len = 1 then .ok (mtuVal body) else .err .other) ∧
    decodeOne ⟨5, len, body⟩ = (if len = 1 then Decoded.mtu (mtuVal body) else Decoded.ignored) := by
  rw [mtu_eq 5 len body hl1 hl2 hb]
  unfold decodeOne
  simp only [show ¬ ((5 : UInt8) = 1 ∨ (5 : UInt8) = 2) by decide, if_false, if_true]
  by_cases h1 : len = 1
  · subst h1
    match body, hb with
    | [m0, m1, m2, m3, m4, m5], _ => simp [mtuVal]
  · simp only [h1, if_false]
    constructor
    · split
      · simp at *; omega
      · rfl
    · split
      · simp at *; omega
      · rfl

theorem prefix_if (len : Nat) (body : Bytes) (hl1 : 1 ≤ len) (hl2 : len < 256)
    (hb : body.length = len * 8 - 2) :
    prefixUnmarshal (3 :: UInt8.ofNat len :: body) =
      (if len = 4 then .ok (ofPrefix (pfxVal body)) else .err .other) ∧
    decodeOne ⟨3, len, body⟩ = (if len = 4 then Decoded.pfx (pfxVal body) else Decoded.invalid) := by
  rw [prefix_eq 3 len body hl1 hl2 hb]
  unfold decodeOne
  simp only [show ¬ ((3 : UInt8) = 1 ∨ (3 : UInt8) = 2) by decide, show ¬ ((3 : UInt8) = 5) by decide,
    if_false, if_true]
  by_cases h1 : len = 4
  · subst h1
    match body, hb with
    | [pl, fl, v0, v1, v2, v3, p0, p1, p2, p3, r0, r1, r2, r3,
       a0, a1, a2, a3, a4, a5, a6, a7, a8, a9, a10, a11, a12, a13, a14, a15], _ => simp [pfxVal, ofPrefix]
  · simp only [h1, if_false]
    constructor
    · split
      · simp at *; omega
      · rfl
    · split
      · simp at *; omega
      · rfl

theorem six_of_len (len : Nat) (body : Bytes) (hl1 : 1 ≤ len) (hb : body.length = len * 8 - 2) :
    ∃ b0 b1 b2 b3 b4 b5 rest, body = b0 :: b1 :: b2 :: b3 :: b4 :: b5 :: rest := by
  match body, hb with
  | b0 :: b1 :: b2 :: b3 :: b4 :: b5 :: rest, _ => exact ⟨_, _, _, _, _, _, _, rfl⟩
  | [], hb => simp at hb; omega
  | [_], hb => simp at hb; omega
  | [_, _], hb => simp at hb; omega
  | [_, _, _], hb => simp at hb; omega
  | [_, _, _, _], hb => simp at hb; omega
  | [_, _, _, _, _], hb => simp at hb; omega

theorem applyOption_eq (o : Tlv) (hw : o.wf) (s : Summary) (hd : DnsslAgree o) :
    applyOption o.type o.bytes (ofSummary s) =
      match s.add (decodeOne o) with
      | some s' => .ok (ofSummary s')
      | none => .err .other := by
  obtain ⟨t, len, body⟩ := o
  obtain ⟨hl1, hl2, hb⟩ := hw
  simp only at hl1 hl2 hb
  unfold applyOption
  simp only [Tlv.bytes]
  by_cases h1 : t = 1
  · subst h1
    obtain ⟨e1, e2⟩ := lla_if 1 len body hl1 hl2 hb (Or.inl rfl)
    simp only [if_true]
    rw [e1, e2]
    by_cases hl : len = 1 <;> simp [hl, Summary.add, ofSummary]
  by_cases h2 : t = 2
  · subst h2
    obtain ⟨e1, e2⟩ := lla_if 2 len body hl1 hl2 hb (Or.inr rfl)
    simp only [show ¬ ((2 : UInt8) = 1) by decide, if_false, if_true]
    rw [e1, e2]
    by_cases hl : len = 1 <;> simp [hl, Summary.add, ofSummary]
  by_cases h5 : t = 5
  · subst h5
    obtain ⟨e1, e2⟩ := mtu_if len body hl1 hl2 hb
    simp only [show ¬ ((5 : UInt8) = 1) by decide, show ¬ ((5 : UInt8) = 2) by decide, if_false, if_true]
    rw [e1, e2]
    by_cases hl : len = 1 <;> simp [hl, Summary.add, ofSummary]
  by_cases h3 : t = 3
  · subst h3
    obtain ⟨e1, e2⟩ := prefix_if len body hl1 hl2 hb
    simp only [show ¬ ((3 : UInt8) = 1) by decide, show ¬ ((3 : UInt8) = 2) by decide,
      show ¬ ((3 : UInt8) = 5) by decide, if_false, if_true]
    rw [e1, e2]
    by_cases hl : len = 4 <;> simp [hl, Summary.add, ofSummary]
  obtain ⟨b0, b1, b2, b3, b4, b5, rest, rfl⟩ := six_of_len len body hl1 hb
  unfold decodeOne
  by_cases h24 : t = 24
  · subst h24
    simp only [show ¬ ((24 : UInt8) = 1) by decide, show ¬ ((24 : UInt8) = 2) by decide,
      show ¬ ((24 : UInt8) = 5) by decide, show ¬ ((24 : UInt8) = 3) by decide, if_false, if_true, or_self]
    rw [ri_eq 24 len _ hl1 hl2 hb]
    simp only
    by_cases hA : (b0.toNat = 0 ∧ len ≤ 3 ∨ 1 ≤ b0.toNat ∧ b0.toNat ≤ 64 ∧ (len = 2 ∨ len = 3) ∨
        65 ≤ b0.toNat ∧ b0.toNat ≤ 128 ∧ len = 3) <;>
    by_cases hB : b1.toNat / 8 % 4 = 2 <;>
    simp [hA, hB, Summary.add, ofSummary]
  by_cases h25 : t = 25
  · subst h25
    simp only [show ¬ ((25 : UInt8) = 1) by decide, show ¬ ((25 : UInt8) = 2) by decide,
      show ¬ ((25 : UInt8) = 5) by decide, show ¬ ((25 : UInt8) = 3) by decide,
      show ¬ ((25 : UInt8) = 24) by decide, if_false, if_true, or_self]
    rw [rdnss_eq 25 len _ hl1 hl2 hb]
    simp only
    cases hg : groups16 rest <;> simp [Summary.add, ofSummary]
  by_cases h31 : t = 31
  · subst h31
    simp only [show ¬ ((31 : UInt8) = 1) by decide, show ¬ ((31 : UInt8) = 2) by decide,
      show ¬ ((31 : UInt8) = 5) by decide, show ¬ ((31 : UInt8) = 3) by decide,
      show ¬ ((31 : UInt8) = 24) by decide, show ¬ ((31 : UInt8) = 25) by decide, if_false, if_true,
      or_self]
    have := hd rfl
    simp only [Tlv.bytes] at this
    rw [this]
    unfold dnsslSpec
    simp only
    cases hn : dnsNames (rest.length + 1) rest with
    | none => simp [Summary.add]
    | some l => cases l <;> simp [Summary.add, ofSummary]
  · simp [h1, h2, h5, h3, h24, h25, h31, Summary.add]


/-! ### framing: the option loop against `tlvs` -/

theorem tlvs_cons2 (t l : UInt8) (rest : Bytes) :
    tlvs (t :: l :: rest) =
      if l.toNat = 0 then none
      else if rest.length < l.toNat * 8 - 2 then none
      else (tlvs (rest.drop (l.toNat * 8 - 2))).map
        (fun r => ⟨t, l.toNat, rest.take (l.toNat * 8 - 2)⟩ :: r) := by
  rw [tlvs]

/-- one iteration of the loop, with the option sliced as the reference frames it -/
theorem parseLoop_step (fuel : Nat) (t l : UInt8) (rest : Bytes) (o : Options)
    (h0 : l.toNat ≠ 0) (hfit : ¬ rest.length < l.toNat * 8 - 2) :
    parseLoop (fuel + 1) (t :: l :: rest) o =
      (applyOption t (Tlv.bytes ⟨t, l.toNat, rest.take (l.toNat * 8 - 2)⟩) o) >>=
        fun o' => parseLoop fuel (rest.drop (l.toNat * 8 - 2)) o' := by
  rw [parseLoop]
  have hlen : (t :: l :: rest).length = rest.length + 2 := by simp
  simp only [hlen, idx, List.getElem?_cons_zero, List.getElem?_cons_succ, Outcome.bind_ok]
  have c1 : ¬ (rest.length + 2 = 0) := by omega
  have c2 : ¬ (rest.length + 2 < 2) := by omega
  have c3 : ¬ (l.toNat * 8 = 0 ∨ l.toNat * 8 > rest.length + 2) := by omega
  simp only [c1, c2, c3, if_false]
  rw [slice_eq_ok (by omega) (by rw [hlen]; omega), sliceFrom_eq_ok (by rw [hlen]; omega)]
  simp only [Outcome.bind_ok, List.drop_zero]
  have e1 : List.take (l.toNat * 8) (t :: l :: rest) = t :: l :: rest.take (l.toNat * 8 - 2) := by
    rw [show l.toNat * 8 = (l.toNat * 8 - 2) + 1 + 1 by omega]
    simp [List.take_succ_cons]
  have e2 : List.drop (l.toNat * 8) (t :: l :: rest) = rest.drop (l.toNat * 8 - 2) := by
    rw [show l.toNat * 8 = (l.toNat * 8 - 2) + 1 + 1 by omega]
    simp
  rw [e1, e2]
  simp [Tlv.bytes]

theorem tlv_wf (t l : UInt8) (rest : Bytes) (h0 : l.toNat ≠ 0) (hfit : ¬ rest.length < l.toNat * 8 - 2) :
    (Tlv.mk t l.toNat (rest.take (l.toNat * 8 - 2))).wf := by
  refine ⟨by simp only; omega, l.toNat_lt, ?_⟩
  simp only [List.length_take]
  omega

/-- broken framing makes `newParseOptions` return an error, whatever the options before it hold -/
theorem parseLoop_framing_err : ∀ fuel (b : Bytes) (o : Options), b.length / 8 < fuel → tlvs b = none →
    ∃ e, parseLoop fuel b o = .err e
  | 0, _, _, h, _ => by omega
  | fuel + 1, b, o, hf, ht => by
    match b, ht with
    | [], ht => simp [tlvs] at ht
    | [x], _ => exact ⟨.other, by simp [parseLoop]⟩
    | t :: l :: rest, ht =>
      rw [tlvs_cons2] at ht
      by_cases h0 : l.toNat = 0
      · refine ⟨.other, ?_⟩
        rw [parseLoop]
        simp [idx, h0]
      · by_cases hfit : rest.length < l.toNat * 8 - 2
        · refine ⟨.other, ?_⟩
          rw [parseLoop]
          have hlen : (t :: l :: rest).length = rest.length + 2 := by simp
          have c3 : (l.toNat * 8 = 0 ∨ l.toNat * 8 > rest.length + 2) := by omega
          simp only [hlen, idx, List.getElem?_cons_zero, List.getElem?_cons_succ, Outcome.bind_ok, c3, if_true]
          simp
        · simp only [h0, hfit, if_false, Option.map_eq_none_iff] at ht
          rw [parseLoop_step fuel t l rest o h0 hfit]
          have hs := applyOption_safe t (Tlv.bytes ⟨t, l.toNat, rest.take (l.toNat * 8 - 2)⟩) o (by
            refine ⟨?_, l, ?_, ?_⟩
            · simp only [Tlv.bytes, List.length_cons, List.length_take]; omega
            · simp [Tlv.bytes, idx]
            · simp only [Tlv.bytes, List.length_cons, List.length_take]; omega)
          cases ha : applyOption t (Tlv.bytes ⟨t, l.toNat, rest.take (l.toNat * 8 - 2)⟩) o with
          | panic => simp [ha, Outcome.safe] at hs
          | hang => simp [ha, Outcome.safe] at hs
          | err e => exact ⟨e, rfl⟩
          | ok o' =>
            simp only [Outcome.bind_ok]
            exact parseLoop_framing_err fuel _ o' (by simp at hf ⊢; omega) ht

/-- well-framed option area: the loop computes the reference summary -/
theorem parseLoop_eq : ∀ fuel (b : Bytes) (s : Summary) (l : List Tlv), b.length / 8 < fuel →
    tlvs b = some l → (∀ o ∈ l, DnsslAgree o) →
    parseLoop fuel b (ofSummary s) =
      match summarise s l with
      | some s' => .ok (ofSummary s')
      | none => .err .other
  | 0, _, _, _, h, _, _ => by omega
  | fuel + 1, b, s, l, hf, ht, hd => by
    match b, ht with
    | [], ht =>
      simp [tlvs] at ht; subst ht
      simp [parseLoop, summarise]
    | [x], ht => simp [tlvs] at ht
    | t :: lb :: rest, ht =>
      rw [tlvs_cons2] at ht
      by_cases h0 : lb.toNat = 0
      · simp [h0] at ht
      · by_cases hfit : rest.length < lb.toNat * 8 - 2
        · simp [h0, hfit] at ht
        · simp only [h0, hfit, if_false, Option.map_eq_some_iff] at ht
          obtain ⟨l', hl', rfl⟩ := ht
          rw [parseLoop_step fuel t lb rest _ h0 hfit]
          have hw := tlv_wf t lb rest h0 hfit
          rw [applyOption_eq ⟨t, lb.toNat, rest.take (lb.toNat * 8 - 2)⟩ hw s (hd _ (by simp))]
          simp only [summarise]
          cases hadd : s.add (decodeOne ⟨t, lb.toNat, rest.take (lb.toNat * 8 - 2)⟩) with
          | none => simp
          | some s' =>
            simp only [Outcome.bind_ok]
            exact parseLoop_eq fuel _ s' l' (by simp at hf ⊢; omega) hl'
              (fun o ho => hd o (by simp [ho]))

/-- `newParseOptions` against the reference reader, complete case distinction -/
theorem newParseOptions_eq (b : Bytes) :
    (tlvs b = none → ∃ e, newParseOptions b = .err e) ∧
    (∀ l, tlvs b = some l → (∀ o ∈ l, DnsslAgree o) →
      newParseOptions b = match summarise {} l with
        | some s' => .ok (ofSummary s')
        | none => .err .other) := by
  constructor
  · intro h; exact parseLoop_framing_err _ b {} (by omega) h
  · intro l hl hd
    have := parseLoop_eq (b.length / 8 + 1) b {} l (by omega) hl hd
    simpa [newParseOptions, ofSummary] using this

end PV.Lemmas.NdpExact
