import PacketVerif.Lemmas.DhcpSrvTieA
namespace PV.Lemmas.DhcpSrvTie
open PV PV.Model.Dhcp4Srv PV.Model.DhcpSrvGo PV.Lemmas.Dhcp4Srv PV.Gen.DhcpSrv
set_option linter.unusedVariables false

/-! ### cursor algebra -/

theorem cursor_setCursor (s : State) (sub : SubId) (n : IP) : cursor (setCursor s sub n) sub = n := by
  cases sub <;> rfl

theorem setCursor_setCursor (s : State) (sub : SubId) (a b : IP) :
    setCursor (setCursor s sub a) sub b = setCursor s sub b := by
  cases sub <;> rfl

theorem setCursor_cursor (s : State) (sub : SubId) : setCursor s sub (cursor s sub) = s := by
  cases sub <;> cases s <;> rfl

theorem available_setCursor (cfg : Cfg) (s : State) (sub : SubId) (n : IP) (c : Cid) (sub' : SubId) (a : IP) :
    available cfg (setCursor s sub n) c sub' a = available cfg s c sub' a := by
  cases sub <;> rfl

/-! ### whileLoop equations -/

theorem whileLoop_false {σ ρ} (fuel : Nat) (st : σ) (cond : σ → Bool) (body : σ → Ctl σ (Option ρ)) (k : σ → Option ρ)
    (h : cond st = false) : whileLoop fuel st cond body k = k st := by
  unfold whileLoop
  simp [h]

theorem whileLoop_succ {σ ρ} (f : Nat) (st : σ) (cond : σ → Bool) (body : σ → Ctl σ (Option ρ)) (k : σ → Option ρ)
    (h : cond st = true) :
    whileLoop (f + 1) st cond body k =
      (match body st with
        | .next st' => whileLoop f st' cond body k
        | .brk st' => k st'
        | .ret r => r) := by
  rw [whileLoop]
  simp only [h, if_true]
  rfl

theorem scanAux_zero (av : IP → Bool) (n : IP) : scanAux av n 0 = (none, n) := rfl
theorem scanAux_succ (av : IP → Bool) (n : IP) (k : Nat) :
    scanAux av n (k + 1) = if av n then (some n, n + 1) else scanAux av (n + 1) k := rfl

/-! ### the generated closures (verbatim from Gen/DhcpSrvGen.lean) -/

def loopCond (cfg : Cfg) (lease : Cid) : State × AddrV → Bool :=
  (fun (s, ip) => (AddrV.less (AddrV.v4 (cursor s (L s lease).sub)) (AddrV.v4 (cfg.sub (L s lease).sub).bcast)))

def loopBody (cfg : Cfg) (lease : Cid) : State × AddrV → Ctl (State × AddrV) (Option (State × Bool)) :=
  (fun (s, ip) =>
    if (Handler_available cfg s lease (AddrV.v4 (cursor s (L s lease).sub))) then
      let ip := (AddrV.v4 (cursor s (L s lease).sub))
      let s := setCursor s (L s lease).sub (AddrV.toNat (AddrV.next (AddrV.v4 (cursor s (L s lease).sub))))
      Ctl.brk (s, ip)
    else
      let s := setCursor s (L s lease).sub (AddrV.toNat (AddrV.next (AddrV.v4 (cursor s (L s lease).sub))))
      Ctl.next (s, ip))

def loopK2 (lease : Cid) : State × AddrV → Option (State × Bool) :=
  (fun (s, ip) =>
    if (!(ip != AddrV.invalid)) then
      some (s, true)
    else
      let s := updL s lease (fun l => { l with offer := AddrV.toOpt ip })
      some (s, false))

def loopK1 (cfg : Cfg) (fuel : Nat) (lease : Cid) : State × AddrV → Option (State × Bool) :=
  (fun (s, ip) =>
    if (ip != AddrV.invalid) then
      let s := updL s lease (fun l => { l with offer := AddrV.toOpt ip })
      some (s, false)
    else
      let s := setCursor s (L s lease).sub (AddrV.toNat (AddrV.v4 (cfg.sub (L s lease).sub).first))
      whileLoop fuel (s, ip) (loopCond cfg lease) (loopBody cfg lease) (loopK2 lease))

theorem allocIPOffer_unfold (cfg : Cfg) (fuel : Nat) (s : State) (c : Cid) (req : AddrV) :
    Handler_allocIPOffer cfg fuel s c req =
      if Handler_available cfg s c req then
        some (updL s c (fun l => { l with offer := AddrV.toOpt req }), false)
      else whileLoop fuel (s, AddrV.invalid) (loopCond cfg c) (loopBody cfg c) (loopK1 cfg fuel c) := rfl

theorem loopCond_eq (cfg : Cfg) (s : State) (c : Cid) (n : Nat) (ip0 : AddrV) :
    loopCond cfg c (setCursor s (L s c).sub n, ip0) = decide ((n : Nat) < ((cfg.sub (L s c).sub).bcast : Nat)) := by
  show AddrV.less (AddrV.v4 (cursor (setCursor s (L s c).sub n) (L (setCursor s (L s c).sub n) c).sub))
      (AddrV.v4 (cfg.sub (L (setCursor s (L s c).sub n) c).sub).bcast) = _
  rw [L_setCursor, cursor_setCursor]
  rfl

theorem loopBody_eq (cfg : Cfg) (s : State) (hu : KeysUnique s.table) (c : Cid) (n : Nat) (ip0 : AddrV)
    (hn : @LT.lt Nat _ (n + 1) 4294967296) :
    loopBody cfg c (setCursor s (L s c).sub n, ip0) =
      if available cfg s c (L s c).sub n then Ctl.brk (setCursor s (L s c).sub (n + 1), AddrV.v4 n)
      else Ctl.next (setCursor s (L s c).sub (n + 1), ip0) := by
  have hnext : AddrV.toNat (AddrV.next (AddrV.v4 n)) = n + 1 := by
    simp [AddrV.next, hn, AddrV.toNat]
  show (if (Handler_available cfg (setCursor s (L s c).sub n) c
            (AddrV.v4 (cursor (setCursor s (L s c).sub n) (L (setCursor s (L s c).sub n) c).sub))) then
          Ctl.brk (setCursor (setCursor s (L s c).sub n) (L (setCursor s (L s c).sub n) c).sub
            (AddrV.toNat (AddrV.next (AddrV.v4 (cursor (setCursor s (L s c).sub n) (L (setCursor s (L s c).sub n) c).sub)))),
            AddrV.v4 (cursor (setCursor s (L s c).sub n) (L (setCursor s (L s c).sub n) c).sub))
        else
          Ctl.next (setCursor (setCursor s (L s c).sub n) (L (setCursor s (L s c).sub n) c).sub
            (AddrV.toNat (AddrV.next (AddrV.v4 (cursor (setCursor s (L s c).sub n) (L (setCursor s (L s c).sub n) c).sub)))),
            ip0)) = _
  rw [L_setCursor, cursor_setCursor, available_tie cfg _ (keysUnique_setCursor _ _ hu), L_setCursor, available_setCursor,
    setCursor_setCursor, hnext]

/-- the Go cursor loop computes the model's `scanAux` -/
theorem loop_scan (cfg : Cfg) (s : State) (hu : KeysUnique s.table) (c : Cid)
    (K : State × AddrV → Option (State × Bool)) (ip0 : AddrV)
    (hb : @LT.lt Nat _ (cfg.sub (L s c).sub).bcast 4294967296) :
    ∀ (k n fuel : Nat), @Eq Nat k ((cfg.sub (L s c).sub).bcast - n) → k ≤ fuel →
      whileLoop fuel (setCursor s (L s c).sub n, ip0) (loopCond cfg c) (loopBody cfg c) K
        = K (match scanAux (available cfg s c (L s c).sub) n k with
             | (some ip, cur) => (setCursor s (L s c).sub cur, AddrV.v4 ip)
             | (none, cur) => (setCursor s (L s c).sub cur, ip0)) := by
  intro k
  induction k with
  | zero =>
    intro n fuel hk _
    have hc : loopCond cfg c (setCursor s (L s c).sub n, ip0) = false := by
      rw [loopCond_eq]
      apply decide_eq_false
      omega
    rw [whileLoop_false _ _ _ _ _ hc]
    rfl
  | succ k ih =>
    intro n fuel hk hfu
    have hlt : @LT.lt Nat _ n (cfg.sub (L s c).sub).bcast := by omega
    have hc : loopCond cfg c (setCursor s (L s c).sub n, ip0) = true := by
      rw [loopCond_eq]
      exact decide_eq_true hlt
    cases fuel with
    | zero => omega
    | succ f =>
      rw [whileLoop_succ _ _ _ _ _ hc, loopBody_eq cfg s hu c n ip0 (by omega), scanAux_succ]
      cases hav : available cfg s c (L s c).sub n with
      | true => simp
      | false =>
        simp only [Bool.false_eq_true, if_false]
        exact ih (n + 1) f (by omega) (by omega)

/-- the two loops after the requested address failed -/
theorem alloc_scans (cfg : Cfg) (fuel : Nat) (s : State) (hu : KeysUnique s.table) (c : Cid)
    (hb : (cfg.sub (L s c).sub).bcast < 4294967296) (hf : (cfg.sub (L s c).sub).bcast ≤ fuel) :
    whileLoop fuel (s, AddrV.invalid) (loopCond cfg c) (loopBody cfg c) (loopK1 cfg fuel c) =
      some (match (match scan (available cfg s c (L s c).sub) (cursor s (L s c).sub) (cfg.sub (L s c).sub).bcast with
                   | (some ip, cur) => (some ip, cur)
                   | (none, _) => scan (available cfg s c (L s c).sub) (cfg.sub (L s c).sub).first (cfg.sub (L s c).sub).bcast) with
        | (some ip, cur) => (updL (setCursor s (L s c).sub cur) c (fun l => { l with offer := some ip }), false)
        | (none, cur) => (setCursor s (L s c).sub cur, true)) := by
  have hb' : @LT.lt Nat _ (cfg.sub (L s c).sub).bcast 4294967296 := hb
  have hf' : @LE.le Nat _ (cfg.sub (L s c).sub).bcast fuel := hf
  have hf1 : @LE.le Nat _ ((cfg.sub (L s c).sub).bcast - cursor s (L s c).sub) fuel := by omega
  have hf2 : @LE.le Nat _ ((cfg.sub (L s c).sub).bcast - (cfg.sub (L s c).sub).first) fuel := by omega
  have h1 := loop_scan cfg s hu c (loopK1 cfg fuel c) AddrV.invalid hb' _ (cursor s (L s c).sub) fuel rfl hf1
  rw [setCursor_cursor] at h1
  rw [h1]
  unfold scan
  generalize scanAux (available cfg s c (L s c).sub) (cursor s (L s c).sub)
    ((cfg.sub (L s c).sub).bcast - cursor s (L s c).sub) = r1
  obtain ⟨o1, cur1⟩ := r1
  cases o1 with
  | some ip => rfl
  | none =>
    show whileLoop fuel (setCursor (setCursor s (L s c).sub cur1) (L (setCursor s (L s c).sub cur1) c).sub
        (AddrV.toNat (AddrV.v4 (cfg.sub (L (setCursor s (L s c).sub cur1) c).sub).first)), AddrV.invalid)
        (loopCond cfg c) (loopBody cfg c) (loopK2 c) = _
    rw [L_setCursor, setCursor_setCursor]
    show whileLoop fuel (setCursor s (L s c).sub (cfg.sub (L s c).sub).first, AddrV.invalid)
        (loopCond cfg c) (loopBody cfg c) (loopK2 c) = _
    rw [loop_scan cfg s hu c (loopK2 c) AddrV.invalid hb' _ (cfg.sub (L s c).sub).first fuel rfl hf2]
    show _ = some (match scanAux (available cfg s c (L s c).sub) (cfg.sub (L s c).sub).first
        ((cfg.sub (L s c).sub).bcast - (cfg.sub (L s c).sub).first) with
        | (some ip, cur) => (updL (setCursor s (L s c).sub cur) c (fun l => { l with offer := some ip }), false)
        | (none, cur) => (setCursor s (L s c).sub cur, true))
    generalize scanAux (available cfg s c (L s c).sub) (cfg.sub (L s c).sub).first
      ((cfg.sub (L s c).sub).bcast - (cfg.sub (L s c).sub).first) = r2
    obtain ⟨o2, cur2⟩ := r2
    cases o2 <;> rfl

theorem allocIPOffer_tie (cfg : Cfg) (fuel : Nat) (s : State) (hu : KeysUnique s.table) (c : Cid) (req : AddrV)
    (hb : (cfg.sub (L s c).sub).bcast < 4294967296) (hf : (cfg.sub (L s c).sub).bcast ≤ fuel) :
    Handler_allocIPOffer cfg fuel s c req =
      some (match allocIPOffer cfg s c (L s c).sub req with
        | (some ip, cur) => (updL (setCursor s (L s c).sub cur) c (fun l => { l with offer := some ip }), false)
        | (none, cur) => (setCursor s (L s c).sub cur, true)) := by
  rw [allocIPOffer_unfold]
  have hs := alloc_scans cfg fuel s hu c hb hf
  cases req with
  | invalid =>
    rw [available_not4 cfg s c _ rfl]
    simp only [Bool.false_eq_true, if_false]
    rw [hs]; rfl
  | v6 =>
    rw [available_not4 cfg s c _ rfl]
    simp only [Bool.false_eq_true, if_false]
    rw [hs]; rfl
  | v4 a =>
    rw [available_tie cfg s hu c a]
    cases hav : available cfg s c (L s c).sub a with
    | true =>
      simp only [if_true]
      unfold allocIPOffer
      simp only [hav, if_true, setCursor_cursor]
      rfl
    | false =>
      simp only [Bool.false_eq_true, if_false]
      rw [hs]
      unfold allocIPOffer
      simp only [hav, Bool.false_eq_true, if_false]
      rfl

end PV.Lemmas.DhcpSrvTie
